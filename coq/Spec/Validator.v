(* A strict validator for the chunk structure of a PNG/APNG stream, written from the PNG and APNG specifications
   (ordering rules only; lengths, CRCs, zlib streams and filter bytes are checked on the bytes by the harness's
   independent validator).  A stream is abstracted to the list of its chunk kinds. *)
From Coq Require Import List Arith Bool Lia.
Import ListNotations.

Inductive ck :=
| KIHDR | KPLTE | KIDAT | KIEND
| KACTL (frames : nat)
| KFCTL (seq : nat)
| KFDAT (seq : nat)
| KANC.                         (* any ancillary chunk that may appear anywhere between IHDR and IEND (text, pHYs, private ...) *)

Inductive phase :=
| PStart                        (* nothing seen *)
| PHeader                       (* after IHDR, before the first IDAT *)
| PIdat                         (* inside the IDAT run *)
| PAfter                        (* after a complete data run *)
| PFctl                         (* after an fcTL that follows image data: its fdAT run must come next *)
| PFdat                         (* inside an fdAT run *)
| PEnd                          (* after IEND *)
| PBad.

Record vstate := mk_v {
  ph : phase;
  actl : option nat;            (* acTL seen: declared number of frames *)
  plte : bool;
  next_seq : nat;               (* next expected sequence number *)
  frames : nat;                 (* fcTL chunks seen *)
  fctl_before_idat : bool       (* an fcTL was seen in the header: the IDAT image is the first frame *)
}.

Definition v0 : vstate := mk_v PStart None false 0 0 false.
Definition bad (v : vstate) : vstate := mk_v PBad (actl v) (plte v) (next_seq v) (frames v) (fctl_before_idat v).
Definition to (p : phase) (v : vstate) : vstate := mk_v p (actl v) (plte v) (next_seq v) (frames v) (fctl_before_idat v).

Definition vstep (v : vstate) (c : ck) : vstate :=
  match ph v, c with
  | PStart, KIHDR => to PHeader v
  | PStart, _ => bad v
  | PEnd, _ => bad v
  | PBad, _ => v
  | _, KIHDR => bad v                                            (* second IHDR *)
  | PHeader, KACTL n => match actl v with None => if n =? 0 then bad v else mk_v PHeader (Some n) (plte v) (next_seq v) (frames v) (fctl_before_idat v) | Some _ => bad v end
  | _, KACTL _ => bad v                                          (* acTL after IDAT *)
  | PHeader, KPLTE => if plte v then bad v else mk_v PHeader (actl v) true (next_seq v) (frames v) (fctl_before_idat v)
  | _, KPLTE => bad v
  | PHeader, KFCTL q =>
    match actl v with
    | Some _ => if (q =? next_seq v) && negb (fctl_before_idat v) then mk_v PHeader (actl v) (plte v) (S q) (S (frames v)) true else bad v
    | None => bad v
    end
  | PHeader, KIDAT => to PIdat v
  | PHeader, KANC => v
  | PHeader, KFDAT _ => bad v
  | PHeader, KIEND => bad v                                      (* no image data *)
  | PIdat, KIDAT => v
  | PIdat, KANC => to PAfter v
  | PIdat, KIEND => match actl v with Some n => if frames v =? n then to PEnd v else bad v | None => to PEnd v end
  | PIdat, KFCTL q => match actl v with Some _ => if q =? next_seq v then mk_v PFctl (actl v) (plte v) (S q) (S (frames v)) (fctl_before_idat v) else bad v | None => bad v end
  | PIdat, KFDAT _ => bad v                                      (* frame data without frame control *)
  | PAfter, KIDAT => bad v                                       (* IDAT chunks not consecutive *)
  | PAfter, KANC => v
  | PAfter, KIEND => match actl v with Some n => if frames v =? n then to PEnd v else bad v | None => to PEnd v end
  | PAfter, KFCTL q => match actl v with Some _ => if q =? next_seq v then mk_v PFctl (actl v) (plte v) (S q) (S (frames v)) (fctl_before_idat v) else bad v | None => bad v end
  | PAfter, KFDAT _ => bad v
  | PFctl, KFDAT q => if q =? next_seq v then mk_v PFdat (actl v) (plte v) (S q) (frames v) (fctl_before_idat v) else bad v
  | PFctl, KANC => v
  | PFctl, _ => bad v                                            (* fcTL not followed by its frame data *)
  | PFdat, KFDAT q => if q =? next_seq v then mk_v PFdat (actl v) (plte v) (S q) (frames v) (fctl_before_idat v) else bad v
  | PFdat, KANC => to PAfter v
  | PFdat, KIEND => match actl v with Some n => if frames v =? n then to PEnd v else bad v | None => bad v end
  | PFdat, KFCTL q => if q =? next_seq v then mk_v PFctl (actl v) (plte v) (S q) (S (frames v)) (fctl_before_idat v) else bad v
  | PFdat, KIDAT => bad v                                        (* IDAT only for the first image *)
  end.

Definition vrun (v : vstate) (l : list ck) : vstate := fold_left vstep l v.
Definition conformant (l : list ck) : bool := match ph (vrun v0 l) with PEnd => true | _ => false end.
