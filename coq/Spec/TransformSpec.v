(* The documented output transformations (EXPAND, STRIP_16, ALPHA), written pixel-wise from the
   documentation of png::Transformations / the PNG specification.  Shares nothing with the crate's loops.
   [pal], [trns] are the PLTE payload and the tRNS payload as the decoder stores them (for grey/RGB images
   of depth < 16 the stored key is the low byte of each 16-bit tRNS sample). *)
From PngV Require Import Base.Bytes.

Definition s_expand (t : Z) : bool := Z.testbit t 4 || Z.testbit t 16.   (* EXPAND or ALPHA *)
Definition s_alpha (t : Z) : bool := Z.testbit t 16.
Definition s_strip (t : Z) : bool := Z.testbit t 0.

Definition nsamples (c : Z) : Z := if (c =? 0) || (c =? 3) then 1 else if c =? 2 then 3 else if c =? 4 then 2 else 4.

Definition nthz (l : list Z) (i : Z) : Z := if i <? 0 then 0 else nth (Z.to_nat i) l 0.

(* j-th sample of a packed scanline *)
Definition sample (row : list Z) (depth j : Z) : Z :=
  if depth =? 16 then be16 (nthz row (2 * j)) (nthz row (2 * j + 1))
  else if depth =? 8 then nthz row j
  else let bit := j * depth in
       Z.land (Z.shiftr (nthz row (bit / 8)) (8 - depth - bit mod 8)) (2 ^ depth - 1).

Fixpoint zrange (start : Z) (n : nat) : list Z := match n with O => [] | S n' => start :: zrange (start + 1) n' end.

Definition pixel (row : list Z) (color depth k : Z) : list Z :=
  map (fun c => sample row depth (k * nsamples color + c)) (zrange 0 (Z.to_nat (nsamples color))).

(* scaling to 8 bits by bit replication *)
Definition replicate (d v : Z) : Z :=
  fold_left (fun acc i => acc + Z.shiftl v (i * d)) (zrange 0 (Z.to_nat (8 / d))) 0.

Definition pal_entries (pal : list Z) : Z := Z.min (zlen pal / 3) 256.
Definition pal_rgb (pal : list Z) (idx : Z) : list Z :=
  if idx <? pal_entries pal then [nthz pal (3 * idx); nthz pal (3 * idx + 1); nthz pal (3 * idx + 2)] else [0; 0; 0].
Definition pal_alpha (pal trns : list Z) (idx : Z) : Z :=
  if (zlen trns <=? pal_entries pal) && (idx <? zlen trns) then nthz trns idx else 255.

Definition opt_list (o : option (list Z)) : list Z := match o with Some l => l | None => [] end.
Definition present {A} (o : option A) : bool := match o with Some _ => true | None => false end.

(* big-endian bytes of the samples of a pixel at the given depth (8 or 16) *)
Definition ser (depth : Z) (smp : list Z) : list Z :=
  flat_map (fun v => if depth =? 16 then [v / 256; v mod 256] else [v]) smp.

(* output colour type and bit depth *)
Definition spec_output_type (color depth : Z) (has_trns : bool) (t : Z) : Z * Z :=
  let alpha := s_expand t && (has_trns || s_alpha t) in
  let c := if s_expand t then
             (if color =? 3 then (if alpha then 6 else 2)
              else if color =? 0 then (if alpha then 4 else 0)
              else if color =? 2 then (if alpha then 6 else 2)
              else color)
           else color in
  let d := if (depth =? 16) && s_strip t then 8
           else if (depth <? 8) && s_expand t then 8 else depth in
  (c, d).

(* one pixel: list of output BYTES *)
Definition convert_pixel (color depth : Z) (pal trns : option (list Z)) (t : Z) (px : list Z) : list Z :=
  let add_alpha := s_expand t && (present trns || s_alpha t) in
  if (color =? 3) && s_expand t then
    let idx := hd 0 px in
    pal_rgb (opt_list pal) idx ++ (if add_alpha then [pal_alpha (opt_list pal) (opt_list trns) idx] else [])
  else if ((color =? 0) || (color =? 4)) && (depth <? 8) && s_expand t then
    let v := hd 0 px in
    replicate depth v :: (if add_alpha then [match trns with Some (k :: _) => if v =? k then 0 else 255 | _ => 255 end] else [])
  else
    let strip := (depth =? 16) && s_strip t in
    let raw := ser depth px in                        (* the pixel's bytes as stored *)
    let body := if strip then map (fun v => v / 256) px else raw in
    if ((color =? 0) || (color =? 2)) && add_alpha then
      let is_key := match trns with Some k => list_eqb raw k | None => false end in
      body ++ (if (depth =? 16) && negb strip then (if is_key then [0; 0] else [255; 255])
               else [if is_key then 0 else 255])
    else body.

(* the documented conversion of a scanline of [width] pixels; for depth < 8 without expansion (and in every
   other case where no rule applies) the bytes are returned unchanged *)
Definition spec_convert (color depth : Z) (pal trns : option (list Z)) (t : Z) (width : Z) (row : list Z) : list Z :=
  let changes :=
      ((color =? 3) && s_expand t)
      || (((color =? 0) || (color =? 4)) && (depth <? 8) && s_expand t)
      || (((color =? 0) || (color =? 2)) && s_expand t && (present trns || s_alpha t))
      || ((depth =? 16) && s_strip t) in
  if changes then
    flat_map (fun k => convert_pixel color depth pal trns t (pixel row color depth k)) (zrange 0 (Z.to_nat width))
  else row.

(* bytes of a scanline of [width] pixels *)
Definition spec_row_bytes (color depth width : Z) : Z := (width * nsamples color * depth + 7) / 8.
