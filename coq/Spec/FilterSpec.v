(* PNG specification, section 9 (Filtering), written byte-wise.  Shares nothing with the crate.
   x = byte being (un)filtered, a = the byte [bpp] positions earlier in the same scanline (0 if none),
   b = the byte at the same position in the prior scanline (0 if none / first row),
   c = the byte [bpp] positions earlier in the prior scanline (0 if none). *)
From PngV Require Import Base.Bytes.

Inductive ftype := FNone | FSub | FUp | FAvg | FPaeth.

Definition ftype_of_Z (n : Z) : option ftype :=
  if n =? 0 then Some FNone else if n =? 1 then Some FSub else if n =? 2 then Some FUp
  else if n =? 3 then Some FAvg else if n =? 4 then Some FPaeth else None.
Definition ftype_to_Z (f : ftype) : Z :=
  match f with FNone => 0 | FSub => 1 | FUp => 2 | FAvg => 3 | FPaeth => 4 end.

(* Paeth predictor exactly as in the specification text: ties resolved in the order a, b, c *)
Definition paeth_spec (a b c : Z) : Z :=
  let p := a + b - c in
  let pa := Z.abs (p - a) in
  let pb := Z.abs (p - b) in
  let pc := Z.abs (p - c) in
  if (pa <=? pb) && (pa <=? pc) then a else if pb <=? pc then b else c.

(* [P] is the Paeth predictor in use; the specification is [predictor paeth_spec] *)
Definition predictor (P : Z -> Z -> Z -> Z) (ft : ftype) (a b c : Z) : Z :=
  match ft with
  | FNone => 0
  | FSub => a
  | FUp => b
  | FAvg => (a + b) / 2            (* floor of half the 9-bit sum *)
  | FPaeth => P a b c
  end.

Definition recon_byte P ft (x a b c : Z) : Z := (x + predictor P ft a b c) mod 256.
Definition filt_byte P ft (x a b c : Z) : Z := (x - predictor P ft a b c) mod 256.

(* The windows [wa]/[wc] hold the last [bpp] bytes of the reconstructed / prior scanline, oldest first:
   their head is "the byte bpp positions earlier".  An absent prior scanline reads as zeros. *)
Fixpoint recon_win P ft (wa wc filt prior : list Z) : list Z :=
  match filt with
  | [] => []
  | x :: filt' =>
    let b := hd 0 prior in
    let r := recon_byte P ft x (hd 0 wa) b (hd 0 wc) in
    r :: recon_win P ft (tl wa ++ [r]) (tl wc ++ [b]) filt' (tl prior)
  end.

Fixpoint filt_win P ft (wa wc raw prior : list Z) : list Z :=
  match raw with
  | [] => []
  | x :: raw' =>
    let b := hd 0 prior in
    filt_byte P ft x (hd 0 wa) b (hd 0 wc)
      :: filt_win P ft (tl wa ++ [x]) (tl wc ++ [b]) raw' (tl prior)
  end.

Definition zeros (n : nat) : list Z := repeatz 0 n.

(* the specification's reconstruction / filtering of one scanline *)
Definition recon_spec (ft : ftype) (bpp : nat) (prior filt : list Z) : list Z :=
  recon_win paeth_spec ft (zeros bpp) (zeros bpp) filt prior.
Definition filt_spec (ft : ftype) (bpp : nat) (prior raw : list Z) : list Z :=
  filt_win paeth_spec ft (zeros bpp) (zeros bpp) raw prior.

(* whole images: a list of (filter type, filtered row); the first row has no prior row *)
Fixpoint recon_rows (bpp : nat) (prior : list Z) (rows : list (ftype * list Z)) : list (list Z) :=
  match rows with
  | [] => []
  | (ft, r) :: rows' => let o := recon_spec ft bpp prior r in o :: recon_rows bpp o rows'
  end.
