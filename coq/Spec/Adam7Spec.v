(* PNG specification, section 8.2 (Adam7): the pass of a pixel is given by the 8x8 pattern; within a pass
   pixels are transmitted row by row, left to right.  Shares nothing with the crate. *)
From PngV Require Import Base.Bytes.

Definition adam7_pattern : list (list Z) :=
  [ [1; 6; 4; 6; 2; 6; 4; 6];
    [7; 7; 7; 7; 7; 7; 7; 7];
    [5; 6; 5; 6; 5; 6; 5; 6];
    [7; 7; 7; 7; 7; 7; 7; 7];
    [3; 6; 4; 6; 3; 6; 4; 6];
    [7; 7; 7; 7; 7; 7; 7; 7];
    [5; 6; 5; 6; 5; 6; 5; 6];
    [7; 7; 7; 7; 7; 7; 7; 7] ].

(* the pass (1..7) that carries pixel (x, y) *)
Definition pass_of (x y : Z) : Z :=
  nth (Z.to_nat (x mod 8)) (nth (Z.to_nat (y mod 8)) adam7_pattern []) 0.

(* destination image as a function from byte index to byte value; bit q of the image, most significant
   bit of each byte first (PNG packs the leftmost pixel into the high-order bits) *)
Definition img := Z -> Z.
Definition get_bit (m : img) (q : Z) : bool := Z.testbit (m (q / 8)) (7 - q mod 8).

(* pixel [px] (a number below 2^bits, or the big-endian value of its bytes) occupies bits
   [pos, pos+bits) of the image: bit j of the field (from the left) is bit (bits-1-j) of px *)
Definition field_is (m : img) (pos bits px : Z) : Prop :=
  forall j, 0 <= j < bits -> get_bit m (pos + j) = Z.testbit px (bits - 1 - j).

(* ---- the pass table of the specification (section 8.2: starting column/row and increments), and the
   rows an interlaced image consists of: for each pass 1..7 in order, the pass image has
   ceil((w - xstart)/dx) x ceil((h - ystart)/dy) pixels, it is absent when either is zero, and its
   scanlines are transmitted top to bottom. *)
Definition adam7_spec_table : list (Z * (Z * Z * Z * Z)) :=   (* pass, (xstart, ystart, dx, dy) *)
  [(1, (0, 0, 8, 8)); (2, (4, 0, 8, 8)); (3, (0, 4, 4, 8)); (4, (2, 0, 4, 4));
   (5, (0, 2, 2, 4)); (6, (1, 0, 2, 2)); (7, (0, 1, 1, 2))].

Definition count_from (n start step : Z) : Z := if n <=? start then 0 else (n - start + step - 1) / step.

Fixpoint zseq_spec (start : Z) (n : nat) : list Z :=
  match n with O => [] | S n' => start :: zseq_spec (start + 1) n' end.

Definition rows_spec (w h : Z) : list (Z * Z * Z) :=
  flat_map (fun e : Z * (Z * Z * Z * Z) =>
    let '(p, (xs, ys, dx, dy)) := e in
    let pw := count_from w xs dx in
    let ph := count_from h ys dy in
    if (0 <? pw) && (0 <? ph) then map (fun l => (p, l, pw)) (zseq_spec 0 (Z.to_nat ph)) else [])
  adam7_spec_table.
