(* Extraction of the executable models and specifications to OCaml (ExtrOcamlBasic only:
   bool/option/list/prod/unit/sumbool mapped to OCaml's; Z, positive, nat stay inductive;
   no Extract Constant). Compiled from the build directory so that model.ml lands there. *)
Require Extraction.
Require Import ExtrOcamlBasic.
From PngV Require Import Base.Bytes Spec.FilterSpec Gen.GenPaeth Gen.GenAdam7 Model.Filter Spec.Adam7Spec Model.Adam7
  Base.Crc Base.Inflate Base.Utf8 Gen.GenStream Model.Stream Model.StreamRun Model.StreamExec Model.Pipeline Model.Transform Spec.TransformSpec Model.Reader Spec.Validator Model.Encoder Model.EncodePipeline Model.Text Model.MetaEnc Model.ZlibBuf Model.UnfiltBuf Model.StreamWriterBuf Model.WriterFail Model.FrameRect Model.RowCharge.
Extraction Language OCaml.
Extraction "model.ml"
  unfilter_model filter_model recon_spec filt_spec
  filter_paeth filter_paeth_stbi filter_paeth_stbi_i16 filter_paeth_fpnge
  filter_paeth_decode_x86_64 filter_paeth_decode_other filter_paeth_encode paeth_spec
  ftype_to_Z ftype_of_Z row_filter_from_u8
  rows_model pass_dims expand_pass_exec pass_of
  encode_image emitted conformant Reader.run Reader.reader_init Reader.total transform_row output_line_size output_color_type spec_convert spec_output_type decode_frame l0_run l0_budget l0_run_after_reset anc_get inflate_checked inflate_all utf8_valid crc32 adler32 zlib_inflate decode_latin1 encode_latin1 text_decompress_run
  enc_text enc_ztxt enc_itxt enc_fctl header_chunks K_mark zb_cursor_run zb_new cur_run sw_trace sw_init cw_trace f_history frun_codes rc_charged.
