Base/Bytes.vo Base/Bytes.glob Base/Bytes.v.beautified Base/Bytes.required_vo: Base/Bytes.v 
Base/Bytes.vio: Base/Bytes.v 
Base/Bytes.vos Base/Bytes.vok Base/Bytes.required_vos: Base/Bytes.v 
Gen/GenPaeth.vo Gen/GenPaeth.glob Gen/GenPaeth.v.beautified Gen/GenPaeth.required_vo: Gen/GenPaeth.v 
Gen/GenPaeth.vio: Gen/GenPaeth.v 
Gen/GenPaeth.vos Gen/GenPaeth.vok Gen/GenPaeth.required_vos: Gen/GenPaeth.v 
Gen/GenAdam7.vo Gen/GenAdam7.glob Gen/GenAdam7.v.beautified Gen/GenAdam7.required_vo: Gen/GenAdam7.v 
Gen/GenAdam7.vio: Gen/GenAdam7.v 
Gen/GenAdam7.vos Gen/GenAdam7.vok Gen/GenAdam7.required_vos: Gen/GenAdam7.v 
Spec/FilterSpec.vo Spec/FilterSpec.glob Spec/FilterSpec.v.beautified Spec/FilterSpec.required_vo: Spec/FilterSpec.v Base/Bytes.vo
Spec/FilterSpec.vio: Spec/FilterSpec.v Base/Bytes.vio
Spec/FilterSpec.vos Spec/FilterSpec.vok Spec/FilterSpec.required_vos: Spec/FilterSpec.v Base/Bytes.vos
Model/Filter.vo Model/Filter.glob Model/Filter.v.beautified Model/Filter.required_vo: Model/Filter.v Base/Bytes.vo Spec/FilterSpec.vo Gen/GenPaeth.vo
Model/Filter.vio: Model/Filter.v Base/Bytes.vio Spec/FilterSpec.vio Gen/GenPaeth.vio
Model/Filter.vos Model/Filter.vok Model/Filter.required_vos: Model/Filter.v Base/Bytes.vos Spec/FilterSpec.vos Gen/GenPaeth.vos
Proofs/PaethProofs.vo Proofs/PaethProofs.glob Proofs/PaethProofs.v.beautified Proofs/PaethProofs.required_vo: Proofs/PaethProofs.v Base/Bytes.vo Spec/FilterSpec.vo Gen/GenPaeth.vo
Proofs/PaethProofs.vio: Proofs/PaethProofs.v Base/Bytes.vio Spec/FilterSpec.vio Gen/GenPaeth.vio
Proofs/PaethProofs.vos Proofs/PaethProofs.vok Proofs/PaethProofs.required_vos: Proofs/PaethProofs.v Base/Bytes.vos Spec/FilterSpec.vos Gen/GenPaeth.vos
Proofs/ListX.vo Proofs/ListX.glob Proofs/ListX.v.beautified Proofs/ListX.required_vo: Proofs/ListX.v Base/Bytes.vo Model/Filter.vo
Proofs/ListX.vio: Proofs/ListX.v Base/Bytes.vio Model/Filter.vio
Proofs/ListX.vos Proofs/ListX.vok Proofs/ListX.required_vos: Proofs/ListX.v Base/Bytes.vos Model/Filter.vos
Proofs/FilterProofs.vo Proofs/FilterProofs.glob Proofs/FilterProofs.v.beautified Proofs/FilterProofs.required_vo: Proofs/FilterProofs.v Base/Bytes.vo Spec/FilterSpec.vo Gen/GenPaeth.vo Model/Filter.vo Proofs/ListX.vo Proofs/PaethProofs.vo
Proofs/FilterProofs.vio: Proofs/FilterProofs.v Base/Bytes.vio Spec/FilterSpec.vio Gen/GenPaeth.vio Model/Filter.vio Proofs/ListX.vio Proofs/PaethProofs.vio
Proofs/FilterProofs.vos Proofs/FilterProofs.vok Proofs/FilterProofs.required_vos: Proofs/FilterProofs.v Base/Bytes.vos Spec/FilterSpec.vos Gen/GenPaeth.vos Model/Filter.vos Proofs/ListX.vos Proofs/PaethProofs.vos
Proofs/FilterEncProofs.vo Proofs/FilterEncProofs.glob Proofs/FilterEncProofs.v.beautified Proofs/FilterEncProofs.required_vo: Proofs/FilterEncProofs.v Base/Bytes.vo Spec/FilterSpec.vo Gen/GenPaeth.vo Model/Filter.vo Proofs/ListX.vo Proofs/PaethProofs.vo Proofs/FilterProofs.vo
Proofs/FilterEncProofs.vio: Proofs/FilterEncProofs.v Base/Bytes.vio Spec/FilterSpec.vio Gen/GenPaeth.vio Model/Filter.vio Proofs/ListX.vio Proofs/PaethProofs.vio Proofs/FilterProofs.vio
Proofs/FilterEncProofs.vos Proofs/FilterEncProofs.vok Proofs/FilterEncProofs.required_vos: Proofs/FilterEncProofs.v Base/Bytes.vos Spec/FilterSpec.vos Gen/GenPaeth.vos Model/Filter.vos Proofs/ListX.vos Proofs/PaethProofs.vos Proofs/FilterProofs.vos
Props/C14.vo Props/C14.glob Props/C14.v.beautified Props/C14.required_vo: Props/C14.v Base/Bytes.vo Spec/FilterSpec.vo Gen/GenPaeth.vo Model/Filter.vo Proofs/PaethProofs.vo Proofs/FilterProofs.vo Proofs/FilterEncProofs.vo
Props/C14.vio: Props/C14.v Base/Bytes.vio Spec/FilterSpec.vio Gen/GenPaeth.vio Model/Filter.vio Proofs/PaethProofs.vio Proofs/FilterProofs.vio Proofs/FilterEncProofs.vio
Props/C14.vos Props/C14.vok Props/C14.required_vos: Props/C14.v Base/Bytes.vos Spec/FilterSpec.vos Gen/GenPaeth.vos Model/Filter.vos Proofs/PaethProofs.vos Proofs/FilterProofs.vos Proofs/FilterEncProofs.vos
Spec/Adam7Spec.vo Spec/Adam7Spec.glob Spec/Adam7Spec.v.beautified Spec/Adam7Spec.required_vo: Spec/Adam7Spec.v Base/Bytes.vo
Spec/Adam7Spec.vio: Spec/Adam7Spec.v Base/Bytes.vio
Spec/Adam7Spec.vos Spec/Adam7Spec.vok Spec/Adam7Spec.required_vos: Spec/Adam7Spec.v Base/Bytes.vos
Model/Adam7.vo Model/Adam7.glob Model/Adam7.v.beautified Model/Adam7.required_vo: Model/Adam7.v Base/Bytes.vo Spec/Adam7Spec.vo Gen/GenAdam7.vo
Model/Adam7.vio: Model/Adam7.v Base/Bytes.vio Spec/Adam7Spec.vio Gen/GenAdam7.vio
Model/Adam7.vos Model/Adam7.vok Model/Adam7.required_vos: Model/Adam7.v Base/Bytes.vos Spec/Adam7Spec.vos Gen/GenAdam7.vos
Proofs/Adam7Proofs.vo Proofs/Adam7Proofs.glob Proofs/Adam7Proofs.v.beautified Proofs/Adam7Proofs.required_vo: Proofs/Adam7Proofs.v Base/Bytes.vo Spec/Adam7Spec.vo Gen/GenAdam7.vo Model/Adam7.vo
Proofs/Adam7Proofs.vio: Proofs/Adam7Proofs.v Base/Bytes.vio Spec/Adam7Spec.vio Gen/GenAdam7.vio Model/Adam7.vio
Proofs/Adam7Proofs.vos Proofs/Adam7Proofs.vok Proofs/Adam7Proofs.required_vos: Proofs/Adam7Proofs.v Base/Bytes.vos Spec/Adam7Spec.vos Gen/GenAdam7.vos Model/Adam7.vos
