(* The L0 model instantiated with the executable reference inflater / UTF-8 validity, as run by the
   correspondence check (extracted to OCaml).  NO proofs in this file. *)
From PngV Require Import Base.Bytes Base.Crc Base.Inflate Base.Utf8 Gen.GenStream Model.Stream Model.StreamRun.

Definition zinf_ref (chk : bool) (inp : list Z) : list Z * dstatus :=
  let '(o, st) := zlib_inflate chk inp in
  (o, match st with ZNeedMore => DNeedMore | ZDone _ => DDone | ZError => DError end).

(* one-shot inflate as fdeflate::decompress_to_vec(_bounded) does it: Adler-32 always verified *)
Definition inflate_checked (z : list Z) : option (list Z) :=
  match zlib_inflate true z with (o, ZDone _) => Some o | _ => None end.

Definition opts_of_bits (b : Z) : options :=
  mk_opts (Z.testbit b 0) (Z.testbit b 1) (Z.testbit b 2) (Z.testbit b 3) (Z.testbit b 4).

Definition l0_run (optbits limit : Z) (sizes bs : list Z) : list oev * rend * option info_t :=
  observe (feed zinf_ref inflate_checked utf8_valid (init_state (opts_of_bits optbits) limit)
                (split_sched (S (length bs)) sizes bs)).

(* decode, reset, decode again with the same decoder (C18) *)
Definition l0_run_after_reset (optbits limit : Z) (first second : list Z) : list oev * rend * option info_t :=
  let '(s1, _, _) := feed zinf_ref inflate_checked utf8_valid (init_state (opts_of_bits optbits) limit) [first] in
  observe (feed zinf_ref inflate_checked utf8_valid (reset_model s1) [second]).

(* the remaining allocation budget (Limits::bytes) after the run: compared with the implementation's by the C06 check *)
Definition l0_budget (optbits limit : Z) (sizes bs : list Z) : Z :=
  let '(s, _, _) := feed zinf_ref inflate_checked utf8_valid (init_state (opts_of_bits optbits) limit)
                         (split_sched (S (length bs)) sizes bs) in
  budget s.
