(* Hand model of the metadata emission of the encoder: src/encoder.rs encode_header (order and sRGB rule), write_iccp_chunk,
   src/text_metadata.rs TEXtChunk/ZTXtChunk/ITXtChunk::encode, src/common.rs FrameControl::encode / AnimationControl::encode /
   ScaledFloat / SourceChromaticities / SrgbRenderingIntent encode.  Payload builders only (chunk framing = C12).  NO proofs here.
   Strings: keyword, Latin-1 text and language tag are lists of code points; translated keyword and iTXt text are the UTF-8 bytes
   of the Rust String (as_bytes is the identity on that representation). *)
From PngV Require Import Base.Bytes Base.Utf8 Gen.GenStream Model.Stream Model.Text.

Inductive menc_err := MUnrepresentable | MKeywordSize.

Definition enc_phys (x y u : Z) : list Z := to_be32 x ++ to_be32 y ++ [u].
Definition enc_gama (g : Z) : list Z := to_be32 g.
Definition enc_chrm (c : list Z) : list Z := flat_map to_be32 c.            (* white x,y, red x,y, green x,y, blue x,y *)
Definition enc_srgb (r : Z) : list Z := [r].
Definition enc_actl (frames plays : Z) : list Z := to_be32 frames ++ to_be32 plays.
Definition enc_fctl (f : fctl) : list Z :=
  to_be32 (fc_seq f) ++ to_be32 (fc_w f) ++ to_be32 (fc_h f) ++ to_be32 (fc_x f) ++ to_be32 (fc_y f) ++
  to_be16 (fc_dn f) ++ to_be16 (fc_dd f) ++ [fc_dispose f; fc_blend f].

Definition has_zero (l : list Z) : bool := existsb (Z.eqb 0) l.

(* encode_iso_8859_1(keyword)?; if data.is_empty() || data.len() > 79 -> InvalidKeywordSize; if data.contains(&0) -> Unrepresentable
   (after fix b862217: a keyword ends at the first zero byte of the chunk) *)
Definition enc_keyword (kw : list Z) : outcome (list Z) menc_err :=
  match encode_latin1 kw with
  | None => Err MUnrepresentable
  | Some b => if (length b =? 0)%nat || (79 <? length b)%nat then Err MKeywordSize
              else if has_zero b then Err MUnrepresentable else Ok b
  end.

Definition enc_text (kw txt : list Z) : outcome (list Z) menc_err :=
  match enc_keyword kw with
  | Ok k => match encode_latin1 txt with Some t => Ok (k ++ 0 :: t) | None => Err MUnrepresentable end
  | Err e => Err e
  | Panic p => Panic p
  end.

Section Codec.
Variable K : list Z -> list Z.                 (* ZlibEncoder(fast / default).write_all(x).finish() *)

Definition enc_ztxt (kw : list Z) (t : optc) : outcome (list Z) menc_err :=
  match enc_keyword kw with
  | Ok k =>
    match t with
    | Compressed v => Ok (k ++ 0 :: 0 :: v)
    | Uncompressed s => match encode_latin1 s with Some raw => Ok (k ++ 0 :: 0 :: K raw) | None => Err MUnrepresentable end
    end
  | Err e => Err e
  | Panic p => Panic p
  end.

Definition ascii_cps (l : list Z) : bool := forallb (fun c => (0 <=? c) && (c <? 128)) l.

(* uncompressed-in-memory text only (the compressed-in-memory variants go through the C20 state machine first) *)
Definition enc_itxt (kw : list Z) (compressed : bool) (lang trans txt : list Z) : outcome (list Z) menc_err :=
  match enc_keyword kw with
  | Ok k =>
    if negb (ascii_cps lang) || has_zero lang then Err MUnrepresentable
    else if has_zero trans then Err MUnrepresentable
    else Ok (k ++ 0 :: (if compressed then 1 else 0) :: 0 :: lang ++ 0 :: trans ++ 0 :: (if compressed then K txt else txt))
  | Err e => Err e
  | Panic p => Panic p
  end.

(* write_iccp_chunk("_", profile) *)
Definition enc_iccp (profile : list Z) : list Z := 95 :: 0 :: 0 :: K profile.

(* ---- encode_header: which colour-space chunks are written, in which order *)
Definition sub_gamma : Z := 45455.
Definition sub_chrm : list Z := [31270; 32900; 64000; 33000; 30000; 60000; 15000; 6000].
Definition list_eqb (a b : list Z) : bool := (length a =? length b)%nat && forallb (fun p => fst p =? snd p) (combine a b).

Record meta := mk_meta {
  m_phys : option (Z * Z * Z);
  m_srgb : option Z;
  m_gamma : option Z;
  m_chrm : option (list Z);
  m_icc : option (list Z);
  m_exif : option (list Z);
  m_actl : option (Z * Z);
  m_plte : option (list Z);
  m_trns : option (list Z)
}.

Definition opt_chunk {A} (ty : Z) (f : A -> list Z) (o : option A) : list (Z * list Z) :=
  match o with Some v => [(ty, f v)] | None => [] end.

Definition colour_chunks (m : meta) : list (Z * list Z) :=
  match m_srgb m with
  | Some r =>
    (ct_sRGB, enc_srgb r)
    :: (match m_gamma m with Some g => if g =? sub_gamma then [(ct_gAMA, enc_gama g)] else [] | None => [] end)
    ++ (match m_chrm m with Some c => if list_eqb c sub_chrm then [(ct_cHRM, enc_chrm c)] else [] | None => [] end)
  | None =>
    opt_chunk ct_gAMA enc_gama (m_gamma m) ++ opt_chunk ct_cHRM enc_chrm (m_chrm m) ++ opt_chunk ct_iCCP enc_iccp (m_icc m)
  end.

Definition header_chunks (m : meta) : list (Z * list Z) :=
  opt_chunk ct_pHYs (fun '(x, y, u) => enc_phys x y u) (m_phys m)
  ++ colour_chunks m
  ++ opt_chunk ct_eXIf (fun b => b) (m_exif m)
  ++ opt_chunk ct_acTL (fun '(f, p) => enc_actl f p) (m_actl m)
  ++ opt_chunk ct_PLTE (fun b => b) (m_plte m)
  ++ opt_chunk ct_tRNS (fun b => b) (m_trns m).
End Codec.

(* the documented accessors Info::gamma() / Info::chromaticities() on the decoder model's info *)
Definition info_gamma (i : info_t) : option (list Z) :=
  if anc_has KSrgb i then Some [sub_gamma] else anc_get KGama (i_anc i).
Definition info_chrm (i : info_t) : option (list Z) :=
  if anc_has KSrgb i then Some sub_chrm else anc_get KChrm (i_anc i).

(* executable instance for the correspondence check: compressed tails are replaced by the marker 256 followed by the raw data
   (the harness inflates the implementation's tail and compares) *)
Definition K_mark (raw : list Z) : list Z := 256 :: raw.
