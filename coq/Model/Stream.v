(* Hand model (L0) of src/decoder/stream.rs: StreamingDecoder::update / next_state / parse_u32 /
   parse_chunk and every per-chunk parser, over bytes as Z; the inflater (src/decoder/zlib.rs over
   fdeflate) is represented by its DENOTATION [zinf]: a pure function from the compressed prefix fed so far
   to (output determined so far, status).  The chopping of inflater output into ImageData events is not
   modelled (greedy here); observers merge it (DESIGN A.2).  NO proofs in this file. *)
From PngV Require Import Base.Bytes Base.Crc Gen.GenStream.
From RecordUpdate Require Import RecordSet.
Import RecordSetNotations.

(* ------------------------------------------------------------------ errors and events *)
Inductive fmt_err :=
| FCrcMismatch | FInvalidSignature | FMissingFctl | FMissingImageData | FChunkBeforeIhdr
| FAfterIdat | FBeforePlte | FAfterPlte | FOutsidePlteIdat | FDuplicateChunk | FApngOrder
| FShortPalette | FInvalidSbitChunkSize | FInvalidSbit | FPaletteRequired | FInvalidColorBitDepth
| FColorWithBadTrns | FInvalidDimensions | FInvalidBitDepth | FInvalidColorType | FInvalidDisposeOp
| FInvalidBlendOp | FInvalidUnit | FInvalidSrgbRenderingIntent | FUnknownCompressionMethod
| FUnknownFilterMethod | FUnknownInterlaceMethod | FBadSubFrameBounds | FCorruptFlateStream
| FNoMoreImageData | FBadTextEncoding | FFdatShorterThanFourBytes | FUnexpectedRestart | FChunkTooShort.

Inductive derr :=
| EIoEof                          (* DecodingError::IoError(UnexpectedEof) *)
| EFormat (f : fmt_err)
| EParamPolledAfterEnd | EParamPolledAfterFatal | EParamBufferSize
| ELimits.

Record fctl := mk_fctl { fc_seq : Z; fc_w : Z; fc_h : Z; fc_x : Z; fc_y : Z; fc_dn : Z; fc_dd : Z; fc_dispose : Z; fc_blend : Z }.

Inductive event :=
| ENothing
| EHeader (w h depth color : Z) (interlaced : bool)
| EChunkBegin (len ty : Z)
| EChunkComplete (crc ty : Z)
| EPixelDimensions (x y unit : Z)
| EAnimationControl (frames plays : Z)
| EFrameControl (f : fctl)
| EImageData
| EImageDataFlushed
| EPartialChunk (ty : Z)
| EImageEnd.

(* ------------------------------------------------------------------ Info *)
Inductive akey := KPalette | KTrns | KSbit | KPhys | KGama | KChrm | KSrgb | KIccp | KCicp | KMdcv | KClli | KExif | KBkgd.
Definition akey_eqb (a b : akey) : bool :=
  match a, b with
  | KPalette, KPalette | KTrns, KTrns | KSbit, KSbit | KPhys, KPhys | KGama, KGama | KChrm, KChrm
  | KSrgb, KSrgb | KIccp, KIccp | KCicp, KCicp | KMdcv, KMdcv | KClli, KClli | KExif, KExif | KBkgd, KBkgd => true
  | _, _ => false
  end.

(* text chunks: (kind 0 tEXt / 1 zTXt / 2 iTXt, keyword bytes, [compressed flag; language; translated keyword], payload bytes) *)
Record textrec := mk_text { t_kind : Z; t_keyword : list Z; t_compressed : bool; t_lang : list Z; t_trans : list Z; t_payload : list Z }.

Record info_t := mk_info {
  i_width : Z; i_height : Z; i_depth : Z; i_color : Z; i_interlaced : bool;
  i_anc : list (akey * list Z);          (* parsed ancillary values, canonical numeric form *)
  i_fctl : option fctl;
  i_actl : option (Z * Z);
  i_text : list textrec                  (* in file order per kind; printed per kind *)
}.
#[export] Instance eta_info : Settable _ := settable! mk_info <i_width; i_height; i_depth; i_color; i_interlaced; i_anc; i_fctl; i_actl; i_text>.

Fixpoint anc_get (k : akey) (l : list (akey * list Z)) : option (list Z) :=
  match l with [] => None | (k', v) :: l' => if akey_eqb k k' then Some v else anc_get k l' end.
Definition anc_has (k : akey) (i : info_t) : bool := match anc_get k (i_anc i) with Some _ => true | None => false end.
Definition anc_set (k : akey) (v : list Z) (i : info_t) : info_t := i <| i_anc := (k, v) :: i_anc i |>.

(* ------------------------------------------------------------------ state *)
Inductive u32kind := KSig1 | KSig2 | KLen | KType (len : Z) | KCrc (ty : Z) | KSeq.
Inductive sstate :=
| SU32 (k : u32kind) (acc : list Z)     (* |acc| = accumulated_count *)
| SRead (ty : Z) | SParse (ty : Z) | SImage (ty : Z).

Record options := mk_opts { o_ignore_adler : bool; o_ignore_crc : bool; o_ignore_text : bool; o_ignore_iccp : bool; o_skip_anc_crc : bool }.

Inductive dstatus := DNeedMore | DDone | DError.

(* inflater: compressed bytes fed since the last reset, number of output bytes already handed out,
   `started`, and the ignore_adler32 flag latched in the ZlibStream *)
Record zst := mk_zst { z_in : list Z; z_emitted : Z; z_started : bool; z_ignore_adler : bool }.
#[export] Instance eta_zst : Settable _ := settable! mk_zst <z_in; z_emitted; z_started; z_ignore_adler>.

Record dstate := mk_dstate {
  st : option sstate;
  c_type : Z; c_crc : Z; c_remaining : Z; c_raw : list Z; c_cap : Z;
  infl : zst;
  info : option info_t;
  seq : option Z;
  have_idat : bool; ready_idat : bool; ready_fdat : bool; have_iccp : bool;
  opts : options;
  budget : Z
}.
#[export] Instance eta_dstate : Settable _ :=
  settable! mk_dstate <st; c_type; c_crc; c_remaining; c_raw; c_cap; infl; info; seq; have_idat; ready_idat; ready_fdat; have_iccp; opts; budget>.

Definition USIZE_MAX : Z := 18446744073709551615.

Definition init_state (o : options) (limit : Z) : dstate :=
  {| st := Some (SU32 KSig1 []); c_type := 0; c_crc := crc_init; c_remaining := 0; c_raw := []; c_cap := CHUNK_BUFFER_SIZE;
     infl := {| z_in := []; z_emitted := 0; z_started := false; z_ignore_adler := o_ignore_adler o |};
     info := None; seq := None; have_idat := false; ready_idat := true; ready_fdat := false; have_iccp := false;
     opts := o; budget := limit |}.

(* StreamingDecoder::reset (after the D10 repair: every field that new_with_options initialises, except options,
   limits and the capacity of the chunk buffer) *)
Definition zreset (z : zst) : zst := {| z_in := []; z_emitted := 0; z_started := false; z_ignore_adler := z_ignore_adler z |}.

Section WithInflate.
(* [zinf check_adler prefix] = (output determined by the prefix, status) *)
Variable zinf : bool -> list Z -> list Z * dstatus.
(* one-shot bounded inflate used for iCCP (fdeflate::decompress_to_vec_bounded): None = corrupt *)
Variable zall : list Z -> option (list Z).
(* std::str::from_utf8(..).is_ok() *)
Variable utf8_valid : list Z -> bool.

Definition rres (A : Type) := outcome A derr.

(* ------------------------------------------------------------------ inflater wrapper (zlib.rs) *)
Definition z_done (z : zst) : bool :=
  match snd (zinf (negb (z_ignore_adler z)) (z_in z)) with DDone => z_started z | _ => false end.

(* ZlibStream::decompress: consumes all of [data] (greedy denotation), returns newly determined bytes.
   Data offered after the end of the zlib stream is consumed and ignored; the ghost input history [z_in] records it all the same (the
   denotation of an inflater that has finished does not change when more input follows - contract [zinf_done_stable] of
   Proofs/StreamWhole.v), which keeps the state a function of the bytes consumed and not of how they were cut into calls. *)
Definition z_decompress (z : zst) (data : list Z) : rres (zst * list Z) :=
  if z_done z then Ok (z <| z_in := z_in z ++ data |>, [])
  else
    let inp := z_in z ++ data in
    let '(out, stat) := zinf (negb (z_ignore_adler z)) inp in
    match stat with
    | DError => Err (EFormat FCorruptFlateStream)
    | _ => Ok (z <| z_in := inp |> <| z_emitted := zlen out |> <| z_started := true |>,
               skipn (Z.to_nat (z_emitted z)) out)
    end.

(* ZlibStream::finish_compressed_chunks *)
Definition z_finish (z : zst) : rres (zst * list Z) :=
  if negb (z_started z) then Ok (z, [])
  else
    let '(out, stat) := zinf (negb (z_ignore_adler z)) (z_in z) in
    match stat with
    | DDone => Ok (z <| z_emitted := zlen out |>, skipn (Z.to_nat (z_emitted z)) out)
    | _ => Err (EFormat FCorruptFlateStream)      (* insufficient input at end of the chunk sequence, or corrupt *)
    end.

(* ------------------------------------------------------------------ big-endian readers over the chunk buffer *)
Definition rd8 (b : list Z) : rres (Z * list Z) :=
  match b with x :: r => Ok (x, r) | _ => Err EIoEof end.
Definition rd16 (b : list Z) : rres (Z * list Z) :=
  match b with x :: y :: r => Ok (be16 x y, r) | _ => Err EIoEof end.
Definition rd32 (b : list Z) : rres (Z * list Z) :=
  match b with x :: y :: z :: w :: r => Ok (be32 x y z w, r) | _ => Err EIoEof end.

Notation "'do' ' p <- e ; f" := (obind e (fun p => f)) (at level 200, p pattern, e at level 100, f at level 200).

Definition reserve (s : dstate) (n : Z) : rres dstate :=
  if n <=? budget s then Ok (s <| budget := budget s - n |>) else Err ELimits.

Definition the_info (s : dstate) : info_t :=
  match info s with Some i => i | None => mk_info 0 0 8 0 false [] None None [] end.
Definition upd_info (s : dstate) (f : info_t -> info_t) : dstate := s <| info := Some (f (the_info s)) |>.

Definition depth_ok (d : Z) : bool := (d =? 1) || (d =? 2) || (d =? 4) || (d =? 8) || (d =? 16).
Definition color_ok (c : Z) : bool := (c =? 0) || (c =? 2) || (c =? 3) || (c =? 4) || (c =? 6).
Definition combination_invalid (c d : Z) : bool :=
  (((d =? 1) || (d =? 2) || (d =? 4)) && ((c =? 2) || (c =? 4) || (c =? 6))) || ((d =? 16) && (c =? 3)).
Definition samples_of (c : Z) : Z := if (c =? 0) || (c =? 3) then 1 else if c =? 2 then 3 else if c =? 4 then 2 else 4.

(* Info::validate *)
Definition validate_fctl (i : info_t) (f : fctl) : rres unit :=
  if (fc_w f =? 0) || (fc_h f =? 0) then Err (EFormat FInvalidDimensions)
  else
    let in_x := (fc_x f <=? i_width i) && (fc_w f <=? i_width i - fc_x f) in
    let in_y := (fc_y f <=? i_height i) && (fc_h f <=? i_height i - fc_y f) in
    if negb in_x || negb in_y then Err (EFormat FBadSubFrameBounds) else Ok tt.

(* ------------------------------------------------------------------ per-chunk parsers: dstate -> (dstate * result).
   A parser may have changed the state (budget, flags) before failing, exactly as the Rust code does. *)
Definition pres := (dstate * rres event)%type.

Definition parse_ihdr (s : dstate) : pres :=
  match info s with
  | Some _ => (s, Err (EFormat FDuplicateChunk))
  | None =>
    (s, do '(w, b) <- rd32 (c_raw s);
        do '(h, b) <- rd32 b;
        if (w =? 0) || (h =? 0) then Err (EFormat FInvalidDimensions) else
        do '(d, b) <- rd8 b;
        if negb (depth_ok d) then Err (EFormat FInvalidBitDepth) else
        do '(c, b) <- rd8 b;
        if negb (color_ok c) then Err (EFormat FInvalidColorType) else
        if combination_invalid c d then Err (EFormat FInvalidColorBitDepth) else
        do '(cm, b) <- rd8 b;
        if negb (cm =? 0) then Err (EFormat FUnknownCompressionMethod) else
        do '(fm, b) <- rd8 b;
        if negb (fm =? 0) then Err (EFormat FUnknownFilterMethod) else
        do '(il, b) <- rd8 b;
        if negb ((il =? 0) || (il =? 1)) then Err (EFormat FUnknownInterlaceMethod) else
        Ok (EHeader w h d c (il =? 1)))
  end.

Definition parse_ihdr_full (s : dstate) : pres :=
  match parse_ihdr s with
  | (s', Ok (EHeader w h d c il)) =>
    (s' <| info := Some (mk_info w h d c il [] None None []) |>, Ok (EHeader w h d c il))
  | r => r
  end.

Definition parse_fctl (s : dstate) : pres :=
  match rd32 (c_raw s) with
  | Ok (n, b) =>
    let expected := match seq s with Some q => q + 1 | None => 0 end in
    if negb (n =? expected) then (s, Err (EFormat FApngOrder))
    else
      let s := s <| seq := Some n |> <| infl := zreset (infl s) |> <| ready_fdat := true |> in
      (match
          (do '(w, b) <- rd32 b; do '(h, b) <- rd32 b; do '(x, b) <- rd32 b; do '(y, b) <- rd32 b;
           do '(dn, b) <- rd16 b; do '(dd, b) <- rd16 b;
           do '(dop, b) <- rd8 b;
           if negb ((dop =? 0) || (dop =? 1) || (dop =? 2)) then Err (EFormat FInvalidDisposeOp) else
           do '(bop, b) <- rd8 b;
           if negb ((bop =? 0) || (bop =? 1)) then Err (EFormat FInvalidBlendOp) else
           let f := mk_fctl n w h x y dn dd dop bop in
           do '_ <- validate_fctl (the_info s) f;
           Ok f)
        with
        | Ok f => (upd_info s (fun i => i <| i_fctl := Some f |>), Ok (EFrameControl f))
        | Err e => (s, Err e)
        | Panic p => (s, Panic p)
        end)
  | Err e => (s, Err e)
  | Panic p => (s, Panic p)
  end.

Definition parse_actl (s : dstate) : pres :=
  if have_idat s then (s, Err (EFormat FAfterIdat))
  else match (do '(f, b) <- rd32 (c_raw s); do '(p, b) <- rd32 b; Ok (f, p)) with
       | Ok (f, p) => (upd_info s (fun i => i <| i_actl := Some (f, p) |>), Ok (EAnimationControl f p))
       | Err e => (s, Err e) | Panic p => (s, Panic p)
       end.

Definition parse_plte (s : dstate) : pres :=
  if anc_has KPalette (the_info s) then (s, Err (EFormat FDuplicateChunk))
  else match reserve s (zlen (c_raw s)) with
       | Ok s => (upd_info s (anc_set KPalette (c_raw s)), Ok ENothing)
       | Err e => (s, Err e) | Panic p => (s, Panic p)
       end.

Definition sbit_expected (c : Z) : Z := if c =? 0 then 1 else if (c =? 2) || (c =? 3) then 3 else if c =? 4 then 2 else 4.

Definition parse_sbit (s : dstate) : pres :=
  let i := the_info s in
  if anc_has KPalette i then (s, Err (EFormat FAfterPlte))
  else if have_idat s then (s, Err (EFormat FAfterIdat))
  else if anc_has KSbit i then (s, Err (EFormat FDuplicateChunk))
  else
    let sample_depth := if i_color i =? 3 then 8 else i_depth i in
    match reserve s (zlen (c_raw s)) with
    | Ok s =>
      let v := c_raw s in
      if negb (sbit_expected (i_color i) =? zlen v) then (s, Err (EFormat FInvalidSbitChunkSize))
      else if existsb (fun b => (b <? 1) || (sample_depth <? b)) v then (s, Err (EFormat FInvalidSbit))
      else (upd_info s (anc_set KSbit v), Ok ENothing)
    | Err e => (s, Err e) | Panic p => (s, Panic p)
    end.

Definition parse_trns (s : dstate) : pres :=
  let i := the_info s in
  if anc_has KTrns i then (s, Err (EFormat FDuplicateChunk))
  else if have_idat s && negb (i_color i =? 3) then (s, Err (EFormat FAfterIdat))
  else match reserve s (zlen (c_raw s)) with
       | Ok s =>
         let v := c_raw s in
         let len := zlen v in
         if i_color i =? 0 then
           if len <? 2 then (s, Err (EFormat FShortPalette))
           else (upd_info s (anc_set KTrns (if i_depth i <? 16 then [nth 1 v 0] else v)), Ok ENothing)
         else if i_color i =? 2 then
           if len <? 6 then (s, Err (EFormat FShortPalette))
           else (upd_info s (anc_set KTrns (if i_depth i <? 16 then [nth 1 v 0; nth 3 v 0; nth 5 v 0] else v)), Ok ENothing)
         else if i_color i =? 3 then
           if negb (anc_has KPalette i) then (s, Err (EFormat FBeforePlte))
           else if have_idat s then (s, Err (EFormat FOutsidePlteIdat))
           else (upd_info s (anc_set KTrns v), Ok ENothing)
         else (s, Err (EFormat FColorWithBadTrns))
       | Err e => (s, Err e) | Panic p => (s, Panic p)
       end.

Definition parse_phys (s : dstate) : pres :=
  if have_idat s then (s, Err (EFormat FAfterIdat))
  else if anc_has KPhys (the_info s) then (s, Err (EFormat FDuplicateChunk))
  else match (do '(x, b) <- rd32 (c_raw s); do '(y, b) <- rd32 b; do '(u, b) <- rd8 b;
              if negb ((u =? 0) || (u =? 1)) then Err (EFormat FInvalidUnit) else Ok (x, y, u)) with
       | Ok (x, y, u) => (upd_info s (anc_set KPhys [x; y; u]), Ok (EPixelDimensions x y u))
       | Err e => (s, Err e) | Panic p => (s, Panic p)
       end.

Fixpoint rd32s (n : nat) (b : list Z) : rres (list Z * list Z) :=
  match n with
  | O => Ok ([], b)
  | S n' => do '(v, b) <- rd32 b; do '(vs, b) <- rd32s n' b; Ok (v :: vs, b)
  end.

Definition parse_chrm (s : dstate) : pres :=
  if have_idat s then (s, Err (EFormat FAfterIdat))
  else if anc_has KChrm (the_info s) then (s, Err (EFormat FDuplicateChunk))
  else match rd32s 8 (c_raw s) with
       | Ok (vs, _) => (upd_info s (anc_set KChrm vs), Ok ENothing)    (* white x y, red x y, green x y, blue x y *)
       | Err e => (s, Err e) | Panic p => (s, Panic p)
       end.

Definition parse_gama (s : dstate) : pres :=
  if have_idat s then (s, Err (EFormat FAfterIdat))
  else if anc_has KGama (the_info s) then (s, Err (EFormat FDuplicateChunk))
  else match rd32 (c_raw s) with
       | Ok (g, _) => (upd_info s (anc_set KGama [g]), Ok ENothing)
       | Err e => (s, Err e) | Panic p => (s, Panic p)
       end.

Definition parse_srgb (s : dstate) : pres :=
  if have_idat s then (s, Err (EFormat FAfterIdat))
  else if anc_has KSrgb (the_info s) then (s, Err (EFormat FDuplicateChunk))
  else match rd8 (c_raw s) with
       | Ok (r, _) => if (0 <=? r) && (r <=? 3) then (upd_info s (anc_set KSrgb [r]), Ok ENothing)
                      else (s, Err (EFormat FInvalidSrgbRenderingIntent))
       | Err e => (s, Err e) | Panic p => (s, Panic p)
       end.

Definition before_plte_and_idat (s : dstate) : bool := negb (have_idat s) && negb (anc_has KPalette (the_info s)).

Definition parse_cicp (s : dstate) : pres :=
  if before_plte_and_idat s && negb (anc_has KCicp (the_info s)) then
    match c_raw s with
    | [cp; tf; mc; fr] =>
      if ((fr =? 0) || (fr =? 1)) && (mc =? 0) then (upd_info s (anc_set KCicp [cp; tf; mc; fr]), Ok ENothing)
      else (s, Ok ENothing)
    | _ => (s, Ok ENothing)
    end
  else (s, Ok ENothing).

Definition parse_mdcv (s : dstate) : pres :=
  if before_plte_and_idat s && negb (anc_has KMdcv (the_info s)) then
    match c_raw s with
    | [r0;r1;r2;r3; g0;g1;g2;g3; b0;b1;b2;b3; w0;w1;w2;w3; x0;x1;x2;x3; n0;n1;n2;n3] =>
      (* stored as white x y, red x y, green x y, blue x y (scaled *2), max, min *)
      (upd_info s (anc_set KMdcv [be16 w0 w1 * 2; be16 w2 w3 * 2; be16 r0 r1 * 2; be16 r2 r3 * 2;
                                  be16 g0 g1 * 2; be16 g2 g3 * 2; be16 b0 b1 * 2; be16 b2 b3 * 2;
                                  be32 x0 x1 x2 x3; be32 n0 n1 n2 n3]), Ok ENothing)
    | _ => (s, Ok ENothing)
    end
  else (s, Ok ENothing).

Definition parse_clli (s : dstate) : pres :=
  if negb (anc_has KClli (the_info s)) then
    match c_raw s with
    | [a0;a1;a2;a3; b0;b1;b2;b3] => (upd_info s (anc_set KClli [be32 a0 a1 a2 a3; be32 b0 b1 b2 b3]), Ok ENothing)
    | _ => (s, Ok ENothing)
    end
  else (s, Ok ENothing).

Definition parse_exif (s : dstate) : pres :=
  if negb (anc_has KExif (the_info s)) then (upd_info s (anc_set KExif (c_raw s)), Ok ENothing)
  else (s, Ok ENothing).

Definition parse_bkgd (s : dstate) : pres :=
  let i := the_info s in
  if negb (anc_has KBkgd i) && negb (have_idat s) then
    if (i_color i =? 3) && negb (anc_has KPalette i) then (s, Ok ENothing)
    else
      let expected := if i_color i =? 3 then 1 else if (i_color i =? 0) || (i_color i =? 4) then 2 else 6 in
      if zlen (c_raw s) =? expected then (upd_info s (anc_set KBkgd (c_raw s)), Ok ENothing) else (s, Ok ENothing)
  else (s, Ok ENothing).

(* position of the first 0 byte *)
Fixpoint find0 (l : list Z) : option nat :=
  match l with
  | [] => None
  | x :: l' => if x =? 0 then Some O else option_map S (find0 l')
  end.

(* iCCP: profile name (1..79 bytes, NUL), compression method 0, zlib stream bounded by the remaining budget *)
Definition parse_iccp_raw (s : dstate) : pres :=
  let buf := c_raw s in
  (* `for len in 0..=80 { raw = read; if (raw==0 && len==0) || (raw!=0 && len==80) -> err; if raw==0 break }` *)
  match find0 (firstn 81 buf) with
  | None => (s, Err (if (length buf <? 81)%nat then EIoEof else EFormat FBadTextEncoding))
  | Some O => (s, Err (EFormat FBadTextEncoding))
  | Some k =>
    let rest := skipn (S k) buf in
    match rest with
    | [] => (s, Err EIoEof)
    | m :: z =>
      if negb (m =? 0) then (s, Err (EFormat FUnknownCompressionMethod))
      else match zall z with
           | None => (s, Err (EFormat FCorruptFlateStream))
           | Some profile =>
             if budget s <? zlen profile then (s, Err ELimits)
             else (upd_info (s <| budget := budget s - zlen profile |>) (anc_set KIccp profile), Ok ENothing)
           end
    end
  end.

Definition parse_iccp (s : dstate) : pres :=
  if have_idat s then (s, Err (EFormat FAfterIdat))
  else if have_iccp s then (s, Ok ENothing)
  else
    let s := s <| have_iccp := true |> in
    (* `let _ = self.parse_iccp_raw();` : every error of the raw parser is discarded *)
    (fst (parse_iccp_raw s), Ok ENothing).

Definition split_keyword (buf : list Z) : rres (list Z * list Z) :=
  match find0 buf with
  | None => Err (EFormat FBadTextEncoding)
  | Some k => if (k =? 0)%nat || (79 <? k)%nat then Err (EFormat FBadTextEncoding)
              else Ok (firstn k buf, skipn (S k) buf)
  end.

Definition add_text (s : dstate) (t : textrec) : dstate := upd_info s (fun i => i <| i_text := i_text i ++ [t] |>).

Definition parse_text (s : dstate) : pres :=
  match reserve s (zlen (c_raw s)) with
  | Ok s => match split_keyword (c_raw s) with
            | Ok (kw, v) => (add_text s (mk_text 0 kw false [] [] v), Ok ENothing)
            | Err e => (s, Err e) | Panic p => (s, Panic p)
            end
  | Err e => (s, Err e) | Panic p => (s, Panic p)
  end.

Definition parse_ztxt (s : dstate) : pres :=
  match reserve s (zlen (c_raw s)) with
  | Ok s => match split_keyword (c_raw s) with
            | Ok (kw, v) =>
              match v with
              | [] => (s, Err (EFormat FBadTextEncoding))
              | m :: txt => if negb (m =? 0) then (s, Err (EFormat FBadTextEncoding))
                            else (add_text s (mk_text 1 kw true [] [] txt), Ok ENothing)
              end
            | Err e => (s, Err e) | Panic p => (s, Panic p)
            end
  | Err e => (s, Err e) | Panic p => (s, Panic p)
  end.

Definition is_ascii (l : list Z) : bool := forallb (fun b => b <? 128) l.

Definition parse_itxt (s : dstate) : pres :=
  match reserve s (zlen (c_raw s)) with
  | Ok s =>
    match split_keyword (c_raw s) with
    | Ok (kw, v) =>
      match v with
      | [] => (s, Err (EFormat FBadTextEncoding))            (* MissingCompressionFlag *)
      | [_] => (s, Err (EFormat FBadTextEncoding))           (* InvalidCompressionMethod (.get(1)) *)
      | flag :: meth :: r =>
        match find0 r with
        | None => (s, Err (EFormat FBadTextEncoding))
        | Some k2 =>
          let lang := firstn k2 r in
          let r2 := skipn (S k2) r in
          match find0 r2 with
          | None => (s, Err (EFormat FBadTextEncoding))
          | Some k3 =>
            let trans := firstn k3 r2 in
            let txt := skipn (S k3) r2 in
            (* ITXtChunk::decode *)
            if negb ((flag =? 0) || (flag =? 1)) then (s, Err (EFormat FBadTextEncoding))
            else if (flag =? 1) && negb (meth =? 0) then (s, Err (EFormat FBadTextEncoding))
            else if negb (is_ascii lang) then (s, Err (EFormat FBadTextEncoding))
            else if negb (utf8_valid trans) then (s, Err (EFormat FBadTextEncoding))
            else if (flag =? 0) && negb (utf8_valid txt) then (s, Err (EFormat FBadTextEncoding))
            else (add_text s (mk_text 2 kw (flag =? 1) lang trans txt), Ok ENothing)
          end
        end
      end
    | Err e => (s, Err e) | Panic p => (s, Panic p)
    end
  | Err e => (s, Err e) | Panic p => (s, Panic p)
  end.

Definition is_benign (ty : Z) : bool := existsb (Z.eqb ty) benign_chunks.

(* parse_chunk: dispatch, EOF -> ChunkTooShort, benign filter, poisoning *)
Definition parse_chunk (s : dstate) (ty : Z) : pres :=
  let s := s <| st := Some (SU32 (KCrc ty) []) |> in
  let '(s, r) :=
    if ty =? ct_IHDR then parse_ihdr_full s
    else if ty =? ct_sBIT then parse_sbit s
    else if ty =? ct_PLTE then parse_plte s
    else if ty =? ct_tRNS then parse_trns s
    else if ty =? ct_pHYs then parse_phys s
    else if ty =? ct_gAMA then parse_gama s
    else if ty =? ct_acTL then parse_actl s
    else if ty =? ct_fcTL then parse_fctl s
    else if ty =? ct_cHRM then parse_chrm s
    else if ty =? ct_sRGB then parse_srgb s
    else if ty =? ct_cICP then parse_cicp s
    else if ty =? ct_mDCV then parse_mdcv s
    else if ty =? ct_cLLI then parse_clli s
    else if ty =? ct_eXIf then parse_exif s
    else if ty =? ct_bKGD then parse_bkgd s
    else if (ty =? ct_iCCP) && negb (o_ignore_iccp (opts s)) then parse_iccp s
    else if (ty =? ct_tEXt) && negb (o_ignore_text (opts s)) then parse_text s
    else if (ty =? ct_zTXt) && negb (o_ignore_text (opts s)) then parse_ztxt s
    else if (ty =? ct_iTXt) && negb (o_ignore_text (opts s)) then parse_itxt s
    else (s, Ok (EPartialChunk ty)) in
  let r := match r with Err EIoEof => Err (EFormat FChunkTooShort) | r => r end in
  let r := match r with Err (EFormat _) => if is_benign ty then Ok ENothing else r | r => r end in
  match r with
  | Ok e => (s, Ok e)
  | _ => (s <| st := None |>, r)
  end.

(* reserve_current_chunk *)
Definition reserve_current_chunk (s : dstate) : rres dstate :=
  let reserve_size := Z.min (Z.max 0 (budget s - c_cap s)) (zlen (c_raw s)) in
  match reserve s reserve_size with
  | Ok s =>
    let cap := Z.max (c_cap s) (zlen (c_raw s) + reserve_size) in
    if cap =? zlen (c_raw s) then Err ELimits else Ok (s <| c_cap := cap |>)
  | Err e => Err e | Panic p => Panic p
  end.

(* ------------------------------------------------------------------ parse_u32 *)
(* result of one step: new state, and Ok (event, appended image bytes) or an error *)
Definition sres := (dstate * rres (event * list Z))%type.

Definition poison (s : dstate) (e : derr) : sres := (s <| st := None |>, Err e).
Definition goto (s : dstate) (x : sstate) (e : event) (app : list Z) : sres := (s <| st := Some x |>, Ok (e, app)).

Definition parse_u32 (s : dstate) (kind : u32kind) (bytes : list Z) : sres :=
  let val := match bytes with [a; b; c; d] => be32 a b c d | _ => 0 end in
  match kind with
  | KSig1 => if list_eqb bytes SIG1 then goto s (SU32 KSig2 []) ENothing [] else poison s (EFormat FInvalidSignature)
  | KSig2 => if list_eqb bytes SIG2 then goto s (SU32 KLen []) ENothing [] else poison s (EFormat FInvalidSignature)
  | KLen => goto s (SU32 (KType val) []) ENothing []
  | KType length =>
    let ty := val in
    if (match info s with None => true | Some _ => false end) && negb (ty =? ct_IHDR) then poison s (EFormat FChunkBeforeIhdr)
    else if negb (ty =? c_type s) && ((c_type s =? ct_IDAT) || (c_type s =? ct_fdAT)) then
      let s := s <| c_type := ty |> in
      match z_finish (infl s) with
      | Ok (_, out) =>
        goto (s <| infl := zreset (infl s) |> <| ready_idat := false |> <| ready_fdat := false |>)
             (SU32 kind bytes) EImageDataFlushed out
      | Err e => poison s e
      | Panic p => (s <| st := None |>, Panic p)
      end
    else
      let begin (s : dstate) (x : sstate) : sres :=
          let s := s <| c_type := ty |> in
          let s := if o_ignore_crc (opts s) then s else s <| c_crc := crc_update crc_init bytes |> in
          goto (s <| c_remaining := length |> <| c_raw := [] |>) x (EChunkBegin length ty) [] in
      if ty =? ct_fdAT then
        if negb (ready_fdat s) then poison s (EFormat FUnexpectedRestart)
        else if length <? 4 then poison s (EFormat FFdatShorterThanFourBytes)
        else begin (s <| have_idat := true |>) (SU32 KSeq [])    (* image data has started, also without any IDAT *)
      else if ty =? ct_IDAT then
        if negb (ready_idat s) then poison s (EFormat FUnexpectedRestart)
        else begin (s <| have_idat := true |>) (SImage ty)
      else begin s (SRead ty)
  | KCrc ty =>
    let sum := if o_ignore_crc (opts s) then val else crc_finish (c_crc s) in
    if val =? sum then
      if ty =? ct_IEND then (s <| st := None |>, Ok (EImageEnd, []))
      else goto s (SU32 KLen []) (EChunkComplete val ty) []
    else if o_skip_anc_crc (opts s) && negb (is_critical ty) && negb (ty =? ct_fdAT) then goto s (SU32 KLen []) ENothing []
    else poison s (EFormat FCrcMismatch)
  | KSeq =>
    if c_remaining s <? 4 then (s <| st := None |>, Panic 931)      (* debug_assert!(remaining >= 4) / subtraction *)
    else
      let s := s <| c_remaining := c_remaining s - 4 |> in
      match seq s with
      | Some q =>
        if negb (val =? q + 1) then poison s (EFormat FApngOrder)
        else
          let s := s <| seq := Some val |> in
          let s := if o_ignore_crc (opts s) then s else s <| c_crc := crc_update (c_crc s) bytes |> in
          goto s (SImage ct_fdAT) (EPartialChunk ct_fdAT) []
      | None => poison s (EFormat FMissingFctl)
      end
  end.

(* ------------------------------------------------------------------ next_state: one transition on a non-empty buffer.
   Returns the number of consumed bytes (nat) with the step result. *)
Definition next_state (s : dstate) (buf : list Z) : dstate * rres (nat * event * list Z) :=
  let wrap (n : nat) (r : sres) : dstate * rres (nat * event * list Z) :=
      match r with
      | (s', Ok (e, app)) => (s', Ok (n, e, app))
      | (s', Err e) => (s', Err e)
      | (s', Panic p) => (s', Panic p)
      end in
  match st s with
  | None => (s, Panic 685)                       (* `self.state.take().unwrap()`; update() never calls it so *)
  | Some (SU32 kind acc) =>
    match acc, buf with
    | [], b0 :: b1 :: b2 :: b3 :: _ => wrap 4%nat (parse_u32 s kind [b0; b1; b2; b3])     (* fast path *)
    | _, _ =>
      let avail := Nat.min (4 - length acc) (length buf) in
      let acc' := acc ++ firstn avail buf in
      if (length acc' <? 4)%nat then (s <| st := Some (SU32 kind acc') |>, Ok (avail, ENothing, []))
      else wrap avail (parse_u32 s kind acc')
    end
  | Some (SParse ty) =>
    if c_remaining s =? 0 then
      match parse_chunk s ty with
      | (s', Ok e) => (s', Ok (O, e, []))
      | (s', Err e) => (s', Err e)
      | (s', Panic p) => (s', Panic p)
      end
    else
      match reserve_current_chunk s with
      | Ok s' => (s' <| st := Some (SRead ty) |>, Ok (O, EPartialChunk ty, []))
      | Err e => (s <| st := None |>, Err e)
      | Panic p => (s <| st := None |>, Panic p)
      end
  | Some (SRead ty) =>
    if c_remaining s =? 0 then (s <| st := Some (SU32 (KCrc ty) []) |>, Ok (O, ENothing, []))
    else
      let buf_avail := c_cap s - zlen (c_raw s) in
      if buf_avail <=? 0 then (s <| st := Some (SParse ty) |>, Ok (O, ENothing, []))
      else
        let n := Z.to_nat (Z.min (c_remaining s) (Z.min (zlen buf) buf_avail)) in
        let data := firstn n buf in
        let s := if o_ignore_crc (opts s) then s else s <| c_crc := crc_update (c_crc s) data |> in
        let s := s <| c_raw := c_raw s ++ data |> <| c_remaining := c_remaining s - Z.of_nat n |> in
        (s <| st := Some (if c_remaining s =? 0 then SParse ty else SRead ty) |>, Ok (n, ENothing, []))
  | Some (SImage ty) =>
    let n := Z.to_nat (Z.min (zlen buf) (c_remaining s)) in
    let data := firstn n buf in
    match z_decompress (infl s) data with
    | Ok (z, out) =>
      let s := s <| infl := z |> <| c_crc := crc_update (c_crc s) data |> <| c_remaining := c_remaining s - Z.of_nat n |> in
      (s <| st := Some (if c_remaining s =? 0 then SU32 (KCrc ty) [] else SImage ty) |>, Ok (n, EImageData, out))
    | Err e => (s <| st := None |>, Err e)
    | Panic p => (s <| st := None |>, Panic p)
    end
  end.

(* ------------------------------------------------------------------ update: loop until an event other than Nothing *)
Inductive ures :=
| UOk (consumed : nat) (e : event) (app : list Z)
| UErr (e : derr)
| UPanic (site : nat)
| UOutOfFuel.

Fixpoint update_fuel (fuel : nat) (s : dstate) (buf : list Z) (consumed : nat) (app : list Z) : dstate * ures :=
  match buf with
  | [] => (s, UOk consumed ENothing app)
  | _ =>
    match fuel with
    | O => (s, UOutOfFuel)
    | S fuel' =>
      match next_state s buf with
      | (s', Ok (n, ENothing, a)) => update_fuel fuel' s' (skipn n buf) (consumed + n)%nat (app ++ a)
      | (s', Ok (n, e, a)) => (s', UOk (consumed + n)%nat e (app ++ a))
      | (s', Err e) => (s', UErr e)
      | (s', Panic p) => (s', UPanic p)
      end
    end
  end.

Definition update (s : dstate) (buf : list Z) : dstate * ures :=
  match st s with
  | None => (s, UErr EParamPolledAfterFatal)
  | Some _ => update_fuel (2 * length buf + 8) s buf O []
  end.

(* StreamingDecoder::reset *)
Definition reset_model (s : dstate) : dstate :=
  s <| st := Some (SU32 KSig1 []) |> <| c_type := 0 |> <| c_crc := crc_init |> <| c_remaining := 0 |> <| c_raw := [] |>
    <| c_cap := CHUNK_BUFFER_SIZE |>      (* raw_bytes.shrink_to(CHUNK_BUFFER_SIZE): the buffer of a new decoder (after the repair) *)
    <| infl := zreset (infl s) |> <| info := None |> <| seq := None |> <| have_idat := false |>
    <| have_iccp := false |> <| ready_idat := true |> <| ready_fdat := false |>.

End WithInflate.
