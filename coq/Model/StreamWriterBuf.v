(* Hand model of the two buffering layers of the stream writer for a still (non-animated) image, src/encoder.rs:
   (1) StreamWriter::write - the caller's bytes are collected into scanlines of [line] bytes; a complete scanline is filtered against the
       previous one and handed (filter byte first) to the compressor;
   (2) ChunkWriter::write / flush_inner - what the compressor writes is staged in a buffer of [cap] bytes and leaves as one IDAT chunk
       whenever the buffer is full, or at a flush.
   The compressor between the two is external (flate2 / fdeflate): layer (2) is modelled for ANY sequence of writes it may issue.
   NO proofs in this file. *)
From PngV Require Import Base.Bytes Spec.FilterSpec Gen.GenPaeth Model.Filter Model.EncodePipeline.

(* ------------------------------------------------------------------ (1) scanline assembly *)
Record swst := mk_sw {
  sw_prev : list Z;       (* prev_buf: the previous scanline (zeros before the first) *)
  sw_cur : list Z;        (* curr_buf[..index] *)
  sw_line : nat;          (* line_len *)
  sw_left : nat           (* to_write *)
}.

Inductive swres :=
| SwOk (s : swst) (written : nat) (out : list Z)   (* Ok(written); [out] = bytes handed to the compressor by this call *)
| SwFrameOver                                      (* to_write == 0: with sequence validation a still image takes no further data (new_frame
                                                      refuses); without validation the writer would start another image - not modelled here *)
| SwFilterFail.                                    (* never (EncodePipelineProofs.filter_model_total) *)

(* one StreamWriter::write call *)
Definition sw_write (m : fmethod) (bpp : nat) (s : swst) (data : list Z) : swres :=
  match data with
  | [] => SwOk s 0 []
  | _ =>
    if (sw_left s =? 0)%nat then SwFrameOver
    else
      let n := Nat.min (length data) (sw_line s - length (sw_cur s)) in
      let cur' := sw_cur s ++ firstn n data in
      if (length cur' =? sw_line s)%nat then
        match filter_model m bpp (sw_prev s) cur' with
        | Some (rf, out) => SwOk (mk_sw cur' [] (sw_line s) (sw_left s - n)) n (ftype_to_Z rf :: out)
        | None => SwFilterFail
        end
      else SwOk (mk_sw (sw_prev s) cur' (sw_line s) (sw_left s - n)) n []
  end.

(* io::Write::write_all: call write with what is left until nothing is left (Ok(0) on a non-empty buffer is the WriteZero error) *)
Fixpoint sw_write_all (fuel : nat) (m : fmethod) (bpp : nat) (s : swst) (data : list Z) : option (swst * list Z) :=
  match data with
  | [] => Some (s, [])
  | _ =>
    match fuel with
    | O => None
    | S f =>
      match sw_write m bpp s data with
      | SwOk s1 n out =>
        if (n =? 0)%nat then None
        else match sw_write_all f m bpp s1 (skipn n data) with
             | Some (s2, out2) => Some (s2, out ++ out2)
             | None => None
             end
      | _ => None
      end
    end
  end.

(* a whole sequence of write_all calls *)
Fixpoint sw_run (m : fmethod) (bpp : nat) (s : swst) (pieces : list (list Z)) : option (swst * list Z) :=
  match pieces with
  | [] => Some (s, [])
  | p :: ps =>
    match sw_write_all (S (length p)) m bpp s p with
    | Some (s1, o1) => match sw_run m bpp s1 ps with Some (s2, o2) => Some (s2, o1 ++ o2) | None => None end
    | None => None
    end
  end.

Definition sw_init (line height : nat) : swst := mk_sw (zeros line) [] line (line * height).

(* the sequence of return values of single write calls, for the correspondence check: every piece is offered once (no retry of the rest) *)
Fixpoint sw_trace (m : fmethod) (bpp : nat) (s : swst) (pieces : list (list Z)) : list Z * list Z :=
  match pieces with
  | [] => ([], [])
  | p :: ps =>
    match sw_write m bpp s p with
    | SwOk s1 n out => let '(ns, o) := sw_trace m bpp s1 ps in (Z.of_nat n :: ns, out ++ o)
    | _ => ([-1], [])
    end
  end.

(* ------------------------------------------------------------------ (2) chunk packaging (still image: IDAT, no sequence numbers) *)
Record cwst := mk_cw { cw_cap : nat; cw_buf : list Z }.

(* ChunkWriter::write: (state, bytes accepted, chunk payloads that left) *)
Definition cw_write (s : cwst) (data : list Z) : cwst * nat * list (list Z) :=
  match data with
  | [] => (s, 0%nat, [])
  | _ =>
    let n := Nat.min (length data) (cw_cap s - length (cw_buf s)) in
    let buf' := cw_buf s ++ firstn n data in
    if (length buf' =? cw_cap s)%nat
    then (mk_cw (cw_cap s) [], n, match buf' with [] => [] | _ => [buf'] end)     (* flush_inner writes a chunk only when index > 0 *)
    else (mk_cw (cw_cap s) buf', n, [])
  end.

Definition cw_flush (s : cwst) : cwst * list (list Z) :=
  match cw_buf s with [] => (s, []) | b => (mk_cw (cw_cap s) [], [b]) end.

Inductive cwop := CwWrite (data : list Z) | CwFlush.

(* single calls, as the hook drives them: results (-1 for a flush, else the bytes accepted) and the chunks that left, the final drop flushing *)
Fixpoint cw_trace (s : cwst) (ops : list cwop) : list Z * list (list Z) :=
  match ops with
  | [] => ([], snd (cw_flush s))
  | CwWrite d :: ops' =>
    let '(s1, n, cs) := cw_write s d in
    let '(rs, cs') := cw_trace s1 ops' in (Z.of_nat n :: rs, cs ++ cs')
  | CwFlush :: ops' =>
    let '(s1, cs) := cw_flush s in
    let '(rs, cs') := cw_trace s1 ops' in (-1 :: rs, cs ++ cs')
  end.

(* write_all *)
Fixpoint cw_write_all (fuel : nat) (s : cwst) (data : list Z) : option (cwst * list (list Z)) :=
  match data with
  | [] => Some (s, [])
  | _ =>
    match fuel with
    | O => None
    | S f =>
      let '(s1, n, cs) := cw_write s data in
      if (n =? 0)%nat then None
      else match cw_write_all f s1 (skipn n data) with
           | Some (s2, cs2) => Some (s2, cs ++ cs2)
           | None => None
           end
    end
  end.

(* the compressor's bursts (each a write_all), then the final flush *)
Fixpoint cw_run (s : cwst) (bursts : list (list Z)) : option (list (list Z)) :=
  match bursts with
  | [] => Some (snd (cw_flush s))
  | b :: bs =>
    match cw_write_all (S (length b)) s b with
    | Some (s1, cs) => match cw_run s1 bs with Some cs' => Some (cs ++ cs') | None => None end
    | None => None
    end
  end.

(* specification: the byte string cut into pieces of [cap] bytes, the last one shorter (never empty) *)
Fixpoint chunks_of (fuel cap : nat) (l : list Z) : list (list Z) :=
  match l with
  | [] => []
  | _ => match fuel with
         | O => [l]
         | S f => firstn cap l :: chunks_of f cap (skipn cap l)
         end
  end.
