(* Hand model of the charge of the reader-owned output row against Limits::bytes (src/decoder/mod.rs, Reader::read_until_image_data,
   after fix 4794b80): the row buffer is shared by all frames of an animation and is charged ONCE, at the largest size seen so far -
   `additional = buflen.saturating_sub(reserved_row_bytes)`, `reserve_bytes(additional)?`, `reserved_row_bytes = max(reserved, buflen)`.
   A frame whose row does not fit makes the call fail with LimitsExceeded (the image is then given up).  NO proofs in this file. *)
From Coq Require Import List ZArith Bool Lia.
Import ListNotations.
Local Open Scope Z_scope.

Record rcstate := mk_rc { reserved : Z; budget : Z }.

Definition rc_frame (s : rcstate) (buflen : Z) : option rcstate :=
  let additional := Z.max 0 (buflen - reserved s) in
  if additional <=? budget s then Some (mk_rc (Z.max (reserved s) buflen) (budget s - additional)) else None.

(* the budget left after each frame; stops at the first frame that does not fit *)
Fixpoint rc_run (s : rcstate) (buflens : list Z) : list Z :=
  match buflens with
  | [] => []
  | b :: r => match rc_frame s b with Some s' => budget s' :: rc_run s' r | None => [] end
  end.

(* executable view for the correspondence check: bytes charged since the first frame was set up (its row is charged by read_info) *)
Definition rc_charged (first : Z) (rest : list Z) : list Z :=
  let big := 4611686018427387904 in map (fun b => big - b) (rc_run (mk_rc first big) rest).
