(* Hand model of src/text_metadata.rs: Latin-1 coding (decode_iso_8859_1 / encode_iso_8859_1 at the level of code points:
   a Rust String is modelled as the list of its code points), and the OptCompressed state machine of zTXt / iTXt chunks
   over an abstract compressor [K] and bounded inflater [I] (fdeflate / flate2: external, by contract).  NO proofs here. *)
From PngV Require Import Base.Bytes Base.Inflate.

(* a String = list of Unicode scalar values *)
Definition decode_latin1 (bs : list Z) : list Z := map (fun b => b) bs.          (* b as char *)
Fixpoint encode_latin1 (s : list Z) : option (list Z) :=                          (* u8::try_from(c as u32) *)
  match s with
  | [] => Some []
  | c :: s' => if (0 <=? c) && (c <? 256) then option_map (cons c) (encode_latin1 s') else None
  end.

Inductive optc := Compressed (z : list Z) | Uncompressed (s : list Z).

Inductive terr := TUnrepresentable | TOutOfSpace | TInflation.

Section Codec.
Variable K : list Z -> list Z.                               (* ZlibEncoder::new(.., fast).write_all(x).finish() *)
Variable I : list Z -> nat -> outcome (list Z) terr.         (* decompress_to_vec_bounded(z, limit): Ok out | Err OutputTooLarge | Err other *)

(* ZTXtChunk::compress_text: the state is assigned only after the fallible steps succeeded *)
Definition compress_text (t : optc) : outcome optc terr :=
  match t with
  | Uncompressed s => match encode_latin1 s with Some raw => Ok (Compressed (K raw)) | None => Err TUnrepresentable end
  | Compressed _ => Ok t
  end.

(* ZTXtChunk::decompress_text_with_limit *)
Definition decompress_text_with_limit (t : optc) (limit : nat) : outcome optc terr :=
  match t with
  | Compressed z => match I z limit with Ok raw => Ok (Uncompressed (decode_latin1 raw)) | Err e => Err e | Panic p => Panic p end
  | Uncompressed _ => Ok t
  end.
End Codec.

(* The concrete instance used by the correspondence check: the reference inflater of Base/Inflate.v (with Adler-32 check),
   then the length test.  (The implementation stops early instead of inflating everything; the results agree.) *)
Definition inflate_bounded (z : list Z) (limit : nat) : outcome (list Z) terr :=
  match zlib_inflate true z with
  | (out, ZDone _) => if (tlength out <=? limit)%nat then Ok out else Err TOutOfSpace
  | _ => Err TInflation
  end.

(* runnable entry points for the harness; limits arrive as Z *)
Definition text_decompress_run (z : list Z) (limit : Z) : outcome (list Z) terr :=
  match decompress_text_with_limit inflate_bounded (Compressed z) (Z.to_nat limit) with
  | Ok (Uncompressed s) => Ok s
  | Ok (Compressed _) => Err TInflation
  | Err e => Err e
  | Panic p => Panic p
  end.
