(* Hand model of src/decoder/unfiltering_buffer.rs (UnfilteringBuffer: data_stream, prev_start, current_start):
   as_mut_vec (compaction) + the bytes the inflater appends, unfilter_curr_row, reset_prev_row, prev_row.  NO proofs here.
   [rl] is the number of pixel bytes of a row (the Rust `rowlen` is rl + 1: it counts the filter byte). *)
From PngV Require Import Base.Bytes Gen.GenPaeth Model.Filter.

Record ubuf := mk_ubuf { ub_data : list Z; ub_prev : nat; ub_cur : nat }.
Definition ub_new : ubuf := mk_ubuf [] 0 0.

(* as_mut_vec(): drop everything before the previous row; then the inflater appends [new] to the vector *)
Definition ub_append (u : ubuf) (new : list Z) : ubuf :=
  mk_ubuf (skipn (ub_prev u) (ub_data u) ++ new) 0 (ub_cur u - ub_prev u).

Definition ub_curr_row_len (u : ubuf) : nat := length (ub_data u) - ub_cur u.
Definition ub_reset_prev_row (u : ubuf) : ubuf := mk_ubuf (ub_data u) (ub_cur u) (ub_cur u).
(* prev_row(): data_stream[prev_start .. current_start] *)
Definition ub_prev_row (u : ubuf) : list Z := firstn (ub_cur u - ub_prev u) (skipn (ub_prev u) (ub_data u)).
(* the bytes not yet unfiltered: data_stream[current_start ..] *)
Definition ub_pending (u : ubuf) : list Z := skipn (ub_cur u) (ub_data u).

Inductive ures_ := UOkU (u : ubuf) | UBadFilter (ft : Z) | UNotEnough.

(* unfilter_curr_row(rowlen = rl + 1, bpp): callers guarantee curr_row_len() >= rowlen *)
Definition ub_unfilter (P : Z -> Z -> Z -> Z) (u : ubuf) (rl bpp : nat) : ures_ :=
  match ub_pending u with
  | [] => UNotEnough
  | ft :: body =>
    if (length body <? rl)%nat then UNotEnough
    else match row_filter_from_u8 ft with
         | None => UBadFilter ft
         | Some f =>
           let row := unfilter_model P f bpp (ub_prev_row u) (firstn rl body) in
           UOkU (mk_ubuf (firstn (ub_cur u) (ub_data u) ++ ft :: row ++ skipn rl body) (ub_cur u + 1) (ub_cur u + 1 + rl))
         end
  end.

(* ---- cursor-only view run by the correspondence check: (data_stream.len(), prev_start, current_start) *)
Definition ucur := (Z * Z * Z)%type.
Definition ub_cursors (u : ubuf) : ucur := (zlen (ub_data u), Z.of_nat (ub_prev u), Z.of_nat (ub_cur u)).
Definition cur_append (c : ucur) (k : Z) : ucur := let '(len, prev, cur) := c in (len - prev + k, 0, cur - prev).
Definition cur_unfilter (c : ucur) (rl : Z) : ucur := let '(len, prev, cur) := c in (len, cur + 1, cur + 1 + rl).
Definition cur_reset (c : ucur) : ucur := let '(len, prev, cur) := c in (len, cur, cur).
(* one row call of the Reader: as_mut_vec + appended bytes only when the current row is not complete yet; [reset] = first row of an image / pass *)
Definition cur_row_call (c : ucur) (reset : bool) (rl k : Z) : ucur :=
  let c := if reset then cur_reset c else c in
  let '(len, prev, cur) := c in
  let c := if len - cur <? rl + 1 then cur_append c k else c in
  cur_unfilter c rl.
Fixpoint cur_run (c : ucur) (calls : list (bool * Z * Z)) : list ucur :=
  match calls with
  | [] => []
  | (reset, rl, k) :: rest => let c' := cur_row_call c reset rl k in c' :: cur_run c' rest
  end.
