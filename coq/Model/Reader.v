(* Hand model (L2) of the frame/row cursor of src/decoder/mod.rs (Reader): next_frame, the three row calls,
   next_frame_info, finish, over a VALID image abstracted to its frame structure - for each frame the number of
   scanline records (all rows of all passes) - and over an input of which only a prefix is visible (counted in
   scanline records), so that calls can run out of input and be retried.  Pixel contents are abstract: a delivered
   row is identified by (frame, index).  Every assert / unwrap / subtraction of the modelled code is an explicit
   [RPanicR].  NO proofs in this file. *)
From Coq Require Import List Arith Bool Lia.
Import ListNotations.

Record image := mk_image {
  rows : list nat;          (* rows [k] = number of scanline records of frame k (in next_frame order); all >= 1 *)
  declared : nat;           (* remaining_frames as computed by read_info: 1 without acTL, else num_frames (+1 for a separate default image) *)
  has_fctl : nat -> bool    (* does frame k carry a frame control chunk (true for every k >= 1 of a valid APNG) *)
}.

Definition nrows (im : image) (k : nat) : nat := nth k (rows im) 0.
Fixpoint offset_of (l : list nat) (k : nat) : nat :=
  match k, l with O, _ => 0 | S k', r :: l' => r + offset_of l' k' | S _, [] => 0 end.
Definition offset (im : image) (k : nat) : nat := offset_of (rows im) k.
Definition total (im : image) : nat := offset im (length (rows im)).

(* what is visible of the input, in scanline records from the start of the image data; a frame's control data and its
   first data chunk are visible once the previous frame is completely visible; the end of a frame's data (the flush)
   and everything up to IEND once all records are *)
Definition row_visible (im : image) (vis k j : nat) : bool := offset im k + j <? vis.
Definition frame_start_visible (im : image) (vis k : nat) : bool := (offset im k <? vis) || ((k =? 0) && true).
Definition frame_end_visible (im : image) (vis k : nat) : bool := offset im (S k) <=? vis.
Definition all_visible (im : image) (vis : nat) : bool := total im <=? vis.

Record rstate := mk_rstate {
  cur : nat;                 (* index of the frame whose data is being read *)
  remaining : nat;           (* remaining_frames *)
  flushed : bool;            (* subframe.consumed_and_flushed *)
  next_row : option nat;     (* subframe.current_interlace_info: Some j = record j is next, None = no more rows *)
  finished : bool
}.

Definition reader_init (im : image) : rstate :=
  {| cur := 0; remaining := declared im; flushed := false; next_row := Some 0; finished := false |}.

(* ORowF = a row call during which the data sequence of the frame ends and is flushed although rows are still buffered (the inflater
   releases the tail of a highly compressible frame only with the end-of-sequence flush): subframe.consumed_and_flushed becomes
   true and the frame is counted while current_interlace_info is still Some.  Which row calls are of this kind depends on the
   compressed data; the theorems hold for every placement. *)
Inductive op := OFrame | ORow | ORowF | OFrameInfo | OFinish.

Inductive res :=
| RFrame (k : nat)           (* Ok(OutputInfo) for frame k *)
| RRowNone                   (* Ok(None) *)
| RRow (k j : nat)           (* Ok(Some(row j of frame k)) *)
| RInfo (k : nat)            (* Ok(&FrameControl) of frame k *)
| RFinished                  (* finish() = Ok(()) *)
| REndOfImage                (* Err(Parameter(PolledAfterEndOfImage)) *)
| REofR                       (* Err(Io(UnexpectedEof)): the input ended; the call may be repeated *)
| RMissingData               (* Err(Format(MissingImageData)): no further frame in the file *)
| RPanicR (site : nat).

(* rows delivered into the caller's buffer by a call: (frame, index) in order *)
Definition delivered := list (nat * nat).

(* finish_decoding: assert!(current_interlace_info.is_none()); discard the rest of the data sequence; count the frame *)
Definition finish_decoding (im : image) (vis : nat) (s : rstate) : rstate * option res :=
  match next_row s with
  | Some _ => (s, Some (RPanicR 469))
  | None =>
    if flushed s then (s, None)
    else if frame_end_visible im vis (cur s)
         then (mk_rstate (cur s) (pred (remaining s)) true None (finished s), None)      (* saturating decrement *)
         else (s, Some REofR)
  end.

(* read_until_image_data + SubframeInfo::new: move to the next frame *)
Definition advance (im : image) (vis : nat) (s : rstate) : rstate * option res :=
  let k := S (cur s) in
  if (length (rows im) <=? k) then (if all_visible im vis then (s, Some RMissingData) else (s, Some REofR))
  else if negb (frame_start_visible im vis k) then (s, Some REofR)
  else (mk_rstate k (remaining s) false (Some 0) (finished s), None).

(* decode the remaining rows of the current frame into the caller's buffer, as far as they are visible *)
Fixpoint take_rows (im : image) (vis k j n : nat) : delivered * option nat :=
  match n with
  | O => ([], None)
  | S n' => if row_visible im vis k j
            then let '(d, r) := take_rows im vis k (S j) n' in ((k, j) :: d, r)
            else ([], Some j)          (* stopped before row j *)
  end.

(* next_frame advances to the next frame only when the current one is flushed AND all its rows were handed out (after the repair) *)
Definition advancing (s : rstate) : bool := flushed s && match next_row s with None => true | Some _ => false end.

(* next_frame answers end-of-image when no frame is left - unless the data sequence of the last frame was flushed (and the frame counted off)
   while rows of it are still outstanding: those are still delivered (the repaired defect) *)
Definition frame_refused (s : rstate) : bool :=
  (remaining s =? 0) && negb (flushed s && match next_row s with None => false | Some _ => true end).

(* the three row calls; [early]: the data sequence ends (and is flushed) during this call *)
Definition row_step (im : image) (vis : nat) (s : rstate) (early : bool) : rstate * res * delivered :=
  match next_row s with
  | None =>
    match finish_decoding im vis s with
    | (s', None) => (s', RRowNone, [])
    | (s', Some r) => (s', r, [])
    end
  | Some j =>
    if row_visible im vis (cur s) j
    then let fl := early && negb (flushed s) && frame_end_visible im vis (cur s) in
         (mk_rstate (cur s) (if fl then pred (remaining s) else remaining s) (if fl then true else flushed s)
                    (if S j <? nrows im (cur s) then Some (S j) else None) (finished s),
          RRow (cur s) j, [(cur s, j)])
    else (s, REofR, [])
  end.

Definition step (im : image) (vis : nat) (s : rstate) (o : op) : rstate * res * delivered :=
  match o with
  | ORow => row_step im vis s false
  | ORowF => row_step im vis s true
  | OFrame =>
    (* the counter may already be 0 while rows of the last frame are still buffered (early flush): they are still delivered *)
    if frame_refused s then (s, REndOfImage, [])
    else
      let '(s1, r1) := if advancing s then advance im vis s else (s, None) in
      match r1 with
      | Some r => (s1, r, [])
      | None =>
        let j0 := match next_row s1 with Some j => j | None => nrows im (cur s1) end in
        let '(d, stop) := take_rows im vis (cur s1) j0 (nrows im (cur s1) - j0) in
        match stop with
        | Some j => (mk_rstate (cur s1) (remaining s1) (flushed s1) (Some j) (finished s1), REofR, d)
        | None =>
          let s2 := mk_rstate (cur s1) (remaining s1) (flushed s1) None (finished s1) in
          match finish_decoding im vis s2 with
          | (s3, None) => (s3, RFrame (cur s3), d)
          | (s3, Some r) => (s3, r, d)
          end
        end
      end
  | OFrameInfo =>
    let rem' := if flushed s then remaining s else pred (remaining s) in      (* saturating after the repair *)
    if rem' =? 0 then (s, REndOfImage, [])
    else
      let s0 := if flushed s then s else mk_rstate (cur s) (remaining s) (flushed s) None (finished s) in
      match (if flushed s then (s0, None) else finish_decoding im vis s0) with
      | (s1, Some r) => (s1, r, [])
      | (s1, None) =>
        match advance im vis s1 with
        | (s2, Some r) => (s2, r, [])
        | (s2, None) => if has_fctl im (cur s2) then (s2, RInfo (cur s2), []) else (s2, RPanicR 358, [])   (* frame_control.unwrap() *)
        end
      end
  | OFinish =>
    if finished s then (s, REndOfImage, [])
    else
      let s1 := mk_rstate (cur s) 0 true None false in       (* remaining_frames = 0; frame abandoned (after the repair) *)
      if all_visible im vis then (mk_rstate (cur s) 0 true None true, RFinished, []) else (s1, REofR, [])
  end.

(* a run: operations with the visibility in force at each call *)
Fixpoint run (im : image) (s : rstate) (ops : list (op * nat)) : rstate * list (res * delivered) :=
  match ops with
  | [] => (s, [])
  | (o, vis) :: ops' =>
    let '(s1, r, d) := step im vis s o in
    let '(s2, rs) := run im s1 ops' in (s2, (r, d) :: rs)
  end.
