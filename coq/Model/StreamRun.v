(* Driving the L0 machine over a delivery schedule (a list of non-empty pieces), and the observation that
   C04/C05/C10/C11/C16 compare.  NO proofs in this file. *)
From PngV Require Import Base.Bytes Base.Crc Gen.GenStream Model.Stream.

Section WithInflate.
Variable zinf : bool -> list Z -> list Z * dstatus.
Variable zall : list Z -> option (list Z).
Variable utf8_valid : list Z -> bool.

Notation update := (update zinf zall utf8_valid).

Inductive rend :=
| REof                          (* all delivered bytes consumed, image not finished *)
| RImageEnd (leftover : nat)    (* IEND seen; bytes of the current piece left unconsumed *)
| RErr (e : derr)
| RPanic (site : nat)
| RFuel.

(* the low-level caller's loop: offer the rest of the piece again after every event *)
Fixpoint feed_piece (fuel : nat) (s : dstate) (buf : list Z) (tr : list (event * list Z))
  : dstate * list (event * list Z) * option rend :=
  match buf with
  | [] => (s, tr, None)
  | _ =>
    match fuel with
    | O => (s, tr, Some RFuel)
    | S fuel' =>
      match update s buf with
      | (s', UOk n e app) =>
        let tr' := (e, app) :: tr in
        match e with
        | EImageEnd => (s', tr', Some (RImageEnd (length buf - n)))
        | _ => feed_piece fuel' s' (skipn n buf) tr'
        end
      | (s', UErr e) => (s', tr, Some (RErr e))
      | (s', UPanic p) => (s', tr, Some (RPanic p))
      | (s', UOutOfFuel) => (s', tr, Some RFuel)
      end
    end
  end.

Fixpoint feed_go (s : dstate) (pieces : list (list Z)) (tr : list (event * list Z))
  : dstate * list (event * list Z) * rend :=
  match pieces with
  | [] => (s, tr, REof)
  | p :: ps =>
    match feed_piece (5 * length p + 8) s p tr with
    | (s', tr', None) => feed_go s' ps tr'
    | (s', tr', Some r) => (s', tr', r)
    end
  end.

(* trace in chronological order *)
Definition feed (s : dstate) (pieces : list (list Z)) : dstate * list (event * list Z) * rend :=
  let '(s', tr, r) := feed_go s pieces [] in (s', rev tr, r).

(* ---- observation: events other than Nothing, runs of ImageData merged, the image bytes of each completed
   data-chunk sequence attached to its ImageDataFlushed; partial data before a failure is not observed *)
Inductive oev :=
| OEv (e : event)
| OData                       (* one or more ImageData events *)
| OFlushed (data : list Z).   (* ImageDataFlushed with every byte appended since the previous flush *)

Fixpoint observe_go (tr : list (event * list Z)) (pending : list Z) (in_data : bool) : list oev :=
  match tr with
  | [] => []
  | (e, app) :: tr' =>
    let pending := pending ++ app in
    match e with
    | ENothing => observe_go tr' pending in_data
    | EImageData => if in_data then observe_go tr' pending true else OData :: observe_go tr' pending true
    | EImageDataFlushed => OFlushed pending :: observe_go tr' [] false
    | _ => OEv e :: observe_go tr' pending false
    end
  end.

Definition observe (r : dstate * list (event * list Z) * rend) : list oev * rend * option info_t :=
  let '(s, tr, e) := r in (observe_go tr [] false, e, info s).

(* split a byte string by a list of piece sizes (a size <= 0 or the end of the list takes the rest) *)
Fixpoint split_sched (fuel : nat) (sizes : list Z) (bs : list Z) : list (list Z) :=
  match fuel with
  | O => [bs]
  | S fuel' =>
    match bs with
    | [] => []
    | _ =>
      match sizes with
      | [] => [bs]
      | n :: sizes' =>
        if n <=? 0 then [bs]
        else firstn (Z.to_nat n) bs :: split_sched fuel' (sizes' ++ [n]) (skipn (Z.to_nat n) bs)
      end
    end
  end.

End WithInflate.
