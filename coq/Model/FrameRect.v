(* Hand model of the frame-rectangle bookkeeping of src/encoder.rs (Writer): the frame control held for the following frames, the four
   setters set_frame_dimension / set_frame_position / reset_frame_dimension / reset_frame_position with their refusals, Encoder::with_info's
   check of a frame control given from outside, and the images written (each emits an fcTL with the rectangle in force, when the encoder is
   animated and the image belongs to the animation).  u32 arithmetic is modelled over Z with the checked subtractions of the code written
   out.  NO proofs in this file. *)
From Coq Require Import List ZArith Bool Lia.
Import ListNotations.
Local Open Scope Z_scope.

Record rect := mk_rect { r_w : Z; r_h : Z; r_x : Z; r_y : Z }.

Record fstate := mk_fs {
  cw : Z; ch : Z;                (* info.width / info.height: the canvas *)
  rc : rect;                     (* info.frame_control: width, height, x_offset, y_offset *)
  written : bool                 (* images_written > 0 *)
}.

Inductive fop :=
| FDim (w h : Z)                 (* set_frame_dimension *)
| FPos (x y : Z)                 (* set_frame_position *)
| FResetDim | FResetPos
| FImage.                        (* write_image_data / a stream writer for one image: emits the fcTL with the rectangle in force *)

Inductive fres := FROk | FRErr | FRFctl (r : rect).

Definition full (s : fstate) : rect := mk_rect (cw s) (ch s) 0 0.

(* Some(a) > b.checked_sub(c) : refused when the subtraction underflows or a exceeds the difference *)
Definition exceeds (a b c : Z) : bool := if b <? c then true else (b - c <? a).

Definition fstep (s : fstate) (o : fop) : fstate * fres :=
  match o with
  | FDim w h =>
    if exceeds w (cw s) (r_x (rc s)) || exceeds h (ch s) (r_y (rc s))
       || (negb (written s) && (negb (w =? cw s) || negb (h =? ch s)))      (* the first image has to cover the whole image (fix fea3bf3) *)
    then (s, FRErr)
    else if (w =? 0) || (h =? 0) then (s, FRErr)
    else (mk_fs (cw s) (ch s) (mk_rect w h (r_x (rc s)) (r_y (rc s))) (written s), FROk)
  | FPos x y =>
    if exceeds x (cw s) (r_w (rc s)) || exceeds y (ch s) (r_h (rc s))
       || (negb (written s) && (negb (x =? 0) || negb (y =? 0)))
    then (s, FRErr)
    else (mk_fs (cw s) (ch s) (mk_rect (r_w (rc s)) (r_h (rc s)) x y) (written s), FROk)
  | FResetDim => (mk_fs (cw s) (ch s) (mk_rect (cw s - r_x (rc s)) (ch s - r_y (rc s)) (r_x (rc s)) (r_y (rc s))) (written s), FROk)
  | FResetPos => (mk_fs (cw s) (ch s) (mk_rect (r_w (rc s)) (r_h (rc s)) 0 0) (written s), FROk)
  | FImage => (mk_fs (cw s) (ch s) (rc s) true, FRFctl (rc s))
  end.

Fixpoint frun (s : fstate) (ops : list fop) : list fres :=
  match ops with
  | [] => []
  | o :: r => let '(s', x) := fstep s o in x :: frun s' r
  end.

(* Encoder::new + set_animated: the frame control covers the canvas *)
Definition f_init (w h : Z) : fstate := mk_fs w h (mk_rect w h 0 0) false.

(* Encoder::with_info: a frame control given from outside is accepted only if it is the canvas rectangle (fix ccec8f9) *)
Definition f_with_info (w h : Z) (r : rect) : option fstate :=
  if (r_x r =? 0) && (r_y r =? 0) && (r_w r =? w) && (r_h r =? h) then Some (mk_fs w h r false) else None.

(* executable view for the correspondence check: results as numbers (0 ok, 1 err, rectangle as 4 numbers) *)
Definition fres_code (x : fres) : list Z := match x with FROk => [0] | FRErr => [1] | FRFctl r => [2; r_w r; r_h r; r_x r; r_y r] end.
Definition frun_codes (w h : Z) (ops : list fop) : list (list Z) := map fres_code (frun (f_init w h) ops).
