(* Hand model of src/adam7.rs: pass sizes (init_pass), the row sequence of Adam7Iterator, the bit positions of
   expand_adam7_bits, subbyte_pixels and expand_pass.  Tables and the sub-byte store expression come from
   Gen/GenAdam7.v (regenerated from the source on every run).  NO proofs in this file.

   f64: init_pass computes in f64.  u32 -> f64 is exact, subtracting a small constant is exact, division by a
   power of two is exact, ceil is exact and `as u32` saturates; so the value is the rational one.  This
   IEEE-754 assumption is part of the trusted base and is closed on the implementation side by the sweep in the
   harness (every width/height through the compiled init_pass in the thorough tier). *)
From PngV Require Import Base.Bytes Spec.Adam7Spec Gen.GenAdam7.

Definition ceil_div (x d : Z) : Z := - ((- x) / d).
Definition sat_u32 (x : Z) : Z := Z.max 0 (Z.min x 4294967295).

Fixpoint assocz {A} (k : Z) (l : list (Z * A)) : option A :=
  match l with
  | [] => None
  | (k', v) :: l' => if k =? k' then Some v else assocz k l'
  end.

(* (line_width, lines) of a pass; None = the `unreachable!()` arm *)
Definition pass_dims (w h p : Z) : option (Z * Z) :=
  match assocz p init_pass_table with
  | Some (kw, dw, kh, dh) => Some (sat_u32 (ceil_div (w - kw) dw), sat_u32 (ceil_div (h - kh) dh))
  | None => None
  end.

Fixpoint zseq_from (start : Z) (n : nat) : list Z :=
  match n with O => [] | S n' => start :: zseq_from (start + 1) n' end.
Definition zseq (n : Z) : list Z := zseq_from 0 (Z.to_nat n).

(* rows produced by the iterator for one pass: nothing when the pass is empty in either direction *)
Definition rows_of_pass (w h p : Z) : list (Z * Z * Z) :=
  match pass_dims w h p with
  | Some (lw, ln) => if 0 <? lw then map (fun l => (p, l, lw)) (zseq ln) else []
  | None => []
  end.

(* Adam7Iterator::new(w,h).collect(): passes 1..7 in order, empty passes skipped *)
Definition rows_model (w h : Z) : list (Z * Z * Z) :=
  flat_map (rows_of_pass w h) [1; 2; 3; 4; 5; 6; 7].

(* expand_adam7_bits: bit offset of pixel i of line [line] of pass p, for a row stride in bytes *)
Definition pos_xy (p line i : Z) : option (Z * Z) :=
  match assocz p expand_table with
  | Some (line_mul, line_off, samp_mul, samp_off) => Some (i * samp_mul + samp_off, line_mul * line + line_off)
  | None => None            (* panic!("Invalid `Adam7Info.pass`") *)
  end.

Definition bit_pos (stride p line i bits : Z) : option Z :=
  match pos_xy p line i with
  | Some (x, y) => Some (x * bits + y * stride * 8)
  | None => None
  end.

(* subbyte_pixels: pixel k of a scanline with bits_pp in {1,2,4} *)
Definition subbyte_pixel (row : Z -> Z) (bits k : Z) : Z :=
  let bit_idx := k * bits in
  let byte_idx := bit_idx / 8 in
  let rem := 8 - bit_idx mod 8 - bits in
  match assocz bits subbyte_mask_table with
  | Some mask => Z.land (Z.shiftr (row byte_idx) rem) mask
  | None => 0               (* unreachable!() *)
  end.

Definition upd (m : img) (k v : Z) : img := fun j => if j =? k then v else m j.

(* one iteration of the sub-byte loop of expand_pass *)
Definition store_sub (m : img) (pos px bits : Z) : img :=
  let rem := 8 - pos mod 8 - bits in
  upd m (pos / 8) (subbyte_store (m (pos / 8)) px bits rem).

(* one iteration of the byte loop: bytes_pp bytes of the pixel copied to bitpos/8 + offset *)
Fixpoint store_bytes (m : img) (base : Z) (px : list Z) : img :=
  match px with
  | [] => m
  | v :: px' => store_bytes (upd m base v) (base + 1) px'
  end.

(* expand_pass for one interlaced row of [width] pixels; [row] is the interlaced row as a function byte index -> byte.
   None = one of the panics of expand_adam7_bits *)
Fixpoint expand_row_sub (m : img) (stride p line bits : Z) (row : Z -> Z) (i : Z) (n : nat) : option img :=
  match n with
  | O => Some m
  | S n' =>
    match bit_pos stride p line i bits with
    | Some pos => expand_row_sub (store_sub m pos (subbyte_pixel row bits i) bits) stride p line bits row (i + 1) n'
    | None => None
    end
  end.

Definition row_pixel_bytes (row : Z -> Z) (bytes_pp i : Z) : list Z :=
  map (fun k => row (i * bytes_pp + k)) (zseq bytes_pp).

Fixpoint expand_row_bytes (m : img) (stride p line bits : Z) (row : Z -> Z) (i : Z) (n : nat) : option img :=
  match n with
  | O => Some m
  | S n' =>
    match bit_pos stride p line i bits with
    | Some pos =>
      expand_row_bytes (store_bytes m (pos / 8) (row_pixel_bytes row (bits / 8) i)) stride p line bits row (i + 1) n'
    | None => None
    end
  end.

Definition expand_pass_model (m : img) (stride p line width bits : Z) (row : Z -> Z) : option img :=
  if bits <? 8 then expand_row_sub m stride p line bits row 0 (Z.to_nat width)
  else expand_row_bytes m stride p line bits row 0 (Z.to_nat width).

(* executable wrappers over byte lists, used by the correspondence check *)
Definition img_of_list (l : list Z) : img := fun j => if j <? 0 then 0 else nth (Z.to_nat j) l 0.
Definition list_of_img (m : img) (len : Z) : list Z := map m (zseq len).
Definition expand_pass_exec (dest : list Z) (stride p line width bits : Z) (row : list Z) : option (list Z) :=
  match expand_pass_model (img_of_list dest) stride p line width bits (img_of_list row) with
  | Some m => Some (list_of_img m (zlen dest))
  | None => None
  end.
