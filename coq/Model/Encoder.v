(* Hand model of the chunk-level behaviour of src/encoder.rs: Writer::init/encode_header, write_image_data,
   StreamWriter (the number of data chunks per image is a parameter: 1 for write_image_data, any n >= 1 for the
   stream writer depending on its buffer size), finish / drop.  Output = list of chunk kinds (Spec/Validator.v).
   NO proofs in this file. *)
From Coq Require Import List Arith Bool Lia.
Import ListNotations.
From PngV Require Import Spec.Validator.

Record wcfg := mk_wcfg {
  animated : option nat;     (* set_animated(num_frames, _) *)
  sep_def : bool;            (* set_sep_def_img *)
  has_plte : bool;
  anc_before : nat;          (* pHYs / sRGB / gAMA / cHRM / iCCP / eXIf written before acTL *)
  anc_after : nat            (* tRNS and text chunks written after PLTE *)
}.

Record wstate := mk_w {
  images_written : nat;
  animation_written : nat;
  fctl_seq : option nat;     (* info.frame_control (its sequence_number) *)
  iend_written : bool
}.

Definition w_init (c : wcfg) : wstate :=
  mk_w 0 0 (match animated c with Some _ => Some 0 | None => None end) false.

Definition header (c : wcfg) : list ck :=
  [KIHDR] ++ repeat KANC (anc_before c) ++ (match animated c with Some n => [KACTL n] | None => [] end)
  ++ (if has_plte c then [KPLTE] else []) ++ repeat KANC (anc_after c).

Fixpoint fdats (q : nat) (n : nat) : list ck :=
  match n with O => [] | S n' => KFDAT q :: fdats (S q) n' end.

(* one image whose compressed data is emitted as [n] data chunks (n >= 1) *)
Definition write_image (c : wcfg) (s : wstate) (n : nat) : wstate * list ck :=
  let finish_img (s : wstate) :=
      let s := mk_w (S (images_written s)) (animation_written s) (fctl_seq s) (iend_written s) in
      match animated c with
      | Some nf => if nf <=? animation_written s then mk_w (images_written s) (animation_written s) None (iend_written s) else s
      | None => s
      end in
  match fctl_seq s with
  | None => (finish_img s, repeat KIDAT n)
  | Some q =>
    if sep_def c && (images_written s =? 0) then (finish_img s, repeat KIDAT n)
    else if images_written s =? 0
         then (finish_img (mk_w (images_written s) (S (animation_written s)) (Some (S q)) (iend_written s)), KFCTL q :: repeat KIDAT n)
         else (finish_img (mk_w (images_written s) (S (animation_written s)) (Some (S q + n)) (iend_written s)), KFCTL q :: fdats (S q) n)
  end.

Fixpoint write_images (c : wcfg) (s : wstate) (ns : list nat) : wstate * list ck :=
  match ns with
  | [] => (s, [])
  | n :: ns' => let '(s1, o1) := write_image c s n in
                let '(s2, o2) := write_images c s1 ns' in (s2, o1 ++ o2)
  end.

(* number of images the configuration declares *)
Definition declared_images (c : wcfg) : nat :=
  match animated c with Some nf => nf + (if sep_def c then 1 else 0) | None => 1 end.

(* the complete output of a writer that is given the images in [ns] and then finished (or dropped) *)
Definition emitted (c : wcfg) (ns : list nat) : list ck :=
  header c ++ snd (write_images c (w_init c) ns) ++ [KIEND].
