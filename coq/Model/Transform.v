(* Hand model of src/decoder/transform.rs, src/decoder/transform/palette.rs and Reader::output_color_type /
   output_line_size (src/decoder/mod.rs).  Rows and tables are byte lists; every assert / index /
   copy_from_slice length check of the Rust code is an explicit [Panic].  NO proofs in this file. *)
From PngV Require Import Base.Bytes.

(* what the transformation needs to know about the image *)
Record tinfo := mk_tinfo { t_color : Z; t_depth : Z; t_palette : option (list Z); t_trns : option (list Z) }.

(* Transformations bit flags *)
Definition has_strip16 (t : Z) : bool := Z.testbit t 0.      (* 0x00001 *)
Definition has_expand (t : Z) : bool := Z.testbit t 4.       (* 0x00010 *)
Definition has_alpha (t : Z) : bool := Z.testbit t 16.       (* 0x10000 *)
Definition is_identity (t : Z) : bool := negb (has_strip16 t || has_expand t || has_alpha t).

Definition samples (c : Z) : Z := if (c =? 0) || (c =? 3) then 1 else if c =? 2 then 3 else if c =? 4 then 2 else 4.

Definition is_some {A} (o : option A) : bool := match o with Some _ => true | None => false end.

(* Reader::output_color_type *)
Definition output_color_type (i : tinfo) (t : Z) : Z * Z :=
  if is_identity t then (t_color i, t_depth i)
  else
    let exp := has_expand t || has_alpha t in
    let bits := if (t_depth i =? 16) && has_strip16 t then 8
                else if (t_depth i <? 8) && exp then 8 else t_depth i in
    let color :=
        if exp then
          let has_trns := is_some (t_trns i) || has_alpha t in
          if (t_color i =? 0) && has_trns then 4
          else if (t_color i =? 2) && has_trns then 6
          else if (t_color i =? 3) && has_trns then 6
          else if t_color i =? 3 then 2
          else t_color i
        else t_color i in
    (color, bits).

(* ColorType::raw_row_length_from_width - 1, in bytes, for the given colour/depth *)
Definition row_bytes (color depth width : Z) : Z :=
  let smp := width * samples color in
  if depth =? 16 then smp * 2
  else if depth =? 8 then smp
  else let per := 8 / depth in smp / per + (if 0 <? smp mod per then 1 else 0).

Definition output_line_size (i : tinfo) (t : Z) (width : Z) : Z :=
  let '(c, d) := output_color_type i t in row_bytes c d width.

(* ------------------------------------------------------------------ palette.rs *)
Definition table := list (list Z).            (* 256 entries of 4 bytes *)

Fixpoint set_nth {A} (n : nat) (v : A) (l : list A) : list A :=
  match l, n with
  | [], _ => []
  | _ :: l', O => v :: l'
  | x :: l', S n' => x :: set_nth n' v l'
  end.

(* the 4-bytes-at-a-time copy of PLTE into the table (clobbers alpha of the entry being written) *)
Fixpoint copy_palette (fuel : nat) (pal : list Z) (idx : nat) (tab : table) : outcome table nat :=
  match fuel with
  | O => Ok tab
  | S fuel' =>
    if (4 <=? length pal)%nat then
      if (idx <? length tab)%nat then copy_palette fuel' (skipn 3 pal) (S idx) (set_nth idx (firstn 4 pal) tab)
      else Panic 1                                     (* rgba_iter[0] out of range *)
    else if (0 <? length pal)%nat then
      if (length pal <? 3)%nat then Panic 2            (* palette_iter[0..3] *)
      else if (idx <? length tab)%nat then
             Ok (set_nth idx (firstn 3 pal ++ skipn 3 (nth idx tab [])) tab)
           else Panic 3
    else Ok tab
  end.

(* `for (alpha, rgba) in trns.iter().zip(rgba_palette.iter_mut()) { rgba[3] = alpha }` *)
Fixpoint set_alphas (trns : list Z) (tab : table) : table :=
  match trns, tab with
  | a :: trns', e :: tab' => (firstn 3 e ++ [a]) :: set_alphas trns' tab'
  | _, _ => tab
  end.

(* `for rgba in rgba_palette[from..to].iter_mut() { rgba[3] = 0xFF }`; a range with from > to or to > 256 panics *)
Definition unclobber (from to : nat) (tab : table) : outcome table nat :=
  if ((to <? from) || (length tab <? to))%nat then Panic 4
  else Ok (firstn from tab ++ map (fun e => firstn 3 e ++ [255]) (firstn (to - from) (skipn from tab)) ++ skipn to tab).

Definition create_rgba_palette (i : tinfo) : outcome table nat :=
  match t_palette i with
  | None => Panic 5                                    (* expect("Caller should verify") *)
  | Some palette =>
    let trns := match t_trns i with Some t => t | None => [] end in
    let palette := firstn (Nat.min (length palette / 3) 256 * 3) palette in
    let trns := if (length trns <=? length palette / 3)%nat then trns else [] in
    let tab0 := repeatz [0; 0; 0; 255] 256 in
    obind (copy_palette (length palette) palette O tab0) (fun tab =>
    unclobber (length trns) (length palette / 3) (set_alphas trns tab))
  end.

(* unpack_bits: the sequence of pixel values handed to the closure, one per output chunk.
   [n] chunks are produced (output.len() / channels). *)
Definition unpack_pixel (input : list Z) (depth : Z) (k : Z) : option Z :=
  let bit := k * depth in
  match nth_error input (Z.to_nat (bit / 8)) with
  | Some b => Some (Z.land (Z.shiftr b (8 - depth - bit mod 8)) (Z.shiftl 1 depth - 1))
  | None => None                                       (* iter.next().expect(..) *)
  end.

Fixpoint unpack_go (input : list Z) (depth : Z) (k : Z) (n : nat) (f : Z -> list Z) : outcome (list Z) nat :=
  match n with
  | O => Ok []
  | S n' =>
    match unpack_pixel input depth k with
    | Some p => obind (unpack_go input depth (k + 1) n' f) (fun r => Ok (f p ++ r))
    | None => Panic 6
    end
  end.

(* unpack_bits(input, output, channels, bit_depth, func): result = new content of output (trailing bytes beyond the
   last whole chunk are left as they were: [old] supplies them) *)
Definition unpack_bits (input old : list Z) (channels depth : Z) (f : Z -> list Z) : outcome (list Z) nat :=
  if negb ((depth =? 1) || (depth =? 2) || (depth =? 4) || (depth =? 8)) then Panic 7
  else if (8 / depth * channels) * zlen input <? zlen old then Panic 8
  else
    let n := Z.to_nat (zlen old / channels) in
    if depth =? 8 then
      (* `for (&curr, chunk) in iter.zip(&mut buf_chunks)`: stops at the shorter *)
      let m := Nat.min n (length input) in
      Ok (flat_map f (firstn m input) ++ skipn (m * Z.to_nat channels) old)
    else
      obind (unpack_go input depth 0 n f) (fun r => Ok (r ++ skipn (n * Z.to_nat channels) old)).

Definition tab_get (tab : table) (i : Z) : list Z := nth (Z.to_nat i) tab [0; 0; 0; 0].

(* expand_8bit_into_rgb8: writes 4 bytes per index, advancing 3 *)
Fixpoint expand_8bit_into_rgb8 (fuel : nat) (input out : list Z) (tab : table) : outcome (list Z) nat :=
  match fuel with
  | O => Ok out
  | S fuel' =>
    if (4 <=? length out)%nat then
      match input with
      | [] => Panic 9
      | i :: input' =>
        let out' := tab_get tab i ++ skipn 4 out in
        obind (expand_8bit_into_rgb8 fuel' input' (skipn 3 out') tab) (fun r => Ok (firstn 3 out' ++ r))
      end
    else if (0 <? length out)%nat then
      match input with
      | [] => Panic 10
      | i :: _ => if (length out <? 3)%nat then Panic 11 else Ok (firstn 3 (tab_get tab i) ++ skipn 3 out)
      end
    else Ok out
  end.

(* ------------------------------------------------------------------ transform.rs *)
Inductive tfn :=
| TPalRgba (tab : table) | TPalRgb8 (tab : table) | TPalRgb (tab : table)
| TGray | TGrayTrns | TTrns8 | TTrnsStrip16 | TTrns16 | TStrip16 | TCopy.

Inductive terr := TErrPaletteRequired | TErrInvalidColorBitDepth.

(* create_transform_fn: Ok (Some f) / Err as outcome *)
Definition create_transform_fn (i : tinfo) (t : Z) : outcome tfn terr :=
  let trns := is_some (t_trns i) || has_alpha t in
  let expand := has_expand t || has_alpha t in
  let strip16 := (t_depth i =? 16) && has_strip16 t in
  if (t_color i =? 3) && expand then
    if negb (is_some (t_palette i)) then Err TErrPaletteRequired
    else if t_depth i =? 16 then Err TErrInvalidColorBitDepth
    else match create_rgba_palette i with
         | Ok tab => Ok (if trns then TPalRgba tab else if t_depth i =? 8 then TPalRgb8 tab else TPalRgb tab)
         | Panic p => Panic p
         | Err _ => Panic 0
         end
  else if ((t_color i =? 0) || (t_color i =? 4)) && (t_depth i <? 8) && expand then
    Ok (if trns then TGrayTrns else TGray)
  else if ((t_color i =? 0) || (t_color i =? 2)) && expand && trns then
    if t_depth i =? 8 then Ok TTrns8
    else if strip16 then Ok TTrnsStrip16
    else if t_depth i =? 16 then Ok TTrns16 else Panic 12            (* assert_eq!(bit_depth, 16) *)
  else if strip16 then Ok TStrip16
  else Ok TCopy.

(* chunks_exact(n) of a list *)
Fixpoint chunks (fuel : nat) (n : nat) (l : list Z) : list (list Z) :=
  match fuel with
  | O => []
  | S fuel' => if (length l <? n)%nat || (n =? 0)%nat then [] else firstn n l :: chunks fuel' n (skipn n l)
  end.
Definition chunks_exact (n : nat) (l : list Z) : list (list Z) := chunks (length l) n l.

Definition opt_eqb (x : list Z) (t : option (list Z)) : bool :=
  match t with Some v => list_eqb x v | None => false end.

(* zip of input chunks and output chunks: only min(#in, #out) output chunks are rewritten *)
Definition zip_chunks (inp : list (list Z)) (osz : nat) (old : list Z) (f : list Z -> list Z) : list Z :=
  let n := Nat.min (length inp) (length old / osz) in
  flat_map f (firstn n inp) ++ skipn (n * osz) old.

Definition scaling_factor (depth : Z) : Z := 255 / (Z.shiftl 1 depth - 1).

(* apply a transform function to one row; [old] = previous content of the output slice (its length is what
   the Rust closure sees as output_buffer.len()) *)
Definition apply_tfn (f : tfn) (i : tinfo) (row old : list Z) : outcome (list Z) nat :=
  let ch := Z.to_nat (samples (t_color i)) in
  match f with
  | TCopy => if (length row =? length old)%nat then Ok row else Panic 13      (* copy_from_slice *)
  | TStrip16 =>
    let n := (length row / 2)%nat in
    if (length old <? n)%nat then Panic 14
    else Ok (map (fun c => hd 0 c) (chunks_exact 2 row) ++ skipn n old)
  | TTrns8 =>
    Ok (zip_chunks (chunks_exact ch row) (S ch) old
                   (fun px => px ++ [if opt_eqb px (t_trns i) then 0 else 255]))
  | TTrns16 =>
    Ok (zip_chunks (chunks_exact (ch * 2) row) (ch * 2 + 2) old
                   (fun px => px ++ (if opt_eqb px (t_trns i) then [0; 0] else [255; 255])))
  | TTrnsStrip16 =>
    Ok (zip_chunks (chunks_exact (ch * 2) row) (S ch) old
                   (fun px => map (fun c => hd 0 c) (chunks_exact 2 px) ++ [if opt_eqb px (t_trns i) then 0 else 255]))
  | TGray =>
    let sf := scaling_factor (t_depth i) in
    unpack_bits row old 1 (t_depth i) (fun v => [(v * sf) mod 256])
  | TGrayTrns =>
    let sf := scaling_factor (t_depth i) in
    match t_trns i with
    | Some [] => Panic 15                                                     (* trns[0] *)
    | _ =>
      unpack_bits row old 2 (t_depth i)
                  (fun v => [(v * sf) mod 256;
                             match t_trns i with Some (k :: _) => if v =? k then 0 else 255 | _ => 255 end])
    end
  | TPalRgba tab => unpack_bits row old 4 (t_depth i) (fun v => tab_get tab v)
  | TPalRgb tab => unpack_bits row old 3 (t_depth i) (fun v => firstn 3 (tab_get tab v))
  | TPalRgb8 tab => expand_8bit_into_rgb8 (length old) row old tab
  end.

(* the complete per-row path of next_interlaced_row_impl for a row of [width] pixels:
   output slice of output_line_size bytes, previously holding [old] *)
Inductive rowres := TROk (out : list Z) | TRErr (e : terr) | TRPanic (site : nat).

Definition transform_row (i : tinfo) (t : Z) (row old : list Z) : rowres :=
  match create_transform_fn i t with
  | Ok f => match apply_tfn f i row old with Ok o => TROk o | Panic p => TRPanic p | Err _ => TRPanic 0 end
  | Err e => TRErr e
  | Panic p => TRPanic p
  end.
