(* Hand model of the output-buffer management of src/decoder/zlib.rs (ZlibStream: out_buffer, out_pos, read_pos, max_total_output):
   prepare_vec_for_appending / decoding_size, the advance after fdeflate's read, transfer_finished_data, compact_out_buffer_if_needed.
   The decompressor itself is external: one call produces some bytes [new] (at most the free space).  Constants LOOKBACK_SIZE,
   COMPACT_FACTOR, CHUNK_BUFFER_SIZE are regenerated from the source (Gen/GenStream.v).  NO proofs here.
   usize::MAX is modelled as [None] for max_total_output. *)
From PngV Require Import Base.Bytes Gen.GenStream.

Record zbuf := mk_zbuf {
  zb_len : Z;                 (* out_buffer.len() *)
  zb_pos : Z;                 (* out_pos *)
  zb_read : Z;                (* read_pos *)
  zb_max : option Z;          (* max_total_output; None = usize::MAX *)
  zb_data : list Z            (* out_buffer[0 .. out_pos] *)
}.

Definition zb_new : zbuf := mk_zbuf 0 0 0 None [].
Definition min_opt (a : Z) (m : option Z) : Z := match m with Some x => Z.min a x | None => a end.

(* decoding_size(len) = len.saturating_add(max(CHUNK, len)).min(max_total_output)   (the usize / isize::MAX clamps are out of reach) *)
Definition decoding_size (z : zbuf) (len : Z) : Z := min_opt (len + Z.max CHUNK_BUFFER_SIZE len) (zb_max z).

Definition prepare (z : zbuf) : zbuf :=
  let max := match zb_max z with Some m => if m <=? zb_pos z then None else Some m | None => None end in
  let z := mk_zbuf (zb_len z) (zb_pos z) (zb_read z) max (zb_data z) in
  let desired := min_opt (zb_pos z + CHUNK_BUFFER_SIZE) max in
  if desired <=? zb_len z then z
  else mk_zbuf (decoding_size z (zb_len z)) (zb_pos z) (zb_read z) max (zb_data z).

(* free space offered to the decompressor *)
Definition zb_room (z : zbuf) : Z := zb_len z - zb_pos z.

(* out_pos += out_consumed, with the bytes the decompressor wrote *)
Definition advance (z : zbuf) (new : list Z) : zbuf :=
  mk_zbuf (zb_len z) (zb_pos z + zlen new) (zb_read z) (zb_max z) (zb_data z ++ new).

(* transfer_finished_data: returns out_buffer[read_pos .. out_pos] *)
Definition transfer (z : zbuf) : zbuf * list Z :=
  (mk_zbuf (zb_len z) (zb_pos z) (zb_pos z) (zb_max z) (zb_data z), skipn (Z.to_nat (zb_read z)) (zb_data z)).

(* compact_out_buffer_if_needed *)
Definition compact (z : zbuf) : zbuf :=
  if LOOKBACK_SIZE * COMPACT_FACTOR <? zb_pos z then
    let start := Z.max 0 (zb_pos z - LOOKBACK_SIZE) in
    let keep := zb_pos z - start in
    mk_zbuf (zb_len z) keep keep (zb_max z) (skipn (Z.to_nat start) (zb_data z))
  else z.

(* one ZlibStream::decompress call that is not short-circuited by is_done: the decompressor wrote [new] *)
Definition zb_step (z : zbuf) (new : list Z) : zbuf * list Z :=
  let z := advance (prepare z) new in
  let '(z, out) := transfer z in
  (compact z, out).

(* a run: the bytes produced by successive calls; the delivered bytes of all calls *)
Fixpoint zb_run (z : zbuf) (news : list (list Z)) : zbuf * list Z :=
  match news with
  | [] => (z, [])
  | n :: rest => let '(z1, o1) := zb_step z n in let '(z2, o2) := zb_run z1 rest in (z2, o1 ++ o2)
  end.

(* cursor-only version run by the correspondence check: the produced byte COUNTS are what the harness observes *)
Definition zb_cursor_step (z : zbuf) (k : Z) : zbuf := fst (zb_step z (repeat 0 (Z.to_nat k))).
Fixpoint zb_cursor_run (z : zbuf) (ks : list Z) : list (Z * Z * Z) :=
  match ks with
  | [] => []
  | k :: rest => let z1 := zb_cursor_step z k in (zb_len z1, zb_pos z1, zb_read z1) :: zb_cursor_run z1 rest
  end.
