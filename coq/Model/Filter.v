(* Hand model of src/filter.rs: [unfilter] (decoder side), [filter_internal], [filter] (adaptive selection)
   and [sum_buffer].  Transcribed control-flow-literally; NO proofs in this file.
   The Paeth predictors, the first-row substitution and RowFilter::from_u8 come from Gen/GenPaeth.v,
   which is regenerated from the Rust source on every run. *)
From PngV Require Import Base.Bytes Spec.FilterSpec Gen.GenPaeth.

Definition add8 (x y : Z) : Z := (x + y) mod 256.   (* u8::wrapping_add *)
Definition sub8 (x y : Z) : Z := (x - y) mod 256.   (* u8::wrapping_sub *)

Fixpoint map3 {A B C D} (f : A -> B -> C -> D) (l1 : list A) (l2 : list B) (l3 : list C) : list D :=
  match l1, l2, l3 with
  | a :: l1', b :: l2', c :: l3' => f a b c :: map3 f l1' l2' l3'
  | _, _, _ => []
  end.
Fixpoint map4 {A B C D E} (f : A -> B -> C -> D -> E) (l1 : list A) (l2 : list B) (l3 : list C) (l4 : list D) : list E :=
  match l1, l2, l3, l4 with
  | a :: l1', b :: l2', c :: l3', d :: l4' => f a b c d :: map4 f l1' l2' l3' l4'
  | _, _, _, _ => []
  end.

(* `for chunk in current.chunks_exact_mut(n)` with loop-carried state; a trailing remainder shorter
   than n is left untouched, exactly as chunks_exact_mut does *)
Fixpoint chunks_fold {S} (n : nat) (f : S -> list Z -> S * list Z) (fuel : nat) (s : S) (l : list Z) : list Z :=
  match fuel with
  | O => l
  | Datatypes.S fuel' =>
    if (length l <? n)%nat then l
    else let '(s', o) := f s (firstn n l) in o ++ chunks_fold n f fuel' s' (skipn n l)
  end.

(* `for (chunk, above) in current.chunks_exact_mut(n).zip(previous.chunks_exact(n))` *)
Fixpoint chunks_fold2 {S} (n : nat) (f : S -> list Z -> list Z -> S * list Z) (fuel : nat) (s : S)
         (cur prev : list Z) : list Z :=
  match fuel with
  | O => cur
  | Datatypes.S fuel' =>
    if ((length cur <? n) || (length prev <? n))%nat then cur
    else let '(s', o) := f s (firstn n cur) (firstn n prev) in
         o ++ chunks_fold2 n f fuel' s' (skipn n cur) (skipn n prev)
  end.

(* `current.iter_mut().reduce(|&mut prev, curr| { *curr = f(curr, prev); curr })` *)
Fixpoint reduce_go (f : Z -> Z -> Z) (prev : Z) (l : list Z) : list Z :=
  match l with
  | [] => []
  | x :: l' => let y := f x prev in y :: reduce_go f y l'
  end.
Definition reduce_mut (f : Z -> Z -> Z) (l : list Z) : list Z :=
  match l with [] => [] | x :: l' => x :: reduce_go f x l' end.

(* [P] is the predictor selected by `cfg!(target_arch)`; bpp is BytesPerPixel as usize (1,2,3,4,6,8) *)
Definition unfilter_model (P : Z -> Z -> Z -> Z) (ftz : Z) (bpp : nat) (prev cur : list Z) : list Z :=
  let ftz := match prev with [] => first_row_subst ftz | _ => ftz end in
  let fuel := length cur in
  if ftz =? 0 then cur
  else if ftz =? 1 then
    (if (bpp =? 1)%nat then reduce_mut add8 cur
     else chunks_fold bpp (fun p ch => let n := map2 add8 ch p in (n, n)) fuel (zeros bpp) cur)
  else if ftz =? 2 then
    map2 add8 cur prev ++ skipn (length prev) cur
  else if ftz =? 3 then
    match prev with
    | [] =>
      if (bpp =? 1)%nat then reduce_mut (fun x p => add8 x (p / 2)) cur
      else chunks_fold bpp (fun p ch => let n := map2 (fun x q => add8 x (q / 2)) ch p in (n, n)) fuel (zeros bpp) cur
    | _ =>
      chunks_fold2 bpp (fun lp ch ab => let n := map3 (fun x a l => add8 x (((a + l) / 2) mod 256)) ch ab lp in (n, n))
                   fuel (zeros bpp) cur prev
    end
  else
    chunks_fold2 bpp (fun (st : list Z * list Z) ch b =>
                        let '(a, c) := st in
                        let n := map4 (fun x a b c => add8 x (P a b c)) ch a b c in ((n, b), n))
                 fuel (zeros bpp, zeros bpp) cur prev.

(* ------------------------------------------------------------------ encoder side *)

(* three zipped chunks_exact(32) iterators over equally long slices followed by the zipped remainders *)
Fixpoint chunked_map2 (n : nat) (f : Z -> Z -> Z) (fuel : nat) (l1 l2 : list Z) : list Z :=
  match fuel with
  | O => map2 f l1 l2
  | Datatypes.S fuel' =>
    if ((length l1 <? n) || (length l2 <? n))%nat then map2 f l1 l2
    else map2 f (firstn n l1) (firstn n l2) ++ chunked_map2 n f fuel' (skipn n l1) (skipn n l2)
  end.
Fixpoint chunked_map3 (n : nat) (f : Z -> Z -> Z -> Z) (fuel : nat) (l1 l2 l3 : list Z) : list Z :=
  match fuel with
  | O => map3 f l1 l2 l3
  | Datatypes.S fuel' =>
    if ((length l1 <? n) || (length l2 <? n) || (length l3 <? n))%nat then map3 f l1 l2 l3
    else map3 f (firstn n l1) (firstn n l2) (firstn n l3)
         ++ chunked_map3 n f fuel' (skipn n l1) (skipn n l2) (skipn n l3)
  end.
Fixpoint chunked_map4 (n : nat) (f : Z -> Z -> Z -> Z -> Z) (fuel : nat) (l1 l2 l3 l4 : list Z) : list Z :=
  match fuel with
  | O => map4 f l1 l2 l3 l4
  | Datatypes.S fuel' =>
    if ((length l1 <? n) || (length l2 <? n) || (length l3 <? n) || (length l4 <? n))%nat then map4 f l1 l2 l3 l4
    else map4 f (firstn n l1) (firstn n l2) (firstn n l3) (firstn n l4)
         ++ chunked_map4 n f fuel' (skipn n l1) (skipn n l2) (skipn n l3) (skipn n l4)
  end.

Definition CHUNK_SIZE : nat := 32.

(* the bitwise average used by the encoder *)
Definition avg_bits (x y : Z) : Z := Z.land x y + Z.shiftr (Z.lxor x y) 1.

(* filter_internal: None = a slice index of the Rust code would be out of range (|cur| < bpp or
   |prev| <> |cur|): those are caller errors that the callers in encoder.rs exclude *)
Definition filter_internal_model (ft : ftype) (bpp : nat) (prev cur : list Z) : option (list Z) :=
  let len := length cur in
  if ((len <? bpp) || negb (length prev =? len))%nat then None
  else
    let fuel := len in
    Some match ft with
    | FNone => cur
    | FSub =>
      firstn bpp cur
      ++ chunked_map2 CHUNK_SIZE sub8 fuel (skipn bpp cur) (firstn (len - bpp) cur)
    | FUp => chunked_map2 CHUNK_SIZE sub8 fuel cur prev
    | FAvg =>
      map2 (fun x p => sub8 x (p / 2)) (firstn bpp cur) (firstn bpp prev)
      ++ chunked_map3 CHUNK_SIZE (fun x a b => sub8 x (avg_bits a b)) fuel
           (skipn bpp cur) (firstn (len - bpp) cur) (skipn bpp prev)
    | FPaeth =>
      map2 (fun x p => sub8 x (filter_paeth_encode 0 p 0)) (firstn bpp cur) (firstn bpp prev)
      ++ chunked_map4 CHUNK_SIZE (fun x a b c => sub8 x (filter_paeth_encode a b c)) fuel
           (skipn bpp cur) (firstn (len - bpp) cur) (skipn bpp prev) (firstn (len - bpp) prev)
    end.

(* sum_buffer: u64 saturating adds never saturate below 2^57 bytes, so the sum is the plain sum *)
Definition sum_buffer_model (l : list Z) : Z := fold_left (fun acc b => acc + sum_weight b) l 0.

Inductive fmethod := MFixed (f : ftype) | MAdaptive.

Definition U64_MAX : Z := 18446744073709551615.

(* filter(): returns the row filter actually used and the filtered bytes *)
Definition filter_model (m : fmethod) (bpp : nat) (prev cur : list Z) : option (ftype * list Z) :=
  match m with
  | MFixed f => option_map (fun o => (f, o)) (filter_internal_model f bpp prev cur)
  | MAdaptive =>
    let step (acc : option (ftype * Z)) (f : ftype) :=
        match acc, filter_internal_model f bpp prev cur with
        | Some (choice, min_sum), Some out =>
          let s := sum_buffer_model out in
          if s <=? min_sum then Some (f, s) else Some (choice, min_sum)
        | _, _ => None
        end in
    match fold_left step [FSub; FUp; FAvg; FPaeth] (Some (FNone, U64_MAX)) with
    | Some (choice, _) => option_map (fun o => (choice, o)) (filter_internal_model choice bpp prev cur)
    | None => None
    end
  end.
