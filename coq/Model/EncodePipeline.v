(* Hand model of the scanline loop of the encoder (Writer::write_image_data and StreamWriter::write): every row is
   filtered against the previous ROW OF THE INPUT (a zero row before the first), the filter byte and the filtered
   bytes are appended to the stream handed to the compressor.  NO proofs in this file. *)
From PngV Require Import Base.Bytes Spec.FilterSpec Gen.GenPaeth Model.Filter.

Fixpoint encode_rows (m : fmethod) (bpp : nat) (prev : list Z) (rows : list (list Z)) : option (list Z) :=
  match rows with
  | [] => Some []
  | r :: rows' =>
    match filter_model m bpp prev r, encode_rows m bpp r rows' with
    | Some (rf, out), Some rest => Some (ftype_to_Z rf :: out ++ rest)
    | _, _ => None
    end
  end.

(* the stream for an image whose rows all have [rowlen] bytes *)
Definition encode_image (m : fmethod) (bpp rowlen : nat) (rows : list (list Z)) : option (list Z) :=
  encode_rows m bpp (zeros rowlen) rows.
