(* Hand model of the scanline pipeline of src/decoder/mod.rs + unfiltering_buffer.rs (next_raw_interlaced_row /
   unfilter_curr_row / next_frame) at the level of rows: the inflated data of one frame is a sequence of
   (filter byte, rowlen bytes) records; each is reconstructed against the previous reconstructed row, with the
   previous row reset at the start of the image and of every Adam7 pass; interlaced rows are scattered with
   expand_pass.  The BUFFERING (compaction, partial rows across inflater calls) is not modelled here: it is tied
   by the correspondence check.  NO proofs in this file. *)
From PngV Require Import Base.Bytes Spec.FilterSpec Gen.GenPaeth Model.Filter Spec.Adam7Spec Gen.GenAdam7 Model.Adam7 Base.Crc Base.Inflate.

Inductive perr := PTooShort | PBadFilter (ft : Z).

(* rows of one (pass) image: [n] rows of [rowlen] bytes each preceded by a filter byte *)
Fixpoint unfilter_rows (P : Z -> Z -> Z -> Z) (bpp rowlen : nat) (n : nat) (prev : list Z) (stream : list Z)
  : outcome (list (list Z) * list Z) perr :=
  match n with
  | O => Ok ([], stream)
  | S n' =>
    match stream with
    | [] => Err PTooShort
    | ft :: rest =>
      if (length rest <? rowlen)%nat then Err PTooShort
      else match row_filter_from_u8 ft with
           | None => Err (PBadFilter ft)
           | Some f =>
             let row := unfilter_model P f bpp prev (firstn rowlen rest) in
             match unfilter_rows P bpp rowlen n' row (skipn rowlen rest) with
             | Ok (rows, tl) => Ok (row :: rows, tl)
             | Err e => Err e
             | Panic p => Panic p
             end
           end
    end
  end.

(* the specification: same record structure, reconstruction by the specification's formulas *)
Fixpoint spec_rows (bpp rowlen : nat) (n : nat) (prev : list Z) (stream : list Z)
  : outcome (list (list Z) * list Z) perr :=
  match n with
  | O => Ok ([], stream)
  | S n' =>
    match stream with
    | [] => Err PTooShort
    | ft :: rest =>
      if (length rest <? rowlen)%nat then Err PTooShort
      else match ftype_of_Z ft with
           | None => Err (PBadFilter ft)
           | Some f =>
             let row := recon_spec f bpp prev (firstn rowlen rest) in
             match spec_rows bpp rowlen n' row (skipn rowlen rest) with
             | Ok (rows, tl) => Ok (row :: rows, tl)
             | Err e => Err e
             | Panic p => Panic p
             end
           end
    end
  end.

(* geometry *)
Definition nsamp (c : Z) : Z := if (c =? 0) || (c =? 3) then 1 else if c =? 2 then 3 else if c =? 4 then 2 else 4.
Definition bits_pp (c d : Z) : Z := nsamp c * d.
Definition row_bytes_spec (c d w : Z) : Z := (w * bits_pp c d + 7) / 8.
Definition bpp_filter (c d : Z) : nat := Z.to_nat (Z.max 1 (bits_pp c d / 8)).

(* non-interlaced image: h rows of the full width *)
Definition decode_plain (P : Z -> Z -> Z -> Z) (c d w h : Z) (stream : list Z) : outcome (list Z) perr :=
  match unfilter_rows P (bpp_filter c d) (Z.to_nat (row_bytes_spec c d w)) (Z.to_nat h) [] stream with
  | Ok (rows, _) => Ok (concat rows)
  | Err e => Err e
  | Panic p => Panic p
  end.

(* interlaced image: the passes of rows_model in order; each pass restarts with an empty previous row; each row is
   expanded into the (zero-initialised) destination of h rows of row_bytes bytes *)
Fixpoint decode_passes (P : Z -> Z -> Z -> Z) (c d : Z) (stride : Z) (rows : list (Z * Z * Z)) (prev : list Z)
         (stream : list Z) (dest : list Z) : outcome (list Z) perr :=
  match rows with
  | [] => Ok dest
  | (p, l, lw) :: rows' =>
    let prev := if l =? 0 then [] else prev in
    match unfilter_rows P (bpp_filter c d) (Z.to_nat (row_bytes_spec c d lw)) 1 prev stream with
    | Ok ([row], tl) =>
      match expand_pass_exec dest stride p l lw (bits_pp c d) row with
      | Some dest' => decode_passes P c d stride rows' row tl dest'
      | None => Panic 1
      end
    | Ok _ => Panic 2
    | Err e => Err e
    | Panic q => Panic q
    end
  end.

Definition decode_adam7 (P : Z -> Z -> Z -> Z) (c d w h : Z) (stream : list Z) : outcome (list Z) perr :=
  let stride := row_bytes_spec c d w in
  decode_passes P c d stride (rows_model w h) [] stream (repeatz 0 (Z.to_nat (stride * h))).

(* complete identity decode of one frame from its zlib stream (reference inflater) *)
Definition decode_frame (c d w h : Z) (interlaced : bool) (z : list Z) : option (list Z) :=
  match zlib_inflate false z with
  | (raw, ZDone _) =>
    match (if interlaced then decode_adam7 else decode_plain) filter_paeth_decode_x86_64 c d w h raw with
    | Ok px => Some px
    | _ => None
    end
  | _ => None
  end.
