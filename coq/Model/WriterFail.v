(* Hand model of Writer::write_image_data / finish / Drop (src/encoder.rs) at chunk granularity over a sink that starts failing:
   the sink accepts a given number of chunk writes and refuses every write (and flush) after that ("a sink that starts failing at any write").
   Sequence validation (validate_sequence) is part of the configuration.  The log is what the sink has accepted.
   Chunk writes are atomic here: the bytes of a chunk whose write is refused half-way are not modelled (C19 is about errors being reported
   and about IEND, not about those bytes).  NO proofs in this file. *)
From Coq Require Import List Arith Bool Lia.
Import ListNotations.
From PngV Require Import Spec.Validator Model.Encoder.

Record fstate := mk_f {
  f_w : wstate;              (* the counters of Model/Encoder.v *)
  f_left : option nat;       (* chunk writes the sink still accepts (None: a healthy sink) *)
  f_log : list ck            (* accepted by the sink, header not included *)
}.

Inductive fres := FOk | FErrSink | FErrEndReached | FErrMissingFrames.

(* one chunk write *)
Definition f_emit (s : fstate) (k : ck) : fstate * bool :=
  match f_left s with
  | None => (mk_f (f_w s) None (f_log s ++ [k]), true)
  | Some (S n) => (mk_f (f_w s) (Some n) (f_log s ++ [k]), true)
  | Some O => (s, false)
  end.

Fixpoint f_emit_all (s : fstate) (ks : list ck) : fstate * bool :=
  match ks with
  | [] => (s, true)
  | k :: ks' => match f_emit s k with (s1, true) => f_emit_all s1 ks' | (s1, false) => (s1, false) end
  end.

Definition set_w (s : fstate) (w : wstate) : fstate := mk_f w (f_left s) (f_log s).

(* validate_new_image *)
Definition new_image_ok (validate : bool) (c : wcfg) (w : wstate) : bool :=
  if validate then
    match animated c with
    | None => images_written w =? 0
    | Some _ => match fctl_seq w with Some _ => true | None => false end
    end
  else true.

(* increment_images_written *)
Definition inc_images (c : wcfg) (w : wstate) : wstate :=
  let w := mk_w (S (images_written w)) (animation_written w) (fctl_seq w) (iend_written w) in
  match animated c with
  | Some nf => if nf <=? animation_written w then mk_w (images_written w) (animation_written w) None (iend_written w) else w
  | None => w
  end.

(* the fdAT chunks of a later frame: every chunk takes the next sequence number; the counter moves only after the chunk has been written *)
Fixpoint fdat_loop (c : wcfg) (s : fstate) (q n : nat) {struct n} : fstate * fres :=
  match n with
  | O => (set_w s (inc_images c (f_w s)), FOk)
  | S n' =>
    match f_emit s (KFDAT q) with
    | (s2, true) => fdat_loop c (set_w s2 (mk_w (images_written (f_w s2)) (animation_written (f_w s2)) (Some (S q)) (iend_written (f_w s2)))) (S q) n'
    | (s2, false) => (s2, FErrSink)
    end
  end.

(* write_image_data with [n] data chunks *)
Definition f_image (validate : bool) (c : wcfg) (s : fstate) (n : nat) : fstate * fres :=
  let w := f_w s in
  if negb (new_image_ok validate c w) then (s, FErrEndReached)
  else
    match fctl_seq w with
    | None =>
      match f_emit_all s (repeat KIDAT n) with
      | (s1, true) => (set_w s1 (inc_images c (f_w s1)), FOk)
      | (s1, false) => (s1, FErrSink)
      end
    | Some q =>
      if sep_def c && (images_written w =? 0) then
        match f_emit_all s (repeat KIDAT n) with
        | (s1, true) => (set_w s1 (inc_images c (f_w s1)), FOk)
        | (s1, false) => (s1, FErrSink)
        end
      else
        match f_emit s (KFCTL q) with
        | (s1, false) => (s1, FErrSink)
        | (s1, true) =>
          (* the frame control is out: sequence number and frame counter move on before the data is written *)
          let first := images_written w =? 0 in
          let w1 := mk_w (images_written w) (S (animation_written w)) (Some (S q)) (iend_written w) in
          let s1 := set_w s1 w1 in
          if first then
            match f_emit_all s1 (repeat KIDAT n) with
            | (s2, true) => (set_w s2 (inc_images c (f_w s2)), FOk)
            | (s2, false) => (s2, FErrSink)
            end
          else
            fdat_loop c s1 (S q) n
        end
    end.

(* validate_sequence_done *)
Definition sequence_done (validate : bool) (c : wcfg) (w : wstate) : bool :=
  if validate then
    negb ((match animated c with Some _ => true | None => false end) && (match fctl_seq w with Some _ => true | None => false end)
          || (images_written w =? 0))
  else true.

Definition mark_iend (s : fstate) : fstate :=
  set_w s (mk_w (images_written (f_w s)) (animation_written (f_w s)) (fctl_seq (f_w s)) true).

(* Writer::finish: validate, write IEND (the flag is set first), flush; then the writer is dropped (the flag is set: nothing more) *)
Definition f_finish (validate : bool) (c : wcfg) (s : fstate) : fstate * fres :=
  if negb (sequence_done validate c (f_w s)) then
    (* Err(MissingFrames): `self` is dropped on the way out, and Drop writes IEND (ignoring the result) *)
    (fst (f_emit (mark_iend s) KIEND), FErrMissingFrames)
  else
    match f_emit (mark_iend s) KIEND with
    | (s1, false) => (s1, FErrSink)
    | (s1, true) =>
      (* flush: refused by a sink that has started failing *)
      match f_left s1 with Some O => (s1, FErrSink) | _ => (s1, FOk) end
    end.

(* Drop *)
Definition f_drop (s : fstate) : fstate :=
  if iend_written (f_w s) then s else fst (f_emit (mark_iend s) KIEND).

(* a history: images (with their numbers of data chunks), then finish or drop *)
Fixpoint f_images (validate : bool) (c : wcfg) (s : fstate) (ns : list nat) : fstate * list fres :=
  match ns with
  | [] => (s, [])
  | n :: ns' => let '(s1, r) := f_image validate c s n in
                let '(s2, rs) := f_images validate c s1 ns' in (s2, r :: rs)
  end.

Definition f_start (c : wcfg) (budget : option nat) : fstate := mk_f (w_init c) budget [].

Definition f_history (validate : bool) (c : wcfg) (budget : option nat) (ns : list nat) (finish : bool) : list ck * list fres :=
  let '(s1, rs) := f_images validate c (f_start c budget) ns in
  if finish then let '(s2, r) := f_finish validate c s1 in (f_log s2, rs ++ [r])
  else (f_log (f_drop s1), rs).
