(* Adam7 expansion: the stores of expand_pass write exactly the bit field of each pixel; one interlaced row
   writes exactly the fields of its pixels; all rows of an image, in any order, write every pixel of the image at
   its position and nothing else. *)
From PngV Require Import Base.Bytes Spec.Adam7Spec Gen.GenAdam7 Model.Adam7 Proofs.Adam7Proofs.
From Coq Require Import ZifyBool.

Definition img_bytes (m : img) : Prop := forall k, 0 <= m k < 256.

Definition sub_bits (bits : Z) : Prop := bits = 1 \/ bits = 2 \/ bits = 4.
Definition byte_bits (bits : Z) : Prop :=
  bits = 8 \/ bits = 16 \/ bits = 24 \/ bits = 32 \/ bits = 48 \/ bits = 64.
Definition legal_bits (bits : Z) : Prop := sub_bits bits \/ byte_bits bits.

Lemma sub_bits_pos bits : sub_bits bits -> 0 < bits < 8.
Proof. unfold sub_bits. lia. Qed.

Lemma byte_bits_mul8 bits : byte_bits bits -> 8 <= bits /\ bits mod 8 = 0.
Proof. unfold byte_bits. intros H. repeat (destruct H as [H | H]; [subst; split; [lia | reflexivity] |]). subst. split; [lia | reflexivity]. Qed.

Lemma legal_bits_pos bits : legal_bits bits -> 0 < bits.
Proof. intros [H | H]; [apply sub_bits_pos in H | apply byte_bits_mul8 in H]; lia. Qed.

(* ------------------------------------------------------------------------------------------------ *)
(* (1) the sub-byte store, by a finite sweep over the byte-level expression                          *)

Definition zrange (n : nat) : list Z := map Z.of_nat (seq 0 n).

Lemma zrange_in n x : 0 <= x < Z.of_nat n -> In x (zrange n).
Proof.
  intros H. unfold zrange. apply in_map_iff. exists (Z.to_nat x). split; [lia|].
  apply in_seq. lia.
Qed.

(* [pm] = pos mod 8 (bit offset of the field from the left of the byte), [qm] = q mod 8.
   The sweep is stated in unfolded form: the kernel evaluates a constant lazily when it has to convert it
   against its own unfolding, which is much slower than vm_compute. *)
Lemma forallb_zrange f n : forallb f (zrange n) = true -> forall x, 0 <= x < Z.of_nat n -> f x = true.
Proof. intros H x Hx. rewrite forallb_forall in H. apply H. apply zrange_in. exact Hx. Qed.

Definition sub_check_one (old bits pm px qm : Z) : bool :=
  let nb := subbyte_store old px bits (8 - pm - bits) in
  Bool.eqb (Z.testbit nb (7 - qm))
           (if (pm <=? qm) && (qm <? pm + bits) then Z.testbit px (bits - 1 - (qm - pm))
            else Z.testbit old (7 - qm))
  && (0 <=? nb) && (nb <? 256).

Lemma sub_check_true :
  forallb (fun old =>
    forallb (fun bits =>
      forallb (fun pm =>
        negb (pm mod bits =? 0) ||
        forallb (fun px =>
          negb (px <? 2 ^ bits) ||
          forallb (fun qm => sub_check_one old bits pm px qm) (zrange 8)) (zrange 16)) (zrange 8))
      [1; 2; 4]) (zrange 256) = true.
Proof. vm_compute. reflexivity. Qed.

Lemma subbyte_store_byte old bits pm px qm :
  0 <= old < 256 -> sub_bits bits -> 0 <= pm < 8 -> pm mod bits = 0 -> 0 <= px < 2 ^ bits -> 0 <= qm < 8 ->
  let nb := subbyte_store old px bits (8 - pm - bits) in
  Z.testbit nb (7 - qm) =
    (if (pm <=? qm) && (qm <? pm + bits) then Z.testbit px (bits - 1 - (qm - pm)) else Z.testbit old (7 - qm)) /\
  0 <= nb < 256.
Proof.
  intros Hold Hb Hpm Hal Hpx Hqm nb.
  pose proof (forallb_zrange _ _ sub_check_true old Hold) as H. cbv beta in H.
  rewrite forallb_forall in H. specialize (H bits).
  assert (Hin : In bits [1; 2; 4]) by (unfold sub_bits in Hb; cbn [In]; lia).
  specialize (H Hin).
  pose proof (forallb_zrange _ _ H pm Hpm) as H'. cbv beta in H'. clear H.
  apply orb_true_iff in H' as [H | H].
  { apply negb_true_iff in H. apply Z.eqb_neq in H. contradiction. }
  assert (Hpx16 : 0 <= px < Z.of_nat 16).
  { unfold sub_bits in Hb. destruct Hb as [-> | [-> | ->]]; cbn in Hpx; lia. }
  pose proof (forallb_zrange _ _ H px Hpx16) as H'. cbv beta in H'. clear H.
  apply orb_true_iff in H' as [H | H].
  { apply negb_true_iff in H. apply Z.ltb_ge in H. lia. }
  pose proof (forallb_zrange _ _ H qm Hqm) as H'. cbv beta in H'. clear H.
  unfold sub_check_one in H'. fold nb in H'.
  apply andb_true_iff in H' as [H H3]. apply andb_true_iff in H as [H1 H2].
  apply eqb_prop in H1. apply Z.leb_le in H2. apply Z.ltb_lt in H3.
  split; [exact H1 | lia].
Qed.

(* an aligned field does not straddle a byte *)
Lemma align_mod8 pos bits :
  sub_bits bits -> pos mod bits = 0 -> (pos mod 8) mod bits = 0 /\ pos mod 8 + bits <= 8.
Proof.
  unfold sub_bits. intros Hb Hal. destruct Hb as [-> | [-> | ->]]; dlia.
Qed.

Lemma store_sub_bits m pos px bits q :
  img_bytes m -> (bits = 1 \/ bits = 2 \/ bits = 4) -> 0 <= pos -> pos mod bits = 0 -> 0 <= px < 2 ^ bits -> 0 <= q ->
  get_bit (store_sub m pos px bits) q =
  if (pos <=? q) && (q <? pos + bits) then Z.testbit px (bits - 1 - (q - pos)) else get_bit m q.
Proof.
  intros Hm Hb Hpos Hal Hpx Hq.
  destruct (align_mod8 pos bits Hb Hal) as [Hal8 Hfit].
  assert (Hbp : 0 < bits) by (apply sub_bits_pos in Hb; lia).
  pose proof (Z.div_mod pos 8 ltac:(lia)) as Dp.
  pose proof (Z.div_mod q 8 ltac:(lia)) as Dq.
  pose proof (Z.mod_pos_bound pos 8 ltac:(lia)) as Bp.
  pose proof (Z.mod_pos_bound q 8 ltac:(lia)) as Bq.
  unfold get_bit, store_sub, upd.
  destruct (q / 8 =? pos / 8) eqn:E.
  - apply Z.eqb_eq in E.
    destruct (subbyte_store_byte (m (pos / 8)) bits (pos mod 8) px (q mod 8) (Hm _) Hb Bp Hal8 Hpx Bq) as [Hbit _].
    rewrite Hbit. rewrite E.
    assert (Ec : (pos mod 8 <=? q mod 8) && (q mod 8 <? pos mod 8 + bits) = (pos <=? q) && (q <? pos + bits)) by lia.
    rewrite Ec.
    replace (q mod 8 - pos mod 8) with (q - pos) by lia.
    reflexivity.
  - apply Z.eqb_neq in E.
    assert (Ec : (pos <=? q) && (q <? pos + bits) = false) by lia.
    rewrite Ec. reflexivity.
Qed.

Lemma store_sub_img_bytes m pos px bits :
  img_bytes m -> (bits = 1 \/ bits = 2 \/ bits = 4) -> 0 <= pos -> pos mod bits = 0 -> 0 <= px < 2 ^ bits ->
  img_bytes (store_sub m pos px bits).
Proof.
  intros Hm Hb Hpos Hal Hpx k.
  destruct (align_mod8 pos bits Hb Hal) as [Hal8 Hfit].
  pose proof (Z.mod_pos_bound pos 8 ltac:(lia)) as Bp.
  unfold store_sub, upd.
  destruct (k =? pos / 8).
  - assert (B0 : 0 <= 0 < 8) by lia.
    destruct (subbyte_store_byte (m (pos / 8)) bits (pos mod 8) px 0 (Hm _) Hb Bp Hal8 Hpx B0) as [_ Hr].
    exact Hr.
  - apply Hm.
Qed.

(* ------------------------------------------------------------------------------------------------ *)
(* (2) the byte store                                                                                *)

Lemma zlen_cons {A} (v : A) l : zlen (v :: l) = 1 + zlen l.
Proof. unfold zlen. cbn [length]. lia. Qed.

Lemma zlen_nonneg {A} (l : list A) : 0 <= zlen l.
Proof. unfold zlen. lia. Qed.

Lemma store_bytes_get : forall px m base k,
  store_bytes m base px k =
  if (base <=? k) && (k <? base + zlen px) then nth (Z.to_nat (k - base)) px 0 else m k.
Proof.
  induction px as [|v px IH]; intros m base k; cbn [store_bytes].
  - assert (Ec : (base <=? k) && (k <? base + zlen (@nil Z)) = false) by (unfold zlen; cbn [length]; lia).
    rewrite Ec. reflexivity.
  - rewrite IH. rewrite zlen_cons. pose proof (zlen_nonneg px) as Hl.
    unfold upd.
    destruct (Z.eq_dec k base) as [-> | Hne].
    + assert (Ec1 : (base + 1 <=? base) && (base <? base + 1 + zlen px) = false) by lia.
      assert (Ec2 : (base <=? base) && (base <? base + (1 + zlen px)) = true) by lia.
      rewrite Ec1, Ec2, Z.eqb_refl. replace (base - base) with 0 by lia. reflexivity.
    + assert (Ec : (base + 1 <=? k) && (k <? base + 1 + zlen px) = (base <=? k) && (k <? base + (1 + zlen px))) by lia.
      rewrite Ec.
      destruct ((base <=? k) && (k <? base + (1 + zlen px))) eqn:E.
      * replace (Z.to_nat (k - base)) with (S (Z.to_nat (k - (base + 1)))) by lia. reflexivity.
      * assert (En : (k =? base) = false) by lia. rewrite En. reflexivity.
Qed.

Lemma store_bytes_bits m pos px q :
  0 <= pos -> pos mod 8 = 0 -> 0 <= q ->
  get_bit (store_bytes m (pos / 8) px) q =
  if (pos <=? q) && (q <? pos + 8 * zlen px)
  then Z.testbit (nth (Z.to_nat ((q - pos) / 8)) px 0) (7 - (q - pos) mod 8)
  else get_bit m q.
Proof.
  intros Hpos Hal Hq. unfold get_bit. rewrite store_bytes_get.
  pose proof (zlen_nonneg px) as Hl.
  assert (Ec : (pos / 8 <=? q / 8) && (q / 8 <? pos / 8 + zlen px) = (pos <=? q) && (q <? pos + 8 * zlen px)).
  { generalize dependent (zlen px). intros n Hn. dlia. }
  rewrite Ec.
  destruct ((pos <=? q) && (q <? pos + 8 * zlen px)) eqn:E; [|reflexivity].
  assert (E1 : q / 8 - pos / 8 = (q - pos) / 8) by dlia.
  assert (E2 : q mod 8 = (q - pos) mod 8) by dlia.
  rewrite E1, E2. reflexivity.
Qed.

Lemma store_bytes_img_bytes : forall px m base,
  img_bytes m -> Forall byte_ok px -> img_bytes (store_bytes m base px).
Proof.
  induction px as [|v px IH]; intros m base Hm Hpx; cbn [store_bytes].
  - exact Hm.
  - inversion Hpx as [|? ? Hv Hpx']; subst. apply IH; [|exact Hpx'].
    intros k. unfold upd. destruct (k =? base); [exact Hv | apply Hm].
Qed.
