(* Adam7 expansion: the stores of expand_pass write exactly the bit field of each pixel; one interlaced row
   writes exactly the fields of its pixels; all rows of an image, in any order, write every pixel of the image at
   its position and nothing else. *)
From PngV Require Import Base.Bytes Spec.Adam7Spec Gen.GenAdam7 Model.Adam7 Proofs.Adam7Proofs.
From Coq Require Import ZifyBool.

Definition img_bytes (m : img) : Prop := forall k, 0 <= m k < 256.

Definition sub_bits (bits : Z) : Prop := bits = 1 \/ bits = 2 \/ bits = 4.
Definition byte_bits (bits : Z) : Prop :=
  bits = 8 \/ bits = 16 \/ bits = 24 \/ bits = 32 \/ bits = 48 \/ bits = 64.
Definition legal_bits (bits : Z) : Prop := sub_bits bits \/ byte_bits bits.

Lemma sub_bits_pos bits : sub_bits bits -> 0 < bits < 8.
Proof. unfold sub_bits. lia. Qed.

Lemma byte_bits_mul8 bits : byte_bits bits -> 8 <= bits /\ bits mod 8 = 0.
Proof. unfold byte_bits. intros H. repeat (destruct H as [H | H]; [subst; split; [lia | reflexivity] |]). subst. split; [lia | reflexivity]. Qed.

Lemma legal_bits_pos bits : legal_bits bits -> 0 < bits.
Proof. intros [H | H]; [apply sub_bits_pos in H | apply byte_bits_mul8 in H]; lia. Qed.

(* ------------------------------------------------------------------------------------------------ *)
(* (1) the sub-byte store, by a finite sweep over the byte-level expression                          *)

Definition zrange (n : nat) : list Z := map Z.of_nat (seq 0 n).

Lemma zrange_in n x : 0 <= x < Z.of_nat n -> In x (zrange n).
Proof.
  intros H. unfold zrange. apply in_map_iff. exists (Z.to_nat x). split; [lia|].
  apply in_seq. lia.
Qed.

(* [pm] = pos mod 8 (bit offset of the field from the left of the byte), [qm] = q mod 8.
   The sweep is stated in unfolded form: the kernel evaluates a constant lazily when it has to convert it
   against its own unfolding, which is much slower than vm_compute. *)
Lemma forallb_zrange f n : forallb f (zrange n) = true -> forall x, 0 <= x < Z.of_nat n -> f x = true.
Proof. intros H x Hx. rewrite forallb_forall in H. apply H. apply zrange_in. exact Hx. Qed.

Definition sub_check_one (old bits pm px qm : Z) : bool :=
  let nb := subbyte_store old px bits (8 - pm - bits) in
  Bool.eqb (Z.testbit nb (7 - qm))
           (if (pm <=? qm) && (qm <? pm + bits) then Z.testbit px (bits - 1 - (qm - pm))
            else Z.testbit old (7 - qm))
  && (0 <=? nb) && (nb <? 256).

Lemma sub_check_true :
  forallb (fun old =>
    forallb (fun bits =>
      forallb (fun pm =>
        negb (pm mod bits =? 0) ||
        forallb (fun px =>
          negb (px <? 2 ^ bits) ||
          forallb (fun qm => sub_check_one old bits pm px qm) (zrange 8)) (zrange 16)) (zrange 8))
      [1; 2; 4]) (zrange 256) = true.
Proof. vm_compute. reflexivity. Qed.

Lemma subbyte_store_byte old bits pm px qm :
  0 <= old < 256 -> sub_bits bits -> 0 <= pm < 8 -> pm mod bits = 0 -> 0 <= px < 2 ^ bits -> 0 <= qm < 8 ->
  let nb := subbyte_store old px bits (8 - pm - bits) in
  Z.testbit nb (7 - qm) =
    (if (pm <=? qm) && (qm <? pm + bits) then Z.testbit px (bits - 1 - (qm - pm)) else Z.testbit old (7 - qm)) /\
  0 <= nb < 256.
Proof.
  intros Hold Hb Hpm Hal Hpx Hqm nb.
  pose proof (forallb_zrange _ _ sub_check_true old Hold) as H. cbv beta in H.
  rewrite forallb_forall in H. specialize (H bits).
  assert (Hin : In bits [1; 2; 4]) by (unfold sub_bits in Hb; cbn [In]; lia).
  specialize (H Hin).
  pose proof (forallb_zrange _ _ H pm Hpm) as H'. cbv beta in H'. clear H.
  apply orb_true_iff in H' as [H | H].
  { apply negb_true_iff in H. apply Z.eqb_neq in H. contradiction. }
  assert (Hpx16 : 0 <= px < Z.of_nat 16).
  { unfold sub_bits in Hb. destruct Hb as [-> | [-> | ->]]; cbn in Hpx; lia. }
  pose proof (forallb_zrange _ _ H px Hpx16) as H'. cbv beta in H'. clear H.
  apply orb_true_iff in H' as [H | H].
  { apply negb_true_iff in H. apply Z.ltb_ge in H. lia. }
  pose proof (forallb_zrange _ _ H qm Hqm) as H'. cbv beta in H'. clear H.
  unfold sub_check_one in H'. fold nb in H'.
  apply andb_true_iff in H' as [H H3]. apply andb_true_iff in H as [H1 H2].
  apply eqb_prop in H1. apply Z.leb_le in H2. apply Z.ltb_lt in H3.
  split; [exact H1 | lia].
Qed.

(* an aligned field does not straddle a byte *)
Lemma align_mod8 pos bits :
  sub_bits bits -> pos mod bits = 0 -> (pos mod 8) mod bits = 0 /\ pos mod 8 + bits <= 8.
Proof.
  unfold sub_bits. intros Hb Hal. destruct Hb as [-> | [-> | ->]]; dlia.
Qed.

Lemma store_sub_bits m pos px bits q :
  img_bytes m -> (bits = 1 \/ bits = 2 \/ bits = 4) -> 0 <= pos -> pos mod bits = 0 -> 0 <= px < 2 ^ bits -> 0 <= q ->
  get_bit (store_sub m pos px bits) q =
  if (pos <=? q) && (q <? pos + bits) then Z.testbit px (bits - 1 - (q - pos)) else get_bit m q.
Proof.
  intros Hm Hb Hpos Hal Hpx Hq.
  destruct (align_mod8 pos bits Hb Hal) as [Hal8 Hfit].
  assert (Hbp : 0 < bits) by (apply sub_bits_pos in Hb; lia).
  pose proof (Z.div_mod pos 8 ltac:(lia)) as Dp.
  pose proof (Z.div_mod q 8 ltac:(lia)) as Dq.
  pose proof (Z.mod_pos_bound pos 8 ltac:(lia)) as Bp.
  pose proof (Z.mod_pos_bound q 8 ltac:(lia)) as Bq.
  unfold get_bit, store_sub, upd.
  destruct (q / 8 =? pos / 8) eqn:E.
  - apply Z.eqb_eq in E.
    destruct (subbyte_store_byte (m (pos / 8)) bits (pos mod 8) px (q mod 8) (Hm _) Hb Bp Hal8 Hpx Bq) as [Hbit _].
    rewrite Hbit. rewrite E.
    assert (Ec : (pos mod 8 <=? q mod 8) && (q mod 8 <? pos mod 8 + bits) = (pos <=? q) && (q <? pos + bits)) by lia.
    rewrite Ec.
    replace (q mod 8 - pos mod 8) with (q - pos) by lia.
    reflexivity.
  - apply Z.eqb_neq in E.
    assert (Ec : (pos <=? q) && (q <? pos + bits) = false) by lia.
    rewrite Ec. reflexivity.
Qed.

Lemma store_sub_img_bytes m pos px bits :
  img_bytes m -> (bits = 1 \/ bits = 2 \/ bits = 4) -> 0 <= pos -> pos mod bits = 0 -> 0 <= px < 2 ^ bits ->
  img_bytes (store_sub m pos px bits).
Proof.
  intros Hm Hb Hpos Hal Hpx k.
  destruct (align_mod8 pos bits Hb Hal) as [Hal8 Hfit].
  pose proof (Z.mod_pos_bound pos 8 ltac:(lia)) as Bp.
  unfold store_sub, upd.
  destruct (k =? pos / 8).
  - assert (B0 : 0 <= 0 < 8) by lia.
    destruct (subbyte_store_byte (m (pos / 8)) bits (pos mod 8) px 0 (Hm _) Hb Bp Hal8 Hpx B0) as [_ Hr].
    exact Hr.
  - apply Hm.
Qed.

(* ------------------------------------------------------------------------------------------------ *)
(* (2) the byte store                                                                                *)

Lemma zlen_cons {A} (v : A) l : zlen (v :: l) = 1 + zlen l.
Proof. unfold zlen. cbn [length]. lia. Qed.

Lemma zlen_nonneg {A} (l : list A) : 0 <= zlen l.
Proof. unfold zlen. lia. Qed.

Lemma store_bytes_get : forall px m base k,
  store_bytes m base px k =
  if (base <=? k) && (k <? base + zlen px) then nth (Z.to_nat (k - base)) px 0 else m k.
Proof.
  induction px as [|v px IH]; intros m base k; cbn [store_bytes].
  - assert (Ec : (base <=? k) && (k <? base + zlen (@nil Z)) = false) by (unfold zlen; cbn [length]; lia).
    rewrite Ec. reflexivity.
  - rewrite IH. rewrite zlen_cons. pose proof (zlen_nonneg px) as Hl.
    unfold upd.
    destruct (Z.eq_dec k base) as [-> | Hne].
    + assert (Ec1 : (base + 1 <=? base) && (base <? base + 1 + zlen px) = false) by lia.
      assert (Ec2 : (base <=? base) && (base <? base + (1 + zlen px)) = true) by lia.
      rewrite Ec1, Ec2, Z.eqb_refl. replace (base - base) with 0 by lia. reflexivity.
    + assert (Ec : (base + 1 <=? k) && (k <? base + 1 + zlen px) = (base <=? k) && (k <? base + (1 + zlen px))) by lia.
      rewrite Ec.
      destruct ((base <=? k) && (k <? base + (1 + zlen px))) eqn:E.
      * replace (Z.to_nat (k - base)) with (S (Z.to_nat (k - (base + 1)))) by lia. reflexivity.
      * assert (En : (k =? base) = false) by lia. rewrite En. reflexivity.
Qed.

Lemma store_bytes_bits m pos px q :
  0 <= pos -> pos mod 8 = 0 -> 0 <= q ->
  get_bit (store_bytes m (pos / 8) px) q =
  if (pos <=? q) && (q <? pos + 8 * zlen px)
  then Z.testbit (nth (Z.to_nat ((q - pos) / 8)) px 0) (7 - (q - pos) mod 8)
  else get_bit m q.
Proof.
  intros Hpos Hal Hq. unfold get_bit. rewrite store_bytes_get.
  pose proof (zlen_nonneg px) as Hl.
  assert (Ec : (pos / 8 <=? q / 8) && (q / 8 <? pos / 8 + zlen px) = (pos <=? q) && (q <? pos + 8 * zlen px)).
  { generalize dependent (zlen px). intros n Hn. dlia. }
  rewrite Ec.
  destruct ((pos <=? q) && (q <? pos + 8 * zlen px)) eqn:E; [|reflexivity].
  assert (E1 : q / 8 - pos / 8 = (q - pos) / 8) by dlia.
  assert (E2 : q mod 8 = (q - pos) mod 8) by dlia.
  rewrite E1, E2. reflexivity.
Qed.

Lemma store_bytes_img_bytes : forall px m base,
  img_bytes m -> Forall byte_ok px -> img_bytes (store_bytes m base px).
Proof.
  induction px as [|v px IH]; intros m base Hm Hpx; cbn [store_bytes].
  - exact Hm.
  - inversion Hpx as [|? ? Hv Hpx']; subst. apply IH; [|exact Hpx'].
    intros k. unfold upd. destruct (k =? base); [exact Hv | apply Hm].
Qed.

(* ------------------------------------------------------------------------------------------------ *)
(* (3) one interlaced row                                                                            *)

Lemma mask_assoc bits : sub_bits bits -> assocz bits subbyte_mask_table = Some (Z.ones bits).
Proof. intros [-> | [-> | ->]]; reflexivity. Qed.

Lemma subbyte_pixel_range row bits i : sub_bits bits -> 0 <= subbyte_pixel row bits i < 2 ^ bits.
Proof.
  intros Hb. pose proof (sub_bits_pos bits Hb) as Hp.
  unfold subbyte_pixel. rewrite (mask_assoc bits Hb). rewrite Z.land_ones by lia.
  apply Z.mod_pos_bound. apply Z.pow_pos_nonneg; lia.
Qed.

(* bit j (from the left) of sub-byte pixel i is bit i*bits+j of the row *)
Lemma subbyte_pixel_bit row bits i j :
  sub_bits bits -> 0 <= j < bits ->
  Z.testbit (subbyte_pixel row bits i) (bits - 1 - j) = get_bit row (i * bits + j).
Proof.
  intros Hb Hj. unfold subbyte_pixel, get_bit. rewrite (mask_assoc bits Hb).
  rewrite Z.land_ones by lia. rewrite Z.mod_pow2_bits_low by lia. rewrite Z.shiftr_spec by lia.
  assert (E1 : (i * bits + j) / 8 = i * bits / 8) by (destruct Hb as [-> | [-> | ->]]; dlia).
  assert (E2 : bits - 1 - j + (8 - (i * bits) mod 8 - bits) = 7 - (i * bits + j) mod 8)
    by (destruct Hb as [-> | [-> | ->]]; dlia).
  rewrite E1, E2. reflexivity.
Qed.

Lemma zseq_from_length : forall n s, length (zseq_from s n) = n.
Proof. induction n as [|n IH]; intros s; cbn [zseq_from length]; [reflexivity | rewrite IH; reflexivity]. Qed.

Lemma nth_map_zseq_from (f : Z -> Z) : forall n s t,
  (t < n)%nat -> nth t (map f (zseq_from s n)) 0 = f (s + Z.of_nat t).
Proof.
  induction n as [|n IH]; intros s t Ht; [lia|].
  cbn [zseq_from map]. destruct t as [|t]; cbn [nth].
  - f_equal. lia.
  - rewrite IH by lia. f_equal. lia.
Qed.

Lemma row_pixel_bytes_zlen row b i : 0 <= b -> zlen (row_pixel_bytes row b i) = b.
Proof.
  intros Hb. unfold zlen, row_pixel_bytes, zseq. rewrite map_length, zseq_from_length. lia.
Qed.

Lemma row_pixel_bytes_nth row b i t :
  0 <= t < b -> nth (Z.to_nat t) (row_pixel_bytes row b i) 0 = row (i * b + t).
Proof.
  intros Ht. unfold row_pixel_bytes, zseq. rewrite nth_map_zseq_from by lia. f_equal. lia.
Qed.

Lemma row_pixel_bytes_ok row b i : img_bytes row -> Forall byte_ok (row_pixel_bytes row b i).
Proof.
  intros Hr. apply Forall_forall. intros v Hv. unfold row_pixel_bytes in Hv.
  apply in_map_iff in Hv as (k & <- & _). apply Hr.
Qed.

Lemma bit_pos_eq stride p line i bits lm lo sm so :
  assocz p expand_table = Some (lm, lo, sm, so) ->
  bit_pos stride p line i bits = Some ((i * sm + so) * bits + (lm * line + lo) * stride * 8).
Proof. intros H. unfold bit_pos, pos_xy. rewrite H. reflexivity. Qed.

(* both loops of expand_pass are instances of one iteration scheme *)
Fixpoint row_gen (step : img -> Z -> img) (m : img) (i : Z) (n : nat) : img :=
  match n with
  | O => m
  | S n' => row_gen step (step m i) (i + 1) n'
  end.

Lemma expand_row_sub_gen stride p line bits row lm lo sm so :
  assocz p expand_table = Some (lm, lo, sm, so) ->
  forall n m i, expand_row_sub m stride p line bits row i n =
    Some (row_gen (fun m i => store_sub m ((i * sm + so) * bits + (lm * line + lo) * stride * 8)
                                        (subbyte_pixel row bits i) bits) m i n).
Proof.
  intros He. induction n as [|n IH]; intros m i; cbn [expand_row_sub row_gen]; [reflexivity|].
  rewrite (bit_pos_eq stride p line i bits lm lo sm so He). apply IH.
Qed.

Lemma expand_row_bytes_gen stride p line bits row lm lo sm so :
  assocz p expand_table = Some (lm, lo, sm, so) ->
  forall n m i, expand_row_bytes m stride p line bits row i n =
    Some (row_gen (fun m i => store_bytes m (((i * sm + so) * bits + (lm * line + lo) * stride * 8) / 8)
                                          (row_pixel_bytes row (bits / 8) i)) m i n).
Proof.
  intros He. induction n as [|n IH]; intros m i; cbn [expand_row_bytes row_gen]; [reflexivity|].
  rewrite (bit_pos_eq stride p line i bits lm lo sm so He). apply IH.
Qed.

(* [step m i] overwrites exactly the field [P i, P i + bits) with bits [i*bits, i*bits+bits) of the row *)
Definition writes_field (P : Z -> Z) (bits : Z) (row : img) (step : img -> Z -> img) : Prop :=
  forall m i, 0 <= i -> img_bytes m ->
    img_bytes (step m i) /\
    forall q, 0 <= q ->
      get_bit (step m i) q =
      if (P i <=? q) && (q <? P i + bits) then get_bit row (i * bits + (q - P i)) else get_bit m q.

Lemma row_gen_spec P bits row step :
  0 < bits -> (forall k, 0 <= k -> 0 <= P k) -> (forall k k', 0 <= k < k' -> P k + bits <= P k') ->
  writes_field P bits row step ->
  forall n m i, 0 <= i -> img_bytes m ->
    img_bytes (row_gen step m i n) /\
    (forall k, i <= k < i + Z.of_nat n -> forall j, 0 <= j < bits ->
       get_bit (row_gen step m i n) (P k + j) = get_bit row (k * bits + j)) /\
    (forall q, 0 <= q -> (forall k, i <= k < i + Z.of_nat n -> ~ (P k <= q < P k + bits)) ->
       get_bit (row_gen step m i n) q = get_bit m q).
Proof.
  intros Hbits HP0 Hmono Hstep. induction n as [|n IH]; intros m i Hi Hm; cbn [row_gen].
  - split; [exact Hm|]. split; [intros; lia | reflexivity].
  - destruct (Hstep m i Hi Hm) as [Hm1 Hg].
    assert (Hi1 : 0 <= i + 1) by lia.
    destruct (IH (step m i) (i + 1) Hi1 Hm1) as (Hm' & Ha & Hb).
    split; [exact Hm'|]. split.
    + intros k Hk j Hj. destruct (Z.eq_dec k i) as [-> | Hne].
      * pose proof (HP0 i Hi) as HPi.
        rewrite Hb.
        -- rewrite Hg by lia.
           assert (Ec : (P i <=? P i + j) && (P i + j <? P i + bits) = true) by lia.
           rewrite Ec. f_equal. lia.
        -- lia.
        -- intros k Hk'. assert (Hik : 0 <= i < k) by lia. specialize (Hmono i k Hik). lia.
      * apply Ha; lia.
    + intros q Hq Hout. rewrite Hb; [| exact Hq | intros k Hk; apply Hout; lia].
      rewrite Hg by exact Hq.
      assert (Hii : i <= i < i + Z.of_nat (S n)) by lia. specialize (Hout i Hii).
      assert (Ec : (P i <=? q) && (q <? P i + bits) = false) by lia.
      rewrite Ec. reflexivity.
Qed.

Lemma mul_step x x' b : 0 <= b -> x + 1 <= x' -> x * b + b <= x' * b.
Proof. intros Hb Hx. nia. Qed.

Lemma sub_step_writes stride bits row sm so Y :
  sub_bits bits -> 0 <= sm -> 0 <= so -> 0 <= Y -> 0 <= stride ->
  writes_field (fun i => (i * sm + so) * bits + Y * stride * 8) bits row
    (fun m i => store_sub m ((i * sm + so) * bits + Y * stride * 8) (subbyte_pixel row bits i) bits).
Proof.
  intros Hb Hsm Hso HY Hst m i Hi Hm. cbv beta.
  pose proof (sub_bits_pos bits Hb) as Hbp.
  set (pos := (i * sm + so) * bits + Y * stride * 8).
  assert (Hpos : 0 <= pos) by (subst pos; nia).
  assert (Hal : pos mod bits = 0).
  { subst pos. destruct Hb as [-> | [-> | ->]]; dlia. }
  pose proof (subbyte_pixel_range row bits i Hb) as Hpx.
  split.
  - apply store_sub_img_bytes; assumption.
  - intros q Hq. rewrite store_sub_bits by assumption.
    destruct ((pos <=? q) && (q <? pos + bits)) eqn:E; [|reflexivity].
    apply subbyte_pixel_bit; [exact Hb | lia].
Qed.

Lemma byte_step_writes stride bits row sm so Y :
  byte_bits bits -> img_bytes row -> 0 <= sm -> 0 <= so -> 0 <= Y -> 0 <= stride ->
  writes_field (fun i => (i * sm + so) * bits + Y * stride * 8) bits row
    (fun m i => store_bytes m (((i * sm + so) * bits + Y * stride * 8) / 8) (row_pixel_bytes row (bits / 8) i)).
Proof.
  intros Hb Hrow Hsm Hso HY Hst m i Hi Hm. cbv beta.
  apply byte_bits_mul8 in Hb as [Hb8 Hbm].
  set (b := bits / 8).
  assert (Eb : bits = 8 * b) by (subst b; dlia).
  assert (Hbpos : 1 <= b) by lia.
  clearbody b.
  set (pos := (i * sm + so) * bits + Y * stride * 8).
  assert (Hpos : 0 <= pos) by (subst pos; nia).
  assert (Hal : pos mod 8 = 0).
  { subst pos. rewrite Eb. replace ((i * sm + so) * (8 * b) + Y * stride * 8) with (((i * sm + so) * b + Y * stride) * 8) by ring.
    apply Z.mod_mul. lia. }
  split.
  - apply store_bytes_img_bytes; [exact Hm | apply row_pixel_bytes_ok; exact Hrow].
  - intros q Hq. rewrite store_bytes_bits by assumption.
    rewrite row_pixel_bytes_zlen by lia. rewrite <- Eb.
    destruct ((pos <=? q) && (q <? pos + bits)) eqn:E; [|reflexivity].
    assert (Hd : 0 <= q - pos < 8 * b) by lia.
    generalize dependent (q - pos). intros d Hd.
    rewrite row_pixel_bytes_nth by dlia.
    unfold get_bit. rewrite Eb.
    assert (E1 : (i * (8 * b) + d) / 8 = i * b + d / 8) by dlia.
    assert (E2 : (i * (8 * b) + d) mod 8 = d mod 8) by dlia.
    rewrite E1, E2. reflexivity.
Qed.

Theorem expand_row_correct m stride p line width bits row lm lo sm so :
  In p passes -> 0 <= line -> 0 <= width -> 0 <= stride -> img_bytes m -> img_bytes row -> legal_bits bits ->
  assocz p expand_table = Some (lm, lo, sm, so) ->
  let pos := fun i => (i * sm + so) * bits + (lm * line + lo) * stride * 8 in
  exists m', expand_pass_model m stride p line width bits row = Some m' /\
    (forall i, 0 <= i < width -> forall j, 0 <= j < bits ->
       get_bit m' (pos i + j) = get_bit row (i * bits + j)) /\
    (forall q, 0 <= q -> (forall i, 0 <= i < width -> ~ (pos i <= q < pos i + bits)) ->
       get_bit m' q = get_bit m q) /\
    img_bytes m'.
Proof.
  intros Hp Hline Hwidth Hstride Hm Hrow Hbits He pos.
  destruct (expand_total p Hp) as (lm' & lo' & sm' & so' & He' & Hsm & Hlm & Hso & Hlo).
  rewrite He in He'. inversion He'; subst lm' lo' sm' so'. clear He'.
  pose proof (legal_bits_pos bits Hbits) as Hbp.
  assert (HY : 0 <= lm * line + lo) by nia.
  assert (HP0 : forall k, 0 <= k -> 0 <= pos k) by (intros k Hk; subst pos; cbv beta; nia).
  assert (Hmono : forall k k', 0 <= k < k' -> pos k + bits <= pos k').
  { intros k k' Hk. subst pos. cbv beta.
    assert (Hx : (k * sm + so) + 1 <= k' * sm + so) by nia.
    pose proof (mul_step (k * sm + so) (k' * sm + so) bits ltac:(lia) Hx). lia. }
  assert (Hn : Z.of_nat (Z.to_nat width) = width) by lia.
  assert (H00 : 0 <= 0) by lia.
  unfold expand_pass_model.
  destruct Hbits as [Hb | Hb].
  - assert (Elt : (bits <? 8) = true) by (apply sub_bits_pos in Hb; lia). rewrite Elt.
    rewrite (expand_row_sub_gen stride p line bits row lm lo sm so He).
    eexists. split; [reflexivity|].
    pose proof (sub_step_writes stride bits row sm so (lm * line + lo) Hb ltac:(lia) ltac:(lia) HY Hstride) as Hw.
    destruct (row_gen_spec pos bits row _ Hbp HP0 Hmono Hw (Z.to_nat width) m 0 H00 Hm) as (Hm' & Ha & Hbb).
    rewrite Hn in Ha, Hbb.
    split; [|split]; [ intros i Hi j Hj; apply Ha; lia | intros q Hq Hout; apply Hbb; [exact Hq | intros k Hk; apply Hout; lia] | exact Hm' ].
  - assert (Elt : (bits <? 8) = false) by (apply byte_bits_mul8 in Hb; lia). rewrite Elt.
    rewrite (expand_row_bytes_gen stride p line bits row lm lo sm so He).
    eexists. split; [reflexivity|].
    pose proof (byte_step_writes stride bits row sm so (lm * line + lo) Hb Hrow ltac:(lia) ltac:(lia) HY Hstride) as Hw.
    destruct (row_gen_spec pos bits row _ Hbp HP0 Hmono Hw (Z.to_nat width) m 0 H00 Hm) as (Hm' & Ha & Hbb).
    rewrite Hn in Ha, Hbb.
    split; [|split]; [ intros i Hi j Hj; apply Ha; lia | intros q Hq Hout; apply Hbb; [exact Hq | intros k Hk; apply Hout; lia] | exact Hm' ].
Qed.

(* the form asked for: whenever the model returns an image, it is the right one (and it always does) *)
Corollary expand_row_correct_some m stride p line width bits row lm lo sm so m' :
  In p passes -> 0 <= line -> 0 <= width -> 0 <= stride -> img_bytes m -> img_bytes row -> legal_bits bits ->
  assocz p expand_table = Some (lm, lo, sm, so) ->
  expand_pass_model m stride p line width bits row = Some m' ->
  let pos := fun i => (i * sm + so) * bits + (lm * line + lo) * stride * 8 in
  (forall i, 0 <= i < width -> forall j, 0 <= j < bits ->
     get_bit m' (pos i + j) = get_bit row (i * bits + j)) /\
  (forall q, 0 <= q -> (forall i, 0 <= i < width -> ~ (pos i <= q < pos i + bits)) ->
     get_bit m' q = get_bit m q) /\
  img_bytes m'.
Proof.
  intros Hp Hline Hwidth Hstride Hm Hrow Hbits He Hrun pos.
  destruct (expand_row_correct m stride p line width bits row lm lo sm so Hp Hline Hwidth Hstride Hm Hrow Hbits He)
    as (m'' & Hrun' & H).
  rewrite Hrun in Hrun'. inversion Hrun'; subst m''. exact H.
Qed.

Corollary expand_row_total m stride p line width bits row :
  In p passes -> 0 <= line -> 0 <= width -> 0 <= stride -> img_bytes m -> img_bytes row -> legal_bits bits ->
  expand_pass_model m stride p line width bits row <> None.
Proof.
  intros Hp Hline Hwidth Hstride Hm Hrow Hbits.
  destruct (expand_total p Hp) as (lm & lo & sm & so & He & _).
  destruct (expand_row_correct m stride p line width bits row lm lo sm so Hp Hline Hwidth Hstride Hm Hrow Hbits He)
    as (m' & Hrun & _).
  rewrite Hrun. discriminate.
Qed.

(* ------------------------------------------------------------------------------------------------ *)
(* (4) the whole image, rows in any order                                                            *)

Fixpoint expand_all (m : img) (stride bits : Z) (rowf : Z -> Z -> Z -> Z) (ord : list (Z * Z * Z)) : option img :=
  match ord with
  | [] => Some m
  | (p, l, lw) :: ord' =>
    match expand_pass_model m stride p l lw bits (rowf p l) with
    | Some m1 => expand_all m1 stride bits rowf ord'
    | None => None
    end
  end.

(* the fields of two distinct pixels of an image whose rows fit the stride are disjoint *)
Lemma fields_disjoint w stride bits x y x' y' q :
  0 < bits -> w * bits <= stride * 8 -> 0 <= x < w -> 0 <= x' < w -> 0 <= y -> 0 <= y' ->
  (x = x' -> y = y' -> False) ->
  x * bits + y * stride * 8 <= q < x * bits + y * stride * 8 + bits ->
  x' * bits + y' * stride * 8 <= q < x' * bits + y' * stride * 8 + bits -> False.
Proof.
  intros Hb Hfit Hx Hx' Hy Hy' Hne H1 H2.
  assert (Hbn : 0 <= bits) by lia.
  assert (HS : 0 <= stride * 8) by nia.
  pose proof (mul_step x w bits Hbn ltac:(lia)) as Fx.
  pose proof (mul_step x' w bits Hbn ltac:(lia)) as Fx'.
  assert (X0 : 0 <= x * bits) by nia.
  assert (X0' : 0 <= x' * bits) by nia.
  destruct (Z.lt_trichotomy y y') as [Hlt | [Heq | Hgt]].
  - pose proof (mul_step y y' (stride * 8) HS ltac:(lia)). lia.
  - subst y'. destruct (Z.lt_trichotomy x x') as [Hlt | [Heq | Hgt]].
    + pose proof (mul_step x x' bits Hbn ltac:(lia)). lia.
    + apply Hne; [exact Heq | reflexivity].
    + pose proof (mul_step x' x bits Hbn ltac:(lia)). lia.
  - pose proof (mul_step y' y (stride * 8) HS ltac:(lia)). lia.
Qed.

Section Image.
  Variables (w h stride bits : Z) (src : Z -> Z -> Z -> bool) (rowf : Z -> Z -> Z -> Z).
  Hypothesis Hw : 0 < w < 4294967296.
  Hypothesis Hh : 0 < h < 4294967296.
  Hypothesis Hbits : legal_bits bits.
  Hypothesis Hfit : w * bits <= stride * 8.
  Hypothesis Hrow_bytes : forall p l lw, In (p, l, lw) (rows_model w h) -> img_bytes (rowf p l).
  Hypothesis Hrow_src : forall p l lw lm lo sm so,
    In (p, l, lw) (rows_model w h) -> assocz p expand_table = Some (lm, lo, sm, so) ->
    forall i j, 0 <= i < lw -> 0 <= j < bits ->
      get_bit (rowf p l) (i * bits + j) = src (i * sm + so) (lm * l + lo) j.

  (* q lies in the field of some pixel of some row of [ord] *)
  Definition in_row_field (ord : list (Z * Z * Z)) (q : Z) : Prop :=
    exists p l lw lm lo sm so i,
      In (p, l, lw) ord /\ assocz p expand_table = Some (lm, lo, sm, so) /\ 0 <= i < lw /\
      (i * sm + so) * bits + (lm * l + lo) * stride * 8 <= q < (i * sm + so) * bits + (lm * l + lo) * stride * 8 + bits.

  Lemma stride_nonneg : 0 <= stride.
  Proof. pose proof (legal_bits_pos bits Hbits). nia. Qed.

  Lemma expand_all_inv : forall ord,
    NoDup ord -> (forall r, In r ord -> In r (rows_model w h)) ->
    forall m, img_bytes m ->
    exists m', expand_all m stride bits rowf ord = Some m' /\ img_bytes m' /\
      (forall p l lw lm lo sm so, In (p, l, lw) ord -> assocz p expand_table = Some (lm, lo, sm, so) ->
         forall i j, 0 <= i < lw -> 0 <= j < bits ->
           get_bit m' ((i * sm + so) * bits + (lm * l + lo) * stride * 8 + j) = src (i * sm + so) (lm * l + lo) j) /\
      (forall q, 0 <= q -> ~ in_row_field ord q -> get_bit m' q = get_bit m q).
  Proof.
    pose proof (legal_bits_pos bits Hbits) as Hbp.
    pose proof stride_nonneg as Hst.
    induction ord as [|r ord IH]; intros Hnd Hsub m Hm.
    - exists m. cbn [expand_all]. split; [reflexivity|]. split; [exact Hm|].
      split; [intros p l lw lm lo sm so Hin; destruct Hin | reflexivity].
    - destruct r as [[p l] lw].
      inversion Hnd as [|? ? Hnotin Hnd']; subst.
      assert (Hr : In (p, l, lw) (rows_model w h)) by (apply Hsub; left; reflexivity).
      assert (Hsub' : forall r, In r ord -> In r (rows_model w h)) by (intros r Hr'; apply Hsub; right; exact Hr').
      destruct (rows_sound w h p l lw Hw Hh Hr) as (Hp & Hlw & Hl & lm & lo & sm & so & He & Hyh & Dx & _).
      destruct (expand_row_correct m stride p l lw bits (rowf p l) lm lo sm so Hp Hl ltac:(lia) Hst Hm
                  (Hrow_bytes p l lw Hr) Hbits He) as (m1 & Hrun & Ha & Hb & Hm1).
      cbv beta zeta in Ha, Hb.
      destruct (IH Hnd' Hsub' m1 Hm1) as (m' & Hall & Hm' & Hset & Hkeep).
      exists m'. cbn [expand_all]. rewrite Hrun. split; [exact Hall|]. split; [exact Hm'|].
      destruct (expand_total p Hp) as (lm0 & lo0 & sm0 & so0 & He0 & Hsm & Hlm & Hso & Hlo).
      rewrite He in He0. inversion He0; subst lm0 lo0 sm0 so0. clear He0.
      split.
      + intros p2 l2 lw2 lm2 lo2 sm2 so2 Hin He2 i j Hi Hj.
        destruct Hin as [Heq | Hin]; [| exact (Hset p2 l2 lw2 lm2 lo2 sm2 so2 Hin He2 i j Hi Hj)].
        inversion Heq; subst p2 l2 lw2. rewrite He in He2. inversion He2; subst lm2 lo2 sm2 so2. clear Heq He2.
        assert (Hx : 0 <= i * sm + so < w) by (split; [nia | apply Dx; lia]).
        assert (Hy : 0 <= lm * l + lo) by nia.
        rewrite Hkeep.
        * rewrite (Ha i Hi j Hj). apply (Hrow_src p l lw lm lo sm so Hr He i j Hi Hj).
        * nia.
        * (* no other row touches this field *)
          intros (p' & l' & lw' & lm' & lo' & sm' & so' & i' & Hin' & He' & Hi' & Hq').
          pose proof (Hsub' _ Hin') as Hr'.
          destruct (rows_sound w h p' l' lw' Hw Hh Hr') as (Hp' & Hlw' & Hl' & lm1 & lo1 & sm1 & so1 & He1 & _ & Dx' & _).
          rewrite He' in He1. inversion He1; subst lm1 lo1 sm1 so1. clear He1.
          destruct (expand_total p' Hp') as (lm1 & lo1 & sm1 & so1 & He1 & Hsm' & Hlm' & Hso' & Hlo').
          rewrite He' in He1. inversion He1; subst lm1 lo1 sm1 so1. clear He1.
          assert (Hx' : 0 <= i' * sm' + so' < w) by (split; [nia | apply Dx'; lia]).
          assert (Hy' : 0 <= lm' * l' + lo') by nia.
          apply (fields_disjoint w stride bits (i * sm + so) (lm * l + lo) (i' * sm' + so') (lm' * l' + lo')
                   ((i * sm + so) * bits + (lm * l + lo) * stride * 8 + j) Hbp Hfit Hx Hx' Hy Hy'); [| lia | exact Hq'].
          intros Ex Ey.
          assert (P1 : pos_xy p l i = Some (i * sm + so, lm * l + lo)) by (unfold pos_xy; rewrite He; reflexivity).
          assert (P2 : pos_xy p' l' i' = Some (i * sm + so, lm * l + lo)).
          { unfold pos_xy. rewrite He'. rewrite Ex, Ey. reflexivity. }
          destruct (rows_unique w h p l lw i p' l' lw' i' _ _ Hw Hh Hr Hr' Hi Hi' P1 P2) as (Ep & El & _ & Elw).
          subst p' l' lw'. contradiction.
      + intros q Hq Hout. rewrite Hkeep.
        * apply Hb; [exact Hq|]. intros i Hi Hin. apply Hout.
          exists p, l, lw, lm, lo, sm, so, i. split; [left; reflexivity|]. split; [exact He|]. split; [exact Hi | exact Hin].
        * exact Hq.
        * intros (p' & l' & lw' & lm' & lo' & sm' & so' & i' & Hin' & He' & Hi' & Hq'). apply Hout.
          exists p', l', lw', lm', lo', sm', so', i'. split; [right; exact Hin'|]. split; [exact He'|]. split; [exact Hi' | exact Hq'].
  Qed.

  Theorem expand_image_correct m0 ord :
    img_bytes m0 -> NoDup ord -> (forall r, In r ord <-> In r (rows_model w h)) ->
    exists m', expand_all m0 stride bits rowf ord = Some m' /\
      (forall x y j, 0 <= x < w -> 0 <= y < h -> 0 <= j < bits ->
         get_bit m' (y * stride * 8 + x * bits + j) = src x y j) /\
      (forall q, 0 <= q ->
         (forall x y, 0 <= x < w -> 0 <= y < h -> ~ (y * stride * 8 + x * bits <= q < y * stride * 8 + x * bits + bits)) ->
         get_bit m' q = get_bit m0 q).
  Proof.
    intros Hm0 Hnd Hord.
    destruct (expand_all_inv ord Hnd (fun r Hr => proj1 (Hord r) Hr) m0 Hm0) as (m' & Hall & _ & Hset & Hkeep).
    exists m'. split; [exact Hall|]. split.
    - intros x y j Hx Hy Hj.
      destruct (rows_complete w h x y Hw Hh Hx Hy) as (l & i & lw & lm & lo & sm & so & Hr & Hi & He & Ex & Ey).
      apply Hord in Hr.
      replace (y * stride * 8 + x * bits + j) with (x * bits + y * stride * 8 + j) by lia.
      rewrite Ex, Ey. exact (Hset _ l lw lm lo sm so Hr He i j Hi Hj).
    - intros q Hq Hout. apply Hkeep; [exact Hq|].
      intros (p & l & lw & lm & lo & sm & so & i & Hin & He & Hi & Hqf).
      apply Hord in Hin.
      destruct (rows_sound w h p l lw Hw Hh Hin) as (Hp & Hlw & Hl & lm1 & lo1 & sm1 & so1 & He1 & Hyh & Dx & _).
      rewrite He in He1. inversion He1; subst lm1 lo1 sm1 so1. clear He1.
      destruct (expand_total p Hp) as (lm1 & lo1 & sm1 & so1 & He1 & Hsm & Hlm & Hso & Hlo).
      rewrite He in He1. inversion He1; subst lm1 lo1 sm1 so1. clear He1.
      assert (Hx : 0 <= i * sm + so < w) by (split; [nia | apply Dx; lia]).
      assert (Hy : 0 <= lm * l + lo < h) by (split; [nia | exact Hyh]).
      apply (Hout _ _ Hx Hy). lia.
  Qed.
End Image.
