(* The buffering layers of the stream writer (Model/StreamWriterBuf.v) do not depend on how the caller cuts the image into write calls,
   nor on how the compressor cuts its output into write calls:
   (1) whatever the write calls, the compressor is handed the filtered scanlines of the whole-image path (encode_image);
   (2) whatever the bursts of the compressor, the IDAT chunks are its output cut into pieces of the chunk size. *)
From PngV Require Import Base.Bytes Spec.FilterSpec Gen.GenPaeth Model.Filter Model.Pipeline Model.EncodePipeline Model.StreamWriterBuf Proofs.FilterProofs Proofs.EncodePipelineProofs.

Lemma firstn_app_short' {A} (a b : list A) n : (n <= length a)%nat -> firstn n (a ++ b) = firstn n a.
Proof. revert a. induction n as [|n IH]; intros [|x a] H; cbn in *; try reflexivity; try lia. rewrite IH by lia. reflexivity. Qed.
Lemma firstn_app_exact' {A} (a b : list A) n : firstn (length a + n) (a ++ b) = a ++ firstn n b.
Proof. induction a as [|x a IH]; cbn; [reflexivity | rewrite IH; reflexivity]. Qed.
Lemma skipn_app_le' {A} n (a b : list A) : (n <= length a)%nat -> skipn n (a ++ b) = skipn n a ++ b.
Proof. revert a. induction n as [|n IH]; intros [|x a] H; cbn in *; try reflexivity; try lia. apply IH. lia. Qed.
Lemma skipn_app_ge' {A} (a b : list A) n : skipn (length a + n) (a ++ b) = skipn n b.
Proof. induction a as [|x a IH]; cbn; [reflexivity | exact IH]. Qed.

(* ================================================================== (1) scanline assembly *)
Section SW.
Variable m : fmethod.
Variable bpp : nat.

(* index < line_len, and to_write + index is a whole number of scanlines *)
Definition sw_inv (s : swst) : Prop :=
  (length (sw_cur s) < sw_line s)%nat /\ exists k, (sw_left s + length (sw_cur s) = k * sw_line s)%nat.

Lemma sw_inv_room s : sw_inv s -> sw_left s <> 0%nat -> (sw_line s - length (sw_cur s) <= sw_left s)%nat.
Proof. intros [H1 [k Hk]] H0. destruct k as [|k]; [lia|]. nia. Qed.

Lemma sw_write_ne s d : d <> [] ->
  sw_write m bpp s d =
  if (sw_left s =? 0)%nat then SwFrameOver
  else
    let n := Nat.min (length d) (sw_line s - length (sw_cur s)) in
    let cur' := sw_cur s ++ firstn n d in
    if (length cur' =? sw_line s)%nat then
      match filter_model m bpp (sw_prev s) cur' with
      | Some (rf, out) => SwOk (mk_sw cur' [] (sw_line s) (sw_left s - n)) n (ftype_to_Z rf :: out)
      | None => SwFilterFail
      end
    else SwOk (mk_sw (sw_prev s) cur' (sw_line s) (sw_left s - n)) n [].
Proof. destruct d; [congruence | reflexivity]. Qed.

Lemma sw_write_inv s d s1 n o : sw_inv s -> sw_write m bpp s d = SwOk s1 n o -> sw_inv s1 /\ sw_line s1 = sw_line s.
Proof.
  intros Hi. pose proof Hi as [H1 [k Hk]]. unfold sw_write. destruct d as [|d0 d']; [intro Q; injection Q as <- _ _; split; [exact Hi | reflexivity]|].
  destruct (sw_left s =? 0)%nat eqn:E0; [discriminate|]. apply Nat.eqb_neq in E0.
  pose proof (sw_inv_room s Hi E0) as Hroom.
  set (nn := Nat.min (length (d0 :: d')) (sw_line s - length (sw_cur s))).
  assert (Hn : (nn <= sw_line s - length (sw_cur s))%nat) by (unfold nn; lia).
  assert (Lf : length (firstn nn (d0 :: d')) = nn) by (rewrite firstn_length; unfold nn; lia).
  destruct (length (sw_cur s ++ firstn nn (d0 :: d')) =? sw_line s)%nat eqn:Ec.
  - apply Nat.eqb_eq in Ec. rewrite app_length, Lf in Ec.
    destruct (filter_model m bpp (sw_prev s) _) as [[rf out]|]; [|discriminate].
    intro Q. assert (E1 : s1 = mk_sw (sw_cur s ++ firstn nn (d0 :: d')) [] (sw_line s) (sw_left s - nn)) by congruence. subst s1.
    unfold sw_inv. cbn [sw_cur sw_line sw_left sw_prev length]. split; [|reflexivity]. split; [lia|].
    destruct k as [|k]; [lia|]. exists k. nia.
  - apply Nat.eqb_neq in Ec. rewrite app_length, Lf in Ec.
    intro Q. assert (E1 : s1 = mk_sw (sw_prev s) (sw_cur s ++ firstn nn (d0 :: d')) (sw_line s) (sw_left s - nn)) by congruence. subst s1.
    unfold sw_inv. cbn [sw_cur sw_line sw_left sw_prev]. split; [|reflexivity]. split; [rewrite app_length, Lf; lia|].
    exists k. rewrite app_length, Lf. lia.
Qed.

(* fuel beyond the length of the data changes nothing *)
Lemma sw_all_fuel : forall f1 f2 s d, (length d < f1)%nat -> (length d < f2)%nat -> sw_write_all f1 m bpp s d = sw_write_all f2 m bpp s d.
Proof.
  induction f1 as [|f1 IH]; intros f2 s d H1 H2; [lia|]. destruct f2 as [|f2]; [lia|].
  destruct d as [|d0 d']; [reflexivity|]. cbn [sw_write_all].
  destruct (sw_write m bpp s (d0 :: d')) as [s1 n o| |] eqn:W; try reflexivity.
  destruct (n =? 0)%nat eqn:En; [reflexivity|]. apply Nat.eqb_neq in En.
  rewrite (IH f2 s1 (skipn n (d0 :: d'))); [reflexivity| |]; rewrite skipn_length; cbn [length] in *; lia.
Qed.

Lemma sw_all_nil f s : sw_write_all f m bpp s [] = Some (s, []).
Proof. destruct f; reflexivity. Qed.

Lemma sw_all_step f s d : d <> [] -> sw_write_all (S f) m bpp s d =
  match sw_write m bpp s d with
  | SwOk s1 n out => if (n =? 0)%nat then None
                     else match sw_write_all f m bpp s1 (skipn n d) with Some (s2, out2) => Some (s2, out ++ out2) | None => None end
  | _ => None end.
Proof. destruct d; [congruence | reflexivity]. Qed.

(* THE CUT LEMMA: write_all(p) then write_all(q) = write_all(p ++ q) *)
Lemma sw_all_app : forall f p q s, sw_inv s -> (length p + length q < f)%nat ->
  sw_write_all f m bpp s (p ++ q) =
  match sw_write_all f m bpp s p with
  | Some (s1, o1) => match sw_write_all f m bpp s1 q with Some (s2, o2) => Some (s2, o1 ++ o2) | None => None end
  | None => None
  end.
Proof.
  induction f as [|f IH]; intros p q s Hi Hf; [lia|].
  destruct p as [|p0 p'].
  { cbn [app]. change (sw_write_all (S f) m bpp s []) with (Some (s, @nil Z)). cbn beta iota. destruct (sw_write_all (S f) m bpp s q) as [[s2 o2]|]; reflexivity. }
  destruct q as [|q0 q'].
  { rewrite app_nil_r. destruct (sw_write_all (S f) m bpp s (p0 :: p')) as [[s1 o1]|]; [|reflexivity].
    change (sw_write_all (S f) m bpp s1 []) with (Some (s1, @nil Z)). cbn beta iota. rewrite app_nil_r. reflexivity. }
  remember (p0 :: p') as p eqn:Ep. remember (q0 :: q') as q eqn:Eq.
  assert (Lp : (1 <= length p)%nat) by (subst p; cbn; lia). assert (Lq : (1 <= length q)%nat) by (subst q; cbn; lia).
  assert (Np : p <> []) by (subst p; discriminate). assert (Nq : q <> []) by (subst q; discriminate).
  assert (Npq : p ++ q <> []) by (subst p; discriminate).
  rewrite (sw_all_step f s (p ++ q) Npq), (sw_all_step f s p Np).
  pose proof Hi as [H1 [k Hk]].
  rewrite (sw_write_ne s (p ++ q) Npq), (sw_write_ne s p Np). cbv zeta.
  destruct (sw_left s =? 0)%nat eqn:E0; [reflexivity|]. apply Nat.eqb_neq in E0.
  pose proof (sw_inv_room s Hi E0) as Hroom.
  set (need := (sw_line s - length (sw_cur s))%nat) in *.
  assert (Hneed : (1 <= need)%nat) by (unfold need; lia).
  rewrite !(app_length p q).
  destruct (Nat.le_gt_cases need (length p)) as [Hc|Hc].
  - (* the scanline is completed inside p: the same call *)
    replace (Nat.min (length p + length q) need) with need by lia.
    replace (Nat.min (length p) need) with need by lia.
    rewrite firstn_app_short' by exact Hc.
    assert (Lf : length (firstn need p) = need) by (rewrite firstn_length; lia).
    assert (Ec : (length (sw_cur s ++ firstn need p) =? sw_line s)%nat = true) by (apply Nat.eqb_eq; rewrite app_length, Lf; unfold need; lia).
    rewrite Ec.
    destruct (filter_model m bpp (sw_prev s) (sw_cur s ++ firstn need p)) as [[rf out]|]; [|reflexivity].
    replace (need =? 0)%nat with false by (symmetry; apply Nat.eqb_neq; lia).
    rewrite skipn_app_le' by exact Hc.
    set (s1 := mk_sw (sw_cur s ++ firstn need p) [] (sw_line s) (sw_left s - need)).
    assert (Hi1 : sw_inv s1).
    { unfold s1, sw_inv. cbn. split; [lia|]. destruct k as [|k]; [lia|]. exists k. unfold need in *. nia. }
    rewrite (IH (skipn need p) q s1 Hi1) by (rewrite skipn_length; lia).
    (* the remaining calls of the right-hand side run with fuel S f on q, the left with f: fuel is irrelevant *)
    destruct (sw_write_all f m bpp s1 (skipn need p)) as [[s2 o2]|]; [|reflexivity].
    rewrite (sw_all_fuel f (S f) s2 q) by lia.
    destruct (sw_write_all (S f) m bpp s2 q) as [[s3 o3]|]; [|reflexivity].
    rewrite <- !app_assoc. reflexivity.
  - (* all of p goes into the scanline, which is completed (or not) by q *)
    replace (Nat.min (length p) need) with (length p) by lia.
    rewrite firstn_all.
    assert (Ec : (length (sw_cur s ++ p) =? sw_line s)%nat = false) by (apply Nat.eqb_neq; rewrite app_length; unfold need in *; lia).
    rewrite Ec.
    replace (length p =? 0)%nat with false by (symmetry; apply Nat.eqb_neq; lia).
    rewrite skipn_all, sw_all_nil. cbn [app].
    set (s1 := mk_sw (sw_prev s) (sw_cur s ++ p) (sw_line s) (sw_left s - length p)).
    (* the call on q from s1 *)
    rewrite (sw_all_step f s1 q Nq), (sw_write_ne s1 q Nq). cbv zeta.
    cbn [sw_left sw_line sw_cur sw_prev s1].
    replace (sw_left s - length p =? 0)%nat with false by (symmetry; apply Nat.eqb_neq; unfold need in *; lia).
    rewrite !(app_length (sw_cur s) p).
    set (n2 := Nat.min (length q) (sw_line s - (length (sw_cur s) + length p))).
    replace (Nat.min (length p + length q) need) with (length p + n2)%nat by (unfold n2, need; lia).
    rewrite firstn_app_exact', app_assoc.
    replace (sw_left s - (length p + n2))%nat with (sw_left s - length p - n2)%nat by lia.
    destruct (length ((sw_cur s ++ p) ++ firstn n2 q) =? sw_line s)%nat.
    + destruct (filter_model m bpp (sw_prev s) ((sw_cur s ++ p) ++ firstn n2 q)) as [[rf out]|]; [|reflexivity].
      replace (length p + n2 =? 0)%nat with false by (symmetry; apply Nat.eqb_neq; lia).
      assert (N2 : (1 <= n2)%nat) by (unfold n2, need in *; lia).
      replace (n2 =? 0)%nat with false by (symmetry; apply Nat.eqb_neq; lia).
      rewrite skipn_app_ge'. destruct (sw_write_all f m bpp _ (skipn n2 q)) as [[? ?]|]; reflexivity.
    + replace (length p + n2 =? 0)%nat with false by (symmetry; apply Nat.eqb_neq; lia).
      assert (N2 : (1 <= n2)%nat) by (unfold n2, need in *; lia).
      replace (n2 =? 0)%nat with false by (symmetry; apply Nat.eqb_neq; lia).
      rewrite skipn_app_ge'. destruct (sw_write_all f m bpp _ (skipn n2 q)) as [[? ?]|]; reflexivity.
Qed.

Lemma sw_all_inv : forall f s d s1 o, sw_inv s -> sw_write_all f m bpp s d = Some (s1, o) -> sw_inv s1 /\ sw_line s1 = sw_line s.
Proof.
  induction f as [|f IH]; intros s d s1 o Hi; destruct d as [|d0 d']; cbn [sw_write_all]; try discriminate;
    try (intro Q; injection Q as <- _; split; [exact Hi | reflexivity]).
  destruct (sw_write m bpp s (d0 :: d')) as [s2 n o2| |] eqn:W; try discriminate.
  destruct (n =? 0)%nat; [discriminate|].
  destruct (sw_write_inv s _ s2 n o2 Hi W) as [Hi2 Hl2].
  destruct (sw_write_all f m bpp s2 (skipn n (d0 :: d'))) as [[s3 o3]|] eqn:R; [|discriminate].
  intro Q; injection Q as <- _. destruct (IH s2 _ s3 o3 Hi2 R) as [A B]. split; [exact A | congruence].
Qed.

(* a sequence of write_all calls is one write_all of the concatenation *)
Lemma sw_run_concat : forall pieces s, sw_inv s ->
  sw_run m bpp s pieces = sw_write_all (S (length (concat pieces))) m bpp s (concat pieces).
Proof.
  induction pieces as [|p ps IH]; intros s Hi; [reflexivity|].
  cbn [sw_run concat]. rewrite (sw_all_app (S (length (p ++ concat ps))) p (concat ps) s Hi) by (rewrite app_length; lia).
  rewrite (sw_all_fuel (S (length p)) (S (length (p ++ concat ps))) s p) by (rewrite ?app_length; lia).
  destruct (sw_write_all (S (length (p ++ concat ps))) m bpp s p) as [[s1 o1]|] eqn:R; [|reflexivity].
  destruct (sw_all_inv _ s p s1 o1 Hi R) as [Hi1 _].
  rewrite (IH s1 Hi1). rewrite (sw_all_fuel (S (length (concat ps))) (S (length (p ++ concat ps))) s1 (concat ps)) by (rewrite ?app_length; lia).
  reflexivity.
Qed.

(* one whole scanline offered at a scanline boundary: one call, one filtered row *)
Lemma sw_one_row f prev line left row :
  (0 < line)%nat -> length row = line -> (line <= left)%nat -> (line < f)%nat ->
  sw_write_all f m bpp (mk_sw prev [] line left) row =
  match filter_model m bpp prev row with
  | Some (rf, out) => Some (mk_sw row [] line (left - line), ftype_to_Z rf :: out)
  | None => None
  end.
Proof.
  intros Hl Hr Hle Hf. destruct f as [|f]; [lia|]. destruct row as [|r0 row']; [cbn in Hr; lia|].
  cbn [sw_write_all]. unfold sw_write. cbn [sw_left sw_line sw_cur sw_prev length app].
  replace (left =? 0)%nat with false by (symmetry; apply Nat.eqb_neq; lia).
  rewrite Nat.sub_0_r. cbn [length] in Hr. rewrite Hr, Nat.min_id.
  replace (firstn line (r0 :: row')) with (r0 :: row') by (rewrite <- Hr; symmetry; apply (firstn_all (r0 :: row'))).
  cbn [length]. rewrite Hr, Nat.eqb_refl.
  destruct (filter_model m bpp prev (r0 :: row')) as [[rf out]|]; [|reflexivity].
  replace (line =? 0)%nat with false by (symmetry; apply Nat.eqb_neq; lia).
  replace (skipn line (r0 :: row')) with (@nil Z) by (rewrite <- Hr; symmetry; apply (skipn_all (r0 :: row'))).
  destruct f; cbn [sw_write_all]; rewrite app_nil_r; reflexivity.
Qed.

Lemma last_cons {A} (rows : list A) : forall r d, last (r :: rows) d = last rows r.
Proof.
  induction rows as [|x rows IH]; intros r d; [reflexivity|].
  change (last (r :: x :: rows) d) with (last (x :: rows) d). rewrite (IH x d), (IH x r). reflexivity.
Qed.

(* all the scanlines of an image in one write_all: the stream of the whole-image path *)
Lemma sw_rows : forall rows prev line extra,
  (0 < line)%nat -> Forall (fun r => length r = line) rows ->
  sw_write_all (S (length (concat rows))) m bpp (mk_sw prev [] line (line * (length rows + extra))) (concat rows) =
  match encode_rows m bpp prev rows with
  | Some out => Some (mk_sw (last rows prev) [] line (line * extra), out)
  | None => None
  end.
Proof.
  induction rows as [|r rows IH]; intros prev line extra Hl Hf.
  - cbn. reflexivity.
  - inversion Hf as [|? ? Hr Hrs]; subst. cbn [concat encode_rows length].
    set (left := (length r * (S (length rows) + extra))%nat).
    assert (Hi : sw_inv (mk_sw prev [] (length r) left)).
    { unfold sw_inv. cbn. split; [lia|]. exists (S (length rows) + extra)%nat. unfold left. lia. }
    rewrite (sw_all_app (S (length (r ++ concat rows))) r (concat rows) _ Hi) by (rewrite app_length; lia).
    rewrite (sw_one_row _ prev (length r) left r Hl eq_refl) by (unfold left; rewrite ?app_length; nia).
    destruct (filter_model m bpp prev r) as [[rf out]|]; [|reflexivity].
    replace (left - length r)%nat with (length r * (length rows + extra))%nat by (unfold left; nia).
    rewrite (sw_all_fuel (S (length (r ++ concat rows))) (S (length (concat rows))) _ (concat rows)) by (rewrite ?app_length; lia).
    rewrite (IH r (length r) extra Hl Hrs).
    destruct (encode_rows m bpp r rows) as [rest|]; [|reflexivity].
    rewrite last_cons. reflexivity.
Qed.

(* THE THEOREM for layer (1): however the caller cuts the image into write calls (each a write_all), the compressor is handed exactly the
   stream the whole-image path produces (filter byte + filtered scanline, every scanline against the one above it), the frame is complete and no
   partial scanline is left *)
Theorem stream_writer_any_split : forall line rows pieces,
  (0 < line)%nat -> Forall (fun r => length r = line) rows -> concat pieces = concat rows ->
  sw_run m bpp (sw_init line (length rows)) pieces =
  match encode_image m bpp line rows with
  | Some out => Some (mk_sw (last rows (zeros line)) [] line 0, out)
  | None => None
  end.
Proof.
  intros line rows pieces Hl Hf E.
  assert (Hi : sw_inv (sw_init line (length rows))).
  { unfold sw_inv, sw_init. cbn. split; [lia|]. exists (length rows). lia. }
  rewrite (sw_run_concat pieces _ Hi), E. unfold sw_init, encode_image.
  pose proof (sw_rows rows (zeros line) line 0 Hl Hf) as R. rewrite Nat.add_0_r, Nat.mul_0_r in R. exact R.
Qed.

(* once the image is complete, further data is refused *)
Theorem stream_writer_refuses_data_beyond_the_image : forall s d f, sw_left s = 0%nat -> d <> [] -> sw_write_all (S f) m bpp s d = None.
Proof. intros s d f H0 Hd. destruct d as [|d0 d']; [congruence|]. cbn [sw_write_all]. unfold sw_write. rewrite H0. reflexivity. Qed.

End SW.

(* ================================================================== (2) chunk packaging *)
Definition cw_inv (s : cwst) : Prop := (length (cw_buf s) < cw_cap s)%nat.

Lemma cw_all_fuel : forall f1 f2 s d, (length d < f1)%nat -> (length d < f2)%nat -> cw_write_all f1 s d = cw_write_all f2 s d.
Proof.
  induction f1 as [|f1 IH]; intros f2 s d H1 H2; [lia|]. destruct f2 as [|f2]; [lia|].
  destruct d as [|d0 d']; [reflexivity|]. cbn [cw_write_all].
  destruct (cw_write s (d0 :: d')) as [[s1 n] cs] eqn:W.
  destruct (n =? 0)%nat eqn:En; [reflexivity|]. apply Nat.eqb_neq in En.
  rewrite (IH f2 s1 (skipn n (d0 :: d'))); [reflexivity| |]; rewrite skipn_length; cbn [length] in *; lia.
Qed.

(* one call in the state with room: what it takes, what leaves *)
Lemma cw_write_spec s d : cw_inv s -> d <> [] ->
  let n := Nat.min (length d) (cw_cap s - length (cw_buf s)) in
  (1 <= n)%nat /\
  cw_write s d = if (length (cw_buf s) + n =? cw_cap s)%nat
                 then (mk_cw (cw_cap s) [], n, [cw_buf s ++ firstn n d])
                 else (mk_cw (cw_cap s) (cw_buf s ++ firstn n d), n, []).
Proof.
  intros Hi Hd n. unfold cw_inv in Hi. assert (Ld : (1 <= length d)%nat) by (destruct d; [congruence | cbn; lia]).
  split; [unfold n; lia|]. unfold cw_write. destruct d as [|d0 d']; [congruence|]. fold n.
  assert (Lf : length (firstn n (d0 :: d')) = n) by (rewrite firstn_length; unfold n; lia).
  rewrite app_length, Lf.
  destruct (length (cw_buf s) + n =? cw_cap s)%nat; [|reflexivity].
  destruct (cw_buf s ++ firstn n (d0 :: d')) eqn:Eb; [|reflexivity].
  exfalso. apply (f_equal (@length Z)) in Eb. rewrite app_length, Lf in Eb. change (length (@nil Z)) with 0%nat in Eb.
  assert (1 <= n)%nat by (unfold n; lia). lia.
Qed.

Lemma cw_all_nil f s : cw_write_all f s [] = Some (s, []).
Proof. destruct f; reflexivity. Qed.

(* THE CUT LEMMA for the chunk layer *)
Lemma cw_all_app : forall f p q s, cw_inv s -> (length p + length q < f)%nat ->
  cw_write_all f s (p ++ q) =
  match cw_write_all f s p with
  | Some (s1, c1) => match cw_write_all f s1 q with Some (s2, c2) => Some (s2, c1 ++ c2) | None => None end
  | None => None
  end.
Proof.
  induction f as [|f IH]; intros p q s Hi Hf; [lia|].
  destruct p as [|p0 p'].
  { cbn [app]. change (cw_write_all (S f) s []) with (Some (s, @nil (list Z))). cbn beta iota. destruct (cw_write_all (S f) s q) as [[s2 c2]|]; reflexivity. }
  destruct q as [|q0 q'].
  { rewrite app_nil_r. destruct (cw_write_all (S f) s (p0 :: p')) as [[s1 c1]|]; [|reflexivity]. change (cw_write_all (S f) s1 []) with (Some (s1, @nil (list Z))). cbn beta iota. rewrite app_nil_r. reflexivity. }
  remember (p0 :: p') as p eqn:Ep. remember (q0 :: q') as q eqn:Eq.
  assert (Lp : (1 <= length p)%nat) by (subst p; cbn; lia). assert (Lq : (1 <= length q)%nat) by (subst q; cbn; lia).
  assert (Np : p <> []) by (subst p; discriminate). assert (Nq : q <> []) by (subst q; discriminate).
  assert (Npq : p ++ q <> []) by (subst p; discriminate).
  assert (W : forall d s0, d <> [] -> cw_write_all (S f) s0 d =
              let '(s1, n, cs) := cw_write s0 d in
              if (n =? 0)%nat then None else match cw_write_all f s1 (skipn n d) with Some (s2, cs2) => Some (s2, cs ++ cs2) | None => None end).
  { intros d s0 Hd. destruct d; [congruence | reflexivity]. }
  rewrite (W (p ++ q) s Npq), (W p s Np).
  destruct (cw_write_spec s (p ++ q) Hi Npq) as [N1 S1]. destruct (cw_write_spec s p Hi Np) as [N2 S2]. cbv zeta in *.
  rewrite S1, S2. clear S1 S2. rewrite !(app_length p q) in *.
  unfold cw_inv in Hi. set (room := (cw_cap s - length (cw_buf s))%nat) in *.
  destruct (Nat.le_gt_cases room (length p)) as [Hc|Hc].
  - (* the buffer fills up inside p *)
    replace (Nat.min (length p + length q) room) with room by lia. replace (Nat.min (length p) room) with room by lia.
    rewrite firstn_app_short' by exact Hc.
    replace (length (cw_buf s) + room =? cw_cap s)%nat with true by (symmetry; apply Nat.eqb_eq; unfold room; lia).
    replace (room =? 0)%nat with false by (symmetry; apply Nat.eqb_neq; unfold room; lia).
    rewrite skipn_app_le' by exact Hc.
    assert (Hi1 : cw_inv (mk_cw (cw_cap s) [])) by (unfold cw_inv; cbn; lia).
    rewrite (IH (skipn room p) q _ Hi1) by (rewrite skipn_length; unfold room in *; lia).
    destruct (cw_write_all f (mk_cw (cw_cap s) []) (skipn room p)) as [[s2 c2]|]; [|reflexivity].
    rewrite (cw_all_fuel f (S f) s2 q) by lia.
    destruct (cw_write_all (S f) s2 q) as [[s3 c3]|]; [|reflexivity].
    rewrite <- !app_assoc. reflexivity.
  - (* all of p is staged *)
    replace (Nat.min (length p) room) with (length p) by lia. rewrite firstn_all.
    replace (length (cw_buf s) + length p =? cw_cap s)%nat with false by (symmetry; apply Nat.eqb_neq; unfold room in *; lia).
    replace (length p =? 0)%nat with false by (symmetry; apply Nat.eqb_neq; lia).
    rewrite skipn_all, cw_all_nil. cbn [app].
    set (s1 := mk_cw (cw_cap s) (cw_buf s ++ p)).
    assert (Hi1 : cw_inv s1) by (unfold cw_inv, s1; cbn; rewrite app_length; unfold room in *; lia).
    rewrite (W q s1 Nq). destruct (cw_write_spec s1 q Hi1 Nq) as [N3 S3]. cbv zeta in *. rewrite S3. clear S3.
    cbn [cw_cap cw_buf s1] in *. rewrite !(app_length (cw_buf s) p) in *.
    set (n2 := Nat.min (length q) (cw_cap s - (length (cw_buf s) + length p))) in *.
    replace (Nat.min (length p + length q) room) with (length p + n2)%nat by (unfold n2, room; lia).
    rewrite firstn_app_exact', app_assoc.
    replace (length (cw_buf s) + (length p + n2))%nat with (length (cw_buf s) + length p + n2)%nat by lia.
    destruct (length (cw_buf s) + length p + n2 =? cw_cap s)%nat; cbn beta iota zeta;
      replace (length p + n2 =? 0)%nat with false by (symmetry; apply Nat.eqb_neq; lia);
      replace (n2 =? 0)%nat with false by (symmetry; apply Nat.eqb_neq; lia);
      rewrite skipn_app_ge'; destruct (cw_write_all f _ (skipn n2 q)) as [[? ?]|]; reflexivity.
Qed.

Lemma cw_all_inv : forall f s d s1 c, cw_inv s -> cw_write_all f s d = Some (s1, c) -> cw_inv s1 /\ cw_cap s1 = cw_cap s.
Proof.
  induction f as [|f IH]; intros s d s1 c Hi; destruct d as [|d0 d']; cbn [cw_write_all]; try discriminate;
    try (intro Q; injection Q as <- _; split; [exact Hi | reflexivity]).
  assert (Nd : d0 :: d' <> []) by discriminate.
  destruct (cw_write_spec s (d0 :: d') Hi Nd) as [N1 S1]. cbv zeta in *. rewrite S1.
  set (n := Nat.min (length (d0 :: d')) (cw_cap s - length (cw_buf s))) in *.
  assert (Lf : length (firstn n (d0 :: d')) = n) by (rewrite firstn_length; unfold n; lia).
  destruct (length (cw_buf s) + n =? cw_cap s)%nat eqn:Ec.
  - replace (n =? 0)%nat with false by (symmetry; apply Nat.eqb_neq; lia).
    destruct (cw_write_all f (mk_cw (cw_cap s) []) (skipn n (d0 :: d'))) as [[s3 c3]|] eqn:R; [|discriminate].
    intro Q; injection Q as <- _. unfold cw_inv in Hi.
    destruct (IH (mk_cw (cw_cap s) []) _ s3 c3 ltac:(unfold cw_inv; cbn; lia) R) as [A B]. split; [exact A | exact B].
  - replace (n =? 0)%nat with false by (symmetry; apply Nat.eqb_neq; lia).
    destruct (cw_write_all f (mk_cw (cw_cap s) (cw_buf s ++ firstn n (d0 :: d'))) (skipn n (d0 :: d'))) as [[s3 c3]|] eqn:R; [|discriminate].
    intro Q; injection Q as <- _. apply Nat.eqb_neq in Ec. unfold cw_inv in Hi.
    assert (Hi2 : cw_inv (mk_cw (cw_cap s) (cw_buf s ++ firstn n (d0 :: d')))) by (unfold cw_inv; cbn [cw_buf cw_cap]; rewrite app_length, Lf; lia).
    destruct (IH _ _ s3 c3 Hi2 R) as [A B]. split; [exact A | exact B].
Qed.

Lemma chunks_of_fuel : forall f1 f2 cap (l : list Z), (0 < cap)%nat -> (length l <= f1)%nat -> (length l <= f2)%nat ->
  chunks_of f1 cap l = chunks_of f2 cap l.
Proof.
  induction f1 as [|f1 IHf]; intros f2 cap l Hc H1 H2.
  - destruct l; [destruct f2; reflexivity | cbn in H1; lia].
  - destruct f2 as [|f2]; [destruct l; [reflexivity | cbn in H2; lia]|].
    destruct l as [|x l]; [reflexivity|]. cbn [chunks_of]. f_equal.
    apply IHf; try exact Hc; rewrite skipn_length; cbn [length] in *; lia.
Qed.

(* everything written at a chunk boundary and then flushed: the data cut into chunks *)
Lemma cw_total_spec : forall fuel cap d, (0 < cap)%nat -> (length d < fuel)%nat ->
  match cw_write_all fuel (mk_cw cap []) d with
  | Some (s, cs) => Some (cs ++ snd (cw_flush s))
  | None => None
  end = Some (chunks_of (length d) cap d).
Proof.
  induction fuel as [|fuel IH]; intros cap d Hc Hf; [lia|].
  destruct d as [|d0 d'] eqn:Ed; [reflexivity|].
  rewrite <- Ed in *. assert (Nd : d <> []) by (rewrite Ed; discriminate).
  assert (Ld : (1 <= length d)%nat) by (rewrite Ed; cbn; lia).
  assert (W : cw_write_all (S fuel) (mk_cw cap []) d =
              let '(s1, n, cs) := cw_write (mk_cw cap []) d in
              if (n =? 0)%nat then None else match cw_write_all fuel s1 (skipn n d) with Some (s2, cs2) => Some (s2, cs ++ cs2) | None => None end)
    by (rewrite Ed; reflexivity).
  rewrite W. clear W.
  destruct (cw_write_spec (mk_cw cap []) d ltac:(unfold cw_inv; cbn; lia) Nd) as [N1 S1]. cbv zeta in *. rewrite S1. clear S1.
  cbn [cw_cap cw_buf length app] in *. rewrite Nat.sub_0_r in *.
  assert (C : chunks_of (length d) cap d = firstn cap d :: chunks_of (length d - 1) cap (skipn cap d)).
  { destruct (length d) as [|n] eqn:El; [lia|]. replace (S n - 1)%nat with n by lia. rewrite Ed. reflexivity. }
  rewrite C.
  destruct (Nat.le_gt_cases cap (length d)) as [Hle|Hgt].
  - replace (Nat.min (length d) cap) with cap by lia. rewrite Nat.eqb_refl.
    replace (cap =? 0)%nat with false by (symmetry; apply Nat.eqb_neq; lia).
    pose proof (IH cap (skipn cap d) Hc ltac:(rewrite skipn_length; lia)) as R.
    destruct (cw_write_all fuel (mk_cw cap []) (skipn cap d)) as [[s2 c2]|]; [|discriminate R].
    injection R as R. cbn [app]. rewrite R. rewrite skipn_length.
    (* the fuel of chunks_of only has to cover the length *)
    f_equal. f_equal. apply chunks_of_fuel; [exact Hc | rewrite skipn_length; lia | rewrite skipn_length; lia].
  - replace (Nat.min (length d) cap) with (length d) by lia. change (0 + length d)%nat with (length d).
    replace (length d =? cap)%nat with false by (symmetry; apply Nat.eqb_neq; lia). cbn beta iota zeta.
    replace (length d =? 0)%nat with false by (symmetry; apply Nat.eqb_neq; lia).
    rewrite firstn_all, skipn_all, cw_all_nil.
    rewrite (firstn_all2 d) by lia. rewrite (skipn_all2 d) by lia.
    unfold cw_flush. cbn [cw_buf cw_cap snd app]. rewrite Ed. destruct (length (d0 :: d') - 1)%nat; reflexivity.
Qed.

Lemma cw_run_concat : forall bursts s, cw_inv s ->
  cw_run s bursts =
  match cw_write_all (S (length (concat bursts))) s (concat bursts) with
  | Some (s1, cs) => Some (cs ++ snd (cw_flush s1))
  | None => None
  end.
Proof.
  induction bursts as [|b bs IH]; intros s Hi; [reflexivity|].
  cbn [cw_run concat]. rewrite (cw_all_app (S (length (b ++ concat bs))) b (concat bs) s Hi) by (rewrite app_length; lia).
  rewrite (cw_all_fuel (S (length b)) (S (length (b ++ concat bs))) s b) by (rewrite ?app_length; lia).
  destruct (cw_write_all (S (length (b ++ concat bs))) s b) as [[s1 c1]|] eqn:R; [|reflexivity].
  destruct (cw_all_inv _ s b s1 c1 Hi R) as [Hi1 _].
  rewrite (IH s1 Hi1). rewrite (cw_all_fuel (S (length (concat bs))) (S (length (b ++ concat bs))) s1 (concat bs)) by (rewrite ?app_length; lia).
  destruct (cw_write_all (S (length (b ++ concat bs))) s1 (concat bs)) as [[s2 c2]|]; [|reflexivity].
  rewrite app_assoc. reflexivity.
Qed.

(* THE THEOREM for layer (2): whatever the bursts in which the compressor writes its output, what reaches the sink is that output cut into IDAT
   chunks of the chunk size (the last one shorter, none empty) *)
Theorem chunk_writer_any_bursts : forall cap bursts, (0 < cap)%nat ->
  cw_run (mk_cw cap []) bursts = Some (chunks_of (length (concat bursts)) cap (concat bursts)).
Proof.
  intros cap bursts Hc.
  assert (Hi : cw_inv (mk_cw cap [])) by (unfold cw_inv; cbn [cw_buf cw_cap length]; exact Hc).
  rewrite (cw_run_concat bursts _ Hi).
  apply cw_total_spec; [exact Hc | lia].
Qed.

(* what the chunks are: together the data; none empty, none longer than the chunk size; all but the last full *)
Lemma chunks_step fuel cap (l : list Z) : l <> [] -> chunks_of (S fuel) cap l = firstn cap l :: chunks_of fuel cap (skipn cap l).
Proof. destruct l; [congruence | reflexivity]. Qed.

Lemma chunks_concat : forall fuel cap l, (0 < cap)%nat -> (length l <= fuel)%nat -> concat (chunks_of fuel cap l) = l.
Proof.
  induction fuel as [|fuel IH]; intros cap l Hc Hf.
  - destruct l; [reflexivity | cbn in Hf; lia].
  - destruct (list_eq_dec Z.eq_dec l []) as [->|Hn]; [reflexivity|].
    assert (1 <= length l)%nat by (destruct l; [congruence | cbn; lia]).
    rewrite (chunks_step fuel cap l Hn). cbn [concat]. rewrite IH by (try exact Hc; rewrite skipn_length; lia). apply firstn_skipn.
Qed.

Lemma chunks_sizes : forall fuel cap l, (0 < cap)%nat -> (length l <= fuel)%nat ->
  Forall (fun c => (1 <= length c <= cap)%nat) (chunks_of fuel cap l).
Proof.
  induction fuel as [|fuel IH]; intros cap l Hc Hf.
  - destruct l; [constructor | cbn in Hf; lia].
  - destruct (list_eq_dec Z.eq_dec l []) as [->|Hn]; [constructor|].
    assert (1 <= length l)%nat by (destruct l; [congruence | cbn; lia]).
    rewrite (chunks_step fuel cap l Hn).
    constructor; [rewrite firstn_length; lia | apply IH; try exact Hc; rewrite skipn_length; lia].
Qed.

Lemma chunks_all_but_last_full : forall fuel cap l c cs, (0 < cap)%nat -> (length l <= fuel)%nat ->
  chunks_of fuel cap l = c :: cs -> cs <> [] -> length c = cap.
Proof.
  intros fuel cap l c cs Hc Hf E Hn. destruct fuel as [|fuel]; [destruct l; [discriminate E | cbn in Hf; lia]|].
  destruct (list_eq_dec Z.eq_dec l []) as [->|Hl]; [discriminate E|].
  rewrite (chunks_step fuel cap l Hl) in E. injection E as <- <-. rewrite firstn_length.
  destruct (Nat.le_gt_cases cap (length l)) as [H|H]; [lia|].
  exfalso. apply Hn. rewrite skipn_all2 by lia. destruct fuel; reflexivity.
Qed.

(* non-vacuity: 7 bytes in bursts of 2, 4 and 1 through a 3-byte chunk buffer *)
Example chunk_writer_demo : cw_run (mk_cw 3 []) [[1; 2]; [3; 4; 5; 6]; [7]] = Some [[1; 2; 3]; [4; 5; 6]; [7]].
Proof. vm_compute. reflexivity. Qed.

(* ================================================================== both layers, the compressor between them, and the decoder's row pipeline *)
(* THE ROUND TRIP THROUGH THE STREAM WRITER (still image).  [K] is the compressor and [I] the inflater (external: only I (K x) = Some x is
   assumed, of the one stream this image produces); [pieces] is any way of cutting the image bytes into write calls; [bursts] is any way in which
   the compressor delivers its output to the chunk layer; [cap] is the chunk size.  Then: the stream writer takes all the pieces; the payloads
   of the IDAT chunks that reach the sink, concatenated and inflated, are the scanline stream; and the decoder's row pipeline turns it back into
   exactly the rows that were given, with nothing left over. *)
Theorem stream_writer_round_trip (P : Z -> Z -> Z -> Z) (K : list Z -> list Z) (I : list Z -> option (list Z)) :
  (forall a b c, byte_ok a -> byte_ok b -> byte_ok c -> P a b c = paeth_spec a b c) ->
  forall m bpp k rows pieces bursts cap,
    (0 < bpp)%nat -> (0 < k)%nat -> (0 < cap)%nat ->
    Forall (fun r => length r = (k * bpp)%nat /\ bytes_ok r) rows ->
    concat pieces = concat rows ->
    exists s' stream chunks,
      sw_run m bpp (sw_init (k * bpp) (length rows)) pieces = Some (s', stream) /\ sw_left s' = 0%nat /\ sw_cur s' = [] /\
      (concat bursts = K stream -> I (K stream) = Some stream ->
       cw_run (mk_cw cap []) bursts = Some chunks /\
       Forall (fun c => (1 <= length c <= cap)%nat) chunks /\
       I (concat chunks) = Some stream /\
       unfilter_rows P bpp (k * bpp) (length rows) [] stream = Ok (rows, [])).
Proof.
  intros HP m bpp k rows pieces bursts cap Hbpp Hk Hcap Hf Ec.
  assert (Hl : (0 < k * bpp)%nat) by nia.
  assert (Hf' : Forall (fun r => length r = (k * bpp)%nat) rows) by (eapply Forall_impl; [|exact Hf]; cbn; tauto).
  pose proof (stream_writer_any_split m bpp (k * bpp) rows pieces Hl Hf' Ec) as S.
  destruct (encode_total m bpp k Hbpp Hk rows (zeros (k * bpp)) Hf (zeros_length _) (zeros_bytes _)) as [stream Es].
  unfold encode_image in S. rewrite Es in S.
  exists (mk_sw (last rows (zeros (k * bpp))) [] (k * bpp) 0), stream, (chunks_of (length (concat bursts)) cap (concat bursts)).
  split; [exact S|]. split; [reflexivity|]. split; [reflexivity|].
  intros Eb Ei. split; [apply chunk_writer_any_bursts; exact Hcap|]. split; [apply chunks_sizes; [exact Hcap | lia]|].
  split; [rewrite chunks_concat by (try exact Hcap; lia); rewrite Eb; exact Ei|].
  apply (encode_decode_rows P HP m bpp k rows stream Hbpp Hk Hf). unfold encode_image. exact Es.
Qed.
