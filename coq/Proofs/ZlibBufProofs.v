(* The inflater's output buffer (Model/ZlibBuf.v, constants regenerated from zlib.rs):
   - WINDOW (C01): whatever the sizes of the pieces the decompressor produces, the buffer always still holds the most recent
     min(total output, 32768) bytes in front of the write cursor - every legal deflate back-reference can be resolved;
   - DELIVERY (C01): the bytes handed to the client, concatenated over all calls, are exactly the bytes produced, in order;
   - BOUND (C06): the buffer never exceeds 2 * (COMPACT_FACTOR * LOOKBACK_SIZE + CHUNK_BUFFER_SIZE) bytes, whatever the stream inflates to. *)
From PngV Require Import Base.Bytes Gen.GenStream Model.ZlibBuf.
From Coq Require Import ZifyBool.
Local Arguments Z.add : simpl never.
Local Arguments Z.sub : simpl never.
Local Arguments Z.mul : simpl never.
Local Arguments Z.of_nat : simpl never.
Local Arguments Z.to_nat : simpl never.
Local Arguments Z.ltb : simpl never.
Local Arguments Z.leb : simpl never.
Local Arguments Z.max : simpl never.
Local Arguments Z.min : simpl never.

(* obligations on the regenerated constants: a source change that shrinks the look-back window below the deflate maximum,
   or makes the compaction threshold smaller than the window, breaks these *)
Lemma lookback_covers_deflate_window : 32768 <= LOOKBACK_SIZE.
Proof. unfold LOOKBACK_SIZE. lia. Qed.
Lemma compact_factor_ok : 1 <= COMPACT_FACTOR.
Proof. unfold COMPACT_FACTOR. lia. Qed.
Lemma chunk_positive : 0 < CHUNK_BUFFER_SIZE.
Proof. unfold CHUNK_BUFFER_SIZE. lia. Qed.

Definition THRESH : Z := LOOKBACK_SIZE * COMPACT_FACTOR.
Lemma thresh_ge_lookback : LOOKBACK_SIZE <= THRESH.
Proof. unfold THRESH. pose proof lookback_covers_deflate_window. pose proof compact_factor_ok. nia. Qed.

Definition BOUND : Z := 2 * (THRESH + CHUNK_BUFFER_SIZE).

(* invariant between calls; [hist] = everything the decompressor has produced so far *)
Definition ZInv (z : zbuf) (hist : list Z) : Prop :=
  zb_read z = zb_pos z /\ 0 <= zb_pos z <= zb_len z /\ zlen (zb_data z) = zb_pos z /\
  (exists pre, hist = pre ++ zb_data z) /\
  (zlen hist <= zb_pos z \/ 32768 <= zb_pos z) /\
  zb_len z <= BOUND /\ zb_pos z <= THRESH.

Lemma zinv_new : ZInv zb_new [].
Proof.
  unfold ZInv, zb_new, BOUND. cbn. pose proof thresh_ge_lookback. pose proof lookback_covers_deflate_window. pose proof chunk_positive.
  unfold zlen; cbn [length]. repeat split; try lia. exists []. reflexivity.
Qed.

Lemma prepare_props z : 0 <= zb_pos z <= zb_len z -> zb_len z <= BOUND -> zb_pos z <= THRESH ->
  let p := prepare z in
  zb_pos p = zb_pos z /\ zb_read p = zb_read z /\ zb_data p = zb_data z /\ zb_len z <= zb_len p /\ zb_len p <= BOUND.
Proof.
  intros Hp Hb Ht. unfold prepare. pose proof chunk_positive as Hc. pose proof thresh_ge_lookback. pose proof lookback_covers_deflate_window.
  set (mx := match zb_max z with Some m => if m <=? zb_pos z then None else Some m | None => None end).
  cbn [zb_len zb_pos zb_read zb_max zb_data].
  destruct (Z.leb_spec (min_opt (zb_pos z + CHUNK_BUFFER_SIZE) mx) (zb_len z)) as [Hle|Hgt]; cbn [zb_len zb_pos zb_read zb_max zb_data].
  - repeat split; lia.
  - unfold decoding_size. cbn [zb_max]. unfold BOUND in *. unfold min_opt in *. destruct mx as [m|]; repeat split; try reflexivity; lia.
Qed.

Lemma skipn_suffix {A} (n : nat) (l : list A) : exists pre, l = pre ++ skipn n l.
Proof. exists (firstn n l). symmetry. apply firstn_skipn. Qed.

Lemma zlen_app {A} (a b : list A) : zlen (a ++ b) = zlen a + zlen b.
Proof. unfold zlen. rewrite app_length. lia. Qed.

Lemma zlen_skipn {A} (n : nat) (l : list A) : zlen (skipn n l) = Z.max 0 (zlen l - Z.of_nat n).
Proof. unfold zlen. rewrite skipn_length. lia. Qed.

Lemma skipn_all_app {A} (a b : list A) : skipn (length a) (a ++ b) = b.
Proof. induction a as [|x a IH]; cbn [length skipn app]; [reflexivity | exact IH]. Qed.

(* one call: invariant preserved, and the client receives exactly the bytes produced by this call *)
Theorem zb_step_correct z hist new :
  ZInv z hist -> zlen new <= zb_room (prepare z) ->
  ZInv (fst (zb_step z new)) (hist ++ new) /\ snd (zb_step z new) = new.
Proof.
  intros (Hr & Hp & Hd & (pre & Hpre) & Hw & Hb & Ht) Hroom.
  destruct (prepare_props z Hp Hb Ht) as (P1 & P2 & P3 & P4 & P5).
  unfold zb_step, transfer, advance. cbn [zb_len zb_pos zb_read zb_max zb_data fst snd].
  unfold zb_room in Hroom. rewrite P1 in Hroom.
  assert (Hnn : 0 <= zlen new) by (unfold zlen; lia).
  split.
  - (* invariant *)
    rewrite P1, P3. unfold compact. cbn [zb_len zb_pos zb_read zb_max zb_data]. fold THRESH.
    pose proof thresh_ge_lookback as HT. pose proof lookback_covers_deflate_window as HL.
    destruct (Z.ltb_spec THRESH (zb_pos z + zlen new)) as [Hbig|Hsmall]; unfold ZInv; cbn [zb_len zb_pos zb_read zb_max zb_data].
    + (* compaction *)
      replace (Z.max 0 (zb_pos z + zlen new - LOOKBACK_SIZE)) with (zb_pos z + zlen new - LOOKBACK_SIZE) by lia.
      replace (zb_pos z + zlen new - (zb_pos z + zlen new - LOOKBACK_SIZE)) with LOOKBACK_SIZE by lia.
      repeat split; try lia.
      * rewrite zlen_skipn, zlen_app, Hd. lia.
      * destruct (skipn_suffix (Z.to_nat (zb_pos z + zlen new - LOOKBACK_SIZE)) (zb_data z ++ new)) as [q Hq].
        exists (pre ++ q). rewrite Hpre. rewrite <- !app_assoc. f_equal. exact Hq.
    + repeat split; try lia.
      * rewrite zlen_app, Hd. lia.
      * exists pre. rewrite Hpre. rewrite app_assoc. reflexivity.
      * rewrite zlen_app. destruct Hw as [Hw|Hw]; lia.
  - (* delivered *)
    rewrite P2, P3, Hr, <- Hd. unfold zlen. rewrite Nat2Z.id. apply skipn_all_app.
Qed.

(* every produced piece fits the free space offered by the call it was produced in (the decompressor never writes past the buffer) *)
Fixpoint fits (z : zbuf) (news : list (list Z)) : Prop :=
  match news with
  | [] => True
  | n :: rest => zlen n <= zb_room (prepare z) /\ fits (fst (zb_step z n)) rest
  end.

Theorem zb_run_correct : forall news z hist,
  ZInv z hist -> fits z news ->
  ZInv (fst (zb_run z news)) (hist ++ concat news) /\ snd (zb_run z news) = concat news.
Proof.
  induction news as [|n rest IH]; intros z hist HI Hf; cbn [zb_run concat fst snd].
  - rewrite app_nil_r. split; [exact HI | reflexivity].
  - destruct Hf as [Hn Hrest]. destruct (zb_step_correct z hist n HI Hn) as [HI1 Hout].
    destruct (zb_step z n) as [z1 o1] eqn:E1. cbn [fst snd] in *.
    specialize (IH z1 (hist ++ n) HI1 Hrest). destruct (zb_run z1 rest) as [z2 o2]. cbn [fst snd] in *.
    destruct IH as [HI2 Hout2]. rewrite <- app_assoc in HI2. split; [exact HI2 | rewrite Hout, Hout2; reflexivity].
Qed.

(* the three headline statements, from a fresh buffer *)
Theorem window_delivery_bound news :
  fits zb_new news ->
  let z := fst (zb_run zb_new news) in
  let produced := concat news in
  (* DELIVERY *) snd (zb_run zb_new news) = produced /\
  (* WINDOW   *) (exists pre, produced = pre ++ zb_data z) /\ (zlen produced <= zlen (zb_data z) \/ 32768 <= zlen (zb_data z)) /\
  (* BOUND    *) zb_len z <= BOUND /\ zlen (zb_data z) <= zb_len z.
Proof.
  intros Hf z produced. destruct (zb_run_correct news zb_new [] zinv_new Hf) as [(Hr & Hp & Hd & Hpre & Hw & Hb & Ht) Hout].
  cbn [app] in *. fold z in Hr, Hp, Hd, Hpre, Hw, Hb, Ht. rewrite Hd.
  repeat split; try assumption; lia.
Qed.

(* the bound as a number, for the constants of the current source *)
Lemma bound_value : BOUND = 2 * (LOOKBACK_SIZE * COMPACT_FACTOR + CHUNK_BUFFER_SIZE).
Proof. reflexivity. Qed.
