(* C01 for interlaced images: the executable model of the whole Adam7 decode (Model/Pipeline.v decode_adam7: the rows of the seven passes
   reconstructed one after the other - every pass filtered as an image of its own - and scattered into the zero-initialised image with
   expand_pass) yields the image in which pixel (x, y) is the pixel of the specification's reconstruction of the pass row it belongs to.
   The pixel part is C15 (expand_image_correct, on images as functions); this file adds the row part and the glue between the byte lists the
   executable model works on and those functions. *)
From PngV Require Import Base.Bytes Spec.FilterSpec Gen.GenPaeth Model.Filter Spec.Adam7Spec Gen.GenAdam7 Model.Adam7 Base.Crc Base.Inflate
     Model.Pipeline Proofs.PaethProofs Proofs.ListX Proofs.FilterProofs Proofs.FilterEncProofs Proofs.PipelineProofs Proofs.Adam7Proofs Proofs.Adam7Expand.

Local Arguments Z.add : simpl never.
Local Arguments Z.sub : simpl never.
Local Arguments Z.mul : simpl never.
Local Arguments Z.div : simpl never.
Local Arguments Z.modulo : simpl never.
Local Arguments Z.of_nat : simpl never.
Local Arguments Z.to_nat : simpl never.

(* ------------------------------------------------------------------ (a) the expansion of a row is local: byte k of the result depends on byte k
   of the destination only (and on the row) *)
Lemma upd_at m j v k : upd m j v k = if k =? j then v else m k.
Proof. reflexivity. Qed.

Lemma store_sub_local m m' pos px bits k : m k = m' k -> store_sub m pos px bits k = store_sub m' pos px bits k.
Proof.
  intro H. unfold store_sub. rewrite !upd_at. destruct (k =? pos / 8) eqn:E; [|exact H].
  apply Z.eqb_eq in E. subst k. rewrite H. reflexivity.
Qed.

Lemma store_bytes_local : forall px m m' base k, m k = m' k -> store_bytes m base px k = store_bytes m' base px k.
Proof.
  induction px as [|v px IH]; intros m m' base k H; cbn [store_bytes]; [exact H|].
  apply IH. rewrite !upd_at. destruct (k =? base); [reflexivity | exact H].
Qed.

Lemma expand_row_sub_local stride p line bits row : forall n m m' i k, m k = m' k ->
  match expand_row_sub m stride p line bits row i n, expand_row_sub m' stride p line bits row i n with
  | Some a, Some b => a k = b k
  | None, None => True
  | _, _ => False
  end.
Proof.
  induction n as [|n IH]; intros m m' i k H; cbn [expand_row_sub]; [exact H|].
  destruct (bit_pos stride p line i bits) as [pos|]; [|exact I].
  apply IH. apply store_sub_local. exact H.
Qed.

Lemma expand_row_bytes_local stride p line bits row : forall n m m' i k, m k = m' k ->
  match expand_row_bytes m stride p line bits row i n, expand_row_bytes m' stride p line bits row i n with
  | Some a, Some b => a k = b k
  | None, None => True
  | _, _ => False
  end.
Proof.
  induction n as [|n IH]; intros m m' i k H; cbn [expand_row_bytes]; [exact H|].
  destruct (bit_pos stride p line i bits) as [pos|]; [|exact I].
  apply IH. apply store_bytes_local. exact H.
Qed.

Lemma expand_pass_local m m' stride p line width bits row k : m k = m' k ->
  match expand_pass_model m stride p line width bits row, expand_pass_model m' stride p line width bits row with
  | Some a, Some b => a k = b k
  | None, None => True
  | _, _ => False
  end.
Proof. intro H. unfold expand_pass_model. destruct (bits <? 8); [apply expand_row_sub_local | apply expand_row_bytes_local]; exact H. Qed.

(* ... and on the bytes of the row it reads, so two rows that agree everywhere give the same result *)
Lemma expand_row_sub_row stride p line bits row row' : (forall j, row j = row' j) -> forall n m i,
  expand_row_sub m stride p line bits row i n = expand_row_sub m stride p line bits row' i n.
Proof.
  intro H. induction n as [|n IH]; intros m i; cbn [expand_row_sub]; [reflexivity|].
  destruct (bit_pos stride p line i bits) as [pos|]; [|reflexivity].
  unfold subbyte_pixel. rewrite H. apply IH.
Qed.

Lemma expand_row_bytes_row stride p line bits row row' : (forall j, row j = row' j) -> forall n m i,
  expand_row_bytes m stride p line bits row i n = expand_row_bytes m stride p line bits row' i n.
Proof.
  intro H. induction n as [|n IH]; intros m i; cbn [expand_row_bytes]; [reflexivity|].
  destruct (bit_pos stride p line i bits) as [pos|]; [|reflexivity].
  assert (E : row_pixel_bytes row (bits / 8) i = row_pixel_bytes row' (bits / 8) i).
  { unfold row_pixel_bytes. apply map_ext. intro a. apply H. }
  rewrite E. apply IH.
Qed.

(* ------------------------------------------------------------------ (b) byte lists and images as functions *)
Lemma zseq_from_nth : forall n s t, (t < n)%nat -> nth t (zseq_from s n) 0 = s + Z.of_nat t.
Proof.
  induction n as [|n IH]; intros s t H; [lia|]. destruct t as [|t]; cbn [zseq_from nth].
  - lia.
  - rewrite IH by lia. lia.
Qed.

Lemma list_of_img_len m len : 0 <= len -> zlen (list_of_img m len) = len.
Proof. intro H. unfold list_of_img, zlen, zseq. rewrite map_length, zseq_from_length. lia. Qed.

Lemma img_list_roundtrip m len k : 0 <= k < len -> img_of_list (list_of_img m len) k = m k.
Proof.
  intro H. unfold img_of_list, list_of_img, zseq.
  assert (E : (k <? 0) = false) by lia. rewrite E.
  rewrite (nth_indep _ 0 (m 0)) by (rewrite map_length, zseq_from_length; lia).
  rewrite map_nth. rewrite zseq_from_nth by lia. f_equal. lia.
Qed.

Lemma img_of_list_bytes l : bytes_ok l -> img_bytes (img_of_list l).
Proof.
  intros H k. unfold img_of_list. destruct (k <? 0); [lia|].
  destruct (Nat.lt_ge_cases (Z.to_nat k) (length l)) as [Hlt|Hge].
  - pose proof (proj1 (Forall_forall _ _) H (nth (Z.to_nat k) l 0) (nth_In _ _ Hlt)) as B. unfold byte_ok in B. lia.
  - rewrite nth_overflow by lia. lia.
Qed.

(* ------------------------------------------------------------------ (c) the row part: every pass is filtered as an image of its own *)
Definition legal_pairs : list (Z * Z) := [(0,1);(0,2);(0,4);(0,8);(0,16);(2,8);(2,16);(3,1);(3,2);(3,4);(3,8);(4,8);(4,16);(6,8);(6,16)].

(* the specification of the rows of an interlaced image: (pass, line, pixels, reconstructed bytes) in stream order *)
Fixpoint recon_passes (c d : Z) (rows : list (Z * Z * Z)) (prev stream : list Z) : outcome (list (Z * Z * Z * list Z)) perr :=
  match rows with
  | [] => Ok []
  | (p, l, lw) :: rows' =>
    let prev := if l =? 0 then [] else prev in
    match spec_rows (bpp_filter c d) (Z.to_nat (row_bytes_spec c d lw)) 1 prev stream with
    | Ok ([row], tl) =>
      match recon_passes c d rows' row tl with
      | Ok rs => Ok ((p, l, lw, row) :: rs)
      | Err e => Err e
      | Panic q => Panic q
      end
    | Ok _ => Panic 2
    | Err e => Err e
    | Panic q => Panic q
    end
  end.

(* the rows scattered one after the other into the destination (byte lists, as the executable model does it) *)
Fixpoint expand_list (stride bits : Z) (rs : list (Z * Z * Z * list Z)) (dest : list Z) : option (list Z) :=
  match rs with
  | [] => Some dest
  | (p, l, lw, row) :: rs' =>
    match expand_pass_exec dest stride p l lw bits row with
    | Some dest' => expand_list stride bits rs' dest'
    | None => None
    end
  end.

(* within a pass all rows have the same width, and a pass starts with line 0 *)
Fixpoint chain (lwprev : option Z) (rows : list (Z * Z * Z)) : Prop :=
  match rows with
  | [] => True
  | (p, l, lw) :: r => (l = 0 \/ lwprev = Some lw) /\ chain (Some lw) r
  end.

Lemma chain_app : forall a b o, chain o a -> (forall o', chain o' b) -> chain o (a ++ b).
Proof.
  induction a as [|[[p l] lw] a IH]; intros b o Ha Hb; cbn [app chain] in *; [apply Hb|].
  destruct Ha as [H1 H2]. split; [exact H1 | apply IH; assumption].
Qed.

Lemma chain_pass_from p lw : forall n s, chain (Some lw) (map (fun l => (p, l, lw)) (zseq_from s n)).
Proof. induction n as [|n IH]; intro s; cbn [zseq_from map chain]; [exact I|]. split; [right; reflexivity | apply IH]. Qed.

Lemma chain_rows_of_pass w h p o : chain o (rows_of_pass w h p).
Proof.
  unfold rows_of_pass. destruct (pass_dims w h p) as [[lw ln]|]; [|exact I]. destruct (0 <? lw); [|exact I].
  unfold zseq. destruct (Z.to_nat ln) as [|n]; [exact I|]. cbn [zseq_from map chain]. split; [left; reflexivity | apply chain_pass_from].
Qed.

Lemma rows_model_chain w h o : chain o (rows_model w h).
Proof.
  unfold rows_model. cbn [flat_map]. rewrite app_nil_r.
  repeat (apply chain_app; [apply chain_rows_of_pass | intro]). apply chain_rows_of_pass.
Qed.

Definition prev_fits (c d : Z) (lwprev : option Z) (prev : list Z) : Prop :=
  bytes_ok prev /\ match lwprev with None => True | Some lw0 => length prev = Z.to_nat (row_bytes_spec c d lw0) end.

Lemma spec_rows_one bpp rl prev stream rows tl :
  spec_rows bpp rl 1 prev stream = Ok (rows, tl) -> exists row, rows = [row] /\ length row = rl /\ (bytes_ok stream -> bytes_ok row /\ bytes_ok tl).
Proof.
  cbn [spec_rows]. destruct stream as [|ft rest]; [discriminate|].
  destruct (length rest <? rl)%nat eqn:E; [discriminate|]. destruct (ftype_of_Z ft) as [f|]; [|discriminate].
  intro Q; inversion Q; subst. eexists; split; [reflexivity|]. apply Nat.ltb_ge in E.
  split; [rewrite recon_spec_length; apply firstn_len_exact; exact E|].
  intro Hs. inversion Hs; subst. split; [apply recon_win_bytes | apply Forall_skipn; assumption].
Qed.

(* THE ROW PART: when the executable model delivers an image, the rows it scattered are the specification's reconstruction of every pass *)
Lemma decode_passes_ok (P : Z -> Z -> Z -> Z) :
  (forall a b c, byte_ok a -> byte_ok b -> byte_ok c -> P a b c = paeth_spec a b c) ->
  forall c d stride, In (c, d) legal_pairs ->
  forall rows lwprev prev stream dest img,
    Forall (fun r => 0 <= snd r) rows -> chain lwprev rows -> prev_fits c d lwprev prev -> bytes_ok stream ->
    decode_passes P c d stride rows prev stream dest = Ok img ->
    exists rs, recon_passes c d rows prev stream = Ok rs /\ expand_list stride (bits_pp c d) rs dest = Some img /\
               map (fun r => (fst (fst (fst r)), snd (fst (fst r)), snd (fst r))) rs = rows /\
               Forall (fun r => bytes_ok (snd r)) rs.
Proof.
  intros HP c d stride Hcd.
  assert (Hb : (0 < bpp_filter c d)%nat) by (unfold bpp_filter; lia).
  induction rows as [|[[p l] lw] rows IH]; intros lwprev prev stream dest img Hpos Hch [Hpb Hpl] Hs; cbn [decode_passes recon_passes].
  - intro Q; inversion Q; subst. exists []. repeat split; constructor.
  - destruct Hch as [Hl Hch]. pose proof (Forall_inv Hpos) as Hlw. cbn [snd] in Hlw. pose proof (Forall_inv_tail Hpos) as Hpos'.
    destruct (row_bytes_multiple c d lw Hlw Hcd) as [k Hk]. rewrite Hk.
    set (prev' := if l =? 0 then [] else prev).
    assert (Hp' : bytes_ok prev' /\ (prev' = [] \/ length prev' = (k * bpp_filter c d)%nat)).
    { unfold prev'. destruct (l =? 0) eqn:El; [split; [constructor | left; reflexivity]|].
      split; [exact Hpb|]. right. destruct Hl as [Hl|Hl]; [lia|]. subst lwprev. rewrite Hpl. exact Hk. }
    destruct Hp' as [Hpb' Hpl'].
    rewrite (unfilter_rows_spec P HP (bpp_filter c d) k Hb 1 prev' stream Hs Hpb' Hpl').
    destruct (spec_rows (bpp_filter c d) (k * bpp_filter c d) 1 prev' stream) as [[rws tl]|e|q] eqn:E; try discriminate.
    destruct (spec_rows_one _ _ _ _ _ _ E) as (row & -> & Hrl & Hbs). destruct (Hbs Hs) as [Hrb Htb].
    destruct (expand_pass_exec dest stride p l lw (bits_pp c d) row) as [dest'|] eqn:X; [|discriminate].
    intro Q.
    assert (Hfit : prev_fits c d (Some lw) row) by (split; [exact Hrb | rewrite Hk; exact Hrl]).
    destruct (IH (Some lw) row tl dest' img Hpos' Hch Hfit Htb Q) as (rs & R & Ex & Mp & Fb).
    exists ((p, l, lw, row) :: rs). rewrite R. split; [reflexivity|]. split; [cbn [expand_list]; rewrite X; exact Ex|].
    split; [cbn [map fst snd]; rewrite Mp; reflexivity | constructor; [exact Hrb | exact Fb]].
Qed.

(* ------------------------------------------------------------------ (d) the rows of an interlaced image are identified by (pass, line) *)
Definition key_of (r : Z * Z * Z) : Z * Z := (fst (fst r), snd (fst r)).

Lemma zseq_from_ge : forall n s t, In t (zseq_from s n) -> s <= t.
Proof.
  induction n as [|n IH]; intros s t H; cbn [zseq_from In] in H; [contradiction|].
  destruct H as [H|H]; [lia | specialize (IH _ _ H); lia].
Qed.

Lemma rows_of_pass_keys w h p : NoDup (map key_of (rows_of_pass w h p)) /\ (forall r, In r (rows_of_pass w h p) -> fst (fst r) = p).
Proof.
  unfold rows_of_pass. destruct (pass_dims w h p) as [[lw ln]|]; [|split; [constructor | intros r []]].
  destruct (0 <? lw); [|split; [constructor | intros r []]]. split.
  - rewrite map_map. cbn [key_of fst snd]. unfold zseq. generalize (Z.to_nat ln) as n. generalize 0 as s.
    intros s n. revert s. induction n as [|n IH]; intro s; cbn [zseq_from map]; [constructor|].
    constructor; [|apply IH]. intro H. apply in_map_iff in H. destruct H as (x & E & Hin). inversion E; subst x.
    pose proof (zseq_from_ge _ _ _ Hin). lia.
  - intros r H. apply in_map_iff in H. destruct H as (x & <- & _). reflexivity.
Qed.

Lemma NoDup_app_disjoint {A} (a b : list A) : NoDup a -> NoDup b -> (forall x, In x a -> ~ In x b) -> NoDup (a ++ b).
Proof.
  induction a as [|x a IH]; intros Ha Hb Hd; [exact Hb|]. inversion Ha; subst. cbn [app]. constructor.
  - intro H. apply in_app_or in H. destruct H as [H|H]; [contradiction | exact (Hd x (or_introl eq_refl) H)].
  - apply IH; [assumption | assumption | intros y Hy; apply Hd; right; exact Hy].
Qed.

Lemma map_flat_map {A B C} (g : B -> C) (f : A -> list B) l : map g (flat_map f l) = flat_map (fun x => map g (f x)) l.
Proof. induction l as [|x l IH]; cbn [flat_map map]; [reflexivity|]. rewrite map_app, IH. reflexivity. Qed.

Lemma pass_keys_nodup w h : forall ps, NoDup ps -> NoDup (flat_map (fun p => map key_of (rows_of_pass w h p)) ps).
Proof.
  induction ps as [|p ps IH]; intro Hn; cbn [flat_map]; [constructor|]. inversion Hn as [|? ? Hnot Hn']; subst.
  apply NoDup_app_disjoint; [apply (proj1 (rows_of_pass_keys w h p)) | apply IH; exact Hn' |].
  intros x H1 H2. apply in_flat_map in H2. destruct H2 as (q & Hq & H2).
  apply in_map_iff in H1. apply in_map_iff in H2. destruct H1 as (r1 & E1 & I1). destruct H2 as (r2 & E2 & I2).
  pose proof (proj2 (rows_of_pass_keys w h p) r1 I1) as F1. pose proof (proj2 (rows_of_pass_keys w h q) r2 I2) as F2.
  subst x. unfold key_of in E2. inversion E2. apply Hnot. congruence.
Qed.

Lemma rows_model_keys_nodup w h : NoDup (map key_of (rows_model w h)).
Proof.
  unfold rows_model. rewrite map_flat_map. apply pass_keys_nodup.
  repeat constructor; cbn; intuition discriminate.
Qed.

Lemma rows_model_nodup w h : NoDup (rows_model w h).
Proof. apply (NoDup_map_inv key_of). apply rows_model_keys_nodup. Qed.

Fixpoint lookup_row (rs : list (Z * Z * Z * list Z)) (p l : Z) : list Z :=
  match rs with
  | [] => []
  | (p', l', lw, row) :: r => if (p =? p') && (l =? l') then row else lookup_row r p l
  end.

Definition rkey (r : Z * Z * Z * list Z) : Z * Z := (fst (fst (fst r)), snd (fst (fst r))).

Lemma lookup_row_in : forall rs p l lw row, NoDup (map rkey rs) -> In (p, l, lw, row) rs -> lookup_row rs p l = row.
Proof.
  induction rs as [|[[[p' l'] lw'] row'] rs IH]; intros p l lw row Hn Hin; [contradiction|].
  cbn [lookup_row]. inversion Hn as [|? ? Hnot Hn']; subst. destruct Hin as [E|Hin].
  - inversion E; subst. rewrite !Z.eqb_refl. reflexivity.
  - destruct ((p =? p') && (l =? l')) eqn:Ek.
    + exfalso. apply andb_true_iff in Ek. destruct Ek as [E1 E2]. apply Z.eqb_eq in E1. apply Z.eqb_eq in E2. subst p' l'.
      apply Hnot. apply in_map_iff. exists (p, l, lw, row). split; [reflexivity | exact Hin].
    + apply (IH p l lw row Hn' Hin).
Qed.

(* ------------------------------------------------------------------ (e) byte lists versus images as functions, over all the rows *)
Section Glue.
  Variables (stride bits len : Z).
  Variable rowf : Z -> Z -> Z -> Z.
  Hypothesis Hlen : 0 <= len.

  Definition proj3 (r : Z * Z * Z * list Z) : Z * Z * Z := (fst (fst (fst r)), snd (fst (fst r)), snd (fst r)).

  Lemma expand_pass_row_ext m p l lw row row' : (forall j, row j = row' j) ->
    expand_pass_model m stride p l lw bits row = expand_pass_model m stride p l lw bits row'.
  Proof. intro H. unfold expand_pass_model. destruct (bits <? 8); [apply expand_row_sub_row | apply expand_row_bytes_row]; exact H. Qed.

  Lemma glue : forall rs dest img M0,
    (forall k, 0 <= k < len -> img_of_list dest k = M0 k) -> zlen dest = len ->
    (forall p l lw row, In (p, l, lw, row) rs -> forall j, rowf p l j = img_of_list row j) ->
    expand_list stride bits rs dest = Some img ->
    exists M, expand_all M0 stride bits rowf (map proj3 rs) = Some M /\ (forall k, 0 <= k < len -> img_of_list img k = M k) /\ zlen img = len.
  Proof.
    induction rs as [|[[[p l] lw] row] rs IH]; intros dest img M0 Hag Hl Hrow; cbn [expand_list map expand_all proj3 fst snd].
    - intro Q. assert (E : dest = img) by congruence. subst img. exists M0. split; [reflexivity|]. split; [exact Hag | exact Hl].
    - unfold expand_pass_exec.
      destruct (expand_pass_model (img_of_list dest) stride p l lw bits (img_of_list row)) as [m1|] eqn:E1; [|discriminate].
      rewrite (expand_pass_row_ext M0 p l lw (rowf p l) (img_of_list row) (Hrow p l lw row (or_introl eq_refl))).
      destruct (expand_pass_model M0 stride p l lw bits (img_of_list row)) as [M1|] eqn:E2.
      + intro Q. apply (IH (list_of_img m1 (zlen dest)) img M1).
        * intros k Hk. rewrite img_list_roundtrip by lia.
          pose proof (expand_pass_local (img_of_list dest) M0 stride p l lw bits (img_of_list row) k (Hag k Hk)) as L. rewrite E1, E2 in L. exact L.
        * rewrite list_of_img_len by lia. exact Hl.
        * intros p0 l0 lw0 row0 Hin. apply (Hrow p0 l0 lw0 row0). right. exact Hin.
        * exact Q.
      + exfalso. destruct (Z.eq_dec len 0) as [Z0|NZ].
        * (* no byte to compare: use byte 0 of both sides all the same *)
          pose proof (expand_pass_local (img_of_list dest) (img_of_list dest) stride p l lw bits (img_of_list row) 0 eq_refl) as L0. clear L0.
          (* whether the expansion panics does not depend on the destination at all *)
          assert (G : forall m m', match expand_pass_model m stride p l lw bits (img_of_list row), expand_pass_model m' stride p l lw bits (img_of_list row) with
                                   | Some _, Some _ => True | None, None => True | _, _ => False end).
          { intros m m'. unfold expand_pass_model. destruct (bits <? 8).
            - generalize 0 as i. generalize (Z.to_nat lw) as n. intros n. revert m m'. induction n as [|n IHn]; intros m m' i; cbn [expand_row_sub]; [exact I|].
              destruct (bit_pos stride p l i bits); [apply IHn | exact I].
            - generalize 0 as i. generalize (Z.to_nat lw) as n. intros n. revert m m'. induction n as [|n IHn]; intros m m' i; cbn [expand_row_bytes]; [exact I|].
              destruct (bit_pos stride p l i bits); [apply IHn | exact I]. }
          specialize (G (img_of_list dest) M0). rewrite E1, E2 in G. exact G.
        * pose proof (expand_pass_local (img_of_list dest) M0 stride p l lw bits (img_of_list row) 0 (Hag 0 ltac:(lia))) as L. rewrite E1, E2 in L. exact L.
  Qed.
End Glue.

(* ------------------------------------------------------------------ (f) the whole interlaced image *)
Lemma lookup_row_bytes : forall rs p l, Forall (fun r => bytes_ok (snd r)) rs -> bytes_ok (lookup_row rs p l).
Proof.
  induction rs as [|[[[p' l'] lw] row] rs IH]; intros p l H; cbn [lookup_row]; [constructor|].
  inversion H; subst. destruct ((p =? p') && (l =? l')); [assumption | apply IH; assumption].
Qed.

Lemma legal_pair_bits c d : In (c, d) legal_pairs -> legal_bits (bits_pp c d).
Proof.
  unfold legal_pairs. cbn [In]. intro H.
  repeat (destruct H as [H|H]; [inversion H; subst; unfold legal_bits, sub_bits, byte_bits, bits_pp, nsamp; cbn; lia|]). contradiction.
Qed.

Lemma img_of_zeros n k : img_of_list (repeatz 0 n) k = 0.
Proof.
  unfold img_of_list. destruct (k <? 0); [reflexivity|]. generalize (Z.to_nat k) as t. induction n as [|n IH]; intro t; destruct t; cbn; try reflexivity. apply IH.
Qed.

(* pixel (x, y), bit j, of the image made of the reconstructed pass rows [rs] *)
Definition src_of (bits : Z) (rs : list (Z * Z * Z * list Z)) (x y j : Z) : bool :=
  let p := pass_of x y in
  match assocz p expand_table with
  | Some (lm, lo, sm, so) => get_bit (img_of_list (lookup_row rs p ((y - lo) / lm))) (((x - so) / sm) * bits + j)
  | None => false
  end.

(* THE THEOREM: for each of the 15 legal colour/depth pairs, every image size and every inflated stream, when the model of the interlaced decode
   delivers an image then (1) the rows it used are the specification's reconstruction of the seven pass images (each filtered on its own),
   (2) the image has height x row-bytes bytes, (3) pixel (x, y) holds, bit for bit, pixel (x - so)/sm of line (y - lo)/lm of the pass that the
   8x8 Adam7 pattern assigns to (x, y), and (4) every bit that belongs to no pixel (the padding at the end of each row) is zero *)
Theorem decode_adam7_spec (P : Z -> Z -> Z -> Z) :
  (forall a b c, byte_ok a -> byte_ok b -> byte_ok c -> P a b c = paeth_spec a b c) ->
  forall c d w h stream img,
    In (c, d) legal_pairs -> 0 < w < 4294967296 -> 0 < h < 4294967296 -> bytes_ok stream ->
    decode_adam7 P c d w h stream = Ok img ->
    let bits := bits_pp c d in
    let stride := row_bytes_spec c d w in
    exists rs,
      recon_passes c d (rows_model w h) [] stream = Ok rs /\
      zlen img = stride * h /\
      (forall x y j, 0 <= x < w -> 0 <= y < h -> 0 <= j < bits ->
         get_bit (img_of_list img) (y * stride * 8 + x * bits + j) = src_of bits rs x y j) /\
      (forall q, 0 <= q < stride * h * 8 ->
         (forall x y, 0 <= x < w -> 0 <= y < h -> ~ (y * stride * 8 + x * bits <= q < y * stride * 8 + x * bits + bits)) ->
         get_bit (img_of_list img) q = false).
Proof.
  intros HP c d w h stream img Hcd Hw Hh Hs D bits stride.
  pose proof (legal_pair_bits c d Hcd) as Hbits. fold bits in Hbits.
  pose proof (legal_bits_pos bits Hbits) as Hbp.
  assert (Hfit : w * bits <= stride * 8) by (unfold stride, row_bytes_spec; fold bits; Z.div_mod_to_equations; lia).
  assert (Hst : 0 <= stride) by nia.
  unfold decode_adam7 in D. fold stride in D.
  set (dest0 := repeatz 0 (Z.to_nat (stride * h))) in D.
  assert (Hpos : Forall (fun r => 0 <= snd r) (rows_model w h)).
  { apply Forall_forall. intros [[p l] lw] Hin. destruct (rows_sound w h p l lw Hw Hh Hin) as (_ & Hlw & _). cbn. lia. }
  destruct (decode_passes_ok P HP c d stride Hcd (rows_model w h) None [] stream dest0 img Hpos (rows_model_chain w h None)
              (conj (Forall_nil _) I) Hs D) as (rs & R & Ex & Mp & Fb).
  exists rs. split; [exact R|].
  assert (Mp3 : map proj3 rs = rows_model w h) by (rewrite <- Mp; apply map_ext; intros [[[? ?] ?] ?]; reflexivity).
  assert (Hk : NoDup (map rkey rs)).
  { replace (map rkey rs) with (map key_of (map proj3 rs)) by (rewrite map_map; apply map_ext; intros [[[? ?] ?] ?]; reflexivity).
    rewrite Mp3. apply rows_model_keys_nodup. }
  set (rowf := fun p l => img_of_list (lookup_row rs p l)).
  assert (Hlen0 : 0 <= stride * h) by nia.
  destruct (glue stride bits (stride * h) rowf Hlen0 rs dest0 img (img_of_list dest0)) as (M & EA & Ag & Li).
  { intros; reflexivity. }
  { unfold dest0, zlen. rewrite repeatz_length. lia. }
  { intros p l lw row Hin j. unfold rowf. rewrite (lookup_row_in rs p l lw row Hk Hin). reflexivity. }
  { exact Ex. }
  rewrite Mp3 in EA. split; [exact Li|].
  (* the pixel part: C15 on images as functions *)
  assert (Hrow_bytes : forall p l lw, In (p, l, lw) (rows_model w h) -> img_bytes (rowf p l)).
  { intros p l lw _. unfold rowf. apply img_of_list_bytes. apply lookup_row_bytes. exact Fb. }
  assert (Hrow_src : forall p l lw lm lo sm so, In (p, l, lw) (rows_model w h) -> assocz p expand_table = Some (lm, lo, sm, so) ->
            forall i j, 0 <= i < lw -> 0 <= j < bits -> get_bit (rowf p l) (i * bits + j) = src_of bits rs (i * sm + so) (lm * l + lo) j).
  { intros p l lw lm lo sm so Hin He i j Hi Hj.
    destruct (rows_sound w h p l lw Hw Hh Hin) as (Hp & Hlw & Hl & lm1 & lo1 & sm1 & so1 & He1 & _ & _ & Hpass).
    rewrite He in He1. inversion He1; subst lm1 lo1 sm1 so1. clear He1.
    destruct (expand_total p Hp) as (lm1 & lo1 & sm1 & so1 & He1 & Hsm & Hlm & _ & _).
    rewrite He in He1. inversion He1; subst lm1 lo1 sm1 so1. clear He1.
    unfold src_of. rewrite (Hpass i Hi), He.
    replace ((lm * l + lo - lo) / lm) with l by (replace (lm * l + lo - lo) with (l * lm) by lia; rewrite Z.div_mul; lia).
    replace ((i * sm + so - so) / sm) with i by (replace (i * sm + so - so) with (i * sm) by lia; rewrite Z.div_mul; lia).
    reflexivity. }
  assert (Hm0 : img_bytes (img_of_list dest0)) by (intro k; unfold dest0; rewrite img_of_zeros; lia).
  destruct (expand_image_correct w h stride bits (src_of bits rs) rowf Hw Hh Hbits Hfit Hrow_bytes Hrow_src (img_of_list dest0) (rows_model w h)
              Hm0 (rows_model_nodup w h) (fun r => conj (fun H => H) (fun H => H))) as (M' & EA' & Hpix & Hkeep).
  rewrite EA in EA'. inversion EA'; subst M'. clear EA'.
  assert (Bit : forall q, 0 <= q < stride * h * 8 -> get_bit (img_of_list img) q = get_bit M q).
  { intros q Hq. unfold get_bit. rewrite (Ag (q / 8)) by (Z.div_mod_to_equations; lia). reflexivity. }
  split.
  - intros x y j Hx Hy Hj. rewrite Bit; [apply Hpix; assumption|].
    assert (x * bits + j < w * bits) by nia. assert (y * stride * 8 + stride * 8 <= h * stride * 8) by nia. nia.
  - intros q Hq Hout. rewrite Bit by exact Hq. rewrite (Hkeep q ltac:(lia) Hout). unfold get_bit, dest0. rewrite img_of_zeros. apply Z.testbit_0_l.
Qed.

(* for the predictor compiled on x86-64 (the one the executable model decode_frame runs) and the one compiled elsewhere *)
Definition decode_adam7_spec_x86 := decode_adam7_spec filter_paeth_decode_x86_64 paeth_decode_x86_eq.
Definition decode_adam7_spec_other := decode_adam7_spec filter_paeth_decode_other paeth_decode_other_eq.

(* non-vacuity: a 3x3 8-bit grey image whose pass rows (all filter type 0) carry the pixels 1..9 in stream order: the model delivers the
   de-interlaced image *)
Example decode_adam7_demo :
  rows_model 3 3 = [(1, 0, 1); (4, 0, 1); (5, 0, 2); (6, 0, 1); (6, 1, 1); (7, 0, 3)] /\
  decode_adam7 filter_paeth_decode_x86_64 0 8 3 3 [0; 1;  0; 2;  0; 3; 4;  0; 5;  0; 6;  0; 7; 8; 9] = Ok [1; 5; 2;  7; 8; 9;  3; 6; 4].
Proof. vm_compute. split; reflexivity. Qed.
