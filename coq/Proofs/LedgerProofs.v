(* C06 (partial): the allocation ledger of the L0 stream machine.  For every reachable state of the decoder model, whatever the
   input declares (dimensions, chunk lengths, number of chunks, expansion ratio of embedded streams):
     - the remaining budget never goes negative and never grows;
     - accounted metadata + capacity of the chunk body buffer + remaining budget <= L + CHUNK_BUFFER_SIZE;
     - the chunk body buffer never holds more than its capacity.
   Hence: chunk buffer <= L + 32 KiB, accounted metadata (PLTE, tRNS, sBIT, iCCP profile, text payloads) <= L, independent of the file. *)
From PngV Require Import Base.Bytes Base.Crc Gen.GenStream Model.Stream Model.StreamRun Proofs.StreamProofs.
From RecordUpdate Require Import RecordSet.
Import RecordSetNotations.
From Coq Require Import ZifyBool.
Local Arguments Z.add : simpl never.
Local Arguments Z.sub : simpl never.
Local Arguments Z.of_nat : simpl never.
Local Arguments Z.ltb : simpl never.
Local Arguments Z.leb : simpl never.

Definition accounted (k : akey) : bool :=
  match k with KPalette | KTrns | KSbit | KIccp => true | _ => false end.
Fixpoint anc_size (l : list (akey * list Z)) : Z :=
  match l with [] => 0 | (k, v) :: r => (if accounted k then zlen v else 0) + anc_size r end.
Definition text_size (t : textrec) : Z := zlen (t_keyword t) + zlen (t_lang t) + zlen (t_trans t) + zlen (t_payload t).
Fixpoint texts_size (l : list textrec) : Z := match l with [] => 0 | t :: r => text_size t + texts_size r end.
Definition acct (i : info_t) : Z := anc_size (i_anc i) + texts_size (i_text i).

Lemma texts_size_app a b : texts_size (a ++ b) = texts_size a + texts_size b.
Proof. induction a as [|t a IH]; cbn [app texts_size]; [lia | rewrite IH; lia]. Qed.
Lemma zlen_nonneg {A} (l : list A) : 0 <= zlen l. Proof. unfold zlen. lia. Qed.
Lemma anc_size_nonneg l : 0 <= anc_size l.
Proof. induction l as [|[k v] l IH]; cbn [anc_size]; [lia|]. pose proof (zlen_nonneg v). destruct (accounted k); lia. Qed.
Lemma texts_size_nonneg l : 0 <= texts_size l.
Proof. induction l as [|t l IH]; cbn [texts_size]; [lia|]. unfold text_size.
  pose proof (zlen_nonneg (t_keyword t)); pose proof (zlen_nonneg (t_lang t)); pose proof (zlen_nonneg (t_trans t)); pose proof (zlen_nonneg (t_payload t)). lia. Qed.
Lemma acct_nonneg i : 0 <= acct i.
Proof. unfold acct. pose proof (anc_size_nonneg (i_anc i)). pose proof (texts_size_nonneg (i_text i)). lia. Qed.

Definition Inv (L : Z) (s : dstate) : Prop :=
  0 <= budget s /\ acct (the_info s) + c_cap s + budget s <= L + CHUNK_BUFFER_SIZE /\ zlen (c_raw s) <= c_cap s /\ CHUNK_BUFFER_SIZE <= c_cap s.

(* what one step may do to the ledger *)
Definition rel (s s' : dstate) : Prop :=
  budget s' <= budget s /\ (0 <= budget s -> 0 <= budget s') /\
  acct (the_info s') + c_cap s' + budget s' <= acct (the_info s) + c_cap s + budget s /\
  (zlen (c_raw s) <= c_cap s -> zlen (c_raw s') <= c_cap s') /\ c_cap s <= c_cap s'.

Lemma rel_refl s : rel s s. Proof. unfold rel. lia. Qed.
Lemma rel_trans a b c : rel a b -> rel b c -> rel a c. Proof. unfold rel. intuition lia. Qed.
Lemma rel_inv L s s' : Inv L s -> rel s s' -> Inv L s'. Proof. unfold Inv, rel. intuition lia. Qed.

(* a step that changes neither info, budget, capacity nor (the length of) the raw buffer beyond the capacity *)
Lemma rel_same s s' : the_info s' = the_info s -> budget s' = budget s -> c_cap s' = c_cap s -> zlen (c_raw s') <= zlen (c_raw s) -> rel s s'.
Proof. unfold rel. intros E1 E2 E3 E4. rewrite E1, E2, E3. lia. Qed.

Lemma reserve_ok2 (s : dstate) n a : reserve s n = Ok a -> a = s <| budget := budget s - n |> /\ n <= budget s.
Proof. unfold reserve. destruct (Z.leb_spec n (budget s)) as [Hle|Hgt]; intro Hq; inversion Hq; split; [reflexivity | assumption]. Qed.

Section WithInflate.
Variable zinf : bool -> list Z -> list Z * dstatus.
Variable zall : list Z -> option (list Z).
Variable utf8_valid : list Z -> bool.
Notation next_state := (next_state zinf zall utf8_valid).
Notation update_fuel := (update_fuel zinf zall utf8_valid).
Notation update := (update zinf zall utf8_valid).
Notation parse_chunk := (parse_chunk zall utf8_valid).
Notation parse_u32 := (parse_u32 zinf).

Ltac destr_matches :=
  repeat match goal with
         | |- context [match ?x with _ => _ end] => destruct x eqn:?
         | |- context [if ?x then _ else _] => destruct x eqn:?
         end.
Ltac reserve_subst2 :=
  repeat match goal with H : reserve _ _ = Ok _ |- _ => apply reserve_ok2 in H; destruct H as [? ?]; subst end.
Ltac nonneg_facts :=
  repeat match goal with
         | |- context [zlen ?l] => lazymatch goal with | _ : 0 <= zlen l |- _ => fail | _ => pose proof (zlen_nonneg l) end
         end.
Ltac parser_rel f :=
  intros s; unfold f, upd_info, anc_set, add_text, obind; destr_matches; reserve_subst2; cbn [fst];
  try apply rel_refl; unfold rel, acct, the_info; cbn in *; rewrite ?texts_size_app; cbn; unfold text_size; cbn; nonneg_facts; unfold zlen in *; cbn [length] in *; try lia.

Lemma rel_sbit s : rel s (fst (parse_sbit s)). Proof. revert s. parser_rel parse_sbit. Qed.
Lemma rel_plte s : rel s (fst (parse_plte s)). Proof. revert s. parser_rel parse_plte. Qed.
Lemma rel_phys s : rel s (fst (parse_phys s)). Proof. revert s. parser_rel parse_phys. Qed.
Lemma rel_gama s : rel s (fst (parse_gama s)). Proof. revert s. parser_rel parse_gama. Qed.
Lemma rel_actl s : rel s (fst (parse_actl s)). Proof. revert s. parser_rel parse_actl. Qed.
Lemma rel_chrm s : rel s (fst (parse_chrm s)). Proof. revert s. parser_rel parse_chrm. Qed.
Lemma rel_srgb s : rel s (fst (parse_srgb s)). Proof. revert s. parser_rel parse_srgb. Qed.
Lemma rel_cicp s : rel s (fst (parse_cicp s)). Proof. revert s. parser_rel parse_cicp. Qed.
Lemma rel_clli s : rel s (fst (parse_clli s)). Proof. revert s. parser_rel parse_clli. Qed.
Lemma rel_mdcv s : rel s (fst (parse_mdcv s)). Proof. revert s. parser_rel parse_mdcv. Qed.
Lemma rel_exif s : rel s (fst (parse_exif s)). Proof. revert s. parser_rel parse_exif. Qed.
Lemma rel_bkgd s : rel s (fst (parse_bkgd s)). Proof. revert s. parser_rel parse_bkgd. Qed.


Lemma rel_trns s : rel s (fst (parse_trns s)). Proof. revert s. parser_rel parse_trns. Qed.

Lemma find0_bound (l : list Z) k : find0 l = Some k -> (k < length l)%nat.
Proof.
  revert k. induction l as [|x l IH]; cbn [find0 length]; intros k H; [discriminate|].
  destruct (x =? 0); [injection H as <-; lia|]. destruct (find0 l) as [j|]; cbn in H; [|discriminate].
  injection H as <-. specialize (IH j eq_refl). lia.
Qed.
Lemma split_len (l : list Z) k : (k < length l)%nat -> zlen (firstn k l) + zlen (skipn (S k) l) + 1 = zlen l.
Proof. intro H. unfold zlen. rewrite firstn_length, skipn_length. lia. Qed.
Lemma split_keyword_len buf kw v : split_keyword buf = Ok (kw, v) -> zlen kw + zlen v + 1 = zlen buf.
Proof.
  unfold split_keyword. destruct (find0 buf) as [k|] eqn:E; [|discriminate]. destruct (_ || _); [discriminate|].
  intro H. injection H as <- <-. apply split_len. exact (find0_bound _ _ E).
Qed.

Lemma rel_drop s n : 0 <= n -> n <= budget s -> rel s (s <| budget := budget s - n |>).
Proof. intros H0 H1. unfold rel, the_info. destruct s; cbn in *. lia. Qed.

Lemma rel_add_text s n t : 0 <= n -> n <= budget s -> text_size t <= n ->
  rel s (add_text (s <| budget := budget s - n |>) t).
Proof.
  intros H0 H1 H2. unfold rel, add_text, upd_info, acct, the_info. destruct s. cbn in *. rewrite texts_size_app. cbn [texts_size].
  destruct info; cbn; lia.
Qed.

Lemma rel_text s : rel s (fst (parse_text s)).
Proof.
  unfold parse_text. destruct (reserve s (zlen (c_raw s))) as [s1| |] eqn:R; cbn [fst]; try apply rel_refl.
  apply reserve_ok2 in R. destruct R as [-> Hle]. pose proof (zlen_nonneg (c_raw s)) as Hnn.
  replace (c_raw (s <| budget := budget s - zlen (c_raw s) |>)) with (c_raw s) by (destruct s; reflexivity).
  destruct (split_keyword (c_raw s)) as [[kw v]| |] eqn:E; cbn [fst]; try (apply rel_drop; assumption).
  apply split_keyword_len in E. apply rel_add_text; try assumption. unfold text_size. cbn [t_keyword t_lang t_trans t_payload]. unfold zlen in *. cbn [length]. lia.
Qed.

Lemma rel_ztxt s : rel s (fst (parse_ztxt s)).
Proof.
  unfold parse_ztxt. destruct (reserve s (zlen (c_raw s))) as [s1| |] eqn:R; cbn [fst]; try apply rel_refl.
  apply reserve_ok2 in R. destruct R as [-> Hle]. pose proof (zlen_nonneg (c_raw s)) as Hnn.
  replace (c_raw (s <| budget := budget s - zlen (c_raw s) |>)) with (c_raw s) by (destruct s; reflexivity).
  destruct (split_keyword (c_raw s)) as [[kw v]| |] eqn:E; cbn [fst]; try (apply rel_drop; assumption).
  destruct v as [|m txt]; cbn [fst]; [apply rel_drop; assumption|]. destruct (negb (m =? 0)); cbn [fst]; [apply rel_drop; assumption|].
  apply split_keyword_len in E. apply rel_add_text; try assumption. unfold text_size. cbn [t_keyword t_lang t_trans t_payload]. unfold zlen in *. cbn [length] in *. lia.
Qed.

Lemma rel_itxt s : rel s (fst (parse_itxt utf8_valid s)).
Proof.
  unfold parse_itxt. destruct (reserve s (zlen (c_raw s))) as [s1| |] eqn:R; cbn [fst]; try apply rel_refl.
  apply reserve_ok2 in R. destruct R as [-> Hle]. pose proof (zlen_nonneg (c_raw s)) as Hnn.
  replace (c_raw (s <| budget := budget s - zlen (c_raw s) |>)) with (c_raw s) by (destruct s; reflexivity).
  destruct (split_keyword (c_raw s)) as [[kw v]| |] eqn:E; cbn [fst]; try (apply rel_drop; assumption).
  destruct v as [|flag [|meth r]]; cbn [fst]; try (apply rel_drop; assumption).
  destruct (find0 r) as [k2|] eqn:E2; cbn [fst]; [|apply rel_drop; assumption].
  destruct (find0 (skipn (S k2) r)) as [k3|] eqn:E3; cbn [fst]; [|apply rel_drop; assumption].
  repeat (match goal with |- context [if ?c then _ else _] => destruct c end; cbn [fst]; try (apply rel_drop; assumption)).
  apply split_keyword_len in E. pose proof (split_len r k2 (find0_bound _ _ E2)) as L2.
  pose proof (split_len _ k3 (find0_bound _ _ E3)) as L3.
  apply rel_add_text; try assumption. unfold text_size. cbn [t_keyword t_lang t_trans t_payload]. unfold zlen in *. cbn [length] in *. lia.
Qed.

Lemma rel_iccp_raw t : rel t (fst (parse_iccp_raw zall t)).
Proof.
  unfold parse_iccp_raw. destruct (find0 (firstn 81 (c_raw t))) as [[|k]|]; cbn [fst]; try apply rel_refl.
  destruct (skipn (S (S k)) (c_raw t)) as [|m z]; cbn [fst]; try apply rel_refl.
  destruct (negb (m =? 0)); cbn [fst]; try apply rel_refl. destruct (zall z) as [profile|]; cbn [fst]; try apply rel_refl.
  destruct (Z.ltb_spec (budget t) (zlen profile)) as [Hlt|Hge]; cbn [fst]; try apply rel_refl.
  pose proof (zlen_nonneg profile). unfold rel, upd_info, anc_set, acct, the_info. destruct t. cbn in *. destruct info; cbn; lia.
Qed.

Lemma rel_iccp s : rel s (fst (parse_iccp zall s)).
Proof.
  unfold parse_iccp. destruct (have_idat s); cbn [fst]; [apply rel_refl|]. destruct (have_iccp s); cbn [fst]; [apply rel_refl|].
  assert (H1 : rel s (s <| have_iccp := true |>)) by (apply rel_same; destruct s; cbn; try reflexivity; lia).
  exact (rel_trans _ _ _ H1 (rel_iccp_raw _)).
Qed.

Lemma rel_fctl s : rel s (fst (parse_fctl s)).
Proof.
  unfold parse_fctl. destruct (rd32 (c_raw s)) as [[n b]| |]; cbn [fst]; try apply rel_refl.
  destruct (negb _); cbn [fst]; try apply rel_refl.
  match goal with |- context [match ?x with Ok _ => _ | Err _ => _ | Panic _ => _ end] => destruct x end; cbn [fst];
    unfold rel, upd_info, acct, the_info; destruct s; cbn in *; destruct info; cbn; lia.
Qed.

Lemma rel_ihdr s : rel s (fst (parse_ihdr_full s)).
Proof.
  unfold parse_ihdr_full, parse_ihdr. destruct (info s) eqn:Ei; cbn [fst]; [apply rel_refl|].
  match goal with |- context [match ?x with Ok _ => _ | Err _ => _ | Panic _ => _ end] => destruct x as [ev| |] end; cbn [fst]; try apply rel_refl.
  destruct ev; cbn [fst]; try apply rel_refl.
  unfold rel, acct, the_info. rewrite Ei. destruct s. cbn in *. lia.
Qed.

Lemma rel_st s x : rel s (s <| st := x |>).
Proof. apply rel_same; destruct s; cbn; try reflexivity; lia. Qed.

Lemma parse_chunk_rel s ty : rel s (fst (parse_chunk s ty)).
Proof.
  unfold Stream.parse_chunk.
  set (s0 := s <| st := Some (SU32 (KCrc ty) []) |>).
  assert (H0 : rel s s0) by apply rel_st.
  assert (F : forall p : pres, rel s0 (fst p) ->
     rel s (fst (let '(s1, r) := p in
        let r := match r with Err EIoEof => Err (EFormat FChunkTooShort) | r => r end in
        let r := match r with Err (EFormat _) => if is_benign ty then Ok ENothing else r | r => r end in
        match r with Ok e => (s1, Ok e) | _ => (s1 <| st := None |>, r) end))).
  { intros [s1 r] H1. cbn [fst] in H1. pose proof (rel_trans _ _ _ H0 H1) as H2.
    generalize (is_benign ty) as bn; intro bn.
    destruct r as [e|e|p]; [| destruct e as [| f | | | |] |]; try destruct bn; cbn [fst]; try exact H2; exact (rel_trans _ _ _ H2 (rel_st _ _)). }
  repeat match goal with
         | |- context [if ?c then ?a else ?b] =>
           match a with
           | context [s0] => destruct c
           end
         end;
  first [ exact (F (s0, Ok (EPartialChunk ty)) (rel_refl _)) | apply F ];
  first [ apply rel_ihdr | apply rel_sbit | apply rel_plte | apply rel_trns | apply rel_phys | apply rel_gama
        | apply rel_actl | apply rel_fctl | apply rel_chrm | apply rel_srgb | apply rel_cicp | apply rel_mdcv
        | apply rel_clli | apply rel_exif | apply rel_bkgd | apply rel_iccp | apply rel_text | apply rel_ztxt
        | apply rel_itxt | apply rel_refl ].
Qed.

(* the chunk body buffer: capacity grows only by what is taken from the budget, and never above it *)
Lemma reserve_current_chunk_rel s s' : zlen (c_raw s) <= c_cap s -> reserve_current_chunk s = Ok s' -> rel s s'.
Proof.
  intros Hcap. unfold reserve_current_chunk.
  set (r := Z.min (Z.max 0 (budget s - c_cap s)) (zlen (c_raw s))).
  destruct (reserve s r) as [s1| |] eqn:R; try discriminate.
  apply reserve_ok2 in R. destruct R as [-> Hle].
  replace (c_cap (s <| budget := budget s - r |>)) with (c_cap s) by (destruct s; reflexivity).
  replace (c_raw (s <| budget := budget s - r |>)) with (c_raw s) by (destruct s; reflexivity).
  destruct (Z.eqb_spec (Z.max (c_cap s) (zlen (c_raw s) + r)) (zlen (c_raw s))) as [|Hne]; [discriminate|].
  intro H. injection H as <-. pose proof (zlen_nonneg (c_raw s)).
  unfold rel, the_info. destruct s. cbn in *. subst r. lia.
Qed.

Lemma parse_u32_rel s kind bytes : rel s (fst (parse_u32 s kind bytes)).
Proof.
  assert (Z0 : forall t : dstate, zlen (@nil Z) <= zlen (c_raw t)) by (intro t; pose proof (zlen_nonneg (c_raw t)); unfold zlen in *; cbn [length]; lia).
  unfold Stream.parse_u32, goto, poison.
  destruct kind; destr_matches; cbn [fst];
    try (apply rel_same; [ | | | ]; try (destruct s; cbn; reflexivity); try (destruct s; cbn; lia); try (destruct s; cbn; unfold zlen; cbn [length]; lia)).
Qed.

(* ------------------------------------------------------------------ one transition *)
Lemma next_state_inv L s buf : Inv L s -> Inv L (fst (next_state s buf)).
Proof.
  intros HI. unfold Stream.next_state.
  destruct (st s) as [[kind acc | ty | ty | ty]|] eqn:Hst; cbn [fst]; [| | | | exact HI].
  - (* SU32 *)
    assert (G : forall n r, r = parse_u32 s kind n -> Inv L (fst r)).
    { intros n r ->. exact (rel_inv _ _ _ HI (parse_u32_rel s kind n)). }
    assert (W : forall (n : nat) bytes, Inv L (fst (match parse_u32 s kind bytes with
              | (s', Ok (e, app)) => (s', Ok (n, e, app)) | (s', Err e) => (s', Err e) | (s', Panic p) => (s', Panic p) end))).
    { intros n bytes. pose proof (G bytes _ eq_refl) as Hg. destruct (parse_u32 s kind bytes) as [s' [[e app]| |]]; exact Hg. }
    destruct acc as [|a0 acc]; [destruct buf as [|b0 [|b1 [|b2 [|b3 rest]]]] |]; try apply W;
      (destruct (_ <? 4)%nat; [cbn [fst]; exact (rel_inv _ _ _ HI (rel_st _ _)) | apply W]).
  - (* SRead *)
    destruct (c_remaining s =? 0); cbn [fst]; [exact (rel_inv _ _ _ HI (rel_st _ _))|].
    destruct (Z.leb_spec (c_cap s - zlen (c_raw s)) 0) as [Hle|Hgt]; cbn [fst]; [exact (rel_inv _ _ _ HI (rel_st _ _))|].
    set (n := Z.to_nat (Z.min (c_remaining s) (Z.min (zlen buf) (c_cap s - zlen (c_raw s))))).
    assert (Hn : Z.of_nat (length (firstn n buf)) <= c_cap s - zlen (c_raw s)).
    { rewrite firstn_length. subst n. unfold zlen in *. lia. }
    destruct HI as (Hb & Hsum & Hraw & Hcap).
    destruct (o_ignore_crc (opts s)); unfold Inv, the_info in *; destruct s; cbn in *; unfold zlen in *; rewrite ?app_length; (split; [lia|]); (split; [lia|]); (split; lia).
  - (* SParse *)
    destruct (c_remaining s =? 0).
    + pose proof (rel_inv _ _ _ HI (parse_chunk_rel s ty)) as Hp. destruct (parse_chunk s ty) as [s' [e| |]]; exact Hp.
    + destruct HI as (Hb & Hsum & Hraw & Hcap).
      destruct (reserve_current_chunk s) as [s'| |] eqn:R; cbn [fst].
      * pose proof (reserve_current_chunk_rel s s' Hraw R) as Hr.
        exact (rel_inv _ _ _ (rel_inv _ _ _ (conj Hb (conj Hsum (conj Hraw Hcap))) Hr) (rel_st _ _)).
      * exact (rel_inv _ _ _ (conj Hb (conj Hsum (conj Hraw Hcap))) (rel_st _ _)).
      * exact (rel_inv _ _ _ (conj Hb (conj Hsum (conj Hraw Hcap))) (rel_st _ _)).
  - (* SImage *)
    destruct (z_decompress zinf (infl s) _) as [[z out]| |]; cbn [fst]; try exact (rel_inv _ _ _ HI (rel_st _ _)).
    apply (rel_inv _ s); [exact HI|]. apply rel_same; destruct s; cbn; try reflexivity; lia.
Qed.

Lemma update_fuel_inv L : forall fuel s buf c app, Inv L s -> Inv L (fst (update_fuel fuel s buf c app)).
Proof.
  induction fuel as [|fuel IH]; intros s buf c app HI; destruct buf as [|b buf]; cbn [Stream.update_fuel fst]; try exact HI.
  pose proof (next_state_inv L s (b :: buf) HI) as Hn.
  destruct (next_state s (b :: buf)) as [s' [[[n e] a]| |]]; cbn [fst] in Hn; try exact Hn.
  destruct e; try exact Hn. apply IH. exact Hn.
Qed.

Theorem update_inv L s buf : Inv L s -> Inv L (fst (update s buf)).
Proof. intro HI. unfold Stream.update. destruct (st s); [apply update_fuel_inv; exact HI | exact HI]. Qed.

Lemma init_inv o L : 0 <= L -> Inv L (init_state o L).
Proof. intro H. unfold Inv, init_state, the_info, acct. cbn. unfold zlen, CHUNK_BUFFER_SIZE. cbn. lia. Qed.

(* every state reached by feeding any pieces of any input *)
Lemma feed_piece_inv L : forall fuel s buf tr, Inv L s -> Inv L (fst (fst (feed_piece zinf zall utf8_valid fuel s buf tr))).
Proof.
  induction fuel as [|fuel IH]; intros s buf tr HI; destruct buf as [|b buf]; cbn [feed_piece fst]; try exact HI.
  pose proof (update_inv L s (b :: buf) HI) as Hu.
  destruct (update s (b :: buf)) as [s' [n e app| | |]]; cbn [fst] in Hu |- *; try exact Hu.
  destruct e; cbn [fst]; try (apply IH; exact Hu). exact Hu.
Qed.

Lemma feed_go_inv L : forall pieces s tr, Inv L s -> Inv L (fst (fst (feed_go zinf zall utf8_valid s pieces tr))).
Proof.
  induction pieces as [|p ps IH]; intros s tr HI; cbn [feed_go fst]; [exact HI|].
  pose proof (feed_piece_inv L (5 * length p + 8) s p tr HI) as Hp.
  destruct (feed_piece zinf zall utf8_valid (5 * length p + 8) s p tr) as [[s' tr'] [r|]]; cbn [fst] in Hp |- *; [exact Hp | apply IH; exact Hp].
Qed.

(* C06 (ledger part): for every option set, every limit L, every input and every way of delivering it *)
Theorem ledger_bound o L pieces :
  0 <= L ->
  let s := fst (fst (feed_go zinf zall utf8_valid (init_state o L) pieces [])) in
  0 <= budget s <= L /\
  CHUNK_BUFFER_SIZE <= c_cap s <= L + CHUNK_BUFFER_SIZE /\
  zlen (c_raw s) <= c_cap s /\
  acct (the_info s) <= L /\
  acct (the_info s) + (c_cap s - CHUNK_BUFFER_SIZE) + budget s <= L.
Proof.
  intros HL s. pose proof (feed_go_inv L pieces (init_state o L) [] (init_inv o L HL)) as (Hb & Hsum & Hraw & Hcap). fold s in Hb, Hsum, Hraw, Hcap.
  pose proof (acct_nonneg (the_info s)). repeat split; lia.
Qed.
End WithInflate.
