(* C17: what the encoder's payload builders write, the decoder model's chunk parsers read back unchanged; unrepresentable
   text is refused.  Composes the C16 codec lemmas (Proofs/StreamDecisions.v) and the C20 text lemmas (Proofs/TextProofs.v). *)
From PngV Require Import Base.Bytes Base.Crc Base.Utf8 Gen.GenStream Model.Stream Model.StreamRun Model.StreamExec Model.Text Model.MetaEnc
  Proofs.StreamProofs Proofs.StreamDecisions Proofs.TextProofs.
From RecordUpdate Require Import RecordSet.
Import RecordSetNotations.
From Coq Require Import ZifyBool.

(* ------------------------------------------------------------------ keywords *)
Lemma encode_latin1_length s raw : encode_latin1 s = Some raw -> length raw = length s.
Proof.
  intro H. destruct (decode_encode_latin1 s raw H) as [Hd _]. rewrite <- Hd. unfold decode_latin1. rewrite map_length. reflexivity.
Qed.

Lemma has_zero_false l : has_zero l = false <-> Forall (fun c => c <> 0) l.
Proof.
  unfold has_zero. induction l as [|x l IH]; cbn [existsb]; [split; [constructor | reflexivity]|].
  rewrite orb_false_iff, IH. split.
  - intros [H1 H2]. constructor; [lia | exact H2].
  - intro H. inversion H; subst. split; [lia | assumption].
Qed.

Theorem enc_keyword_ok kw b : enc_keyword kw = Ok b ->
  decode_latin1 b = kw /\ bytes_ok b /\ (1 <= length kw <= 79)%nat /\ length b = length kw /\ Forall (fun c => c <> 0) kw.
Proof.
  unfold enc_keyword. destruct (encode_latin1 kw) as [raw|] eqn:E; [|discriminate].
  pose proof (encode_latin1_length kw raw E) as Hl. destruct (decode_encode_latin1 kw raw E) as [Hd Hb].
  destruct (Nat.eqb_spec (length raw) 0) as [H0|H0]; cbn [orb]; [discriminate|].
  destruct (Nat.ltb_spec 79 (length raw)) as [H1|H1]; [discriminate|].
  destruct (has_zero raw) eqn:Hz; [discriminate|].
  intro H. injection H as <-. repeat split; try assumption; try lia.
  apply has_zero_false in Hz. rewrite <- Hd. unfold decode_latin1. rewrite map_id. exact Hz.
Qed.

(* refusal is exact: empty, longer than 79, a character outside Latin-1, or a NUL *)
Theorem enc_keyword_refusal_exact kw :
  (exists b, enc_keyword kw = Ok b) <-> ((1 <= length kw <= 79)%nat /\ Forall (fun c => 0 < c < 256) kw).
Proof.
  split.
  - intros [b H]. destruct (enc_keyword_ok kw b H) as [Hd [Hb [Hl [_ Hz]]]]. split; [exact Hl|].
    assert (Hf : Forall (fun c => 0 <= c < 256) kw) by (rewrite <- Hd; unfold decode_latin1; rewrite map_id; exact Hb).
    rewrite Forall_forall in *. intros c Hc. specialize (Hf c Hc). specialize (Hz c Hc). lia.
  - intros [Hl Hf]. unfold enc_keyword. destruct (encode_latin1 kw) as [raw|] eqn:E.
    + pose proof (encode_latin1_length kw raw E) as Hr.
      destruct (Nat.eqb_spec (length raw) 0) as [H0|H0]; [lia|]. destruct (Nat.ltb_spec 79 (length raw)) as [H1|H1]; [lia|].
      cbn [orb]. destruct (decode_encode_latin1 kw raw E) as [Hd _].
      assert (Hz : has_zero raw = false).
      { apply has_zero_false. unfold decode_latin1 in Hd. rewrite map_id in Hd. rewrite Hd. eapply Forall_impl; [|exact Hf]. cbn. lia. }
      rewrite Hz. eexists. reflexivity.
    + exfalso. apply (proj1 (encode_latin1_refuses_exactly_non_latin1 kw)) in E. destruct E as [c [Hin Hc]].
      rewrite Forall_forall in Hf. specialize (Hf c Hin). lia.
Qed.

Theorem enc_keyword_never_panics kw p : enc_keyword kw <> Panic p.
Proof. unfold enc_keyword. destruct (encode_latin1 kw) as [b|]; [destruct (_ || _); [|destruct (has_zero b)]|]; discriminate. Qed.

(* ------------------------------------------------------------------ list helpers *)
Lemma find0_app a r : Forall (fun b => b <> 0) a -> find0 (a ++ 0 :: r) = Some (length a).
Proof.
  intro H. induction a as [|k a IH]; cbn [app find0 length]; [reflexivity|].
  inversion H as [|? ? Hk Hrest]; subst. destruct (Z.eqb_spec k 0); [contradiction|]. rewrite (IH Hrest). reflexivity.
Qed.
Lemma firstn_app_exact {A} (a r : list A) : firstn (length a) (a ++ r) = a.
Proof. induction a as [|k a IH]; cbn [length firstn app]; [destruct r; reflexivity | rewrite IH; reflexivity]. Qed.
Lemma skipn_S_app {A} (a r : list A) x : skipn (S (length a)) (a ++ x :: r) = r.
Proof. induction a as [|k a IH]; cbn [length skipn app]; [reflexivity | exact IH]. Qed.

Lemma c_raw_budget s n : c_raw (s <| budget := n |>) = c_raw s.
Proof. destruct s; reflexivity. Qed.

Lemma latin1_nonzero kw b : decode_latin1 b = kw -> Forall (fun c => c <> 0) kw -> Forall (fun c => c <> 0) b.
Proof. unfold decode_latin1. rewrite map_id. intros ->. exact (fun H => H). Qed.

(* ------------------------------------------------------------------ tEXt *)
Theorem text_roundtrip s kw txt p :
  enc_text kw txt = Ok p -> c_raw s = p -> zlen p <= budget s ->
  exists k t, parse_text s = (add_text (s <| budget := budget s - zlen p |>) (mk_text 0 k false [] [] t), Ok ENothing)
              /\ decode_latin1 k = kw /\ decode_latin1 t = txt.
Proof.
  unfold enc_text. destruct (enc_keyword kw) as [k| |] eqn:Ek; try discriminate.
  destruct (encode_latin1 txt) as [t|] eqn:Et; [|discriminate]. intro H; injection H as <-. intros Hr Hb.
  destruct (enc_keyword_ok kw k Ek) as [Hd [Hbk [Hl [Hlk Hnz]]]]. destruct (decode_encode_latin1 txt t Et) as [Hdt _].
  exists k, t. split; [|split; assumption].
  unfold parse_text, reserve. rewrite Hr. destruct (Z.leb_spec (zlen (k ++ 0 :: t)) (budget s)) as [_|Hgt]; [|lia].
  rewrite c_raw_budget, Hr. rewrite split_keyword_exact; [reflexivity | lia | exact (latin1_nonzero kw k Hd Hnz)].
Qed.

(* ------------------------------------------------------------------ zTXt *)
Section Codec.
Variable K : list Z -> list Z.
Variable I : list Z -> nat -> outcome (list Z) terr.
Hypothesis inflate_compress : forall raw limit, bytes_ok raw -> (length raw <= limit)%nat -> I (K raw) limit = Ok raw.

Theorem ztxt_roundtrip s kw txt p n :
  enc_ztxt K kw (Uncompressed txt) = Ok p -> c_raw s = p -> zlen p <= budget s -> (length txt <= n)%nat ->
  exists k z, parse_ztxt s = (add_text (s <| budget := budget s - zlen p |>) (mk_text 1 k true [] [] z), Ok ENothing)
              /\ decode_latin1 k = kw
              /\ decompress_text_with_limit I (Compressed z) n = Ok (Uncompressed txt).      (* ZTXtChunk::get_text / decompress *)
Proof.
  unfold enc_ztxt. destruct (enc_keyword kw) as [k| |] eqn:Ek; try discriminate.
  destruct (encode_latin1 txt) as [raw|] eqn:Et; [|discriminate]. intro H; injection H as <-. intros Hr Hb Hn.
  destruct (enc_keyword_ok kw k Ek) as [Hd [Hbk [Hl [Hlk Hnz]]]]. destruct (decode_encode_latin1 txt raw Et) as [Hdt Hbr].
  exists k, (K raw). split; [|split; [assumption|]].
  - unfold parse_ztxt, reserve. rewrite Hr. destruct (Z.leb_spec (zlen (k ++ 0 :: 0 :: K raw)) (budget s)) as [_|Hgt]; [|lia].
    rewrite c_raw_budget, Hr. rewrite split_keyword_exact; [reflexivity | lia | exact (latin1_nonzero kw k Hd Hnz)].
  - cbn [decompress_text_with_limit]. rewrite inflate_compress; [rewrite Hdt; reflexivity | exact Hbr |].
    rewrite (encode_latin1_length txt raw Et). exact Hn.
Qed.

(* ------------------------------------------------------------------ iTXt *)
Lemma ascii_cps_is_ascii lang : ascii_cps lang = true -> is_ascii lang = true.
Proof.
  unfold ascii_cps, is_ascii. rewrite !forallb_forall. intros H x Hx. specialize (H x Hx). lia.
Qed.

Theorem itxt_roundtrip s kw c lang trans txt p :
  enc_itxt K kw c lang trans txt = Ok p ->
  utf8_valid trans = true -> (c = false -> utf8_valid txt = true) ->
  c_raw s = p -> zlen p <= budget s ->
  exists k, parse_itxt utf8_valid s =
            (add_text (s <| budget := budget s - zlen p |>) (mk_text 2 k c lang trans (if c then K txt else txt)), Ok ENothing)
            /\ decode_latin1 k = kw.
Proof.
  unfold enc_itxt. destruct (enc_keyword kw) as [k| |] eqn:Ek; try discriminate.
  destruct (ascii_cps lang) eqn:Ea; cbn [negb orb]; [|discriminate].
  destruct (has_zero lang) eqn:Zl; [discriminate|]. destruct (has_zero trans) eqn:Zt; [discriminate|].
  apply has_zero_false in Zl. apply has_zero_false in Zt. rename Zl into Hnl. rename Zt into Hnt.
  intro H; injection H as <-.
  intros Hut Hux Hr Hb.
  destruct (enc_keyword_ok kw k Ek) as [Hd [Hbk [Hl [Hlk Hnk]]]].
  exists k. split; [|assumption].
  unfold parse_itxt, reserve. rewrite Hr.
  remember (if c then K txt else txt) as body eqn:Ebody.
  remember (if c then 1 else 0) as flag eqn:Eflag.
  destruct (Z.leb_spec (zlen (k ++ 0 :: flag :: 0 :: lang ++ 0 :: trans ++ 0 :: body)) (budget s)) as [_|Hgt]; [|lia].
  rewrite c_raw_budget, Hr. rewrite split_keyword_exact; [| lia | exact (latin1_nonzero kw k Hd Hnk)].
  rewrite (find0_app lang (trans ++ 0 :: body) Hnl). rewrite firstn_app_exact, skipn_S_app.
  rewrite (find0_app trans body Hnt). rewrite firstn_app_exact, skipn_S_app.
  rewrite (ascii_cps_is_ascii lang Ea), Hut. cbn [negb].
  destruct c; subst flag body; cbn [Z.eqb Pos.eqb orb andb negb]; [reflexivity|].
  rewrite (Hux eq_refl). reflexivity.
Qed.

(* a language tag with a non-ASCII character is refused, whatever the rest *)
Theorem itxt_lang_refused kw c lang trans txt :
  Exists (fun ch => ch < 0 \/ 127 < ch) lang -> forall p, enc_itxt K kw c lang trans txt <> Ok p.
Proof.
  intros Hex p. unfold enc_itxt. destruct (enc_keyword kw); try discriminate.
  assert (E : ascii_cps lang = false).
  { unfold ascii_cps. apply not_true_is_false. intro Ht. rewrite forallb_forall in Ht. rewrite Exists_exists in Hex.
    destruct Hex as [ch [Hin Hch]]. specialize (Ht ch Hin). lia. }
  rewrite E. discriminate.
Qed.

(* a NUL in the language tag or in the translated keyword is refused (each of them ends at its first zero byte) *)
Theorem itxt_nul_refused kw c lang trans txt :
  In 0 lang \/ In 0 trans -> forall p, enc_itxt K kw c lang trans txt <> Ok p.
Proof.
  intros Hin p. unfold enc_itxt. destruct (enc_keyword kw); try discriminate.
  assert (Z0 : forall l, In 0 l -> has_zero l = true) by (intros l Hl; unfold has_zero; apply existsb_exists; exists 0; split; [exact Hl | reflexivity]).
  destruct Hin as [H|H].
  - rewrite (Z0 lang H), orb_true_r. discriminate.
  - destruct (negb (ascii_cps lang) || has_zero lang); [discriminate|]. rewrite (Z0 trans H). discriminate.
Qed.

(* a bad keyword is refused by all three kinds *)
Theorem bad_keyword_refused_everywhere kw : (forall b, enc_keyword kw <> Ok b) ->
  (forall txt p, enc_text kw txt <> Ok p) /\ (forall t p, enc_ztxt K kw t <> Ok p) /\ (forall c l tr txt p, enc_itxt K kw c l tr txt <> Ok p).
Proof.
  intro H. unfold enc_text, enc_ztxt, enc_itxt. destruct (enc_keyword kw) as [b| |]; [exfalso; exact (H b eq_refl) | |]; repeat split; intros; discriminate.
Qed.

(* Latin-1 text with a character above 255 is refused by tEXt and zTXt *)
Theorem non_latin1_text_refused kw txt : (exists c, In c txt /\ ~ (0 <= c < 256)) ->
  (forall p, enc_text kw txt <> Ok p) /\ (forall p, enc_ztxt K kw (Uncompressed txt) <> Ok p).
Proof.
  intro Hex. apply (proj2 (encode_latin1_refuses_exactly_non_latin1 txt)) in Hex.
  unfold enc_text, enc_ztxt. destruct (enc_keyword kw); rewrite ?Hex; split; intros; discriminate.
Qed.

(* ------------------------------------------------------------------ iCCP *)
Variable zall : list Z -> option (list Z).
Hypothesis zall_K : forall raw, bytes_ok raw -> zall (K raw) = Some raw.

Theorem iccp_roundtrip s profile :
  bytes_ok profile -> have_idat s = false -> have_iccp s = false -> c_raw s = enc_iccp K profile -> zlen profile <= budget s ->
  snd (parse_iccp zall s) = Ok ENothing /\ anc_get KIccp (i_anc (the_info (fst (parse_iccp zall s)))) = Some profile.
Proof.
  intros Hb Hi Hc Hr Hbud. unfold parse_iccp. rewrite Hi, Hc. cbn [snd fst]. split; [reflexivity|].
  unfold parse_iccp_raw.
  replace (c_raw (s <| have_iccp := true |>)) with (c_raw s) by (destruct s; reflexivity).
  replace (budget (s <| have_iccp := true |>)) with (budget s) by (destruct s; reflexivity).
  rewrite Hr. unfold enc_iccp.
  change (firstn 81 (95 :: 0 :: 0 :: K profile)) with (95 :: 0 :: firstn 79 (0 :: K profile)).
  cbn [find0 Z.eqb option_map]. cbn [skipn].
  rewrite (zall_K profile Hb). cbn [Z.eqb negb].
  destruct (Z.ltb_spec (budget s) (zlen profile)) as [Hlt|_]; [lia|].
  cbn [fst]. unfold upd_info, the_info. cbn. reflexivity.
Qed.
End Codec.

(* ------------------------------------------------------------------ numeric chunks: encoder layout = what the parser inverts *)
Theorem phys_roundtrip s x y u : u32 x -> u32 y -> (u = 0 \/ u = 1) -> have_idat s = false -> anc_has KPhys (the_info s) = false ->
  c_raw s = enc_phys x y u -> parse_phys s = (upd_info s (anc_set KPhys [x; y; u]), Ok (EPixelDimensions x y u)).
Proof. intros. unfold enc_phys in *. apply (codec_phys zinf_ref inflate_checked utf8_valid); assumption. Qed.

Theorem gama_roundtrip s g : u32 g -> have_idat s = false -> anc_has KGama (the_info s) = false -> c_raw s = enc_gama g ->
  parse_gama s = (upd_info s (anc_set KGama [g]), Ok ENothing).
Proof. intros. unfold enc_gama in *. apply (codec_gama zinf_ref inflate_checked utf8_valid); assumption. Qed.

Theorem chrm_roundtrip s wx wy rx ry gx gy bx by_ :
  u32 wx -> u32 wy -> u32 rx -> u32 ry -> u32 gx -> u32 gy -> u32 bx -> u32 by_ ->
  have_idat s = false -> anc_has KChrm (the_info s) = false -> c_raw s = enc_chrm [wx; wy; rx; ry; gx; gy; bx; by_] ->
  parse_chrm s = (upd_info s (anc_set KChrm [wx; wy; rx; ry; gx; gy; bx; by_]), Ok ENothing).
Proof.
  intros H1 H2 H3 H4 H5 H6 H7 H8 Hi Ha Hr. apply (codec_chrm zinf_ref inflate_checked utf8_valid); try assumption.
  all: rewrite Hr; unfold enc_chrm; cbn [flat_map]; rewrite app_nil_r; reflexivity.
Qed.

Theorem srgb_roundtrip s r : 0 <= r <= 3 -> have_idat s = false -> anc_has KSrgb (the_info s) = false -> c_raw s = enc_srgb r ->
  parse_srgb s = (upd_info s (anc_set KSrgb [r]), Ok ENothing).
Proof. intros. unfold enc_srgb in *. apply codec_srgb; assumption. Qed.

Theorem actl_roundtrip s f p : u32 f -> u32 p -> have_idat s = false -> c_raw s = enc_actl f p ->
  parse_actl s = (upd_info s (fun i => i <| i_actl := Some (f, p) |>), Ok (EAnimationControl f p)).
Proof. intros. unfold enc_actl in *. apply (codec_actl zinf_ref inflate_checked utf8_valid); assumption. Qed.

Theorem fctl_roundtrip s n w h x y dn dd dop bop :
  u32 n -> u32 w -> u32 h -> u32 x -> u32 y -> 0 <= dn < 65536 -> 0 <= dd < 65536 ->
  (dop = 0 \/ dop = 1 \/ dop = 2) -> (bop = 0 \/ bop = 1) ->
  n = match seq s with Some q => q + 1 | None => 0 end ->
  c_raw s = enc_fctl (mk_fctl n w h x y dn dd dop bop) ->
  validate_fctl (the_info s) (mk_fctl n w h x y dn dd dop bop) = Ok tt ->
  snd (parse_fctl s) = Ok (EFrameControl (mk_fctl n w h x y dn dd dop bop)) /\
  i_fctl (the_info (fst (parse_fctl s))) = Some (mk_fctl n w h x y dn dd dop bop).
Proof.
  intros. unfold enc_fctl in *. cbn [fc_seq fc_w fc_h fc_x fc_y fc_dn fc_dd fc_dispose fc_blend] in *. destruct (codec_fctl zinf_ref inflate_checked utf8_valid s n w h x y dn dd dop bop) as [A [B _]]; try assumption. split; assumption.
Qed.

(* ------------------------------------------------------------------ raw blobs *)
Theorem plte_roundtrip s p : anc_has KPalette (the_info s) = false -> c_raw s = p -> zlen p <= budget s ->
  exists s', parse_plte s = (upd_info s' (anc_set KPalette p), Ok ENothing).
Proof.
  intros Ha Hr Hb. unfold parse_plte, reserve. rewrite Ha, Hr. destruct (Z.leb_spec (zlen p) (budget s)); [|lia].
  rewrite c_raw_budget, Hr. eexists. reflexivity.
Qed.

Theorem exif_roundtrip s : anc_has KExif (the_info s) = false -> parse_exif s = (upd_info s (anc_set KExif (c_raw s)), Ok ENothing).
Proof. intro Ha. unfold parse_exif. rewrite Ha. reflexivity. Qed.

(* tRNS: indexed images get the bytes; gray / RGB below 16 bits get the low byte of each 16-bit sample (the sample VALUE when the
   high byte is 0, which is the only legal encoding), 16-bit images get the bytes *)
Theorem trns_roundtrip_indexed s p : i_color (the_info s) = 3 -> anc_has KTrns (the_info s) = false -> anc_has KPalette (the_info s) = true ->
  have_idat s = false -> c_raw s = p -> zlen p <= budget s ->
  exists s', parse_trns s = (upd_info s' (anc_set KTrns p), Ok ENothing).
Proof.
  intros Hc Ha Hp Hi Hr Hb. unfold parse_trns, reserve. rewrite Ha, Hi, Hr. cbn [andb].
  destruct (Z.leb_spec (zlen p) (budget s)); [|lia].
  replace (the_info (s <| budget := budget s - zlen p |>)) with (the_info s) by (destruct s; reflexivity).
  replace (have_idat (s <| budget := budget s - zlen p |>)) with (have_idat s) by (destruct s; reflexivity).
  rewrite c_raw_budget, Hr, Hc, Hp, Hi. cbn. eexists. reflexivity.
Qed.

Theorem trns_roundtrip_gray s g : i_color (the_info s) = 0 -> anc_has KTrns (the_info s) = false -> have_idat s = false ->
  0 <= g < 65536 -> c_raw s = to_be16 g -> 2 <= budget s ->
  exists s', parse_trns s = (upd_info s' (anc_set KTrns (if i_depth (the_info s) <? 16 then [g mod 256] else to_be16 g)), Ok ENothing).
Proof.
  intros Hc Ha Hi Hg Hr Hb. unfold parse_trns, reserve. rewrite Ha, Hi, Hr. cbn [andb].
  change (zlen (to_be16 g)) with 2. destruct (Z.leb_spec 2 (budget s)); [|lia].
  replace (the_info (s <| budget := budget s - 2 |>)) with (the_info s) by (destruct s; reflexivity).
  rewrite c_raw_budget, Hr, Hc. cbn [Z.eqb]. change (zlen (to_be16 g)) with 2. cbn [Z.ltb Z.compare Pos.compare Pos.compare_cont].
  unfold to_be16. cbn [nth]. eexists. reflexivity.
Qed.

(* ------------------------------------------------------------------ encode_header: the sRGB rule *)
Lemma list_eqb_eq a b : list_eqb a b = true -> a = b.
Proof.
  unfold list_eqb. revert b. induction a as [|x a IH]; intros [|y b] H; cbn [length combine forallb fst snd] in H.
  - reflexivity.
  - cbn in H. discriminate.
  - cbn in H. discriminate.
  - apply andb_prop in H. destruct H as [Hl H]. apply andb_prop in H. destruct H as [Hxy H].
    f_equal; [lia|]. apply IH. cbn [Nat.eqb] in Hl. rewrite Hl, H. reflexivity.
Qed.

(* with sRGB set, everything written agrees with the substitutes the accessors report, and no ICC profile is written *)
Theorem colour_chunks_srgb K m r : m_srgb m = Some r ->
  forall ty p, In (ty, p) (colour_chunks K m) ->
    (ty = ct_sRGB /\ p = [r]) \/ (ty = ct_gAMA /\ p = enc_gama sub_gamma) \/ (ty = ct_cHRM /\ p = enc_chrm sub_chrm).
Proof.
  intros Hs ty p. unfold colour_chunks. rewrite Hs. cbn [In]. intros [H | H]; [injection H as <- <-; left; split; reflexivity|].
  apply in_app_or in H. destruct H as [H | H].
  - destruct (m_gamma m) as [g|]; [|contradiction]. destruct (Z.eqb_spec g sub_gamma) as [Hg|]; [|contradiction].
    destruct H as [H|[]]. rewrite Hg in H. injection H as <- <-. right; left; split; reflexivity.
  - destruct (m_chrm m) as [c|]; [|contradiction]. destruct (list_eqb c sub_chrm) eqn:E; [|contradiction].
    apply list_eqb_eq in E. subst c. destruct H as [H|[]]. injection H as <- <-. right; right; split; reflexivity.
Qed.

Theorem colour_chunks_plain K m : m_srgb m = None ->
  colour_chunks K m = opt_chunk ct_gAMA enc_gama (m_gamma m) ++ opt_chunk ct_cHRM enc_chrm (m_chrm m) ++ opt_chunk ct_iCCP (enc_iccp K) (m_icc m).
Proof. intro H. unfold colour_chunks. rewrite H. reflexivity. Qed.

Theorem accessors_with_srgb i : anc_has KSrgb i = true -> info_gamma i = Some [sub_gamma] /\ info_chrm i = Some sub_chrm.
Proof. intro H. unfold info_gamma, info_chrm. rewrite H. split; reflexivity. Qed.

Theorem accessors_without_srgb i : anc_has KSrgb i = false -> info_gamma i = anc_get KGama (i_anc i) /\ info_chrm i = anc_get KChrm (i_anc i).
Proof. intro H. unfold info_gamma, info_chrm. rewrite H. split; reflexivity. Qed.

(* KNOWN FINDING (C17 / C16): a zero-length chunk never reaches its parser (stream.rs ReadChunkData: remaining == 0 goes straight to the CRC),
   so an EXIF block of zero bytes - which the encoder writes as a zero-length eXIf chunk - is read back as absent.  Witness on the model: *)
Definition zero_exif_file : list Z :=
  [137;80;78;71;13;10;26;10; 0;0;0;13; 73;72;68;82; 0;0;0;1; 0;0;0;1; 8;0;0;0;0; 58;126;155;85;
   0;0;0;0; 101;88;73;102] ++ to_be32 (crc32 [101;88;73;102]).
Theorem zero_length_exif_refuted :
  header_chunks K_mark (mk_meta None None None None None (Some []) None None None) = [(ct_eXIf, [])] /\
  match l0_run 17 67108864 [] zero_exif_file with
  | (_, REof, Some i) => anc_get KExif (i_anc i) = None
  | _ => False
  end.
Proof. vm_compute. split; reflexivity. Qed.
(* every chunk that does reach the parser is stored: [exif_roundtrip]; the finding is confined to length 0 *)
