(* C04, rows over the stream machine: composition of Proofs/StreamWhole.v (the observation of the stream machine does not depend on the cuts)
   with Proofs/ReaderRows.v (the rows do not depend on how the image bytes arrive): for any two ways of cutting the input into buffers,
   the rows of the first frame are the same - whatever portions the machine hands out and however the Reader's pull loop interleaves them
   with its row requests. *)
From PngV Require Import Base.Bytes Base.Crc Gen.GenStream Gen.GenPaeth Model.Filter Model.Pipeline Model.UnfiltBuf Proofs.UnfiltBufProofs Proofs.ReaderRows.
From PngV Require Import Model.Stream Model.StreamRun Proofs.StreamProofs Proofs.StreamSplit Proofs.StreamWhole.

(* the portions of image data up to (and including) the first flush = the image data of the first frame as the Reader receives it *)
Fixpoint upto_flush (tr : list (event * list Z)) : list (list Z) * bool :=
  match tr with
  | [] => ([], false)
  | (e, a) :: t =>
    match e with
    | EImageDataFlushed => ([a], true)
    | _ => let '(ps, f) := upto_flush t in (a :: ps, f)
    end
  end.

Fixpoint first_flush (o : list oitem) : option (list Z) :=
  match o with
  | [] => None
  | OF b :: _ => Some b
  | _ :: r => first_flush r
  end.

Lemma first_flush_bytes : forall tr pend ps, upto_flush tr = (ps, true) -> first_flush (obs_go pend tr) = Some (pend ++ concat ps).
Proof.
  induction tr as [|[e a] t IH]; intros pend ps U; [discriminate U|].
  cbn [upto_flush] in U. cbn [obs_go].
  destruct e; try (destruct (upto_flush t) as [ps0 f0] eqn:U0; injection U as <- ->; cbn [first_flush concat]; rewrite (IH _ _ eq_refl), app_assoc; reflexivity).
  injection U as <-. cbn [first_flush concat]. rewrite app_nil_r. reflexivity.
Qed.

Theorem same_observation_same_frame_bytes tr1 tr2 q1 q2 :
  obs_go [] tr1 = obs_go [] tr2 -> upto_flush tr1 = (q1, true) -> upto_flush tr2 = (q2, true) -> concat q1 = concat q2.
Proof.
  intros O U1 U2. pose proof (first_flush_bytes tr1 [] q1 U1) as F1. pose proof (first_flush_bytes tr2 [] q2 U2) as F2.
  rewrite O in F1. rewrite F1 in F2. injection F2 as F2. exact F2.
Qed.

Section WithInflate.
Variable zinf : bool -> list Z -> list Z * dstatus.
Variable zall : list Z -> option (list Z).
Variable utf8_valid : list Z -> bool.
Notation feed := (feed zinf zall utf8_valid).

Definition trace_of (x : dstate * list (event * list Z) * rend) : list (event * list Z) := snd (fst x).

Theorem frame_rows_are_delivery_independent : zinf_contract zinf ->
  forall o limit ps1 ps2, Forall bytes_ok ps1 -> Forall bytes_ok ps2 -> concat ps1 = concat ps2 ->
  forall q1 q2, upto_flush (trace_of (feed (init_state o limit) ps1)) = (q1, true) ->
                upto_flush (trace_of (feed (init_state o limit) ps2)) = (q2, true) ->
  (* any two row-level runs of a Reader over those image bytes, re-portioned and interleaved with the same requests in any way *)
  forall P bpp a1 a2 rows1 e1 rows2 e2,
    appended a1 = concat q1 -> appended a2 = concat q2 -> requests a1 = requests a2 ->
    arun P bpp [] [] a1 = (rows1, e1) -> arun P bpp [] [] a2 = (rows2, e2) ->
    (e1 <> Some PTooShort -> e2 <> Some PTooShort -> rows1 = rows2 /\ e1 = e2) /\
    (is_prefix rows1 rows2 \/ is_prefix rows2 rows1).
Proof.
  intros HC o limit ps1 ps2 H1 H2 E q1 q2 U1 U2 P bpp a1 a2 rows1 e1 rows2 e2 A1 A2 Er R1 R2.
  pose proof (decoding_is_delivery_independent zinf zall utf8_valid HC o limit ps1 ps2 H1 H2 E) as D.
  destruct (feed (init_state o limit) ps1) as [[s1 tr1] r1]. destruct (feed (init_state o limit) ps2) as [[s2 tr2] r2].
  unfold trace_of in U1, U2. cbn [fst snd] in U1, U2. unfold feed_obs in D. injection D as Do _.
  pose proof (same_observation_same_frame_bytes tr1 tr2 q1 q2 Do U1 U2) as Q.
  apply (rows_are_delivery_independent P bpp [] [] a1 a2); try assumption. congruence.
Qed.

End WithInflate.

(* the same for the executable model (the reference inflater meets the contract: Proofs/InflatePrefix.v) - no premise left *)
From PngV Require Import Base.Inflate Base.Utf8 Model.StreamExec Proofs.InflatePrefix.

Theorem executable_model_frame_rows_are_delivery_independent :
  forall o limit ps1 ps2, Forall bytes_ok ps1 -> Forall bytes_ok ps2 -> concat ps1 = concat ps2 ->
  forall q1 q2, upto_flush (trace_of (feed zinf_ref inflate_checked utf8_valid (init_state o limit) ps1)) = (q1, true) ->
                upto_flush (trace_of (feed zinf_ref inflate_checked utf8_valid (init_state o limit) ps2)) = (q2, true) ->
  forall P bpp a1 a2 rows1 e1 rows2 e2,
    appended a1 = concat q1 -> appended a2 = concat q2 -> requests a1 = requests a2 ->
    arun P bpp [] [] a1 = (rows1, e1) -> arun P bpp [] [] a2 = (rows2, e2) ->
    (e1 <> Some PTooShort -> e2 <> Some PTooShort -> rows1 = rows2 /\ e1 = e2) /\
    (is_prefix rows1 rows2 \/ is_prefix rows2 rows1).
Proof. exact (frame_rows_are_delivery_independent zinf_ref inflate_checked utf8_valid zinf_ref_contract). Qed.
