(* C09 / C06: the row buffer of the Reader is charged once, at its largest size: after any sequence of frames the bytes charged for it are
   the largest row so far - not the sum over the frames, not the sum of the widening steps - so a valid animation never runs out of
   Limits::bytes because it is long or because its frame widths go down and up again; it fails (LimitsExceeded) exactly when a single row
   does not fit. *)
From PngV Require Import Model.RowCharge.
From Coq Require Import List ZArith Bool Lia ZifyBool.
Import ListNotations.
Local Open Scope Z_scope.

Fixpoint run_all (s : rcstate) (buflens : list Z) : option rcstate :=
  match buflens with
  | [] => Some s
  | b :: r => match rc_frame s b with Some s' => run_all s' r | None => None end
  end.

Definition maxl (m : Z) (l : list Z) : Z := fold_left Z.max l m.

Lemma maxl_ge m l : m <= maxl m l.
Proof. unfold maxl. revert m. induction l as [|x l IH]; intro m; cbn [fold_left]; [lia|]. specialize (IH (Z.max m x)). lia. Qed.
Lemma maxl_mono m m' l : m <= m' -> maxl m l <= maxl m' l.
Proof. unfold maxl. revert m m'. induction l as [|x l IH]; intros m m' H; cbn [fold_left]; [lia|]. apply IH. lia. Qed.

(* the invariant: what has been charged for the row is what is reserved; the total (budget + reserved) never changes *)
Theorem charged_is_the_largest_row : forall buflens s s',
  run_all s buflens = Some s' ->
  reserved s' = maxl (reserved s) buflens /\ budget s' + reserved s' = budget s + reserved s.
Proof.
  induction buflens as [|b r IH]; intros s s' H; cbn in H.
  - injection H as <-. cbn. lia.
  - unfold rc_frame in H. destruct (Z.max 0 (b - reserved s) <=? budget s) eqn:E; [|discriminate].
    destruct (IH _ _ H) as [A B]. cbn [reserved budget] in A, B. cbn [maxl fold_left]. split; [exact A | lia].
Qed.

(* ... and the run succeeds exactly when the largest row fits what the budget and the rows charged so far allow *)
Theorem all_frames_fit_iff_the_largest_row_fits : forall buflens s,
  0 <= budget s ->
  (exists s', run_all s buflens = Some s') <-> maxl (reserved s) buflens <= budget s + reserved s.
Proof.
  induction buflens as [|b r IH]; intros s Hb; cbn [run_all maxl fold_left].
  - split; [intros _; lia | intros _; eexists; reflexivity].
  - unfold rc_frame. destruct (Z.max 0 (b - reserved s) <=? budget s) eqn:E.
    + specialize (IH (mk_rc (Z.max (reserved s) b) (budget s - Z.max 0 (b - reserved s))) ltac:(cbn; lia)). cbn [reserved budget] in IH.
      rewrite IH. fold (maxl (Z.max (reserved s) b) r). split; intro H; lia.
    + split; [intros [s' H]; discriminate H|]. intro H. exfalso.
      pose proof (maxl_ge (Z.max (reserved s) b) r). fold (maxl (Z.max (reserved s) b) r) in H. lia.
Qed.

(* in particular: repeating frames, or alternating wide and narrow ones, costs nothing more *)
Corollary frames_no_larger_than_what_is_reserved_cost_nothing s l :
  0 <= budget s -> Forall (fun b => b <= reserved s) l -> run_all s l = Some s.
Proof.
  intros Hb H. induction l as [|b r IH]; [reflexivity|]. inversion H as [|? ? Hle Hr]; subst. cbn [run_all]. unfold rc_frame.
  replace (Z.max 0 (b - reserved s)) with 0 by lia.
  destruct (Z.leb_spec 0 (budget s)) as [_|Hn]; [|lia].
  replace (Z.max (reserved s) b) with (reserved s) by lia. replace (budget s - 0) with (budget s) by lia.
  destruct s as [rs bs]. cbn in *. exact (IH Hr).
Qed.

Example row_charge_demo :
  rc_charged 8192 [4; 8192; 28; 8192; 4; 16384; 8; 16384] = [0; 0; 0; 0; 0; 8192; 8192; 8192].
Proof. vm_compute. reflexivity. Qed.
