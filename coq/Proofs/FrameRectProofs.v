(* The frame rectangle the Writer holds is legal in every reachable state: non-empty, inside the canvas, and - until the first image has
   been written - the canvas itself.  Hence every fcTL any history emits is legal and the first one covers the canvas (C12), and every
   setter call with parameters that would break this is refused with an error and changes nothing (C19: invalid parameters are errors). *)
From PngV Require Import Model.FrameRect.
From Coq Require Import List ZArith Bool Lia ZifyBool.
Import ListNotations.
Local Open Scope Z_scope.

Definition rect_ok (s : fstate) : Prop :=
  0 < r_w (rc s) /\ 0 < r_h (rc s) /\ 0 <= r_x (rc s) /\ 0 <= r_y (rc s) /\
  r_x (rc s) + r_w (rc s) <= cw s /\ r_y (rc s) + r_h (rc s) <= ch s /\
  (written s = false -> rc s = full s).

Lemma init_ok w h : 0 < w -> 0 < h -> rect_ok (f_init w h).
Proof. intros Hw Hh. unfold rect_ok, f_init, full. cbn. repeat split; try lia. Qed.

Lemma with_info_ok w h r s : 0 < w -> 0 < h -> f_with_info w h r = Some s -> rect_ok s.
Proof.
  intros Hw Hh. unfold f_with_info. destruct ((r_x r =? 0) && (r_y r =? 0) && (r_w r =? w) && (r_h r =? h)) eqn:E; [|discriminate].
  intro H. injection H as <-. unfold rect_ok, full. cbn. destruct r as [rw rh rx ry]. cbn in *.
  assert (rx = 0 /\ ry = 0 /\ rw = w /\ rh = h) as (-> & -> & -> & ->) by lia. repeat split; try lia.
Qed.

(* with_info refuses exactly the frame controls that are not the canvas rectangle *)
Theorem with_info_refusal_exact w h r : f_with_info w h r = None <-> r <> mk_rect w h 0 0.
Proof.
  unfold f_with_info. destruct r as [rw rh rx ry]. cbn [r_w r_h r_x r_y].
  destruct ((rx =? 0) && (ry =? 0) && (rw =? w) && (rh =? h)) eqn:E; split; intro H.
  - discriminate H.
  - exfalso. apply H. assert (rx = 0 /\ ry = 0 /\ rw = w /\ rh = h) as (-> & -> & -> & ->) by lia. reflexivity.
  - intro Heq. assert (rx = 0 /\ ry = 0 /\ rw = w /\ rh = h) as (-> & -> & -> & ->) by (inversion Heq; auto). rewrite !Z.eqb_refl in E. discriminate E.
  - reflexivity.
Qed.

(* the parameters are u32 values *)
Definition op_u32 (o : fop) : Prop := match o with FDim w h => 0 <= w /\ 0 <= h | FPos x y => 0 <= x /\ 0 <= y | _ => True end.

Theorem step_keeps_rect_ok s o : 0 < cw s -> 0 < ch s -> op_u32 o -> rect_ok s -> rect_ok (fst (fstep s o)) /\ cw (fst (fstep s o)) = cw s /\ ch (fst (fstep s o)) = ch s.
Proof.
  intros Hcw Hch Hu (Hw & Hh & Hx & Hy & Hxw & Hyh & Hfirst). unfold op_u32 in Hu.
  destruct o as [w h|x y| | |]; cbn [fstep]; unfold exceeds.
  - destruct (_ || _ || _) eqn:E; [cbn; unfold rect_ok; auto 10|].
    destruct ((w =? 0) || (h =? 0)) eqn:E0; [cbn; unfold rect_ok; auto 10|].
    cbn [fst cw ch]. split; [|auto]. unfold rect_ok, full. cbn [rc r_w r_h r_x r_y cw ch written].
    destruct (cw s <? r_x (rc s)) eqn:A; [cbn in E; discriminate|]. destruct (ch s <? r_y (rc s)) eqn:B; [rewrite orb_true_r in E; cbn in E; discriminate|].
    repeat split; try lia.
    intro Hwr. rewrite Hwr in E. cbn [negb andb] in E. specialize (Hfirst Hwr). unfold full in Hfirst. rewrite Hfirst. cbn. f_equal; lia.
  - destruct (_ || _ || _) eqn:E; [cbn; unfold rect_ok; auto 10|].
    cbn [fst cw ch]. split; [|auto]. unfold rect_ok, full. cbn [rc r_w r_h r_x r_y cw ch written].
    destruct (cw s <? r_w (rc s)) eqn:A; [cbn in E; discriminate|]. destruct (ch s <? r_h (rc s)) eqn:B; [rewrite orb_true_r in E; cbn in E; discriminate|].
    repeat split; try lia.
    intro Hwr. rewrite Hwr in E. cbn [negb andb] in E. specialize (Hfirst Hwr). unfold full in Hfirst. rewrite Hfirst. cbn. f_equal; lia.
  - cbn [fst cw ch]. split; [|auto]. unfold rect_ok, full. cbn [rc r_w r_h r_x r_y cw ch written]. repeat split; try lia.
    intro Hwr. specialize (Hfirst Hwr). unfold full in Hfirst. rewrite Hfirst. cbn. f_equal; lia.
  - cbn [fst cw ch]. split; [|auto]. unfold rect_ok, full. cbn [rc r_w r_h r_x r_y cw ch written]. repeat split; try lia.
    intro Hwr. specialize (Hfirst Hwr). unfold full in Hfirst. rewrite Hfirst. reflexivity.
  - cbn [fst cw ch]. split; [|auto]. unfold rect_ok. cbn [rc written cw ch]. repeat split; try lia.
Qed.

(* a refused setter changes nothing *)
Theorem refused_setter_changes_nothing s o : snd (fstep s o) = FRErr -> fst (fstep s o) = s.
Proof.
  destruct o as [w h|x y| | |]; cbn [fstep].
  - destruct (_ || _ || _); [reflexivity|]. destruct (_ || _); [reflexivity | discriminate].
  - destruct (_ || _ || _); [reflexivity | discriminate].
  - discriminate.
  - discriminate.
  - discriminate.
Qed.

(* an accepted set_frame_dimension / set_frame_position had legal parameters: what is illegal is refused *)
Theorem accepted_setter_was_legal s o : 0 < cw s -> 0 < ch s -> op_u32 o -> rect_ok s -> snd (fstep s o) = FROk ->
  match o with
  | FDim w h => 0 < w /\ 0 < h /\ r_x (rc s) + w <= cw s /\ r_y (rc s) + h <= ch s /\ (written s = false -> w = cw s /\ h = ch s)
  | FPos x y => 0 <= x /\ 0 <= y /\ x + r_w (rc s) <= cw s /\ y + r_h (rc s) <= ch s /\ (written s = false -> x = 0 /\ y = 0)
  | _ => True
  end.
Proof.
  intros Hcw Hch Hu (Hw & Hh & Hx & Hy & Hxw & Hyh & Hfirst). unfold op_u32 in Hu.
  destruct o as [w h|x y| | |]; cbn [fstep]; unfold exceeds; try (intros; exact I).
  - destruct (_ || _ || _) eqn:E; [discriminate|]. destruct ((w =? 0) || (h =? 0)) eqn:E0; [discriminate|]. intros _.
    destruct (cw s <? r_x (rc s)) eqn:A; [cbn in E; discriminate|]. destruct (ch s <? r_y (rc s)) eqn:B; [rewrite orb_true_r in E; cbn in E; discriminate|].
    repeat split; try lia. all: intro Hwr; rewrite Hwr in E; cbn [negb andb] in E; lia.
  - destruct (_ || _ || _) eqn:E; [discriminate|]. intros _.
    destruct (cw s <? r_w (rc s)) eqn:A; [cbn in E; discriminate|]. destruct (ch s <? r_h (rc s)) eqn:B; [rewrite orb_true_r in E; cbn in E; discriminate|].
    repeat split; try lia. all: intro Hwr; rewrite Hwr in E; cbn [negb andb] in E; lia.
Qed.

(* every fcTL a history emits carries a legal rectangle, and the first one covers the canvas *)
Fixpoint fctls (rs : list fres) : list rect := match rs with [] => [] | FRFctl r :: t => r :: fctls t | _ :: t => fctls t end.

Definition rect_legal (w h : Z) (r : rect) : Prop :=
  0 < r_w r /\ 0 < r_h r /\ 0 <= r_x r /\ 0 <= r_y r /\ r_x r + r_w r <= w /\ r_y r + r_h r <= h.

Lemma run_fctls_legal : forall ops s, 0 < cw s -> 0 < ch s -> Forall op_u32 ops -> rect_ok s ->
  Forall (rect_legal (cw s) (ch s)) (fctls (frun s ops)) /\
  (written s = false -> match fctls (frun s ops) with [] => True | r :: _ => r = full s end).
Proof.
  induction ops as [|o ops IH]; intros s Hcw Hch Hu Hok; [cbn; split; [constructor | auto]|].
  inversion Hu as [|? ? Hu1 Hu2]; subst.
  cbn [frun]. destruct (fstep s o) as [s' res] eqn:E.
  pose proof (step_keeps_rect_ok s o Hcw Hch Hu1 Hok) as (Hok' & Ew & Eh). rewrite E in Hok', Ew, Eh. cbn [fst] in *.
  destruct (IH s' ltac:(lia) ltac:(lia) Hu2 Hok') as [F1 F2]. rewrite Ew, Eh in F1.
  destruct o as [w0 h0|x0 y0| | |]; cbn [fstep] in E.
  1,2,3,4: assert (Hx : fctls (res :: frun s' ops) = fctls (frun s' ops)) by
    (repeat match type of E with context [if ?c then _ else _] => destruct c end; injection E as <- <-; reflexivity).
  1,2,3,4: rewrite Hx; split; [exact F1|]; intro Hwr;
    assert (Hw' : written s' = false) by (repeat match type of E with context [if ?c then _ else _] => destruct c end; injection E as <- _; cbn; exact Hwr);
    specialize (F2 Hw'); destruct (fctls (frun s' ops)) as [|r t]; [exact I|];
    rewrite F2; unfold full; rewrite Ew, Eh; reflexivity.
  - injection E as <- <-. cbn [fctls]. split.
    + constructor; [|exact F1]. destruct Hok as (A & B & C & D & G & H & _). unfold rect_legal. repeat split; lia.
    + intro Hwr. destruct Hok as (_ & _ & _ & _ & _ & _ & Hf). exact (Hf Hwr).
Qed.

Theorem every_fctl_is_legal_and_the_first_covers_the_canvas w h ops : 0 < w -> 0 < h -> Forall op_u32 ops ->
  Forall (rect_legal w h) (fctls (frun (f_init w h) ops)) /\
  match fctls (frun (f_init w h) ops) with [] => True | r :: _ => r = mk_rect w h 0 0 end.
Proof.
  intros Hw Hh Hu. destruct (run_fctls_legal ops (f_init w h) Hw Hh Hu (init_ok w h Hw Hh)) as [A B]. split; [exact A | exact (B eq_refl)].
Qed.

(* non-vacuity: setters before the first image are refused, after it sub-rectangles are accepted, an overflowing position is refused *)
Example rect_demo :
  frun_codes 8 8 [FDim 4 4; FPos 1 1; FImage; FDim 4 4; FPos 5 1; FPos 4 4; FImage; FResetPos; FResetDim; FImage]
  = [[1]; [1]; [2; 8; 8; 0; 0]; [0]; [1]; [0]; [2; 4; 4; 4; 4]; [0]; [0]; [2; 8; 8; 0; 0]].
Proof. vm_compute. reflexivity. Qed.
