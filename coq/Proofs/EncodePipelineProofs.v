(* Encoding then decoding rows is the identity, for every filter method incl. adaptive, every pixel size, every row
   length and every content (C03 core): the decoder's row pipeline applied to the encoder's stream returns the rows. *)
From PngV Require Import Base.Bytes Spec.FilterSpec Gen.GenPaeth Model.Filter Proofs.PaethProofs Proofs.ListX Proofs.FilterProofs
     Proofs.FilterEncProofs Model.Pipeline Proofs.PipelineProofs Model.EncodePipeline.

Lemma filter_model_out_length P m bpp prev cur rf out k :
  (forall a b c, byte_ok a -> byte_ok b -> byte_ok c -> P a b c = paeth_spec a b c) ->
  (0 < bpp)%nat -> (0 < k)%nat -> length cur = (k * bpp)%nat -> length prev = length cur -> bytes_ok prev -> bytes_ok cur ->
  filter_model m bpp prev cur = Some (rf, out) -> length out = length cur /\ bytes_ok out.
Proof.
  intros HP Hbpp Hk Hlen Hpl Hprev Hcur Hm.
  pose proof Hm as Hm'. apply filter_model_choice in Hm'.
  assert (Hge : (bpp <= length cur)%nat) by nia.
  rewrite filter_internal_model_spec in Hm' by assumption. inversion Hm' as [Hout].
  split; [apply filt_win_length | apply filt_win_bytes].
Qed.

(* rows after the first: encoder and decoder use the same previous row *)
Lemma encode_decode_later (P : Z -> Z -> Z -> Z) :
  (forall a b c, byte_ok a -> byte_ok b -> byte_ok c -> P a b c = paeth_spec a b c) ->
  forall m bpp k, (0 < bpp)%nat -> (0 < k)%nat ->
  forall rows prev stream,
    Forall (fun r => length r = (k * bpp)%nat /\ bytes_ok r) rows -> length prev = (k * bpp)%nat -> bytes_ok prev ->
    encode_rows m bpp prev rows = Some stream ->
    unfilter_rows P bpp (k * bpp) (length rows) prev stream = Ok (rows, []).
Proof.
  intros HP m bpp k Hbpp Hk. induction rows as [|r rows IH]; intros prev stream Hf Hpl Hpb He.
  - cbn in He. inversion He; subst. reflexivity.
  - cbn [encode_rows] in He. destruct (filter_model m bpp prev r) as [[rf out]|] eqn:Ef; [|discriminate].
    destruct (encode_rows m bpp r rows) as [rest|] eqn:Er; [|discriminate]. inversion He; subst stream. clear He.
    pose proof (Forall_inv Hf) as [Hrl Hrb]. pose proof (Forall_inv_tail Hf) as Hf'.
    destruct (filter_model_out_length P m bpp prev r rf out k HP Hbpp Hk Hrl ltac:(congruence) Hpb Hrb Ef) as [Hol Hob].
    cbn [unfilter_rows length].
    assert (Hlt : (length (out ++ rest) <? k * bpp)%nat = false) by (apply Nat.ltb_ge; rewrite app_length; lia).
    rewrite Hlt. rewrite row_filter_from_u8_spec.
    assert (Eft : ftype_of_Z (ftype_to_Z rf) = Some rf) by (destruct rf; reflexivity). rewrite Eft. cbn [option_map].
    rewrite firstn_app_len by lia. rewrite skipn_app_len by lia.
    destruct (filter_unfilter_roundtrip P HP m bpp prev r rf out k Hbpp Hk Hrl ltac:(congruence) Hpb Hrb Ef) as [Hrt _].
    rewrite Hrt. rewrite (IH r rest Hf' Hrl Hrb Er). reflexivity.
Qed.

(* THE ROUND TRIP: the first row is filtered against a zero row by the encoder and reconstructed with an absent previous
   row by the decoder *)
Theorem encode_decode_rows (P : Z -> Z -> Z -> Z) :
  (forall a b c, byte_ok a -> byte_ok b -> byte_ok c -> P a b c = paeth_spec a b c) ->
  forall m bpp k rows stream, (0 < bpp)%nat -> (0 < k)%nat ->
    Forall (fun r => length r = (k * bpp)%nat /\ bytes_ok r) rows ->
    encode_image m bpp (k * bpp) rows = Some stream ->
    unfilter_rows P bpp (k * bpp) (length rows) [] stream = Ok (rows, []).
Proof.
  intros HP m bpp k rows stream Hbpp Hk Hf He. unfold encode_image in He.
  destruct rows as [|r rows]; [cbn in He; inversion He; reflexivity|].
  cbn [encode_rows] in He. destruct (filter_model m bpp (zeros (k * bpp)) r) as [[rf out]|] eqn:Ef; [|discriminate].
  destruct (encode_rows m bpp r rows) as [rest|] eqn:Er; [|discriminate]. inversion He; subst stream. clear He.
  pose proof (Forall_inv Hf) as [Hrl Hrb]. pose proof (Forall_inv_tail Hf) as Hf'.
  assert (Hzl : length (zeros (k * bpp)) = length r) by (rewrite zeros_length; congruence).
  destruct (filter_model_out_length P m bpp _ r rf out k HP Hbpp Hk Hrl Hzl (zeros_bytes _) Hrb Ef) as [Hol Hob].
  cbn [unfilter_rows length].
  assert (Hlt : (length (out ++ rest) <? k * bpp)%nat = false) by (apply Nat.ltb_ge; rewrite app_length; lia).
  rewrite Hlt. rewrite row_filter_from_u8_spec.
  assert (Eft : ftype_of_Z (ftype_to_Z rf) = Some rf) by (destruct rf; reflexivity). rewrite Eft. cbn [option_map].
  rewrite firstn_app_len by lia. rewrite skipn_app_len by lia.
  destruct (filter_unfilter_roundtrip P HP m bpp _ r rf out k Hbpp Hk Hrl Hzl (zeros_bytes _) Hrb Ef) as [_ Hrt].
  rewrite Hrt by (rewrite Hrl; reflexivity).
  rewrite (encode_decode_later P HP m bpp k Hbpp Hk rows r rest Hf' Hrl Hrb Er). reflexivity.
Qed.

Lemma filter_model_total m bpp prev cur :
  (0 < bpp)%nat -> (bpp <= length cur)%nat -> length prev = length cur -> bytes_ok prev -> bytes_ok cur ->
  exists rf out, filter_model m bpp prev cur = Some (rf, out).
Proof.
  intros Hbpp Hge Hpl Hpb Hcb.
  assert (T : forall f, filter_internal_model f bpp prev cur = Some (filt_spec f bpp prev cur)) by (intro f; apply filter_internal_model_spec; assumption).
  destruct m as [f|]; unfold filter_model.
  - rewrite T. cbn. eauto.
  - cbn [fold_left]. rewrite !T.
    repeat match goal with |- context [if ?c then _ else _] => destruct c end; cbn; rewrite ?T; cbn; eauto.
Qed.

(* the encoder never refuses well-shaped rows *)
Theorem encode_total m bpp k : (0 < bpp)%nat -> (0 < k)%nat -> forall rows prev,
  Forall (fun r => length r = (k * bpp)%nat /\ bytes_ok r) rows -> length prev = (k * bpp)%nat -> bytes_ok prev ->
  exists stream, encode_rows m bpp prev rows = Some stream.
Proof.
  intros Hbpp Hk. induction rows as [|r rows IH]; intros prev Hf Hpl Hpb; [eexists; reflexivity|].
  pose proof (Forall_inv Hf) as [Hrl Hrb]. pose proof (Forall_inv_tail Hf) as Hf'.
  cbn [encode_rows].
  assert (Hge : (bpp <= length r)%nat) by nia.
  destruct (filter_model_total m bpp prev r Hbpp Hge ltac:(congruence) Hpb Hrb) as (rf & out & Ef). rewrite Ef.
  destruct (IH r Hf' Hrl Hrb) as [rest Er]. rewrite Er. eexists; reflexivity.
Qed.
