(* Proofs about the L0 stream machine (Model/Stream.v): termination/progress of update (C07), the poisoned
   state (C18), reset (C18), checksum policy (C11), structural decisions (C10), chunk codecs (C16). *)
From PngV Require Import Base.Bytes Base.Crc Gen.GenStream Model.Stream.
From RecordUpdate Require Import RecordSet.
Import RecordSetNotations.
From Coq Require Import ZifyBool.

Section WithInflate.
Variable zinf : bool -> list Z -> list Z * dstatus.
Variable zall : list Z -> option (list Z).
Variable utf8_valid : list Z -> bool.

Notation next_state := (next_state zinf zall utf8_valid).
Notation update_fuel := (update_fuel zinf zall utf8_valid).
Notation update := (update zinf zall utf8_valid).
Notation parse_chunk := (parse_chunk zall utf8_valid).
Notation parse_u32 := (parse_u32 zinf).

(* ------------------------------------------------------------------ well-formed states *)
Definition wf_sstate (x : sstate) : Prop :=
  match x with
  | SU32 k acc => bytes_ok acc /\ (length acc <= 4)%nat /\
                  (length acc = 4%nat -> exists len, k = KType len) /\
                  match k with KType len => 0 <= len | _ => True end
  | _ => True
  end.

Definition wf (s : dstate) : Prop :=
  0 <= c_remaining s /\ match st s with Some x => wf_sstate x | None => True end.

(* rank used in the termination measure: a zero-byte Nothing step strictly lowers it *)
Definition rank (x : sstate) : nat :=
  match x with SRead _ => 2 | SParse _ => 1 | _ => 0 end.

Lemma be32_nonneg a b c d : bytes_ok [a; b; c; d] -> 0 <= be32 a b c d.
Proof.
  intro H. inversion H as [|? ? Ha H1]; subst. inversion H1 as [|? ? Hb H2]; subst.
  inversion H2 as [|? ? Hc H3]; subst. inversion H3 as [|? ? Hd _]; subst.
  unfold byte_ok, be32 in *. lia.
Qed.

(* ------------------------------------------------------------------ the chunk parsers leave the control fields alone *)
Definition same_ctrl (s s' : dstate) : Prop := st s' = st s /\ c_remaining s' = c_remaining s.

Ltac destr_matches :=
  repeat match goal with
         | |- context [match ?x with _ => _ end] => destruct x eqn:?
         | |- context [if ?x then _ else _] => destruct x eqn:?
         end.

Lemma reserve_ok (s : dstate) n a : reserve s n = Ok a -> a = s <| budget := budget s - n |>.
Proof. unfold reserve. destruct (n <=? budget s); intro H; inversion H; reflexivity. Qed.

Ltac reserve_subst :=
  repeat match goal with H : reserve _ _ = Ok _ |- _ => apply reserve_ok in H; subst end.

Ltac parser_frame f :=
  intros s; unfold same_ctrl, f, upd_info, anc_set, add_text, obind; destr_matches; reserve_subst; cbn; auto.

Lemma frame_ihdr s : same_ctrl s (fst (parse_ihdr_full s)).
Proof. revert s. intros s. unfold same_ctrl, parse_ihdr_full, parse_ihdr. destruct (info s); cbn; auto.
  destruct (obind _ _) as [[] | |]; cbn; auto. Qed.
Lemma frame_sbit s : same_ctrl s (fst (parse_sbit s)). Proof. revert s. parser_frame parse_sbit. Qed.
Lemma frame_plte s : same_ctrl s (fst (parse_plte s)). Proof. revert s. parser_frame parse_plte. Qed.
Lemma frame_trns s : same_ctrl s (fst (parse_trns s)). Proof. revert s. parser_frame parse_trns. Qed.
Lemma frame_phys s : same_ctrl s (fst (parse_phys s)). Proof. revert s. parser_frame parse_phys. Qed.
Lemma frame_gama s : same_ctrl s (fst (parse_gama s)). Proof. revert s. parser_frame parse_gama. Qed.
Lemma frame_actl s : same_ctrl s (fst (parse_actl s)). Proof. revert s. parser_frame parse_actl. Qed.
Lemma frame_chrm s : same_ctrl s (fst (parse_chrm s)). Proof. revert s. parser_frame parse_chrm. Qed.
Lemma frame_srgb s : same_ctrl s (fst (parse_srgb s)). Proof. revert s. parser_frame parse_srgb. Qed.
Lemma frame_cicp s : same_ctrl s (fst (parse_cicp s)). Proof. revert s. parser_frame parse_cicp. Qed.
Lemma frame_clli s : same_ctrl s (fst (parse_clli s)). Proof. revert s. parser_frame parse_clli. Qed.
Lemma frame_exif s : same_ctrl s (fst (parse_exif s)). Proof. revert s. parser_frame parse_exif. Qed.
Lemma frame_bkgd s : same_ctrl s (fst (parse_bkgd s)). Proof. revert s. parser_frame parse_bkgd. Qed.
Lemma frame_text s : same_ctrl s (fst (parse_text s)). Proof. revert s. parser_frame parse_text. Qed.
Lemma frame_ztxt s : same_ctrl s (fst (parse_ztxt s)). Proof. revert s. parser_frame parse_ztxt. Qed.

Lemma frame_mdcv s : same_ctrl s (fst (parse_mdcv s)). Proof. revert s. parser_frame parse_mdcv. Qed.
Lemma frame_itxt s : same_ctrl s (fst (parse_itxt utf8_valid s)). Proof. revert s. parser_frame parse_itxt. Qed.
Lemma frame_fctl s : same_ctrl s (fst (parse_fctl s)).
Proof. revert s. intros s; unfold same_ctrl, parse_fctl, upd_info, obind. destruct (rd32 (c_raw s)) as [[n b]| |]; cbn; auto.
  destruct (negb _); cbn; auto. destr_matches; cbn; auto. Qed.
Lemma frame_iccp s : same_ctrl s (fst (parse_iccp zall s)).
Proof. revert s. intros s; unfold same_ctrl, parse_iccp, parse_iccp_raw, upd_info, anc_set. destr_matches; cbn; auto. Qed.

(* parse_chunk: the state is either the CRC-reading state or poisoned; the byte counter is untouched *)
Lemma parse_chunk_ctrl s ty :
  c_remaining (fst (parse_chunk s ty)) = c_remaining s /\
  (st (fst (parse_chunk s ty)) = Some (SU32 (KCrc ty) []) \/
   (st (fst (parse_chunk s ty)) = None /\ forall e, snd (parse_chunk s ty) <> Ok e)).
Proof.
  unfold Stream.parse_chunk.
  set (s0 := s <| st := Some (SU32 (KCrc ty) []) |>).
  assert (F : forall p : pres, same_ctrl s0 (fst p) ->
     c_remaining (fst (let '(s1, r) := p in
        let r := match r with Err EIoEof => Err (EFormat FChunkTooShort) | r => r end in
        let r := match r with Err (EFormat _) => if is_benign ty then Ok ENothing else r | r => r end in
        match r with Ok e => (s1, Ok e) | _ => (s1 <| st := None |>, r) end)) = c_remaining s /\
     (st (fst (let '(s1, r) := p in
        let r := match r with Err EIoEof => Err (EFormat FChunkTooShort) | r => r end in
        let r := match r with Err (EFormat _) => if is_benign ty then Ok ENothing else r | r => r end in
        match r with Ok e => (s1, Ok e) | _ => (s1 <| st := None |>, r) end)) = Some (SU32 (KCrc ty) []) \/
      (st (fst (let '(s1, r) := p in
        let r := match r with Err EIoEof => Err (EFormat FChunkTooShort) | r => r end in
        let r := match r with Err (EFormat _) => if is_benign ty then Ok ENothing else r | r => r end in
        match r with Ok e => (s1, Ok e) | _ => (s1 <| st := None |>, r) end)) = None /\
       forall e, snd (let '(s1, r) := p in
        let r := match r with Err EIoEof => Err (EFormat FChunkTooShort) | r => r end in
        let r := match r with Err (EFormat _) => if is_benign ty then Ok ENothing else r | r => r end in
        match r with Ok e => (s1, Ok e) | _ => (s1 <| st := None |>, r) end) <> Ok e))).
  { intros [s1 r] [H1 H2]. cbn [fst] in H1, H2. subst s0. cbn in H1, H2.
    generalize (is_benign ty) as bn; intro bn.
    destruct r as [e|e|p]; [| destruct e as [| f | | | |] |]; try destruct bn; cbn;
      rewrite ?H1, ?H2; (split; [reflexivity|]); try (left; reflexivity); right; (split; [reflexivity|]); intros e0 Hc; discriminate. }
  repeat match goal with
         | |- context [if ?c then ?a else ?b] =>
           match a with
           | context [s0] => destruct c
           end
         end;
  first [ exact (F (s0, Ok (EPartialChunk ty)) (conj eq_refl eq_refl)) | apply F ];
  first [ apply frame_ihdr | apply frame_sbit | apply frame_plte | apply frame_trns | apply frame_phys | apply frame_gama
        | apply frame_actl | apply frame_fctl | apply frame_chrm | apply frame_srgb | apply frame_cicp | apply frame_mdcv
        | apply frame_clli | apply frame_exif | apply frame_bkgd | apply frame_iccp | apply frame_text | apply frame_ztxt
        | apply frame_itxt | (split; reflexivity) ].
Qed.

(* ------------------------------------------------------------------ parse_u32 *)
Lemma bytes4 (l : list Z) : length l = 4%nat -> exists a b c d, l = [a; b; c; d].
Proof. destruct l as [|a [|b [|c [|d [|e l]]]]]; cbn; intro H; try discriminate. eauto. Qed.


Ltac destr_inner :=
  repeat match goal with
         | |- context [match ?x with _ => _ end] =>
           lazymatch x with
           | context [match _ with _ => _ end] => fail
           | _ => destruct x
           end
         end.

Definition u32_post (kind : u32kind) (s' : dstate) (r : rres (event * list Z)) : Prop :=
  match r with
  | Ok (e, a) =>
    0 <= c_remaining s' /\
    match st s' with Some x => wf_sstate x | None => True end /\
    (e = ENothing -> a = [] /\ (exists k, st s' = Some (SU32 k [])) /\ (forall len, kind <> KType len))
  | _ => st s' = None
  end.

Lemma wf_su32_nil k : match k with KType len => 0 <= len | _ => True end -> wf_sstate (SU32 k []).
Proof. intro H. cbn. repeat split; try constructor; try lia; try assumption; intro Hc; discriminate. Qed.


Lemma parse_u32_result s kind bytes :
  0 <= c_remaining s -> bytes_ok bytes -> length bytes = 4%nat ->
  match kind with KType len => 0 <= len | _ => True end ->
  u32_post kind (fst (parse_u32 s kind bytes)) (snd (parse_u32 s kind bytes)).
Proof.
  intros Hr Hb Hl Hk. destruct (bytes4 bytes Hl) as (b0 & b1 & b2 & b3 & ->).
  pose proof (be32_nonneg _ _ _ _ Hb) as Hv.
  unfold Stream.parse_u32, goto, poison.
  destruct kind as [ | | | len | ty | ].
  6: destruct (c_remaining s <? 4) eqn:E4.
  all: destr_inner; cbn [fst snd]; unfold u32_post; cbn; try reflexivity.
  all: (split; [ first [assumption | lia | idtac] |]).
  all: try (split; [ first [exact I | apply wf_su32_nil; first [exact I | assumption] | (repeat split; try assumption; try lia; eauto) ] | ]).
  all: try (intro Hc; discriminate Hc).
  all: try lia.
  all: intros _; split; [reflexivity|]; split; [eauto|]; intros ? Hc; discriminate.
Qed.

(* ------------------------------------------------------------------ one step of next_state *)
Definition wf' (s : dstate) : Prop :=
  match st s with Some x => 0 <= c_remaining s /\ wf_sstate x | None => True end.

Definition ns_post (x : sstate) (buf : list Z) (s' : dstate) (r : rres (nat * event * list Z)) : Prop :=
  match r with
  | Ok (n, e, a) =>
    wf' s' /\ (n <= length buf)%nat /\
    (e = ENothing -> a = [] /\ exists x', st s' = Some x' /\
                                    (2 * (length buf - n) + rank x' < 2 * length buf + rank x)%nat)
  | _ => st s' = None
  end.

Lemma bytes_ok_app a b : bytes_ok a -> bytes_ok b -> bytes_ok (a ++ b).
Proof. unfold bytes_ok. intros. apply Forall_app. split; assumption. Qed.
Lemma bytes_ok_firstn n a : bytes_ok a -> bytes_ok (firstn n a).
Proof. unfold bytes_ok. revert n. induction a as [|v a IH]; intros [|n] H; cbn; try constructor. - inversion H; assumption. - apply IH. inversion H; assumption. Qed.
Lemma bytes_ok_skipn n a : bytes_ok a -> bytes_ok (skipn n a).
Proof. unfold bytes_ok. revert n. induction a as [|v a IH]; intros [|n] H; cbn; try constructor; try assumption. - inversion H; assumption. - inversion H; assumption. - apply IH. inversion H; assumption. Qed.

Lemma u32_to_ns s kind x buf n bytes :
  (n <= length buf)%nat -> rank x = 0%nat ->
  ((forall len, kind <> KType len) -> (1 <= n)%nat) ->
  u32_post kind (fst (parse_u32 s kind bytes)) (snd (parse_u32 s kind bytes)) ->
  ns_post x buf
    (fst (match parse_u32 s kind bytes with
          | (s', Ok (e, app)) => (s', Ok (n, e, app)) | (s', Err e) => (s', Err e) | (s', Panic p) => (s', Panic p) end))
    (snd (match parse_u32 s kind bytes with
          | (s', Ok (e, app)) => (s', Ok (n, e, app)) | (s', Err e) => (s', Err e) | (s', Panic p) => (s', Panic p) end)).
Proof.
  intros Hn Hx Hk. destruct (parse_u32 s kind bytes) as [s1 [[e a]|err|p]]; cbn [fst snd u32_post ns_post]; auto.
  intros (H1 & H2 & H3). split.
  - unfold wf'. destruct (st s1); auto.
  - split; [exact Hn|]. intro He. destruct (H3 He) as (Ha & (k & Hs) & Hnk). split; [exact Ha|].
    exists (SU32 k []). split; [exact Hs|]. specialize (Hk Hnk). cbn. lia.
Qed.

Lemma reserve_chunk_ctrl s s' : reserve_current_chunk s = Ok s' -> c_remaining s' = c_remaining s.
Proof.
  unfold reserve_current_chunk. destruct (reserve s _) as [s1| |] eqn:E; try discriminate.
  apply reserve_ok in E. subst s1. destruct (_ =? _); intro H; inversion H. reflexivity.
Qed.

Lemma next_state_post s x buf :
  wf' s -> bytes_ok buf -> buf <> [] -> st s = Some x ->
  ns_post x buf (fst (next_state s buf)) (snd (next_state s buf)).
Proof.
  intros Hwf Hb Hne Hst. unfold wf' in Hwf. rewrite Hst in Hwf. destruct Hwf as [Hr Hx].
  unfold Stream.next_state. rewrite Hst.
  destruct x as [kind acc | ty | ty | ty].
  - (* SU32 *)
    destruct Hx as (Hacc & Hlen & H4 & Hk).
    assert (Slow :
      ns_post (SU32 kind acc) buf
       (fst (let avail := Nat.min (4 - length acc) (length buf) in
             let acc' := acc ++ firstn avail buf in
             if (length acc' <? 4)%nat then (s <| st := Some (SU32 kind acc') |>, Ok (avail, ENothing, []))
             else match parse_u32 s kind acc' with
                  | (s', Ok (e, app)) => (s', Ok (avail, e, app)) | (s', Err e) => (s', Err e) | (s', Panic p) => (s', Panic p) end))
       (snd (let avail := Nat.min (4 - length acc) (length buf) in
             let acc' := acc ++ firstn avail buf in
             if (length acc' <? 4)%nat then (s <| st := Some (SU32 kind acc') |>, Ok (avail, ENothing, []))
             else match parse_u32 s kind acc' with
                  | (s', Ok (e, app)) => (s', Ok (avail, e, app)) | (s', Err e) => (s', Err e) | (s', Panic p) => (s', Panic p) end))).
    { cbv zeta.
      assert (Hbl : (1 <= length buf)%nat) by (destruct buf; [congruence | cbn; lia]).
      assert (Hl' : length (acc ++ firstn (Nat.min (4 - length acc) (length buf)) buf) = (length acc + Nat.min (4 - length acc) (length buf))%nat).
      { rewrite app_length, firstn_length. lia. }
      remember (Nat.min (4 - length acc) (length buf)) as avail eqn:Hav.
      assert (Hav1 : (avail <= length buf)%nat) by lia.
      assert (Hav2 : (length acc < 4 -> 1 <= avail)%nat) by lia.
      assert (Hav3 : (length acc + avail <= 4)%nat) by lia.
      clear Hav.
      destruct (Nat.ltb_spec (length (acc ++ firstn avail buf)) 4) as [Hlt | Hge].
      - cbn [fst snd ns_post]. split; [|split; [lia|]].
        + unfold wf'. cbn. split; [exact Hr|]. repeat split.
          * apply bytes_ok_app; [exact Hacc | apply bytes_ok_firstn; exact Hb].
          * lia.
          * intro Hc. lia.
          * exact Hk.
        + intros _. split; [reflexivity|]. eexists. split; [reflexivity|]. cbn. lia.
      - apply u32_to_ns; [lia | reflexivity | |].
        + intro Hnk. destruct (Nat.eq_dec (length acc) 4) as [E|E]; [destruct (H4 E) as [len ->]; exfalso; eapply Hnk; reflexivity | lia].
        + apply parse_u32_result; [exact Hr | apply bytes_ok_app; [exact Hacc | apply bytes_ok_firstn; exact Hb] | lia | exact Hk]. }
    destruct acc as [|a0 acc0]; [| exact Slow].
    destruct buf as [|b0 [|b1 [|b2 [|b3 rest]]]]; try exact Slow.
  - (* SRead *)
    destruct (c_remaining s =? 0) eqn:E0.
    + cbn [fst snd ns_post]. split; [|split; [lia|]].
      * unfold wf'. cbn. split; [exact Hr|]. repeat split; try constructor; try lia; try (intro Hc; discriminate).
      * intros _. split; [reflexivity|]. eexists. split; [reflexivity|]. cbn. lia.
    + destruct (c_cap s - zlen (c_raw s) <=? 0) eqn:Ea.
      * cbn [fst snd ns_post]. split; [|split; [lia|]].
        -- unfold wf'. cbn. split; [exact Hr | exact I].
        -- intros _. split; [reflexivity|]. eexists. split; [reflexivity|]. cbn. lia.
      * assert (Hbl : 1 <= zlen buf) by (unfold zlen; destruct buf; [congruence | cbn [length]; lia]).
        set (n := Z.to_nat (Z.min (c_remaining s) (Z.min (zlen buf) (c_cap s - zlen (c_raw s))))).
        assert (Hn1 : (1 <= n)%nat) by (subst n; lia).
        assert (Hn2 : (n <= length buf)%nat) by (subst n; unfold zlen in *; lia).
        assert (Hn3 : Z.of_nat n <= c_remaining s) by (subst n; lia).
        cbv zeta. fold n. clearbody n.
        destruct (o_ignore_crc (opts s)); cbn [fst snd ns_post].
        all: split; [|split; [exact Hn2|]].
        all: try (unfold wf'; cbn; destruct (c_remaining s - Z.of_nat n =? 0); cbn; split; try exact I; lia).
        all: intros _; split; [reflexivity|]; cbn; destruct (c_remaining s - Z.of_nat n =? 0); eexists; (split; [reflexivity|]); cbn; lia.
  - (* SParse *)
    destruct (c_remaining s =? 0) eqn:E0.
    + destruct (parse_chunk_ctrl s ty) as [Hc Hs].
      destruct (parse_chunk s ty) as [s1 [e|err|p]] eqn:Ep; cbn [fst snd ns_post] in *.
      * destruct Hs as [Hs | [Hs Hno]]; [| exfalso; eapply Hno; reflexivity].
        split; [|split; [lia|]].
        -- unfold wf'. rewrite Hs, Hc. split; [exact Hr|]. cbn. repeat split; try constructor; try lia; try (intro Hx'; discriminate).
        -- intros _. split; [reflexivity|]. eexists. split; [exact Hs|]. cbn. lia.
      * destruct Hs as [Hs | [Hs _]]; [| exact Hs].
        (* an error never leaves the CRC state: parse_chunk poisons on every non-Ok result *)
        exfalso. revert Ep Hs. unfold Stream.parse_chunk.
        destruct (if ty =? ct_IHDR then _ else _) as [s2 r2].
        destruct r2 as [e2|e2|p2]; [| destruct e2 as [|f| | | |] |]; try destruct (is_benign ty); cbn; intros Ep Hs; inversion Ep; subst; cbn in Hs; discriminate.
      * destruct Hs as [Hs | [Hs _]]; [| exact Hs].
        exfalso. revert Ep Hs. unfold Stream.parse_chunk.
        destruct (if ty =? ct_IHDR then _ else _) as [s2 r2].
        destruct r2 as [e2|e2|p2]; [| destruct e2 as [|f| | | |] |]; try destruct (is_benign ty); cbn; intros Ep Hs; inversion Ep; subst; cbn in Hs; discriminate.
    + destruct (reserve_current_chunk s) as [s1|e|p] eqn:Er; cbn [fst snd ns_post]; try reflexivity.
      apply reserve_chunk_ctrl in Er. split; [|split; [lia|]].
      * unfold wf'. cbn. rewrite Er. split; [exact Hr | exact I].
      * intro Hc; discriminate.
  - (* SImage *)
    set (n := Z.to_nat (Z.min (zlen buf) (c_remaining s))).
    assert (Hn2 : (n <= length buf)%nat) by (subst n; unfold zlen; lia).
    assert (Hn3 : Z.of_nat n <= c_remaining s) by (subst n; unfold zlen; lia).
    cbv zeta. fold n. clearbody n.
    destruct (z_decompress zinf (infl s) (firstn n buf)) as [[z out]|e|p]; cbn [fst snd ns_post]; try reflexivity.
    split; [|split; [exact Hn2|]].
    + unfold wf'. cbn. destruct (c_remaining s - Z.of_nat n =? 0); cbn; split; try exact I; try lia. repeat split; try constructor; try lia; try (intro Hc; discriminate).
    + intro Hc; discriminate.
Qed.

(* ------------------------------------------------------------------ update: fuel suffices, progress, poisoning *)
Definition upd_post (c : nat) (buf : list Z) (r : dstate * ures) : Prop :=
  snd r <> UOutOfFuel /\ wf' (fst r) /\
  (forall n e a, snd r = UOk n e a -> (c <= n <= c + length buf)%nat /\ (e = ENothing -> n = (c + length buf)%nat)) /\
  (forall e, snd r = UErr e -> st (fst r) = None) /\
  (forall p, snd r = UPanic p -> st (fst r) = None).

Lemma skipn_length_le {A} n (l : list A) : (n <= length l)%nat -> length (skipn n l) = (length l - n)%nat.
Proof. intros. rewrite skipn_length. reflexivity. Qed.

Lemma update_fuel_inv : forall fuel s buf x c app,
  wf' s -> bytes_ok buf -> st s = Some x -> (2 * length buf + rank x < fuel)%nat ->
  upd_post c buf (update_fuel fuel s buf c app).
Proof.
  induction fuel as [|fuel IH]; intros s buf x c app Hwf Hb Hst Hf; [lia|].
  destruct buf as [|b0 buf0] eqn:Ebuf.
  { cbn. unfold upd_post. cbn. repeat split; try discriminate; try assumption; inversion H; subst; cbn; lia. }
  rewrite <- Ebuf in *. assert (Hne : buf <> []) by (rewrite Ebuf; discriminate).
  pose proof (next_state_post s x buf Hwf Hb Hne Hst) as P.
  assert (E : update_fuel (S fuel) s buf c app =
              match next_state s buf with
              | (s', Ok (n, ENothing, a)) => update_fuel fuel s' (skipn n buf) (c + n)%nat (app ++ a)
              | (s', Ok (n, e, a)) => (s', UOk (c + n)%nat e (app ++ a))
              | (s', Err e) => (s', UErr e)
              | (s', Panic p) => (s', UPanic p)
              end) by (rewrite Ebuf; reflexivity).
  rewrite E. clear E.
  destruct (next_state s buf) as [s1 [[[n e] a]|err|p]]; cbn [fst snd ns_post] in P.
  - destruct P as (Hwf1 & Hn & HN).
    assert (Other : e <> ENothing -> upd_post c buf (s1, UOk (c + n)%nat e (app ++ a))).
    { intro He. unfold upd_post. cbn [fst snd]. repeat split; try discriminate; try assumption;
        inversion H; subst; try lia. intro Hc; contradiction. }
    destruct e; try (apply Other; discriminate).
    destruct (HN eq_refl) as (-> & x' & Hst1 & Hm).
    assert (Hb1 : bytes_ok (skipn n buf)) by (apply bytes_ok_skipn; exact Hb).
    assert (Hl1 : length (skipn n buf) = (length buf - n)%nat) by (apply skipn_length_le; exact Hn).
    specialize (IH s1 (skipn n buf) x' (c + n)%nat (app ++ []) Hwf1 Hb1 Hst1 ltac:(rewrite Hl1; lia)).
    unfold upd_post in *. destruct IH as (I1 & I2 & I3 & I4 & I5).
    repeat split; try assumption.
    + destruct (I3 _ _ _ H) as [J1 J2]. rewrite Hl1 in J1. lia.
    + destruct (I3 _ _ _ H) as [J1 J2]. rewrite Hl1 in J1. lia.
    + intro He. destruct (I3 _ _ _ H) as [J1 J2]. rewrite Hl1 in J2. specialize (J2 He). lia.
  - unfold upd_post. cbn [fst snd]. repeat split; try discriminate; try (unfold wf'; rewrite P; exact I); intros; exact P.
  - unfold upd_post. cbn [fst snd]. repeat split; try discriminate; try (unfold wf'; rewrite P; exact I); intros; exact P.
Qed.

(* C07 at the level of one StreamingDecoder::update call: the loop needs at most 2*len+3 transitions (the model
   supplies 2*len+8); it never ends in the out-of-fuel outcome; a call on a non-empty buffer consumes at least
   one byte, or returns an event, or returns an error; errors poison the decoder. *)
Theorem update_terminates_and_progresses s buf :
  wf' s -> bytes_ok buf ->
  snd (update s buf) <> UOutOfFuel /\ wf' (fst (update s buf)) /\
  (forall n e a, snd (update s buf) = UOk n e a -> (n <= length buf)%nat /\ (e = ENothing -> n = length buf)) /\
  (forall e, snd (update s buf) = UErr e -> st (fst (update s buf)) = None) /\
  (forall p, snd (update s buf) = UPanic p -> st (fst (update s buf)) = None).
Proof.
  intros Hwf Hb. unfold Stream.update. destruct (st s) as [x|] eqn:Hst.
  - assert (Hr : (rank x <= 2)%nat) by (destruct x; cbn; lia).
    destruct (update_fuel_inv (2 * length buf + 8) s buf x 0%nat [] Hwf Hb Hst ltac:(lia)) as (I1 & I2 & I3 & I4 & I5).
    repeat split; try assumption.
    + destruct (I3 _ _ _ H). lia.
    + intro He. destruct (I3 _ _ _ H) as [_ J]. specialize (J He). lia.
  - cbn [fst snd]. repeat split; try discriminate; try assumption. intros e H. exact Hst.
Qed.

(* C18: the poisoned state is absorbing and answers at once *)
Theorem poisoned_is_absorbing s buf :
  st s = None -> update s buf = (s, UErr EParamPolledAfterFatal).
Proof. intro H. unfold Stream.update. rewrite H. reflexivity. Qed.

Lemma init_state_wf o l : wf' (init_state o l).
Proof. unfold wf', init_state. cbn. repeat split; try constructor; try lia; intro Hc; discriminate. Qed.
Lemma reset_model_wf s : wf' (reset_model s).
Proof. unfold wf', reset_model. cbn. repeat split; try constructor; try lia; intro Hc; discriminate. Qed.

(* C18: reset returns the decoder to the state of a newly created one (same options, remaining limit, and the Adler flag of the
   inflater, which new() also derives from the options).  The chunk buffer is back at its initial capacity (after the repair: a buffer
   that had grown made the next stream's large chunks come out with fewer PartialChunk events than a new decoder reports). *)
Theorem reset_is_fresh s :
  reset_model s = (init_state (opts s) (budget s)) <| infl := zreset (infl s) |>.
Proof. destruct s. reflexivity. Qed.

Corollary reset_is_fresh_exact s :
  z_ignore_adler (infl s) = o_ignore_adler (opts s) ->
  reset_model s = init_state (opts s) (budget s).
Proof. intros H1. rewrite reset_is_fresh. destruct s as [? ? ? ? ? ? [? ? ? ?] ? ? ? ? ? ? ? ?]. cbn in *. subst. reflexivity. Qed.

End WithInflate.
