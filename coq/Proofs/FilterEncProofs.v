(* Encoder side: filter_internal_model = filt_spec; spec round trip; model round trip (C14 part 2). *)
From PngV Require Import Base.Bytes Spec.FilterSpec Gen.GenPaeth Model.Filter Proofs.ListX
     Proofs.PaethProofs Proofs.FilterProofs.
From Coq Require Import ZifyBool.

(* ---- the bitwise average is the floor of half the sum, for all 65536 byte pairs (finite sweep, lifted) *)
Definition range256 : list Z := map Z.of_nat (seq 0 256).

Lemma range256_in x : byte_ok x -> In x range256.
Proof.
  unfold byte_ok, range256. intros H. apply in_map_iff. exists (Z.to_nat x). split; [lia|].
  apply in_seq. lia.
Qed.

Definition avg_bits_check : bool :=
  forallb (fun x => forallb (fun y => avg_bits x y =? (x + y) / 2) range256) range256.

Lemma avg_bits_check_true : avg_bits_check = true.
Proof. vm_compute. reflexivity. Qed.

Lemma avg_bits_eq x y : byte_ok x -> byte_ok y -> avg_bits x y = (x + y) / 2.
Proof.
  intros Hx Hy. pose proof avg_bits_check_true as H. unfold avg_bits_check in H.
  rewrite forallb_forall in H. specialize (H x (range256_in x Hx)).
  rewrite forallb_forall in H. specialize (H y (range256_in y Hy)).
  apply Z.eqb_eq in H. exact H.
Qed.

(* ---- a window of length n>0 started at [w] reads, at step i, element i of (w ++ raw) *)
Lemma filt_win_shift P ft : forall raw wa wc prior,
  (0 < length wa)%nat -> length wc = length wa -> length prior = length raw ->
  filt_win P ft wa wc raw prior = map4 (filt_byte P ft) raw (wa ++ raw) prior (wc ++ prior).
Proof.
  induction raw as [|x raw IH]; intros [|a wa] [|c wc] [|b prior] Hn Hc Hp; simpl in *; try lia; auto.
  f_equal.
  rewrite IH; [| rewrite app_length; simpl; lia | rewrite !app_length; simpl; lia | lia].
  rewrite <- !app_assoc. reflexivity.
Qed.

(* truncation: the maps stop at the shortest list *)
Lemma map2_firstn_r {A B C} (f : A -> B -> C) : forall l1 l2,
  map2 f l1 (firstn (length l1) l2) = map2 f l1 l2.
Proof. induction l1 as [|a l1 IH]; intros [|b l2]; simpl; auto. f_equal. apply IH. Qed.

Lemma map3_firstn_2 {A B C D} (f : A -> B -> C -> D) : forall l1 l2 l3,
  map3 f l1 (firstn (length l1) l2) l3 = map3 f l1 l2 l3.
Proof. induction l1 as [|a l1 IH]; intros [|b l2] [|c l3]; simpl; auto. f_equal. apply IH. Qed.

Lemma map4_firstn_24 {A B C D E} (f : A -> B -> C -> D -> E) : forall l1 l2 l3 l4,
  map4 f l1 (firstn (length l1) l2) l3 (firstn (length l1) l4) = map4 f l1 l2 l3 l4.
Proof.
  induction l1 as [|a l1 IH]; intros [|b l2] [|c l3] [|d l4]; simpl; auto.
  f_equal. apply IH.
Qed.

Lemma map4_to_map2_2 (f : Z -> Z -> Z) (g : Z -> Z -> Z -> Z -> Z) :
  (forall x a b c, g x a b c = f x a) ->
  forall l1 l2 l3 l4, (length l1 <= length l3)%nat -> (length l1 <= length l4)%nat ->
  map4 g l1 l2 l3 l4 = map2 f l1 l2.
Proof.
  intros H. induction l1 as [|x l1 IH]; intros [|a l2] [|b l3] [|c l4] H3 H4; simpl in *; try lia; auto.
  rewrite H. f_equal. apply IH; lia.
Qed.

Lemma map4_to_map2_3 (f : Z -> Z -> Z) (g : Z -> Z -> Z -> Z -> Z) :
  (forall x a b c, g x a b c = f x b) ->
  forall l1 l2 l3 l4, (length l1 <= length l2)%nat -> (length l1 <= length l4)%nat ->
  map4 g l1 l2 l3 l4 = map2 f l1 l3.
Proof.
  intros H. induction l1 as [|x l1 IH]; intros [|a l2] [|b l3] [|c l4] H2 H4; simpl in *; try lia; auto.
  rewrite H. f_equal. apply IH; lia.
Qed.

Lemma map4_to_self (g : Z -> Z -> Z -> Z -> Z) :
  (forall x a b c, byte_ok x -> g x a b c = x) ->
  forall l1 l2 l3 l4, bytes_ok l1 ->
  (length l1 <= length l2)%nat -> (length l1 <= length l3)%nat -> (length l1 <= length l4)%nat ->
  map4 g l1 l2 l3 l4 = l1.
Proof.
  intros H. induction l1 as [|x l1 IH]; intros [|a l2] [|b l3] [|c l4] F H2 H3 H4; simpl in *; try lia; auto.
  inversion F; subst. rewrite H by assumption. f_equal. apply IH; auto; lia.
Qed.

Lemma map4_to_map3 (f : Z -> Z -> Z -> Z) (g : Z -> Z -> Z -> Z -> Z) :
  (forall x a b c, byte_ok a -> byte_ok b -> g x a b c = f x a b) ->
  forall l1 l2 l3 l4, bytes_ok l2 -> bytes_ok l3 -> (length l1 <= length l4)%nat ->
  map4 g l1 l2 l3 l4 = map3 f l1 l2 l3.
Proof.
  intros H. induction l1 as [|x l1 IH]; intros [|a l2] [|b l3] [|c l4] F2 F3 H4; simpl in *; try lia; auto.
  inversion F2; inversion F3; subst. rewrite H by assumption. f_equal. apply IH; auto; lia.
Qed.

Lemma map4_ext_in (f g : Z -> Z -> Z -> Z -> Z) :
  (forall x a b c, byte_ok a -> byte_ok b -> byte_ok c -> f x a b c = g x a b c) ->
  forall l1 l2 l3 l4, bytes_ok l2 -> bytes_ok l3 -> bytes_ok l4 ->
  map4 f l1 l2 l3 l4 = map4 g l1 l2 l3 l4.
Proof.
  intros H. induction l1 as [|x l1 IH]; intros [|a l2] [|b l3] [|c l4] F2 F3 F4; simpl; auto.
  inversion F2; inversion F3; inversion F4; subst. rewrite H by assumption. f_equal. apply IH; auto.
Qed.

Lemma map4_zeros (g : Z -> Z -> Z -> Z -> Z) (f : Z -> Z -> Z) :
  (forall x b, byte_ok b -> g x 0 b 0 = f x b) ->
  forall l1 l3 n, bytes_ok l3 -> (length l1 <= n)%nat ->
  map4 g l1 (zeros n) l3 (zeros n) = map2 f l1 l3.
Proof.
  intros H. induction l1 as [|x l1 IH]; intros [|b l3] [|n] F Hn; simpl in *; try lia; auto.
  inversion F; subst. rewrite H by assumption. f_equal. apply IH; auto. lia.
Qed.

Lemma map2_sub8_zeros : forall (l : list Z) n, bytes_ok l -> (length l <= n)%nat -> map2 sub8 l (zeros n) = l.
Proof.
  induction l as [|x l IH]; intros [|n] H Hl; simpl in *; try lia; auto.
  inversion H; subst. unfold sub8 at 1. rewrite Z.sub_0_r, byte_mod by assumption. f_equal.
  apply IH; auto. lia.
Qed.

(* ------------------------------------------------------------------ B. encoder model = specification *)
Theorem filter_internal_model_spec ft bpp prev cur :
  (0 < bpp)%nat -> (bpp <= length cur)%nat -> length prev = length cur ->
  bytes_ok prev -> bytes_ok cur ->
  filter_internal_model ft bpp prev cur = Some (filt_spec ft bpp prev cur).
Proof.
  intros Hbpp Hlen Hpl Hprev Hcur.
  unfold filter_internal_model.
  assert (E1 : (length cur <? bpp)%nat = false) by (apply Nat.ltb_ge; lia).
  assert (E2 : (length prev =? length cur)%nat = true) by (apply Nat.eqb_eq; lia).
  rewrite E1, E2. cbn [orb negb]. f_equal.
  unfold filt_spec.
  rewrite filt_win_shift by (rewrite ?zeros_length; lia).
  destruct (split_at cur bpp) as (c1 & c2 & -> & L1); [lia|].
  destruct (split_at prev bpp) as (p1 & p2 & -> & L2); [lia|].
  rewrite !app_length in *.
  apply Forall_app in Hprev as [Hp1 Hp2]. apply Forall_app in Hcur as [Hc1 Hc2].
  assert (L3 : length p2 = length c2) by lia.
  assert (Hn : (length c1 + length c2 - bpp = length c2)%nat) by lia.
  rewrite Hn.
  rewrite ?(firstn_app_len c1 c2 bpp L1), ?(firstn_app_len p1 p2 bpp L2),
          ?(skipn_app_len c1 c2 bpp L1), ?(skipn_app_len p1 p2 bpp L2).
  rewrite map4_app by (rewrite ?zeros_length; lia).
  destruct ft.
  - (* None *)
    rewrite <- map4_app by (rewrite ?zeros_length; lia).
    rewrite map4_to_self; auto; rewrite ?app_length, ?zeros_length; try lia.
    + intros. unfold filt_byte. simpl. rewrite Z.sub_0_r. apply byte_mod. assumption.
    + apply Forall_app; auto.
  - (* Sub *)
    rewrite chunked_map2_eq by (rewrite firstn_length, app_length; lia).
    rewrite map2_firstn_r.
    rewrite !(map4_to_map2_2 sub8) by (try reflexivity; rewrite ?app_length, ?zeros_length; lia).
    rewrite map2_sub8_zeros by (auto; lia). reflexivity.
  - (* Up *)
    rewrite chunked_map2_eq by (rewrite !app_length; lia).
    rewrite !(map4_to_map2_3 sub8) by (try reflexivity; rewrite ?app_length, ?zeros_length; lia).
    rewrite map2_app by lia. reflexivity.
  - (* Avg *)
    rewrite chunked_map3_eq by (rewrite ?firstn_length, ?app_length; lia).
    rewrite map3_firstn_2. f_equal.
    + symmetry. apply map4_zeros; [ intros x b Hb; unfold filt_byte, sub8; simpl; reflexivity | auto | lia ].
    + symmetry. apply map4_to_map3.
      * intros x a b c Ha Hb. unfold filt_byte, sub8. cbn [predictor]. rewrite avg_bits_eq by assumption. reflexivity.
      * apply Forall_app; auto.
      * assumption.
      * rewrite app_length. lia.
  - (* Paeth *)
    rewrite chunked_map4_eq by (rewrite ?firstn_length, ?app_length; lia).
    rewrite map4_firstn_24. f_equal.
    + symmetry. apply map4_zeros; [ | auto | lia ].
      intros x b Hb. unfold filt_byte, sub8. cbn [predictor].
      rewrite paeth_encode_eq; auto; unfold byte_ok; lia.
    + apply map4_ext_in; try (apply Forall_app; auto); auto.
      intros x a b c Ha Hb Hc. unfold filt_byte, sub8. cbn [predictor]. rewrite paeth_encode_eq; auto.
Qed.

(* ------------------------------------------------------------------ C. specification round trip *)
Lemma recon_filt_byte P ft x a b c : byte_ok x -> recon_byte P ft (filt_byte P ft x a b c) a b c = x.
Proof.
  intros Hx. unfold recon_byte, filt_byte. rewrite Zplus_mod_idemp_l.
  replace (x - predictor P ft a b c + predictor P ft a b c) with x by lia. apply byte_mod. assumption.
Qed.

Theorem recon_filt_win P ft : forall raw wa wc prior, bytes_ok raw ->
  recon_win P ft wa wc (filt_win P ft wa wc raw prior) prior = raw.
Proof.
  induction raw as [|x raw IH]; intros wa wc prior H; simpl; auto. inversion H; subst.
  rewrite recon_filt_byte by assumption. f_equal. apply IH. assumption.
Qed.

Corollary recon_filt_spec ft bpp prior raw : bytes_ok raw ->
  recon_spec ft bpp prior (filt_spec ft bpp prior raw) = raw.
Proof. apply recon_filt_win. Qed.

Lemma filt_win_bytes P ft : forall raw wa wc prior, bytes_ok (filt_win P ft wa wc raw prior).
Proof. induction raw; intros; simpl; constructor; [apply mod256_byte | apply IHraw]. Qed.

Lemma filt_win_length P ft : forall raw wa wc prior, length (filt_win P ft wa wc raw prior) = length raw.
Proof. induction raw; intros; simpl; auto. Qed.

(* ------------------------------------------------------------------ the adaptive choice is a legal filter *)
Lemma filter_model_choice m bpp prev cur rf out :
  filter_model m bpp prev cur = Some (rf, out) ->
  filter_internal_model rf bpp prev cur = Some out.
Proof.
  destruct m as [f|]; simpl.
  - destruct (filter_internal_model f bpp prev cur) eqn:E; simpl; intros H; inversion H; subst; exact E.
  - match goal with |- context [match ?e with Some _ => _ | None => _ end] => destruct e as [[choice ms]|] end;
      [|discriminate].
    destruct (filter_internal_model choice bpp prev cur) eqn:E; simpl; intros H; inversion H; subst. exact E.
Qed.

(* ------------------------------------------------------------------ model round trip (C14 part 2) *)
Theorem filter_unfilter_roundtrip P :
  (forall a b c, byte_ok a -> byte_ok b -> byte_ok c -> P a b c = paeth_spec a b c) ->
  forall m bpp prev cur rf out k,
  (0 < bpp)%nat -> (0 < k)%nat -> length cur = (k * bpp)%nat -> length prev = length cur ->
  bytes_ok prev -> bytes_ok cur ->
  filter_model m bpp prev cur = Some (rf, out) ->
  unfilter_model P (ftype_to_Z rf) bpp prev out = cur /\
  (prev = zeros (length cur) -> unfilter_model P (ftype_to_Z rf) bpp [] out = cur).
Proof.
  intros HP m bpp prev cur rf out k Hbpp Hk Hlen Hpl Hprev Hcur Hm.
  apply filter_model_choice in Hm.
  assert (Hge : (bpp <= length cur)%nat) by nia.
  rewrite filter_internal_model_spec in Hm by assumption. inversion Hm as [Hout]. clear Hm.
  assert (Hob : bytes_ok (filt_spec rf bpp prev cur)) by apply filt_win_bytes.
  assert (Hol : length (filt_spec rf bpp prev cur) = length cur) by apply filt_win_length.
  assert (Hft : ftype_of_Z (ftype_to_Z rf) = Some rf) by (destruct rf; reflexivity).
  split.
  - rewrite (unfilter_model_spec P HP _ rf bpp prev _ k Hft Hbpp Hob Hprev); [| right; lia | lia].
    apply recon_filt_spec. assumption.
  - intros Hz.
    rewrite (unfilter_model_spec P HP _ rf bpp [] _ k Hft Hbpp Hob); [| constructor | left; reflexivity | lia].
    unfold recon_spec. rewrite recon_win_nil_zeros. rewrite Hol, <- Hz.
    apply recon_filt_spec. assumption.
Qed.
