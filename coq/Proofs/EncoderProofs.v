(* The chunk sequence emitted by the Writer model for exactly the declared images is accepted by the strict
   validator, for every configuration (C12). *)
From Coq Require Import List Arith Bool Lia.
Import ListNotations.
From PngV Require Import Spec.Validator Model.Encoder.

Lemma vrun_app v a b : vrun v (a ++ b) = vrun (vrun v a) b.
Proof. unfold vrun. apply fold_left_app. Qed.

Lemma vrun_anc_header v n : ph v = PHeader -> vrun v (repeat KANC n) = v.
Proof. intro H. induction n as [|n IH]; cbn; [reflexivity|]. unfold vstep at 2. rewrite H. exact IH. Qed.

Definition cfg_ok (c : wcfg) : Prop := match animated c with Some n => 1 <= n | None => sep_def c = false end.

Lemma header_run c : cfg_ok c ->
  vrun v0 (header c) = mk_v PHeader (animated c) (has_plte c) 0 0 false.
Proof.
  intro Hc. unfold header. rewrite !vrun_app.
  assert (E1 : vrun v0 [KIHDR] = mk_v PHeader None false 0 0 false) by reflexivity. rewrite E1.
  rewrite (vrun_anc_header (mk_v PHeader None false 0 0 false) (anc_before c)) by reflexivity.
  unfold cfg_ok in Hc.
  assert (E2 : vrun (mk_v PHeader None false 0 0 false) (match animated c with Some n => [KACTL n] | None => [] end)
               = mk_v PHeader (animated c) false 0 0 false).
  { destruct (animated c) as [n|]; [|reflexivity]. cbn [vrun fold_left vstep ph actl]. destruct (Nat.eqb_spec n 0); [lia | reflexivity]. }
  rewrite E2.
  assert (E3 : vrun (mk_v PHeader (animated c) false 0 0 false) (if has_plte c then [KPLTE] else [])
               = mk_v PHeader (animated c) (has_plte c) 0 0 false) by (destruct (has_plte c); reflexivity).
  rewrite E3. apply vrun_anc_header. reflexivity.
Qed.

Lemma vrun_idats_more v n : ph v = PIdat -> vrun v (repeat KIDAT n) = v.
Proof. intro H. induction n as [|n IH]; cbn; [reflexivity|]. unfold vstep at 2. rewrite H. exact IH. Qed.

Lemma vrun_idats_first v n : ph v = PHeader -> 1 <= n -> vrun v (repeat KIDAT n) = to PIdat v.
Proof.
  intros H Hn. destruct n as [|n]; [lia|]. cbn [repeat vrun fold_left]. unfold vstep at 2. rewrite H.
  change (fold_left vstep (repeat KIDAT n) ?w) with (vrun w (repeat KIDAT n)). apply vrun_idats_more. reflexivity.
Qed.

Lemma vrun_fdats_more : forall n v q, ph v = PFdat -> next_seq v = q ->
  vrun v (fdats q n) = mk_v PFdat (actl v) (plte v) (q + n) (frames v) (fctl_before_idat v).
Proof.
  induction n as [|n IH]; intros v q Hp Hq; cbn [fdats vrun fold_left].
  - destruct v; cbn in *. subst. rewrite Nat.add_0_r. reflexivity.
  - unfold vstep at 2. rewrite Hp, Hq, Nat.eqb_refl.
    change (fold_left vstep (fdats (S q) n) ?w) with (vrun w (fdats (S q) n)).
    rewrite IH by reflexivity. cbn. f_equal. lia.
Qed.

Lemma vrun_fdats_first v q n : ph v = PFctl -> next_seq v = q -> 1 <= n ->
  vrun v (fdats q n) = mk_v PFdat (actl v) (plte v) (q + n) (frames v) (fctl_before_idat v).
Proof.
  intros Hp Hq Hn. destruct n as [|n]; [lia|]. cbn [fdats vrun fold_left]. unfold vstep at 2. rewrite Hp, Hq, Nat.eqb_refl.
  change (fold_left vstep (fdats (S q) n) ?w) with (vrun w (fdats (S q) n)).
  rewrite vrun_fdats_more by reflexivity. cbn. f_equal. lia.
Qed.

(* ---- the simulation invariant between the writer and the validator, after at least one image *)
Definition inv (c : wcfg) (nf : nat) (s : wstate) (v : vstate) : Prop :=
  animated c = Some nf /\ actl v = Some nf /\ (ph v = PIdat \/ ph v = PFdat) /\
  animation_written s = frames v /\ 1 <= images_written s /\
  (frames v < nf -> fctl_seq s = Some (next_seq v)) /\ (nf <= frames v -> fctl_seq s = None).

Lemma later_image c nf s v n : inv c nf s v -> frames v < nf -> 1 <= n ->
  let '(s', o) := write_image c s n in inv c nf s' (vrun v o) /\ frames (vrun v o) = S (frames v).
Proof.
  intros (Ha & Hact & Hph & Haw & Hiw & Hsome & Hnone) Hlt Hn.
  unfold write_image. rewrite (Hsome Hlt).
  assert (E0 : (images_written s =? 0) = false) by (apply Nat.eqb_neq; lia). rewrite E0, andb_false_r.
  assert (Hv : vrun v (KFCTL (next_seq v) :: fdats (S (next_seq v)) n) =
               mk_v PFdat (actl v) (plte v) (S (next_seq v) + n) (S (frames v)) (fctl_before_idat v)).
  { cbn [vrun fold_left]. change (fold_left vstep (fdats ?q n) ?w) with (vrun w (fdats q n)).
    assert (E1 : vstep v (KFCTL (next_seq v)) = mk_v PFctl (actl v) (plte v) (S (next_seq v)) (S (frames v)) (fctl_before_idat v)).
    { unfold vstep. destruct Hph as [-> | ->]; rewrite ?Hact, Nat.eqb_refl; reflexivity. }
    rewrite E1. rewrite vrun_fdats_first by (auto). reflexivity. }
  rewrite Hv. rewrite Ha. cbn [animation_written images_written fctl_seq iend_written].
  split; [|reflexivity].
  destruct (Nat.leb_spec nf (S (animation_written s))) as [Hle|Hgt]; cbn [frames actl ph next_seq];
    repeat split; auto; intros; cbn in *; try lia; try reflexivity; try (f_equal; lia).
Qed.

Lemma later_images c nf : forall ns s v,
  inv c nf s v -> frames v + length ns = nf -> Forall (fun n => 1 <= n) ns ->
  let '(s', o) := write_images c s ns in inv c nf s' (vrun v o) /\ frames (vrun v o) = nf.
Proof.
  induction ns as [|n ns IH]; intros s v Hi Hl Hf; cbn [write_images].
  - cbn [length] in Hl. cbn. split; [exact Hi | lia].
  - cbn [length] in Hl. pose proof (Forall_inv Hf) as Hn. pose proof (Forall_inv_tail Hf) as Hf'. cbn beta in Hn.
    pose proof (later_image c nf s v n Hi ltac:(lia) Hn) as L.
    destruct (write_image c s n) as [s1 o1]. destruct L as [Hi1 Hfr].
    specialize (IH s1 (vrun v o1) Hi1 ltac:(lia) Hf').
    destruct (write_images c s1 ns) as [s2 o2]. rewrite vrun_app. exact IH.
Qed.

Lemma end_ok c nf s v : inv c nf s v -> frames v = nf -> ph (vstep v KIEND) = PEnd.
Proof.
  intros (Ha & Hact & Hph & _) Hfr. unfold vstep. destruct Hph as [-> | ->]; rewrite Hact, Hfr, Nat.eqb_refl; reflexivity.
Qed.

Lemma first_image_sep c nf n : animated c = Some nf -> sep_def c = true -> 1 <= nf ->
  write_image c (w_init c) n = (mk_w 1 0 (Some 0) false, repeat KIDAT n).
Proof.
  intros Ha Hs Hn. unfold write_image, w_init. rewrite Ha, Hs. cbn.
  destruct (Nat.leb_spec nf 0); [lia | reflexivity].
Qed.

Lemma first_image_nosep c nf n : animated c = Some nf -> sep_def c = false ->
  write_image c (w_init c) n = ((if nf <=? 1 then mk_w 1 1 None false else mk_w 1 1 (Some 1) false), KFCTL 0 :: repeat KIDAT n).
Proof.
  intros Ha Hs. unfold write_image, w_init. rewrite Ha, Hs. cbn. destruct (nf <=? 1); reflexivity.
Qed.

Lemma single_image c n : animated c = None ->
  write_image c (w_init c) n = (mk_w 1 0 None false, repeat KIDAT n).
Proof. intros Ha. unfold write_image, w_init. rewrite Ha. reflexivity. Qed.

(* THE THEOREM: every configuration, exactly the declared images, each emitted as any positive number of data chunks *)
Theorem writer_output_conformant c ns :
  cfg_ok c -> length ns = declared_images c -> Forall (fun n => 1 <= n) ns ->
  conformant (emitted c ns) = true.
Proof.
  intros Hc Hl Hf. unfold conformant, emitted. rewrite !vrun_app, header_run by exact Hc.
  unfold declared_images in Hl. unfold cfg_ok in Hc.
  destruct (animated c) as [nf|] eqn:Ea.
  - (* animated *)
    destruct ns as [|n0 ns]; [destruct (sep_def c); cbn in Hl; lia|].
    pose proof (Forall_inv Hf) as Hn0. pose proof (Forall_inv_tail Hf) as Hf'. cbn beta in Hn0.
    cbn [write_images].
    destruct (sep_def c) eqn:Es.
    + (* separate default image: IDAT run without fcTL, then nf animation frames *)
      rewrite (first_image_sep c nf n0 Ea Es Hc).
      set (s1 := mk_w 1 0 (Some 0) false).
      set (v1 := vrun (mk_v PHeader (Some nf) (has_plte c) 0 0 false) (repeat KIDAT n0)).
      assert (Hv1 : v1 = mk_v PIdat (Some nf) (has_plte c) 0 0 false) by (subst v1; rewrite vrun_idats_first by auto; reflexivity).
      assert (Hi : inv c nf s1 v1).
      { rewrite Hv1. subst s1. repeat split; auto; cbn; intros; try lia; try reflexivity. }
      pose proof (later_images c nf ns s1 v1 Hi ltac:(rewrite Hv1; cbn in *; lia) Hf') as L.
      destruct (write_images c s1 ns) as [s2 o2]. destruct L as [Hi2 Hfr].
      cbn [snd]. rewrite !vrun_app. fold v1. cbn [vrun fold_left].
      rewrite (end_ok c nf s2 _ Hi2 Hfr). reflexivity.
    + (* the IDAT image is the first frame *)
      rewrite (first_image_nosep c nf n0 Ea Es).
      set (s1 := (if nf <=? 1 then mk_w 1 1 None false else mk_w 1 1 (Some 1) false)).
      set (v1 := vrun (mk_v PHeader (Some nf) (has_plte c) 0 0 false) (KFCTL 0 :: repeat KIDAT n0)).
      assert (Hv1 : v1 = mk_v PIdat (Some nf) (has_plte c) 1 1 true).
      { subst v1. cbn [vrun fold_left]. change (fold_left vstep (repeat KIDAT n0) ?w) with (vrun w (repeat KIDAT n0)).
        cbn [vstep ph actl next_seq fctl_before_idat Nat.eqb andb negb]. rewrite vrun_idats_first by auto. reflexivity. }
      assert (Hi : inv c nf s1 v1).
      { rewrite Hv1. subst s1. destruct (Nat.leb_spec nf 1); repeat split; auto; cbn; intros; try lia; try reflexivity. }
      pose proof (later_images c nf ns s1 v1 Hi ltac:(rewrite Hv1; cbn in *; lia) Hf') as L.
      destruct (write_images c s1 ns) as [s2 o2]. destruct L as [Hi2 Hfr].
      cbn [snd]. rewrite !vrun_app. fold v1. cbn [vrun fold_left].
      rewrite (end_ok c nf s2 _ Hi2 Hfr). reflexivity.
  - (* a single image *)
    destruct ns as [|n0 [|n1 ns]]; cbn in Hl; try lia.
    pose proof (Forall_inv Hf) as Hn0. cbn beta in Hn0.
    cbn [write_images]. rewrite (single_image c n0 Ea). cbn [snd app].
    rewrite ?vrun_app, ?app_nil_r. rewrite vrun_idats_first by auto. reflexivity.
Qed.
