(* C02 for the stream machine: no input, no option set, no limit and no way of cutting the input makes the model of StreamingDecoder::update
   reach one of its panic sites (the `unwrap` of the taken state, the `debug_assert!(remaining >= 4)` / subtraction of the fdAT sequence-number
   path), for ANY behaviour of the external inflater.  The chunk parsers have no panic outcome at all. *)
From PngV Require Import Base.Bytes Base.Crc Gen.GenStream Model.Stream Model.StreamRun Proofs.StreamProofs Proofs.StreamSplit Proofs.StreamWhole.
From RecordUpdate Require Import RecordSet.
Import RecordSetNotations.
From Coq Require Import ZifyBool.

Local Arguments Z.add : simpl never.
Local Arguments Z.sub : simpl never.
Local Arguments Z.of_nat : simpl never.
Local Arguments Z.to_nat : simpl never.

Section WithInflate.
Variable zinf : bool -> list Z -> list Z * dstatus.
Variable zall : list Z -> option (list Z).
Variable utf8_valid : list Z -> bool.
Notation next_state := (next_state zinf zall utf8_valid).
Notation parse_u32 := (parse_u32 zinf).
Notation parse_chunk := (parse_chunk zall utf8_valid).
Notation update_fuel := (update_fuel zinf zall utf8_valid).
Notation update := (update zinf zall utf8_valid).
Notation feed_piece := (feed_piece zinf zall utf8_valid).
Notation feed_go := (feed_go zinf zall utf8_valid).
Notation feed := (feed zinf zall utf8_valid).

(* innermost scrutinee first, so that every recorded equation is about one call *)
Ltac destr_matches :=
  repeat match goal with
         | |- context [match ?x with _ => _ end] =>
           lazymatch x with
           | context [match _ with _ => _ end] => fail
           | _ => destruct x eqn:?
           end
         end.

Definition no_panic {A} (r : rres A) : Prop := forall k, r <> Panic k.

(* ------------------------------------------------------------------ the chunk parsers have no panic outcome *)
Lemma rd8_np b k : rd8 b <> Panic k. Proof. unfold rd8. destr_matches; discriminate. Qed.
Lemma rd16_np b k : rd16 b <> Panic k. Proof. unfold rd16. destr_matches; discriminate. Qed.
Lemma rd32_np b k : rd32 b <> Panic k. Proof. unfold rd32. destr_matches; discriminate. Qed.
Lemma reserve_np s n k : reserve s n <> Panic k. Proof. unfold reserve. destr_matches; discriminate. Qed.
Lemma validate_fctl_np i f k : validate_fctl i f <> Panic k. Proof. unfold validate_fctl. destr_matches; discriminate. Qed.
Lemma split_keyword_np b k : split_keyword b <> Panic k. Proof. unfold split_keyword. destr_matches; discriminate. Qed.

Ltac np_fin :=
  cbn; first [ discriminate
             | exfalso; match goal with
                        | H : _ = Panic _ |- _ =>
                          first [ exact (rd8_np _ _ H) | exact (rd16_np _ _ H) | exact (rd32_np _ _ H) | exact (reserve_np _ _ _ H)
                                | exact (validate_fctl_np _ _ _ H) | exact (split_keyword_np _ _ H) ]
                        end ].
Ltac parser_np f := intros s k; unfold f, upd_info, anc_set, add_text, obind; destr_matches; np_fin.

Lemma np_ihdr0 s : no_panic (snd (parse_ihdr s)).
Proof. intro k. unfold parse_ihdr, obind. destr_matches; np_fin. Qed.
Lemma np_ihdr s : no_panic (snd (parse_ihdr_full s)).
Proof.
  intro k. unfold parse_ihdr_full. pose proof (np_ihdr0 s) as N. destruct (parse_ihdr s) as [s1 [e|e|p]]; cbn [snd] in *.
  - destruct e; cbn; discriminate.
  - cbn; discriminate.
  - exfalso. exact (N p eq_refl).
Qed.
Lemma np_sbit s : no_panic (snd (parse_sbit s)). Proof. revert s. parser_np parse_sbit. Qed.
Lemma np_plte s : no_panic (snd (parse_plte s)). Proof. revert s. parser_np parse_plte. Qed.
Lemma np_trns s : no_panic (snd (parse_trns s)). Proof. revert s. parser_np parse_trns. Qed.
Lemma np_phys s : no_panic (snd (parse_phys s)). Proof. revert s. parser_np parse_phys. Qed.
Lemma np_gama s : no_panic (snd (parse_gama s)). Proof. revert s. parser_np parse_gama. Qed.
Lemma np_actl s : no_panic (snd (parse_actl s)). Proof. revert s. parser_np parse_actl. Qed.
Lemma np_srgb s : no_panic (snd (parse_srgb s)). Proof. revert s. parser_np parse_srgb. Qed.
Lemma np_cicp s : no_panic (snd (parse_cicp s)). Proof. revert s. parser_np parse_cicp. Qed.
Lemma np_mdcv s : no_panic (snd (parse_mdcv s)). Proof. revert s. parser_np parse_mdcv. Qed.
Lemma np_clli s : no_panic (snd (parse_clli s)). Proof. revert s. parser_np parse_clli. Qed.
Lemma np_exif s : no_panic (snd (parse_exif s)). Proof. revert s. parser_np parse_exif. Qed.
Lemma np_bkgd s : no_panic (snd (parse_bkgd s)). Proof. revert s. parser_np parse_bkgd. Qed.
Lemma np_text s : no_panic (snd (parse_text s)). Proof. revert s. parser_np parse_text. Qed.
Lemma np_ztxt s : no_panic (snd (parse_ztxt s)). Proof. revert s. parser_np parse_ztxt. Qed.
Lemma np_itxt s : no_panic (snd (parse_itxt utf8_valid s)). Proof. revert s. parser_np parse_itxt. Qed.
Lemma np_iccp s : no_panic (snd (parse_iccp zall s)). Proof. revert s. parser_np parse_iccp. Qed.
Lemma np_fctl s : no_panic (snd (parse_fctl s)). Proof. revert s. parser_np parse_fctl. Qed.

Lemma rd32s_np : forall n b k, rd32s n b <> Panic k.
Proof.
  induction n as [|n IH]; intros b k; cbn [rd32s]; [discriminate|]. unfold obind. destr_matches; try discriminate.
  - exfalso. eapply IH. eassumption.
  - exfalso. eapply rd32_np. eassumption.
Qed.
Lemma np_chrm s : no_panic (snd (parse_chrm s)).
Proof.
  intro k. unfold parse_chrm. destruct (have_idat s); [cbn; discriminate|]. destruct (anc_has KChrm (the_info s)); [cbn; discriminate|].
  destruct (rd32s 8 (c_raw s)) as [[vs b]|e|p] eqn:E; cbn; try discriminate. exfalso. exact (rd32s_np _ _ _ E).
Qed.

Lemma parse_chunk_np s ty : no_panic (snd (parse_chunk s ty)).
Proof.
  intro k. unfold Stream.parse_chunk.
  set (s0 := s <| st := Some (SU32 (KCrc ty) []) |>).
  assert (F : forall p : pres, no_panic (snd p) ->
     snd (let '(s1, r) := p in
        let r := match r with Err EIoEof => Err (EFormat FChunkTooShort) | r => r end in
        let r := match r with Err (EFormat _) => if is_benign ty then Ok ENothing else r | r => r end in
        match r with Ok e => (s1, Ok e) | _ => (s1 <| st := None |>, r) end) <> Panic k).
  { intros [s1 r] Hn. cbn [snd] in Hn.
    generalize (is_benign ty) as bn; intro bn.
    destruct r as [e|e|p]; [| destruct e as [| f | | | |] |]; try destruct bn; cbn; try discriminate. all: exfalso; exact (Hn p eq_refl). }
  repeat match goal with
         | |- context [if ?c then ?a else ?b] =>
           match a with
           | context [s0] => destruct c
           end
         end;
  first [ exact (F (s0, Ok (EPartialChunk ty)) ltac:(intros ? ?; discriminate)) | apply F ];
  first [ apply np_ihdr | apply np_sbit | apply np_plte | apply np_trns | apply np_phys | apply np_gama
        | apply np_actl | apply np_fctl | apply np_chrm | apply np_srgb | apply np_cicp | apply np_mdcv
        | apply np_clli | apply np_exif | apply np_bkgd | apply np_iccp | apply np_text | apply np_ztxt
        | apply np_itxt ].
Qed.

(* ------------------------------------------------------------------ the field parser: its one panic site needs c_remaining < 4 in the KSeq state *)
Definition seq_ok (s : dstate) : Prop := forall acc, st s = Some (SU32 KSeq acc) -> 4 <= c_remaining s.

Lemma z_finish_np z : no_panic (z_finish zinf z).
Proof. intro k. unfold z_finish. destr_matches; discriminate. Qed.
Lemma z_decompress_np z d : no_panic (z_decompress zinf z d).
Proof. intro k. unfold z_decompress. destr_matches; discriminate. Qed.

Lemma parse_u32_np s kind bytes :
  (kind = KSeq -> 4 <= c_remaining s) ->
  (forall k, snd (parse_u32 s kind bytes) <> Panic k) /\
  (forall e a, snd (parse_u32 s kind bytes) = Ok (e, a) -> seq_ok (fst (parse_u32 s kind bytes))).
Proof.
  intro Hk. unfold Stream.parse_u32, goto, poison.
  generalize (match bytes with [a; b; c; d] => be32 a b c d | _ => 0 end). intro val. cbv zeta.
  destruct kind as [ | | | len | ty | ].
  6: { assert (E : (c_remaining s <? 4) = false) by (specialize (Hk eq_refl); lia). rewrite E.
       split; [intro k; destr_matches; cbn; discriminate|]. intros e a. destr_matches; cbn; intros _ acc Hs; cbn in Hs; congruence. }
  all: split; [intro k; destr_matches; cbn; try discriminate | intros e a; destr_matches; cbn; try discriminate; intros _ acc Hs; cbn in Hs; try congruence].
  (* the flush: z_finish has no panic outcome *)
  all: try (exfalso; match goal with H : z_finish _ _ = Panic _ |- _ => exact (z_finish_np _ _ H) end).
  (* an fdAT of at least 4 bytes enters the sequence-number state with all of them still to come *)
  all: match goal with H : (?len <? 4) = false |- _ => change (4 <= len); lia end.
Qed.

(* ------------------------------------------------------------------ one transition *)
Lemma ns_no_panic s x buf :
  wf' s -> seq_ok s -> st s = Some x -> buf <> [] ->
  (forall s' k, next_state s buf <> (s', Panic k)) /\
  (forall s' n e a, next_state s buf = (s', Ok (n, e, a)) -> seq_ok s').
Proof.
  intros Hw Hq Hst Hne. unfold wf' in Hw. rewrite Hst in Hw. destruct Hw as [Hr Hx].
  destruct x as [kind acc|ty|ty|ty].
  - rewrite (ns_u32 zinf zall utf8_valid s kind acc buf Hst Hne). cbv zeta.
    set (acc' := acc ++ firstn (Nat.min (4 - length acc) (length buf)) buf).
    destruct (length acc' <? 4)%nat.
    + split; [intros s' k Q; discriminate Q|]. intros s' n e a Q. assert (E : s' = s <| st := Some (SU32 kind acc') |>) by congruence. subst s'.
      intros acc0 Hs. cbn in Hs. injection Hs as -> _. replace (c_remaining (s <| st := Some (SU32 KSeq acc') |>)) with (c_remaining s) by (destruct s; reflexivity).
      exact (Hq acc Hst).
    + assert (Hk : kind = KSeq -> 4 <= c_remaining s) by (intros ->; exact (Hq acc Hst)).
      destruct (parse_u32_np s kind acc' Hk) as [N O]. unfold wrap.
      destruct (parse_u32 s kind acc') as [s1 [[e1 a1]|er|k]] eqn:P; cbn [fst snd] in *.
      * split; [intros s' k Q; discriminate Q|]. intros s' n e a Q. assert (E : s' = s1) by congruence. subst s'. exact (O e1 a1 eq_refl).
      * split; [intros s' k Q; discriminate Q | intros s' n e a Q; discriminate Q].
      * exfalso. exact (N k eq_refl).
  - unfold Stream.next_state. rewrite Hst.
    destruct (c_remaining s =? 0).
    { split; [intros s' k Q; discriminate Q|]. intros s' n e a Q. injection Q as <- _ _ _. intros acc Hs. cbn in Hs. congruence. }
    destruct (c_cap s - zlen (c_raw s) <=? 0).
    { split; [intros s' k Q; discriminate Q|]. intros s' n e a Q. injection Q as <- _ _ _. intros acc Hs. cbn in Hs. congruence. }
    cbv zeta. split; [intros s' k Q; discriminate Q|]. intros s' n e a Q. injection Q as <- _ _ _. intros acc Hs. cbn in Hs. destruct (_ =? 0) in Hs; congruence.
  - unfold Stream.next_state. rewrite Hst. destruct (c_remaining s =? 0).
    + pose proof (parse_chunk_np s ty) as N. pose proof (parse_chunk_ctrl zall utf8_valid s ty) as [_ C].
      destruct (parse_chunk s ty) as [s1 [e1|er|k]] eqn:P; cbn [fst snd] in *.
      * split; [intros s' k Q; discriminate Q|]. intros s' n e a Q. assert (E : s' = s1) by congruence. subst s'.
        destruct C as [C|[_ C]]; [|exfalso; eapply C; reflexivity]. intros acc Hs. congruence.
      * split; [intros s' k Q; discriminate Q | intros s' n e a Q; discriminate Q].
      * exfalso. exact (N k eq_refl).
    + unfold reserve_current_chunk, reserve. destr_matches; (split; [intros s' k Q; discriminate Q|]); intros s' n e a Q; try discriminate Q.
      injection Q as <- _ _ _. intros acc Hs. cbn in Hs. congruence.
  - rewrite (ns_image zinf zall utf8_valid s ty buf Hst).
    pose proof (z_decompress_np (infl s) (firstn (image_n s buf) buf)) as N.
    destruct (z_decompress zinf (infl s) (firstn (image_n s buf) buf)) as [[z o]|er|k].
    + split; [intros s' k Q; discriminate Q|]. intros s' n e a Q. injection Q as <- _ _ _. intros acc Hs. unfold image_to in Hs. cbn in Hs. destruct (_ =? 0) in Hs; congruence.
    + split; [intros s' k Q; discriminate Q | intros s' n e a Q; discriminate Q].
    + exfalso. exact (N k eq_refl).
Qed.

(* ------------------------------------------------------------------ the loops *)
Lemma update_fuel_no_panic : forall fuel s buf c app s' res,
  update_fuel fuel s buf c app = (s', res) -> wf' s -> seq_ok s -> bytes_ok buf -> st s <> None ->
  (forall k, res <> UPanic k) /\ (forall n e a, res = UOk n e a -> wf' s' /\ seq_ok s').
Proof.
  induction fuel as [|fuel IH]; intros s buf c app s' res U Hw Hq Hb Hl.
  - destruct buf as [|b0 buf0]; cbn in U; injection U as <- <-; (split; [intros k; discriminate|]); intros n e a Q; try discriminate Q. split; assumption.
  - destruct buf as [|b0 buf0] eqn:Ebuf.
    { cbn in U. injection U as <- <-. split; [intros k; discriminate|]. intros n e a _. split; assumption. }
    rewrite <- Ebuf in *. assert (Hne : buf <> []) by (rewrite Ebuf; discriminate).
    assert (E : update_fuel (S fuel) s buf c app =
              match next_state s buf with
              | (s1, Ok (n, ENothing, a)) => update_fuel fuel s1 (skipn n buf) (c + n)%nat (app ++ a)
              | (s1, Ok (n, e, a)) => (s1, UOk (c + n)%nat e (app ++ a))
              | (s1, Err e) => (s1, UErr e)
              | (s1, Panic p) => (s1, UPanic p)
              end) by (rewrite Ebuf; reflexivity).
    rewrite E in U. clear E.
    destruct (st s) as [x|] eqn:Hst; [|congruence].
    destruct (ns_no_panic s x buf Hw Hq Hst Hne) as [N O].
    pose proof (next_state_post zinf zall utf8_valid s x buf Hw Hb Hne Hst) as P.
    destruct (next_state s buf) as [s1 [[[k e1] a1]|er|kk]] eqn:Q; cbn [fst snd ns_post] in P.
    + assert (Direct : e1 <> ENothing -> (s1, UOk (c + k)%nat e1 (app ++ a1)) = (s', res) ->
                       (forall k0, res <> UPanic k0) /\ (forall n e a, res = UOk n e a -> wf' s' /\ seq_ok s')).
      { intros _ Hq'. injection Hq' as <- <-. split; [intros k0; discriminate|]. intros n e a _. split; [tauto | exact (O s1 k e1 a1 eq_refl)]. }
      destruct e1; try (apply Direct; [discriminate | exact U]).
      destruct P as (Hw1 & _ & HN). destruct (HN eq_refl) as (_ & x' & Hst1 & _).
      exact (IH s1 (skipn k buf) (c + k)%nat (app ++ a1) s' res U Hw1 (O s1 k ENothing a1 eq_refl) (bytes_ok_skipn k buf Hb) ltac:(congruence)).
    + injection U as <- <-. split; [intros k0; discriminate | intros n e a Q'; discriminate Q'].
    + exfalso. exact (N s1 kk eq_refl).
Qed.

Lemma feed_piece_no_panic : forall fuel s buf tr s' tr' r,
  feed_piece fuel s buf tr = (s', tr', r) -> wf' s -> seq_ok s -> bytes_ok buf ->
  (forall k, r <> Some (RPanic k)) /\ (r = None -> wf' s' /\ seq_ok s').
Proof.
  induction fuel as [|fuel IH]; intros s buf tr s' tr' r F Hw Hq Hb.
  - destruct buf; cbn in F; injection F as <- <- <-; (split; [intros k; discriminate|]); intro Q; try discriminate Q. split; assumption.
  - destruct buf as [|b0 buf0] eqn:Ebuf.
    { cbn in F. injection F as <- <- <-. split; [intros k; discriminate|]. intros _. split; assumption. }
    rewrite <- Ebuf in *.
    assert (E : feed_piece (S fuel) s buf tr =
              match update s buf with
              | (s1, UOk n e app) =>
                let tr1 := (e, app) :: tr in
                match e with
                | EImageEnd => (s1, tr1, Some (RImageEnd (length buf - n)))
                | _ => feed_piece fuel s1 (skipn n buf) tr1
                end
              | (s1, UErr e) => (s1, tr, Some (RErr e))
              | (s1, UPanic p) => (s1, tr, Some (RPanic p))
              | (s1, UOutOfFuel) => (s1, tr, Some RFuel)
              end) by (rewrite Ebuf; reflexivity).
    rewrite E in F. clear E.
    destruct (update s buf) as [s1 res] eqn:U.
    assert (UN : (forall k, res <> UPanic k) /\ (forall n e a, res = UOk n e a -> wf' s1 /\ seq_ok s1)).
    { unfold Stream.update in U. destruct (st s) eqn:Hst.
      - eapply update_fuel_no_panic; try eassumption. congruence.
      - injection U as <- <-. split; [intros k; discriminate | intros n e a Q; discriminate Q]. }
    destruct UN as [N O].
    destruct res as [n e a | er | kk |].
    + destruct (O n e a eq_refl) as [Hw1 Hq1].
      assert (Go : feed_piece fuel s1 (skipn n buf) ((e, a) :: tr) = (s', tr', r) -> (forall k, r <> Some (RPanic k)) /\ (r = None -> wf' s' /\ seq_ok s')).
      { intro F'. exact (IH s1 (skipn n buf) _ s' tr' r F' Hw1 Hq1 (bytes_ok_skipn n buf Hb)). }
      destruct e; try (apply Go; exact F).
      cbv zeta in F. injection F as <- <- <-. split; [intros k; discriminate | intro Q; discriminate Q].
    + injection F as <- <- <-. split; [intros k; discriminate | intro Q; discriminate Q].
    + exfalso. exact (N kk eq_refl).
    + injection F as <- <- <-. split; [intros k; discriminate | intro Q; discriminate Q].
Qed.

Lemma feed_go_no_panic : forall ps s tr, wf' s -> seq_ok s -> Forall bytes_ok ps -> forall k, snd (feed_go s ps tr) <> RPanic k.
Proof.
  induction ps as [|p ps IH]; intros s tr Hw Hq Hf k; [cbn; discriminate|].
  inversion Hf as [|? ? Hp Hps]; subst. cbn [StreamRun.feed_go].
  destruct (feed_piece (5 * length p + 8) s p tr) as [[s1 tr1] r1] eqn:FP.
  destruct (feed_piece_no_panic _ s p tr s1 tr1 r1 FP Hw Hq Hp) as [N G].
  destruct r1 as [r1|]; [cbn [snd]; intro Hc; apply (N k); congruence|].
  destruct (G eq_refl) as [Hw1 Hq1]. apply IH; assumption.
Qed.

(* THE THEOREM: whatever the bytes, the options, the limit, the inflater and the cuts - the stream machine never reaches a panic site *)
Theorem stream_machine_never_panics : forall o limit ps, Forall bytes_ok ps ->
  forall k, snd (feed (init_state o limit) ps) <> RPanic k.
Proof.
  intros o limit ps Hf k. unfold StreamRun.feed.
  assert (Hq : seq_ok (init_state o limit)) by (intros acc Hs; cbn in Hs; congruence).
  pose proof (feed_go_no_panic ps (init_state o limit) [] (init_state_wf o limit) Hq Hf k) as N.
  destruct (feed_go (init_state o limit) ps []) as [[s1 tr1] r1]. exact N.
Qed.

(* ... and neither after a reset *)
Theorem stream_machine_never_panics_after_reset : forall s ps, Forall bytes_ok ps ->
  forall k, snd (feed (reset_model s) ps) <> RPanic k.
Proof.
  intros s ps Hf k. unfold StreamRun.feed.
  assert (Hq : seq_ok (reset_model s)) by (intros acc Hs; cbn in Hs; congruence).
  pose proof (feed_go_no_panic ps (reset_model s) [] (reset_model_wf s) Hq Hf k) as N.
  destruct (feed_go (reset_model s) ps []) as [[s1 tr1] r1]. exact N.
Qed.

End WithInflate.
