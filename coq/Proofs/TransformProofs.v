(* Output transformations (C08): the advertised output type and line size are the documented ones for every
   legal header kind, flag set and tRNS presence; the RGBA palette table built by the 4-bytes-at-a-time copy is the
   documented palette for EVERY PLTE/tRNS length. *)
From PngV Require Import Base.Bytes Spec.TransformSpec Model.Transform.
From Coq Require Import ZifyBool.

Definition legal_kinds : list (Z * Z) :=
  [(0,1);(0,2);(0,4);(0,8);(0,16);(2,8);(2,16);(3,1);(3,2);(3,4);(3,8);(4,8);(4,16);(6,8);(6,16)].
Definition flag_sets : list Z := [0; 1; 16; 17; 65536; 65537; 65552; 65553].   (* subsets of {STRIP_16=1, EXPAND=16, ALPHA=65536} *)

Definition pair_eqb (a b : Z * Z) : bool := (fst a =? fst b) && (snd a =? snd b).

Definition output_type_check : bool :=
  forallb (fun k => forallb (fun t => forallb (fun (tr : option (list Z)) =>
     pair_eqb (output_color_type (mk_tinfo (fst k) (snd k) None tr) t)
              (spec_output_type (fst k) (snd k) (present tr) t)) [None; Some [7]]) flag_sets) legal_kinds.

Lemma output_type_check_true : output_type_check = true.
Proof. vm_compute. reflexivity. Qed.

Lemma pair_eqb_eq a b : pair_eqb a b = true -> a = b.
Proof. destruct a, b. unfold pair_eqb. cbn. intro H. apply andb_true_iff in H as [H1 H2]. f_equal; lia. Qed.

(* output_color_type looks at the palette not at all and at tRNS only through its presence *)
Lemma output_color_type_dep c d pal tr t :
  output_color_type (mk_tinfo c d pal tr) t = output_color_type (mk_tinfo c d None (if is_some tr then Some [7] else None)) t.
Proof. unfold output_color_type. cbn. destruct tr; reflexivity. Qed.

Theorem output_type_exact c d pal tr t :
  In (c, d) legal_kinds -> In t flag_sets ->
  output_color_type (mk_tinfo c d pal tr) t = spec_output_type c d (present tr) t.
Proof.
  intros Hk Ht. rewrite output_color_type_dep.
  pose proof output_type_check_true as H. unfold output_type_check in H.
  rewrite forallb_forall in H. specialize (H (c, d) Hk). rewrite forallb_forall in H. specialize (H t Ht).
  rewrite forallb_forall in H.
  destruct tr as [v|]; cbn [is_some present].
  - specialize (H (Some [7]) (or_intror (or_introl eq_refl))). apply pair_eqb_eq in H. exact H.
  - specialize (H None (or_introl eq_refl)). apply pair_eqb_eq in H. exact H.
Qed.

(* the line size is the packed size of [width] pixels of the given type, for every width *)
Theorem row_bytes_exact c d w :
  0 <= w -> In d [1; 2; 4; 8; 16] -> row_bytes c d w = spec_row_bytes c d w.
Proof.
  intros Hw Hd. unfold row_bytes, spec_row_bytes, samples, nsamples.
  set (n := if (c =? 0) || (c =? 3) then 1 else if c =? 2 then 3 else if c =? 4 then 2 else 4).
  assert (Hn : 1 <= n <= 4) by (subst n; destruct ((c =? 0) || (c =? 3)), (c =? 2), (c =? 4); lia).
  clearbody n. cbn [In] in Hd.
  destruct Hd as [<- | [<- | [<- | [<- | [<- | []]]]]]; cbn [Z.eqb Pos.eqb Z.div]; 
    try (change (8 / 1) with 8); try (change (8 / 2) with 4); try (change (8 / 4) with 2);
    repeat match goal with |- context [?a <? ?b] => destruct (Z.ltb_spec a b) end;
    Z.div_mod_to_equations; nia.
Qed.

(* ------------------------------------------------------------------ the RGBA palette table *)
Definition entry_ok (e : list Z) : Prop := length e = 4%nat.

Lemma set_nth_length {A} n (v : A) l : length (set_nth n v l) = length l.
Proof. revert n; induction l as [|x l IH]; intros [|n]; cbn; auto. Qed.

Lemma nth_set_nth_eq {A} n (v d : A) l : (n < length l)%nat -> nth n (set_nth n v l) d = v.
Proof. revert n; induction l as [|x l IH]; intros [|n] H; cbn in *; try lia; auto. apply IH. lia. Qed.

Lemma nth_set_nth_neq {A} n m (v d : A) l : n <> m -> nth m (set_nth n v l) d = nth m l d.
Proof. revert n m; induction l as [|x l IH]; intros [|n] [|m] H; cbn; auto; try congruence. Qed.

(* state of the table after k entries have been copied: entries < k carry their RGB (alpha unspecified),
   entries >= k are still the initial opaque black *)
Definition copied (pal0 : list Z) (k : nat) (tab : table) : Prop :=
  length tab = 256%nat /\
  (forall i, (i < k)%nat -> exists a, nth i tab [] = [nth (3 * i) pal0 0; nth (3 * i + 1) pal0 0; nth (3 * i + 2) pal0 0; a]) /\
  (forall i, (k <= i < 256)%nat -> nth i tab [] = [0; 0; 0; 255]).

Lemma skipn_nth {A} (l : list A) n i d : nth i (skipn n l) d = nth (n + i) l d.
Proof. revert l; induction n as [|n IH]; intros l; cbn; [reflexivity|]. destruct l; [destruct i; reflexivity | apply IH]. Qed.

Lemma skipn_skipn' {A} (a b : nat) (l : list A) : skipn a (skipn b l) = skipn (b + a) l.
Proof. revert l; induction b as [|b IH]; intros l; cbn; [reflexivity|]. destruct l; [destruct a; reflexivity | apply IH]. Qed.

Lemma firstn4 (l : list Z) : (4 <= length l)%nat -> firstn 4 l = [nth 0 l 0; nth 1 l 0; nth 2 l 0; nth 3 l 0].
Proof. destruct l as [|a [|b [|c [|d l]]]]; cbn; intro H; try lia. reflexivity. Qed.
Lemma firstn3 (l : list Z) : (3 <= length l)%nat -> firstn 3 l = [nth 0 l 0; nth 1 l 0; nth 2 l 0].
Proof. destruct l as [|a [|b [|c l]]]; cbn; intro H; try lia. reflexivity. Qed.

Lemma copy_palette_spec pal0 : forall fuel m k tab,
  copied pal0 k tab -> (length pal0 = 3 * (k + m))%nat -> (k + m <= 256)%nat -> (m <= fuel)%nat ->
  exists tab', copy_palette fuel (skipn (3 * k) pal0) k tab = Ok tab' /\ copied pal0 (k + m) tab'.
Proof.
  induction fuel as [|fuel IH]; intros m k tab Hc Hl Hk Hm.
  - assert (m = 0)%nat by lia. subst m. exists tab. split; [reflexivity|]. replace (k + 0)%nat with k by lia. exact Hc.
  - cbn [copy_palette]. destruct Hc as (Hlen & Hlo & Hhi).
    assert (Lrest : length (skipn (3 * k) pal0) = (3 * m)%nat) by (rewrite skipn_length; lia).
    destruct m as [|m].
    { (* nothing left *)
      rewrite Lrest. cbn [Nat.mul Nat.leb Nat.ltb]. exists tab. split; [reflexivity|].
      replace (k + 0)%nat with k by lia. split; [exact Hlen | split; assumption]. }
    assert (Hk256 : (k <? length tab)%nat = true) by (apply Nat.ltb_lt; lia). rewrite Hk256.
    destruct (Nat.leb_spec 4 (length (skipn (3 * k) pal0))) as [H4|H4].
    + (* at least one more byte follows: 4-byte copy *)
      specialize (IH m (S k) (set_nth k (firstn 4 (skipn (3 * k) pal0)) tab)).
      rewrite skipn_skipn'. replace (3 * k + 3)%nat with (3 * S k)%nat by lia.
      destruct IH as (tab' & Hrun & Hc').
      * split; [rewrite set_nth_length; exact Hlen|]. split.
        -- intros i Hi. destruct (Nat.eq_dec i k) as [->|Hne].
           ++ rewrite nth_set_nth_eq by lia. rewrite firstn4 by exact H4. rewrite !skipn_nth. eexists.
              rewrite Nat.add_0_r. reflexivity.
           ++ rewrite nth_set_nth_neq by lia. apply Hlo. lia.
        -- intros i Hi. rewrite nth_set_nth_neq by lia. apply Hhi. lia.
      * lia.
      * lia.
      * lia.
      * exists tab'. split; [exact Hrun|]. replace (k + S m)%nat with (S k + m)%nat by lia. exact Hc'.
    + (* the last entry: exactly 3 bytes left *)
      assert (Hf : m = 0%nat) by lia. subst m.
      assert (L3 : length (skipn (3 * k) pal0) = 3%nat) by lia.
      rewrite L3. cbn [Nat.ltb Nat.leb].
      eexists. split; [reflexivity|]. split; [rewrite set_nth_length; exact Hlen|]. split.
      * intros i Hi. destruct (Nat.eq_dec i k) as [->|Hne].
        -- rewrite nth_set_nth_eq by lia. rewrite firstn3 by lia. rewrite !skipn_nth.
           rewrite (Hhi k ltac:(lia)). cbn [skipn app]. eexists. rewrite Nat.add_0_r. reflexivity.
        -- rewrite nth_set_nth_neq by lia. apply Hlo. lia.
      * intros i Hi. rewrite nth_set_nth_neq by lia. apply Hhi. lia.
Qed.

Lemma set_alphas_length : forall trns tab, length (set_alphas trns tab) = length tab.
Proof. induction trns as [|a t IH]; intros [|e tab]; cbn; auto. Qed.

Lemma set_alphas_nth : forall trns tab i,
  nth i (set_alphas trns tab) [] =
  if ((i <? length trns) && (i <? length tab))%nat then firstn 3 (nth i tab []) ++ [nth i trns 0] else nth i tab [].
Proof.
  induction trns as [|a t IH]; intros tab i.
  - cbn. destruct tab; destruct i; reflexivity.
  - destruct tab as [|e tab]; [cbn; destruct i; cbn; rewrite ?andb_false_r; reflexivity|].
    destruct i as [|i]; [reflexivity|]. cbn [set_alphas nth length]. rewrite IH. reflexivity.
Qed.

Lemma unclobber_nth from to tab tab' i :
  unclobber from to tab = Ok tab' ->
  length tab' = length tab /\
  nth i tab' [] = if ((from <=? i) && (i <? to))%nat then firstn 3 (nth i tab []) ++ [255] else nth i tab [].
Proof.
  unfold unclobber. destruct ((to <? from) || (length tab <? to))%nat eqn:E; [discriminate|].
  apply orb_false_iff in E as [E1 E2]. apply Nat.ltb_ge in E1, E2.
  intro H. injection H as H. subst tab'. split.
  - rewrite !app_length, map_length, !firstn_length, !skipn_length. lia.
  - destruct (Nat.ltb_spec i from) as [Hlt|Hge].
    + rewrite app_nth1 by (rewrite firstn_length; lia).
      replace ((from <=? i)%nat) with false by (symmetry; apply Nat.leb_gt; lia). cbn [andb].
      clear -Hlt. revert i tab Hlt. induction from as [|f IH]; intros i tab H; [lia|].
      destruct tab; [destruct i; reflexivity|]. destruct i; [reflexivity|]. cbn. apply IH. lia.
    + rewrite app_nth2 by (rewrite firstn_length; lia). rewrite firstn_length.
      replace (Nat.min from (length tab)) with from by lia.
      replace ((from <=? i)%nat) with true by (symmetry; apply Nat.leb_le; lia). cbn [andb].
      destruct (Nat.ltb_spec i to) as [Hlt|Hge2].
      * rewrite app_nth1 by (rewrite map_length, firstn_length, skipn_length; lia).
        rewrite (nth_indep _ [] (firstn 3 [] ++ [255])) by (rewrite map_length, firstn_length, skipn_length; lia).
        rewrite (map_nth (fun e => firstn 3 e ++ [255])).
        f_equal. f_equal.
        assert (G : forall (n m : nat) (l : list (list Z)), (m < n)%nat -> nth m (firstn n l) [] = nth m l []).
        { induction n as [|n IHn]; intros m l Hm; [lia|]. destruct l; [destruct m; reflexivity|]. destruct m; [reflexivity|]. cbn. apply IHn. lia. }
        rewrite G by lia. rewrite skipn_nth. f_equal. lia.
      * rewrite app_nth2 by (rewrite map_length, firstn_length, skipn_length; lia).
        rewrite map_length, firstn_length, skipn_length.
        replace (Nat.min (to - from) (length tab - from)) with (to - from)%nat by lia.
        rewrite skipn_nth. f_equal. lia.
Qed.

Lemma nth_firstn_lt {A} (l : list A) n i d : (i < n)%nat -> nth i (firstn n l) d = nth i l d.
Proof. revert i l; induction n as [|n IH]; intros i l H; [lia|]. destruct l; [destruct i; reflexivity|]. destruct i; [reflexivity|]. cbn. apply IH. lia. Qed.

(* THE PALETTE THEOREM: for every PLTE payload and every tRNS payload (any lengths, including incomplete trailing
   entries, more than 256 entries, and a tRNS longer than the palette) the table has, at every index 0..255, the
   documented entry: the palette colour with alpha from tRNS where the (not over-long) tRNS has one, opaque
   otherwise; opaque black beyond the palette *)
Theorem create_rgba_palette_spec c d pal trns :
  exists tab, create_rgba_palette (mk_tinfo c d (Some pal) trns) = Ok tab /\
    forall idx, 0 <= idx < 256 ->
      tab_get tab idx = pal_rgb pal idx ++ [pal_alpha pal (opt_list trns) idx].
Proof.
  unfold create_rgba_palette. cbn [t_palette t_trns].
  set (n := Nat.min (length pal / 3) 256).
  set (pal' := firstn (n * 3) pal).
  set (tr0 := match trns with Some t => t | None => [] end).
  assert (Hdiv : (3 * (length pal / 3) <= length pal)%nat) by (apply Nat.mul_div_le; lia).
  assert (Lp : length pal' = (3 * n)%nat) by (subst pal'; rewrite firstn_length; subst n; lia).
  assert (Ln : (length pal' / 3 = n)%nat) by (rewrite Lp, Nat.mul_comm, Nat.div_mul; lia).
  rewrite Ln.
  set (tr := if (length tr0 <=? n)%nat then tr0 else []).
  assert (Ltr : (length tr <= n)%nat) by (subst tr; destruct (Nat.leb_spec (length tr0) n) as [Hq|Hq]; cbn [length]; [exact Hq | apply Nat.le_0_l]).
  assert (Hn256 : (n <= 256)%nat) by (subst n; apply Nat.le_min_r).
  assert (C0 : copied pal' 0 (repeatz [0; 0; 0; 255] 256)).
  { split; [apply repeatz_length|]. split; [intros i Hi; lia|]. intros i Hi.
    clear -Hi. assert (G : forall m j, (j < m)%nat -> nth j (repeatz [0; 0; 0; 255] m) [] = [0; 0; 0; 255]).
    { induction m as [|m IHm]; intros j Hj; [lia|]. destruct j; [reflexivity|]. cbn. apply IHm. lia. }
    apply G. lia. }
  destruct (copy_palette_spec pal' (length pal') n 0 _ C0 ltac:(cbn [Nat.add]; exact Lp) ltac:(cbn [Nat.add]; exact Hn256) ltac:(rewrite Lp; lia)) as (tab1 & Hrun & Hc1).
  change (skipn (3 * 0) pal') with pal' in Hrun.
  unfold obind. rewrite Hrun.
  destruct Hc1 as (Hlen1 & Hlo1 & Hhi1). cbn [Nat.add] in *.
  destruct (unclobber (length tr) n (set_alphas tr tab1)) as [tab2| |] eqn:Hu.
  2,3: unfold unclobber in Hu; rewrite set_alphas_length, Hlen1 in Hu;
       replace ((n <? length tr) || (256 <? n))%nat with false in Hu by (symmetry; apply orb_false_iff; split; apply Nat.ltb_ge; subst n; lia); discriminate.
  exists tab2. split; [reflexivity|].
  intros idx Hidx. unfold tab_get.
  set (i := Z.to_nat idx). assert (Hi : (i < 256)%nat) by (subst i; lia).
  destruct (unclobber_nth _ _ _ _ i Hu) as [Hl2 Hn2].
  rewrite (nth_indep tab2 [0; 0; 0; 0] []) by (rewrite Hl2, set_alphas_length; lia).
  rewrite Hn2, set_alphas_nth, Hlen1.
  replace ((i <? 256)%nat) with true by (symmetry; apply Nat.ltb_lt; exact Hi). rewrite andb_true_r.
  assert (Hent : pal_entries pal = Z.of_nat n).
  { unfold pal_entries, zlen. subst n. rewrite Nat2Z.inj_min, Nat2Z.inj_div. reflexivity. }
  unfold pal_rgb, pal_alpha. rewrite Hent.
  assert (Hz : forall (l : list Z) (j : nat), nthz l (Z.of_nat j) = nth j l 0).
  { intros l j. unfold nthz. destruct (Z.ltb_spec (Z.of_nat j) 0); [lia|]. rewrite Nat2Z.id. reflexivity. }
  assert (Hidx' : idx = Z.of_nat i) by (subst i; lia).
  assert (Htr_opt : opt_list trns = tr0) by (subst tr0; destruct trns; reflexivity). rewrite Htr_opt.
  destruct (Nat.ltb_spec i n) as [Hin|Hin].
  - (* inside the palette *)
    destruct (Hlo1 i Hin) as [a Ha].
    replace (idx <? Z.of_nat n) with true by (symmetry; apply Z.ltb_lt; lia).
    assert (Hrgb : [nth (3 * i) pal' 0; nth (3 * i + 1) pal' 0; nth (3 * i + 2) pal' 0] =
                   [nthz pal (3 * idx); nthz pal (3 * idx + 1); nthz pal (3 * idx + 2)]).
    { subst pal'. rewrite !nth_firstn_lt by lia. rewrite Hidx'.
      replace (3 * Z.of_nat i) with (Z.of_nat (3 * i)) by lia.
      replace (Z.of_nat (3 * i) + 1) with (Z.of_nat (3 * i + 1)) by lia.
      replace (Z.of_nat (3 * i) + 2) with (Z.of_nat (3 * i + 2)) by lia. rewrite !Hz. reflexivity. }
    destruct (Nat.ltb_spec i (length tr)) as [Hit|Hit].
    + replace ((length tr <=? i)%nat) with false by (symmetry; apply Nat.leb_gt; lia). cbn [andb].
      rewrite Ha. rewrite <- Hrgb. cbn [firstn app]. repeat f_equal.
      subst tr. destruct (Nat.leb_spec (length tr0) n) as [Hle|Hgt]; [|cbn in Hit; lia].
      replace (zlen tr0 <=? Z.of_nat n) with true by (symmetry; apply Z.leb_le; unfold zlen; lia).
      replace (idx <? zlen tr0) with true by (symmetry; apply Z.ltb_lt; unfold zlen; lia). cbn [andb].
      rewrite Hidx', Hz. reflexivity.
    + replace ((length tr <=? i)%nat) with true by (symmetry; apply Nat.leb_le; lia).
      replace ((i <? n)%nat) with true by (symmetry; apply Nat.ltb_lt; lia). cbn [andb].
      rewrite Ha. rewrite <- Hrgb. cbn [firstn app]. repeat f_equal.
      subst tr. destruct (Nat.leb_spec (length tr0) n) as [Hle|Hgt].
      * replace (zlen tr0 <=? Z.of_nat n) with true by (symmetry; apply Z.leb_le; unfold zlen; lia).
        replace (idx <? zlen tr0) with false by (symmetry; apply Z.ltb_ge; unfold zlen; lia). reflexivity.
      * replace (zlen tr0 <=? Z.of_nat n) with false by (symmetry; apply Z.leb_gt; unfold zlen; lia). reflexivity.
  - (* beyond the palette: opaque black *)
    replace (idx <? Z.of_nat n) with false by (symmetry; apply Z.ltb_ge; lia).
    replace ((i <? n)%nat) with false by (symmetry; apply Nat.ltb_ge; lia). rewrite andb_false_r.
    replace ((i <? length tr)%nat) with false by (symmetry; apply Nat.ltb_ge; lia).
    rewrite (Hhi1 i ltac:(lia)). cbn [app].
    replace ((zlen tr0 <=? Z.of_nat n) && (idx <? zlen tr0)) with false; [reflexivity|].
    symmetry. apply andb_false_iff. destruct (Z.leb_spec (zlen tr0) (Z.of_nat n)); [right; apply Z.ltb_ge; lia | left; reflexivity].
Qed.
