(* unfiltering_buffer.rs refines the row loop of the pipeline model: whatever the sizes of the pieces the inflater appends and whenever
   the compaction runs, unfilter_curr_row reconstructs exactly the row that Model/Pipeline.v's [unfilter_rows] reconstructs next, against
   exactly the previous reconstructed row; and after a compaction the buffer holds nothing but that previous row and the bytes not yet
   unfiltered (C06: no growth with the size of the frame). *)
From PngV Require Import Base.Bytes Gen.GenPaeth Model.Filter Model.Pipeline Model.UnfiltBuf.
From Coq Require Import ZifyBool.

(* abstract view: the previous reconstructed row ([] at the start of an image / pass) and the bytes still to be unfiltered *)
Definition UInv (u : ubuf) (prev pending : list Z) : Prop :=
  (ub_prev u <= ub_cur u)%nat /\ (ub_cur u <= length (ub_data u))%nat /\ ub_prev_row u = prev /\ ub_pending u = pending.

Lemma uinv_new : UInv ub_new [] [].
Proof. unfold UInv, ub_new, ub_prev_row, ub_pending. cbn. repeat split; lia. Qed.

Lemma skipn_skipn_add {A} (a b : nat) (l : list A) : skipn a (skipn b l) = skipn (b + a) l.
Proof. revert l. induction b as [|b IH]; intros l; cbn [skipn Nat.add]; [reflexivity|]. destruct l as [|x l]; [destruct a; reflexivity | apply IH]. Qed.

Lemma firstn_app_le {A} (n : nat) (a b : list A) : (n <= length a)%nat -> firstn n (a ++ b) = firstn n a.
Proof. intro H. rewrite firstn_app. replace (n - length a)%nat with 0%nat by lia. cbn [firstn]. apply app_nil_r. Qed.

Lemma skipn_app_le {A} (n : nat) (a b : list A) : (n <= length a)%nat -> skipn n (a ++ b) = skipn n a ++ b.
Proof. intro H. rewrite skipn_app. replace (n - length a)%nat with 0%nat by lia. reflexivity. Qed.

(* appending (with compaction) keeps the previous row and extends the pending bytes *)
Theorem ub_append_correct u prev pending new :
  UInv u prev pending -> UInv (ub_append u new) prev (pending ++ new).
Proof.
  intros (Hpc & Hcl & Hp & Hq). unfold UInv, ub_append, ub_prev_row, ub_pending in *. cbn [ub_data ub_prev ub_cur].
  assert (Ls : length (skipn (ub_prev u) (ub_data u)) = (length (ub_data u) - ub_prev u)%nat) by apply skipn_length.
  repeat split.
  - lia.
  - rewrite app_length, Ls. lia.
  - cbn [skipn]. rewrite Nat.sub_0_r. rewrite firstn_app_le by (rewrite Ls; lia). exact Hp.
  - rewrite skipn_app_le by (rewrite Ls; lia). rewrite skipn_skipn_add. replace (ub_prev u + (ub_cur u - ub_prev u))%nat with (ub_cur u) by lia.
    rewrite Hq. reflexivity.
Qed.

(* after the compaction the vector holds the previous row, the pending bytes and what was appended - nothing else *)
Theorem ub_append_size u prev pending new :
  UInv u prev pending -> length (ub_data (ub_append u new)) = (length prev + length pending + length new)%nat.
Proof.
  intros (Hpc & Hcl & Hp & Hq). unfold ub_append, ub_prev_row, ub_pending in *. cbn [ub_data].
  rewrite app_length, skipn_length. rewrite <- Hp, <- Hq. rewrite firstn_length, !skipn_length. lia.
Qed.

Theorem ub_reset_correct u prev pending : UInv u prev pending -> UInv (ub_reset_prev_row u) [] pending.
Proof.
  intros (Hpc & Hcl & Hp & Hq). unfold UInv, ub_reset_prev_row, ub_prev_row, ub_pending in *. cbn [ub_data ub_prev ub_cur].
  repeat split; try lia. - rewrite Nat.sub_diag. reflexivity. - exact Hq.
Qed.

(* one unfilter_curr_row = one iteration of the pipeline's row loop *)
Theorem ub_unfilter_correct P u prev ft body rl bpp :
  UInv u prev (ft :: body) -> (rl <= length body)%nat ->
  match row_filter_from_u8 ft with
  | None => ub_unfilter P u rl bpp = UBadFilter ft
  | Some f =>
    length (unfilter_model P f bpp prev (firstn rl body)) = rl ->
    exists u', ub_unfilter P u rl bpp = UOkU u' /\ UInv u' (unfilter_model P f bpp prev (firstn rl body)) (skipn rl body)
  end.
Proof.
  intros (Hpc & Hcl & Hp & Hq) Hrl. unfold ub_unfilter. rewrite Hq.
  destruct (Nat.ltb_spec (length body) rl) as [Hlt|_]; [lia|].
  destruct (row_filter_from_u8 ft) as [f|]; [|reflexivity].
  rewrite Hp. set (row := unfilter_model P f bpp prev (firstn rl body)). intros Hrow. eexists. split; [reflexivity|].
  unfold UInv, ub_prev_row, ub_pending. cbn [ub_data ub_prev ub_cur].
  assert (Lf : length (firstn (ub_cur u) (ub_data u)) = ub_cur u) by (rewrite firstn_length; lia).
  repeat split.
  - lia.
  - rewrite app_length, Lf. cbn [length]. rewrite app_length. fold row. lia.
  - replace (ub_cur u + 1 + rl - (ub_cur u + 1))%nat with rl by lia.
    replace (ub_cur u + 1)%nat with (length (firstn (ub_cur u) (ub_data u) ++ [ft])) by (rewrite app_length, Lf; cbn; lia).
    replace (firstn (ub_cur u) (ub_data u) ++ ft :: row ++ skipn rl body) with ((firstn (ub_cur u) (ub_data u) ++ [ft]) ++ row ++ skipn rl body)
      by (rewrite <- app_assoc; reflexivity).
    rewrite skipn_app, skipn_all, Nat.sub_diag. cbn [skipn app]. fold row. rewrite firstn_app_le by lia. rewrite <- Hrow. apply firstn_all.
  - replace (ub_cur u + 1 + rl)%nat with (length ((firstn (ub_cur u) (ub_data u) ++ [ft]) ++ row)) by (rewrite !app_length, Lf; cbn [length]; fold row; lia).
    replace (firstn (ub_cur u) (ub_data u) ++ ft :: row ++ skipn rl body) with (((firstn (ub_cur u) (ub_data u) ++ [ft]) ++ row) ++ skipn rl body)
      by (rewrite <- !app_assoc; reflexivity).
    rewrite skipn_app, skipn_all, Nat.sub_diag. reflexivity.
Qed.

(* n rows through the buffer = n iterations of Model/Pipeline.v unfilter_rows, when the data is there *)
Fixpoint ub_rows (P : Z -> Z -> Z -> Z) (u : ubuf) (rl bpp n : nat) : outcome (list (list Z) * ubuf) perr :=
  match n with
  | O => Ok ([], u)
  | S n' =>
    match ub_unfilter P u rl bpp with
    | UNotEnough => Err PTooShort
    | UBadFilter ft => Err (PBadFilter ft)
    | UOkU u' =>
      match ub_rows P u' rl bpp n' with
      | Ok (rows, u2) => Ok (ub_prev_row u' :: rows, u2)
      | Err e => Err e
      | Panic p => Panic p
      end
    end
  end.

Lemma unfilter_model_length P f bpp prev cur : length (unfilter_model P f bpp prev cur) = length cur -> True.
Proof. trivial. Qed.

Theorem ub_rows_refines_pipeline P rl bpp :
  (forall f prev cur, length (unfilter_model P f bpp prev cur) = length cur) ->
  forall n u prev pending,
  UInv u prev pending ->
  match unfilter_rows P bpp rl n prev pending with
  | Ok (rows, tl) => exists u2, ub_rows P u rl bpp n = Ok (rows, u2) /\ ub_pending u2 = tl
  | Err e => ub_rows P u rl bpp n = Err e
  | Panic p => True
  end.
Proof.
  intros Hlen. induction n as [|n IH]; intros u prev pending HI; cbn [unfilter_rows ub_rows].
  - exists u. split; [reflexivity|]. destruct HI as (_ & _ & _ & Hq). exact Hq.
  - destruct pending as [|ft body].
    + unfold ub_unfilter. destruct HI as (_ & _ & _ & Hq). rewrite Hq. reflexivity.
    + destruct (Nat.ltb_spec (length body) rl) as [Hlt|Hge].
      * unfold ub_unfilter. destruct HI as (_ & _ & _ & Hq). rewrite Hq.
        destruct (Nat.ltb_spec (length body) rl); [reflexivity | lia].
      * pose proof (ub_unfilter_correct P u prev ft body rl bpp HI Hge) as Hs.
        destruct (row_filter_from_u8 ft) as [f|]; [|rewrite Hs; reflexivity].
        destruct Hs as (u' & Hu & HI').
        { rewrite Hlen, firstn_length. lia. }
        rewrite Hu. specialize (IH u' _ _ HI').
        destruct (unfilter_rows P bpp rl n (unfilter_model P f bpp prev (firstn rl body)) (skipn rl body)) as [[rows tl]| e | p].
        -- destruct IH as (u2 & Hr & Hp). rewrite Hr. exists u2. split; [|exact Hp].
           destruct HI' as (_ & _ & Hpr & _). rewrite Hpr. reflexivity.
        -- rewrite IH. reflexivity.
        -- exact I.
Qed.

(* the cursor-only functions executed by the correspondence check are the projections of the data-level model *)
Theorem cursors_append u new : (ub_prev u <= ub_cur u)%nat -> (ub_prev u <= length (ub_data u))%nat ->
  ub_cursors (ub_append u new) = cur_append (ub_cursors u) (zlen new).
Proof.
  intros H1 H2. unfold ub_cursors, ub_append, cur_append, zlen. cbn [ub_data ub_prev ub_cur]. rewrite app_length, skipn_length.
  f_equal; [f_equal|]; lia.
Qed.

Theorem cursors_unfilter P u rl bpp u' : (ub_cur u <= length (ub_data u))%nat ->
  (forall f prev cur, length (unfilter_model P f bpp prev cur) = length cur) ->
  ub_unfilter P u rl bpp = UOkU u' -> ub_cursors u' = cur_unfilter (ub_cursors u) (Z.of_nat rl).
Proof.
  intros Hc Hlen. unfold ub_unfilter. destruct (ub_pending u) as [|ft body] eqn:Ep; [discriminate|].
  destruct (Nat.ltb_spec (length body) rl) as [|Hge]; [discriminate|]. destruct (row_filter_from_u8 ft) as [f|]; [|discriminate].
  intro H. injection H as <-. unfold ub_cursors, cur_unfilter, zlen. cbn [ub_data ub_prev ub_cur].
  assert (Lp : length (ub_pending u) = (length (ub_data u) - ub_cur u)%nat) by (unfold ub_pending; apply skipn_length).
  rewrite Ep in Lp. cbn [length] in Lp.
  rewrite app_length, firstn_length. cbn [length]. rewrite app_length, Hlen, firstn_length, skipn_length.
  f_equal; [f_equal|]; lia.
Qed.

Theorem cursors_reset u : ub_cursors (ub_reset_prev_row u) = cur_reset (ub_cursors u).
Proof. reflexivity. Qed.
