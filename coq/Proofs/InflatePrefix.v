(* The reference inflater (Base/Inflate.v) meets the prefix-determinacy contract that the whole-stream theorems of C04 / C05 assume of the
   external inflater: what a prefix of a zlib stream has determined - output, an error, the end of the stream - stays determined when more
   input follows.  With this the delivery-independence theorem holds for the EXECUTABLE model (the one the correspondence check runs against
   the implementation) without any premise about the inflater. *)
From PngV Require Import Base.Bytes Base.Crc Base.Inflate Base.Utf8 Gen.GenStream Model.Stream Model.StreamRun Model.StreamExec
     Proofs.StreamProofs Proofs.StreamSplit Proofs.StreamWhole.

(* ------------------------------------------------------------------ more input behind a reader position *)
Definition ext (s : bits) (e : list Z) : bits := mkbits (bs_cur s) (bs_rest s ++ e).

Lemma read_bit_ext s e b s1 : read_bit s = Some (b, s1) -> read_bit (ext s e) = Some (b, ext s1 e).
Proof.
  unfold read_bit, ext. destruct s as [cur rest]. cbn [bs_cur bs_rest].
  destruct cur as [|c0 cur]; [destruct rest as [|x rest]|]; intro H; inversion H; subst; reflexivity.
Qed.

Lemma read_bits_ext : forall n s e v s1, read_bits n s = Some (v, s1) -> read_bits n (ext s e) = Some (v, ext s1 e).
Proof.
  induction n as [|n IH]; intros s e v s1; cbn [read_bits]; [intro H; inversion H; reflexivity|].
  destruct (read_bit s) as [[b s2]|] eqn:E; [|discriminate]. rewrite (read_bit_ext s e b s2 E).
  destruct (read_bits n s2) as [[v2 s3]|] eqn:E2; [|discriminate]. rewrite (IH s2 e v2 s3 E2).
  intro H; inversion H; reflexivity.
Qed.

Lemma read_many_ext : forall k w s e vs s1, read_many k w s = Some (vs, s1) -> read_many k w (ext s e) = Some (vs, ext s1 e).
Proof.
  induction k as [|k IH]; intros w s e vs s1; cbn [read_many]; [intro H; inversion H; reflexivity|].
  destruct (read_bits w s) as [[v s2]|] eqn:E; [|discriminate]. rewrite (read_bits_ext w s e v s2 E).
  destruct (read_many k w s2) as [[vs2 s3]|] eqn:E2; [|discriminate]. rewrite (IH w s2 e vs2 s3 E2).
  intro H; inversion H; reflexivity.
Qed.

(* a decoding step that has an answer (a value or "invalid") gives the same answer with more input behind *)
Definition rd_ext {A} (e : list Z) (x y : rd A) : Prop :=
  match x with
  | RGot v s1 => y = RGot v (ext s1 e)
  | RBad => y = RBad
  | RMore => True
  end.

Lemma hdecode_ext : forall t s e, rd_ext e (hdecode t s) (hdecode t (ext s e)).
Proof.
  induction t as [| sym | l IHl r IHr]; intros s e; cbn [hdecode]; try reflexivity.
  destruct (read_bit s) as [[b s2]|] eqn:E; [|exact I]. rewrite (read_bit_ext s e b s2 E).
  destruct b; [apply IHr | apply IHl].
Qed.

Lemma read_lens_ext : forall fuel cl remaining acc s e,
  rd_ext e (read_lens fuel cl remaining acc s) (read_lens fuel cl remaining acc (ext s e)).
Proof.
  induction fuel as [|fuel IH]; intros cl remaining acc s e; destruct remaining as [|rem]; cbn [read_lens]; try reflexivity.
  pose proof (hdecode_ext cl s e) as H. destruct (hdecode cl s) as [| | sym s1]; cbn [rd_ext] in H; [exact I | rewrite H; reflexivity|].
  rewrite H. clear H.
  destruct (sym <? 16); [apply IH|].
  destruct (sym =? 16).
  { destruct (read_bits 2 s1) as [[x s2]|] eqn:E; [|exact I]. rewrite (read_bits_ext 2 s1 e x s2 E).
    destruct acc as [|prev acc']; [reflexivity|]. destruct (S rem <? Z.to_nat (3 + x))%nat; [reflexivity | apply IH]. }
  destruct (sym =? 17).
  { destruct (read_bits 3 s1) as [[x s2]|] eqn:E; [|exact I]. rewrite (read_bits_ext 3 s1 e x s2 E).
    destruct (S rem <? Z.to_nat (3 + x))%nat; [reflexivity | apply IH]. }
  destruct (sym =? 18).
  { destruct (read_bits 7 s1) as [[x s2]|] eqn:E; [|exact I]. rewrite (read_bits_ext 7 s1 e x s2 E).
    destruct (S rem <? Z.to_nat (11 + x))%nat; [reflexivity | apply IH]. }
  reflexivity.
Qed.

Lemma read_dyn_tables_ext s e : rd_ext e (read_dyn_tables s) (read_dyn_tables (ext s e)).
Proof.
  unfold read_dyn_tables.
  destruct (read_bits 5 s) as [[hl s1]|] eqn:E1; [|exact I]. rewrite (read_bits_ext 5 s e hl s1 E1).
  destruct (read_bits 5 s1) as [[hdv s2]|] eqn:E2; [|exact I]. rewrite (read_bits_ext 5 s1 e hdv s2 E2).
  destruct (read_bits 4 s2) as [[hc s3]|] eqn:E3; [|exact I]. rewrite (read_bits_ext 4 s2 e hc s3 E3).
  cbv zeta.
  destruct ((286 <? Z.to_nat (hl + 257))%nat || (30 <? Z.to_nat (hdv + 1))%nat); [reflexivity|].
  destruct (read_many (Z.to_nat (hc + 4)) 3 s3) as [[vals s4]|] eqn:E4; [|exact I]. rewrite (read_many_ext _ 3 s3 e vals s4 E4).
  destruct (negb (complete_code (cl_lens_of vals))); [reflexivity|].
  pose proof (read_lens_ext (Z.to_nat (hl + 257) + Z.to_nat (hdv + 1)) (build_tree (cl_lens_of vals)) (Z.to_nat (hl + 257) + Z.to_nat (hdv + 1)) [] s4 e) as H.
  destruct (read_lens _ _ _ [] s4) as [| | lens s5]; cbn [rd_ext] in H; [exact I | rewrite H; reflexivity|].
  rewrite H.
  destruct (nth 256 (firstn (Z.to_nat (hl + 257)) lens) 0 =? 0); [reflexivity|].
  destruct (negb (complete_code (firstn (Z.to_nat (hl + 257)) lens))); [reflexivity|].
  destruct (negb (dist_lens_ok (skipn (Z.to_nat (hl + 257)) lens))); reflexivity.
Qed.

(* ------------------------------------------------------------------ the output only grows (it is kept reversed: new bytes in front) *)
Definition grows (o o' : list Z) : Prop := exists t, o' = t ++ o.

Lemma grows_refl o : grows o o. Proof. exists []. reflexivity. Qed.
Lemma grows_trans a b c : grows a b -> grows b c -> grows a c.
Proof. intros [t1 ->] [t2 ->]. exists (t2 ++ t1). rewrite app_assoc. reflexivity. Qed.
Lemma grows_cons x o : grows o (x :: o). Proof. exists [x]. reflexivity. Qed.

Lemma take_stored_grows : forall bytes n out, grows out (snd (fst (take_stored n bytes out))).
Proof.
  induction bytes as [|x bytes IH]; intros n out; cbn [take_stored]; destruct (n <=? 0); cbn [fst snd]; try apply grows_refl.
  eapply grows_trans; [apply grows_cons | apply IH].
Qed.

Lemma copy_bytewise_grows : forall n k out, grows out (copy_bytewise n k out).
Proof. induction n as [|n IH]; intros k out; cbn [copy_bytewise]; [apply grows_refl|]. eapply grows_trans; [apply grows_cons | apply IH]. Qed.

Lemma copy_match_grows len d out out' : copy_match len d out = Some out' -> grows out out'.
Proof.
  unfold copy_match. destruct (skipN (Z.to_N (d - 1)) out); [discriminate|].
  destruct (len <=? d); intro H; inversion H; subst; [eexists; reflexivity | apply copy_bytewise_grows].
Qed.

Definition step_out (r : istepres) : list Z := match r with SGo _ _ o => o | SStop o _ => o end.

Lemma istep_grows m s out : grows out (step_out (istep m s out)).
Proof.
  unfold istep. destruct m as [|final lit dist].
  - destruct (read_bits 3 s) as [[h s1]|]; [|apply grows_refl]. cbv zeta.
    destruct (h / 2 =? 0).
    { destruct (bs_rest s1) as [|b0 [|b1 [|b2 [|b3 bytes]]]]; try apply grows_refl.
      destruct (b0 + 256 * b1 + (b2 + 256 * b3) =? 65535); [|apply grows_refl].
      pose proof (take_stored_grows bytes (b0 + 256 * b1) out) as G.
      destruct (take_stored (b0 + 256 * b1) bytes out) as [[bytes' out'] ok]. cbn [fst snd] in G.
      destruct ok; [destruct (Z.odd h)|]; exact G. }
    destruct (h / 2 =? 1); [apply grows_refl|].
    destruct (h / 2 =? 2); [|apply grows_refl].
    destruct (read_dyn_tables s1) as [| | [l d] s2]; apply grows_refl.
  - destruct (hdecode lit s) as [| | sym s1]; try apply grows_refl.
    destruct (sym <? 256); [apply grows_cons|].
    destruct (sym =? 256); [destruct final; apply grows_refl|].
    destruct (sym <? 286); [|apply grows_refl]. cbv zeta.
    destruct (read_bits _ s1) as [[e s2]|]; [|apply grows_refl].
    destruct (hdecode dist s2) as [| | dsym s3]; try apply grows_refl.
    destruct (dsym <? 30); [|apply grows_refl].
    destruct (read_bits _ s3) as [[e2 s4]|]; [|apply grows_refl].
    destruct (copy_match _ _ out) as [out'|] eqn:C; [exact (copy_match_grows _ _ _ _ C) | apply grows_refl].
Qed.

Lemma run_grows : forall f m s out, grows out (fst (inflate_run f m s out)).
Proof.
  induction f as [|f IH]; intros m s out; cbn [inflate_run]; [apply grows_refl|].
  pose proof (istep_grows m s out) as G. destruct (istep m s out) as [m' s' out'|out' r]; cbn [step_out] in G.
  - eapply grows_trans; [exact G | apply IH].
  - exact G.
Qed.

(* ------------------------------------------------------------------ one step with more input behind *)
Lemma take_stored_ext : forall bytes n out e,
  match take_stored n bytes out with
  | (bytes', out', true) => take_stored n (bytes ++ e) out = (bytes' ++ e, out', true)
  | (_, out', false) => grows out' (snd (fst (take_stored n (bytes ++ e) out)))
  end.
Proof.
  induction bytes as [|x bytes IH]; intros n out e.
  - cbn [take_stored app]. destruct (n <=? 0) eqn:E.
    + destruct e; cbn [take_stored]; rewrite E; reflexivity.
    + apply take_stored_grows.
  - cbn [take_stored app]. destruct (n <=? 0); [reflexivity | apply IH].
Qed.

Definition istep_rel (e : list Z) (x y : istepres) : Prop :=
  match x with
  | SGo m' s' out' => y = SGo m' (ext s' e) out'
  | SStop o (FEnd s1) => y = SStop o (FEnd (ext s1 e))
  | SStop o FErr => exists o', y = SStop o' FErr
  | SStop o FNeed => grows o (step_out y)
  end.

Lemma istep_ext m s out e : istep_rel e (istep m s out) (istep m (ext s e) out).
Proof.
  assert (Need : forall y, istep m (ext s e) out = y -> grows out (step_out y)) by (intros y <-; apply istep_grows).
  unfold istep in *. destruct m as [|final lit dist].
  - destruct (read_bits 3 s) as [[h s1]|] eqn:E3; [|exact (Need _ eq_refl)]. rewrite (read_bits_ext 3 s e h s1 E3) in *. cbv zeta in *.
    destruct (h / 2 =? 0).
    { cbn [ext bs_rest] in *. destruct (bs_rest s1) as [|b0 [|b1 [|b2 [|b3 bytes]]]] eqn:Er; rewrite ?Er in Need; try exact (Need _ eq_refl).
      cbn [app] in *. destruct (b0 + 256 * b1 + (b2 + 256 * b3) =? 65535); [|eexists; reflexivity].
      pose proof (take_stored_ext bytes (b0 + 256 * b1) out e) as T.
      destruct (take_stored (b0 + 256 * b1) bytes out) as [[bytes' out'] ok]. destruct ok.
      - rewrite T. destruct (Z.odd h); reflexivity.
      - cbn [istep_rel]. destruct (take_stored (b0 + 256 * b1) (bytes ++ e) out) as [[bytes2 out2] ok2]. cbn [fst snd] in T.
        destruct ok2; [destruct (Z.odd h)|]; exact T. }
    destruct (h / 2 =? 1); [reflexivity|].
    destruct (h / 2 =? 2); [|eexists; reflexivity].
    pose proof (read_dyn_tables_ext s1 e) as D. destruct (read_dyn_tables s1) as [| | [l d] s2]; cbn [rd_ext] in D.
    + exact (Need _ eq_refl).
    + rewrite D. eexists; reflexivity.
    + rewrite D. reflexivity.
  - pose proof (hdecode_ext lit s e) as H. destruct (hdecode lit s) as [| | sym s1]; cbn [rd_ext] in H.
    + exact (Need _ eq_refl).
    + rewrite H. eexists; reflexivity.
    + rewrite H in *. destruct (sym <? 256); [reflexivity|].
      destruct (sym =? 256); [destruct final; reflexivity|].
      destruct (sym <? 286); [|eexists; reflexivity]. cbv zeta in *.
      destruct (read_bits (nth (Z.to_nat (sym - 257)) len_extra 0%nat) s1) as [[x s2]|] eqn:E1; [|exact (Need _ eq_refl)].
      rewrite (read_bits_ext _ s1 e x s2 E1) in *.
      pose proof (hdecode_ext dist s2 e) as H2. destruct (hdecode dist s2) as [| | dsym s3]; cbn [rd_ext] in H2.
      * exact (Need _ eq_refl).
      * rewrite H2. eexists; reflexivity.
      * rewrite H2 in *. destruct (dsym <? 30); [|eexists; reflexivity].
        destruct (read_bits (nth (Z.to_nat dsym) dist_extra 0%nat) s3) as [[x2 s4]|] eqn:E2; [|exact (Need _ eq_refl)].
        rewrite (read_bits_ext _ s3 e x2 s4 E2) in *.
        destruct (copy_match _ _ out); [reflexivity | eexists; reflexivity].
Qed.

(* ------------------------------------------------------------------ the block loop with more input (and therefore more fuel) *)
Lemma run_ext : forall f1 m s out f2 e, (f1 <= f2)%nat ->
  match inflate_run f1 m s out with
  | (o, FEnd s1) => inflate_run f2 m (ext s e) out = (o, FEnd (ext s1 e))
  | (o, FErr) => snd (inflate_run f2 m (ext s e) out) = FErr
  | (o, FNeed) => grows o (fst (inflate_run f2 m (ext s e) out))
  end.
Proof.
  induction f1 as [|f1 IH]; intros m s out f2 e Hf; cbn [inflate_run]; [apply run_grows|].
  destruct f2 as [|f2]; [lia|]. cbn [inflate_run].
  pose proof (istep_ext m s out e) as R. destruct (istep m s out) as [m' s' out'|o r]; cbn [istep_rel] in R.
  - rewrite R. apply IH. lia.
  - destruct r as [| | s1].
    + (* need more *)
      destruct (istep m (ext s e) out) as [m2 s2 o2|o2 r2]; cbn [step_out] in R; cbn [fst].
      * eapply grows_trans; [exact R | apply run_grows].
      * exact R.
    + destruct R as [o' ->]. reflexivity.
    + rewrite R. reflexivity.
Qed.

(* ------------------------------------------------------------------ the zlib wrapper *)
Lemma rev_append_grows o o' : grows o o' -> exists t, rev_append o' [] = rev_append o [] ++ t.
Proof. intros [t ->]. exists (rev t). rewrite !rev_append_rev, !app_nil_r, rev_app_distr. reflexivity. Qed.

Lemma fuel_of_le a b acc : (fuel_of a acc <= fuel_of (a ++ b) acc)%nat.
Proof. rewrite !fuel_of_spec, app_length. lia. Qed.

Lemma tlength_app_tail (input tail e : list Z) : (tlength (input ++ e) - tlength (tail ++ e) = tlength input - tlength tail)%nat.
Proof. rewrite !tlength_length, !app_length. lia. Qed.

(* what the wrapper returns for a ++ b in terms of what it returns for a *)
Lemma zlib_inflate_ext chk a b :
  match zlib_inflate chk a with
  | (o, ZNeedMore) => exists t, fst (zlib_inflate chk (a ++ b)) = o ++ t
  | (o, ZError) => snd (zlib_inflate chk (a ++ b)) = ZError
  | (o, ZDone _) => exists n, zlib_inflate chk (a ++ b) = (o, ZDone n)
  end.
Proof.
  destruct a as [|cmf [|flg body]]; cbn [zlib_inflate app].
  - eexists. reflexivity.
  - eexists. reflexivity.
  - destruct (zlib_header_ok cmf flg); [|reflexivity].
    pose proof (run_ext (fuel_of body 16) MHeader (mkbits [] body) [] (fuel_of (body ++ b) 16) b (fuel_of_le body b 16)) as R.
    change (ext (mkbits [] body) b) with (mkbits [] (body ++ b)) in R.
    destruct (inflate_run (fuel_of body 16) MHeader (mkbits [] body) []) as [out r]. destruct r as [| | s1].
    + (* need more *)
      destruct (inflate_run (fuel_of (body ++ b) 16) MHeader (mkbits [] (body ++ b)) []) as [o2 r2]. cbn [fst] in R.
      destruct (rev_append_grows out o2 R) as [t Ht].
      destruct r2 as [| | s2]; cbn [fst]; try (exists t; exact Ht).
      destruct (bs_rest s2) as [|a0 [|a1 [|a2 [|a3 tl]]]]; try (exists t; exact Ht).
      destruct (if chk then _ else true); exists t; exact Ht.
    + destruct (inflate_run (fuel_of (body ++ b) 16) MHeader (mkbits [] (body ++ b)) []) as [o2 r2]. cbn [snd] in R. subst r2. reflexivity.
    + rewrite R. cbn [ext bs_rest].
      destruct (bs_rest s1) as [|a0 [|a1 [|a2 [|a3 tl]]]] eqn:Er; cbn [app].
      * destruct b as [|x0 [|x1 [|x2 [|x3 b']]]]; try (exists []; rewrite app_nil_r; reflexivity).
        destruct (if chk then _ else true); exists []; rewrite app_nil_r; reflexivity.
      * destruct b as [|x0 [|x1 [|x2 b']]]; try (exists []; rewrite app_nil_r; reflexivity).
        destruct (if chk then _ else true); exists []; rewrite app_nil_r; reflexivity.
      * destruct b as [|x0 [|x1 b']]; try (exists []; rewrite app_nil_r; reflexivity).
        destruct (if chk then _ else true); exists []; rewrite app_nil_r; reflexivity.
      * destruct b as [|x0 b']; try (exists []; rewrite app_nil_r; reflexivity).
        destruct (if chk then _ else true); exists []; rewrite app_nil_r; reflexivity.
      * destruct (if chk then adler32 (rev_append out []) =? be32 a0 a1 a2 a3 else true); [|reflexivity].
        eexists. reflexivity.
Qed.

(* THE CONTRACT holds for the reference inflater *)
Theorem zinf_ref_contract : zinf_contract zinf_ref.
Proof.
  split; [|split].
  - intros c a b. unfold zinf_ref. pose proof (zlib_inflate_ext c a b) as X.
    destruct (zlib_inflate c a) as [o st]. destruct st; cbn [snd]; try discriminate. intros _.
    destruct X as [t Ht]. destruct (zlib_inflate c (a ++ b)) as [o2 st2]. cbn [fst] in *. exists t. exact Ht.
  - intros c a b. unfold zinf_ref. pose proof (zlib_inflate_ext c a b) as X.
    destruct (zlib_inflate c a) as [o st]. destruct st; cbn [snd]; try discriminate. intros _.
    destruct (zlib_inflate c (a ++ b)) as [o2 st2]. cbn [snd] in *. subst st2. reflexivity.
  - intros c a b. unfold zinf_ref. pose proof (zlib_inflate_ext c a b) as X.
    destruct (zlib_inflate c a) as [o st]. destruct st; cbn [snd]; try discriminate. intros _.
    destruct X as [n Hn]. rewrite Hn. reflexivity.
Qed.

(* ------------------------------------------------------------------ C04 / C05 for the executable model, without a premise about the inflater *)
Theorem executable_model_is_delivery_independent :
  forall o limit ps1 ps2, Forall bytes_ok ps1 -> Forall bytes_ok ps2 -> concat ps1 = concat ps2 ->
  feed_obs (feed zinf_ref inflate_checked utf8_valid (init_state o limit) ps1) =
  feed_obs (feed zinf_ref inflate_checked utf8_valid (init_state o limit) ps2).
Proof. exact (decoding_is_delivery_independent zinf_ref inflate_checked utf8_valid zinf_ref_contract). Qed.

Theorem executable_model_prefix_never_fails :
  forall o limit p q, bytes_ok p -> bytes_ok q ->
  ~ is_failure (snd (feed zinf_ref inflate_checked utf8_valid (init_state o limit) [p ++ q])) ->
  ~ is_failure (snd (feed zinf_ref inflate_checked utf8_valid (init_state o limit) [p])).
Proof. exact (prefix_never_fails zinf_ref inflate_checked utf8_valid zinf_ref_contract). Qed.

Theorem executable_model_resuming_completes_identically :
  forall o limit increments, Forall bytes_ok increments ->
  feed_obs (feed zinf_ref inflate_checked utf8_valid (init_state o limit) increments) =
  feed_obs (feed zinf_ref inflate_checked utf8_valid (init_state o limit) [concat increments]).
Proof. exact (resuming_completes_identically zinf_ref inflate_checked utf8_valid zinf_ref_contract). Qed.
