(* Delivery independence of the L0 machine, field by field (C04): a 4-byte field (length, type, CRC, sequence
   number, signature half) delivered in pieces is parsed by the same parse_u32 call as when delivered whole, and a
   chunk body delivered in two pieces leaves the same state as when delivered in one. *)
From PngV Require Import Base.Bytes Base.Crc Gen.GenStream Model.Stream Proofs.StreamProofs.
From RecordUpdate Require Import RecordSet.
Import RecordSetNotations.
From Coq Require Import ZifyBool.

Section WithInflate.
Variable zinf : bool -> list Z -> list Z * dstatus.
Variable zall : list Z -> option (list Z).
Variable utf8_valid : list Z -> bool.
Notation next_state := (next_state zinf zall utf8_valid).
Notation parse_u32 := (parse_u32 zinf).

Definition wrap (n : nat) (r : sres) : dstate * rres (nat * event * list Z) :=
  match r with
  | (s', Ok (e, app)) => (s', Ok (n, e, app))
  | (s', Err e) => (s', Err e)
  | (s', Panic p) => (s', Panic p)
  end.

(* parse_u32 never reads the control state: it only overwrites it *)
Lemma upd_st_twice (s : dstate) x y : s <| st := x |> <| st := y |> = s <| st := y |>.
Proof. destruct s. reflexivity. Qed.
Lemma parse_u32_st_irrelevant s x kind bytes : parse_u32 (s <| st := x |>) kind bytes = parse_u32 s kind bytes.
Proof. destruct kind as [ | | | len | ty0 | ]; unfold parse_u32.
  1-3: destruct s; reflexivity.
  - unfold goto, poison.
    replace (info (s <| st := x |>)) with (info s) by (destruct s; reflexivity).
    replace (c_type (s <| st := x |>)) with (c_type s) by (destruct s; reflexivity).
    replace (ready_fdat (s <| st := x |>)) with (ready_fdat s) by (destruct s; reflexivity).
    replace (ready_idat (s <| st := x |>)) with (ready_idat s) by (destruct s; reflexivity).
    set (ty := match bytes with [a; b; c; d] => be32 a b c d | _ => 0 end).
    replace (opts ((s <| st := x |>) <| c_type := ty |>)) with (opts s) by (destruct s; reflexivity).
    replace (opts (s <| c_type := ty |>)) with (opts s) by (destruct s; reflexivity).
    replace (opts ((s <| st := x |>) <| have_idat := true |> <| c_type := ty |>)) with (opts s) by (destruct s; reflexivity).
    replace (opts (s <| have_idat := true |> <| c_type := ty |>)) with (opts s) by (destruct s; reflexivity).
    destruct (match info s with Some _ => false | None => true end && negb (ty =? ct_IHDR)).
    { rewrite upd_st_twice. reflexivity. }
    destruct (negb (ty =? c_type s) && ((c_type s =? ct_IDAT) || (c_type s =? ct_fdAT))).
    { (destruct s; reflexivity). }
    destruct (ty =? ct_fdAT).
    { destruct (negb (ready_fdat s)); [rewrite upd_st_twice; reflexivity|]. destruct (len <? 4); [rewrite upd_st_twice; reflexivity|].
      (destruct (o_ignore_crc (opts s)); destruct s; reflexivity). }
    destruct (ty =? ct_IDAT).
    { destruct (negb (ready_idat s)); [rewrite upd_st_twice; reflexivity|]. (destruct (o_ignore_crc (opts s)); destruct s; reflexivity). }
    (destruct (o_ignore_crc (opts s)); destruct s; reflexivity).
  - unfold goto, poison.
    replace (opts (s <| st := x |>)) with (opts s) by (destruct s; reflexivity).
    replace (c_crc (s <| st := x |>)) with (c_crc s) by (destruct s; reflexivity).
    set (val := match bytes with [a; b; c; d] => be32 a b c d | _ => 0 end).
    destruct (val =? (if o_ignore_crc (opts s) then val else crc_finish (c_crc s))).
    { destruct (ty0 =? ct_IEND); rewrite upd_st_twice; reflexivity. }
    destruct (o_skip_anc_crc (opts s) && negb (is_critical ty0) && negb (ty0 =? ct_fdAT)); rewrite upd_st_twice; reflexivity.
  - unfold goto, poison.
    replace (c_remaining (s <| st := x |>)) with (c_remaining s) by (destruct s; reflexivity).
    destruct (c_remaining s <? 4); [rewrite upd_st_twice; reflexivity|].
    replace (seq ((s <| st := x |>) <| c_remaining := c_remaining s - 4 |>)) with (seq s) by (destruct s; reflexivity).
    replace (seq (s <| c_remaining := c_remaining s - 4 |>)) with (seq s) by (destruct s; reflexivity).
    set (val := match bytes with [a; b; c; d] => be32 a b c d | _ => 0 end).
    destruct (seq s) as [q|]; [| destruct s; reflexivity].
    destruct (negb (val =? q + 1)); [destruct s; reflexivity|].
    replace (opts ((s <| st := x |>) <| c_remaining := c_remaining s - 4 |> <| seq := Some val |>)) with (opts s) by (destruct s; reflexivity).
    replace (opts (s <| c_remaining := c_remaining s - 4 |> <| seq := Some val |>)) with (opts s) by (destruct s; reflexivity).
    destruct (o_ignore_crc (opts s)); destruct s; reflexivity.
Qed.

(* whole field available at a field boundary: the fast path *)
Lemma u32_whole s kind b0 b1 b2 b3 tail :
  st s = Some (SU32 kind []) ->
  next_state s (b0 :: b1 :: b2 :: b3 :: tail) = wrap 4 (parse_u32 s kind [b0; b1; b2; b3]).
Proof. intro H. unfold Stream.next_state. rewrite H. reflexivity. Qed.

(* a piece that does not complete the field is only accumulated: no event, nothing else changes *)
Lemma u32_accumulate s kind acc p :
  st s = Some (SU32 kind acc) -> p <> [] -> (length acc + length p < 4)%nat ->
  next_state s p = (s <| st := Some (SU32 kind (acc ++ p)) |>, Ok (length p, ENothing, [])).
Proof.
  intros H Hp Hl. unfold Stream.next_state. rewrite H.
  assert (E : Nat.min (4 - length acc) (length p) = length p) by lia.
  destruct acc as [|a0 acc0].
  - destruct p as [|p0 [|p1 [|p2 [|p3 p']]]]; cbn [length] in *; try congruence; try lia;
      cbv zeta; rewrite E; cbn [app firstn length Nat.ltb Nat.leb]; reflexivity.
  - cbv zeta. rewrite E, firstn_all.
    assert (L : (length ((a0 :: acc0) ++ p) <? 4)%nat = true) by (apply Nat.ltb_lt; rewrite app_length; lia).
    rewrite L. reflexivity.
Qed.

(* the piece that completes the field: the same parse_u32 call, on the same four bytes, from the same state *)
Lemma u32_complete s kind acc p :
  st s = Some (SU32 kind acc) -> acc <> [] -> (length acc < 4)%nat -> (4 <= length acc + length p)%nat ->
  next_state s p = wrap (4 - length acc) (parse_u32 s kind (acc ++ firstn (4 - length acc) p)).
Proof.
  intros H Ha Hl Hp. unfold Stream.next_state. rewrite H.
  destruct acc as [|a0 acc0]; [congruence|]. cbv zeta.
  assert (E : Nat.min (4 - length (a0 :: acc0)) (length p) = (4 - length (a0 :: acc0))%nat) by lia.
  rewrite E.
  assert (L : (length ((a0 :: acc0) ++ firstn (4 - length (a0 :: acc0)) p) <? 4)%nat = false).
  { apply Nat.ltb_ge. rewrite app_length, firstn_length. lia. }
  rewrite L. reflexivity.
Qed.

(* THE FIELD THEOREM: a field cut after k bytes (k = 1, 2, 3) - the first piece is silent, and the second step
   returns exactly what the single step on the uncut buffer returns, except for the byte count (4 - k instead of 4) *)
Theorem u32_field_cut s kind b0 b1 b2 b3 tail (k : nat) :
  st s = Some (SU32 kind []) -> (1 <= k <= 3)%nat ->
  let whole := b0 :: b1 :: b2 :: b3 :: tail in
  let first := firstn k whole in
  let second := skipn k whole in
  exists s1,
    next_state s first = (s1, Ok (k, ENothing, [])) /\
    next_state s1 second = wrap (4 - k) (parse_u32 s kind [b0; b1; b2; b3]) /\
    next_state s whole = wrap 4 (parse_u32 s kind [b0; b1; b2; b3]).
Proof.
  intros H Hk whole first second.
  exists (s <| st := Some (SU32 kind first) |>).
  assert (Hfl : length first = k) by (subst first whole; rewrite firstn_length; cbn [length]; lia).
  split; [|split].
  - replace (Some (SU32 kind first)) with (Some (SU32 kind ([] ++ first))) by reflexivity.
    pose proof (u32_accumulate s kind [] first H) as A. rewrite Hfl in A. apply A; [| cbn [length]; lia].
    subst first whole. destruct k; [lia|]. cbn. discriminate.
  - rewrite (u32_complete (s <| st := Some (SU32 kind first) |>) kind first second).
    + rewrite parse_u32_st_irrelevant, Hfl. f_equal. f_equal.
      subst first second whole. destruct k as [|[|[|[|k]]]]; try lia; reflexivity.
    + reflexivity.
    + subst first whole. destruct k; [lia|]. cbn. discriminate.
    + lia.
    + subst second whole. rewrite Hfl, skipn_length. cbn [length]. lia.
  - apply u32_whole. exact H.
Qed.

(* the state after buffering a piece of a chunk body *)
Definition after_body (s : dstate) (ty : Z) (p : list Z) : dstate :=
  (if o_ignore_crc (opts s) then s else s <| c_crc := crc_update (c_crc s) p |>)
    <| c_raw := c_raw s ++ p |> <| c_remaining := c_remaining s - Z.of_nat (length p) |> <| st := Some (SRead ty) |>.

Lemma sread_step s ty p :
  st s = Some (SRead ty) -> p <> [] ->
  zlen p < c_remaining s -> zlen p <= c_cap s - zlen (c_raw s) ->
  next_state s p = (after_body s ty p, Ok (length p, ENothing, [])).
Proof.
  intros H Hp Hr Hc.
  assert (Lp : 1 <= zlen p) by (unfold zlen; destruct p; [congruence | cbn [length]; lia]).
  unfold Stream.next_state, after_body. rewrite H.
  assert (E0 : (c_remaining s =? 0) = false) by lia. rewrite E0.
  assert (Ea : (c_cap s - zlen (c_raw s) <=? 0) = false) by lia. rewrite Ea. cbv zeta.
  assert (N1 : Z.to_nat (Z.min (c_remaining s) (Z.min (zlen p) (c_cap s - zlen (c_raw s)))) = length p) by (unfold zlen in *; lia).
  rewrite N1, firstn_all.
  destruct (o_ignore_crc (opts s)).
  - replace (c_remaining (s <| c_raw := c_raw s ++ p |> <| c_remaining := c_remaining s - Z.of_nat (length p) |>))
      with (c_remaining s - Z.of_nat (length p)) by (destruct s; reflexivity).
    assert (E1 : (c_remaining s - Z.of_nat (length p) =? 0) = false) by (unfold zlen in *; lia). rewrite E1. reflexivity.
  - replace (c_remaining (s <| c_crc := crc_update (c_crc s) p |> <| c_raw := c_raw (s <| c_crc := crc_update (c_crc s) p |>) ++ p |>
               <| c_remaining := c_remaining (s <| c_crc := crc_update (c_crc s) p |>) - Z.of_nat (length p) |>))
      with (c_remaining s - Z.of_nat (length p)) by (destruct s; reflexivity).
    assert (E1 : (c_remaining s - Z.of_nat (length p) =? 0) = false) by (unfold zlen in *; lia). rewrite E1.
    destruct s; reflexivity.
Qed.

Lemma after_body_app s ty p q : after_body (after_body s ty p) ty q = after_body s ty (p ++ q).
Proof.
  unfold after_body. destruct s as [st0 cty crc rem raw cap inf inf0 sq hi ri rf hic op bud]. cbn.
  destruct (o_ignore_crc op) eqn:E; cbn; rewrite ?E; cbn; rewrite <- app_assoc, app_length;
    replace (rem - Z.of_nat (length p) - Z.of_nat (length q)) with (rem - Z.of_nat (length p + length q)) by lia;
    rewrite ?crc_update_app; reflexivity.
Qed.

(* THE BODY THEOREM: a chunk body piece delivered as p then q leaves exactly the state it leaves when delivered
   as p ++ q (both pieces inside the chunk and inside the buffer capacity); both deliveries are silent *)
Theorem body_cut s ty p q :
  st s = Some (SRead ty) -> p <> [] -> q <> [] ->
  zlen (p ++ q) < c_remaining s -> zlen (p ++ q) <= c_cap s - zlen (c_raw s) ->
  next_state s p = (after_body s ty p, Ok (length p, ENothing, [])) /\
  next_state (after_body s ty p) q = (after_body s ty (p ++ q), Ok (length q, ENothing, [])) /\
  next_state s (p ++ q) = (after_body s ty (p ++ q), Ok (length (p ++ q), ENothing, [])).
Proof.
  intros H Hp Hq Hr Hc.
  assert (Lpq : zlen (p ++ q) = zlen p + zlen q) by (unfold zlen; rewrite app_length; lia).
  assert (Lp : 1 <= zlen p) by (unfold zlen; destruct p; [congruence | cbn [length]; lia]).
  assert (Lq : 1 <= zlen q) by (unfold zlen; destruct q; [congruence | cbn [length]; lia]).
  split; [|split].
  - apply sread_step; try assumption; lia.
  - rewrite <- after_body_app. apply sread_step; try assumption.
    + unfold after_body. destruct s; destruct (o_ignore_crc opts); reflexivity.
    + unfold after_body. destruct s; cbn in *. destruct (o_ignore_crc opts); cbn; unfold zlen in *; lia.
    + unfold after_body. destruct s; cbn in *. destruct (o_ignore_crc opts); cbn; unfold zlen in *; rewrite app_length; lia.
  - apply sread_step; try assumption. destruct p; [congruence | discriminate].
Qed.

(* zero-byte transitions never look at the buffer *)
Theorem zero_byte_steps_ignore_buffer s ty buf buf' :
  st s = Some (SParse ty) -> next_state s buf = next_state s buf'.
Proof. intro H. unfold Stream.next_state. rewrite H. reflexivity. Qed.


(* ------------------------------------------------------------------ image data: a cut inside the compressed data of an IDAT / fdAT chunk *)
(* The inflater is external; what the cut theorem needs from it is that output determined by a prefix of the compressed stream stays
   determined when more input arrives (true of every inflater that does not retract output).  Stated as a hypothesis of the theorems. *)
Definition zinf_monotone : Prop :=
  forall c a b, snd (zinf c a) = DNeedMore -> exists t, fst (zinf c (a ++ b)) = fst (zinf c a) ++ t.

(* the wrapper has handed out exactly the output determined by the input it has consumed *)
Definition zcoh (z : zst) : Prop := z_emitted z = zlen (fst (zinf (negb (z_ignore_adler z)) (z_in z))).

Lemma skipn_zlen_app {A} (a b : list A) : skipn (Z.to_nat (zlen a)) (a ++ b) = b.
Proof. unfold zlen. rewrite Nat2Z.id. induction a as [|x a IH]; cbn [length skipn app]; [reflexivity | exact IH]. Qed.

Lemma z_decompress_cut z p q z1 o1 z2 o2 :
  zinf_monotone -> zcoh z ->
  snd (zinf (negb (z_ignore_adler z)) (z_in z)) = DNeedMore ->
  snd (zinf (negb (z_ignore_adler z)) (z_in z ++ p)) = DNeedMore ->
  z_decompress zinf z p = Ok (z1, o1) -> z_decompress zinf z1 q = Ok (z2, o2) ->
  z_decompress zinf z (p ++ q) = Ok (z2, o1 ++ o2) /\ zcoh z1 /\ zcoh z2.
Proof.
  intros Hm Hc H0 H1. unfold z_decompress, z_done. rewrite H0.
  destruct (zinf (negb (z_ignore_adler z)) (z_in z ++ p)) as [out1 st1] eqn:E1. cbn [snd] in H1. subst st1.
  intro Q1. injection Q1 as <- <-.
  replace (z_ignore_adler (z <| z_in := z_in z ++ p |> <| z_emitted := zlen out1 |> <| z_started := true |>)) with (z_ignore_adler z) by (destruct z; reflexivity).
  replace (z_in (z <| z_in := z_in z ++ p |> <| z_emitted := zlen out1 |> <| z_started := true |>)) with (z_in z ++ p) by (destruct z; reflexivity).
  rewrite E1. cbn [snd].
  rewrite <- app_assoc.
  destruct (zinf (negb (z_ignore_adler z)) (z_in z ++ p ++ q)) as [out2 st2] eqn:E2.
  destruct (Hm (negb (z_ignore_adler z)) (z_in z) p H0) as [t0 Ht0]. rewrite E1 in Ht0. cbn [fst] in Ht0.
  assert (H1' : snd (zinf (negb (z_ignore_adler z)) (z_in z ++ p)) = DNeedMore) by (rewrite E1; reflexivity).
  destruct (Hm (negb (z_ignore_adler z)) (z_in z ++ p) q H1') as [t Ht]. rewrite <- app_assoc, E1, E2 in Ht. cbn [fst] in Ht.
  destruct st2; try discriminate; intro Q2; injection Q2 as <- <-.
  all: replace (z_emitted (z <| z_in := z_in z ++ p |> <| z_emitted := zlen out1 |> <| z_started := true |>)) with (zlen out1) by (destruct z; reflexivity).
  all: split; [|split].
  all: try (unfold zcoh; destruct z; cbn in *; rewrite ?E1, ?E2; reflexivity).
  all: f_equal; apply pair_equal_spec; split; [destruct z; reflexivity|].
  all: unfold zcoh in Hc; rewrite Hc; rewrite Ht, Ht0; rewrite <- app_assoc; rewrite !skipn_zlen_app;
       replace (fst (zinf (negb (z_ignore_adler z)) (z_in z)) ++ t0 ++ t) with ((fst (zinf (negb (z_ignore_adler z)) (z_in z)) ++ t0) ++ t) by (rewrite app_assoc; reflexivity);
       rewrite skipn_zlen_app; reflexivity.
Qed.

Definition after_image (s : dstate) (ty : Z) (p : list Z) (z' : zst) : dstate :=
  s <| infl := z' |> <| c_crc := crc_update (c_crc s) p |> <| c_remaining := c_remaining s - Z.of_nat (length p) |> <| st := Some (SImage ty) |>.

Lemma simage_step s ty p z' out :
  st s = Some (SImage ty) -> p <> [] -> zlen p < c_remaining s ->
  z_decompress zinf (infl s) p = Ok (z', out) ->
  next_state s p = (after_image s ty p z', Ok (length p, EImageData, out)).
Proof.
  intros H Hp Hr Hz.
  unfold Stream.next_state, after_image. rewrite H. cbv zeta.
  assert (N1 : Z.to_nat (Z.min (zlen p) (c_remaining s)) = length p) by (unfold zlen in *; lia).
  rewrite N1, firstn_all, Hz.
  replace (c_remaining (s <| infl := z' |> <| c_crc := crc_update (c_crc s) p |> <| c_remaining := c_remaining s - Z.of_nat (length p) |>))
    with (c_remaining s - Z.of_nat (length p)) by (destruct s; reflexivity).
  assert (E1 : (c_remaining s - Z.of_nat (length p) =? 0) = false) by (unfold zlen in *; lia). rewrite E1. reflexivity.
Qed.

(* THE IMAGE-DATA THEOREM: compressed image data delivered as p then q (both inside the chunk, the stream not finished after p)
   leaves exactly the state it leaves when delivered as p ++ q, and the image bytes appended by the two calls together are the
   bytes appended by the single call *)
Theorem image_cut s ty p q z1 o1 z2 o2 :
  zinf_monotone -> zcoh (infl s) ->
  st s = Some (SImage ty) -> p <> [] -> q <> [] -> zlen (p ++ q) < c_remaining s ->
  snd (zinf (negb (z_ignore_adler (infl s))) (z_in (infl s))) = DNeedMore ->
  snd (zinf (negb (z_ignore_adler (infl s))) (z_in (infl s) ++ p)) = DNeedMore ->
  z_decompress zinf (infl s) p = Ok (z1, o1) -> z_decompress zinf z1 q = Ok (z2, o2) ->
  next_state s p = (after_image s ty p z1, Ok (length p, EImageData, o1)) /\
  next_state (after_image s ty p z1) q = (after_image s ty (p ++ q) z2, Ok (length q, EImageData, o2)) /\
  next_state s (p ++ q) = (after_image s ty (p ++ q) z2, Ok (length (p ++ q), EImageData, o1 ++ o2)) /\
  zcoh z2.
Proof.
  intros Hm Hc H Hp Hq Hr H0 H1 Hz1 Hz2.
  assert (Lpq : zlen (p ++ q) = zlen p + zlen q) by (unfold zlen; rewrite app_length; lia).
  assert (Lp : 1 <= zlen p) by (unfold zlen; destruct p; [congruence | cbn [length]; lia]).
  assert (Lq : 1 <= zlen q) by (unfold zlen; destruct q; [congruence | cbn [length]; lia]).
  destruct (z_decompress_cut (infl s) p q z1 o1 z2 o2 Hm Hc H0 H1 Hz1 Hz2) as (Hw & Hc1 & Hc2).
  split; [|split; [|split]].
  - apply simage_step; try assumption; lia.
  - assert (E : after_image s ty (p ++ q) z2 = after_image (after_image s ty p z1) ty q z2).
    { unfold after_image. destruct s. cbn. rewrite crc_update_app, app_length.
      replace (c_remaining - Z.of_nat (length p + length q)) with (c_remaining - Z.of_nat (length p) - Z.of_nat (length q)) by lia. reflexivity. }
    rewrite E. apply simage_step; try assumption;
      try (unfold after_image; destruct s; cbn in *; first [reflexivity | exact Hz2 | (unfold zlen in *; lia)]).
  - apply simage_step; try assumption. destruct p; [congruence | discriminate].
  - exact Hc2.
Qed.
End WithInflate.

(* the monotonicity premise is satisfiable (a pass-through "inflater"), so image_cut is not vacuous *)
Example zinf_monotone_satisfiable : zinf_monotone (fun (_ : bool) (a : list Z) => (a, DNeedMore)).
Proof. intros c a b _. exists b. reflexivity. Qed.
