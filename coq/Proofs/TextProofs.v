(* Text payload coding (C20): Latin-1 maps code point for code point, refuses exactly the strings with a code point above
   255; compress / decompress of a text chunk object are idempotent and mutually inverse under the codec contract; a failed
   decompression leaves the chunk as it was; a bounded decompression never returns more than the bound. *)
From PngV Require Import Base.Bytes Model.Text Base.Inflate.
From Coq Require Import ZifyBool.

Theorem encode_decode_latin1 bs : bytes_ok bs -> encode_latin1 (decode_latin1 bs) = Some bs.
Proof.
  unfold decode_latin1. rewrite map_id. induction bs as [|b bs IH]; intro H; cbn [encode_latin1]; [reflexivity|].
  inversion H as [|? ? Hb Hbs]; subst. unfold byte_ok in Hb.
  destruct (Z.leb_spec 0 b), (Z.ltb_spec b 256); try lia. cbn [andb]. rewrite (IH Hbs). reflexivity.
Qed.

Theorem decode_encode_latin1 s raw : encode_latin1 s = Some raw -> decode_latin1 raw = s /\ bytes_ok raw.
Proof.
  unfold decode_latin1. rewrite map_id. revert raw. induction s as [|c s IH]; intros raw; cbn [encode_latin1].
  - intro H; inversion H; subst. split; [reflexivity | constructor].
  - destruct ((0 <=? c) && (c <? 256)) eqn:E; [|discriminate].
    destruct (encode_latin1 s) as [r|] eqn:Er; [|discriminate]. cbn. intro H; inversion H; subst.
    destruct (IH r eq_refl) as [-> Hb]. split; [reflexivity|]. constructor; [unfold byte_ok; lia | exact Hb].
Qed.

Theorem encode_latin1_refuses_exactly_non_latin1 s :
  encode_latin1 s = None <-> exists c, In c s /\ ~ (0 <= c < 256).
Proof.
  induction s as [|c s IH]; cbn [encode_latin1 In].
  - split; [discriminate | intros (c & [] & _)].
  - destruct ((0 <=? c) && (c <? 256)) eqn:E.
    + destruct (encode_latin1 s) as [r|] eqn:Er; cbn.
      * split; [discriminate|]. intros (c' & [-> | Hin] & Hc); [lia|]. exfalso.
        assert (Hn : Some r = None) by (apply IH; eauto). discriminate.
      * split; [|reflexivity]. intros _. destruct (proj1 IH eq_refl) as (c' & Hin & Hc). eauto.
    + split; [|reflexivity]. intros _. exists c. split; [auto | lia].
Qed.

Section Codec.
Variable K : list Z -> list Z.
Variable I : list Z -> nat -> outcome (list Z) terr.
(* the contract assumed of the external codec (stated in the trusted base; satisfiable: see [contract_satisfiable]) *)
Hypothesis inflate_compress : forall raw limit, bytes_ok raw -> (length raw <= limit)%nat -> I (K raw) limit = Ok raw.
Hypothesis bounded : forall z limit out, I z limit = Ok out -> (length out <= limit)%nat.
Hypothesis inflate_bytes : forall z limit out, I z limit = Ok out -> bytes_ok out.

Notation compress := (compress_text K).
Notation decompress := (decompress_text_with_limit I).

Theorem compress_idempotent t t1 : compress t = Ok t1 -> compress t1 = Ok t1.
Proof. destruct t as [z|s]; cbn; [intro H; inversion H; reflexivity|]. destruct (encode_latin1 s); intro H; inversion H. reflexivity. Qed.

Theorem decompress_idempotent t t1 n : decompress t n = Ok t1 -> forall m, decompress t1 m = Ok t1.
Proof. destruct t as [z|s]; cbn; [|intro H; inversion H; reflexivity]. destruct (I z n); intro H; inversion H. reflexivity. Qed.

(* compress then decompress returns the text that was compressed (any limit at least its length) *)
Theorem decompress_compress s t1 n : compress (Uncompressed s) = Ok t1 -> (length s <= n)%nat -> decompress t1 n = Ok (Uncompressed s).
Proof.
  cbn. destruct (encode_latin1 s) as [raw|] eqn:E; [|discriminate]. intro H; inversion H; subst. intro Hn.
  destruct (decode_encode_latin1 s raw E) as [Hd Hb]. cbn.
  assert (Hl : length raw = length s) by (rewrite <- Hd; unfold decode_latin1; rewrite map_length; reflexivity).
  rewrite inflate_compress by (assumption || lia). rewrite Hd. reflexivity.
Qed.

(* decompress then compress then decompress is the same text: the two are mutually inverse on what they produce *)
Theorem compress_decompress z s n : decompress (Compressed z) n = Ok (Uncompressed s) ->
  exists t1, compress (Uncompressed s) = Ok t1 /\ decompress t1 n = Ok (Uncompressed s).
Proof.
  cbn. destruct (I z n) as [raw| |] eqn:E; intro H; inversion H; subst.
  pose proof (inflate_bytes _ _ _ E) as Hb. pose proof (bounded _ _ _ E) as Hl.
  cbn. rewrite (encode_decode_latin1 raw Hb). eexists. split; [reflexivity|]. cbn.
  rewrite inflate_compress by assumption. reflexivity.
Qed.

(* a failed call leaves the chunk exactly as it was (the new state is only assigned on success): modelled as "no new state" *)
Theorem failure_returns_no_state t n e : decompress t n = Err e -> exists z, t = Compressed z /\ I z n = Err e.
Proof. destruct t as [z|s]; cbn; [|discriminate]. destruct (I z n) eqn:E; intro H; inversion H; subst. eauto. Qed.

(* decompressing with a limit never materialises more than the limit *)
Theorem decompress_respects_limit t n s : decompress t n = Ok (Uncompressed s) -> (exists z, t = Compressed z) -> (length s <= n)%nat.
Proof.
  intros H [z ->]. cbn in H. destruct (I z n) as [raw| |] eqn:E; inversion H; subst.
  unfold decode_latin1. rewrite map_length. exact (bounded _ _ _ E).
Qed.
End Codec.

(* the contract is satisfiable: the identity codec with a length check *)
Example contract_satisfiable :
  let K := fun raw : list Z => raw in
  let I := fun (z : list Z) (limit : nat) => if (length z <=? limit)%nat && bytesb z then @Ok (list Z) terr z else Err TOutOfSpace in
  (forall raw limit, bytes_ok raw -> (length raw <= limit)%nat -> I (K raw) limit = Ok raw) /\
  (forall z limit out, I z limit = Ok out -> (length out <= limit)%nat) /\
  (forall z limit out, I z limit = Ok out -> bytes_ok out).
Proof.
  cbv zeta. split; [|split].
  - intros raw limit Hb Hl. assert (E : (length raw <=? limit)%nat = true) by (apply Nat.leb_le; exact Hl). rewrite E.
    assert (B : bytesb raw = true).
    { unfold bytesb. apply forallb_forall. intros x Hx. unfold bytes_ok in Hb. rewrite Forall_forall in Hb. specialize (Hb x Hx). unfold byte_ok, byteb in *. lia. }
    rewrite B. reflexivity.
  - intros z limit out. destruct (Nat.leb_spec (length z) limit) as [Hle|Hgt]; cbn [andb]; [|discriminate]. destruct (bytesb z); intro Hq; inversion Hq; subst. exact Hle.
  - intros z limit out. destruct (length z <=? limit)%nat; cbn [andb]; [|discriminate]. destruct (bytesb z) eqn:B; intro Hq; inversion Hq; subst.
    unfold bytes_ok. rewrite Forall_forall. intros x Hx. unfold bytesb in B. rewrite forallb_forall in B. specialize (B x Hx). unfold byte_ok, byteb in *. lia.
Qed.

(* the concrete bounded inflater used by the correspondence check satisfies the boundedness half of the contract *)
Lemma tlength_length (l : list Z) : tlength l = length l.
Proof.
  unfold tlength. assert (H : forall n, fold_left (fun k _ => S k) l n = (n + length l)%nat).
  { induction l as [|x l IH]; intros n; cbn [fold_left length]; [lia | rewrite IH; lia]. }
  apply H.
Qed.

Theorem inflate_bounded_is_bounded z limit out : inflate_bounded z limit = Ok out -> (length out <= limit)%nat.
Proof.
  unfold inflate_bounded. destruct (zlib_inflate true z) as [o st]. destruct st; try discriminate.
  destruct (Nat.leb_spec (tlength o) limit) as [Hle|Hgt]; try discriminate.
  intros H. injection H as <-. rewrite <- tlength_length. exact Hle.
Qed.
