(* List plumbing shared by the proofs. *)
From PngV Require Import Base.Bytes Model.Filter.
From Coq Require Import ZifyBool.

Lemma firstn_app_len {A} (l1 l2 : list A) n : length l1 = n -> firstn n (l1 ++ l2) = l1.
Proof.
  intros <-. rewrite firstn_app, Nat.sub_diag, firstn_all. simpl. apply app_nil_r.
Qed.

Lemma skipn_app_len {A} (l1 l2 : list A) n : length l1 = n -> skipn n (l1 ++ l2) = l2.
Proof.
  intros <-. rewrite skipn_app, Nat.sub_diag, skipn_all. reflexivity.
Qed.

Lemma split_at {A} (l : list A) n : (n <= length l)%nat ->
  exists l1 l2, l = l1 ++ l2 /\ length l1 = n.
Proof.
  intros H. exists (firstn n l), (skipn n l). split.
  - symmetry. apply firstn_skipn.
  - apply firstn_length_le. exact H.
Qed.

Lemma map2_app {A B C} (f : A -> B -> C) l1 l1' l2 l2' :
  length l1 = length l2 -> map2 f (l1 ++ l1') (l2 ++ l2') = map2 f l1 l2 ++ map2 f l1' l2'.
Proof.
  revert l2; induction l1 as [|a l1 IH]; intros [|b l2] H; simpl in *; try discriminate; auto.
  f_equal. apply IH. congruence.
Qed.

Lemma map3_app {A B C D} (f : A -> B -> C -> D) l1 l1' l2 l2' l3 l3' :
  length l1 = length l2 -> length l1 = length l3 ->
  map3 f (l1 ++ l1') (l2 ++ l2') (l3 ++ l3') = map3 f l1 l2 l3 ++ map3 f l1' l2' l3'.
Proof.
  revert l2 l3; induction l1 as [|a l1 IH]; intros [|b l2] [|c l3] H1 H2; simpl in *; try discriminate; auto.
  f_equal. apply IH; congruence.
Qed.

Lemma map4_app {A B C D E} (f : A -> B -> C -> D -> E) l1 l1' l2 l2' l3 l3' l4 l4' :
  length l1 = length l2 -> length l1 = length l3 -> length l1 = length l4 ->
  map4 f (l1 ++ l1') (l2 ++ l2') (l3 ++ l3') (l4 ++ l4') = map4 f l1 l2 l3 l4 ++ map4 f l1' l2' l3' l4'.
Proof.
  revert l2 l3 l4; induction l1 as [|a l1 IH]; intros [|b l2] [|c l3] [|d l4] H1 H2 H3;
    simpl in *; try discriminate; auto.
  f_equal. apply IH; congruence.
Qed.

Lemma map2_length_eq {A B C} (f : A -> B -> C) l1 l2 :
  length l1 = length l2 -> length (map2 f l1 l2) = length l1.
Proof. intros H. rewrite map2_length, H. apply Nat.min_id. Qed.

Lemma map3_length_eq {A B C D} (f : A -> B -> C -> D) l1 l2 l3 :
  length l1 = length l2 -> length l1 = length l3 -> length (map3 f l1 l2 l3) = length l1.
Proof.
  revert l2 l3; induction l1 as [|a l1 IH]; intros [|b l2] [|c l3] H1 H2; simpl in *; try discriminate; auto.
Qed.

Lemma map4_length_eq {A B C D E} (f : A -> B -> C -> D -> E) l1 l2 l3 l4 :
  length l1 = length l2 -> length l1 = length l3 -> length l1 = length l4 ->
  length (map4 f l1 l2 l3 l4) = length l1.
Proof.
  revert l2 l3 l4; induction l1 as [|a l1 IH]; intros [|b l2] [|c l3] [|d l4] H1 H2 H3;
    simpl in *; try discriminate; auto.
Qed.

Lemma map2_ext_in {A B C} (f g : A -> B -> C) (PA : A -> Prop) (PB : B -> Prop) l1 l2 :
  (forall a b, PA a -> PB b -> f a b = g a b) -> Forall PA l1 -> Forall PB l2 ->
  map2 f l1 l2 = map2 g l1 l2.
Proof.
  intros Hfg. revert l2; induction l1 as [|a l1 IH]; intros [|b l2] H1 H2; simpl; auto.
  inversion H1; inversion H2; subst. f_equal; auto.
Qed.

(* the chunked traversals of the encoder equal the plain zipped maps *)
Lemma chunked_map2_eq n f fuel l1 l2 :
  length l1 = length l2 -> chunked_map2 n f fuel l1 l2 = map2 f l1 l2.
Proof.
  revert l1 l2; induction fuel as [|fuel IH]; intros l1 l2 H; simpl; auto.
  destruct ((length l1 <? n)%nat || (length l2 <? n)%nat) eqn:E; auto.
  apply orb_false_iff in E as [E1 E2]. apply Nat.ltb_ge in E1, E2.
  rewrite IH by (rewrite !skipn_length; lia).
  rewrite <- map2_app by (rewrite !firstn_length; lia).
  rewrite !firstn_skipn. reflexivity.
Qed.

Lemma chunked_map3_eq n f fuel l1 l2 l3 :
  length l1 = length l2 -> length l1 = length l3 -> chunked_map3 n f fuel l1 l2 l3 = map3 f l1 l2 l3.
Proof.
  revert l1 l2 l3; induction fuel as [|fuel IH]; intros l1 l2 l3 H2 H3; simpl; auto.
  destruct ((length l1 <? n)%nat || (length l2 <? n)%nat || (length l3 <? n)%nat) eqn:E; auto.
  apply orb_false_iff in E as [E E3]. apply orb_false_iff in E as [E1 E2].
  apply Nat.ltb_ge in E1, E2, E3.
  rewrite IH by (rewrite !skipn_length; lia).
  rewrite <- map3_app by (rewrite !firstn_length; lia).
  rewrite !firstn_skipn. reflexivity.
Qed.

Lemma chunked_map4_eq n f fuel l1 l2 l3 l4 :
  length l1 = length l2 -> length l1 = length l3 -> length l1 = length l4 ->
  chunked_map4 n f fuel l1 l2 l3 l4 = map4 f l1 l2 l3 l4.
Proof.
  revert l1 l2 l3 l4; induction fuel as [|fuel IH]; intros l1 l2 l3 l4 H2 H3 H4; simpl; auto.
  destruct ((length l1 <? n)%nat || (length l2 <? n)%nat || (length l3 <? n)%nat || (length l4 <? n)%nat) eqn:E; auto.
  apply orb_false_iff in E as [E E4]. apply orb_false_iff in E as [E E3]. apply orb_false_iff in E as [E1 E2].
  apply Nat.ltb_ge in E1, E2, E3, E4.
  rewrite IH by (rewrite !skipn_length; lia).
  rewrite <- map4_app by (rewrite !firstn_length; lia).
  rewrite !firstn_skipn. reflexivity.
Qed.

Lemma Forall_app_iff {A} (P : A -> Prop) l1 l2 : Forall P (l1 ++ l2) <-> Forall P l1 /\ Forall P l2.
Proof. apply Forall_app. Qed.

Lemma Forall_tl {A} (P : A -> Prop) l : Forall P l -> Forall P (tl l).
Proof. destruct l; simpl; auto. intros H; inversion H; auto. Qed.

Lemma Forall_hd0 (l : list Z) : bytes_ok l -> byte_ok (hd 0 l).
Proof. destruct l; simpl; intros H; [unfold byte_ok; lia | inversion H; auto]. Qed.

Lemma mod256_byte x : byte_ok (x mod 256).
Proof. unfold byte_ok. Z.div_mod_to_equations. lia. Qed.

Lemma byte_mod x : byte_ok x -> x mod 256 = x.
Proof. unfold byte_ok. intros. apply Z.mod_small. lia. Qed.

Lemma repeatz_Forall {A} (P : A -> Prop) x n : P x -> Forall P (repeatz x n).
Proof. induction n; simpl; auto. Qed.

Lemma Forall_firstn {A} (P : A -> Prop) n l : Forall P l -> Forall P (firstn n l).
Proof. revert l; induction n; intros [|a l] H; simpl; auto. inversion H; auto. Qed.

Lemma Forall_skipn {A} (P : A -> Prop) n l : Forall P l -> Forall P (skipn n l).
Proof. revert l; induction n; intros [|a l] H; simpl; auto. inversion H; auto. Qed.
