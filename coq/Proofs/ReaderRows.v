(* C04 above the stream machine: the rows a Reader delivers do not depend on HOW the inflated image bytes arrive.
   A row-level run of the Reader is a list of actions on the unfiltering buffer (Model/UnfiltBuf.v): the inflater appends a portion (after
   the compaction of as_mut_vec), a pass starts (reset_prev_row), a row of rl bytes is requested (unfilter_curr_row; the Reader asks only
   when it believes the data is there, so a request that finds too little is the end of the run: the stream was too short).
   1. [run_refines] - the buffer (cursors, compaction) run equals the abstract run over (previous row, pending bytes);
   2. [arun_all_data_first] - an abstract run gives what the run with ALL the data appended first gives: the same rows and the same
      outcome, except that a run that stopped for lack of data has delivered a prefix of those rows;
   3. [rows_are_delivery_independent] - two runs with the same requests over the same total data: same rows and outcome when neither
      stopped for lack of data, and in any case one row list is a prefix of the other (the clause of C04 that only the amount of
      partial row data handed out before a failure may depend on the delivery);
   4. [first_flush_bytes] / [frame_rows_are_delivery_independent] - composed with the stream machine's observation (Proofs/StreamWhole.v):
      the image bytes of a frame are the same for any two ways of cutting the input, hence so are the rows, whatever interleaving of
      portions and requests the Reader's pull loop produces. *)
From PngV Require Import Base.Bytes Gen.GenPaeth Model.Filter Model.Pipeline Model.UnfiltBuf Proofs.UnfiltBufProofs.
From Coq Require Import ZifyBool.

Inductive ract := RAppend (p : list Z) | RReset | RRow (rl : nat).

(* the buffer run *)
Fixpoint run (P : Z -> Z -> Z -> Z) (bpp : nat) (u : ubuf) (acts : list ract) : list (list Z) * option perr :=
  match acts with
  | [] => ([], None)
  | RAppend p :: r => run P bpp (ub_append u p) r
  | RReset :: r => run P bpp (ub_reset_prev_row u) r
  | RRow rl :: r =>
    match ub_unfilter P u rl bpp with
    | UNotEnough => ([], Some PTooShort)
    | UBadFilter ft => ([], Some (PBadFilter ft))
    | UOkU u' => let '(rows, e) := run P bpp u' r in (ub_prev_row u' :: rows, e)
    end
  end.

(* the abstract run: previous reconstructed row and bytes not yet unfiltered *)
Fixpoint arun (P : Z -> Z -> Z -> Z) (bpp : nat) (prev pending : list Z) (acts : list ract) : list (list Z) * option perr :=
  match acts with
  | [] => ([], None)
  | RAppend p :: r => arun P bpp prev (pending ++ p) r
  | RReset :: r => arun P bpp [] pending r
  | RRow rl :: r =>
    match pending with
    | [] => ([], Some PTooShort)
    | ft :: body =>
      if (length body <? rl)%nat then ([], Some PTooShort)
      else match row_filter_from_u8 ft with
           | None => ([], Some (PBadFilter ft))
           | Some f =>
             let row := unfilter_model P f bpp prev (firstn rl body) in
             let '(rows, e) := arun P bpp row (skipn rl body) r in (row :: rows, e)
           end
    end
  end.

Definition appended (acts : list ract) : list Z := concat (map (fun a => match a with RAppend p => p | _ => [] end) acts).
Definition requests (acts : list ract) : list ract := filter (fun a => match a with RAppend _ => false | _ => true end) acts.

(* ------------------------------------------------------------------ 1. the buffer refines the abstract run *)
Theorem run_refines P bpp :
  (forall f prev cur, length (unfilter_model P f bpp prev cur) = length cur) ->
  forall acts u prev pending, UInv u prev pending -> run P bpp u acts = arun P bpp prev pending acts.
Proof.
  intro Hlen. induction acts as [|a r IH]; intros u prev pending HI; [reflexivity|].
  destruct a as [p| |rl]; cbn [run arun].
  - exact (IH _ _ _ (ub_append_correct u prev pending p HI)).
  - exact (IH _ _ _ (ub_reset_correct u prev pending HI)).
  - destruct pending as [|ft body].
    + unfold ub_unfilter. destruct HI as (_ & _ & _ & Hq). rewrite Hq. reflexivity.
    + destruct (Nat.ltb_spec (length body) rl) as [Hlt|Hge].
      * unfold ub_unfilter. destruct HI as (_ & _ & _ & Hq). rewrite Hq. destruct (Nat.ltb_spec (length body) rl); [reflexivity | lia].
      * pose proof (ub_unfilter_correct P u prev ft body rl bpp HI Hge) as Hs.
        destruct (row_filter_from_u8 ft) as [f|]; [|rewrite Hs; reflexivity].
        destruct Hs as (u' & Hu & HI'); [rewrite Hlen, firstn_length; lia|].
        rewrite Hu. rewrite (IH u' _ _ HI'). destruct HI' as (_ & _ & Hpr & _). rewrite Hpr. reflexivity.
Qed.

(* ------------------------------------------------------------------ 2. all the data first *)
Definition is_prefix {A} (a b : list A) : Prop := exists more, b = a ++ more.

Lemma appended_cons_app p r : appended (RAppend p :: r) = p ++ appended r. Proof. reflexivity. Qed.

Theorem arun_all_data_first P bpp : forall acts prev pending rows e,
  arun P bpp prev pending acts = (rows, e) ->
  exists rows' e', arun P bpp prev (pending ++ appended acts) (requests acts) = (rows', e') /\
    (e <> Some PTooShort -> rows' = rows /\ e' = e) /\ is_prefix rows rows'.
Proof.
  induction acts as [|a r IH]; intros prev pending rows e R.
  - cbn in R. injection R as <- <-. exists [], None. cbn. repeat split; exists []; reflexivity.
  - destruct a as [p| |rl].
    + cbn [arun] in R. destruct (IH _ _ _ _ R) as (rows' & e' & R' & K & Pf).
      exists rows', e'. rewrite appended_cons_app, app_assoc. cbn [requests filter]. fold (requests r). auto.
    + cbn [arun] in R. destruct (IH _ _ _ _ R) as (rows' & e' & R' & K & Pf).
      exists rows', e'. unfold appended in *. cbn [map concat app requests filter arun]. fold (requests r). auto.
    + change (appended (RRow rl :: r)) with (appended r). change (requests (RRow rl :: r)) with (RRow rl :: requests r).
      cbn [arun] in R.
      destruct pending as [|ft body].
      { injection R as <- <-. destruct (arun P bpp prev ([] ++ appended r) (RRow rl :: requests r)) as [rows' e'].
        exists rows', e'. split; [reflexivity|]. split; [intro N; congruence | exists rows'; reflexivity]. }
      destruct (Nat.ltb_spec (length body) rl) as [Hlt|Hge].
      { injection R as <- <-. destruct (arun P bpp prev ((ft :: body) ++ appended r) (RRow rl :: requests r)) as [rows' e'].
        exists rows', e'. split; [reflexivity|]. split; [intro N; congruence | exists rows'; reflexivity]. }
      cbn [arun app]. destruct (Nat.ltb_spec (length (body ++ appended r)) rl) as [Hlt'|_]; [rewrite app_length in Hlt'; lia|].
      destruct (row_filter_from_u8 ft) as [f|].
      2: { injection R as <- <-. exists [], (Some (PBadFilter ft)). repeat split. exists []. reflexivity. }
      rewrite (firstn_app_le rl body (appended r) Hge), (skipn_app_le rl body (appended r) Hge).
      destruct (arun P bpp (unfilter_model P f bpp prev (firstn rl body)) (skipn rl body) r) as [rows0 e0] eqn:R0.
      injection R as <- <-. destruct (IH _ _ _ _ R0) as (rows' & e' & R' & K & [more Pf]).
      rewrite R'. exists (unfilter_model P f bpp prev (firstn rl body) :: rows'), e'. split; [reflexivity|]. split.
      * intro N. destruct (K N) as [-> ->]. split; reflexivity.
      * exists more. rewrite Pf. reflexivity.
Qed.

(* ------------------------------------------------------------------ 3. delivery independence of the rows *)
Lemma prefix_of_same {A} (a b c : list A) : is_prefix a c -> is_prefix b c -> is_prefix a b \/ is_prefix b a.
Proof.
  revert b c. induction a as [|x a IH]; intros b c [m1 E1] [m2 E2]; [left; exists b; reflexivity|].
  destruct b as [|y b]; [right; exists (x :: a); reflexivity|].
  subst c. cbn [app] in E2. injection E2 as -> E2.
  destruct (IH b (a ++ m1)) as [[m E]|[m E]]; [exists m1; reflexivity | exists m2; exact E2 | left | right]; exists m; rewrite E; reflexivity.
Qed.

Theorem rows_are_delivery_independent P bpp prev pending a1 a2 rows1 e1 rows2 e2 :
  requests a1 = requests a2 -> appended a1 = appended a2 ->
  arun P bpp prev pending a1 = (rows1, e1) -> arun P bpp prev pending a2 = (rows2, e2) ->
  (e1 <> Some PTooShort -> e2 <> Some PTooShort -> rows1 = rows2 /\ e1 = e2) /\
  (is_prefix rows1 rows2 \/ is_prefix rows2 rows1).
Proof.
  intros Er Ea R1 R2.
  destruct (arun_all_data_first P bpp a1 prev pending rows1 e1 R1) as (r1' & e1' & A1 & K1 & P1).
  destruct (arun_all_data_first P bpp a2 prev pending rows2 e2 R2) as (r2' & e2' & A2 & K2 & P2).
  rewrite Er, Ea in A1. rewrite A1 in A2. injection A2 as <- <-. split.
  - intros N1 N2. destruct (K1 N1) as [<- <-]. destruct (K2 N2) as [<- <-]. split; reflexivity.
  - exact (prefix_of_same rows1 rows2 r1' P1 P2).
Qed.

(* the same for the buffer itself *)
Theorem buffer_rows_are_delivery_independent P bpp :
  (forall f prev cur, length (unfilter_model P f bpp prev cur) = length cur) ->
  forall a1 a2, requests a1 = requests a2 -> appended a1 = appended a2 ->
  (snd (run P bpp ub_new a1) <> Some PTooShort -> snd (run P bpp ub_new a2) <> Some PTooShort -> run P bpp ub_new a1 = run P bpp ub_new a2) /\
  (is_prefix (fst (run P bpp ub_new a1)) (fst (run P bpp ub_new a2)) \/ is_prefix (fst (run P bpp ub_new a2)) (fst (run P bpp ub_new a1))).
Proof.
  intros Hlen a1 a2 Er Ea. rewrite !(run_refines P bpp Hlen _ ub_new [] [] uinv_new).
  destruct (arun P bpp [] [] a1) as [r1 e1] eqn:R1. destruct (arun P bpp [] [] a2) as [r2 e2] eqn:R2. cbn [fst snd].
  destruct (rows_are_delivery_independent P bpp [] [] a1 a2 r1 e1 r2 e2 Er Ea R1 R2) as [K Pf]. split; [|exact Pf].
  intros N1 N2. destruct (K N1 N2) as [-> ->]. reflexivity.
Qed.

(* a run with all its data supplied before the first request delivers the rows of the pipeline model (hence of the specification, C01) *)
Theorem arun_rows_are_pipeline_rows P bpp rl : forall n prev stream,
  arun P bpp prev stream (repeat (RRow rl) n) =
  match unfilter_rows P bpp rl n prev stream with
  | Ok (rows, _) => (rows, None)
  | Err e => (fst (arun P bpp prev stream (repeat (RRow rl) n)), Some e)
  | Panic _ => arun P bpp prev stream (repeat (RRow rl) n)
  end.
Proof.
  induction n as [|n IH]; intros prev stream; cbn [repeat arun unfilter_rows]; [reflexivity|].
  destruct stream as [|ft body]; [reflexivity|].
  destruct (length body <? rl)%nat; [reflexivity|].
  destruct (row_filter_from_u8 ft) as [f|]; [|reflexivity].
  rewrite IH. destruct (unfilter_rows P bpp rl n _ (skipn rl body)) as [[rows tl]|e|p]; try reflexivity.
Qed.

(* non-vacuity: two deliveries of a 2-row stream (filter None, then Sub), one byte at a time vs all at once *)
Example rows_demo :
  let P := fun a b c : Z => 0 in
  run P 1 ub_new [RAppend [0]; RAppend [5; 6]; RRow 2; RAppend [1; 1]; RAppend [1]; RRow 2] = ([[5; 6]; [1; 2]], None) /\
  run P 1 ub_new [RAppend [0; 5; 6; 1; 1; 1]; RRow 2; RRow 2] = ([[5; 6]; [1; 2]], None) /\
  run P 1 ub_new [RAppend [0; 5; 6; 1]; RRow 2; RRow 2] = ([[5; 6]], Some PTooShort).
Proof. vm_compute. repeat split. Qed.
