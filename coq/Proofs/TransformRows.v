(* C08, the row loops: for 8- and 16-bit grey / RGB (/ alpha) images the transform kernels of the model (transform.rs) compute exactly the
   documented conversion (Spec/TransformSpec.v spec_convert) for EVERY width and EVERY row content. *)
From PngV Require Import Base.Bytes Spec.TransformSpec Model.Transform.
From Coq Require Import ZifyBool.
Local Arguments Z.mul : simpl never.
Local Arguments Z.add : simpl never.
Local Arguments Z.of_nat : simpl never.
Local Arguments Z.to_nat : simpl never.
Local Arguments Nat.mul : simpl never.

Lemma skipn_skipn_add {A} (a b : nat) (l : list A) : skipn a (skipn b l) = skipn (b + a) l.
Proof. revert l. induction b as [|b IH]; intros l; cbn [skipn Nat.add]; [reflexivity|]. destruct l as [|x l]; [destruct a; reflexivity | apply IH]. Qed.

(* the bytes of pixel k when every pixel takes n bytes *)
Definition px_bytes (row : list Z) (n k : nat) : list Z := firstn n (skipn (k * n) row).

Lemma chunks_view n : (0 < n)%nat -> forall w fuel row, (w <= fuel)%nat -> length row = (w * n)%nat ->
  chunks fuel n row = map (px_bytes row n) (seq 0 w).
Proof.
  intros Hn. induction w as [|w IH]; intros fuel row Hf Hl.
  - destruct row; [|cbn in Hl; lia]. destruct fuel; cbn [chunks seq map length]; [reflexivity|]. destruct (Nat.ltb_spec 0 n); [reflexivity | lia].
  - destruct fuel as [|fuel]; [lia|]. cbn [chunks].
    destruct (Nat.ltb_spec (length row) n) as [Hlt|Hge]; [nia|]. destruct (Nat.eqb_spec n 0); [lia|]. cbn [orb].
    cbn [seq map].
    assert (H0 : px_bytes row n 0 = firstn n row) by (unfold px_bytes; replace (0 * n)%nat with 0%nat by lia; reflexivity).
    rewrite H0. apply f_equal.
    rewrite (IH fuel (skipn n row)) by (try lia; rewrite skipn_length; nia).
    rewrite <- seq_shift, map_map. apply map_ext. intro k. unfold px_bytes.
    rewrite skipn_skipn_add. do 2 f_equal; nia.
Qed.

Lemma chunks_exact_view n w row : (0 < n)%nat -> length row = (w * n)%nat -> chunks_exact n row = map (px_bytes row n) (seq 0 w).
Proof. intros Hn Hl. unfold chunks_exact. apply chunks_view; try assumption. nia. Qed.

Lemma zrange_seq : forall n a, zrange (Z.of_nat a) n = map Z.of_nat (seq a n).
Proof. induction n as [|n IH]; intros a; cbn [zrange seq map]; [reflexivity|]. f_equal. replace (Z.of_nat a + 1) with (Z.of_nat (S a)) by lia. apply IH. Qed.

Lemma nth_seq_firstn : forall n (l : list Z), (n <= length l)%nat -> map (fun c => nth c l 0) (seq 0 n) = firstn n l.
Proof.
  induction n as [|n IH]; intros l H; cbn [seq map firstn]; [reflexivity|].
  destruct l as [|x l]; [cbn in H; lia|]. cbn [nth firstn]. f_equal.
  rewrite <- seq_shift, map_map. cbn [nth]. apply IH. cbn in H. lia.
Qed.

Lemma nth_seq_window : forall a (l : list Z) n, (a + n <= length l)%nat ->
  map (fun c => nth (a + c) l 0) (seq 0 n) = firstn n (skipn a l).
Proof.
  induction a as [|a IH]; intros l n H.
  - cbn [Nat.add skipn]. apply nth_seq_firstn. lia.
  - destruct l as [|x l]; [cbn in H; lia|]. cbn [skipn]. rewrite <- (IH l n) by (cbn in H; lia).
    apply map_ext. intro c. reflexivity.
Qed.

Lemma zip_chunks_full inp osz old f : (0 < osz)%nat -> length old = (length inp * osz)%nat ->
  zip_chunks inp osz old f = flat_map f inp.
Proof.
  intros Ho Hl. unfold zip_chunks. rewrite Hl, Nat.div_mul by lia. rewrite Nat.min_id, firstn_all.
  rewrite <- Hl, skipn_all. apply app_nil_r.
Qed.

Lemma flat_map_seq_zrange {B} (g : Z -> list B) w : flat_map g (zrange 0 w) = flat_map (fun k => g (Z.of_nat k)) (seq 0 w).
Proof. change 0 with (Z.of_nat 0). rewrite zrange_seq. rewrite flat_map_concat_map, map_map, <- flat_map_concat_map. reflexivity. Qed.

(* ---- the spec's pixel at depth 8: the bytes themselves *)
Lemma pixel8 row color k : let ns := Z.to_nat (nsamples color) in
  ((k + 1) * ns <= length row)%nat -> pixel row color 8 (Z.of_nat k) = px_bytes row ns k.
Proof.
  intros ns H. unfold pixel, px_bytes. fold ns. change 0 with (Z.of_nat 0). rewrite zrange_seq, map_map.
  rewrite <- (nth_seq_window (k * ns) row ns) by nia. apply map_ext. intro c.
  unfold sample. cbn [Z.eqb Pos.eqb]. unfold nthz.
  assert (Hns : nsamples color = Z.of_nat ns) by (subst ns; unfold nsamples; destruct ((color =? 0) || (color =? 3)), (color =? 2), (color =? 4); lia).
  rewrite Hns. destruct (Z.ltb_spec (Z.of_nat k * Z.of_nat ns + Z.of_nat c) 0); [lia|]. f_equal. lia.
Qed.

Lemma ser8 px : ser 8 px = px.
Proof. unfold ser. cbn [Z.eqb Pos.eqb]. induction px as [|x px IH]; cbn [flat_map app]; [reflexivity | rewrite IH; reflexivity]. Qed.

Lemma flags_agree t : (has_expand t || has_alpha t) = s_expand t /\ has_alpha t = s_alpha t /\ has_strip16 t = s_strip t.
Proof. repeat split. Qed.
Lemma is_some_present {A} (o : option A) : is_some o = present o. Proof. destruct o; reflexivity. Qed.

(* ---- 8-bit grey / RGB with a colour key or ALPHA: TTrns8 *)
Theorem trns8_correct color pal trns t w row old :
  (color = 0 \/ color = 2) -> s_expand t = true -> (present trns || s_alpha t) = true ->
  length row = (w * Z.to_nat (nsamples color))%nat -> length old = (w * S (Z.to_nat (nsamples color)))%nat ->
  transform_row (mk_tinfo color 8 pal trns) t row old = TROk (spec_convert color 8 pal trns t (Z.of_nat w) row).
Proof.
  intros Hc He Ha Hrow Hold.
  destruct (flags_agree t) as (F1 & F2 & F3).
  assert (Hns : samples color = nsamples color) by reflexivity.
  unfold transform_row, create_transform_fn. cbv zeta. cbn [t_color t_depth t_trns t_palette].
  assert (Hs : is_some trns || has_alpha t = true) by (rewrite is_some_present, F2; exact Ha).
  rewrite F1, He, Hs.
  assert (E3 : (color =? 3) = false) by (destruct Hc; subst; reflexivity). rewrite E3. cbn [andb].
  assert (E02 : ((color =? 0) || (color =? 2)) = true) by (destruct Hc; subst; reflexivity).
  replace (((color =? 0) || (color =? 4)) && (8 <? 8)) with false by (rewrite andb_false_r; reflexivity). cbn [andb].
  rewrite E02. cbn [andb Z.eqb Pos.eqb].
  unfold apply_tfn. cbn [t_color t_trns]. rewrite Hns.
  set (ns := Z.to_nat (nsamples color)) in *.
  assert (Hpos : (0 < ns)%nat) by (subst ns; destruct Hc; subst; cbn; lia).
  rewrite (chunks_exact_view ns w row Hpos Hrow).
  rewrite zip_chunks_full by (try lia; rewrite map_length, seq_length; exact Hold).
  f_equal.
  unfold spec_convert. rewrite He, Ha, E02. cbn [andb orb].
  replace ((color =? 3) && true || ((color =? 0) || (color =? 4)) && (8 <? 8) && true || true || (8 =? 16) && s_strip t) with true
    by (rewrite E3; cbn; destruct ((color =? 0) || (color =? 4)); reflexivity).
  rewrite Nat2Z.id, flat_map_seq_zrange. rewrite flat_map_concat_map, map_map, <- flat_map_concat_map.
  rewrite !flat_map_concat_map. f_equal. apply map_ext_in. intros k Hk. apply in_seq in Hk.
  rewrite pixel8 by (fold ns; nia). fold ns.
  unfold convert_pixel. rewrite He, Ha, E3, E02. cbn [andb orb].
  replace (((color =? 0) || (color =? 4)) && (8 <? 8)) with false by (rewrite andb_false_r; reflexivity). cbn [andb Z.eqb Pos.eqb negb].
  rewrite ser8. unfold opt_eqb. destruct trns as [key|]; reflexivity.
Qed.

(* ---- double index: pixels x samples = samples *)
Lemma seq_offset a : forall n, seq a n = map (fun c => (a + c)%nat) (seq 0 n).
Proof. induction n as [|n IH]. - reflexivity. - replace (S n) with (n + 1)%nat by lia. rewrite !seq_app, map_app, IH. cbn [seq map Nat.add]. reflexivity. Qed.

Lemma flat_map_double {B} (g : nat -> B) ns : forall w,
  flat_map (fun k => map (fun c => g (k * ns + c)%nat) (seq 0 ns)) (seq 0 w) = map g (seq 0 (w * ns)).
Proof.
  induction w as [|w IH].
  - replace (0 * ns)%nat with 0%nat by lia. reflexivity.
  - replace (S w) with (w + 1)%nat by lia. rewrite seq_app, flat_map_app, IH. cbn [seq flat_map Nat.add]. rewrite app_nil_r.
    replace ((w + 1) * ns)%nat with (w * ns + ns)%nat by lia. rewrite seq_app, map_app. f_equal.
    cbn [Nat.add]. rewrite (seq_offset (w * ns) ns), map_map. reflexivity.
Qed.

Lemma be16_hi b0 b1 : 0 <= b1 < 256 -> be16 b0 b1 / 256 = b0.
Proof. intro H. unfold be16. Z.div_mod_to_equations. lia. Qed.

(* ---- the spec's sample j at depth 16 *)
Lemma sample16 row j : sample row 16 (Z.of_nat j) = be16 (nth (2 * j) row 0) (nth (2 * j + 1) row 0).
Proof.
  unfold sample. cbn [Z.eqb Pos.eqb]. unfold nthz.
  destruct (Z.ltb_spec (2 * Z.of_nat j) 0); [lia|]. destruct (Z.ltb_spec (2 * Z.of_nat j + 1) 0); [lia|].
  f_equal; f_equal; lia.
Qed.

Lemma pixel16 row color k : let ns := Z.to_nat (nsamples color) in
  pixel row color 16 (Z.of_nat k) = map (fun c => be16 (nth (2 * (k * ns + c)) row 0) (nth (2 * (k * ns + c) + 1) row 0)) (seq 0 ns).
Proof.
  intros ns. unfold pixel. fold ns. change 0 with (Z.of_nat 0). rewrite zrange_seq, map_map. apply map_ext. intro c.
  assert (Hns : nsamples color = Z.of_nat ns) by (subst ns; unfold nsamples; destruct ((color =? 0) || (color =? 3)), (color =? 2), (color =? 4); lia).
  rewrite Hns. replace (Z.of_nat k * Z.of_nat ns + Z.of_nat c) with (Z.of_nat (k * ns + c)) by lia. apply sample16.
Qed.

Lemma hd_px2 row j : (2 * j + 2 <= length row)%nat -> hd 0 (px_bytes row 2 j) = nth (2 * j) row 0.
Proof.
  intro H. unfold px_bytes. rewrite <- (nth_seq_window (j * 2) row 2) by lia. cbn [seq map hd]. f_equal. lia.
Qed.

(* ---- STRIP_16 without added alpha: TStrip16 *)
Theorem strip16_correct color pal trns t w row old :
  (color = 0 \/ color = 2 \/ color = 4 \/ color = 6) -> bytes_ok row ->
  s_strip t = true -> (s_expand t && (present trns || s_alpha t) && ((color =? 0) || (color =? 2))) = false ->
  length row = (w * Z.to_nat (nsamples color) * 2)%nat -> length old = (w * Z.to_nat (nsamples color))%nat ->
  transform_row (mk_tinfo color 16 pal trns) t row old = TROk (spec_convert color 16 pal trns t (Z.of_nat w) row).
Proof.
  intros Hc Hb Hs Hna Hrow Hold.
  destruct (flags_agree t) as (F1 & F2 & F3).
  set (ns := Z.to_nat (nsamples color)) in *.
  assert (Hpos : (0 < ns)%nat) by (subst ns; destruct Hc as [-> | [-> | [-> | ->]]]; cbn; lia).
  assert (E3 : (color =? 3) = false) by (destruct Hc as [-> | [-> | [-> | ->]]]; reflexivity).
  assert (Hs2 : is_some trns || has_alpha t = (present trns || s_alpha t)) by (rewrite is_some_present, F2; reflexivity).
  unfold transform_row, create_transform_fn. cbv zeta. cbn [t_color t_depth t_trns t_palette].
  rewrite F1, F3, Hs, Hs2, E3. cbn [andb Z.eqb Pos.eqb Z.ltb Z.compare Pos.compare Pos.compare_cont].
  replace (((color =? 0) || (color =? 4)) && false) with false by (rewrite andb_false_r; reflexivity). cbn [andb].
  assert (E : ((color =? 0) || (color =? 2)) && s_expand t && (present trns || s_alpha t) = false).
  { destruct ((color =? 0) || (color =? 2)), (s_expand t), (present trns || s_alpha t); cbn in *; congruence. }
  rewrite E.
  unfold apply_tfn.
  assert (Ln : (length row / 2 = w * ns)%nat) by (rewrite Hrow; apply Nat.div_mul; lia).
  rewrite Ln. destruct (Nat.ltb_spec (length old) (w * ns)) as [Hlt|_]; [lia|].
  rewrite <- Hold, skipn_all, app_nil_r.
  rewrite (chunks_exact_view 2 (w * ns) row) by lia.
  rewrite map_map. f_equal.
  unfold spec_convert. rewrite Hs. cbn [Z.eqb Pos.eqb andb].
  replace ((color =? 3) && s_expand t || ((color =? 0) || (color =? 4)) && (16 <? 8) && s_expand t
           || ((color =? 0) || (color =? 2)) && s_expand t && (present trns || s_alpha t) || true) with true
    by (destruct ((color =? 3) && s_expand t), (((color =? 0) || (color =? 4)) && (16 <? 8) && s_expand t), (((color =? 0) || (color =? 2)) && s_expand t && (present trns || s_alpha t)); reflexivity).
  rewrite Nat2Z.id, flat_map_seq_zrange.
  transitivity (flat_map (fun k => map (fun c => nth (2 * (k * ns + c)) row 0) (seq 0 ns)) (seq 0 w)).
  - rewrite (flat_map_double (fun j => nth (2 * j) row 0) ns w). apply map_ext_in. intros j Hj. apply in_seq in Hj. apply hd_px2. nia.
  - rewrite !flat_map_concat_map. f_equal. apply map_ext_in. intros k Hk. apply in_seq in Hk.
    unfold convert_pixel. rewrite E3, Hs. cbn [andb Z.eqb Pos.eqb Z.ltb Z.compare Pos.compare Pos.compare_cont].
    replace (((color =? 0) || (color =? 4)) && false) with false by (rewrite andb_false_r; reflexivity). cbn [andb].
    replace (((color =? 0) || (color =? 2)) && (s_expand t && (present trns || s_alpha t))) with false
      by (destruct ((color =? 0) || (color =? 2)), (s_expand t), (present trns || s_alpha t); cbn in *; congruence).
    rewrite pixel16. fold ns. rewrite map_map. apply map_ext_in. intros c Hcc. apply in_seq in Hcc.
    symmetry. apply be16_hi.
    assert (Hin : In (nth (2 * (k * ns + c) + 1) row 0) row) by (apply nth_In; nia).
    unfold bytes_ok in Hb. rewrite Forall_forall in Hb. exact (Hb _ Hin).
Qed.

(* ---- no documented change applies: the row is copied (any colour type, any depth, any width) *)
Theorem copy_correct color depth pal trns t w row old :
  ((color =? 3) && s_expand t
   || ((color =? 0) || (color =? 4)) && (depth <? 8) && s_expand t
   || ((color =? 0) || (color =? 2)) && s_expand t && (present trns || s_alpha t)
   || (depth =? 16) && s_strip t) = false ->
  length old = length row ->
  transform_row (mk_tinfo color depth pal trns) t row old = TROk (spec_convert color depth pal trns t w row).
Proof.
  intros Hch Hl. destruct (flags_agree t) as (F1 & F2 & F3).
  assert (Hs2 : is_some trns || has_alpha t = (present trns || s_alpha t)) by (rewrite is_some_present, F2; reflexivity).
  unfold spec_convert. rewrite Hch.
  apply orb_false_iff in Hch as [Hch H4]. apply orb_false_iff in Hch as [Hch H3]. apply orb_false_iff in Hch as [H1 H2].
  unfold transform_row, create_transform_fn. cbv zeta. cbn [t_color t_depth t_trns t_palette].
  rewrite F1, F3, H1, H2. rewrite Hs2, H3, H4.
  unfold apply_tfn. rewrite Hl, Nat.eqb_refl. reflexivity.
Qed.

(* ---- 16-bit grey / RGB with a colour key or ALPHA: TTrns16 (16-bit output) and TTrnsStrip16 (8-bit output) *)
Lemma nth_map_seq (f : nat -> Z) n c d : (c < n)%nat -> nth c (map f (seq 0 n)) d = f c.
Proof.
  intro H. rewrite (nth_indep _ d (f 0%nat)) by (rewrite map_length, seq_length; exact H).
  rewrite map_nth, seq_nth by exact H. reflexivity.
Qed.

Lemma px_bytes_as_map row n k : ((k + 1) * n <= length row)%nat -> px_bytes row n k = map (fun c => nth (k * n + c) row 0) (seq 0 n).
Proof. intro H. unfold px_bytes. symmetry. apply nth_seq_window. nia. Qed.

Lemma nth_px_bytes row n k c : (c < n)%nat -> ((k + 1) * n <= length row)%nat -> nth c (px_bytes row n k) 0 = nth (k * n + c) row 0.
Proof. intros Hc H. rewrite px_bytes_as_map by exact H. apply nth_map_seq. exact Hc. Qed.

Lemma byte_at row i : bytes_ok row -> (i < length row)%nat -> 0 <= nth i row 0 < 256.
Proof. intros Hb Hi. unfold bytes_ok in Hb. rewrite Forall_forall in Hb. apply Hb. apply nth_In. exact Hi. Qed.

Lemma be16_split b0 b1 : 0 <= b0 < 256 -> 0 <= b1 < 256 -> be16 b0 b1 / 256 = b0 /\ be16 b0 b1 mod 256 = b1.
Proof. intros H0 H1. unfold be16. split; Z.div_mod_to_equations; lia. Qed.

(* the stored bytes of pixel k are the big-endian serialisation of its samples *)
Lemma ser16_pixel row color k : let ns := Z.to_nat (nsamples color) in
  bytes_ok row -> ((k + 1) * (ns * 2) <= length row)%nat -> ser 16 (pixel row color 16 (Z.of_nat k)) = px_bytes row (ns * 2) k.
Proof.
  intros ns Hb H. rewrite pixel16. fold ns. unfold ser. cbn [Z.eqb Pos.eqb].
  rewrite px_bytes_as_map by exact H.
  rewrite <- (flat_map_double (fun j => nth (k * (ns * 2) + j) row 0) 2 ns).
  rewrite !flat_map_concat_map, map_map. f_equal. apply map_ext_in. intros c Hc. apply in_seq in Hc.
  cbn [seq map Nat.add].
  destruct (be16_split (nth (2 * (k * ns + c)) row 0) (nth (2 * (k * ns + c) + 1) row 0)) as [E1 E2]; try (apply byte_at; [exact Hb | nia]).
  rewrite E1, E2. f_equal; [f_equal; nia | f_equal; f_equal; nia].
Qed.

Lemma hi_bytes_of_pixel row color k : let ns := Z.to_nat (nsamples color) in
  bytes_ok row -> ((k + 1) * (ns * 2) <= length row)%nat ->
  map (fun c => hd 0 c) (chunks_exact 2 (px_bytes row (ns * 2) k)) = map (fun v => v / 256) (pixel row color 16 (Z.of_nat k)).
Proof.
  intros ns Hb H. rewrite pixel16. fold ns.
  assert (Lp : length (px_bytes row (ns * 2) k) = (ns * 2)%nat) by (unfold px_bytes; rewrite firstn_length, skipn_length; nia).
  rewrite (chunks_exact_view 2 ns (px_bytes row (ns * 2) k)) by lia.
  rewrite !map_map. apply map_ext_in. intros c Hc. apply in_seq in Hc.
  rewrite hd_px2 by lia. rewrite nth_px_bytes by (try lia; exact H).
  destruct (be16_split (nth (2 * (k * ns + c)) row 0) (nth (2 * (k * ns + c) + 1) row 0)) as [E1 _]; try (apply byte_at; [exact Hb | nia]).
  rewrite E1. f_equal. nia.
Qed.

Theorem trns16_correct color pal trns t w row old :
  (color = 0 \/ color = 2) -> bytes_ok row -> s_expand t = true -> (present trns || s_alpha t) = true ->
  length row = (w * (Z.to_nat (nsamples color) * 2))%nat ->
  length old = (w * (if s_strip t then S (Z.to_nat (nsamples color)) else Z.to_nat (nsamples color) * 2 + 2))%nat ->
  transform_row (mk_tinfo color 16 pal trns) t row old = TROk (spec_convert color 16 pal trns t (Z.of_nat w) row).
Proof.
  intros Hc Hb He Ha Hrow Hold.
  destruct (flags_agree t) as (F1 & F2 & F3).
  assert (Hns : samples color = nsamples color) by reflexivity.
  set (ns := Z.to_nat (nsamples color)) in *.
  assert (Hpos : (0 < ns)%nat) by (subst ns; destruct Hc; subst; cbn; lia).
  assert (E3 : (color =? 3) = false) by (destruct Hc; subst; reflexivity).
  assert (E02 : ((color =? 0) || (color =? 2)) = true) by (destruct Hc; subst; reflexivity).
  assert (Hs : is_some trns || has_alpha t = true) by (rewrite is_some_present, F2; exact Ha).
  unfold transform_row, create_transform_fn. cbv zeta. cbn [t_color t_depth t_trns t_palette].
  rewrite F1, F3, He, Hs, E3, E02. cbn [andb Z.eqb Pos.eqb Z.ltb Z.compare Pos.compare Pos.compare_cont].
  replace (((color =? 0) || (color =? 4)) && false) with false by (rewrite andb_false_r; reflexivity). cbn [andb].
  unfold spec_convert. rewrite He, Ha, E02. cbn [andb orb].
  replace ((color =? 3) && true || ((color =? 0) || (color =? 4)) && (16 <? 8) && true || true || (16 =? 16) && s_strip t) with true
    by (rewrite E3; cbn; destruct ((color =? 0) || (color =? 4)); reflexivity).
  rewrite Nat2Z.id, flat_map_seq_zrange.
  destruct (s_strip t) eqn:Es; unfold apply_tfn; cbn [t_color t_trns]; rewrite Hns; fold ns.
  - (* TTrnsStrip16 *)
    rewrite (chunks_exact_view (ns * 2) w row) by (try nia; exact Hrow).
    rewrite zip_chunks_full by (try lia; rewrite map_length, seq_length; exact Hold).
    f_equal. rewrite flat_map_concat_map, map_map, <- flat_map_concat_map.
    rewrite !flat_map_concat_map. f_equal. apply map_ext_in. intros k Hk. apply in_seq in Hk.
    unfold convert_pixel. rewrite He, Ha, E3, E02, Es. cbn [andb orb Z.eqb Pos.eqb Z.ltb Z.compare Pos.compare Pos.compare_cont negb].
    replace (((color =? 0) || (color =? 4)) && false) with false by (rewrite andb_false_r; reflexivity). cbn [andb].
    rewrite ser16_pixel by (try exact Hb; fold ns; nia). fold ns.
    rewrite <- (hi_bytes_of_pixel row color k Hb) by (fold ns; nia). fold ns.
    unfold opt_eqb. destruct trns as [key|]; reflexivity.
  - (* TTrns16 *)
    rewrite (chunks_exact_view (ns * 2) w row) by (try nia; exact Hrow).
    rewrite zip_chunks_full by (try lia; rewrite map_length, seq_length; exact Hold).
    f_equal. rewrite flat_map_concat_map, map_map, <- flat_map_concat_map.
    rewrite !flat_map_concat_map. f_equal. apply map_ext_in. intros k Hk. apply in_seq in Hk.
    unfold convert_pixel. rewrite He, Ha, E3, E02, Es. cbn [andb orb Z.eqb Pos.eqb Z.ltb Z.compare Pos.compare Pos.compare_cont negb].
    replace (((color =? 0) || (color =? 4)) && false) with false by (rewrite andb_false_r; reflexivity). cbn [andb].
    rewrite ser16_pixel by (try exact Hb; fold ns; nia). fold ns.
    unfold opt_eqb. destruct trns as [key|]; reflexivity.
Qed.
