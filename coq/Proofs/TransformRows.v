(* C08, the row loops: for 8- and 16-bit grey / RGB (/ alpha) images the transform kernels of the model (transform.rs) compute exactly the
   documented conversion (Spec/TransformSpec.v spec_convert) for EVERY width and EVERY row content. *)
From PngV Require Import Base.Bytes Spec.TransformSpec Model.Transform Proofs.TransformProofs.
From Coq Require Import ZifyBool.
Local Arguments Z.mul : simpl never.
Local Arguments Z.add : simpl never.
Local Arguments Z.of_nat : simpl never.
Local Arguments Z.to_nat : simpl never.
Local Arguments Nat.mul : simpl never.

Lemma skipn_skipn_add {A} (a b : nat) (l : list A) : skipn a (skipn b l) = skipn (b + a) l.
Proof. revert l. induction b as [|b IH]; intros l; cbn [skipn Nat.add]; [reflexivity|]. destruct l as [|x l]; [destruct a; reflexivity | apply IH]. Qed.

(* the bytes of pixel k when every pixel takes n bytes *)
Definition px_bytes (row : list Z) (n k : nat) : list Z := firstn n (skipn (k * n) row).

Lemma chunks_view n : (0 < n)%nat -> forall w fuel row, (w <= fuel)%nat -> length row = (w * n)%nat ->
  chunks fuel n row = map (px_bytes row n) (seq 0 w).
Proof.
  intros Hn. induction w as [|w IH]; intros fuel row Hf Hl.
  - destruct row; [|cbn in Hl; lia]. destruct fuel; cbn [chunks seq map length]; [reflexivity|]. destruct (Nat.ltb_spec 0 n); [reflexivity | lia].
  - destruct fuel as [|fuel]; [lia|]. cbn [chunks].
    destruct (Nat.ltb_spec (length row) n) as [Hlt|Hge]; [nia|]. destruct (Nat.eqb_spec n 0); [lia|]. cbn [orb].
    cbn [seq map].
    assert (H0 : px_bytes row n 0 = firstn n row) by (unfold px_bytes; replace (0 * n)%nat with 0%nat by lia; reflexivity).
    rewrite H0. apply f_equal.
    rewrite (IH fuel (skipn n row)) by (try lia; rewrite skipn_length; nia).
    rewrite <- seq_shift, map_map. apply map_ext. intro k. unfold px_bytes.
    rewrite skipn_skipn_add. do 2 f_equal; nia.
Qed.

Lemma chunks_exact_view n w row : (0 < n)%nat -> length row = (w * n)%nat -> chunks_exact n row = map (px_bytes row n) (seq 0 w).
Proof. intros Hn Hl. unfold chunks_exact. apply chunks_view; try assumption. nia. Qed.

Lemma zrange_seq : forall n a, zrange (Z.of_nat a) n = map Z.of_nat (seq a n).
Proof. induction n as [|n IH]; intros a; cbn [zrange seq map]; [reflexivity|]. f_equal. replace (Z.of_nat a + 1) with (Z.of_nat (S a)) by lia. apply IH. Qed.

Lemma nth_seq_firstn : forall n (l : list Z), (n <= length l)%nat -> map (fun c => nth c l 0) (seq 0 n) = firstn n l.
Proof.
  induction n as [|n IH]; intros l H; cbn [seq map firstn]; [reflexivity|].
  destruct l as [|x l]; [cbn in H; lia|]. cbn [nth firstn]. f_equal.
  rewrite <- seq_shift, map_map. cbn [nth]. apply IH. cbn in H. lia.
Qed.

Lemma nth_seq_window : forall a (l : list Z) n, (a + n <= length l)%nat ->
  map (fun c => nth (a + c) l 0) (seq 0 n) = firstn n (skipn a l).
Proof.
  induction a as [|a IH]; intros l n H.
  - cbn [Nat.add skipn]. apply nth_seq_firstn. lia.
  - destruct l as [|x l]; [cbn in H; lia|]. cbn [skipn]. rewrite <- (IH l n) by (cbn in H; lia).
    apply map_ext. intro c. reflexivity.
Qed.

Lemma zip_chunks_full inp osz old f : (0 < osz)%nat -> length old = (length inp * osz)%nat ->
  zip_chunks inp osz old f = flat_map f inp.
Proof.
  intros Ho Hl. unfold zip_chunks. rewrite Hl, Nat.div_mul by lia. rewrite Nat.min_id, firstn_all.
  rewrite <- Hl, skipn_all. apply app_nil_r.
Qed.

Lemma flat_map_seq_zrange {B} (g : Z -> list B) w : flat_map g (zrange 0 w) = flat_map (fun k => g (Z.of_nat k)) (seq 0 w).
Proof. change 0 with (Z.of_nat 0). rewrite zrange_seq. rewrite flat_map_concat_map, map_map, <- flat_map_concat_map. reflexivity. Qed.

(* ---- the spec's pixel at depth 8: the bytes themselves *)
Lemma pixel8 row color k : let ns := Z.to_nat (nsamples color) in
  ((k + 1) * ns <= length row)%nat -> pixel row color 8 (Z.of_nat k) = px_bytes row ns k.
Proof.
  intros ns H. unfold pixel, px_bytes. fold ns. change 0 with (Z.of_nat 0). rewrite zrange_seq, map_map.
  rewrite <- (nth_seq_window (k * ns) row ns) by nia. apply map_ext. intro c.
  unfold sample. cbn [Z.eqb Pos.eqb]. unfold nthz.
  assert (Hns : nsamples color = Z.of_nat ns) by (subst ns; unfold nsamples; destruct ((color =? 0) || (color =? 3)), (color =? 2), (color =? 4); lia).
  rewrite Hns. destruct (Z.ltb_spec (Z.of_nat k * Z.of_nat ns + Z.of_nat c) 0); [lia|]. f_equal. lia.
Qed.

Lemma ser8 px : ser 8 px = px.
Proof. unfold ser. cbn [Z.eqb Pos.eqb]. induction px as [|x px IH]; cbn [flat_map app]; [reflexivity | rewrite IH; reflexivity]. Qed.

Lemma flags_agree t : (has_expand t || has_alpha t) = s_expand t /\ has_alpha t = s_alpha t /\ has_strip16 t = s_strip t.
Proof. repeat split. Qed.
Lemma is_some_present {A} (o : option A) : is_some o = present o. Proof. destruct o; reflexivity. Qed.

(* ---- 8-bit grey / RGB with a colour key or ALPHA: TTrns8 *)
Theorem trns8_correct color pal trns t w row old :
  (color = 0 \/ color = 2) -> s_expand t = true -> (present trns || s_alpha t) = true ->
  length row = (w * Z.to_nat (nsamples color))%nat -> length old = (w * S (Z.to_nat (nsamples color)))%nat ->
  transform_row (mk_tinfo color 8 pal trns) t row old = TROk (spec_convert color 8 pal trns t (Z.of_nat w) row).
Proof.
  intros Hc He Ha Hrow Hold.
  destruct (flags_agree t) as (F1 & F2 & F3).
  assert (Hns : samples color = nsamples color) by reflexivity.
  unfold transform_row, create_transform_fn. cbv zeta. cbn [t_color t_depth t_trns t_palette].
  assert (Hs : is_some trns || has_alpha t = true) by (rewrite is_some_present, F2; exact Ha).
  rewrite F1, He, Hs.
  assert (E3 : (color =? 3) = false) by (destruct Hc; subst; reflexivity). rewrite E3. cbn [andb].
  assert (E02 : ((color =? 0) || (color =? 2)) = true) by (destruct Hc; subst; reflexivity).
  replace (((color =? 0) || (color =? 4)) && (8 <? 8)) with false by (rewrite andb_false_r; reflexivity). cbn [andb].
  rewrite E02. cbn [andb Z.eqb Pos.eqb].
  unfold apply_tfn. cbn [t_color t_trns]. rewrite Hns.
  set (ns := Z.to_nat (nsamples color)) in *.
  assert (Hpos : (0 < ns)%nat) by (subst ns; destruct Hc; subst; cbn; lia).
  rewrite (chunks_exact_view ns w row Hpos Hrow).
  rewrite zip_chunks_full by (try lia; rewrite map_length, seq_length; exact Hold).
  f_equal.
  unfold spec_convert. rewrite He, Ha, E02. cbn [andb orb].
  replace ((color =? 3) && true || ((color =? 0) || (color =? 4)) && (8 <? 8) && true || true || (8 =? 16) && s_strip t) with true
    by (rewrite E3; cbn; destruct ((color =? 0) || (color =? 4)); reflexivity).
  rewrite Nat2Z.id, flat_map_seq_zrange. rewrite flat_map_concat_map, map_map, <- flat_map_concat_map.
  rewrite !flat_map_concat_map. f_equal. apply map_ext_in. intros k Hk. apply in_seq in Hk.
  rewrite pixel8 by (fold ns; nia). fold ns.
  unfold convert_pixel. rewrite He, Ha, E3, E02. cbn [andb orb].
  replace (((color =? 0) || (color =? 4)) && (8 <? 8)) with false by (rewrite andb_false_r; reflexivity). cbn [andb Z.eqb Pos.eqb negb].
  rewrite ser8. unfold opt_eqb. destruct trns as [key|]; reflexivity.
Qed.

(* ---- double index: pixels x samples = samples *)
Lemma seq_offset a : forall n, seq a n = map (fun c => (a + c)%nat) (seq 0 n).
Proof. induction n as [|n IH]. - reflexivity. - replace (S n) with (n + 1)%nat by lia. rewrite !seq_app, map_app, IH. cbn [seq map Nat.add]. reflexivity. Qed.

Lemma flat_map_double {B} (g : nat -> B) ns : forall w,
  flat_map (fun k => map (fun c => g (k * ns + c)%nat) (seq 0 ns)) (seq 0 w) = map g (seq 0 (w * ns)).
Proof.
  induction w as [|w IH].
  - replace (0 * ns)%nat with 0%nat by lia. reflexivity.
  - replace (S w) with (w + 1)%nat by lia. rewrite seq_app, flat_map_app, IH. cbn [seq flat_map Nat.add]. rewrite app_nil_r.
    replace ((w + 1) * ns)%nat with (w * ns + ns)%nat by lia. rewrite seq_app, map_app. f_equal.
    cbn [Nat.add]. rewrite (seq_offset (w * ns) ns), map_map. reflexivity.
Qed.

Lemma be16_hi b0 b1 : 0 <= b1 < 256 -> be16 b0 b1 / 256 = b0.
Proof. intro H. unfold be16. Z.div_mod_to_equations. lia. Qed.

(* ---- the spec's sample j at depth 16 *)
Lemma sample16 row j : sample row 16 (Z.of_nat j) = be16 (nth (2 * j) row 0) (nth (2 * j + 1) row 0).
Proof.
  unfold sample. cbn [Z.eqb Pos.eqb]. unfold nthz.
  destruct (Z.ltb_spec (2 * Z.of_nat j) 0); [lia|]. destruct (Z.ltb_spec (2 * Z.of_nat j + 1) 0); [lia|].
  f_equal; f_equal; lia.
Qed.

Lemma pixel16 row color k : let ns := Z.to_nat (nsamples color) in
  pixel row color 16 (Z.of_nat k) = map (fun c => be16 (nth (2 * (k * ns + c)) row 0) (nth (2 * (k * ns + c) + 1) row 0)) (seq 0 ns).
Proof.
  intros ns. unfold pixel. fold ns. change 0 with (Z.of_nat 0). rewrite zrange_seq, map_map. apply map_ext. intro c.
  assert (Hns : nsamples color = Z.of_nat ns) by (subst ns; unfold nsamples; destruct ((color =? 0) || (color =? 3)), (color =? 2), (color =? 4); lia).
  rewrite Hns. replace (Z.of_nat k * Z.of_nat ns + Z.of_nat c) with (Z.of_nat (k * ns + c)) by lia. apply sample16.
Qed.

Lemma hd_px2 row j : (2 * j + 2 <= length row)%nat -> hd 0 (px_bytes row 2 j) = nth (2 * j) row 0.
Proof.
  intro H. unfold px_bytes. rewrite <- (nth_seq_window (j * 2) row 2) by lia. cbn [seq map hd]. f_equal. lia.
Qed.

(* ---- STRIP_16 without added alpha: TStrip16 *)
Theorem strip16_correct color pal trns t w row old :
  (color = 0 \/ color = 2 \/ color = 4 \/ color = 6) -> bytes_ok row ->
  s_strip t = true -> (s_expand t && (present trns || s_alpha t) && ((color =? 0) || (color =? 2))) = false ->
  length row = (w * Z.to_nat (nsamples color) * 2)%nat -> length old = (w * Z.to_nat (nsamples color))%nat ->
  transform_row (mk_tinfo color 16 pal trns) t row old = TROk (spec_convert color 16 pal trns t (Z.of_nat w) row).
Proof.
  intros Hc Hb Hs Hna Hrow Hold.
  destruct (flags_agree t) as (F1 & F2 & F3).
  set (ns := Z.to_nat (nsamples color)) in *.
  assert (Hpos : (0 < ns)%nat) by (subst ns; destruct Hc as [-> | [-> | [-> | ->]]]; cbn; lia).
  assert (E3 : (color =? 3) = false) by (destruct Hc as [-> | [-> | [-> | ->]]]; reflexivity).
  assert (Hs2 : is_some trns || has_alpha t = (present trns || s_alpha t)) by (rewrite is_some_present, F2; reflexivity).
  unfold transform_row, create_transform_fn. cbv zeta. cbn [t_color t_depth t_trns t_palette].
  rewrite F1, F3, Hs, Hs2, E3. cbn [andb Z.eqb Pos.eqb Z.ltb Z.compare Pos.compare Pos.compare_cont].
  replace (((color =? 0) || (color =? 4)) && false) with false by (rewrite andb_false_r; reflexivity). cbn [andb].
  assert (E : ((color =? 0) || (color =? 2)) && s_expand t && (present trns || s_alpha t) = false).
  { destruct ((color =? 0) || (color =? 2)), (s_expand t), (present trns || s_alpha t); cbn in *; congruence. }
  rewrite E.
  unfold apply_tfn.
  assert (Ln : (length row / 2 = w * ns)%nat) by (rewrite Hrow; apply Nat.div_mul; lia).
  rewrite Ln. destruct (Nat.ltb_spec (length old) (w * ns)) as [Hlt|_]; [lia|].
  rewrite <- Hold, skipn_all, app_nil_r.
  rewrite (chunks_exact_view 2 (w * ns) row) by lia.
  rewrite map_map. f_equal.
  unfold spec_convert. rewrite Hs. cbn [Z.eqb Pos.eqb andb].
  replace ((color =? 3) && s_expand t || ((color =? 0) || (color =? 4)) && (16 <? 8) && s_expand t
           || ((color =? 0) || (color =? 2)) && s_expand t && (present trns || s_alpha t) || true) with true
    by (destruct ((color =? 3) && s_expand t), (((color =? 0) || (color =? 4)) && (16 <? 8) && s_expand t), (((color =? 0) || (color =? 2)) && s_expand t && (present trns || s_alpha t)); reflexivity).
  rewrite Nat2Z.id, flat_map_seq_zrange.
  transitivity (flat_map (fun k => map (fun c => nth (2 * (k * ns + c)) row 0) (seq 0 ns)) (seq 0 w)).
  - rewrite (flat_map_double (fun j => nth (2 * j) row 0) ns w). apply map_ext_in. intros j Hj. apply in_seq in Hj. apply hd_px2. nia.
  - rewrite !flat_map_concat_map. f_equal. apply map_ext_in. intros k Hk. apply in_seq in Hk.
    unfold convert_pixel. rewrite E3, Hs. cbn [andb Z.eqb Pos.eqb Z.ltb Z.compare Pos.compare Pos.compare_cont].
    replace (((color =? 0) || (color =? 4)) && false) with false by (rewrite andb_false_r; reflexivity). cbn [andb].
    replace (((color =? 0) || (color =? 2)) && (s_expand t && (present trns || s_alpha t))) with false
      by (destruct ((color =? 0) || (color =? 2)), (s_expand t), (present trns || s_alpha t); cbn in *; congruence).
    rewrite pixel16. fold ns. rewrite map_map. apply map_ext_in. intros c Hcc. apply in_seq in Hcc.
    symmetry. apply be16_hi.
    assert (Hin : In (nth (2 * (k * ns + c) + 1) row 0) row) by (apply nth_In; nia).
    unfold bytes_ok in Hb. rewrite Forall_forall in Hb. exact (Hb _ Hin).
Qed.

(* ---- no documented change applies: the row is copied (any colour type, any depth, any width) *)
Theorem copy_correct color depth pal trns t w row old :
  ((color =? 3) && s_expand t
   || ((color =? 0) || (color =? 4)) && (depth <? 8) && s_expand t
   || ((color =? 0) || (color =? 2)) && s_expand t && (present trns || s_alpha t)
   || (depth =? 16) && s_strip t) = false ->
  length old = length row ->
  transform_row (mk_tinfo color depth pal trns) t row old = TROk (spec_convert color depth pal trns t w row).
Proof.
  intros Hch Hl. destruct (flags_agree t) as (F1 & F2 & F3).
  assert (Hs2 : is_some trns || has_alpha t = (present trns || s_alpha t)) by (rewrite is_some_present, F2; reflexivity).
  unfold spec_convert. rewrite Hch.
  apply orb_false_iff in Hch as [Hch H4]. apply orb_false_iff in Hch as [Hch H3]. apply orb_false_iff in Hch as [H1 H2].
  unfold transform_row, create_transform_fn. cbv zeta. cbn [t_color t_depth t_trns t_palette].
  rewrite F1, F3, H1, H2. rewrite Hs2, H3, H4.
  unfold apply_tfn. rewrite Hl, Nat.eqb_refl. reflexivity.
Qed.

(* ---- 16-bit grey / RGB with a colour key or ALPHA: TTrns16 (16-bit output) and TTrnsStrip16 (8-bit output) *)
Lemma nth_map_seq (f : nat -> Z) n c d : (c < n)%nat -> nth c (map f (seq 0 n)) d = f c.
Proof.
  intro H. rewrite (nth_indep _ d (f 0%nat)) by (rewrite map_length, seq_length; exact H).
  rewrite map_nth, seq_nth by exact H. reflexivity.
Qed.

Lemma px_bytes_as_map row n k : ((k + 1) * n <= length row)%nat -> px_bytes row n k = map (fun c => nth (k * n + c) row 0) (seq 0 n).
Proof. intro H. unfold px_bytes. symmetry. apply nth_seq_window. nia. Qed.

Lemma nth_px_bytes row n k c : (c < n)%nat -> ((k + 1) * n <= length row)%nat -> nth c (px_bytes row n k) 0 = nth (k * n + c) row 0.
Proof. intros Hc H. rewrite px_bytes_as_map by exact H. apply nth_map_seq. exact Hc. Qed.

Lemma byte_at row i : bytes_ok row -> (i < length row)%nat -> 0 <= nth i row 0 < 256.
Proof. intros Hb Hi. unfold bytes_ok in Hb. rewrite Forall_forall in Hb. apply Hb. apply nth_In. exact Hi. Qed.

Lemma be16_split b0 b1 : 0 <= b0 < 256 -> 0 <= b1 < 256 -> be16 b0 b1 / 256 = b0 /\ be16 b0 b1 mod 256 = b1.
Proof. intros H0 H1. unfold be16. split; Z.div_mod_to_equations; lia. Qed.

(* the stored bytes of pixel k are the big-endian serialisation of its samples *)
Lemma ser16_pixel row color k : let ns := Z.to_nat (nsamples color) in
  bytes_ok row -> ((k + 1) * (ns * 2) <= length row)%nat -> ser 16 (pixel row color 16 (Z.of_nat k)) = px_bytes row (ns * 2) k.
Proof.
  intros ns Hb H. rewrite pixel16. fold ns. unfold ser. cbn [Z.eqb Pos.eqb].
  rewrite px_bytes_as_map by exact H.
  rewrite <- (flat_map_double (fun j => nth (k * (ns * 2) + j) row 0) 2 ns).
  rewrite !flat_map_concat_map, map_map. f_equal. apply map_ext_in. intros c Hc. apply in_seq in Hc.
  cbn [seq map Nat.add].
  destruct (be16_split (nth (2 * (k * ns + c)) row 0) (nth (2 * (k * ns + c) + 1) row 0)) as [E1 E2]; try (apply byte_at; [exact Hb | nia]).
  rewrite E1, E2. f_equal; [f_equal; nia | f_equal; f_equal; nia].
Qed.

Lemma hi_bytes_of_pixel row color k : let ns := Z.to_nat (nsamples color) in
  bytes_ok row -> ((k + 1) * (ns * 2) <= length row)%nat ->
  map (fun c => hd 0 c) (chunks_exact 2 (px_bytes row (ns * 2) k)) = map (fun v => v / 256) (pixel row color 16 (Z.of_nat k)).
Proof.
  intros ns Hb H. rewrite pixel16. fold ns.
  assert (Lp : length (px_bytes row (ns * 2) k) = (ns * 2)%nat) by (unfold px_bytes; rewrite firstn_length, skipn_length; nia).
  rewrite (chunks_exact_view 2 ns (px_bytes row (ns * 2) k)) by lia.
  rewrite !map_map. apply map_ext_in. intros c Hc. apply in_seq in Hc.
  rewrite hd_px2 by lia. rewrite nth_px_bytes by (try lia; exact H).
  destruct (be16_split (nth (2 * (k * ns + c)) row 0) (nth (2 * (k * ns + c) + 1) row 0)) as [E1 _]; try (apply byte_at; [exact Hb | nia]).
  rewrite E1. f_equal. nia.
Qed.

Theorem trns16_correct color pal trns t w row old :
  (color = 0 \/ color = 2) -> bytes_ok row -> s_expand t = true -> (present trns || s_alpha t) = true ->
  length row = (w * (Z.to_nat (nsamples color) * 2))%nat ->
  length old = (w * (if s_strip t then S (Z.to_nat (nsamples color)) else Z.to_nat (nsamples color) * 2 + 2))%nat ->
  transform_row (mk_tinfo color 16 pal trns) t row old = TROk (spec_convert color 16 pal trns t (Z.of_nat w) row).
Proof.
  intros Hc Hb He Ha Hrow Hold.
  destruct (flags_agree t) as (F1 & F2 & F3).
  assert (Hns : samples color = nsamples color) by reflexivity.
  set (ns := Z.to_nat (nsamples color)) in *.
  assert (Hpos : (0 < ns)%nat) by (subst ns; destruct Hc; subst; cbn; lia).
  assert (E3 : (color =? 3) = false) by (destruct Hc; subst; reflexivity).
  assert (E02 : ((color =? 0) || (color =? 2)) = true) by (destruct Hc; subst; reflexivity).
  assert (Hs : is_some trns || has_alpha t = true) by (rewrite is_some_present, F2; exact Ha).
  unfold transform_row, create_transform_fn. cbv zeta. cbn [t_color t_depth t_trns t_palette].
  rewrite F1, F3, He, Hs, E3, E02. cbn [andb Z.eqb Pos.eqb Z.ltb Z.compare Pos.compare Pos.compare_cont].
  replace (((color =? 0) || (color =? 4)) && false) with false by (rewrite andb_false_r; reflexivity). cbn [andb].
  unfold spec_convert. rewrite He, Ha, E02. cbn [andb orb].
  replace ((color =? 3) && true || ((color =? 0) || (color =? 4)) && (16 <? 8) && true || true || (16 =? 16) && s_strip t) with true
    by (rewrite E3; cbn; destruct ((color =? 0) || (color =? 4)); reflexivity).
  rewrite Nat2Z.id, flat_map_seq_zrange.
  destruct (s_strip t) eqn:Es; unfold apply_tfn; cbn [t_color t_trns]; rewrite Hns; fold ns.
  - (* TTrnsStrip16 *)
    rewrite (chunks_exact_view (ns * 2) w row) by (try nia; exact Hrow).
    rewrite zip_chunks_full by (try lia; rewrite map_length, seq_length; exact Hold).
    f_equal. rewrite flat_map_concat_map, map_map, <- flat_map_concat_map.
    rewrite !flat_map_concat_map. f_equal. apply map_ext_in. intros k Hk. apply in_seq in Hk.
    unfold convert_pixel. rewrite He, Ha, E3, E02, Es. cbn [andb orb Z.eqb Pos.eqb Z.ltb Z.compare Pos.compare Pos.compare_cont negb].
    replace (((color =? 0) || (color =? 4)) && false) with false by (rewrite andb_false_r; reflexivity). cbn [andb].
    rewrite ser16_pixel by (try exact Hb; fold ns; nia). fold ns.
    rewrite <- (hi_bytes_of_pixel row color k Hb) by (fold ns; nia). fold ns.
    unfold opt_eqb. destruct trns as [key|]; reflexivity.
  - (* TTrns16 *)
    rewrite (chunks_exact_view (ns * 2) w row) by (try nia; exact Hrow).
    rewrite zip_chunks_full by (try lia; rewrite map_length, seq_length; exact Hold).
    f_equal. rewrite flat_map_concat_map, map_map, <- flat_map_concat_map.
    rewrite !flat_map_concat_map. f_equal. apply map_ext_in. intros k Hk. apply in_seq in Hk.
    unfold convert_pixel. rewrite He, Ha, E3, E02, Es. cbn [andb orb Z.eqb Pos.eqb Z.ltb Z.compare Pos.compare Pos.compare_cont negb].
    replace (((color =? 0) || (color =? 4)) && false) with false by (rewrite andb_false_r; reflexivity). cbn [andb].
    rewrite ser16_pixel by (try exact Hb; fold ns; nia). fold ns.
    unfold opt_eqb. destruct trns as [key|]; reflexivity.
Qed.

(* ================= sub-byte grey expansion (TGray / TGrayTrns) and palette expansion through unpack_bits (TPalRgba / TPalRgb) ================= *)
Local Arguments Z.shiftr : simpl never.
Local Arguments Z.shiftl : simpl never.
Local Arguments Z.land : simpl never.
Local Arguments Z.div : simpl never.
Local Arguments Z.modulo : simpl never.

(* the value the model's bit unpacker hands to the kernel = the specification's sample, for depth 1, 2, 4 *)
Lemma unpack_pixel_sample row d k : (d = 1 \/ d = 2 \/ d = 4) -> 0 <= k ->
  (Z.to_nat (k * d / 8) < length row)%nat ->
  unpack_pixel row d k = Some (sample row d k).
Proof.
  intros Hd Hk Hin. unfold unpack_pixel, sample.
  assert (E16 : (d =? 16) = false) by lia. assert (E8 : (d =? 8) = false) by lia. rewrite E16, E8.
  unfold nthz. destruct (Z.ltb_spec (k * d / 8) 0) as [Hneg|_]; [exfalso; assert (0 <= k * d / 8) by (apply Z.div_pos; nia); lia|].
  destruct (nth_error row (Z.to_nat (k * d / 8))) as [b|] eqn:E.
  - rewrite (nth_error_nth _ _ 0 E). do 2 f_equal. destruct Hd as [-> | [-> | ->]]; reflexivity.
  - apply nth_error_None in E. lia.
Qed.

Lemma unpack_go_spec row d f : (d = 1 \/ d = 2 \/ d = 4) -> forall n k, 0 <= k ->
  (n = 0%nat \/ (Z.to_nat ((k + Z.of_nat n - 1) * d / 8) < length row)%nat) ->
  unpack_go row d k n f = Ok (flat_map (fun j => f (sample row d (k + Z.of_nat j))) (seq 0 n)).
Proof.
  intros Hd. induction n as [|n IH]; intros k Hk Hin; cbn [unpack_go seq flat_map]; [reflexivity|].
  destruct Hin as [Hin|Hin]; [discriminate|].
  assert (Hlt : (Z.to_nat (k * d / 8) < length row)%nat).
  { assert (k * d / 8 <= (k + Z.of_nat (S n) - 1) * d / 8) by (apply Z.div_le_mono; nia).
    assert (0 <= k * d / 8) by (apply Z.div_pos; nia). lia. }
  rewrite (unpack_pixel_sample row d k Hd Hk Hlt).
  assert (Hin' : n = 0%nat \/ (Z.to_nat ((k + 1 + Z.of_nat n - 1) * d / 8) < length row)%nat).
  { destruct n; [left; reflexivity | right]. replace (k + 1 + Z.of_nat (S n) - 1) with (k + Z.of_nat (S (S n)) - 1) by lia. exact Hin. }
  rewrite (IH (k + 1) ltac:(lia) Hin').
  cbn [obind]. f_equal. replace (k + Z.of_nat 0) with k by lia. f_equal.
  rewrite <- seq_shift. rewrite !flat_map_concat_map, map_map. f_equal. apply map_ext. intro j. f_equal. f_equal. lia.
Qed.

(* samples of depth 1, 2, 4 are in range, and replication to 8 bits is multiplication by 255 / (2^d - 1) *)
Lemma sample_range row d k : (d = 1 \/ d = 2 \/ d = 4) -> 0 <= sample row d k < 2 ^ d.
Proof.
  intros Hd. unfold sample.
  assert (E16 : (d =? 16) = false) by lia. assert (E8 : (d =? 8) = false) by lia. rewrite E16, E8.
  replace (2 ^ d - 1) with (Z.ones d) by (rewrite Z.ones_equiv; lia).
  rewrite Z.land_ones by lia. apply Z.mod_pos_bound. destruct Hd as [-> | [-> | ->]]; reflexivity.
Qed.

Definition replicate_table_ok : bool :=
  forallb (fun d => forallb (fun v => replicate d v =? (v * scaling_factor d) mod 256) (zrange 0 (Z.to_nat (2 ^ d)))) [1; 2; 4].
Lemma replicate_table_ok_true : replicate_table_ok = true. Proof. vm_compute. reflexivity. Qed.

Lemma in_zrange v n : 0 <= v < Z.of_nat n -> In v (zrange 0 n).
Proof.
  intro H. change 0 with (Z.of_nat 0). rewrite zrange_seq. apply in_map_iff. exists (Z.to_nat v). split; [lia|]. apply in_seq. lia.
Qed.

Lemma replicate_scaling d v : (d = 1 \/ d = 2 \/ d = 4) -> 0 <= v < 2 ^ d -> replicate d v = (v * scaling_factor d) mod 256.
Proof.
  intros Hd Hv. pose proof replicate_table_ok_true as H. unfold replicate_table_ok in H. rewrite forallb_forall in H.
  assert (Hin : In d [1; 2; 4]) by (cbn; destruct Hd as [-> | [-> | ->]]; auto).
  specialize (H d Hin). rewrite forallb_forall in H. specialize (H v). apply Z.eqb_eq. apply H. apply in_zrange.
  destruct Hd as [-> | [-> | ->]]; cbn in *; lia.
Qed.

Lemma pixel_gray row d k : pixel row 0 d k = [sample row d k].
Proof. unfold pixel. change (nsamples 0) with 1. change (Z.to_nat 1) with 1%nat. cbn [zrange map]. f_equal. f_equal. lia. Qed.

(* ---- grey images of depth 1, 2, 4 under EXPAND / ALPHA: TGray and TGrayTrns *)
Theorem gray_expand_correct d pal trns t w row old :
  (d = 1 \/ d = 2 \/ d = 4) -> s_expand t = true -> trns <> Some [] ->
  (w = 0%nat \/ (Z.to_nat ((Z.of_nat w - 1) * d / 8) < length row)%nat) ->
  length old = (w * (if present trns || s_alpha t then 2 else 1))%nat ->
  transform_row (mk_tinfo 0 d pal trns) t row old = TROk (spec_convert 0 d pal trns t (Z.of_nat w) row).
Proof.
  intros Hd He Htr Hrow Hold.
  destruct (flags_agree t) as (F1 & F2 & F3).
  assert (Hs2 : is_some trns || has_alpha t = (present trns || s_alpha t)) by (rewrite is_some_present, F2; reflexivity).
  assert (Dlt : (d <? 8) = true) by lia. assert (D8 : (d =? 8) = false) by lia. assert (D16 : (d =? 16) = false) by lia.
  unfold transform_row, create_transform_fn. cbv zeta. cbn [t_color t_depth t_trns t_palette].
  rewrite F1, He, Hs2, Dlt. cbn [Z.eqb andb orb].
  unfold spec_convert. rewrite He, Dlt. cbn [Z.eqb andb orb]. rewrite Nat2Z.id, flat_map_seq_zrange.
  set (aa := present trns || s_alpha t) in *.
  assert (Hdep : negb ((d =? 1) || (d =? 2) || (d =? 4) || (d =? 8)) = false) by (destruct Hd as [-> | [-> | ->]]; reflexivity).
  assert (H8d : 1 <= 8 / d) by (destruct Hd as [-> | [-> | ->]]; cbv; discriminate).
  assert (Hfit : Z.of_nat w <= 8 / d * zlen row).
  { unfold zlen. assert (Hw : w = 0%nat \/ (1 <= Z.of_nat w /\ (Z.to_nat ((Z.of_nat w - 1) * d / 8) < length row)%nat)).
    { destruct Hrow as [Hw0 | Hrow]; [left; exact Hw0|]. destruct w as [|w']; [left; reflexivity | right; split; [lia | exact Hrow]]. }
    destruct Hw as [Hw0 | [Hw1 Hr]].
    - subst w. destruct Hd as [-> | [-> | ->]]; [change (8 / 1) with 8 | change (8 / 2) with 4 | change (8 / 4) with 2]; clear; lia.
    - assert (H0 : 0 <= (Z.of_nat w - 1) * d / 8) by (apply Z.div_pos; nia).
      destruct Hd as [-> | [-> | ->]]; [change (8 / 1) with 8 | change (8 / 2) with 4 | change (8 / 4) with 2];
        revert Hr H0; generalize (length row); intros L Hr H0; clear - Hr H0 Hw1; Z.div_mod_to_equations; lia. }
  assert (Hgo : forall f, unpack_go row d 0 w f = Ok (flat_map (fun j => f (sample row d (Z.of_nat j))) (seq 0 w))).
  { intro f.
    assert (Hx : w = 0%nat \/ (Z.to_nat ((0 + Z.of_nat w - 1) * d / 8) < length row)%nat).
    { destruct Hrow as [Hw0 | Hr]; [left; exact Hw0 | right]. replace (0 + Z.of_nat w - 1) with (Z.of_nat w - 1) by lia. exact Hr. }
    rewrite (unpack_go_spec row d f Hd w 0 ltac:(lia) Hx). reflexivity. }
  assert (Hconv : forall k, convert_pixel 0 d pal trns t (pixel row 0 d (Z.of_nat k)) =
            (sample row d (Z.of_nat k) * scaling_factor d) mod 256
            :: (if aa then [match trns with Some (key :: _) => if sample row d (Z.of_nat k) =? key then 0 else 255 | _ => 255 end] else [])).
  { intro k. unfold convert_pixel. rewrite He, Dlt, pixel_gray. cbn [Z.eqb andb orb hd]. fold aa.
    rewrite (replicate_scaling d _ Hd (sample_range row d (Z.of_nat k) Hd)). reflexivity. }
  destruct aa eqn:Eaa; unfold apply_tfn; cbn [t_depth t_trns].
  - (* TGrayTrns *)
    destruct trns as [[|key tr]|] eqn:Etr; [congruence | |];
      unfold unpack_bits; rewrite Hdep, D8;
      (destruct (Z.ltb_spec (8 / d * 2 * zlen row) (zlen old)) as [Hbad|_]; [unfold zlen in *; nia|]);
      replace (Z.to_nat (zlen old / 2)) with w by (unfold zlen; rewrite Hold; replace (Z.of_nat (w * 2)) with (Z.of_nat w * 2) by lia; rewrite Z.div_mul by lia; lia);
      rewrite Hgo; cbn [obind];
      replace (w * Z.to_nat 2)%nat with (length old) by lia; rewrite skipn_all, app_nil_r;
      f_equal; apply flat_map_ext; intro k; rewrite Hconv; reflexivity.
  - (* TGray *)
    unfold unpack_bits. rewrite Hdep, D8.
    destruct (Z.ltb_spec (8 / d * 1 * zlen row) (zlen old)) as [Hbad|_]; [unfold zlen in *; nia|].
    replace (Z.to_nat (zlen old / 1)) with w by (unfold zlen; rewrite Hold, Z.div_1_r; lia).
    rewrite Hgo. cbn [obind].
    replace (w * Z.to_nat 1)%nat with (length old) by lia. rewrite skipn_all, app_nil_r.
    f_equal. apply flat_map_ext. intro k. rewrite Hconv. reflexivity.
Qed.

(* ---- indexed images of depth 1, 2, 4 under EXPAND / ALPHA: TPalRgba and TPalRgb (both through the bit unpacker) *)
Lemma pixel_idx row d k : pixel row 3 d k = [sample row d k].
Proof. unfold pixel. change (nsamples 3) with 1. change (Z.to_nat 1) with 1%nat. cbn [zrange map]. f_equal. f_equal. lia. Qed.

Lemma pal_rgb_length pal idx : length (pal_rgb pal idx) = 3%nat.
Proof. unfold pal_rgb. destruct (idx <? pal_entries pal); reflexivity. Qed.

Theorem palette_subbyte_correct d pal trns t w row old :
  (d = 1 \/ d = 2 \/ d = 4) -> s_expand t = true ->
  (w = 0%nat \/ (Z.to_nat ((Z.of_nat w - 1) * d / 8) < length row)%nat) ->
  length old = (w * (if present trns || s_alpha t then 4 else 3))%nat ->
  transform_row (mk_tinfo 3 d (Some pal) trns) t row old = TROk (spec_convert 3 d (Some pal) trns t (Z.of_nat w) row).
Proof.
  intros Hd He Hrow Hold.
  destruct (flags_agree t) as (F1 & F2 & F3).
  assert (Hs2 : is_some trns || has_alpha t = (present trns || s_alpha t)) by (rewrite is_some_present, F2; reflexivity).
  assert (D8 : (d =? 8) = false) by lia. assert (D16 : (d =? 16) = false) by lia.
  unfold transform_row, create_transform_fn. cbv zeta. cbn [t_color t_depth t_trns t_palette is_some negb Z.eqb Pos.eqb andb].
  rewrite F1, He, D16, D8. cbn [andb].
  destruct (create_rgba_palette_spec 3 d pal trns) as (tab & Htab & Hget). rewrite Htab, Hs2.
  unfold spec_convert. rewrite He. cbn [Z.eqb Pos.eqb andb orb]. rewrite Nat2Z.id, flat_map_seq_zrange.
  set (aa := present trns || s_alpha t) in *.
  assert (Hdep : negb ((d =? 1) || (d =? 2) || (d =? 4) || (d =? 8)) = false) by (destruct Hd as [-> | [-> | ->]]; reflexivity).
  assert (Hw : w = 0%nat \/ (1 <= Z.of_nat w /\ (Z.to_nat ((Z.of_nat w - 1) * d / 8) < length row)%nat)).
  { destruct Hrow as [Hw0 | Hr]; [left; exact Hw0|]. destruct w as [|w']; [left; reflexivity | right; split; [lia | exact Hr]]. }
  assert (Hfit : Z.of_nat w <= 8 / d * zlen row).
  { unfold zlen. destruct Hw as [Hw0 | [Hw1 Hr]].
    - subst w. destruct Hd as [-> | [-> | ->]]; [change (8 / 1) with 8 | change (8 / 2) with 4 | change (8 / 4) with 2]; clear; lia.
    - assert (H0 : 0 <= (Z.of_nat w - 1) * d / 8) by (apply Z.div_pos; nia).
      destruct Hd as [-> | [-> | ->]]; [change (8 / 1) with 8 | change (8 / 2) with 4 | change (8 / 4) with 2];
        revert Hr H0; generalize (length row); intros L Hr H0; clear - Hr H0 Hw1; Z.div_mod_to_equations; lia. }
  assert (Hgo : forall f, unpack_go row d 0 w f = Ok (flat_map (fun j => f (sample row d (Z.of_nat j))) (seq 0 w))).
  { intro f.
    assert (Hx : w = 0%nat \/ (Z.to_nat ((0 + Z.of_nat w - 1) * d / 8) < length row)%nat).
    { destruct Hrow as [Hw0 | Hr]; [left; exact Hw0 | right]. replace (0 + Z.of_nat w - 1) with (Z.of_nat w - 1) by lia. exact Hr. }
    rewrite (unpack_go_spec row d f Hd w 0 ltac:(lia) Hx). reflexivity. }
  assert (Hidx : forall k, 0 <= sample row d (Z.of_nat k) < 256).
  { intro k. pose proof (sample_range row d (Z.of_nat k) Hd) as Hr. destruct Hd as [-> | [-> | ->]]; [change (2 ^ 1) with 2 in Hr | change (2 ^ 2) with 4 in Hr | change (2 ^ 4) with 16 in Hr]; clear - Hr; lia. }
  assert (Hconv : forall k, convert_pixel 3 d (Some pal) trns t (pixel row 3 d (Z.of_nat k)) =
            pal_rgb pal (sample row d (Z.of_nat k)) ++ (if aa then [pal_alpha pal (opt_list trns) (sample row d (Z.of_nat k))] else [])).
  { intro k. unfold convert_pixel. rewrite He, pixel_idx. cbn [Z.eqb Pos.eqb andb hd opt_list]. fold aa. reflexivity. }
  destruct aa eqn:Eaa; unfold apply_tfn; cbn [t_depth]; unfold unpack_bits; rewrite Hdep, D8.
  - destruct (Z.ltb_spec (8 / d * 4 * zlen row) (zlen old)) as [Hbad|_]; [unfold zlen in *; nia|].
    replace (Z.to_nat (zlen old / 4)) with w by (unfold zlen; rewrite Hold; replace (Z.of_nat (w * 4)) with (Z.of_nat w * 4) by lia; rewrite Z.div_mul by lia; lia).
    rewrite Hgo. cbn [obind]. replace (w * Z.to_nat 4)%nat with (length old) by lia. rewrite skipn_all, app_nil_r.
    f_equal. apply flat_map_ext. intro k. rewrite Hconv, (Hget _ (Hidx k)). reflexivity.
  - destruct (Z.ltb_spec (8 / d * 3 * zlen row) (zlen old)) as [Hbad|_]; [unfold zlen in *; nia|].
    replace (Z.to_nat (zlen old / 3)) with w by (unfold zlen; rewrite Hold; replace (Z.of_nat (w * 3)) with (Z.of_nat w * 3) by lia; rewrite Z.div_mul by lia; lia).
    rewrite Hgo. cbn [obind]. replace (w * Z.to_nat 3)%nat with (length old) by lia. rewrite skipn_all, app_nil_r.
    f_equal. apply flat_map_ext. intro k. rewrite Hconv, (Hget _ (Hidx k)), app_nil_r.
    pose proof (pal_rgb_length pal (sample row d (Z.of_nat k))) as Lp.
    rewrite <- Lp at 1. rewrite firstn_app, Nat.sub_diag, firstn_all. cbn [firstn]. apply app_nil_r.
Qed.

(* ---- indexed images of depth 8 under EXPAND / ALPHA: TPalRgba (through the byte path of the unpacker) and TPalRgb8 (4-byte writes) *)
Lemma firstn_app_le {A} (n : nat) (a b : list A) : (n <= length a)%nat -> firstn n (a ++ b) = firstn n a.
Proof. intro H. rewrite firstn_app. replace (n - length a)%nat with 0%nat by lia. cbn [firstn]. apply app_nil_r. Qed.
Lemma skipn_app_le {A} (n : nat) (a b : list A) : (n <= length a)%nat -> skipn n (a ++ b) = skipn n a ++ b.
Proof. intro H. rewrite skipn_app. replace (n - length a)%nat with 0%nat by lia. reflexivity. Qed.

Lemma list_as_nth (l : list Z) : l = map (fun k => nth k l 0) (seq 0 (length l)).
Proof. rewrite nth_seq_firstn by lia. symmetry. apply firstn_all. Qed.

Lemma sample8 row k : sample row 8 (Z.of_nat k) = nth k row 0.
Proof. unfold sample. cbn [Z.eqb Pos.eqb]. unfold nthz. destruct (Z.ltb_spec (Z.of_nat k) 0); [lia|]. rewrite Nat2Z.id. reflexivity. Qed.

Lemma expand_rgb8_spec tab : forall row fuel out,
  (forall i, In i row -> length (tab_get tab i) = 4%nat) ->
  length out = (3 * length row)%nat -> (length row <= fuel)%nat ->
  expand_8bit_into_rgb8 fuel row out tab = Ok (flat_map (fun i => firstn 3 (tab_get tab i)) row).
Proof.
  induction row as [|i row IH]; intros fuel out Htab Hl Hf.
  - destruct out; [|cbn in Hl; lia]. destruct fuel; reflexivity.
  - destruct fuel as [|fuel]; [cbn in Hf; lia|]. cbn [expand_8bit_into_rgb8 flat_map].
    assert (L4 : length (tab_get tab i) = 4%nat) by (apply Htab; left; reflexivity).
    cbn [length] in Hl.
    destruct (Nat.leb_spec 4 (length out)) as [H4|H4].
    + destruct row as [|i2 row2]; [cbn in Hl; lia|].
      assert (Hs : skipn 3 (tab_get tab i ++ skipn 4 out) = skipn 3 (tab_get tab i) ++ skipn 4 out) by (apply skipn_app_le; lia).
      assert (Hfst : firstn 3 (tab_get tab i ++ skipn 4 out) = firstn 3 (tab_get tab i)) by (apply firstn_app_le; lia).
      rewrite Hs, Hfst.
      rewrite (IH fuel (skipn 3 (tab_get tab i) ++ skipn 4 out)).
      * reflexivity.
      * intros j Hj. apply Htab. right. exact Hj.
      * rewrite app_length, !skipn_length, L4. cbn [length] in *. lia.
      * cbn [length] in *. lia.
    + destruct row as [|i2 row2]; [|cbn [length] in Hl; lia]. cbn [length] in Hl.
      destruct (Nat.ltb_spec 0 (length out)) as [_|H0]; [|lia]. destruct (Nat.ltb_spec (length out) 3) as [Hlt|_]; [lia|].
      cbn [flat_map]. rewrite app_nil_r. replace 3%nat with (length out) at 2 by lia. rewrite skipn_all, app_nil_r. reflexivity.
Qed.

Theorem palette8_correct pal trns t row old :
  bytes_ok row -> s_expand t = true ->
  length old = (length row * (if present trns || s_alpha t then 4 else 3))%nat ->
  transform_row (mk_tinfo 3 8 (Some pal) trns) t row old = TROk (spec_convert 3 8 (Some pal) trns t (zlen row) row).
Proof.
  intros Hb He Hold.
  destruct (flags_agree t) as (F1 & F2 & F3).
  assert (Hs2 : is_some trns || has_alpha t = (present trns || s_alpha t)) by (rewrite is_some_present, F2; reflexivity).
  unfold transform_row, create_transform_fn. cbv zeta. cbn [t_color t_depth t_trns t_palette is_some negb Z.eqb Pos.eqb andb].
  rewrite F1, He. cbn [andb].
  destruct (create_rgba_palette_spec 3 8 pal trns) as (tab & Htab & Hget). rewrite Htab, Hs2.
  unfold spec_convert. rewrite He. cbn [Z.eqb Pos.eqb andb orb]. unfold zlen at 1. rewrite Nat2Z.id, flat_map_seq_zrange.
  set (aa := present trns || s_alpha t) in *.
  assert (Hidx : forall k, (k < length row)%nat -> 0 <= nth k row 0 < 256) by (intros k Hk; apply byte_at; assumption).
  assert (Hconv : forall k, convert_pixel 3 8 (Some pal) trns t (pixel row 3 8 (Z.of_nat k)) =
            pal_rgb pal (nth k row 0) ++ (if aa then [pal_alpha pal (opt_list trns) (nth k row 0)] else [])).
  { intro k. unfold convert_pixel. rewrite He, pixel_idx, sample8. cbn [Z.eqb Pos.eqb andb hd opt_list]. fold aa. reflexivity. }
  assert (Hrhs : forall g : Z -> list Z, (forall k, (k < length row)%nat -> g (nth k row 0) = convert_pixel 3 8 (Some pal) trns t (pixel row 3 8 (Z.of_nat k))) ->
            flat_map g row = flat_map (fun k => convert_pixel 3 8 (Some pal) trns t (pixel row 3 8 (Z.of_nat k))) (seq 0 (length row))).
  { intros g Hg. rewrite (list_as_nth row) at 1. rewrite flat_map_concat_map, map_map, <- flat_map_concat_map.
    rewrite !flat_map_concat_map. f_equal. apply map_ext_in. intros k Hk. apply in_seq in Hk. apply Hg. lia. }
  destruct aa eqn:Eaa; unfold apply_tfn; cbn [t_depth].
  - unfold unpack_bits. cbn [Z.eqb Pos.eqb orb negb].
    destruct (Z.ltb_spec (8 / 8 * 4 * zlen row) (zlen old)) as [Hbad|_]; [unfold zlen in *; change (8 / 8) with 1 in Hbad; lia|].
    replace (Z.to_nat (zlen old / 4)) with (length row) by (unfold zlen; rewrite Hold; replace (Z.of_nat (length row * 4)) with (Z.of_nat (length row) * 4) by lia; rewrite Z.div_mul by lia; lia).
    rewrite Nat.min_id, firstn_all. replace (length row * Z.to_nat 4)%nat with (length old) by lia. rewrite skipn_all, app_nil_r.
    f_equal. apply Hrhs. intros k Hk. rewrite Hconv, (Hget _ (Hidx k Hk)). reflexivity.
  - rewrite (expand_rgb8_spec tab row (length old) old).
    + f_equal. apply Hrhs. intros k Hk. rewrite Hconv, (Hget _ (Hidx k Hk)), app_nil_r.
      pose proof (pal_rgb_length pal (nth k row 0)) as Lp.
      rewrite <- Lp at 1. rewrite firstn_app, Nat.sub_diag, firstn_all. cbn [firstn]. apply app_nil_r.
    + intros i Hi. destruct (In_nth _ _ 0 Hi) as (k & Hk & <-). rewrite (Hget _ (Hidx k Hk)), app_length, pal_rgb_length. reflexivity.
    + lia.
    + lia.
Qed.
