(* C19 over a sink that starts failing (Model/WriterFail.v): for every configuration, every history of image writes followed by finish or
   drop, and every point at which the sink starts refusing writes -
   (1) IEND is accepted by the sink at most once, and nothing is accepted after it;
   (2) a refused write is reported: if no call of the history returned the sink error, the sink has accepted exactly what a healthy sink would have;
   (3) when finish returns Ok no call before it met a refused write, the sink holds every chunk of every accepted image and IEND;
   (4) with sequence validation, finish returning Ok means the stream is the complete, conformant stream of the declared images, and a history
       with too few or too many images reports an error. *)
From Coq Require Import List Arith Bool Lia.
Import ListNotations.
From PngV Require Import Spec.Validator Model.Encoder Model.WriterFail Proofs.EncoderProofs.

(* ------------------------------------------------------------------ the sink *)
Definition refusing (s : fstate) : Prop := f_left s = Some 0.

Lemma f_emit_ok s k s1 : f_emit s k = (s1, true) -> f_w s1 = f_w s /\ f_log s1 = f_log s ++ [k] /\ ~ refusing s.
Proof. unfold f_emit, refusing. destruct (f_left s) as [[|n]|]; intro Q; inversion Q; subst; cbn; repeat split; congruence. Qed.
Lemma f_emit_fail s k s1 : f_emit s k = (s1, false) -> s1 = s /\ refusing s.
Proof. unfold f_emit, refusing. destruct (f_left s) as [[|n]|]; intro Q; inversion Q; subst; split; reflexivity. Qed.
Lemma f_emit_refusing s k : refusing s -> f_emit s k = (s, false).
Proof. unfold f_emit, refusing. intros ->. reflexivity. Qed.
Lemma f_emit_healthy s k : f_left s = None -> f_emit s k = (mk_f (f_w s) None (f_log s ++ [k]), true).
Proof. unfold f_emit. intros ->. reflexivity. Qed.

Lemma f_emit_all_ok : forall ks s s1, f_emit_all s ks = (s1, true) -> f_w s1 = f_w s /\ f_log s1 = f_log s ++ ks.
Proof.
  induction ks as [|k ks IH]; intros s s1; cbn [f_emit_all].
  - intro Q; inversion Q; subst. rewrite app_nil_r. split; reflexivity.
  - destruct (f_emit s k) as [s2 [|]] eqn:E; [|discriminate].
    intro Q. destruct (f_emit_ok _ _ _ E) as (A & B & _). destruct (IH _ _ Q) as [C D].
    split; [congruence|]. rewrite D, B, <- app_assoc. reflexivity.
Qed.
Lemma f_emit_all_fail : forall ks s s1, f_emit_all s ks = (s1, false) ->
  refusing s1 /\ f_w s1 = f_w s /\ exists pre, f_log s1 = f_log s ++ pre /\ (forall k, In k pre -> In k ks).
Proof.
  induction ks as [|k ks IH]; intros s s1; cbn [f_emit_all]; [discriminate|].
  destruct (f_emit s k) as [s2 [|]] eqn:E.
  - intro Q. destruct (f_emit_ok _ _ _ E) as (A & B & _). destruct (IH _ _ Q) as (R & W & pre & L & I).
    split; [exact R|]. split; [congruence|]. exists (k :: pre). split; [rewrite L, B, <- app_assoc; reflexivity|].
    intros x [<-|Hx]; [left; reflexivity | right; apply I; exact Hx].
  - intro Q; inversion Q; subst. destruct (f_emit_fail _ _ _ E) as [-> R].
    split; [exact R|]. split; [reflexivity|]. exists []. split; [rewrite app_nil_r; reflexivity | intros x []].
Qed.

(* ------------------------------------------------------------------ (1) IEND *)
(* as long as the flag is down no IEND has been written, and the image calls neither write one nor touch the flag *)
Definition no_iend (s : fstate) : Prop := iend_written (f_w s) = false /\ ~ In KIEND (f_log s).

Lemma not_in_app {A} (x : A) l1 l2 : ~ In x l1 -> ~ In x l2 -> ~ In x (l1 ++ l2).
Proof. intros H1 H2 H. apply in_app_or in H. tauto. Qed.

Lemma repeat_idat_no_iend n : ~ In KIEND (repeat KIDAT n).
Proof. intro H. apply repeat_spec in H. discriminate H. Qed.

Lemma inc_images_flag c w : iend_written (inc_images c w) = iend_written w.
Proof. unfold inc_images. destruct (animated c) as [nf|]; cbn; [destruct (nf <=? _); reflexivity | reflexivity]. Qed.

Lemma f_image_no_iend validate c s n s1 r : no_iend s -> f_image validate c s n = (s1, r) -> no_iend s1.
Proof.
  intros [Hf Hl]. unfold f_image.
  destruct (negb (new_image_ok validate c (f_w s))); [intro Q; inversion Q; subst; split; assumption|].
  assert (Idats : forall s0, no_iend s0 -> forall s2 b, f_emit_all s0 (repeat KIDAT n) = (s2, b) ->
                  (b = true -> no_iend (set_w s2 (inc_images c (f_w s2)))) /\ (b = false -> no_iend s2)).
  { intros s0 [F0 L0] s2 b E. destruct b.
    - destruct (f_emit_all_ok _ _ _ E) as [A B]. split; [|discriminate]. intros _. unfold no_iend, set_w. cbn.
      rewrite inc_images_flag, A, B. split; [exact F0 | apply not_in_app; [exact L0 | apply repeat_idat_no_iend]].
    - destruct (f_emit_all_fail _ _ _ E) as (_ & A & pre & B & I). split; [discriminate|]. intros _. unfold no_iend.
      rewrite A, B. split; [exact F0|]. apply not_in_app; [exact L0|]. intro H. apply (repeat_idat_no_iend n). apply I. exact H. }
  destruct (fctl_seq (f_w s)) as [q|].
  - destruct (sep_def c && (images_written (f_w s) =? 0)).
    + destruct (f_emit_all s (repeat KIDAT n)) as [s2 b] eqn:E. destruct (Idats s (conj Hf Hl) s2 b E) as [T F].
      destruct b; intro Q; inversion Q; subst; [apply T | apply F]; reflexivity.
    + destruct (f_emit s (KFCTL q)) as [s2 [|]] eqn:E.
      * destruct (f_emit_ok _ _ _ E) as (A & B & _).
        set (w1 := mk_w (images_written (f_w s)) (S (animation_written (f_w s))) (Some (S q)) (iend_written (f_w s))).
        assert (N1 : no_iend (set_w s2 w1)).
        { unfold no_iend, set_w, w1. cbn. rewrite B. split; [exact Hf|]. apply not_in_app; [exact Hl|]. intros [H|[]]. discriminate H. }
        destruct (images_written (f_w s) =? 0).
        -- destruct (f_emit_all (set_w s2 w1) (repeat KIDAT n)) as [s3 b] eqn:E3. destruct (Idats _ N1 s3 b E3) as [T F].
           destruct b; intro Q; inversion Q; subst; [apply T | apply F]; reflexivity.
        -- (* the fdAT loop *)
           revert N1. generalize (set_w s2 w1) as s0. generalize (S q) as q0. clear.
           induction n as [|n IH]; intros q0 s0 [F0 L0]; cbn [fdat_loop].
           ++ intro Q; inversion Q; subst. unfold no_iend, set_w. cbn. rewrite inc_images_flag. split; assumption.
           ++ destruct (f_emit s0 (KFDAT q0)) as [s3 [|]] eqn:E3.
              ** destruct (f_emit_ok _ _ _ E3) as (A & B & _). apply IH. unfold no_iend, set_w. cbn. rewrite A, B.
                 split; [exact F0|]. apply not_in_app; [exact L0|]. intros [H|[]]. discriminate H.
              ** intro Q; inversion Q; subst. destruct (f_emit_fail _ _ _ E3) as [-> _]. split; assumption.
      * intro Q; inversion Q; subst. destruct (f_emit_fail _ _ _ E) as [-> _]. split; assumption.
  - destruct (f_emit_all s (repeat KIDAT n)) as [s2 b] eqn:E. destruct (Idats s (conj Hf Hl) s2 b E) as [T F].
    destruct b; intro Q; inversion Q; subst; [apply T | apply F]; reflexivity.
Qed.

Lemma f_images_no_iend validate c : forall ns s s1 rs, no_iend s -> f_images validate c s ns = (s1, rs) -> no_iend s1.
Proof.
  induction ns as [|n ns IH]; intros s s1 rs Hn; cbn [f_images]; [intro Q; inversion Q; subst; exact Hn|].
  destruct (f_image validate c s n) as [s2 r] eqn:E. destruct (f_images validate c s2 ns) as [s3 rs'] eqn:E2.
  intro Q; inversion Q; subst. eapply IH; [eapply f_image_no_iend; eassumption | exact E2].
Qed.

Definition iend_once_and_last (log : list ck) : Prop :=
  ~ In KIEND log \/ exists pre, log = pre ++ [KIEND] /\ ~ In KIEND pre.

Lemma mark_emit_iend s : no_iend s -> iend_once_and_last (f_log (fst (f_emit (mark_iend s) KIEND))).
Proof.
  intros [_ Hl]. destruct (f_emit (mark_iend s) KIEND) as [s1 [|]] eqn:E; cbn [fst].
  - destruct (f_emit_ok _ _ _ E) as (_ & B & _). right. exists (f_log s). split; [exact B | exact Hl].
  - destruct (f_emit_fail _ _ _ E) as [-> _]. left. exact Hl.
Qed.

(* THEOREM (1): whatever the history and wherever the sink starts refusing, the sink accepts IEND at most once and nothing after it -
   whether the writer is finished (successfully or not) or dropped *)
Theorem iend_at_most_once_and_last validate c budget ns finish :
  iend_once_and_last (fst (f_history validate c budget ns finish)).
Proof.
  unfold f_history. destruct (f_images validate c (f_start c budget) ns) as [s1 rs] eqn:E.
  assert (N0 : no_iend (f_start c budget)) by (unfold no_iend, f_start, w_init; cbn; split; [reflexivity | intros []]).
  pose proof (f_images_no_iend validate c ns _ _ _ N0 E) as N1.
  destruct finish.
  - unfold f_finish. destruct (negb (sequence_done validate c (f_w s1))); cbn [fst].
    + apply mark_emit_iend. exact N1.
    + pose proof (mark_emit_iend s1 N1) as M. destruct (f_emit (mark_iend s1) KIEND) as [s2 [|]]; cbn [fst] in *.
      * destruct (f_left s2) as [[|?]|]; exact M.
      * exact M.
  - unfold f_drop. destruct N1 as [Hf Hl]. rewrite Hf. apply mark_emit_iend. split; assumption.
Qed.

(* ------------------------------------------------------------------ (2), (3) refused writes are reported *)
Lemma f_emit_all_refusing s ks : refusing s -> f_emit_all s ks = (s, match ks with [] => true | _ => false end).
Proof. intro R. destruct ks as [|k ks]; [reflexivity|]. cbn [f_emit_all]. rewrite (f_emit_refusing s k R). reflexivity. Qed.

Lemma set_w_refusing s w : refusing s -> refusing (set_w s w).
Proof. unfold refusing, set_w. cbn. tauto. Qed.

(* a sink that has started refusing keeps refusing *)
Lemma refusing_stays_image validate c s n s1 r : refusing s -> f_image validate c s n = (s1, r) -> refusing s1.
Proof.
  intros R. unfold f_image.
  destruct (negb (new_image_ok validate c (f_w s))); [intro Q; inversion Q; subst; exact R|].
  assert (Idats : forall s0, refusing s0 -> forall s2 r0,
            match f_emit_all s0 (repeat KIDAT n) with
            | (s3, true) => (set_w s3 (inc_images c (f_w s3)), FOk)
            | (s3, false) => (s3, FErrSink) end = (s2, r0) -> refusing s2).
  { intros s0 R0 s2 r0. rewrite (f_emit_all_refusing s0 _ R0). destruct (repeat KIDAT n); intro Q; inversion Q; subst; [apply set_w_refusing|]; exact R0. }
  destruct (fctl_seq (f_w s)) as [q|]; [|apply Idats; exact R].
  destruct (sep_def c && (images_written (f_w s) =? 0)); [apply Idats; exact R|].
  rewrite (f_emit_refusing s (KFCTL q) R). intro Q; inversion Q; subst; exact R.
Qed.

(* an operation that reports the sink error leaves a refusing sink *)
Lemma sink_error_refusing validate c s n s1 : f_image validate c s n = (s1, FErrSink) -> refusing s1.
Proof.
  unfold f_image.
  destruct (negb (new_image_ok validate c (f_w s))); [intro Q; inversion Q|].
  assert (Idats : forall s0 s2,
            match f_emit_all s0 (repeat KIDAT n) with
            | (s3, true) => (set_w s3 (inc_images c (f_w s3)), FOk)
            | (s3, false) => (s3, FErrSink) end = (s2, FErrSink) -> refusing s2).
  { intros s0 s2. destruct (f_emit_all s0 (repeat KIDAT n)) as [s3 [|]] eqn:E; intro Q; inversion Q; subst.
    destruct (f_emit_all_fail _ _ _ E) as (R & _). exact R. }
  destruct (fctl_seq (f_w s)) as [q|]; [|apply Idats].
  destruct (sep_def c && (images_written (f_w s) =? 0)); [apply Idats|].
  destruct (f_emit s (KFCTL q)) as [s2 [|]] eqn:E.
  - set (w1 := mk_w (images_written (f_w s)) (S (animation_written (f_w s))) (Some (S q)) (iend_written (f_w s))).
    destruct (images_written (f_w s) =? 0); [apply Idats|].
    generalize (set_w s2 w1) as s0. generalize (S q) as q0. clear.
    induction n as [|n IH]; intros q0 s0; cbn [fdat_loop]; [intro Q; inversion Q|].
    destruct (f_emit s0 (KFDAT q0)) as [s3 [|]] eqn:E3; [apply IH|].
    intro Q; inversion Q; subst. destruct (f_emit_fail _ _ _ E3) as [-> R]. exact R.
  - intro Q; inversion Q; subst. destruct (f_emit_fail _ _ _ E) as [-> R]. exact R.
Qed.

Lemma f_images_refusing validate c : forall ns s s1 rs, f_images validate c s ns = (s1, rs) -> refusing s \/ In FErrSink rs -> refusing s1.
Proof.
  induction ns as [|n ns IH]; intros s s1 rs; cbn [f_images]; [intro Q; inversion Q; subst; intros [R|[]]; exact R|].
  destruct (f_image validate c s n) as [s2 r] eqn:E. destruct (f_images validate c s2 ns) as [s3 rs'] eqn:E2.
  intro Q. assert (Es : s1 = s3) by congruence. assert (Er : rs = r :: rs') by congruence. subst s1 rs. clear Q.
  intros [R|[Hr|Hin]].
  - apply (IH s2 s3 rs' E2). left. eapply refusing_stays_image; eassumption.
  - subst r. apply (IH s2 s3 rs' E2). left. eapply sink_error_refusing; exact E.
  - apply (IH s2 s3 rs' E2). right. exact Hin.
Qed.

Lemma finish_refusing validate c s : refusing s -> snd (f_finish validate c s) <> FOk.
Proof.
  intro R. unfold f_finish. destruct (negb (sequence_done validate c (f_w s))); [cbn; discriminate|].
  assert (R' : refusing (mark_iend s)) by (apply set_w_refusing; exact R).
  rewrite (f_emit_refusing _ KIEND R'). cbn. discriminate.
Qed.

(* an operation that did not report the sink error did exactly what it does over a healthy sink *)
Definition healthy_copy (s : fstate) : fstate := mk_f (f_w s) None (f_log s).

Lemma f_emit_all_healthy : forall ks s s1, f_emit_all s ks = (s1, true) ->
  f_emit_all (healthy_copy s) ks = (healthy_copy s1, true).
Proof.
  induction ks as [|k ks IH]; intros s s1; cbn [f_emit_all]; [intro Q; inversion Q; reflexivity|].
  destruct (f_emit s k) as [s2 [|]] eqn:E; [|discriminate]. intro Q.
  rewrite (f_emit_healthy (healthy_copy s) k eq_refl). destruct (f_emit_ok _ _ _ E) as (A & B & _).
  replace (mk_f (f_w (healthy_copy s)) None (f_log (healthy_copy s) ++ [k])) with (healthy_copy s2)
    by (unfold healthy_copy; cbn; rewrite A, B; reflexivity).
  apply IH. exact Q.
Qed.

Lemma f_image_not_sink_error validate c s n s1 r :
  f_image validate c s n = (s1, r) -> r <> FErrSink ->
  f_image validate c (healthy_copy s) n = (healthy_copy s1, r).
Proof.
  unfold f_image. cbn [f_w healthy_copy].
  destruct (negb (new_image_ok validate c (f_w s))); [intro Q; inversion Q; subst; reflexivity|].
  assert (Idats : forall s0 s2 r0,
            match f_emit_all s0 (repeat KIDAT n) with
            | (s3, true) => (set_w s3 (inc_images c (f_w s3)), FOk)
            | (s3, false) => (s3, FErrSink) end = (s2, r0) -> r0 <> FErrSink ->
            match f_emit_all (healthy_copy s0) (repeat KIDAT n) with
            | (s3, true) => (set_w s3 (inc_images c (f_w s3)), FOk)
            | (s3, false) => (s3, FErrSink) end = (healthy_copy s2, r0)).
  { intros s0 s2 r0. destruct (f_emit_all s0 (repeat KIDAT n)) as [s3 [|]] eqn:E; intros Q Hr; inversion Q; subst; [|congruence].
    rewrite (f_emit_all_healthy _ _ _ E). reflexivity. }
  destruct (fctl_seq (f_w s)) as [q|]; [|apply Idats].
  destruct (sep_def c && (images_written (f_w s) =? 0)); [apply Idats|].
  destruct (f_emit s (KFCTL q)) as [s2 [|]] eqn:E; [|intros Q Hr; inversion Q; subst; congruence].
  rewrite (f_emit_healthy (healthy_copy s) (KFCTL q) eq_refl). destruct (f_emit_ok _ _ _ E) as (A & B & _).
  replace (mk_f (f_w (healthy_copy s)) None (f_log (healthy_copy s) ++ [KFCTL q])) with (healthy_copy s2)
    by (unfold healthy_copy; cbn; rewrite A, B; reflexivity).
  set (w1 := mk_w (images_written (f_w s)) (S (animation_written (f_w s))) (Some (S q)) (iend_written (f_w s))).
  replace (set_w (healthy_copy s2) w1) with (healthy_copy (set_w s2 w1)) by reflexivity.
  destruct (images_written (f_w s) =? 0); [apply Idats|].
  generalize (set_w s2 w1) as s0. generalize (S q) as q0. clear.
  induction n as [|n IH]; intros q0 s0; cbn [fdat_loop]; intros Q Hr.
  - inversion Q; subst. reflexivity.
  - destruct (f_emit s0 (KFDAT q0)) as [s3 [|]] eqn:E3; [|inversion Q; subst; congruence].
    rewrite (f_emit_healthy (healthy_copy s0) (KFDAT q0) eq_refl). destruct (f_emit_ok _ _ _ E3) as (A & B & _).
    replace (mk_f (f_w (healthy_copy s0)) None (f_log (healthy_copy s0) ++ [KFDAT q0])) with (healthy_copy s3)
      by (unfold healthy_copy; cbn; rewrite A, B; reflexivity).
    exact (IH (S q0) _ Q Hr).
Qed.

Lemma f_images_not_sink_error validate c : forall ns s s1 rs,
  f_images validate c s ns = (s1, rs) -> ~ In FErrSink rs ->
  f_images validate c (healthy_copy s) ns = (healthy_copy s1, rs).
Proof.
  induction ns as [|n ns IH]; intros s s1 rs; cbn [f_images]; [intro Q; inversion Q; reflexivity|].
  destruct (f_image validate c s n) as [s2 r] eqn:E. destruct (f_images validate c s2 ns) as [s3 rs'] eqn:E2.
  intros Q Hn. assert (Es : s1 = s3) by congruence. assert (Er : rs = r :: rs') by congruence. subst s1 rs. clear Q.
  rewrite (f_image_not_sink_error validate c s n s2 r E) by (intro H; apply Hn; left; exact H).
  rewrite (IH s2 s3 rs' E2) by (intro H; apply Hn; right; exact H). reflexivity.
Qed.

(* THEOREM (3): when finish returns Ok, no call of the history met a refused write, and the sink has accepted exactly what a healthy sink
   accepts - every chunk of every image the writer took, and IEND; every call returned what it returns over a healthy sink *)
Theorem finish_ok_means_nothing_was_lost validate c budget ns :
  last (snd (f_history validate c budget ns true)) FErrSink = FOk ->
  ~ In FErrSink (snd (f_history validate c budget ns true)) /\
  f_history validate c budget ns true = f_history validate c None ns true.
Proof.
  unfold f_history. destruct (f_images validate c (f_start c budget) ns) as [s1 rs] eqn:E.
  destruct (f_finish validate c s1) as [s2 r] eqn:F. cbn [snd]. rewrite last_last. intros ->.
  assert (Hrs : ~ In FErrSink rs).
  { intro H. pose proof (f_images_refusing validate c ns _ _ _ E (or_intror H)) as R.
    apply (finish_refusing validate c s1 R). rewrite F. reflexivity. }
  split; [intro H; apply in_app_or in H; destruct H as [H|[H|[]]]; [exact (Hrs H) | discriminate H]|].
  pose proof (f_images_not_sink_error validate c ns _ _ _ E Hrs) as E'.
  replace (healthy_copy (f_start c budget)) with (f_start c None) in E' by reflexivity. rewrite E'.
  revert F. unfold f_finish. cbn [f_w healthy_copy].
  destruct (negb (sequence_done validate c (f_w s1))); [intro Q; inversion Q|].
  replace (mark_iend (healthy_copy s1)) with (healthy_copy (mark_iend s1)) by reflexivity.
  rewrite (f_emit_healthy (healthy_copy (mark_iend s1)) KIEND eq_refl). cbn [f_left].
  destruct (f_emit (mark_iend s1) KIEND) as [s3 [|]] eqn:E3; [|intro Q; inversion Q].
  destruct (f_emit_ok _ _ _ E3) as (_ & B & _).
  destruct (f_left s3) as [[|?]|]; intro Q; inversion Q; subst; cbn [f_log healthy_copy f_w]; rewrite B; reflexivity.
Qed.

(* ------------------------------------------------------------------ (4) sequence validation *)
(* over a healthy sink an image call either refuses (validation) or does what Model/Encoder.v write_image does *)
Lemma f_emit_all_healthy_run : forall ks s, f_left s = None -> f_emit_all s ks = (mk_f (f_w s) None (f_log s ++ ks), true).
Proof.
  induction ks as [|k ks IH]; intros s H; cbn [f_emit_all].
  - rewrite app_nil_r. destruct s; cbn in *; subst; reflexivity.
  - rewrite (f_emit_healthy s k H). rewrite IH by reflexivity. cbn. rewrite <- app_assoc. reflexivity.
Qed.

Lemma fdat_loop_healthy c : forall n q0 lg iw aw ie,
  fdat_loop c (mk_f (mk_w iw aw (Some q0) ie) None lg) q0 n
  = (mk_f (inc_images c (mk_w iw aw (Some (q0 + n)) ie)) None (lg ++ fdats q0 n), FOk).
Proof.
  induction n as [|n IHn]; intros q0 lg iw aw ie; cbn [fdat_loop].
  - cbn. rewrite Nat.add_0_r, app_nil_r. reflexivity.
  - rewrite (f_emit_healthy (mk_f (mk_w iw aw (Some q0) ie) None lg) (KFDAT q0) eq_refl). unfold set_w. cbn [f_w f_log f_left images_written animation_written iend_written].
    rewrite IHn. cbn [fdats]. rewrite <- app_assoc. cbn [app]. replace (S q0 + n) with (q0 + S n) by lia. reflexivity.
Qed.

Lemma f_image_healthy validate c w log n :
  f_image validate c (mk_f w None log) n =
  if new_image_ok validate c w
  then (mk_f (fst (write_image c w n)) None (log ++ snd (write_image c w n)), FOk)
  else (mk_f w None log, FErrEndReached).
Proof.
  unfold f_image. cbn [f_w].
  destruct (new_image_ok validate c w); [|reflexivity]. cbn [negb].
  destruct w as [iw aw fs ie]. unfold write_image. cbn [fctl_seq images_written animation_written iend_written].
  destruct fs as [q|].
  - destruct (sep_def c && (iw =? 0)).
    + rewrite f_emit_all_healthy_run by reflexivity. reflexivity.
    + rewrite (f_emit_healthy (mk_f (mk_w iw aw (Some q) ie) None log) (KFCTL q) eq_refl). unfold set_w. cbn [f_w f_log f_left images_written animation_written iend_written].
      destruct (iw =? 0).
      * rewrite f_emit_all_healthy_run by reflexivity. cbn [f_w f_log f_left fst snd]. rewrite <- app_assoc. reflexivity.
      * rewrite (fdat_loop_healthy c n (S q) (log ++ [KFCTL q]) iw (S aw) ie). cbn [fst snd]. rewrite <- app_assoc. reflexivity.
  - rewrite f_emit_all_healthy_run by reflexivity. reflexivity.
Qed.

(* what a validated writer over a healthy sink can have reached: nothing yet; the one image of a still PNG; or some frames of an animation
   (in step with the validator).  [k] counts the images it took. *)
Definition vh (c : wcfg) : vstate := mk_v PHeader (animated c) (has_plte c) 0 0 false.

Inductive reach (c : wcfg) : wstate -> list ck -> nat -> Prop :=
| R_start : reach c (w_init c) [] 0
| R_still n : animated c = None -> 1 <= n -> reach c (mk_w 1 0 None false) (repeat KIDAT n) 1
| R_anim nf w log : inv c nf w (vrun (vh c) log) -> frames (vrun (vh c) log) <= nf ->
                    reach c w log (frames (vrun (vh c) log) + (if sep_def c then 1 else 0)).

Lemma reach_image c w log k n : cfg_ok c -> 1 <= n -> reach c w log k ->
  (new_image_ok true c w = true /\ reach c (fst (write_image c w n)) (log ++ snd (write_image c w n)) (S k))
  \/ new_image_ok true c w = false.
Proof.
  intros Hc Hn R. unfold cfg_ok in Hc. destruct R as [| n0 Ha Hn0 | nf w log Hi Hle].
  - (* the first image *)
    left. unfold new_image_ok. destruct (animated c) as [nf|] eqn:Ea.
    + split; [unfold w_init; rewrite Ea; reflexivity|]. cbn [app].
      destruct (sep_def c) eqn:Es.
      * rewrite (first_image_sep c nf n Ea Es Hc). cbn [fst snd].
        assert (Hv : vrun (vh c) (repeat KIDAT n) = mk_v PIdat (Some nf) (has_plte c) 0 0 false).
        { unfold vh. rewrite Ea. rewrite vrun_idats_first by auto. reflexivity. }
        assert (Hi : inv c nf (mk_w 1 0 (Some 0) false) (vrun (vh c) (repeat KIDAT n))).
        { rewrite Hv. repeat split; auto; cbn; intros; try lia; try reflexivity. }
        pose proof (R_anim c nf _ _ Hi ltac:(rewrite Hv; cbn; lia)) as R. rewrite Hv, Es in R. cbn in R. exact R.
      * rewrite (first_image_nosep c nf n Ea Es). cbn [fst snd].
        assert (Hv : vrun (vh c) (KFCTL 0 :: repeat KIDAT n) = mk_v PIdat (Some nf) (has_plte c) 1 1 true).
        { unfold vh. rewrite Ea. cbn [vrun fold_left]. change (fold_left vstep (repeat KIDAT n) ?w) with (vrun w (repeat KIDAT n)).
          cbn [vstep ph actl next_seq fctl_before_idat Nat.eqb andb negb]. rewrite vrun_idats_first by auto. reflexivity. }
        set (s1 := (if nf <=? 1 then mk_w 1 1 None false else mk_w 1 1 (Some 1) false)).
        assert (Hi : inv c nf s1 (vrun (vh c) (KFCTL 0 :: repeat KIDAT n))).
        { rewrite Hv. subst s1. destruct (Nat.leb_spec nf 1); repeat split; auto; cbn; intros; try lia; try reflexivity. }
        pose proof (R_anim c nf _ _ Hi ltac:(rewrite Hv; cbn; lia)) as R. rewrite Hv, Es in R. cbn in R. exact R.
    + split; [reflexivity|]. cbn [app]. rewrite (single_image c n Ea). cbn [fst snd]. apply R_still; assumption.
  - (* a still image takes one image only *)
    right. unfold new_image_ok. rewrite Ha. reflexivity.
  - (* an animation: as long as frames are due *)
    pose proof Hi as (Ha & Hact & Hph & Haw & Hiw & Hsome & Hnone).
    unfold new_image_ok. rewrite Ha.
    destruct (Nat.lt_ge_cases (frames (vrun (vh c) log)) nf) as [Hlt|Hge].
    + left. rewrite (Hsome Hlt). split; [reflexivity|].
      pose proof (later_image c nf w (vrun (vh c) log) n Hi Hlt Hn) as L.
      destruct (write_image c w n) as [w' o]. destruct L as [Hi' Hfr]. cbn [fst snd].
      rewrite <- vrun_app in Hi', Hfr.
      pose proof (R_anim c nf w' (log ++ o) Hi' ltac:(lia)) as R. rewrite Hfr in R. cbn [Nat.add] in R. exact R.
    + right. rewrite (Hnone Hge). reflexivity.
Qed.

Lemma reach_finish c w log k : cfg_ok c -> reach c w log k -> sequence_done true c w = true ->
  conformant (header c ++ log ++ [KIEND]) = true /\ k = declared_images c.
Proof.
  intros Hc R. unfold conformant, sequence_done, declared_images. rewrite !vrun_app, header_run by exact Hc. fold (vh c).
  destruct R as [| n0 Ha Hn0 | nf w log Hi Hle].
  - cbn. rewrite orb_true_r. discriminate.
  - intros _. rewrite Ha. split; [|reflexivity]. unfold vh. rewrite Ha. rewrite vrun_idats_first by auto. reflexivity.
  - pose proof Hi as (Ha & Hact & Hph & Haw & Hiw & Hsome & Hnone). rewrite Ha.
    destruct (fctl_seq w) as [q|] eqn:Ef; [cbn; discriminate|]. intros _.
    assert (Hfr : frames (vrun (vh c) log) = nf).
    { destruct (Nat.lt_ge_cases (frames (vrun (vh c) log)) nf) as [Hlt|Hge]; [specialize (Hsome Hlt); discriminate Hsome | lia]. }
    split; [|rewrite Hfr; reflexivity].
    cbn [vrun fold_left]. rewrite (end_ok c nf w _ Hi Hfr). reflexivity.
Qed.

(* the images a validated healthy run takes *)
Lemma healthy_validated_run c : cfg_ok c -> forall ns w log k s1 rs,
  Forall (fun n => 1 <= n) ns -> reach c w log k ->
  f_images true c (mk_f w None log) ns = (s1, rs) ->
  f_left s1 = None /\ reach c (f_w s1) (f_log s1) (k + length (filter (fun r => match r with FOk => true | _ => false end) rs)) /\
  length rs = length ns /\ Forall (fun r => r = FOk \/ r = FErrEndReached) rs.
Proof.
  intros Hc. induction ns as [|n ns IH]; intros w log k s1 rs Hf R; cbn [f_images].
  - intro Q; inversion Q; subst. cbn. rewrite Nat.add_0_r. repeat split; try assumption; constructor.
  - pose proof (Forall_inv Hf) as Hn. pose proof (Forall_inv_tail Hf) as Hf'. cbn beta in Hn.
    rewrite f_image_healthy.
    destruct (reach_image c w log k n Hc Hn R) as [[Hok R']|Hno].
    + rewrite Hok.
      destruct (f_images true c (mk_f (fst (write_image c w n)) None (log ++ snd (write_image c w n))) ns) as [s2 rs'] eqn:E.
      intro Q; inversion Q; subst.
      destruct (IH _ _ _ _ _ Hf' R' E) as (A & B & C & D).
      split; [exact A|]. split; [cbn [filter length]; replace (k + S (length (filter _ rs'))) with (S k + length (filter (fun r => match r with FOk => true | _ => false end) rs')) by lia; exact B|].
      split; [cbn; lia|]. constructor; [left; reflexivity | exact D].
    + rewrite Hno.
      destruct (f_images true c (mk_f w None log) ns) as [s2 rs'] eqn:E.
      intro Q; inversion Q; subst.
      destruct (IH _ _ _ _ _ Hf' R E) as (A & B & C & D).
      split; [exact A|]. split; [cbn [filter]; exact B|]. split; [cbn; lia|]. constructor; [right; reflexivity | exact D].
Qed.

(* THEOREM (4): with sequence validation, when finish returns Ok - wherever the sink might have started refusing - the sink has accepted the
   complete, conformant stream of the declared images (header included), and the number of image calls that succeeded is the declared number *)
Theorem validated_finish_ok_means_complete_stream c budget ns :
  cfg_ok c -> Forall (fun n => 1 <= n) ns ->
  last (snd (f_history true c budget ns true)) FErrSink = FOk ->
  conformant (header c ++ fst (f_history true c budget ns true)) = true /\
  length (filter (fun r => match r with FOk => true | _ => false end) (removelast (snd (f_history true c budget ns true)))) = declared_images c.
Proof.
  intros Hc Hf Hl. destruct (finish_ok_means_nothing_was_lost true c budget ns Hl) as [_ E]. rewrite E in *. clear E.
  revert Hl. unfold f_history. replace (f_start c None) with (mk_f (w_init c) None []) by reflexivity.
  destruct (f_images true c (mk_f (w_init c) None []) ns) as [s1 rs] eqn:E.
  destruct (healthy_validated_run c Hc ns _ _ _ _ _ Hf (R_start c) E) as (A & R & _ & _).
  unfold f_finish. destruct (sequence_done true c (f_w s1)) eqn:Sd; cbn [negb].
  - destruct s1 as [w1 l1 g1]. cbn in A. subst l1. cbn [f_w f_log] in *.
    unfold mark_iend, set_w. cbn [f_w f_left f_log].
    rewrite (f_emit_healthy (mk_f (mk_w (images_written w1) (animation_written w1) (fctl_seq w1) true) None g1) KIEND eq_refl). cbn [f_left f_log f_w fst snd].
    rewrite last_last. intros _. rewrite removelast_last.
    destruct (reach_finish c w1 g1 _ Hc R Sd) as [C D]. split; [exact C | cbn in D; exact D].
  - cbn [snd]. rewrite last_last. discriminate.
Qed.

(* THEOREM (5): with sequence validation a history whose number of images is not the declared one does not go through silently: some call
   returns an error *)
Theorem validated_wrong_count_is_reported c budget ns :
  cfg_ok c -> Forall (fun n => 1 <= n) ns ->
  Forall (fun r => r = FOk) (snd (f_history true c budget ns true)) -> length ns = declared_images c.
Proof.
  intros Hc Hf Hall.
  assert (Hl : last (snd (f_history true c budget ns true)) FErrSink = FOk).
  { revert Hall. unfold f_history. destruct (f_images true c (f_start c budget) ns) as [s1 rs]. destruct (f_finish true c s1) as [s2 r]. cbn [snd].
    intro H. rewrite last_last. apply Forall_app in H. destruct H as [_ H]. inversion H; subst. reflexivity. }
  destruct (validated_finish_ok_means_complete_stream c budget ns Hc Hf Hl) as [_ Hcount].
  revert Hall Hcount. unfold f_history. destruct (f_images true c (f_start c budget) ns) as [s1 rs] eqn:E. destruct (f_finish true c s1) as [s2 r]. cbn [snd].
  intros H. rewrite removelast_last. apply Forall_app in H. destruct H as [H _].
  assert (Lr : length rs = length ns).
  { clear -E. revert E. generalize (f_start c budget). revert s1 rs. induction ns as [|n ns IH]; intros s1 rs s0; cbn [f_images].
    - intro Q; inversion Q; reflexivity.
    - destruct (f_image true c s0 n) as [s2 r]. destruct (f_images true c s2 ns) as [s3 rs'] eqn:E2. intro Q; inversion Q; subst. cbn. f_equal. eapply IH; exact E2. }
  assert (Fl : filter (fun r => match r with FOk => true | _ => false end) rs = rs).
  { clear -H. induction H as [|x l Hx _ IH]; [reflexivity|]. cbn. subst x. rewrite IH. reflexivity. }
  rewrite Fl. lia.
Qed.

(* non-vacuity: a two-frame animation; the sink refuses the 4th chunk write; validation on *)
Example writer_fail_demo :
  let c := mk_wcfg (Some 2) false false 0 0 in
  f_history true c (Some 3) [1; 2] true = ([KFCTL 0; KIDAT; KFCTL 1], [FOk; FErrSink; FErrMissingFrames]) /\
  f_history true c None [1; 2] true = ([KFCTL 0; KIDAT; KFCTL 1; KFDAT 2; KFDAT 3; KIEND], [FOk; FOk; FOk]) /\
  f_history true c None [1] true = ([KFCTL 0; KIDAT; KIEND], [FOk; FErrMissingFrames]) /\
  f_history true c None [1; 1; 1] true = ([KFCTL 0; KIDAT; KFCTL 1; KFDAT 2; KIEND], [FOk; FOk; FErrEndReached; FOk]).
Proof. vm_compute. repeat split; reflexivity. Qed.
