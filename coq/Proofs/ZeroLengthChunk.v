(* KNOWN FINDING of C10 (witness, evaluated on the executable model that the correspondence check ties to the code): a second IHDR whose
   length field is 0 is skipped - the stream decodes to the end of the image; the same chunk with a payload is refused as a duplicate. *)
From PngV Require Import Base.Bytes Base.Crc Base.Inflate Base.Utf8 Gen.GenStream Model.Stream Model.StreamRun Model.StreamExec.

Definition zero_length_second_ihdr : list Z := [137; 80; 78; 71; 13; 10; 26; 10; 0; 0; 0; 13; 73; 72; 68; 82; 0; 0; 0; 1; 0; 0; 0; 1; 8; 0; 0; 0; 0; 58; 126; 155; 85; 0; 0; 0; 0; 73; 72; 68; 82; 168; 161; 174; 10; 0; 0; 0; 10; 73; 68; 65; 84; 120; 156; 99; 96; 7; 0; 0; 9; 0; 8; 32; 35; 195; 140; 0; 0; 0; 0; 73; 69; 78; 68; 174; 66; 96; 130].
Definition second_ihdr_with_payload : list Z := [137; 80; 78; 71; 13; 10; 26; 10; 0; 0; 0; 13; 73; 72; 68; 82; 0; 0; 0; 1; 0; 0; 0; 1; 8; 0; 0; 0; 0; 58; 126; 155; 85; 0; 0; 0; 13; 73; 72; 68; 82; 0; 0; 0; 1; 0; 0; 0; 1; 8; 0; 0; 0; 0; 58; 126; 155; 85; 0; 0; 0; 10; 73; 68; 65; 84; 120; 156; 99; 96; 7; 0; 0; 9; 0; 8; 32; 35; 195; 140; 0; 0; 0; 0; 73; 69; 78; 68; 174; 66; 96; 130].

Theorem zero_length_second_ihdr_refuted :
  snd (fst (l0_run 17 67108864 [] zero_length_second_ihdr)) = RImageEnd 0 /\
  snd (fst (l0_run 17 67108864 [] second_ihdr_with_payload)) = RErr (EFormat FDuplicateChunk).
Proof. vm_compute. split; reflexivity. Qed.
