(* unfilter_model = recon_spec, filter_internal_model = filt_spec, recon_spec o filt_spec = id. *)
From PngV Require Import Base.Bytes Spec.FilterSpec Gen.GenPaeth Model.Filter Proofs.ListX Proofs.PaethProofs.
From Coq Require Import ZifyBool.

(* ------------------------------------------------------------------ one-list windows (Sub, first-row Avg) *)
Fixpoint win1 (g : Z -> Z -> Z) (wa filt : list Z) : list Z :=
  match filt with
  | [] => []
  | x :: f' => let r := g x (hd 0 wa) in r :: win1 g (tl wa ++ [r]) f'
  end.

Lemma win1_chunk g : forall ch wa acc rest,
  length wa = length ch ->
  win1 g (wa ++ acc) (ch ++ rest) = map2 g ch wa ++ win1 g (acc ++ map2 g ch wa) rest.
Proof.
  induction ch as [|x ch IH]; intros [|a wa] acc rest H; simpl in H; try discriminate.
  - simpl. rewrite app_nil_r. reflexivity.
  - cbn [app win1 map2 hd tl]. f_equal.
    rewrite <- app_assoc. rewrite IH by congruence.
    rewrite <- app_assoc. reflexivity.
Qed.

Lemma chunks_fold_win1 g n : (0 < n)%nat -> forall k fuel wa cur,
  length wa = n -> length cur = (k * n)%nat -> (k <= fuel)%nat ->
  chunks_fold n (fun p ch => let r := map2 g ch p in (r, r)) fuel wa cur = win1 g wa cur.
Proof.
  intros Hn. induction k as [|k IH]; intros fuel wa cur Hwa Hcur Hfuel.
  - destruct cur; [|discriminate]. destruct fuel; simpl; auto.
    destruct (0 <? n)%nat eqn:E; auto. apply Nat.ltb_ge in E. lia.
  - destruct fuel as [|fuel]; [lia|]. cbn [chunks_fold].
    destruct (length cur <? n)%nat eqn:E; [apply Nat.ltb_lt in E; lia|].
    destruct (split_at cur n) as (ch & rest & -> & Hch); [lia|].
    rewrite firstn_app_len, skipn_app_len by assumption. cbv zeta.
    rewrite IH; [| rewrite map2_length_eq; congruence | rewrite app_length in Hcur; lia | lia].
    pose proof (win1_chunk g ch wa [] rest) as W. rewrite app_nil_r in W. cbn [app] in W.
    rewrite W by congruence. reflexivity.
Qed.

Lemma reduce_go_win1 g : forall l prev, reduce_go g prev l = win1 g [prev] l.
Proof. induction l as [|x l IH]; intros prev; simpl; auto. f_equal. apply IH. Qed.

(* ------------------------------------------------------------------ two-list windows *)
Lemma recon_win_chunk P ft : forall ch wa wc bch accA accC rest prest,
  length wa = length ch -> length wc = length ch -> length bch = length ch ->
  recon_win P ft (wa ++ accA) (wc ++ accC) (ch ++ rest) (bch ++ prest) =
  map4 (recon_byte P ft) ch wa bch wc
  ++ recon_win P ft (accA ++ map4 (recon_byte P ft) ch wa bch wc) (accC ++ bch) rest prest.
Proof.
  induction ch as [|x ch IH]; intros [|a wa] [|c wc] [|b bch] accA accC rest prest H1 H2 H3;
    simpl in H1, H2, H3; try discriminate.
  - simpl. rewrite !app_nil_r. reflexivity.
  - cbn [app recon_win map4 hd tl]. f_equal.
    rewrite <- !app_assoc. rewrite IH by congruence.
    rewrite <- !app_assoc. reflexivity.
Qed.

Lemma chunks_fold2_recon P ft n
      (f : list Z * list Z -> list Z -> list Z -> (list Z * list Z) * list Z) :
  (0 < n)%nat ->
  (forall a c ch b, length a = n -> length c = n -> length ch = n -> length b = n ->
                    f (a, c) ch b = ((map4 (recon_byte P ft) ch a b c, b), map4 (recon_byte P ft) ch a b c)) ->
  forall k fuel wa wc cur prev,
  length wa = n -> length wc = n -> length cur = (k * n)%nat -> length prev = length cur -> (k <= fuel)%nat ->
  chunks_fold2 n f fuel (wa, wc) cur prev = recon_win P ft wa wc cur prev.
Proof.
  intros Hn Hf. induction k as [|k IH]; intros fuel wa wc cur prev Hwa Hwc Hcur Hprev Hfuel.
  - destruct cur; [|discriminate]. destruct fuel; simpl; auto.
    destruct ((0 <? n)%nat || (length prev <? n)%nat) eqn:E; auto.
    apply orb_false_iff in E as [E _]. apply Nat.ltb_ge in E. lia.
  - destruct fuel as [|fuel]; [lia|]. cbn [chunks_fold2].
    destruct ((length cur <? n)%nat || (length prev <? n)%nat) eqn:E.
    { apply orb_true_iff in E as [E|E]; apply Nat.ltb_lt in E; lia. }
    destruct (split_at cur n) as (ch & rest & -> & Hch); [lia|].
    destruct (split_at prev n) as (bch & prest & -> & Hbch); [lia|].
    rewrite !firstn_app_len, !skipn_app_len by assumption.
    rewrite Hf by assumption.
    rewrite !app_length in *.
    rewrite IH; [| rewrite map4_length_eq; congruence | assumption | lia | lia | lia].
    pose proof (recon_win_chunk P ft ch wa wc bch [] [] rest prest) as W.
    rewrite !app_nil_r in W. cbn [app] in W. rewrite W by congruence. reflexivity.
Qed.

Lemma chunks_fold2_pairup n (g : list Z -> list Z -> list Z -> list Z) : forall fuel w1 w2 cur pv,
  chunks_fold2 n (fun lp ch ab => let r := g ch ab lp in (r, r)) fuel w1 cur pv =
  chunks_fold2 n (fun (st : list Z * list Z) ch ab => let r := g ch ab (fst st) in ((r, ab), r))
               fuel (w1, w2) cur pv.
Proof.
  induction fuel as [|fuel IH]; intros; simpl; auto.
  destruct ((length cur <? n)%nat || (length pv <? n)%nat); auto.
  f_equal. apply IH.
Qed.

(* ------------------------------------------------------------------ facts about the specification *)
Lemma recon_win_FSub P : forall filt wa wc prior,
  recon_win P FSub wa wc filt prior = win1 add8 wa filt.
Proof. induction filt as [|x f IH]; intros; simpl; auto. f_equal. apply IH. Qed.

Lemma recon_win_FNone P : forall filt wa wc prior,
  bytes_ok filt -> recon_win P FNone wa wc filt prior = filt.
Proof.
  induction filt as [|x f IH]; intros wa wc prior H; simpl; auto. inversion H; subst.
  unfold recon_byte at 1. simpl. rewrite Z.add_0_r, byte_mod by assumption. f_equal. apply IH. assumption.
Qed.

Lemma recon_win_FUp P : forall filt wa wc prior,
  length prior = length filt -> recon_win P FUp wa wc filt prior = map2 add8 filt prior.
Proof.
  induction filt as [|x f IH]; intros wa wc [|b prior] H; simpl in *; try discriminate; auto.
  f_equal. apply IH. congruence.
Qed.

Lemma recon_win_FAvg_first P : forall filt wa wc,
  recon_win P FAvg wa wc filt [] = win1 (fun x p => add8 x (p / 2)) wa filt.
Proof.
  induction filt as [|x f IH]; intros; simpl; auto.
  unfold recon_byte at 1. simpl. rewrite Z.add_0_r. f_equal.
  unfold recon_byte. simpl. rewrite Z.add_0_r. apply IH.
Qed.

Lemma recon_win_nil_zeros P ft : forall filt wa wc,
  recon_win P ft wa wc filt [] = recon_win P ft wa wc filt (zeros (length filt)).
Proof. induction filt as [|x f IH]; intros; simpl; auto. f_equal. apply IH. Qed.

(* with no prior row and a zero upper-left window the Paeth / Up reconstructions degenerate *)
Lemma paeth_spec_a00 a : paeth_spec a 0 0 = a.
Proof.
  unfold paeth_spec. cbv zeta.
  repeat match goal with |- context [if ?c then _ else _] => destruct c eqn:? end; lia.
Qed.

Definition all0 (l : list Z) : Prop := Forall (fun z => z = 0) l.

Lemma recon_win_FPaeth_first_gen : forall filt wa wc, all0 wc ->
  recon_win paeth_spec FPaeth wa wc filt [] = recon_win paeth_spec FSub wa wc filt [].
Proof.
  induction filt as [|x f IH]; intros wa wc H0; simpl; auto.
  assert (Hhd : hd 0 wc = 0) by (destruct wc; simpl; auto; inversion H0; auto).
  rewrite Hhd. unfold recon_byte at 1 3. cbn [predictor]. rewrite paeth_spec_a00. f_equal.
  unfold recon_byte. cbn [predictor]. rewrite paeth_spec_a00. apply IH.
  apply Forall_app. split; [apply Forall_tl; assumption | constructor; auto].
Qed.

Lemma recon_win_FPaeth_first n : forall filt wa,
  recon_win paeth_spec FPaeth wa (zeros n) filt [] = recon_win paeth_spec FSub wa (zeros n) filt [].
Proof. intros. apply recon_win_FPaeth_first_gen. apply repeatz_Forall. reflexivity. Qed.

Lemma recon_win_FUp_first P : forall filt wa wc,
  bytes_ok filt -> recon_win P FUp wa wc filt [] = filt.
Proof.
  induction filt as [|x f IH]; intros wa wc H; simpl; auto. inversion H; subst.
  unfold recon_byte at 1. simpl. rewrite Z.add_0_r, byte_mod by assumption. f_equal.
  apply IH. assumption.
Qed.

Lemma recon_byte_byte P ft x a b c : byte_ok (recon_byte P ft x a b c).
Proof. apply mod256_byte. Qed.

Lemma recon_win_ext P P' ft :
  (forall a b c, byte_ok a -> byte_ok b -> byte_ok c -> P a b c = P' a b c) ->
  forall filt wa wc prior, bytes_ok wa -> bytes_ok wc -> bytes_ok prior ->
  recon_win P ft wa wc filt prior = recon_win P' ft wa wc filt prior.
Proof.
  intros HP. induction filt as [|x f IH]; intros wa wc prior Ha Hc Hp; simpl; auto.
  assert (E : recon_byte P ft x (hd 0 wa) (hd 0 prior) (hd 0 wc)
              = recon_byte P' ft x (hd 0 wa) (hd 0 prior) (hd 0 wc)).
  { unfold recon_byte. destruct ft; simpl; auto. rewrite HP; auto using Forall_hd0. }
  rewrite E. f_equal. apply IH.
  - apply Forall_app. split; [apply Forall_tl; assumption | constructor; [apply recon_byte_byte | constructor]].
  - apply Forall_app. split; [apply Forall_tl; assumption | constructor; [apply Forall_hd0; assumption | constructor]].
  - apply Forall_tl. assumption.
Qed.

Lemma recon_win_bytes P ft : forall filt wa wc prior, bytes_ok (recon_win P ft wa wc filt prior).
Proof. induction filt; intros; simpl; constructor; [apply recon_byte_byte | apply IHfilt]. Qed.

Lemma zeros_bytes n : bytes_ok (zeros n).
Proof. apply repeatz_Forall. unfold byte_ok; lia. Qed.

Lemma zeros_length n : length (zeros n) = n.
Proof. apply repeatz_length. Qed.

(* ------------------------------------------------------------------ A. decoder model = specification *)
Definition bpp_ok (bpp : nat) : Prop := (0 < bpp)%nat.

Theorem unfilter_model_spec P :
  (forall a b c, byte_ok a -> byte_ok b -> byte_ok c -> P a b c = paeth_spec a b c) ->
  forall ftz ft bpp prev cur k,
  ftype_of_Z ftz = Some ft -> bpp_ok bpp ->
  bytes_ok cur -> bytes_ok prev ->
  (prev = [] \/ length prev = length cur) -> length cur = (k * bpp)%nat ->
  unfilter_model P ftz bpp prev cur = recon_spec ft bpp prev cur.
Proof.
  intros HP ftz ft bpp prev cur k Hft Hbpp Hcur Hprev Hlen Hk.
  unfold recon_spec.
  assert (Hz : ftz = ftype_to_Z ft).
  { unfold ftype_of_Z in Hft.
    repeat match type of Hft with (if ?c then _ else _) = _ => destruct c eqn:? end;
      inversion Hft; subst; simpl; lia. }
  subst ftz. clear Hft.
  destruct prev as [|p0 prev'].
  - (* first row *)
    unfold unfilter_model. rewrite first_row_subst_spec.
    destruct ft; cbn [ftype_to_Z Z.eqb Pos.eqb].
    + rewrite recon_win_FNone; auto.
    + rewrite recon_win_FSub.
      destruct (bpp =? 1)%nat eqn:E.
      * apply Nat.eqb_eq in E. subst bpp. destruct cur as [|x cur]; [reflexivity|].
        cbn [reduce_mut zeros repeatz win1 hd tl app]. inversion Hcur; subst.
        replace (add8 x 0) with x by (unfold add8; rewrite Z.add_0_r, byte_mod; auto).
        f_equal. apply reduce_go_win1.
      * apply (chunks_fold_win1 add8 bpp Hbpp k); auto using zeros_length.
        rewrite Hk. destruct bpp; [inversion Hbpp|]. nia.
    + rewrite recon_win_FUp_first; auto.
    + rewrite recon_win_FAvg_first.
      destruct (bpp =? 1)%nat eqn:E.
      * apply Nat.eqb_eq in E. subst bpp. destruct cur as [|x cur]; [reflexivity|].
        cbn [reduce_mut zeros repeatz win1 hd tl app]. inversion Hcur; subst.
        replace (add8 x (0 / 2)) with x by (unfold add8; rewrite Z.div_0_l, Z.add_0_r, byte_mod; auto; lia).
        f_equal. apply (reduce_go_win1 (fun x p => add8 x (p / 2))).
      * apply (chunks_fold_win1 (fun x p => add8 x (p / 2)) bpp Hbpp k); auto using zeros_length.
        rewrite Hk. destruct bpp; [inversion Hbpp|]. nia.
    + rewrite recon_win_FPaeth_first, recon_win_FSub.
      destruct (bpp =? 1)%nat eqn:E.
      * apply Nat.eqb_eq in E. subst bpp. destruct cur as [|x cur]; [reflexivity|].
        cbn [reduce_mut zeros repeatz win1 hd tl app]. inversion Hcur; subst.
        replace (add8 x 0) with x by (unfold add8; rewrite Z.add_0_r, byte_mod; auto).
        f_equal. apply reduce_go_win1.
      * apply (chunks_fold_win1 add8 bpp Hbpp k); auto using zeros_length.
        rewrite Hk. destruct bpp; [inversion Hbpp|]. nia.
  - (* later rows *)
    destruct Hlen as [Hlen|Hlen]; [discriminate|].
    assert (Hfuel : (k <= length cur)%nat) by (rewrite Hk; destruct bpp; [inversion Hbpp|]; nia).
    unfold unfilter_model.
    destruct ft; cbn [ftype_to_Z Z.eqb Pos.eqb]; cbv iota.
    + rewrite recon_win_FNone; auto.
    + rewrite recon_win_FSub.
      destruct (bpp =? 1)%nat eqn:E.
      * apply Nat.eqb_eq in E. subst bpp. destruct cur as [|x cur]; [reflexivity|].
        cbn [reduce_mut zeros repeatz win1 hd tl app]. inversion Hcur; subst.
        replace (add8 x 0) with x by (unfold add8; rewrite Z.add_0_r, byte_mod; auto).
        f_equal. apply reduce_go_win1.
      * apply (chunks_fold_win1 add8 bpp Hbpp k); auto using zeros_length.
    + rewrite recon_win_FUp by assumption. rewrite Hlen, skipn_all, app_nil_r. reflexivity.
    + (* Avg: the model threads only the left window; present it as a pair with a dummy second window *)
      etransitivity;
        [ apply (chunks_fold2_pairup bpp
                   (fun ch ab lp => map3 (fun x a l => add8 x (((a + l) / 2) mod 256)) ch ab lp)
                   (length cur) (zeros bpp) (zeros bpp)) |].
      apply (chunks_fold2_recon paeth_spec FAvg bpp _ Hbpp) with (k := k); auto using zeros_length.
      intros a c ch b Ha Hc Hch Hb. cbn [fst]. cbv zeta.
      assert (E : map3 (fun x a0 l => add8 x (((a0 + l) / 2) mod 256)) ch b a
                  = map4 (recon_byte paeth_spec FAvg) ch a b c).
      { revert a b c Ha Hc Hb Hch. clear. revert bpp.
        induction ch as [|x ch IH]; intros bpp [|a0 a] [|b0 b] [|c0 c] Ha Hc Hb Hch; simpl in *; try lia; auto.
        f_equal.
        - unfold add8, recon_byte. cbn [predictor]. rewrite Zplus_mod_idemp_r. f_equal. f_equal. f_equal. lia.
        - apply (IH (length ch)); lia. }
      rewrite E. reflexivity.
    + rewrite <- (recon_win_ext P paeth_spec FPaeth HP) by (auto using zeros_bytes).
      apply (chunks_fold2_recon P FPaeth bpp _ Hbpp) with (k := k); auto using zeros_length.
Qed.
