(* C04, whole streams: the observation of the L0 machine does not depend on how the input is cut into pieces.
   Layers: (1) the inflater wrapper is cut-invariant under the prefix-determinacy contract of the external inflater;
   (2) one transition on p ++ q is either the transition on p, or the transition on p followed by the transition on q merged
   into one (field / body / image data straddling the cut); (3) runs of transitions ([Micro]) over p then q and over p ++ q
   have the same observation; (4) lists of pieces; (5) the fuelled driver [feed] of Model/StreamRun.v is such a run. *)
From PngV Require Import Base.Bytes Base.Crc Gen.GenStream Model.Stream Model.StreamRun Proofs.StreamProofs Proofs.StreamSplit.
From RecordUpdate Require Import RecordSet.
Import RecordSetNotations.
From Coq Require Import ZifyBool.

Local Arguments Z.add : simpl never.
Local Arguments Z.sub : simpl never.
Local Arguments Z.of_nat : simpl never.
Local Arguments Z.to_nat : simpl never.
Local Arguments Z.min : simpl never.
Local Arguments Z.max : simpl never.

Section WithInflate.
Variable zinf : bool -> list Z -> list Z * dstatus.
Variable zall : list Z -> option (list Z).
Variable utf8_valid : list Z -> bool.
Notation next_state := (next_state zinf zall utf8_valid).
Notation parse_u32 := (parse_u32 zinf).
Notation parse_chunk := (parse_chunk zall utf8_valid).
Notation z_decompress := (z_decompress zinf).
Notation z_done := (z_done zinf).

(* ------------------------------------------------------------------ the contract of the external inflater (prefix determinacy):
   what a prefix of the compressed stream has determined stays determined *)
Definition zinf_error_stable : Prop := forall c a b, snd (zinf c a) = DError -> snd (zinf c (a ++ b)) = DError.
Definition zinf_done_stable : Prop := forall c a b, snd (zinf c a) = DDone -> zinf c (a ++ b) = zinf c a.
Definition zinf_contract : Prop := zinf_monotone zinf /\ zinf_error_stable /\ zinf_done_stable.

(* ------------------------------------------------------------------ the wrapper: what it has handed out is what its input has determined *)
Definition zinv (z : zst) : Prop :=
  if z_started z
  then z_emitted z = zlen (fst (zinf (negb (z_ignore_adler z)) (z_in z))) /\ snd (zinf (negb (z_ignore_adler z)) (z_in z)) <> DError
  else z_in z = [] /\ z_emitted z = 0.

Lemma zinv_zreset z : zinv (zreset z).
Proof. unfold zinv, zreset. cbn. split; reflexivity. Qed.

Lemma skipn_app_le {A} n (a b : list A) : (n <= length a)%nat -> skipn n (a ++ b) = skipn n a ++ b.
Proof. revert a. induction n as [|n IH]; intros [|x a] H; cbn in *; try reflexivity; try lia. apply IH. lia. Qed.

Lemma skipn_len_app {A} (a b : list A) : skipn (length a) (a ++ b) = b.
Proof. induction a as [|x a IH]; cbn; [reflexivity | exact IH]. Qed.

Lemma skipn_join (o0 t0 t : list Z) : skipn (length o0) (o0 ++ t0) ++ skipn (length (o0 ++ t0)) ((o0 ++ t0) ++ t) = skipn (length o0) ((o0 ++ t0) ++ t).
Proof.
  rewrite (skipn_len_app (o0 ++ t0) t), (skipn_len_app o0 t0).
  replace ((o0 ++ t0) ++ t) with (o0 ++ (t0 ++ t)) by (rewrite app_assoc; reflexivity).
  rewrite skipn_len_app. reflexivity.
Qed.

Lemma z_decompress_inv z d z' o : zinf_contract -> zinv z -> z_decompress z d = Ok (z', o) -> zinv z'.
Proof.
  intros (HM & HE & HD) Hi. unfold Stream.z_decompress, Stream.z_done.
  destruct (snd (zinf (negb (z_ignore_adler z)) (z_in z))) eqn:Es.
  - (* need more *)
    destruct (zinf (negb (z_ignore_adler z)) (z_in z ++ d)) as [out st1] eqn:E1.
    destruct st1; intro Q; inversion Q; subst; unfold zinv; destruct z; cbn in *; rewrite E1; cbn; split; try reflexivity; discriminate.
  - (* done *)
    destruct (z_started z) eqn:Est.
    + intro Q; inversion Q; subst. unfold zinv in *. destruct z as [zi ze zs za]. cbn in *. subst zs.
      rewrite (HD _ zi d Es). exact Hi.
    + destruct (zinf (negb (z_ignore_adler z)) (z_in z ++ d)) as [out st1] eqn:E1.
      destruct st1; intro Q; inversion Q; subst; unfold zinv; destruct z; cbn in *; rewrite E1; cbn; split; try reflexivity; discriminate.
  - (* error: impossible for a started stream; a fresh one just runs *)
    destruct (zinf (negb (z_ignore_adler z)) (z_in z ++ d)) as [out st1] eqn:E1.
    destruct st1; intro Q; inversion Q; subst; unfold zinv; destruct z; cbn in *; rewrite E1; cbn; split; try reflexivity; discriminate.
Qed.

(* THE WRAPPER IS CUT-INVARIANT: input handed over as p then d, or as p ++ d *)
Lemma z_decompress_app z p d :
  zinf_contract -> zinv z ->
  match z_decompress z p with
  | Ok (z1, o1) =>
    match z_decompress z1 d with
    | Ok (z2, o2) => z_decompress z (p ++ d) = Ok (z2, o1 ++ o2)
    | Err e => z_decompress z (p ++ d) = Err e
    | Panic k => z_decompress z (p ++ d) = Panic k
    end
  | Err e => z_decompress z (p ++ d) = Err e
  | Panic k => z_decompress z (p ++ d) = Panic k
  end.
Proof.
  intros (HM & HE & HD) Hi.
  set (c := negb (z_ignore_adler z)).
  unfold Stream.z_decompress, Stream.z_done. fold c.
  destruct (z_started z) eqn:Est.
  - (* started *)
    unfold zinv in Hi. rewrite Est in Hi. fold c in Hi. destruct Hi as [Hem Hne].
    destruct (snd (zinf c (z_in z))) eqn:Es; [| | congruence].
    + (* the stream was not finished *)
      cbn [andb].
      destruct (zinf c (z_in z ++ p)) as [out1 st1] eqn:E1.
      destruct (HM c (z_in z) p Es) as [t0 Ht0]. rewrite E1 in Ht0. cbn [fst] in Ht0.
      destruct st1.
      * (* still unfinished after p *)
        replace (z_ignore_adler (z <| z_in := z_in z ++ p |> <| z_emitted := zlen out1 |> <| z_started := true |>)) with (z_ignore_adler z) by (destruct z; reflexivity).
        replace (z_in (z <| z_in := z_in z ++ p |> <| z_emitted := zlen out1 |> <| z_started := true |>)) with (z_in z ++ p) by (destruct z; reflexivity).
        replace (z_started (z <| z_in := z_in z ++ p |> <| z_emitted := zlen out1 |> <| z_started := true |>)) with true by (destruct z; reflexivity).
        replace (z_emitted (z <| z_in := z_in z ++ p |> <| z_emitted := zlen out1 |> <| z_started := true |>)) with (zlen out1) by (destruct z; reflexivity).
        fold c. rewrite E1. cbn [snd andb].
        rewrite <- app_assoc.
        destruct (zinf c (z_in z ++ p ++ d)) as [out2 st2] eqn:E2.
        assert (E1' : snd (zinf c (z_in z ++ p)) = DNeedMore) by (rewrite E1; reflexivity).
        destruct (HM c (z_in z ++ p) d E1') as [t Ht]. rewrite <- app_assoc, E1, E2 in Ht. cbn [fst] in Ht.
        destruct st2; try reflexivity.
        all: f_equal; apply pair_equal_spec; split; [destruct z; reflexivity|].
        all: rewrite Hem, Ht, Ht0; unfold zlen; rewrite !Nat2Z.id; symmetry; apply skipn_join.
      * (* finished inside p: the rest is ignored *)
        replace (z_ignore_adler (z <| z_in := z_in z ++ p |> <| z_emitted := zlen out1 |> <| z_started := true |>)) with (z_ignore_adler z) by (destruct z; reflexivity).
        replace (z_in (z <| z_in := z_in z ++ p |> <| z_emitted := zlen out1 |> <| z_started := true |>)) with (z_in z ++ p) by (destruct z; reflexivity).
        replace (z_started (z <| z_in := z_in z ++ p |> <| z_emitted := zlen out1 |> <| z_started := true |>)) with true by (destruct z; reflexivity).
        fold c. rewrite E1. cbn [snd andb].
        assert (E1' : snd (zinf c (z_in z ++ p)) = DDone) by (rewrite E1; reflexivity).
        pose proof (HD c (z_in z ++ p) d E1') as Hd. rewrite <- app_assoc, E1 in Hd. rewrite Hd.
        f_equal. apply pair_equal_spec; split; [destruct z; cbn; rewrite <- app_assoc; reflexivity | rewrite app_nil_r; reflexivity].
      * (* corrupt inside p *)
        assert (E1' : snd (zinf c (z_in z ++ p)) = DError) by (rewrite E1; reflexivity).
        pose proof (HE c (z_in z ++ p) d E1') as He. rewrite <- app_assoc in He.
        destruct (zinf c (z_in z ++ p ++ d)) as [out2 st2]. cbn [snd] in He. subst st2. reflexivity.
    + (* the stream had finished before *)
      cbn [andb].
      replace (z_ignore_adler (z <| z_in := z_in z ++ p |>)) with (z_ignore_adler z) by (destruct z; reflexivity).
      replace (z_in (z <| z_in := z_in z ++ p |>)) with (z_in z ++ p) by (destruct z; reflexivity).
      replace (z_started (z <| z_in := z_in z ++ p |>)) with true by (destruct z; cbn in *; congruence).
      fold c. rewrite (HD c (z_in z) p Es), Es. cbn [andb].
      f_equal. apply pair_equal_spec; split; [destruct z; cbn; rewrite <- app_assoc; reflexivity | reflexivity].
  - (* not started: no input so far *)
    unfold zinv in Hi. rewrite Est in Hi. destruct Hi as [Hin Hem].
    replace (match snd (zinf c (z_in z)) with DDone => false | _ => false end) with false by (destruct (snd (zinf c (z_in z))); reflexivity).
    rewrite Hin. cbn [app].
    destruct (zinf c p) as [out1 st1] eqn:E1.
    destruct st1.
    + replace (z_ignore_adler (z <| z_in := p |> <| z_emitted := zlen out1 |> <| z_started := true |>)) with (z_ignore_adler z) by (destruct z; reflexivity).
      replace (z_in (z <| z_in := p |> <| z_emitted := zlen out1 |> <| z_started := true |>)) with p by (destruct z; reflexivity).
      replace (z_started (z <| z_in := p |> <| z_emitted := zlen out1 |> <| z_started := true |>)) with true by (destruct z; reflexivity).
      replace (z_emitted (z <| z_in := p |> <| z_emitted := zlen out1 |> <| z_started := true |>)) with (zlen out1) by (destruct z; reflexivity).
      fold c. rewrite E1. cbn [snd andb].
      destruct (zinf c (p ++ d)) as [out2 st2] eqn:E2.
      assert (E1' : snd (zinf c p) = DNeedMore) by (rewrite E1; reflexivity).
      destruct (HM c p d E1') as [t Ht]. rewrite E1, E2 in Ht. cbn [fst] in Ht.
      destruct st2; try reflexivity.
      all: f_equal; apply pair_equal_spec; split; [destruct z; reflexivity|].
      all: rewrite Hem, Ht; unfold zlen; rewrite !Nat2Z.id; change (Z.to_nat 0) with 0%nat; cbn [skipn]; rewrite skipn_len_app; reflexivity.
    + replace (z_ignore_adler (z <| z_in := p |> <| z_emitted := zlen out1 |> <| z_started := true |>)) with (z_ignore_adler z) by (destruct z; reflexivity).
      replace (z_in (z <| z_in := p |> <| z_emitted := zlen out1 |> <| z_started := true |>)) with p by (destruct z; reflexivity).
      replace (z_started (z <| z_in := p |> <| z_emitted := zlen out1 |> <| z_started := true |>)) with true by (destruct z; reflexivity).
      fold c. rewrite E1. cbn [snd andb].
      assert (E1' : snd (zinf c p) = DDone) by (rewrite E1; reflexivity).
      pose proof (HD c p d E1') as Hd. rewrite E1 in Hd. rewrite Hd.
      f_equal. apply pair_equal_spec; split; [destruct z; reflexivity | rewrite app_nil_r; reflexivity].
    + assert (E1' : snd (zinf c p) = DError) by (rewrite E1; reflexivity).
      pose proof (HE c p d E1') as He.
      destruct (zinf c (p ++ d)) as [out2 st2]. cbn [snd] in He. subst st2. reflexivity.
Qed.

Ltac okq :=
  let Q := fresh "Q" in
  intro Q; first [ discriminate Q
                 | match type of Q with
                   | (_, Ok (?m, _, _)) = (_, Ok (?n, _, _)) =>
                     let E := fresh "E" in assert (E : n = m) by congruence; rewrite E; clear Q E; first [lia | (unfold zlen; lia) | assumption | idtac]
                   end ].

(* ------------------------------------------------------------------ one transition, per control state *)
Definition good (s : dstate) : Prop := wf' s /\ zinv (infl s).

Lemma ns_u32 s kind acc buf :
  st s = Some (SU32 kind acc) -> buf <> [] ->
  next_state s buf =
    (let avail := Nat.min (4 - length acc) (length buf) in
     let acc' := acc ++ firstn avail buf in
     if (length acc' <? 4)%nat then (s <| st := Some (SU32 kind acc') |>, Ok (avail, ENothing, []))
     else wrap avail (parse_u32 s kind acc')).
Proof.
  intros H Hb. unfold Stream.next_state. rewrite H.
  destruct acc as [|a0 acc0]; [|reflexivity].
  destruct buf as [|b0 [|b1 [|b2 [|b3 tl]]]]; try congruence; reflexivity.
Qed.

Definition read_to (s : dstate) (ty : Z) (n : nat) (data : list Z) : dstate :=
  let s := if o_ignore_crc (opts s) then s else s <| c_crc := crc_update (c_crc s) data |> in
  let s := s <| c_raw := c_raw s ++ data |> <| c_remaining := c_remaining s - Z.of_nat n |> in
  s <| st := Some (if c_remaining s =? 0 then SParse ty else SRead ty) |>.

Definition read_n (s : dstate) (buf : list Z) : nat :=
  Z.to_nat (Z.min (c_remaining s) (Z.min (zlen buf) (c_cap s - zlen (c_raw s)))).

Lemma ns_read s ty buf :
  st s = Some (SRead ty) -> (c_remaining s =? 0) = false -> (c_cap s - zlen (c_raw s) <=? 0) = false ->
  next_state s buf = (read_to s ty (read_n s buf) (firstn (read_n s buf) buf), Ok (read_n s buf, ENothing, [])).
Proof. intros H H0 H1. unfold Stream.next_state. rewrite H, H0, H1. reflexivity. Qed.

Lemma ns_read_idle s ty buf buf' :
  st s = Some (SRead ty) -> (c_remaining s =? 0) = true \/ (c_cap s - zlen (c_raw s) <=? 0) = true ->
  next_state s buf = next_state s buf'.
Proof.
  intros H [H0|H1]; unfold Stream.next_state; rewrite H.
  - rewrite H0. reflexivity.
  - destruct (c_remaining s =? 0); [reflexivity|]. rewrite H1. reflexivity.
Qed.

Lemma read_to_app s ty n1 d1 n2 d2 :
  read_to (read_to s ty n1 d1) ty n2 d2 = read_to s ty (n1 + n2) (d1 ++ d2).
Proof.
  unfold read_to. destruct s as [st0 cty crc rem raw cap inf inf0 sq hi ri rf hic op bud]. cbn.
  destruct (o_ignore_crc op) eqn:E; cbn; rewrite ?E; cbn; rewrite <- ?app_assoc, ?crc_update_app;
    replace (rem - Z.of_nat n1 - Z.of_nat n2) with (rem - Z.of_nat (n1 + n2)) by lia; reflexivity.
Qed.

Definition image_to (s : dstate) (ty : Z) (n : nat) (data : list Z) (z : zst) : dstate :=
  let s := s <| infl := z |> <| c_crc := crc_update (c_crc s) data |> <| c_remaining := c_remaining s - Z.of_nat n |> in
  s <| st := Some (if c_remaining s =? 0 then SU32 (KCrc ty) [] else SImage ty) |>.

Definition image_n (s : dstate) (buf : list Z) : nat := Z.to_nat (Z.min (zlen buf) (c_remaining s)).

Lemma ns_image s ty buf :
  st s = Some (SImage ty) ->
  next_state s buf =
    match z_decompress (infl s) (firstn (image_n s buf) buf) with
    | Ok (z, out) => (image_to s ty (image_n s buf) (firstn (image_n s buf) buf) z, Ok (image_n s buf, EImageData, out))
    | Err e => (s <| st := None |>, Err e)
    | Panic k => (s <| st := None |>, Panic k)
    end.
Proof. intros H. unfold Stream.next_state. rewrite H. reflexivity. Qed.

Lemma image_to_app s ty n1 d1 z1 n2 d2 z2 :
  image_to (image_to s ty n1 d1 z1) ty n2 d2 z2 = image_to s ty (n1 + n2) (d1 ++ d2) z2.
Proof.
  unfold image_to. destruct s as [st0 cty crc rem raw cap inf inf0 sq hi ri rf hic op bud]. cbn.
  rewrite crc_update_app. replace (rem - Z.of_nat n1 - Z.of_nat n2) with (rem - Z.of_nat (n1 + n2)) by lia. reflexivity.
Qed.

Lemma firstn_app_exact {A} (a b : list A) n : firstn (length a + n) (a ++ b) = a ++ firstn n b.
Proof. induction a as [|x a IH]; cbn; [reflexivity | rewrite IH; reflexivity]. Qed.

Lemma firstn_app_short {A} (a b : list A) n : (n <= length a)%nat -> firstn n (a ++ b) = firstn n a.
Proof. revert a. induction n as [|n IH]; intros [|x a] H; cbn in *; try reflexivity; try lia. rewrite IH by lia. reflexivity. Qed.

Lemma zlen_app {A} (a b : list A) : zlen (a ++ b) = zlen a + zlen b.
Proof. unfold zlen. rewrite app_length. lia. Qed.

Lemma zlen_pos {A} (a : list A) : a <> [] -> 1 <= zlen a.
Proof. unfold zlen. destruct a; [congruence | cbn [length]; lia]. Qed.

(* the result of the transition on p ++ q in terms of the transition on p (and, when the consumed item straddles the cut, on q) *)
Definition ext_spec (s : dstate) (p q : list Z) : Prop :=
  match next_state s p with
  | (s', Ok (n, e, a)) =>
    (next_state s (p ++ q) = (s', Ok (n, e, a)) /\ (n <= length p)%nat)
    \/ (n = length p /\ (e = ENothing \/ e = EImageData) /\ st s' <> None /\
        match next_state s' q with
        | (s'', Ok (n2, e2, a2)) => next_state s (p ++ q) = (s'', Ok ((length p + n2)%nat, e2, a ++ a2))
        | (s'', Err er) => exists s3, next_state s (p ++ q) = (s3, Err er) /\ info s3 = info s''
        | (s'', Panic k) => exists s3, next_state s (p ++ q) = (s3, Panic k)
        end)
  | (s', Err er) => exists s3, next_state s (p ++ q) = (s3, Err er) /\ info s3 = info s'
  | (s', Panic k) => exists s3, next_state s (p ++ q) = (s3, Panic k)
  end.

Lemma ext_same s p q : next_state s (p ++ q) = next_state s p ->
  (forall s' n e a, next_state s p = (s', Ok (n, e, a)) -> (n <= length p)%nat) -> ext_spec s p q.
Proof.
  intros H Hn. unfold ext_spec. rewrite H. destruct (next_state s p) as [s' [[[n e] a]|er|k]] eqn:E.
  - left. split; [reflexivity | eapply Hn; reflexivity].
  - exists s'. split; reflexivity.
  - exists s'. reflexivity.
Qed.

Lemma ext_u32 s kind acc p q :
  st s = Some (SU32 kind acc) -> (length acc <= 4)%nat -> p <> [] -> q <> [] -> ext_spec s p q.
Proof.
  intros H Hl Hp Hq.
  assert (Hpq : p ++ q <> []) by (destruct p; [congruence | discriminate]).
  destruct (Nat.le_gt_cases 4 (length acc + length p)) as [Hc|Hc].
  - (* the field is complete inside p *)
    apply ext_same.
    + rewrite (ns_u32 s kind acc (p ++ q) H Hpq), (ns_u32 s kind acc p H Hp). cbv zeta.
      rewrite (app_length p q).
      replace (Nat.min (4 - length acc) (length p + length q)) with (4 - length acc)%nat by lia.
      replace (Nat.min (4 - length acc) (length p)) with (4 - length acc)%nat by lia.
      rewrite firstn_app_short by lia. reflexivity.
    + intros s' n e a. rewrite (ns_u32 s kind acc p H Hp). cbv zeta.
      replace (Nat.min (4 - length acc) (length p)) with (4 - length acc)%nat by lia.
      destruct (length (acc ++ firstn (4 - length acc) p) <? 4)%nat.
      * okq.
      * unfold wrap. destruct (parse_u32 s kind _) as [s1 [[e1 a1]|er|k]]; okq.
  - (* p is swallowed by the accumulator *)
    unfold ext_spec.
    rewrite (ns_u32 s kind acc p H Hp). cbv zeta.
    replace (Nat.min (4 - length acc) (length p)) with (length p) by lia.
    rewrite firstn_all.
    assert (L : (length (acc ++ p) <? 4)%nat = true) by (apply Nat.ltb_lt; rewrite app_length; lia).
    rewrite L. right. split; [reflexivity|]. split; [left; reflexivity|]. split; [cbn; discriminate|].
    set (s1 := s <| st := Some (SU32 kind (acc ++ p)) |>).
    assert (H1 : st s1 = Some (SU32 kind (acc ++ p))) by reflexivity.
    rewrite (ns_u32 s1 kind (acc ++ p) q H1 Hq), (ns_u32 s kind acc (p ++ q) H Hpq). cbv zeta.
    rewrite (app_length p q), (app_length acc p).
    set (k2 := Nat.min (4 - (length acc + length p)) (length q)).
    replace (Nat.min (4 - length acc) (length p + length q)) with (length p + k2)%nat by (unfold k2; lia).
    rewrite firstn_app_exact, app_assoc.
    destruct (length ((acc ++ p) ++ firstn k2 q) <? 4)%nat.
    + unfold s1. rewrite upd_st_twice. reflexivity.
    + unfold s1. rewrite (parse_u32_st_irrelevant zinf). unfold wrap.
      destruct (parse_u32 s kind ((acc ++ p) ++ firstn k2 q)) as [s2 [[e2 a2]|er|k]].
      * reflexivity.
      * exists s2. split; reflexivity.
      * exists s2. reflexivity.
Qed.

Lemma ext_read s ty p q :
  st s = Some (SRead ty) -> 0 <= c_remaining s -> p <> [] -> q <> [] -> ext_spec s p q.
Proof.
  intros H Hr Hp Hq.
  pose proof (zlen_pos p Hp) as Lp. pose proof (zlen_pos q Hq) as Lq.
  destruct (c_remaining s =? 0) eqn:E0.
  { apply ext_same; [apply (ns_read_idle s ty _ _ H); left; exact E0|].
    intros s' n e a. unfold Stream.next_state. rewrite H, E0. okq. }
  destruct (c_cap s - zlen (c_raw s) <=? 0) eqn:E1.
  { apply ext_same; [apply (ns_read_idle s ty _ _ H); right; exact E1|].
    intros s' n e a. unfold Stream.next_state. rewrite H, E0, E1. okq. }
  set (m := Z.min (c_remaining s) (c_cap s - zlen (c_raw s))).
  destruct (Z.le_gt_cases m (zlen p)) as [Hc|Hc].
  - (* the piece that fits ends inside p *)
    assert (En : read_n s (p ++ q) = read_n s p) by (unfold read_n; rewrite zlen_app; unfold m in Hc; lia).
    assert (Ln : (read_n s p <= length p)%nat) by (unfold read_n, zlen in *; lia).
    apply ext_same.
    + rewrite (ns_read s ty (p ++ q) H E0 E1), (ns_read s ty p H E0 E1), En, firstn_app_short by exact Ln. reflexivity.
    + intros s' n e a. rewrite (ns_read s ty p H E0 E1). okq.
  - (* all of p goes into the chunk buffer, and there is room for more *)
    assert (En : read_n s p = length p) by (unfold read_n, zlen in *; unfold m in Hc; lia).
    unfold ext_spec. rewrite (ns_read s ty p H E0 E1), En, firstn_all.
    right. split; [reflexivity|]. split; [left; reflexivity|]. split; [unfold read_to; cbn; discriminate|].
    set (s1 := read_to s ty (length p) p).
    assert (R1 : c_remaining s1 = c_remaining s - zlen p) by (unfold s1, read_to, zlen; destruct s; cbn; destruct (o_ignore_crc opts); reflexivity).
    assert (C1 : c_cap s1 = c_cap s) by (unfold s1, read_to; destruct s; cbn; destruct (o_ignore_crc opts); reflexivity).
    assert (W1 : c_raw s1 = c_raw s ++ p) by (unfold s1, read_to; destruct s; cbn; destruct (o_ignore_crc opts); reflexivity).
    assert (H1 : st s1 = Some (SRead ty)).
    { unfold s1, read_to. cbv zeta.
      replace (c_remaining ((if o_ignore_crc (opts s) then s else s <| c_crc := crc_update (c_crc s) p |>)
                 <| c_raw := c_raw (if o_ignore_crc (opts s) then s else s <| c_crc := crc_update (c_crc s) p |>) ++ p |>
                 <| c_remaining := c_remaining (if o_ignore_crc (opts s) then s else s <| c_crc := crc_update (c_crc s) p |>) - Z.of_nat (length p) |>))
        with (c_remaining s - zlen p) by (unfold zlen; destruct s; cbn; destruct (o_ignore_crc opts); reflexivity).
      assert (X : (c_remaining s - zlen p =? 0) = false) by (unfold m in Hc; lia). rewrite X. reflexivity. }
    assert (E0' : (c_remaining s1 =? 0) = false) by (rewrite R1; unfold m in Hc; lia).
    assert (E1' : (c_cap s1 - zlen (c_raw s1) <=? 0) = false) by (rewrite C1, W1, zlen_app; unfold m in Hc; lia).
    rewrite (ns_read s1 ty q H1 E0' E1'), (ns_read s ty (p ++ q) H E0 E1).
    assert (En2 : read_n s (p ++ q) = (length p + read_n s1 q)%nat).
    { unfold read_n. rewrite R1, C1, W1, !zlen_app. unfold m, zlen in *. lia. }
    rewrite En2, firstn_app_exact. unfold s1. rewrite read_to_app. reflexivity.
Qed.

Lemma ext_image s ty p q :
  zinf_contract -> zinv (infl s) ->
  st s = Some (SImage ty) -> 0 <= c_remaining s -> p <> [] -> q <> [] -> ext_spec s p q.
Proof.
  intros HC Hz H Hr Hp Hq.
  pose proof (zlen_pos p Hp) as Lp. pose proof (zlen_pos q Hq) as Lq.
  destruct (Z.le_gt_cases (c_remaining s) (zlen p)) as [Hc|Hc].
  - (* the rest of the chunk ends inside p *)
    assert (En : image_n s (p ++ q) = image_n s p) by (unfold image_n; rewrite zlen_app; lia).
    assert (Ln : (image_n s p <= length p)%nat) by (unfold image_n, zlen in *; lia).
    apply ext_same.
    + rewrite (ns_image s ty (p ++ q) H), (ns_image s ty p H), En, firstn_app_short by exact Ln. reflexivity.
    + intros s' n e a. rewrite (ns_image s ty p H).
      destruct (z_decompress (infl s) (firstn (image_n s p) p)) as [[z o]|er|k]; okq.
  - (* all of p is compressed data of this chunk, and the chunk goes on *)
    assert (En : image_n s p = length p) by (unfold image_n, zlen in *; lia).
    unfold ext_spec. rewrite (ns_image s ty p H), En, firstn_all.
    pose proof (z_decompress_app (infl s) p (firstn (image_n (image_to s ty (length p) p (infl s)) q) q) HC Hz) as A.
    assert (Nq : forall z1, image_n (image_to s ty (length p) p z1) q = Z.to_nat (Z.min (zlen q) (c_remaining s - zlen p))).
    { intro z1. unfold image_n, image_to, zlen. destruct s; reflexivity. }
    rewrite Nq in A.
    assert (En2 : image_n s (p ++ q) = (length p + Z.to_nat (Z.min (zlen q) (c_remaining s - zlen p)))%nat).
    { unfold image_n. rewrite zlen_app. unfold zlen in *. lia. }
    destruct (z_decompress (infl s) p) as [[z1 o1]|er|k] eqn:D1.
    + right. split; [reflexivity|]. split; [right; reflexivity|]. split; [unfold image_to; cbn; discriminate|].
      set (s1 := image_to s ty (length p) p z1).
      assert (H1 : st s1 = Some (SImage ty)).
      { unfold s1, image_to. cbv zeta.
        replace (c_remaining (s <| infl := z1 |> <| c_crc := crc_update (c_crc s) p |> <| c_remaining := c_remaining s - Z.of_nat (length p) |>))
          with (c_remaining s - zlen p) by (unfold zlen; destruct s; reflexivity).
        assert (X : (c_remaining s - zlen p =? 0) = false) by lia. rewrite X. reflexivity. }
      assert (I1 : infl s1 = z1) by (unfold s1, image_to; destruct s; reflexivity).
      rewrite (ns_image s1 ty q H1), (ns_image s ty (p ++ q) H). unfold s1 at 1 2 3. rewrite Nq. fold s1. rewrite I1, En2, firstn_app_exact.
      set (n2 := Z.to_nat (Z.min (zlen q) (c_remaining s - zlen p))) in *.
      destruct (z_decompress z1 (firstn n2 q)) as [[z2 o2]|er|k] eqn:D2; rewrite A.
      * unfold s1. rewrite image_to_app. reflexivity.
      * exists (s <| st := None |>). split; [reflexivity | unfold s1, image_to; destruct s; reflexivity].
      * exists (s <| st := None |>). reflexivity.
    + (* corrupt inside p: also corrupt with more input *)
      pose proof (z_decompress_app (infl s) p (firstn (Z.to_nat (Z.min (zlen q) (c_remaining s - zlen p))) q) HC Hz) as A'.
      rewrite D1 in A'.
      exists (s <| st := None |>). rewrite (ns_image s ty (p ++ q) H), En2, firstn_app_exact, A'. split; reflexivity.
    + pose proof (z_decompress_app (infl s) p (firstn (Z.to_nat (Z.min (zlen q) (c_remaining s - zlen p))) q) HC Hz) as A'.
      rewrite D1 in A'.
      exists (s <| st := None |>). rewrite (ns_image s ty (p ++ q) H), En2, firstn_app_exact, A'. reflexivity.
Qed.

Lemma ns_le s p s' n e a : p <> [] -> next_state s p = (s', Ok (n, e, a)) -> (n <= length p)%nat.
Proof.
  intros Hp. destruct (st s) as [x|] eqn:Hst.
  - destruct x as [kind acc|ty|ty|ty].
    + rewrite (ns_u32 s kind acc p Hst Hp). cbv zeta.
      destruct (length (acc ++ firstn (Nat.min (4 - length acc) (length p)) p) <? 4)%nat.
      * okq.
      * unfold wrap. destruct (parse_u32 s kind _) as [s1 [[e1 a1]|er|k]]; okq.
    + unfold Stream.next_state. rewrite Hst.
      destruct (c_remaining s =? 0); [okq|].
      destruct (c_cap s - zlen (c_raw s) <=? 0); [okq|]. okq.
    + unfold Stream.next_state. rewrite Hst. destruct (c_remaining s =? 0).
      * destruct (parse_chunk s ty) as [s1 [e1|er|k]]; okq.
      * destruct (reserve_current_chunk s) as [s1|er|k]; okq.
    + rewrite (ns_image s ty p Hst). destruct (z_decompress (infl s) _) as [[z o]|er|k]; okq. unfold image_n, zlen. lia.
  - unfold Stream.next_state. rewrite Hst. okq.
Qed.

(* THE TRANSITION THEOREM *)
Theorem step_ext s p q : zinf_contract -> good s -> p <> [] -> ext_spec s p q.
Proof.
  intros HC [Hw Hz] Hp.
  destruct q as [|q0 q'] eqn:Eq.
  { apply ext_same; [rewrite app_nil_r; reflexivity|]. intros s' n e a Q. exact (ns_le s p s' n e a Hp Q). }
  rewrite <- Eq. assert (Hq : q <> []) by (rewrite Eq; discriminate). clear Eq q0 q'.
  destruct (st s) as [x|] eqn:Hst.
  - unfold wf' in Hw. rewrite Hst in Hw. destruct Hw as [Hr Hx].
    destruct x as [kind acc|ty|ty|ty].
    + destruct Hx as (_ & Hl & _). exact (ext_u32 s kind acc p q Hst Hl Hp Hq).
    + exact (ext_read s ty p q Hst Hr Hp Hq).
    + apply ext_same; [apply (zero_byte_steps_ignore_buffer zinf zall utf8_valid s ty); exact Hst|].
      intros s' n e a Q. exact (ns_le s p s' n e a Hp Q).
    + exact (ext_image s ty p q HC Hz Hst Hr Hp Hq).
  - apply ext_same; [unfold Stream.next_state; rewrite Hst; reflexivity|].
    intros s' n e a Q. exact (ns_le s p s' n e a Hp Q).
Qed.

(* ------------------------------------------------------------------ the invariant is kept by every transition *)
Ltac destr_matches :=
  repeat match goal with
         | |- context [match ?x with _ => _ end] => destruct x eqn:?
         | |- context [if ?x then _ else _] => destruct x eqn:?
         end.
Ltac reserve_subst :=
  repeat match goal with H : reserve _ _ = Ok _ |- _ => apply reserve_ok in H; subst end.
Ltac parser_z f :=
  intros s Hz; unfold f, upd_info, anc_set, add_text, obind; destr_matches; reserve_subst; cbn; auto using zinv_zreset.

Lemma zk_ihdr s : zinv (infl s) -> zinv (infl (fst (parse_ihdr_full s))).
Proof.
  intros Hz. unfold parse_ihdr_full.
  assert (F : fst (parse_ihdr s) = s) by (unfold parse_ihdr; destruct (info s); reflexivity).
  destruct (parse_ihdr s) as [s1 r]. cbn [fst] in F. subst s1.
  destruct r as [e| |]; [destruct e|..]; cbn [fst]; try exact Hz; destruct s; exact Hz.
Qed.
Lemma zk_sbit s : zinv (infl s) -> zinv (infl (fst (parse_sbit s))). Proof. revert s. parser_z parse_sbit. Qed.
Lemma zk_plte s : zinv (infl s) -> zinv (infl (fst (parse_plte s))). Proof. revert s. parser_z parse_plte. Qed.
Lemma zk_trns s : zinv (infl s) -> zinv (infl (fst (parse_trns s))). Proof. revert s. parser_z parse_trns. Qed.
Lemma zk_phys s : zinv (infl s) -> zinv (infl (fst (parse_phys s))). Proof. revert s. parser_z parse_phys. Qed.
Lemma zk_gama s : zinv (infl s) -> zinv (infl (fst (parse_gama s))). Proof. revert s. parser_z parse_gama. Qed.
Lemma zk_actl s : zinv (infl s) -> zinv (infl (fst (parse_actl s))). Proof. revert s. parser_z parse_actl. Qed.
Lemma zk_chrm s : zinv (infl s) -> zinv (infl (fst (parse_chrm s))). Proof. revert s. parser_z parse_chrm. Qed.
Lemma zk_srgb s : zinv (infl s) -> zinv (infl (fst (parse_srgb s))). Proof. revert s. parser_z parse_srgb. Qed.
Lemma zk_cicp s : zinv (infl s) -> zinv (infl (fst (parse_cicp s))). Proof. revert s. parser_z parse_cicp. Qed.
Lemma zk_mdcv s : zinv (infl s) -> zinv (infl (fst (parse_mdcv s))). Proof. revert s. parser_z parse_mdcv. Qed.
Lemma zk_clli s : zinv (infl s) -> zinv (infl (fst (parse_clli s))). Proof. revert s. parser_z parse_clli. Qed.
Lemma zk_exif s : zinv (infl s) -> zinv (infl (fst (parse_exif s))). Proof. revert s. parser_z parse_exif. Qed.
Lemma zk_bkgd s : zinv (infl s) -> zinv (infl (fst (parse_bkgd s))). Proof. revert s. parser_z parse_bkgd. Qed.
Lemma zk_text s : zinv (infl s) -> zinv (infl (fst (parse_text s))). Proof. revert s. parser_z parse_text. Qed.
Lemma zk_ztxt s : zinv (infl s) -> zinv (infl (fst (parse_ztxt s))). Proof. revert s. parser_z parse_ztxt. Qed.
Lemma zk_itxt s : zinv (infl s) -> zinv (infl (fst (parse_itxt utf8_valid s))). Proof. revert s. parser_z parse_itxt. Qed.
Lemma zk_fctl s : zinv (infl s) -> zinv (infl (fst (parse_fctl s))).
Proof. revert s. intros s Hz; unfold parse_fctl, upd_info, obind. destruct (rd32 (c_raw s)) as [[n b]| |]; cbn; auto.
  destruct (negb _); cbn; auto. destr_matches; cbn; auto using zinv_zreset. Qed.
Lemma zk_iccp s : zinv (infl s) -> zinv (infl (fst (parse_iccp zall s))).
Proof. revert s. intros s Hz; unfold parse_iccp, parse_iccp_raw, upd_info, anc_set. destr_matches; cbn; auto. Qed.

Lemma zk_parse_chunk s ty : zinv (infl s) -> zinv (infl (fst (parse_chunk s ty))).
Proof.
  intro Hz. unfold Stream.parse_chunk.
  set (s0 := s <| st := Some (SU32 (KCrc ty) []) |>).
  assert (Hz0 : zinv (infl s0)) by (unfold s0; destruct s; exact Hz).
  assert (F : forall p : pres, zinv (infl (fst p)) ->
     zinv (infl (fst (let '(s1, r) := p in
        let r := match r with Err EIoEof => Err (EFormat FChunkTooShort) | r => r end in
        let r := match r with Err (EFormat _) => if is_benign ty then Ok ENothing else r | r => r end in
        match r with Ok e => (s1, Ok e) | _ => (s1 <| st := None |>, r) end)))).
  { intros [s1 r] H1. cbn [fst] in H1.
    generalize (is_benign ty) as bn; intro bn.
    destruct r as [e|e|p]; [| destruct e as [| f | | | |] |]; try destruct bn; cbn [fst]; try exact H1; destruct s1; exact H1. }
  repeat match goal with
         | |- context [if ?c then ?a else ?b] =>
           match a with
           | context [s0] => destruct c
           end
         end;
  first [ exact (F (s0, Ok (EPartialChunk ty)) Hz0) | apply F ];
  first [ apply zk_ihdr | apply zk_sbit | apply zk_plte | apply zk_trns | apply zk_phys | apply zk_gama
        | apply zk_actl | apply zk_fctl | apply zk_chrm | apply zk_srgb | apply zk_cicp | apply zk_mdcv
        | apply zk_clli | apply zk_exif | apply zk_bkgd | apply zk_iccp | apply zk_text | apply zk_ztxt
        | apply zk_itxt | exact Hz0 ]; exact Hz0.
Qed.

Lemma zk_parse_u32 s kind bytes : zinv (infl s) -> zinv (infl (fst (parse_u32 s kind bytes))).
Proof.
  intro Hz. unfold Stream.parse_u32, goto, poison. destruct kind as [ | | | len | ty | ].
  all: destr_matches; cbn; auto using zinv_zreset.
Qed.

Lemma good_step s buf s' n e a :
  zinf_contract -> good s -> bytes_ok buf -> buf <> [] -> next_state s buf = (s', Ok (n, e, a)) -> good s'.
Proof.
  intros HC [Hw Hz] Hb Hne Q. split.
  - destruct (st s) as [x|] eqn:Hst.
    + pose proof (next_state_post zinf zall utf8_valid s x buf Hw Hb Hne Hst) as P. rewrite Q in P. cbn [fst snd ns_post] in P. tauto.
    + unfold Stream.next_state in Q. rewrite Hst in Q. discriminate Q.
  - destruct (st s) as [x|] eqn:Hst; [|unfold Stream.next_state in Q; rewrite Hst in Q; discriminate Q].
    destruct x as [kind acc|ty|ty|ty].
    + rewrite (ns_u32 s kind acc buf Hst Hne) in Q. cbv zeta in Q.
      destruct (length (acc ++ firstn (Nat.min (4 - length acc) (length buf)) buf) <? 4)%nat.
      * assert (E : s' = s <| st := Some (SU32 kind (acc ++ firstn (Nat.min (4 - length acc) (length buf)) buf)) |>) by congruence.
        rewrite E. destruct s; exact Hz.
      * pose proof (zk_parse_u32 s kind (acc ++ firstn (Nat.min (4 - length acc) (length buf)) buf) Hz) as K.
        unfold wrap in Q. destruct (parse_u32 s kind _) as [s1 [[e1 a1]|er|k]]; try discriminate Q.
        assert (E : s' = s1) by congruence. rewrite E. exact K.
    + unfold Stream.next_state in Q. rewrite Hst in Q.
      destruct (c_remaining s =? 0); [assert (E : s' = s <| st := Some (SU32 (KCrc ty) []) |>) by congruence; rewrite E; destruct s; exact Hz|].
      destruct (c_cap s - zlen (c_raw s) <=? 0); [assert (E : s' = s <| st := Some (SParse ty) |>) by congruence; rewrite E; destruct s; exact Hz|].
      cbv zeta in Q. injection Q as Q _ _ _. rewrite <- Q. destruct s; cbn in *. destruct (o_ignore_crc opts); exact Hz.
    + unfold Stream.next_state in Q. rewrite Hst in Q. destruct (c_remaining s =? 0).
      * pose proof (zk_parse_chunk s ty Hz) as K. destruct (parse_chunk s ty) as [s1 [e1|er|k]]; try discriminate Q.
        assert (E : s' = s1) by congruence. rewrite E. exact K.
      * destruct (reserve_current_chunk s) as [s1|er|k] eqn:R; try discriminate Q.
        assert (E : s' = s1 <| st := Some (SRead ty) |>) by congruence. rewrite E.
        unfold reserve_current_chunk in R. destruct (reserve s _) as [s2| |] eqn:R2; try discriminate R.
        apply reserve_ok in R2. subst s2. destruct (_ =? _); try discriminate R. injection R as <-. destruct s; exact Hz.
    + rewrite (ns_image s ty buf Hst) in Q.
      destruct (z_decompress (infl s) (firstn (image_n s buf) buf)) as [[z o]|er|k] eqn:D; try discriminate Q.
      pose proof (z_decompress_inv (infl s) _ z o HC Hz D) as K.
      assert (E : s' = image_to s ty (image_n s buf) (firstn (image_n s buf) buf) z) by congruence.
      rewrite E. unfold image_to. destruct s; exact K.
Qed.

(* ------------------------------------------------------------------ runs of transitions over one buffer, and what is observed of them *)
Inductive mend :=
| MMore (s : dstate)                        (* the buffer is used up *)
| MImageEnd (s : dstate) (left : list Z)    (* IEND verified; bytes of the buffer that were not looked at *)
| MErr (e : derr) (s : dstate)
| MPanic (k : nat).

Inductive Micro : dstate -> list Z -> list (event * list Z) -> mend -> Prop :=
| Mi_nil s : Micro s [] [] (MMore s)
| Mi_dead s buf : buf <> [] -> st s = None -> Micro s buf [] (MErr EParamPolledAfterFatal s)
| Mi_step s buf s' n e a tr r :
    buf <> [] -> st s <> None -> next_state s buf = (s', Ok (n, e, a)) -> e <> EImageEnd ->
    Micro s' (skipn n buf) tr r -> Micro s buf ((e, a) :: tr) r
| Mi_end s buf s' n a :
    buf <> [] -> st s <> None -> next_state s buf = (s', Ok (n, EImageEnd, a)) ->
    Micro s buf [(EImageEnd, a)] (MImageEnd s' (skipn n buf))
| Mi_err s buf s' er : buf <> [] -> st s <> None -> next_state s buf = (s', Err er) -> Micro s buf [] (MErr er s')
| Mi_panic s buf s' k : buf <> [] -> st s <> None -> next_state s buf = (s', Panic k) -> Micro s buf [] (MPanic k).

(* observed: every event other than Nothing / ImageData (how many of those there are, and how the image bytes are spread over them,
   depends on the delivery by design); with each ImageDataFlushed all image bytes since the previous one; what the run ended in -
   the complete state when it ended without an error, the error and the metadata collected so far otherwise *)
Inductive oitem := OE (e : event) | OF (data : list Z).
Fixpoint obs_go (pend : list Z) (tr : list (event * list Z)) : list oitem :=
  match tr with
  | [] => []
  | (e, a) :: tr' =>
    match e with
    | ENothing | EImageData => obs_go (pend ++ a) tr'
    | EImageDataFlushed => OF (pend ++ a) :: obs_go [] tr'
    | _ => OE e :: obs_go (pend ++ a) tr'
    end
  end.
Inductive oend := OEof (s : dstate) | OImageEnd (s : dstate) | OErr (e : derr) (i : option info_t) | OPanic (k : nat).
Definition obs_end (r : mend) : oend :=
  match r with MMore s => OEof s | MImageEnd s _ => OImageEnd s | MErr e s => OErr e (info s) | MPanic k => OPanic k end.

Definition same_obs (t1 t2 : list (event * list Z)) : Prop := forall pend, obs_go pend t1 = obs_go pend t2.

Lemma same_obs_refl t : same_obs t t. Proof. intro; reflexivity. Qed.
Lemma same_obs_trans a b c : same_obs a b -> same_obs b c -> same_obs a c.
Proof. intros H1 H2 pend. rewrite H1. apply H2. Qed.
Lemma same_obs_sym a b : same_obs a b -> same_obs b a.
Proof. intros H pend. symmetry. apply H. Qed.
Lemma same_obs_cons x t1 t2 : same_obs t1 t2 -> same_obs (x :: t1) (x :: t2).
Proof. intros H pend. destruct x as [e a]. cbn [obs_go]. destruct e; rewrite ?H; reflexivity. Qed.
Lemma same_obs_app t t1 t2 : same_obs t1 t2 -> same_obs (t ++ t1) (t ++ t2).
Proof. intro H. induction t as [|x t IH]; [exact H | cbn [app]; apply same_obs_cons; exact IH]. Qed.

(* a silent or data transition in front of a transition is the same as the transition with the image bytes joined *)
Lemma obs_merge e a e2 a2 t : e = ENothing \/ e = EImageData -> same_obs ((e, a) :: (e2, a2) :: t) ((e2, a ++ a2) :: t).
Proof. intros [->| ->] pend; cbn [obs_go]; rewrite <- app_assoc; reflexivity. Qed.
Lemma obs_drop e a : e = ENothing \/ e = EImageData -> same_obs [(e, a)] [].
Proof. intros [->| ->] pend; reflexivity. Qed.

Lemma skipn_app_ge {A} (a b : list A) n : skipn (length a + n) (a ++ b) = skipn n b.
Proof. induction a as [|x a IH]; cbn; [reflexivity | exact IH]. Qed.

Lemma micro_nil_inv s t r : Micro s [] t r -> t = [] /\ r = MMore s.
Proof. intro M. inversion M; subst; try congruence. split; reflexivity. Qed.

(* THE RUN THEOREM: a run over p followed by a run over q is, for the observer, the run over p ++ q *)
Theorem micro_cut : zinf_contract ->
  forall s p t1 r1, Micro s p t1 r1 -> good s -> bytes_ok p -> forall q, bytes_ok q ->
  match r1 with
  | MMore s1 => forall t2 r2, Micro s1 q t2 r2 ->
                exists t r, Micro s (p ++ q) t r /\ obs_end r = obs_end r2 /\ same_obs t (t1 ++ t2)
  | _ => exists t r, Micro s (p ++ q) t r /\ obs_end r = obs_end r1 /\ same_obs t t1
  end.
Proof.
  intro HC. induction 1 as [s | s buf Hb Hd | s buf s' n e a tr r Hb Hl Q He M IH | s buf s' n a Hb Hl Q | s buf s' er Hb Hl Q | s buf s' k Hb Hl Q];
    intros Hg Hbo q Hq.
  - (* nothing left of p *)
    intros t2 r2 M2. exists t2, r2. split; [exact M2|]. split; [reflexivity | apply same_obs_refl].
  - (* poisoned before *)
    assert (Hpq : buf ++ q <> []) by (destruct buf; [congruence | discriminate]).
    exists [], (MErr EParamPolledAfterFatal s). split; [apply Mi_dead; assumption|]. split; [reflexivity | apply same_obs_refl].
  - (* a transition that goes on *)
    assert (Hpq : buf ++ q <> []) by (destruct buf; [congruence | discriminate]).
    pose proof (step_ext s buf q HC Hg Hb) as X. unfold ext_spec in X. rewrite Q in X.
    pose proof (good_step s buf s' n e a HC Hg Hbo Hb Q) as Hg'.
    destruct X as [[Qw Hn] | (Hn & Hev & Hlive & X)].
    + (* the same transition on the longer buffer *)
      assert (Hbo' : bytes_ok (skipn n buf)) by (apply bytes_ok_skipn; exact Hbo).
      specialize (IH Hg' Hbo' q Hq).
      assert (Sk : skipn n (buf ++ q) = skipn n buf ++ q) by (apply skipn_app_le; exact Hn).
      destruct r as [s1 | s1 lf | er s1 | k].
      * intros t2 r2 M2. destruct (IH t2 r2 M2) as (t & r & Mw & Oe & Os).
        exists ((e, a) :: t), r. split; [eapply Mi_step; try eassumption; rewrite Sk; exact Mw|].
        split; [exact Oe | cbn [app]; apply same_obs_cons; exact Os].
      * destruct IH as (t & r & Mw & Oe & Os).
        exists ((e, a) :: t), r. split; [eapply Mi_step; try eassumption; rewrite Sk; exact Mw|].
        split; [exact Oe | apply same_obs_cons; exact Os].
      * destruct IH as (t & r & Mw & Oe & Os).
        exists ((e, a) :: t), r. split; [eapply Mi_step; try eassumption; rewrite Sk; exact Mw|].
        split; [exact Oe | apply same_obs_cons; exact Os].
      * destruct IH as (t & r & Mw & Oe & Os).
        exists ((e, a) :: t), r. split; [eapply Mi_step; try eassumption; rewrite Sk; exact Mw|].
        split; [exact Oe | apply same_obs_cons; exact Os].
    + (* the item straddles the cut: p is used up, the transition on q finishes the item *)
      subst n. rewrite skipn_all in M. destruct (micro_nil_inv _ _ _ M) as [-> ->].
      intros t2 r2 M2.
      destruct q as [|q0 q'] eqn:Eq.
      { (* nothing follows *)
        destruct (micro_nil_inv _ _ _ M2) as [-> ->]. rewrite app_nil_r.
        exists [(e, a)], (MMore s'). split; [|split; [reflexivity | apply same_obs_refl]].
        eapply Mi_step; try eassumption. rewrite skipn_all. apply Mi_nil. }
      rewrite <- Eq in *. assert (Hqn : q <> []) by (rewrite Eq; discriminate). clear Eq q0 q'.
      inversion M2 as [ | ? ? Hb2 Hd2 | ? ? s'' n2 e2 a2 tr2 r2' Hb2 Hl2 Q2 He2 M2' | ? ? s'' n2 a2 Hb2 Hl2 Q2 | ? ? s'' er2 Hb2 Hl2 Q2 | ? ? s'' k2 Hb2 Hl2 Q2]; subst; try congruence.
      * rewrite Q2 in X.
        exists ((e2, a ++ a2) :: tr2), r2. split.
        -- eapply Mi_step; try eassumption. rewrite skipn_app_ge. exact M2'.
        -- split; [reflexivity|]. cbn [app]. apply same_obs_sym. apply obs_merge. exact Hev.
      * rewrite Q2 in X.
        exists [(EImageEnd, a ++ a2)], (MImageEnd s'' (skipn (length buf + n2) (buf ++ q))). split.
        -- eapply Mi_end; try eassumption.
        -- split; [reflexivity|]. cbn [app]. apply same_obs_sym. apply obs_merge. exact Hev.
      * rewrite Q2 in X. destruct X as (s3 & Qw & Hi).
        exists [], (MErr er2 s3). split; [eapply Mi_err; eassumption|].
        split; [cbn [obs_end]; rewrite Hi; reflexivity|]. cbn [app]. apply same_obs_sym. apply obs_drop. exact Hev.
      * rewrite Q2 in X. destruct X as (s3 & Qw).
        exists [], (MPanic k2). split; [eapply Mi_panic; eassumption|].
        split; [reflexivity|]. cbn [app]. apply same_obs_sym. apply obs_drop. exact Hev.
  - (* IEND inside p *)
    assert (Hpq : buf ++ q <> []) by (destruct buf; [congruence | discriminate]).
    pose proof (step_ext s buf q HC Hg Hb) as X. unfold ext_spec in X. rewrite Q in X.
    destruct X as [[Qw Hn] | (Hn & [Hev|Hev] & _)]; try discriminate Hev.
    exists [(EImageEnd, a)], (MImageEnd s' (skipn n (buf ++ q))). split; [eapply Mi_end; eassumption|].
    split; [reflexivity | apply same_obs_refl].
  - (* an error inside p *)
    assert (Hpq : buf ++ q <> []) by (destruct buf; [congruence | discriminate]).
    pose proof (step_ext s buf q HC Hg Hb) as X. unfold ext_spec in X. rewrite Q in X.
    destruct X as (s3 & Qw & Hi).
    exists [], (MErr er s3). split; [eapply Mi_err; eassumption|].
    split; [cbn [obs_end]; rewrite Hi; reflexivity | apply same_obs_refl].
  - assert (Hpq : buf ++ q <> []) by (destruct buf; [congruence | discriminate]).
    pose proof (step_ext s buf q HC Hg Hb) as X. unfold ext_spec in X. rewrite Q in X.
    destruct X as (s3 & Qw).
    exists [], (MPanic k). split; [eapply Mi_panic; eassumption|].
    split; [reflexivity | apply same_obs_refl].
Qed.

(* ------------------------------------------------------------------ lists of pieces *)
Inductive MicroPieces : dstate -> list (list Z) -> list (event * list Z) -> mend -> Prop :=
| MP_nil s : MicroPieces s [] [] (MMore s)
| MP_more s p ps t1 s1 t2 r : Micro s p t1 (MMore s1) -> MicroPieces s1 ps t2 r -> MicroPieces s (p :: ps) (t1 ++ t2) r
| MP_stop s p ps t1 r : Micro s p t1 r -> (forall s1, r <> MMore s1) -> MicroPieces s (p :: ps) t1 r.

Lemma micro_good : zinf_contract -> forall s p t r, Micro s p t r -> good s -> bytes_ok p -> forall s1, r = MMore s1 -> good s1.
Proof.
  intro HC. induction 1 as [s | s buf Hb Hd | s buf s' n e a tr r Hb Hl Q He M IH | s buf s' n a Hb Hl Q | s buf s' er Hb Hl Q | s buf s' k Hb Hl Q];
    intros Hg Hbo s1 E; try discriminate E.
  - injection E as <-. exact Hg.
  - apply IH; [eapply good_step; eassumption | apply bytes_ok_skipn; exact Hbo | exact E].
Qed.

Lemma bytes_ok_concat ps : Forall bytes_ok ps -> bytes_ok (concat ps).
Proof. induction 1 as [|p ps Hp _ IH]; cbn; [constructor | apply bytes_ok_app; assumption]. Qed.

Theorem pieces_whole : zinf_contract ->
  forall s ps t r, MicroPieces s ps t r -> good s -> Forall bytes_ok ps ->
  exists t' r', Micro s (concat ps) t' r' /\ obs_end r' = obs_end r /\ same_obs t' t.
Proof.
  intro HC. induction 1 as [s | s p ps t1 s1 t2 r M MP IH | s p ps t1 r M Hr]; intros Hg Hf.
  - exists [], (MMore s). split; [apply Mi_nil|]. split; [reflexivity | apply same_obs_refl].
  - inversion Hf as [|? ? Hp Hps]; subst.
    assert (Hg1 : good s1) by (eapply micro_good; try eassumption; reflexivity).
    destruct (IH Hg1 Hps) as (t2' & r2' & M2 & Oe2 & Os2).
    pose proof (micro_cut HC s p t1 (MMore s1) M Hg Hp (concat ps) (bytes_ok_concat ps Hps)) as C. cbn beta iota in C.
    destruct (C t2' r2' M2) as (t & r0 & Mw & Oe & Os).
    exists t, r0. cbn [concat]. split; [exact Mw|]. split; [congruence|].
    eapply same_obs_trans; [exact Os|]. apply same_obs_app. exact Os2.
  - inversion Hf as [|? ? Hp Hps]; subst.
    pose proof (micro_cut HC s p t1 r M Hg Hp (concat ps) (bytes_ok_concat ps Hps)) as C.
    destruct r as [s1 | s1 lf | er s1 | k]; [exfalso; eapply Hr; reflexivity | | |]; cbn [concat]; exact C.
Qed.

Lemma micro_det s buf t r : Micro s buf t r -> forall t' r', Micro s buf t' r' -> t = t' /\ r = r'.
Proof.
  induction 1 as [s | s buf Hb Hd | s buf s' n e a tr r Hb Hl Q He M IH | s buf s' n a Hb Hl Q | s buf s' er Hb Hl Q | s buf s' k Hb Hl Q];
    intros t' r' M'; inversion M'; subst; try congruence; try (split; reflexivity).
  all: match goal with H1 : next_state ?x ?y = _, H2 : next_state ?x ?y = _ |- _ => rewrite H1 in H2; inversion H2; subst; clear H2 end.
  all: try congruence; try (split; reflexivity).
  match goal with H : Micro _ (skipn _ _) _ _ |- _ => destruct (IH _ _ H) as [-> ->] end. split; reflexivity.
Qed.

(* THE DELIVERY THEOREM (runs of transitions): two ways of cutting the same bytes into pieces are observed alike *)
Theorem pieces_independent : zinf_contract ->
  forall s ps1 ps2 t1 r1 t2 r2, good s -> Forall bytes_ok ps1 -> Forall bytes_ok ps2 -> concat ps1 = concat ps2 ->
  MicroPieces s ps1 t1 r1 -> MicroPieces s ps2 t2 r2 ->
  obs_end r1 = obs_end r2 /\ same_obs t1 t2.
Proof.
  intros HC s ps1 ps2 t1 r1 t2 r2 Hg H1 H2 E M1 M2.
  destruct (pieces_whole HC s ps1 t1 r1 M1 Hg H1) as (u1 & q1 & W1 & O1 & S1).
  destruct (pieces_whole HC s ps2 t2 r2 M2 Hg H2) as (u2 & q2 & W2 & O2 & S2).
  rewrite E in W1. destruct (micro_det _ _ _ _ W1 _ _ W2) as [-> ->].
  split; [congruence|]. eapply same_obs_trans; [apply same_obs_sym; exact S1 | exact S2].
Qed.

(* ------------------------------------------------------------------ the fuelled driver of Model/StreamRun.v is such a run *)
Notation update_fuel := (update_fuel zinf zall utf8_valid).
Notation update := (update zinf zall utf8_valid).
Notation feed_piece := (feed_piece zinf zall utf8_valid).
Notation feed_go := (feed_go zinf zall utf8_valid).
Notation feed := (feed zinf zall utf8_valid).

(* the image bytes not yet flushed after a trace *)
Fixpoint pend_go (pend : list Z) (tr : list (event * list Z)) : list Z :=
  match tr with
  | [] => pend
  | (e, a) :: tr' => match e with EImageDataFlushed => pend_go [] tr' | _ => pend_go (pend ++ a) tr' end
  end.
(* alike for the observer AND for whatever is observed afterwards *)
Definition strong_obs (t1 t2 : list (event * list Z)) : Prop :=
  forall pend, obs_go pend t1 = obs_go pend t2 /\ pend_go pend t1 = pend_go pend t2.

Lemma obs_go_app pend t x : obs_go pend (t ++ x) = obs_go pend t ++ obs_go (pend_go pend t) x.
Proof. revert pend. induction t as [|[e a] t IH]; intro pend; [reflexivity|]. cbn [app obs_go pend_go]. destruct e; rewrite IH; reflexivity. Qed.
Lemma pend_go_app pend t x : pend_go pend (t ++ x) = pend_go (pend_go pend t) x.
Proof. revert pend. induction t as [|[e a] t IH]; intro pend; [reflexivity|]. cbn [app pend_go]. destruct e; rewrite IH; reflexivity. Qed.

Lemma strong_refl t : strong_obs t t. Proof. intro; split; reflexivity. Qed.
Lemma strong_sym a b : strong_obs a b -> strong_obs b a.
Proof. intros H pend. destruct (H pend) as [H1 H2]. split; symmetry; assumption. Qed.
Lemma strong_trans a b c : strong_obs a b -> strong_obs b c -> strong_obs a c.
Proof. intros H1 H2 pend. destruct (H1 pend) as [A1 A2]. destruct (H2 pend) as [B1 B2]. split; congruence. Qed.
Lemma strong_same a b : strong_obs a b -> same_obs a b.
Proof. intros H pend. apply H. Qed.
Lemma strong_silent t : strong_obs ((ENothing, []) :: t) t.
Proof. intro pend. cbn [obs_go pend_go]. rewrite app_nil_r. split; reflexivity. Qed.
Lemma strong_app t1 u1 x y : strong_obs t1 u1 -> strong_obs x y -> strong_obs (t1 ++ x) (u1 ++ y).
Proof.
  intros H1 H2 pend. destruct (H1 pend) as [A1 A2]. rewrite !obs_go_app, !pend_go_app, A1, A2.
  destruct (H2 (pend_go pend u1)) as [B1 B2]. rewrite B1, B2. split; reflexivity.
Qed.
Lemma strong_then t1 u1 x y : strong_obs t1 u1 -> same_obs x y -> same_obs (t1 ++ x) (u1 ++ y).
Proof. intros H1 H2 pend. destruct (H1 pend) as [A1 A2]. rewrite !obs_go_app, A1, A2, H2. reflexivity. Qed.

Lemma skipn_twice {A} (a b : nat) (l : list A) : skipn a (skipn b l) = skipn (b + a) l.
Proof. revert l; induction b as [|b IH]; intros l; cbn; [reflexivity|]. destruct l; [destruct a; reflexivity | apply IH]. Qed.

Definition upd_spec (s : dstate) (buf : list Z) (c : nat) (app : list Z) (s' : dstate) (res : ures) : Prop :=
  match res with
  | UOk n e a =>
    (c <= n)%nat /\ good s' /\ exists a0, a = app ++ a0 /\
      (e <> EImageEnd -> forall t r, Micro s' (skipn (n - c) buf) t r -> exists t0, Micro s buf t0 r /\ strong_obs t0 ((e, a0) :: t)) /\
      (e = EImageEnd -> exists t0 lf, Micro s buf t0 (MImageEnd s' lf) /\ strong_obs t0 [(e, a0)])
  | UErr er => exists t0, Micro s buf t0 (MErr er s') /\ strong_obs t0 []
  | UPanic k => exists t0, Micro s buf t0 (MPanic k) /\ strong_obs t0 []
  | UOutOfFuel => True
  end.

Lemma upd_direct s buf c app s1 k e a1 :
  zinf_contract -> good s -> bytes_ok buf -> buf <> [] -> st s <> None -> next_state s buf = (s1, Ok (k, e, a1)) ->
  upd_spec s buf c app s1 (UOk (c + k) e (app ++ a1)).
Proof.
  intros HC Hg Hb Hne Hl Q. unfold upd_spec. split; [lia|]. split; [eapply good_step; eassumption|].
  exists a1. split; [reflexivity|]. split.
  - intros He t r M. replace (c + k - c)%nat with k in M by lia.
    exists ((e, a1) :: t). split; [eapply Mi_step; eassumption | apply strong_refl].
  - intros ->. exists [(EImageEnd, a1)], (skipn k buf). split; [eapply Mi_end; eassumption | apply strong_refl].
Qed.

Lemma update_fuel_micro : zinf_contract -> forall fuel s buf c app s' res,
  update_fuel fuel s buf c app = (s', res) -> good s -> bytes_ok buf -> st s <> None -> upd_spec s buf c app s' res.
Proof.
  intro HC. induction fuel as [|fuel IH]; intros s buf c app s' res U Hg Hb Hl.
  - destruct buf as [|b0 buf0]; cbn in U; injection U as <- <-; [|exact I].
    unfold upd_spec. split; [lia|]. split; [exact Hg|]. exists []. split; [rewrite app_nil_r; reflexivity|]. split.
    + intros _ t r M. rewrite skipn_nil in M. exists t. split; [exact M | apply strong_sym, strong_silent].
    + intro Hc; discriminate Hc.
  - destruct buf as [|b0 buf0] eqn:Ebuf.
    { cbn in U. injection U as <- <-.
      unfold upd_spec. split; [lia|]. split; [exact Hg|]. exists []. split; [rewrite app_nil_r; reflexivity|]. split.
      + intros _ t r M. rewrite skipn_nil in M. exists t. split; [exact M | apply strong_sym, strong_silent].
      + intro Hc; discriminate Hc. }
    rewrite <- Ebuf in *. assert (Hne : buf <> []) by (rewrite Ebuf; discriminate).
    assert (E : update_fuel (S fuel) s buf c app =
              match next_state s buf with
              | (s1, Ok (n, ENothing, a)) => update_fuel fuel s1 (skipn n buf) (c + n)%nat (app ++ a)
              | (s1, Ok (n, e, a)) => (s1, UOk (c + n)%nat e (app ++ a))
              | (s1, Err e) => (s1, UErr e)
              | (s1, Panic p) => (s1, UPanic p)
              end) by (rewrite Ebuf; reflexivity).
    rewrite E in U. clear E.
    destruct (st s) as [x|] eqn:Hst; [|congruence].
    destruct Hg as [Hw Hz].
    pose proof (next_state_post zinf zall utf8_valid s x buf Hw Hb Hne Hst) as P.
    assert (Hg : good s) by (split; assumption).
    destruct (next_state s buf) as [s1 [[[k e] a1]|er|kk]] eqn:Q; cbn [fst snd ns_post] in P.
    + destruct e;
        try (injection U as <- <-; apply upd_direct; try assumption; congruence).
      (* a silent transition: the loop goes on *)
      destruct P as (Hw1 & Hk & HN). destruct (HN eq_refl) as (-> & x' & Hst1 & _).
      assert (Hg1 : good s1) by (eapply good_step; eassumption).
      assert (Hl1 : st s1 <> None) by congruence.
      pose proof (IH s1 (skipn k buf) (c + k)%nat (app ++ []) s' res U Hg1 (bytes_ok_skipn k buf Hb) Hl1) as S.
      assert (Step : forall t r, Micro s1 (skipn k buf) t r -> Micro s buf ((ENothing, []) :: t) r).
      { intros t r M. eapply Mi_step; try eassumption; congruence. }
      destruct res as [n e a | er | kk |]; unfold upd_spec in *.
      * destruct S as (Hn & Hg' & a0 & Ha & S1 & S2). split; [lia|]. split; [exact Hg'|].
        exists a0. split; [rewrite app_nil_r in Ha; exact Ha|]. split.
        -- intros He t r M.
           assert (Sk : skipn (n - c) buf = skipn (n - (c + k)) (skipn k buf)) by (rewrite skipn_twice; f_equal; lia).
           rewrite Sk in M. destruct (S1 He t r M) as (t0 & M0 & O0).
           exists ((ENothing, []) :: t0). split; [apply Step; exact M0|].
           eapply strong_trans; [apply strong_silent | exact O0].
        -- intros He. destruct (S2 He) as (t0 & lf & M0 & O0).
           exists ((ENothing, []) :: t0), lf. split; [apply Step; exact M0|].
           eapply strong_trans; [apply strong_silent | exact O0].
      * destruct S as (t0 & M0 & O0). exists ((ENothing, []) :: t0). split; [apply Step; exact M0|].
        eapply strong_trans; [apply strong_silent | exact O0].
      * destruct S as (t0 & M0 & O0). exists ((ENothing, []) :: t0). split; [apply Step; exact M0|].
        eapply strong_trans; [apply strong_silent | exact O0].
      * exact I.
    + injection U as <- <-. exists []. split; [eapply Mi_err; try eassumption; congruence | apply strong_refl].
    + injection U as <- <-. exists []. split; [eapply Mi_panic; try eassumption; congruence | apply strong_refl].
Qed.

Lemma update_micro : zinf_contract -> forall s buf s' res,
  update s buf = (s', res) -> good s -> bytes_ok buf -> st s <> None -> upd_spec s buf 0 [] s' res.
Proof.
  intros HC s buf s' res U Hg Hb Hl. unfold Stream.update in U. destruct (st s) eqn:Hst; [|congruence].
  eapply update_fuel_micro; try eassumption. congruence.
Qed.

(* how a driver result names the end of the run *)
Definition end_matches (r : option rend) (s' : dstate) (rm : mend) : Prop :=
  match r with
  | None => rm = MMore s'
  | Some (RImageEnd _) => exists lf, rm = MImageEnd s' lf
  | Some (RErr er) => rm = MErr er s'
  | Some (RPanic k) => rm = MPanic k
  | Some RFuel | Some REof => False
  end.

Lemma feed_piece_micro : zinf_contract -> forall fuel s buf tr s' tr' r,
  feed_piece fuel s buf tr = (s', tr', r) -> good s -> bytes_ok buf -> r <> Some RFuel ->
  exists u t rm, tr' = rev u ++ tr /\ Micro s buf t rm /\ strong_obs t u /\ end_matches r s' rm.
Proof.
  intro HC. induction fuel as [|fuel IH]; intros s buf tr s' tr' r F Hg Hb Hr.
  - destruct buf as [|b0 buf0]; cbn in F; injection F as <- <- <-; [|congruence].
    exists [], [], (MMore s). split; [reflexivity|]. split; [apply Mi_nil|]. split; [apply strong_refl | reflexivity].
  - destruct buf as [|b0 buf0] eqn:Ebuf.
    { cbn in F. injection F as <- <- <-.
      exists [], [], (MMore s). split; [reflexivity|]. split; [apply Mi_nil|]. split; [apply strong_refl | reflexivity]. }
    rewrite <- Ebuf in *. assert (Hne : buf <> []) by (rewrite Ebuf; discriminate).
    assert (E : feed_piece (S fuel) s buf tr =
              match update s buf with
              | (s1, UOk n e app) =>
                let tr1 := (e, app) :: tr in
                match e with
                | EImageEnd => (s1, tr1, Some (RImageEnd (length buf - n)))
                | _ => feed_piece fuel s1 (skipn n buf) tr1
                end
              | (s1, UErr e) => (s1, tr, Some (RErr e))
              | (s1, UPanic p) => (s1, tr, Some (RPanic p))
              | (s1, UOutOfFuel) => (s1, tr, Some RFuel)
              end) by (rewrite Ebuf; reflexivity).
    rewrite E in F. clear E.
    destruct (st s) as [x|] eqn:Hst.
    + assert (Hl : st s <> None) by congruence.
      destruct (update s buf) as [s1 res] eqn:U.
      pose proof (update_micro HC s buf s1 res U Hg Hb Hl) as S.
      destruct res as [n e a | er | kk |]; unfold upd_spec in S.
      * destruct S as (_ & Hg1 & a0 & Ha & S1 & S2). cbn [app] in Ha. subst a0. rewrite Nat.sub_0_r in S1.
        assert (Go : e <> EImageEnd -> feed_piece fuel s1 (skipn n buf) ((e, a) :: tr) = (s', tr', r) ->
                     exists u t rm, tr' = rev u ++ tr /\ Micro s buf t rm /\ strong_obs t u /\ end_matches r s' rm).
        { intros He F'.
          destruct (IH s1 (skipn n buf) ((e, a) :: tr) s' tr' r F' Hg1 (bytes_ok_skipn n buf Hb) Hr) as (u & t & rm & Et & M & O & Em).
          destruct (S1 He t rm M) as (t0 & M0 & O0).
          exists ((e, a) :: u), t0, rm. split; [cbn [rev]; rewrite <- app_assoc; exact Et|]. split; [exact M0|]. split; [|exact Em].
          eapply strong_trans; [exact O0|]. apply (strong_app [(e, a)] [(e, a)] t u (strong_refl _) O). }
        destruct e; try (apply Go; [discriminate | exact F]).
        cbv zeta in F. injection F as <- <- <-.
        destruct (S2 eq_refl) as (t0 & lf & M0 & O0).
        exists [(EImageEnd, a)], t0, (MImageEnd s1 lf). split; [reflexivity|]. split; [exact M0|]. split; [exact O0|]. exists lf. reflexivity.
      * injection F as <- <- <-. destruct S as (t0 & M0 & O0).
        exists [], t0, (MErr er s1). split; [reflexivity|]. split; [exact M0|]. split; [exact O0 | reflexivity].
      * injection F as <- <- <-. destruct S as (t0 & M0 & O0).
        exists [], t0, (MPanic kk). split; [reflexivity|]. split; [exact M0|]. split; [exact O0 | reflexivity].
      * injection F as <- <- <-. congruence.
    + (* poisoned: update answers at once *)
      unfold Stream.update in F. rewrite Hst in F. injection F as <- <- <-.
      exists [], [], (MErr EParamPolledAfterFatal s). split; [reflexivity|]. split; [apply Mi_dead; assumption|]. split; [apply strong_refl | reflexivity].
Qed.

Definition end_matches_go (r : rend) (s' : dstate) (rm : mend) : Prop :=
  match r with
  | REof => rm = MMore s'
  | RImageEnd _ => exists lf, rm = MImageEnd s' lf
  | RErr er => rm = MErr er s'
  | RPanic k => rm = MPanic k
  | RFuel => False
  end.

Lemma feed_go_micro : zinf_contract -> forall ps s tr s' tr' r,
  feed_go s ps tr = (s', tr', r) -> good s -> Forall bytes_ok ps -> r <> RFuel ->
  exists u t rm, tr' = rev u ++ tr /\ MicroPieces s ps t rm /\ strong_obs t u /\ end_matches_go r s' rm.
Proof.
  intro HC. induction ps as [|p ps IH]; intros s tr s' tr' r F Hg Hf Hr.
  - cbn in F. injection F as <- <- <-.
    exists [], [], (MMore s). split; [reflexivity|]. split; [apply MP_nil|]. split; [apply strong_refl | reflexivity].
  - inversion Hf as [|? ? Hp Hps]; subst.
    cbn [StreamRun.feed_go] in F.
    destruct (feed_piece (5 * length p + 8) s p tr) as [[s1 tr1] [r1|]] eqn:FP.
    + injection F as <- <- <-.
      destruct (feed_piece_micro HC _ s p tr s1 tr1 (Some r1) FP Hg Hp ltac:(congruence)) as (u & t & rm & Et & M & O & Em).
      exists u, t, rm. split; [exact Et|]. split.
      * apply MP_stop; [exact M|]. intros s2 Hc. subst rm. destruct r1; cbn in Em; try congruence; try contradiction; destruct Em; congruence.
      * split; [exact O|]. destruct r1; cbn in *; try contradiction; assumption.
    + destruct (feed_piece_micro HC _ s p tr s1 tr1 None FP Hg Hp ltac:(congruence)) as (u & t & rm & Et & M & O & Em).
      cbn in Em. subst rm.
      assert (Hg1 : good s1) by (eapply micro_good; try eassumption; reflexivity).
      destruct (IH s1 tr1 s' tr' r F Hg1 Hps Hr) as (u2 & t2 & rm2 & Et2 & M2 & O2 & Em2).
      exists (u ++ u2), (t ++ t2), rm2. split; [rewrite rev_app_distr, <- app_assoc, Et2, Et; reflexivity|].
      split; [eapply MP_more; eassumption|]. split; [apply strong_app; assumption | exact Em2].
Qed.

(* what is observed of a driver run *)
Definition feed_end (s' : dstate) (r : rend) : option oend :=
  match r with
  | REof => Some (OEof s')
  | RImageEnd _ => Some (OImageEnd s')
  | RErr er => Some (OErr er (info s'))
  | RPanic k => Some (OPanic k)
  | RFuel => None
  end.
Definition feed_obs (x : dstate * list (event * list Z) * rend) : list oitem * option oend :=
  let '(s', tr, r) := x in (obs_go [] tr, feed_end s' r).

(* THE DELIVERY THEOREM for the driver that the correspondence check runs against the implementation:
   any two ways of cutting the same byte string into pieces give the same observation *)
Theorem feed_schedule_independent : zinf_contract ->
  forall s ps1 ps2, good s -> Forall bytes_ok ps1 -> Forall bytes_ok ps2 -> concat ps1 = concat ps2 ->
  snd (feed s ps1) <> RFuel -> snd (feed s ps2) <> RFuel ->
  feed_obs (feed s ps1) = feed_obs (feed s ps2).
Proof.
  intros HC s ps1 ps2 Hg H1 H2 E N1 N2. unfold StreamRun.feed in *.
  destruct (feed_go s ps1 []) as [[s1 tr1] r1] eqn:F1. destruct (feed_go s ps2 []) as [[s2 tr2] r2] eqn:F2. cbn [snd] in N1, N2.
  destruct (feed_go_micro HC ps1 s [] s1 tr1 r1 F1 Hg H1 N1) as (u1 & t1 & m1 & Et1 & M1 & O1 & Em1).
  destruct (feed_go_micro HC ps2 s [] s2 tr2 r2 F2 Hg H2 N2) as (u2 & t2 & m2 & Et2 & M2 & O2 & Em2).
  rewrite app_nil_r in Et1, Et2. subst tr1 tr2. rewrite !rev_involutive.
  destruct (pieces_independent HC s ps1 ps2 t1 m1 t2 m2 Hg H1 H2 E M1 M2) as [Oe Os].
  unfold feed_obs. f_equal.
  - rewrite <- (strong_same _ _ O1 []), <- (strong_same _ _ O2 []). apply Os.
  - destruct r1, r2; cbn in Em1, Em2; try contradiction; subst;
      repeat match goal with H : exists _, _ |- _ => destruct H as [? ->] end; cbn in Oe; try discriminate Oe; cbn [feed_end]; congruence.
Qed.

(* ------------------------------------------------------------------ the driver never runs out of fuel: a linear bound on the number of transitions *)
Definition rk (s : dstate) : nat :=
  match st s with
  | Some (SU32 _ acc) => if (length acc =? 4)%nat then 4%nat else 0%nat
  | Some (SRead _) => if c_remaining s =? 0 then 1%nat else if c_cap s - zlen (c_raw s) <=? 0 then 3%nat else 1%nat
  | Some (SParse _) => 2%nat
  | Some (SImage _) => 1%nat
  | None => 0%nat
  end.
Definition mu (s : dstate) (buf : list Z) : nat := (5 * length buf + rk s)%nat.
(* a complete field is only kept in the accumulator across the end-of-data flush, and then it names the current chunk type *)
Definition inv4 (s : dstate) : Prop :=
  forall k acc, st s = Some (SU32 k acc) -> length acc = 4%nat -> exists a b c d, acc = [a; b; c; d] /\ c_type s = be32 a b c d.
Definition good4 (s : dstate) : Prop := wf' s /\ inv4 s.

Lemma rk_le4 s : (rk s <= 4)%nat.
Proof. unfold rk. destruct (st s) as [[k acc|ty|ty|ty]|]; try lia.
  - destruct (length acc =? 4)%nat; lia.
  - destruct (c_remaining s =? 0); [lia|]. destruct (c_cap s - zlen (c_raw s) <=? 0); lia. Qed.

Lemma inv4_empty s : (forall k acc, st s = Some (SU32 k acc) -> acc = []) -> inv4 s.
Proof. intros H k acc Hs Hl. rewrite (H k acc Hs) in Hl. discriminate Hl. Qed.

Lemma inv4_parse_u32 s kind bytes s' e a : parse_u32 s kind bytes = (s', Ok (e, a)) -> (exists b0 b1 b2 b3, bytes = [b0; b1; b2; b3]) -> inv4 s'.
Proof.
  intros Q (b0 & b1 & b2 & b3 & ->). revert Q. unfold Stream.parse_u32, goto, poison. destruct kind as [ | | | len | ty | ].
  all: destr_matches; intro Q; try discriminate Q; injection Q as <- _ _.
  all: try (apply inv4_empty; intros k acc Hs; cbn in Hs; congruence).
  (* the flush keeps the four bytes and has set the chunk type to them *)
  intros k acc Hs Hl. cbn in Hs. injection Hs as <- <-. exists b0, b1, b2, b3. split; reflexivity.
Qed.

Lemma rk_parse_u32_full s len a b c d s' e app :
  c_type s = be32 a b c d -> parse_u32 s (KType len) [a; b; c; d] = (s', Ok (e, app)) -> (rk s' < 4)%nat.
Proof.
  intros Hc. unfold Stream.parse_u32, goto, poison.
  rewrite Hc, Z.eqb_refl. cbn [negb andb].
  destr_matches; intro Q; try discriminate Q; injection Q as <- _ _; unfold rk; cbn;
    repeat match goal with |- context [if ?x then _ else _] => destruct x end; lia.
Qed.

Lemma step_progress s buf s' n e a :
  good4 s -> buf <> [] -> next_state s buf = (s', Ok (n, e, a)) -> ((1 <= n)%nat \/ (rk s' < rk s)%nat) /\ inv4 s'.
Proof.
  intros [Hw H4] Hne Q.
  destruct (st s) as [x|] eqn:Hst; [|unfold Stream.next_state in Q; rewrite Hst in Q; discriminate Q].
  unfold wf' in Hw. rewrite Hst in Hw. destruct Hw as [Hr Hx].
  assert (Lb : (1 <= length buf)%nat) by (destruct buf; [congruence | cbn; lia]).
  destruct x as [kind acc|ty|ty|ty].
  - destruct Hx as (_ & Hl & Hk & _).
    rewrite (ns_u32 s kind acc buf Hst Hne) in Q. cbv zeta in Q.
    destruct (Nat.eq_dec (length acc) 4) as [E4|N4].
    + (* a complete field waiting behind the flush *)
      destruct (Hk E4) as [len ->]. destruct (H4 _ _ Hst E4) as (b0 & b1 & b2 & b3 & -> & Hc).
      rewrite E4 in Q. cbn [Nat.sub Nat.min firstn app length Nat.ltb Nat.leb] in Q.
      unfold wrap in Q. destruct (parse_u32 s (KType len) [b0; b1; b2; b3]) as [s1 [[e1 a1]|er|k]] eqn:P; try discriminate Q.
      assert (Es : s' = s1) by congruence. subst s1. split.
      * right. unfold rk at 2. rewrite Hst. cbn [length Nat.eqb]. eapply rk_parse_u32_full; eassumption.
      * eapply inv4_parse_u32; [exact P | eauto].
    + set (av := Nat.min (4 - length acc) (length buf)) in *. assert (1 <= av)%nat by (unfold av; lia).
      destruct (length (acc ++ firstn av buf) <? 4)%nat eqn:L4.
      * assert (En : n = av) by congruence. assert (Es : s' = s <| st := Some (SU32 kind (acc ++ firstn av buf)) |>) by congruence.
        split; [left; lia|]. subst s'. intros k acc0 Hs Hl0.
        assert (Ea : acc0 = acc ++ firstn av buf) by (change (Some (SU32 kind (acc ++ firstn av buf)) = Some (SU32 k acc0)) in Hs; congruence).
        subst acc0. apply Nat.ltb_lt in L4. lia.
      * unfold wrap in Q. destruct (parse_u32 s kind (acc ++ firstn av buf)) as [s1 [[e1 a1]|er|k]] eqn:P; try discriminate Q.
        assert (En : n = av) by congruence. assert (Es : s' = s1) by congruence. subst s1.
        split; [left; lia|]. eapply inv4_parse_u32; [exact P|].
        apply bytes4. apply Nat.ltb_ge in L4. rewrite app_length, firstn_length in *. unfold av in *. lia.
  - unfold Stream.next_state in Q. rewrite Hst in Q.
    destruct (c_remaining s =? 0) eqn:E0.
    { assert (Es : s' = s <| st := Some (SU32 (KCrc ty) []) |>) by congruence. subst s'. split.
      - right. unfold rk. rewrite Hst, E0. cbn. lia.
      - apply inv4_empty. intros k acc Hs. cbn in Hs. congruence. }
    destruct (c_cap s - zlen (c_raw s) <=? 0) eqn:E1.
    { assert (Es : s' = s <| st := Some (SParse ty) |>) by congruence. subst s'. split.
      - right. unfold rk. rewrite Hst, E0, E1. cbn. lia.
      - apply inv4_empty. intros k acc Hs. cbn in Hs. congruence. }
    cbv zeta in Q. split.
    + left. assert (En : n = Z.to_nat (Z.min (c_remaining s) (Z.min (zlen buf) (c_cap s - zlen (c_raw s))))) by congruence.
      rewrite En. clear Q. unfold zlen in *. lia.
    + injection Q as <- _ _ _. apply inv4_empty. intros k acc Hs. cbn in Hs. destruct (_ =? 0) in Hs; congruence.
  - unfold Stream.next_state in Q. rewrite Hst in Q. destruct (c_remaining s =? 0) eqn:E0.
    + pose proof (parse_chunk_ctrl zall utf8_valid s ty) as [_ C].
      destruct (parse_chunk s ty) as [s1 [e1|er|k]] eqn:P; try discriminate Q. cbn [fst snd] in C.
      assert (Es : s' = s1) by congruence. subst s1.
      destruct C as [C|[_ C]]; [|exfalso; eapply C; reflexivity]. split.
      * right. unfold rk. rewrite C, Hst. cbn. lia.
      * apply inv4_empty. intros k acc Hs. congruence.
    + destruct (reserve_current_chunk s) as [s1|er|k] eqn:R; try discriminate Q.
      assert (Es : s' = s1 <| st := Some (SRead ty) |>) by congruence. subst s'.
      unfold reserve_current_chunk in R. destruct (reserve s _) as [s2| |] eqn:R2; try discriminate R.
      apply reserve_ok in R2. subst s2.
      set (rs := Z.min (Z.max 0 (budget s - c_cap s)) (zlen (c_raw s))) in *.
      replace (c_cap (s <| budget := budget s - rs |>)) with (c_cap s) in R by (destruct s; reflexivity).
      replace (c_raw (s <| budget := budget s - rs |>)) with (c_raw s) in R by (destruct s; reflexivity).
      destruct (Z.max (c_cap s) (zlen (c_raw s) + rs) =? zlen (c_raw s)) eqn:Ec; try discriminate R. injection R as <-.
      split.
      * right. unfold rk. rewrite Hst. cbn.
        replace (c_remaining s =? 0) with false by (symmetry; exact E0).
        assert (X : (Z.max (c_cap s) (zlen (c_raw s) + rs) - zlen (c_raw s) <=? 0) = false).
        { assert (0 <= rs) by (unfold rs, zlen; lia). lia. }
        rewrite X. lia.
      * apply inv4_empty. intros k acc Hs. cbn in Hs. congruence.
  - rewrite (ns_image s ty buf Hst) in Q.
    destruct (z_decompress (infl s) (firstn (image_n s buf) buf)) as [[z o]|er|k]; try discriminate Q.
    assert (En : n = image_n s buf) by congruence.
    assert (Es : s' = image_to s ty (image_n s buf) (firstn (image_n s buf) buf) z) by congruence. subst s'. split.
    + destruct (c_remaining s =? 0) eqn:E0.
      * right. assert (Z0 : image_n s buf = 0%nat) by (unfold image_n; lia).
        rewrite Z0. unfold rk at 2. rewrite Hst. unfold rk, image_to. cbn.
        replace (c_remaining s - Z.of_nat 0 =? 0) with true by (symmetry; lia). cbn. lia.
      * left. rewrite En. unfold image_n, zlen. lia.
    + apply inv4_empty. intros k acc Hs. unfold image_to in Hs. cbn in Hs. destruct (_ =? 0) in Hs; congruence.
Qed.

Lemma mu_step s buf s' n e a :
  good4 s -> buf <> [] -> next_state s buf = (s', Ok (n, e, a)) -> (mu s' (skipn n buf) < mu s buf)%nat /\ inv4 s'.
Proof.
  intros Hg Hne Q. destruct (step_progress s buf s' n e a Hg Hne Q) as [Hp H4]. split; [|exact H4].
  pose proof (ns_le s buf s' n e a Hne Q) as Hn. pose proof (rk_le4 s') as R.
  unfold mu. rewrite skipn_length. destruct Hp as [Hp|Hp]; [lia|].
  destruct n; [cbn [skipn]; lia | lia].
Qed.

Lemma update_fuel_mu : forall fuel s buf c app s' n e a,
  update_fuel fuel s buf c app = (s', UOk n e a) -> good4 s -> bytes_ok buf -> st s <> None -> buf <> [] ->
  (mu s' (skipn (n - c) buf) < mu s buf)%nat /\ good4 s' /\ (c <= n)%nat.
Proof.
  induction fuel as [|fuel IH]; intros s buf c app s' n e a U [Hg H4] Hb Hl Hne.
  - destruct buf; [congruence | cbn in U; discriminate U].
  - destruct buf as [|b0 buf0] eqn:Ebuf; [congruence|]. rewrite <- Ebuf in *.
    assert (E : update_fuel (S fuel) s buf c app =
              match next_state s buf with
              | (s1, Ok (n, ENothing, a)) => update_fuel fuel s1 (skipn n buf) (c + n)%nat (app ++ a)
              | (s1, Ok (n, e, a)) => (s1, UOk (c + n)%nat e (app ++ a))
              | (s1, Err e) => (s1, UErr e)
              | (s1, Panic p) => (s1, UPanic p)
              end) by (rewrite Ebuf; reflexivity).
    rewrite E in U. clear E.
    destruct (st s) as [x|] eqn:Hst; [|congruence].
    pose proof (next_state_post zinf zall utf8_valid s x buf Hg Hb Hne Hst) as P.
    destruct (next_state s buf) as [s1 [[[k e1] a1]|er|kk]] eqn:Q; cbn [fst snd ns_post] in P; try discriminate U.
    destruct (mu_step s buf s1 k e1 a1 (conj Hg H4) Hne Q) as [Hm H41].
    assert (Hg1 : wf' s1) by tauto.
    assert (Direct : e1 <> ENothing -> (s1, UOk (c + k)%nat e1 (app ++ a1)) = (s', UOk n e a) ->
                     (mu s' (skipn (n - c) buf) < mu s buf)%nat /\ good4 s' /\ (c <= n)%nat).
    { intros _ Hq. injection Hq as <- <- _ _. replace (c + k - c)%nat with k by lia. split; [exact Hm|]. split; [split; assumption | lia]. }
    destruct e1; try (apply Direct; [discriminate | exact U]).
    destruct P as (_ & Hk & HN). destruct (HN eq_refl) as (-> & x' & Hst1 & _).
    destruct (skipn k buf) as [|c0 rest] eqn:Esk.
    + (* the buffer is used up: the loop returns *)
      destruct fuel; cbn in U; injection U as <- <- _ _; replace (c + k - c)%nat with k by lia; rewrite Esk;
        (split; [exact Hm|]); (split; [split; assumption | lia]).
    + rewrite <- Esk in *.
      assert (Hne1 : skipn k buf <> []) by (rewrite Esk; discriminate).
      destruct (IH s1 (skipn k buf) (c + k)%nat (app ++ []) s' n e a U (conj Hg1 H41) (bytes_ok_skipn k buf Hb) ltac:(congruence) Hne1) as (M1 & G1 & C1).
      split; [|split; [exact G1 | lia]].
      rewrite skipn_twice in M1. replace (k + (n - (c + k)))%nat with (n - c)%nat in M1 by lia. lia.
Qed.

Lemma feed_piece_fuel : forall fuel s buf tr s' tr' r,
  feed_piece fuel s buf tr = (s', tr', r) -> good4 s -> bytes_ok buf -> (mu s buf < fuel)%nat ->
  r <> Some RFuel /\ (r = None -> good4 s').
Proof.
  induction fuel as [|fuel IH]; intros s buf tr s' tr' r F Hg Hb Hm; [lia|].
  destruct buf as [|b0 buf0] eqn:Ebuf.
  { cbn in F. injection F as <- <- <-. split; [discriminate | intros _; exact Hg]. }
  rewrite <- Ebuf in *. assert (Hne : buf <> []) by (rewrite Ebuf; discriminate).
  assert (E : feed_piece (S fuel) s buf tr =
            match update s buf with
            | (s1, UOk n e app) =>
              let tr1 := (e, app) :: tr in
              match e with
              | EImageEnd => (s1, tr1, Some (RImageEnd (length buf - n)))
              | _ => feed_piece fuel s1 (skipn n buf) tr1
              end
            | (s1, UErr e) => (s1, tr, Some (RErr e))
            | (s1, UPanic p) => (s1, tr, Some (RPanic p))
            | (s1, UOutOfFuel) => (s1, tr, Some RFuel)
            end) by (rewrite Ebuf; reflexivity).
  rewrite E in F. clear E.
  pose proof (update_terminates_and_progresses zinf zall utf8_valid s buf (proj1 Hg) Hb) as (NoFuel & _).
  destruct (update s buf) as [s1 res] eqn:U. cbn [snd] in NoFuel.
  destruct res as [n e a | er | kk |]; try congruence.
  - destruct (st s) as [x|] eqn:Hst; [|unfold Stream.update in U; rewrite Hst in U; discriminate U].
    unfold Stream.update in U. rewrite Hst in U.
    destruct (update_fuel_mu _ s buf 0%nat [] s1 n e a U Hg Hb ltac:(congruence) Hne) as (M1 & G1 & _).
    rewrite Nat.sub_0_r in M1.
    assert (Go : feed_piece fuel s1 (skipn n buf) ((e, a) :: tr) = (s', tr', r) -> r <> Some RFuel /\ (r = None -> good4 s')).
    { intro F'. eapply IH; [exact F' | exact G1 | apply bytes_ok_skipn; exact Hb | lia]. }
    destruct e; try (apply Go; exact F).
    cbv zeta in F. injection F as <- <- <-. split; discriminate.
  - injection F as <- <- <-. split; discriminate.
  - injection F as <- <- <-. split; discriminate.
Qed.

Lemma feed_go_fuel : forall ps s tr, good4 s -> Forall bytes_ok ps -> snd (feed_go s ps tr) <> RFuel.
Proof.
  induction ps as [|p ps IH]; intros s tr Hg Hf; [cbn; discriminate|].
  inversion Hf as [|? ? Hp Hps]; subst. cbn [StreamRun.feed_go].
  destruct (feed_piece (5 * length p + 8) s p tr) as [[s1 tr1] r1] eqn:FP.
  assert (Hm : (mu s p < 5 * length p + 8)%nat) by (unfold mu; pose proof (rk_le4 s); lia).
  destruct (feed_piece_fuel _ s p tr s1 tr1 r1 FP Hg Hp Hm) as [N G].
  destruct r1 as [r1|]; [cbn [snd]; congruence | apply IH; [apply G; reflexivity | exact Hps]].
Qed.

(* C07 for the driver: cutting the input into pieces never makes the loop run dry *)
Theorem feed_never_out_of_fuel : forall s ps, good4 s -> Forall bytes_ok ps -> snd (feed s ps) <> RFuel.
Proof.
  intros s ps Hg Hf. unfold StreamRun.feed.
  pose proof (feed_go_fuel ps s [] Hg Hf) as N. destruct (feed_go s ps []) as [[s1 tr1] r1]. exact N.
Qed.

Lemma good4_init o l : good4 (init_state o l).
Proof. split; [apply init_state_wf|]. apply inv4_empty. intros k acc Hs. cbn in Hs. congruence. Qed.

Lemma good_init o l : good (init_state o l).
Proof. split; [apply init_state_wf | unfold zinv, init_state; cbn; split; reflexivity]. Qed.

Lemma good_reset s : good (reset_model s).
Proof. split; [apply reset_model_wf | unfold reset_model; cbn; exact (zinv_zreset (infl s))]. Qed.

(* from a newly created decoder (the statement the property makes): no premise but the inflater's contract and bytes being bytes *)
Theorem decoding_is_delivery_independent : zinf_contract ->
  forall o limit ps1 ps2, Forall bytes_ok ps1 -> Forall bytes_ok ps2 -> concat ps1 = concat ps2 ->
  feed_obs (feed (init_state o limit) ps1) = feed_obs (feed (init_state o limit) ps2).
Proof.
  intros HC o limit ps1 ps2 H1 H2 E.
  apply feed_schedule_independent; try assumption; try apply good_init; apply feed_never_out_of_fuel; try assumption; apply good4_init.
Qed.

(* ------------------------------------------------------------------ C05 at the level of the stream machine: prefixes and resumption *)
Definition is_failure (r : rend) : Prop := match r with RErr _ | RPanic _ | RFuel => True | _ => False end.

Lemma feed_stops_at_failure s p q : is_failure (snd (feed s [p])) -> feed s [p; q] = feed s [p].
Proof.
  unfold StreamRun.feed. cbn [StreamRun.feed_go].
  destruct (feed_piece (5 * length p + 8) s p []) as [[s1 tr1] [r1|]]; [reflexivity|].
  cbn. intro H. contradiction.
Qed.

(* a stream that decodes without an error (to its IEND, or as far as it goes) does not report an error on any of its prefixes:
   the run over the prefix ends for lack of input (or at IEND), ready to go on *)
Theorem prefix_never_fails : zinf_contract ->
  forall o limit p q, bytes_ok p -> bytes_ok q ->
  ~ is_failure (snd (feed (init_state o limit) [p ++ q])) -> ~ is_failure (snd (feed (init_state o limit) [p])).
Proof.
  intros HC o limit p q Hp Hq Hw Hf.
  pose proof (feed_stops_at_failure (init_state o limit) p q Hf) as E.
  assert (I : feed_obs (feed (init_state o limit) [p; q]) = feed_obs (feed (init_state o limit) [p ++ q])).
  { apply (decoding_is_delivery_independent HC); [repeat constructor; assumption | repeat constructor; apply bytes_ok_app; assumption |].
    cbn [concat]. rewrite !app_nil_r. reflexivity. }
  rewrite E in I.
  destruct (feed (init_state o limit) [p]) as [[s1 t1] r1]. destruct (feed (init_state o limit) [p ++ q]) as [[s2 t2] r2].
  cbn [snd] in *. unfold feed_obs in I. injection I as _ I.
  destruct r1; cbn in Hf; try contradiction; destruct r2; cbn in Hw, I; try discriminate I; try (apply Hw; exact Logic.I).
Qed.

(* resuming completes identically: however the input grows (any list of increments), the outcome is that of decoding the complete input in one go *)
Theorem resuming_completes_identically : zinf_contract ->
  forall o limit increments, Forall bytes_ok increments ->
  feed_obs (feed (init_state o limit) increments) = feed_obs (feed (init_state o limit) [concat increments]).
Proof.
  intros HC o limit incs Hf. apply (decoding_is_delivery_independent HC); [exact Hf | repeat constructor; apply bytes_ok_concat; exact Hf |].
  cbn [concat]. rewrite app_nil_r. reflexivity.
Qed.

End WithInflate.

(* the contract is satisfiable by an "inflater" that shows all three outcomes: it copies bytes up to a 0 (end of stream; what follows is
   ignored) and rejects a 255 *)
Fixpoint toy_inf (a : list Z) : list Z * dstatus :=
  match a with
  | [] => ([], DNeedMore)
  | x :: r => if x =? 0 then ([], DDone) else if x =? 255 then ([], DError)
              else let '(o, st) := toy_inf r in (x :: o, st)
  end.

Example zinf_contract_satisfiable : zinf_contract (fun _ => toy_inf).
Proof.
  split; [|split].
  - intros _ a b. induction a as [|x a IH]; cbn [toy_inf app]; intro H.
    + exists (fst (toy_inf b)). reflexivity.
    + destruct (x =? 0); [discriminate H|]. destruct (x =? 255); [discriminate H|].
      destruct (toy_inf a) as [o st] eqn:E. cbn [snd] in H. destruct (IH H) as [t Ht].
      destruct (toy_inf (a ++ b)) as [o2 st2]. cbn [fst] in *. exists t. rewrite Ht. reflexivity.
  - intros _ a b. induction a as [|x a IH]; cbn [toy_inf app]; intro H; [discriminate H|].
    destruct (x =? 0); [discriminate H|]. destruct (x =? 255); [reflexivity|].
    destruct (toy_inf a) as [o st] eqn:E. cbn [snd] in H. specialize (IH H).
    destruct (toy_inf (a ++ b)) as [o2 st2]. exact IH.
  - intros _ a b. induction a as [|x a IH]; cbn [toy_inf app]; intro H; [discriminate H|].
    destruct (x =? 0); [reflexivity|]. destruct (x =? 255); [discriminate H|].
    destruct (toy_inf a) as [o st] eqn:E. cbn [snd] in H. rewrite (IH H). reflexivity.
Qed.
