(* Adam7 geometry: pass sizes are exact, every pixel lies in exactly one (pass, line, column), and the
   pass is the one the specification's 8x8 pattern assigns. *)
From PngV Require Import Base.Bytes Spec.Adam7Spec Gen.GenAdam7 Model.Adam7.
From Coq Require Import ZifyBool.

Ltac dlia := Z.div_mod_to_equations; lia.

Definition passes : list Z := [1; 2; 3; 4; 5; 6; 7].

Lemma in_passes p : In p passes -> p = 1 \/ p = 2 \/ p = 3 \/ p = 4 \/ p = 5 \/ p = 6 \/ p = 7.
Proof. unfold passes. simpl. intuition. Qed.

Ltac pass_cases H :=
  apply in_passes in H;
  destruct H as [H | [H | [H | [H | [H | [H | H]]]]]]; subst.

(* ---- zseq *)
Lemma In_zseq_from : forall n s l, In l (zseq_from s n) <-> s <= l < s + Z.of_nat n.
Proof.
  induction n as [|n IH]; intros s l; cbn [zseq_from In].
  - lia.
  - rewrite IH. lia.
Qed.

Lemma In_zseq n l : In l (zseq n) <-> 0 <= l < n.
Proof. unfold zseq. rewrite In_zseq_from. lia. Qed.

(* ---- S1: the sizes computed by init_pass are exact *)
Lemma dims_exact w h p lw ln lm lo sm so :
  0 < w < 4294967296 -> 0 < h < 4294967296 -> In p passes ->
  pass_dims w h p = Some (lw, ln) -> assocz p expand_table = Some (lm, lo, sm, so) ->
  (forall i, 0 <= i -> (i < lw <-> i * sm + so < w)) /\
  (forall l, 0 <= l -> (l < ln <-> lm * l + lo < h)).
Proof.
  intros Hw Hh Hp Hd He.
  pass_cases Hp; cbn in Hd, He; inversion Hd; inversion He; subst; clear Hd He;
    unfold sat_u32, ceil_div; split; intros k Hk; dlia.
Qed.

Lemma dims_total w h p : In p passes -> exists lw ln, pass_dims w h p = Some (lw, ln).
Proof. intros Hp. pass_cases Hp; cbn; eauto. Qed.

Lemma expand_total p : In p passes -> exists lm lo sm so,
  assocz p expand_table = Some (lm, lo, sm, so) /\
  (sm = 1 \/ sm = 2 \/ sm = 4 \/ sm = 8) /\ (lm = 1 \/ lm = 2 \/ lm = 4 \/ lm = 8) /\
  0 <= so < sm /\ 0 <= lo < lm.
Proof. intros Hp. pass_cases Hp; cbn; do 4 eexists; (split; [reflexivity|]); lia. Qed.

(* ---- the 8x8 pattern, by finite sweep over residues *)
Definition range8 : list Z := [0; 1; 2; 3; 4; 5; 6; 7].
Definition pattern_at (rx ry : Z) : Z := nth (Z.to_nat rx) (nth (Z.to_nat ry) adam7_pattern []) 0.

Lemma range8_in r : 0 <= r < 8 -> In r range8.
Proof. unfold range8. simpl. lia. Qed.

(* (a) the pass of a residue pair has its table residues; (b) table residues determine the pass *)
Definition pattern_check : bool :=
  forallb (fun rx => forallb (fun ry =>
    let p := pattern_at rx ry in
    (existsb (Z.eqb p) passes) &&
    match assocz p expand_table with
    | Some (lm, lo, sm, so) => ((rx - so) mod sm =? 0) && ((ry - lo) mod lm =? 0)
    | None => false
    end &&
    forallb (fun q =>
      match assocz q expand_table with
      | Some (lm, lo, sm, so) =>
        negb (((rx - so) mod sm =? 0) && ((ry - lo) mod lm =? 0)) || (p =? q)
      | None => false
      end) passes) range8) range8.

Lemma pattern_check_true : pattern_check = true.
Proof. vm_compute. reflexivity. Qed.

Lemma pattern_facts rx ry : 0 <= rx < 8 -> 0 <= ry < 8 ->
  let p := pattern_at rx ry in
  In p passes /\
  (exists lm lo sm so, assocz p expand_table = Some (lm, lo, sm, so) /\ (rx - so) mod sm = 0 /\ (ry - lo) mod lm = 0) /\
  (forall q lm lo sm so, In q passes -> assocz q expand_table = Some (lm, lo, sm, so) ->
                         (rx - so) mod sm = 0 -> (ry - lo) mod lm = 0 -> p = q).
Proof.
  intros Hx Hy p.
  pose proof pattern_check_true as H. unfold pattern_check in H.
  rewrite forallb_forall in H. specialize (H rx (range8_in rx Hx)).
  rewrite forallb_forall in H. specialize (H ry (range8_in ry Hy)).
  fold p in H. apply andb_true_iff in H as [H H3]. apply andb_true_iff in H as [H1 H2].
  split; [|split].
  - apply existsb_exists in H1 as (q & Hq & E). apply Z.eqb_eq in E. subst q. exact Hq.
  - destruct (assocz p expand_table) as [[[[lm lo] sm] so]|]; [|discriminate].
    apply andb_true_iff in H2 as [A B]. apply Z.eqb_eq in A, B. do 4 eexists. eauto.
  - intros q lm lo sm so Hq Hqa A B. rewrite forallb_forall in H3. specialize (H3 q Hq).
    rewrite Hqa in H3. apply orb_true_iff in H3 as [H3|H3].
    + apply negb_true_iff in H3. apply andb_false_iff in H3 as [H3|H3]; apply Z.eqb_neq in H3; contradiction.
    + apply Z.eqb_eq in H3. exact H3.
Qed.

Lemma pass_of_pattern x y : pass_of x y = pattern_at (x mod 8) (y mod 8).
Proof. reflexivity. Qed.

(* residues modulo a divisor of 8 *)
Lemma residue_to_index x sm so :
  0 <= x -> (sm = 1 \/ sm = 2 \/ sm = 4 \/ sm = 8) -> 0 <= so < sm ->
  (x mod 8 - so) mod sm = 0 -> exists i, 0 <= i /\ x = i * sm + so.
Proof.
  intros Hx Hsm Hso H.
  exists ((x - so) / sm).
  destruct Hsm as [-> | [-> | [-> | ->]]]; dlia.
Qed.

Lemma index_to_residue i sm so :
  0 <= i -> (sm = 1 \/ sm = 2 \/ sm = 4 \/ sm = 8) -> 0 <= so < sm ->
  ((i * sm + so) mod 8 - so) mod sm = 0.
Proof.
  intros Hi Hsm Hso.
  destruct Hsm as [-> | [-> | [-> | ->]]]; dlia.
Qed.

(* ---- T1: every reported row is a row of the specification *)
Theorem rows_sound w h p l lw :
  0 < w < 4294967296 -> 0 < h < 4294967296 ->
  In (p, l, lw) (rows_model w h) ->
  In p passes /\ 0 < lw /\ 0 <= l /\
  exists lm lo sm so, assocz p expand_table = Some (lm, lo, sm, so) /\
    lm * l + lo < h /\
    (forall i, 0 <= i -> (i < lw <-> i * sm + so < w)) /\
    (forall i, 0 <= i < lw -> pass_of (i * sm + so) (lm * l + lo) = p).
Proof.
  intros Hw Hh Hin. unfold rows_model in Hin. apply in_flat_map in Hin as (q & Hq & Hin).
  fold passes in Hq. unfold rows_of_pass in Hin.
  destruct (dims_total w h q Hq) as (lw' & ln & Hd). rewrite Hd in Hin.
  destruct (0 <? lw') eqn:E; [|contradiction]. apply Z.ltb_lt in E.
  apply in_map_iff in Hin as (l' & Heq & Hl). inversion Heq; subst. apply In_zseq in Hl.
  destruct (expand_total p Hq) as (lm & lo & sm & so & He & Hsm & Hlm & Hso & Hlo).
  destruct (dims_exact w h p lw ln lm lo sm so Hw Hh Hq Hd He) as [Dx Dy].
  split; [exact Hq|]. split; [exact E|]. split; [lia|].
  exists lm, lo, sm, so. split; [exact He|]. split; [apply Dy; lia|]. split; [exact Dx|].
  intros i Hi. rewrite pass_of_pattern.
  assert (Hrx : 0 <= (i * sm + so) mod 8 < 8) by (apply Z.mod_pos_bound; lia).
  assert (Hry : 0 <= (lm * l + lo) mod 8 < 8) by (apply Z.mod_pos_bound; lia).
  destruct (pattern_facts _ _ Hrx Hry) as (_ & _ & U).
  apply (U p lm lo sm so Hq He).
  - apply index_to_residue; lia.
  - replace (lm * l + lo) with (l * lm + lo) by lia. apply index_to_residue; lia.
Qed.

(* ---- T2: every pixel of the image is pixel i of exactly the row the specification says *)
Theorem rows_complete w h x y :
  0 < w < 4294967296 -> 0 < h < 4294967296 -> 0 <= x < w -> 0 <= y < h ->
  exists l i lw lm lo sm so,
    In (pass_of x y, l, lw) (rows_model w h) /\ 0 <= i < lw /\
    assocz (pass_of x y) expand_table = Some (lm, lo, sm, so) /\
    x = i * sm + so /\ y = lm * l + lo.
Proof.
  intros Hw Hh Hx Hy.
  assert (Hrx : 0 <= x mod 8 < 8) by (apply Z.mod_pos_bound; lia).
  assert (Hry : 0 <= y mod 8 < 8) by (apply Z.mod_pos_bound; lia).
  destruct (pattern_facts _ _ Hrx Hry) as (Hp & (lm & lo & sm & so & He & Rx & Ry) & _).
  rewrite <- pass_of_pattern in Hp, He.
  set (p := pass_of x y) in *.
  destruct (expand_total p Hp) as (lm' & lo' & sm' & so' & He' & Hsm & Hlm & Hso & Hlo).
  rewrite He in He'. inversion He'; subst lm' lo' sm' so'. clear He'.
  destruct (residue_to_index x sm so) as (i & Hi & Ex); try lia; auto.
  destruct (residue_to_index y lm lo) as (l & Hl & Ey); try lia; auto.
  destruct (dims_total w h p Hp) as (lw & ln & Hd).
  destruct (dims_exact w h p lw ln lm lo sm so Hw Hh Hp Hd He) as [Dx Dy].
  assert (Hilw : i < lw) by (apply Dx; lia).
  assert (Hlln : l < ln) by (apply Dy; lia).
  exists l, i, lw, lm, lo, sm, so.
  split; [| split; [lia | split; [exact He | split; lia]]].
  unfold rows_model. apply in_flat_map. exists p. split; [exact Hp|].
  unfold rows_of_pass. rewrite Hd.
  assert (E : (0 <? lw) = true) by (apply Z.ltb_lt; lia). rewrite E.
  apply in_map_iff. exists l. split; [reflexivity|]. apply In_zseq. lia.
Qed.

(* ---- T3: no pixel is produced twice *)
Theorem rows_unique w h p l lw i p' l' lw' i' x y :
  0 < w < 4294967296 -> 0 < h < 4294967296 ->
  In (p, l, lw) (rows_model w h) -> In (p', l', lw') (rows_model w h) ->
  0 <= i < lw -> 0 <= i' < lw' ->
  pos_xy p l i = Some (x, y) -> pos_xy p' l' i' = Some (x, y) ->
  p = p' /\ l = l' /\ i = i' /\ lw = lw'.
Proof.
  intros Hw Hh H1 H2 Hi Hi' P1 P2.
  destruct (rows_sound w h p l lw Hw Hh H1) as (Hp & Hlw & Hl & lm & lo & sm & so & He & _ & Dx & Hpass).
  destruct (rows_sound w h p' l' lw' Hw Hh H2) as (Hp' & Hlw' & Hl' & lm' & lo' & sm' & so' & He' & _ & Dx' & Hpass').
  unfold pos_xy in P1, P2. rewrite He in P1. rewrite He' in P2.
  inversion P1 as [[Ex Ey]]. inversion P2 as [[Ex' Ey']].
  assert (Epp : p = p').
  { rewrite <- (Hpass i Hi), <- (Hpass' i' Hi'). rewrite Ex, Ey, Ex', Ey'. reflexivity. }
  subst p'. rewrite He in He'. inversion He'; subst lm' lo' sm' so'.
  destruct (expand_total p Hp) as (lm'' & lo'' & sm'' & so'' & He'' & Hsm & Hlm & Hso & Hlo).
  rewrite He in He''. inversion He''; subst lm'' lo'' sm'' so''.
  assert (i = i') by nia. assert (l = l') by nia. subst i' l'.
  split; [reflexivity|]. split; [reflexivity|]. split; [reflexivity|].
  (* same pass, same image: same width *)
  unfold rows_model in H1, H2.
  apply in_flat_map in H1 as (q1 & _ & H1). apply in_flat_map in H2 as (q2 & _ & H2).
  unfold rows_of_pass in H1, H2.
  destruct (pass_dims w h q1) as [[a1 b1]|] eqn:E1; [|contradiction].
  destruct (pass_dims w h q2) as [[a2 b2]|] eqn:E2; [|contradiction].
  destruct (0 <? a1); [|contradiction]. destruct (0 <? a2); [|contradiction].
  apply in_map_iff in H1 as (? & H1 & _). apply in_map_iff in H2 as (? & H2 & _).
  inversion H1; inversion H2; subst. congruence.
Qed.

(* ---- T0: the row sequence (order included) is the specification's, for every u32 width and height *)
Lemma zseq_spec_eq : forall n s, zseq_spec s n = zseq_from s n.
Proof. induction n as [|n IH]; intros s; cbn; [reflexivity | rewrite IH; reflexivity]. Qed.

Lemma rows_of_pass_spec w h p xs ys dx dy kw dw kh dh :
  0 < w < 4294967296 -> 0 < h < 4294967296 ->
  assocz p init_pass_table = Some (kw, dw, kh, dh) ->
  kw = xs -> kh = ys -> dw = dx -> dh = dy -> 0 <= xs < dx -> 0 <= ys < dy ->
  (dx = 1 \/ dx = 2 \/ dx = 4 \/ dx = 8) -> (dy = 1 \/ dy = 2 \/ dy = 4 \/ dy = 8) ->
  rows_of_pass w h p =
    (let pw := count_from w xs dx in let ph := count_from h ys dy in
     if (0 <? pw) && (0 <? ph) then map (fun l => (p, l, pw)) (zseq_spec 0 (Z.to_nat ph)) else []).
Proof.
  intros Hw Hh He -> -> -> -> Hx Hy Hdx Hdy.
  unfold rows_of_pass, pass_dims. rewrite He. cbv zeta.
  assert (Ew : sat_u32 (ceil_div (w - xs) dx) = count_from w xs dx).
  { unfold sat_u32, ceil_div, count_from. destruct Hdx as [-> | [-> | [-> | ->]]]; destruct (w <=? xs) eqn:E; dlia. }
  assert (Eh : sat_u32 (ceil_div (h - ys) dy) = count_from h ys dy).
  { unfold sat_u32, ceil_div, count_from. destruct Hdy as [-> | [-> | [-> | ->]]]; destruct (h <=? ys) eqn:E; dlia. }
  rewrite Ew, Eh.
  destruct (0 <? count_from w xs dx) eqn:E1; cbn [andb]; [|reflexivity].
  destruct (0 <? count_from h ys dy) eqn:E2.
  - unfold zseq. rewrite <- zseq_spec_eq. reflexivity.
  - assert (Hz : Z.to_nat (count_from h ys dy) = O).
    { unfold count_from in *. destruct (h <=? ys); [reflexivity|]. apply Z.ltb_ge in E2. lia. }
    unfold zseq. rewrite Hz. reflexivity.
Qed.

Theorem rows_model_eq_spec w h :
  0 < w < 4294967296 -> 0 < h < 4294967296 -> rows_model w h = rows_spec w h.
Proof.
  intros Hw Hh. unfold rows_model, rows_spec, adam7_spec_table. cbn [flat_map].
  repeat (f_equal; [ eapply rows_of_pass_spec; try eassumption; try reflexivity; try lia; tauto | ]).
  f_equal. eapply rows_of_pass_spec; try eassumption; try reflexivity; try lia; tauto.
Qed.
