(* Proofs about the Reader cursor model (Model/Reader.v): no assertion/unwrap/underflow is reachable (C02, C18),
   behaviour after finish / after the last frame (C18), frames in order and complete (C09), rows delivered by any
   mix of calls are consecutive and complete (C13), a call that ran out of input can be repeated and the outcome is
   the one-shot outcome (C05). *)
From Coq Require Import List Arith Bool Lia.
Import ListNotations.
From PngV Require Import Model.Reader.

Definition valid (im : image) : Prop :=
  (forall k, (k < length (rows im))%nat -> (1 <= nrows im k)%nat) /\ (forall k, (1 <= k)%nat -> has_fctl im k = true).

(* ------------------------------------------------------------------ no panic site is reachable: for EVERY state *)
Lemma finish_decoding_none_ok im vis s :
  next_row s = None -> forall n, snd (finish_decoding im vis s) <> Some (RPanicR n).
Proof. intros H n. unfold finish_decoding. rewrite H. destruct (flushed s); cbn; [discriminate|]. destruct (frame_end_visible _ _ _); cbn; discriminate. Qed.

Lemma advance_no_panic im vis s n : snd (advance im vis s) <> Some (RPanicR n).
Proof. unfold advance. destruct (_ <=? _); [destruct (all_visible _ _); cbn; discriminate|]. destruct (negb _); cbn; discriminate. Qed.

Lemma advance_cur im vis s s' : advance im vis s = (s', None) -> cur s' = S (cur s) /\ flushed s' = false /\ next_row s' = Some 0 /\ remaining s' = remaining s /\ finished s' = finished s.
Proof.
  unfold advance. destruct (_ <=? _); [destruct (all_visible _ _); discriminate|]. destruct (negb _); [discriminate|].
  intro H. inversion H; subst. cbn. auto.
Qed.

Lemma row_step_never_panics im vis s e n : snd (fst (row_step im vis s e)) <> RPanicR n.
Proof.
  unfold row_step. destruct (next_row s) as [j|] eqn:En.
  - destruct (row_visible _ _ _ _); cbn; discriminate.
  - pose proof (finish_decoding_none_ok im vis s En n) as P.
    destruct (finish_decoding im vis s) as [s' [r|]]; cbn in *; [intro Hc; subst; apply P; reflexivity | discriminate].
Qed.

Theorem step_never_panics im vis s o n :
  valid im -> snd (fst (step im vis s o)) <> RPanicR n.
Proof.
  intros [_ Hf]. destruct o; cbn [step]; try apply row_step_never_panics.
  - (* OFrame *)
    destruct (frame_refused s); [cbn; discriminate|].
    destruct (if advancing s then advance im vis s else (s, None)) as [s1 r1] eqn:E1.
    destruct r1 as [r|].
    + cbn. intro Hc. subst r. destruct (advancing s); [|inversion E1].
      pose proof (advance_no_panic im vis s n) as P. rewrite E1 in P. apply P. reflexivity.
    + destruct (take_rows _ _ _ _ _) as [d [j|]]; [cbn; discriminate|].
      set (s2 := mk_rstate _ _ _ None _).
      pose proof (finish_decoding_none_ok im vis s2 eq_refl n) as P.
      destruct (finish_decoding im vis s2) as [s3 [r|]]; cbn in *; [intro Hc; subst; apply P; reflexivity | discriminate].
  - (* OFrameInfo *)
    destruct ((if flushed s then remaining s else pred (remaining s)) =? 0); [cbn; discriminate|].
    destruct (flushed s) eqn:Efl.
    + destruct (advance im vis s) as [s2 [r|]] eqn:Ea.
      * cbn. intro Hc; subst. pose proof (advance_no_panic im vis s n) as P. rewrite Ea in P. apply P. reflexivity.
      * apply advance_cur in Ea as (Hc & _). rewrite (Hf (cur s2)) by lia. cbn. discriminate.
    + set (s0 := mk_rstate _ _ _ None _).
      pose proof (finish_decoding_none_ok im vis s0 eq_refl n) as P.
      destruct (finish_decoding im vis s0) as [s1 [r|]]; cbn in *; [intro Hc; subst; apply P; reflexivity|].
      destruct (advance im vis s1) as [s2 [r|]] eqn:Ea.
      * cbn. intro Hc; subst. pose proof (advance_no_panic im vis s1 n) as Q. rewrite Ea in Q. apply Q. reflexivity.
      * apply advance_cur in Ea as (Hc & _). rewrite (Hf (cur s2)) by lia. cbn. discriminate.
  - (* OFinish *)
    destruct (finished s); [cbn; discriminate|]. destruct (all_visible _ _); cbn; discriminate.
Qed.

(* ------------------------------------------------------------------ after finish() succeeded (C18) *)
Definition done (s : rstate) : Prop := finished s = true /\ remaining s = 0 /\ flushed s = true /\ next_row s = None.

Theorem after_finish_everything_is_refused im vis s o :
  done s ->
  let '(s', r, d) := step im vis s o in
  done s' /\ d = [] /\ (r = REndOfImage \/ r = RRowNone).
Proof.
  intros (Hf & Hr & Hfl & Hn). destruct o; cbn [step]; unfold row_step.
  - unfold frame_refused. rewrite Hr, Hn, andb_false_r. cbn. repeat split; auto.
  - rewrite Hn. unfold finish_decoding. rewrite Hn, Hfl. repeat split; auto.
  - rewrite Hn. unfold finish_decoding. rewrite Hn, Hfl. repeat split; auto.
  - rewrite Hfl, Hr. cbn. repeat split; auto.
  - rewrite Hf. repeat split; auto.
Qed.

Theorem finish_establishes_done im vis s s' d : step im vis s OFinish = (s', RFinished, d) -> done s'.
Proof.
  cbn [step]. destruct (finished s); [discriminate|]. destruct (all_visible _ _); intro H; inversion H; subst. repeat split.
Qed.

(* once no frame remains and the current one is flushed, frame-level calls report end-of-image and row calls "no more rows" *)
Theorem after_last_frame im vis s o :
  remaining s = 0 -> flushed s = true -> next_row s = None -> o <> OFinish ->
  let '(s', r, d) := step im vis s o in s' = s /\ d = [] /\ (r = REndOfImage \/ r = RRowNone).
Proof.
  intros Hr Hfl Hn Ho. destruct o; cbn [step]; unfold row_step; try congruence.
  - unfold frame_refused. rewrite Hr, Hn, andb_false_r. cbn. auto.
  - rewrite Hn. unfold finish_decoding. rewrite Hn, Hfl. auto.
  - rewrite Hn. unfold finish_decoding. rewrite Hn, Hfl. auto.
  - rewrite Hfl, Hr. cbn. auto.
Qed.

(* ------------------------------------------------------------------ rows handed out by a call are consecutive (C13) *)
Lemma take_rows_consecutive im vis k : forall n j d stop,
  take_rows im vis k j n = (d, stop) ->
  d = map (fun i => (k, i)) (seq j (length d)) /\
  match stop with Some j' => j' = j + length d /\ (length d < n)%nat | None => length d = n end.
Proof.
  induction n as [|n IH]; intros j d stop; cbn [take_rows].
  - intro H; inversion H; subst. cbn. auto.
  - destruct (row_visible im vis k j).
    + destruct (take_rows im vis k (S j) n) as [d' r'] eqn:E. intro H; inversion H; subst. clear H.
      destruct (IH (S j) d' stop E) as [Hd Hs]. split.
      * cbn [length seq map]. f_equal. exact Hd.
      * destruct stop as [j'|]; cbn [length]; [destruct Hs as [-> Hl]; split; lia | lia].
    + intro H; inversion H; subst. cbn. split; [reflexivity | split; lia].
Qed.

(* position of the row cursor inside the current frame *)
Definition pos (im : image) (s : rstate) : nat := match next_row s with Some j => j | None => nrows im (cur s) end.

(* the row cursor, when present, points inside the frame *)
Definition cursor_ok (im : image) (s : rstate) : Prop :=
  match next_row s with Some j => (j < nrows im (cur s))%nat | None => True end.

Theorem frame_call_delivers_the_remaining_rows im vis s s' r d :
  cursor_ok im s ->
  step im vis s OFrame = (s', r, d) ->
  exists j0,
    (* the rows written by the call are consecutive rows j0, j0+1, ... of the frame the reader is on afterwards *)
    d = map (fun i => (cur s', i)) (seq j0 (length d)) /\
    (* a frame in progress continues exactly where the row calls stopped; a fresh frame starts at row 0 *)
    (advancing s = false -> j0 = pos im s) /\ (advancing s = true -> d <> [] -> j0 = 0) /\
    (* success means the frame is complete: every row from j0 to the last one was written *)
    (forall kk, r = RFrame kk -> kk = cur s' /\ j0 + length d = nrows im (cur s') /\ next_row s' = None /\ flushed s' = true) /\
    (* running out of input leaves the cursor after the rows written so far *)
    (r = REofR -> d <> [] -> next_row s' = Some (j0 + length d) \/ j0 + length d = nrows im (cur s')).
Proof.
  intro Hcur. cbn [step]. destruct (frame_refused s) eqn:Er.
  { intro H; inversion H; subst. exists (pos im s'). cbn. repeat split; try discriminate; try congruence. }
  destruct (advancing s) eqn:Efl.
  - destruct (advance im vis s) as [s1 [r1|]] eqn:Ea.
    + intro H; inversion H; subst. exists (pos im s). cbn [length seq map]. repeat split; try discriminate; try congruence.
      all: intros; subst; exfalso; revert Ea; unfold advance;
        destruct (_ <=? _); [destruct (all_visible _ _)|destruct (negb _)]; intro Q; inversion Q.
    + pose proof (advance_cur _ _ _ _ Ea) as (Hc & Hf1 & Hn1 & Hr1 & _).
      rewrite Hn1. destruct (take_rows im vis (cur s1) 0 (nrows im (cur s1) - 0)) as [dd [j|]] eqn:Et.
      * intro H; inversion H; subst. cbn [cur].
        destruct (take_rows_consecutive _ _ _ _ _ _ _ Et) as [Hd [Hj Hl]].
        exists 0. repeat split; try discriminate; try congruence; auto.
        intros _ _. left. cbn [next_row]. f_equal. lia.
      * destruct (take_rows_consecutive _ _ _ _ _ _ _ Et) as [Hd Hl].
        unfold finish_decoding. cbn [next_row flushed cur]. rewrite Hf1.
        destruct (frame_end_visible im vis (cur s1)); intro H; inversion H; subst; cbn [cur next_row flushed];
          exists 0; repeat split; try discriminate; try congruence; auto; try lia.
        all: try (intros; match goal with Hk : RFrame _ = RFrame _ |- _ => inversion Hk; subst; reflexivity end).
        all: try (intros; right; lia).
  - fold (pos im s). destruct (take_rows im vis (cur s) (pos im s) (nrows im (cur s) - pos im s)) as [dd [j|]] eqn:Et.
    + intro H; inversion H; subst. cbn [cur].
      destruct (take_rows_consecutive _ _ _ _ _ _ _ Et) as [Hd [Hj Hl]].
      exists (pos im s). repeat split; try discriminate; try congruence; auto.
      intros _ _. left. cbn [next_row]. f_equal. lia.
    + destruct (take_rows_consecutive _ _ _ _ _ _ _ Et) as [Hd Hl].
      unfold finish_decoding. cbn [next_row flushed cur].
      assert (Hp : (pos im s <= nrows im (cur s))%nat).
      { unfold pos, cursor_ok in *. destruct (next_row s); lia. }
      destruct (flushed s) eqn:Ef0; [|destruct (frame_end_visible im vis (cur s))]; intro H; inversion H; subst; cbn [cur next_row flushed];
        exists (pos im s); repeat split; try discriminate; try congruence; auto.
      all: try (intros; match goal with Hk : RFrame _ = RFrame _ |- _ => inversion Hk; subst; reflexivity end).
      all: try (intros; lia).
      all: try (intros; right; lia).
Qed.

(* a row call hands out exactly the row under the cursor and moves the cursor by one *)
Definition is_row_op (o : op) : Prop := o = ORow \/ o = ORowF.
Lemma row_op_step im vis s o : is_row_op o -> exists e, step im vis s o = row_step im vis s e.
Proof. intros [-> | ->]; [exists false | exists true]; reflexivity. Qed.

Theorem row_call_delivers_the_cursor_row im vis s s' k j d o :
  is_row_op o ->
  step im vis s o = (s', RRow k j, d) ->
  k = cur s /\ next_row s = Some j /\ d = [(k, j)] /\ cur s' = cur s /\
  next_row s' = (if S j <? nrows im (cur s) then Some (S j) else None).
Proof.
  intro Ho. destruct (row_op_step im vis s o Ho) as [e ->]. unfold row_step. destruct (next_row s) as [jj|].
  - destruct (row_visible im vis (cur s) jj); intro H; inversion H; subst. cbn. repeat split; reflexivity.
  - unfold finish_decoding. destruct (next_row s); [intro H; inversion H|]. destruct (flushed s); [intro H; inversion H|].
    destruct (frame_end_visible im vis (cur s)); intro H; inversion H.
Qed.

(* ------------------------------------------------------------------ frames in order, complete, then end-of-image (C09) *)
Fixpoint frames_run (im : image) (s : rstate) (n : nat) : rstate * list (res * delivered) :=
  match n with
  | O => (s, [])
  | S n' => let '(s1, r, d) := step im (total im) s OFrame in
            let '(s2, rs) := frames_run im s1 n' in (s2, (r, d) :: rs)
  end.

Lemma offset_of_le l : forall k, (offset_of l k <= offset_of l (length l))%nat.
Proof.
  induction l as [|r l IH]; intros [|k]; cbn; try lia. specialize (IH k). lia.
Qed.

Lemma all_rows_visible im k j : (k < length (rows im))%nat -> (j < nrows im k)%nat -> row_visible im (total im) k j = true.
Proof.
  intros Hk Hj. unfold row_visible, total, offset, nrows in *. apply Nat.ltb_lt.
  revert k Hk Hj. generalize (rows im) as l. induction l as [|r l IH]; intros [|k] Hk Hj; cbn in *; try lia.
  specialize (IH k ltac:(lia) Hj). lia.
Qed.

Lemma take_all_rows im k : (k < length (rows im))%nat -> forall n j, (j + n <= nrows im k)%nat ->
  take_rows im (total im) k j n = (map (fun i => (k, i)) (seq j n), None).
Proof.
  intros Hk. induction n as [|n IH]; intros j Hj; cbn [take_rows seq map]; [reflexivity|].
  rewrite all_rows_visible by (auto; lia). rewrite IH by lia. reflexivity.
Qed.

Lemma frame_end_visible_total im k : (k < length (rows im))%nat -> frame_end_visible im (total im) k = true.
Proof.
  intro Hk. unfold frame_end_visible, total, offset. apply Nat.leb_le.
  revert k Hk. generalize (rows im) as l. induction l as [|r l IH]; intros [|k] Hk; cbn in *; try lia.
  - pose proof (offset_of_le l 0). cbn in *. lia.
  - specialize (IH k ltac:(lia)). lia.
Qed.

Lemma frame_start_visible_total im k : valid im -> (1 <= k)%nat -> (k < length (rows im))%nat -> frame_start_visible im (total im) k = true.
Proof.
  intros [Hv _] H1 Hk. unfold frame_start_visible. apply orb_true_iff. left. apply Nat.ltb_lt.
  unfold total, offset. pose proof (Hv k Hk) as Hr. unfold nrows in Hr.
  revert k H1 Hk Hr. generalize (rows im) as l. induction l as [|r l IH]; intros [|k] H1 Hk Hr; cbn in *; try lia.
  destruct k as [|k].
  - destruct l as [|r2 l2]; cbn in *; [lia|]. lia.
  - specialize (IH (S k) ltac:(lia) ltac:(lia) Hr). lia.
Qed.

(* the state in which frame k is about to be delivered by whole-frame calls *)
Definition at_frame (im : image) (k : nat) (s : rstate) : Prop :=
  finished s = false /\ remaining s = declared im - k /\
  ((k = 0 /\ cur s = 0 /\ flushed s = false /\ next_row s = Some 0) \/
   (1 <= k /\ cur s = k - 1 /\ flushed s = true /\ next_row s = None)).

Lemma one_frame im k s : valid im -> (k < length (rows im))%nat -> (k < declared im)%nat -> at_frame im k s ->
  exists s', step im (total im) s OFrame = (s', RFrame k, map (fun i => (k, i)) (seq 0 (nrows im k))) /\ at_frame im (S k) s'.
Proof.
  intros Hv Hk Hd (Hfin & Hrem & Hcase). cbn [step].
  assert (Er : frame_refused s = false) by (unfold frame_refused; replace (remaining s =? 0) with false by (symmetry; apply Nat.eqb_neq; lia); reflexivity). rewrite Er.
  destruct Hcase as [(-> & Hc & Hfl & Hn) | (H1 & Hc & Hfl & Hn)].
  - unfold advancing. rewrite Hfl. cbn [andb]. rewrite Hn, Hc. rewrite Nat.sub_0_r. rewrite take_all_rows by (auto; lia).
    unfold finish_decoding. cbn [next_row flushed cur]. rewrite frame_end_visible_total by exact Hk.
    cbn. rewrite ?Hfl. cbn. eexists. split; [reflexivity|]. split; [exact Hfin|]. split; [cbn; lia|]. right. cbn. repeat split; lia.
  - unfold advancing. rewrite Hfl, Hn. cbn [andb]. unfold advance. rewrite Hc. replace (S (k - 1)) with k by lia.
    assert (E1 : (length (rows im) <=? k) = false) by (apply Nat.leb_gt; exact Hk). rewrite E1.
    rewrite frame_start_visible_total by (auto; lia). cbn [negb next_row cur flushed remaining finished].
    rewrite Nat.sub_0_r. rewrite take_all_rows by (auto; lia).
    unfold finish_decoding. cbn [next_row flushed cur]. rewrite frame_end_visible_total by exact Hk.
    cbn. rewrite ?Hfl. cbn. eexists. split; [reflexivity|]. split; [exact Hfin|]. split; [cbn; lia|]. right. cbn. repeat split; lia.
Qed.

Lemma frame_at_end im vis s : remaining s = 0 -> next_row s = None -> step im vis s OFrame = (s, REndOfImage, []).
Proof. intros H Hn. cbn [step]. unfold frame_refused. rewrite H, Hn, andb_false_r. reflexivity. Qed.

Theorem frames_in_order_then_end im : valid im -> declared im = length (rows im) -> (1 <= declared im)%nat ->
  forall n k s, at_frame im k s -> k + n = declared im ->
  exists s', frames_run im s (n + 2) =
    (s', map (fun i => (RFrame i, map (fun j => (i, j)) (seq 0 (nrows im i)))) (seq k n) ++ [(REndOfImage, []); (REndOfImage, [])]).
Proof.
  intros Hv Hdl H1. induction n as [|n IH]; intros k s Ha Hk.
  - destruct Ha as (Hfin & Hrem & Hcase). assert (E : remaining s = 0) by lia.
    assert (En : next_row s = None) by (destruct Hcase as [(K0 & _)|(_ & _ & _ & Hn)]; [lia | exact Hn]).
    change (0 + 2) with 2. cbn [frames_run]. rewrite !(frame_at_end im (total im) s E En). eexists. reflexivity.
  - destruct (one_frame im k s Hv ltac:(lia) ltac:(lia) Ha) as (s1 & Hs & Ha1).
    change (S n + 2) with (S (n + 2)). cbn [frames_run]. rewrite Hs.
    destruct (IH (S k) s1 Ha1 ltac:(lia)) as (s' & Hr). rewrite Hr.
    eexists. cbn [seq map app]. reflexivity.
Qed.

(* ------------------------------------------------------------------ the cursor invariant is preserved by every call *)
Lemma advance_cursor_ok im vis s s' : valid im -> advance im vis s = (s', None) -> cursor_ok im s'.
Proof.
  intros [Hv _]. unfold advance. destruct (Nat.leb_spec (length (rows im)) (S (cur s))); [destruct (all_visible _ _); discriminate|].
  destruct (negb _); [discriminate|]. intro Q; inversion Q; subst. unfold cursor_ok. cbn. apply Hv. lia.
Qed.

Theorem cursor_ok_init im : valid im -> (1 <= length (rows im))%nat -> cursor_ok im (reader_init im).
Proof. intros [Hv _] Hl. unfold cursor_ok, reader_init. cbn. apply Hv. lia. Qed.

Lemma row_step_preserves_cursor_ok im vis s e : cursor_ok im s -> cursor_ok im (fst (fst (row_step im vis s e))).
Proof.
  intro Hc. unfold row_step. destruct (next_row s) as [j|] eqn:En.
  - destruct (row_visible im vis (cur s) j); cbn [fst]; [|unfold cursor_ok; rewrite En; unfold cursor_ok in Hc; rewrite En in Hc; exact Hc].
    unfold cursor_ok. cbn [next_row cur]. destruct (Nat.ltb_spec (S j) (nrows im (cur s))); [assumption | exact I].
  - unfold finish_decoding. rewrite En. destruct (flushed s); [cbn; unfold cursor_ok; rewrite En; exact I|].
    destruct (frame_end_visible im vis (cur s)); cbn; unfold cursor_ok; cbn; [exact I | rewrite En; exact I].
Qed.

Theorem step_preserves_cursor_ok im vis s o :
  valid im -> cursor_ok im s -> cursor_ok im (fst (fst (step im vis s o))).
Proof.
  intros Hv Hc. destruct o; cbn [step]; try (apply row_step_preserves_cursor_ok; exact Hc).
  - (* OFrame *)
    destruct (frame_refused s); [exact Hc|].
    destruct (advancing s).
    + destruct (advance im vis s) as [s1 [r1|]] eqn:Ea.
      * cbn [fst]. revert Ea. unfold advance. destruct (_ <=? _); [destruct (all_visible _ _)|destruct (negb _)]; intro Q; inversion Q; subst; exact Hc.
      * pose proof (advance_cursor_ok _ _ _ _ Hv Ea) as Hc1.
        destruct (take_rows im vis (cur s1) _ _) as [d [j|]] eqn:Et.
        -- cbn. unfold cursor_ok. cbn. destruct (take_rows_consecutive _ _ _ _ _ _ _ Et) as [_ [Hj Hl]].
           unfold cursor_ok in Hc1. destruct (next_row s1); lia.
        -- unfold finish_decoding. cbn [next_row flushed cur]. destruct (flushed s1); [cbn; exact I|].
           destruct (frame_end_visible _ _ _); cbn; exact I.
    + destruct (take_rows im vis (cur s) _ _) as [d [j|]] eqn:Et.
      * cbn. unfold cursor_ok. cbn. destruct (take_rows_consecutive _ _ _ _ _ _ _ Et) as [_ [Hj Hl]].
        unfold cursor_ok in Hc. destruct (next_row s); lia.
      * unfold finish_decoding. cbn [next_row flushed cur]. destruct (flushed s); [cbn; exact I|].
        destruct (frame_end_visible _ _ _); cbn; exact I.
  - (* OFrameInfo *)
    destruct (_ =? 0); [exact Hc|].
    destruct (flushed s) eqn:Efl.
    + destruct (advance im vis s) as [s2 [r|]] eqn:Ea.
      * cbn [fst]. revert Ea. unfold advance. destruct (_ <=? _); [destruct (all_visible _ _)|destruct (negb _)]; intro Q; inversion Q; subst; exact Hc.
      * pose proof (advance_cursor_ok _ _ _ _ Hv Ea). destruct (has_fctl im (cur s2)); cbn; assumption.
    + unfold finish_decoding. cbn [next_row flushed cur]. rewrite ?Efl.
      destruct (frame_end_visible _ _ _); [|cbn; exact I].
      set (s1 := mk_rstate _ _ true None _).
      destruct (advance im vis s1) as [s2 [r|]] eqn:Ea.
      * cbn [fst]. revert Ea. unfold advance. destruct (_ <=? _); [destruct (all_visible _ _)|destruct (negb _)]; intro Q; inversion Q; subst; exact I.
      * pose proof (advance_cursor_ok _ _ _ _ Hv Ea). destruct (has_fctl im (cur s2)); cbn; assumption.
  - (* OFinish *)
    destruct (finished s); [exact Hc|]. destruct (all_visible _ _); cbn; exact I.
Qed.

(* ------------------------------------------------------------------ running out of input is resumable (C05) *)
Lemma ltb_mono a v v' : (v <= v')%nat -> (a <? v) = true -> (a <? v') = true.
Proof. intros H E. apply Nat.ltb_lt in E. apply Nat.ltb_lt. lia. Qed.
Lemma leb_mono a v v' : (v <= v')%nat -> (a <=? v) = true -> (a <=? v') = true.
Proof. intros H E. apply Nat.leb_le in E. apply Nat.leb_le. lia. Qed.

Lemma take_rows_resume im v v' k : (v <= v')%nat -> forall n j d jstop,
  take_rows im v k j n = (d, Some jstop) ->
  take_rows im v' k j n =
    (let '(d2, st) := take_rows im v' k jstop (n - (jstop - j)) in (d ++ d2, st)).
Proof.
  intros Hv. induction n as [|n IH]; intros j d jstop; cbn [take_rows]; [discriminate|].
  destruct (row_visible im v k j) eqn:E.
  - destruct (take_rows im v k (S j) n) as [d1 st1] eqn:E1. intro H; inversion H; subst. clear H.
    assert (E' : row_visible im v' k j = true) by (unfold row_visible in *; eapply ltb_mono; eauto).
    rewrite E'. rewrite (IH (S j) d1 jstop E1).
    destruct (take_rows_consecutive _ _ _ _ _ _ _ E1) as [_ [Hj Hl]].
    replace (S n - (jstop - j)) with (n - (jstop - S j)) by lia.
    destruct (take_rows im v' k jstop (n - (jstop - S j))) as [d2 st]. reflexivity.
  - intro H; inversion H; subst. rewrite Nat.sub_diag, Nat.sub_0_r. cbn [app].
    destruct (take_rows im v' k jstop (S n)) as [d2 st] eqn:E2. cbn [take_rows] in E2. exact E2.
Qed.

(* the three row-level calls and finish(): an UnexpectedEof leaves the reader exactly as it was (rows) / in the state
   from which repeating finish() gives what a single finish() on the longer input gives *)
Theorem row_call_eof_changes_nothing im vis s s' d o : is_row_op o -> step im vis s o = (s', REofR, d) -> s' = s /\ d = [].
Proof.
  intro Ho. destruct (row_op_step im vis s o Ho) as [e ->]. unfold row_step. destruct (next_row s) as [j|] eqn:En.
  - destruct (row_visible im vis (cur s) j); intro H; inversion H; subst; auto.
  - unfold finish_decoding. rewrite En. destruct (flushed s); [intro H; inversion H|].
    destruct (frame_end_visible im vis (cur s)); intro H; inversion H; subst; auto.
Qed.

Theorem finish_is_resumable im v v' s s1 d1 :
  step im v s OFinish = (s1, REofR, d1) ->
  d1 = [] /\ step im v' s1 OFinish = step im v' s OFinish.
Proof.
  cbn [step]. destruct (finished s) eqn:Ef; [discriminate|]. destruct (all_visible im v); [discriminate|].
  intro H; inversion H; subst. split; [reflexivity|]. cbn [finished cur]. reflexivity.
Qed.

(* next_frame: the rows written before the input ended stay written; repeating the call on a longer input writes the
   rest, and the outcome is the outcome of a single call on the longer input *)
Theorem frame_call_is_resumable im v v' s s1 d1 :
  (v <= v')%nat -> advancing s = false ->
  step im v s OFrame = (s1, REofR, d1) ->
  step im v' s OFrame = (let '(s2, r, d2) := step im v' s1 OFrame in (s2, r, d1 ++ d2)).
Proof.
  intros Hv Hfl. cbn [step]. destruct (frame_refused s) eqn:Er; [discriminate|]. rewrite Hfl.
  fold (pos im s).
  destruct (take_rows im v (cur s) (pos im s) (nrows im (cur s) - pos im s)) as [d [j|]] eqn:Et.
  - intro H; inversion H; subst. clear H. cbn [step remaining flushed next_row cur].
    (* rows were outstanding before the call (else nothing could have been left over), and still are *)
    assert (Es : exists j', next_row s = Some j').
    { destruct (next_row s) as [j'|] eqn:En; [eexists; reflexivity|]. exfalso. unfold pos in Et. rewrite En, Nat.sub_diag in Et. cbn in Et. discriminate Et. }
    destruct Es as [j' En].
    assert (Er1 : frame_refused (mk_rstate (cur s) (remaining s) (flushed s) (Some j) (finished s)) = false).
    { unfold frame_refused in *. cbn [remaining flushed next_row]. rewrite En in Er. exact Er. }
    rewrite Er1.
    unfold advancing at 1. cbn [flushed next_row]. rewrite andb_false_r.
    rewrite (take_rows_resume im v v' (cur s) Hv _ _ _ _ Et).
    destruct (take_rows_consecutive _ _ _ _ _ _ _ Et) as [_ [Hj Hl]].
    replace (nrows im (cur s) - pos im s - (j - pos im s)) with (nrows im (cur s) - j) by lia.
    unfold pos. cbn [cur next_row flushed remaining finished].
    destruct (take_rows im v' (cur s) j (nrows im (cur s) - j)) as [d2 [j2|]]; [cbn; reflexivity|].
    unfold finish_decoding. cbn [next_row flushed cur remaining finished].
    destruct (flushed s); [cbn; reflexivity|].
    destruct (frame_end_visible im v' (cur s)); cbn; reflexivity.
  - unfold finish_decoding. cbn [next_row flushed cur]. destruct (flushed s) eqn:Ef; [discriminate|].
    destruct (frame_end_visible im v (cur s)) eqn:Ev; [discriminate|].
    intro H; inversion H; subst. clear H. cbn [step remaining flushed next_row cur].
    assert (Er1 : frame_refused (mk_rstate (cur s) (remaining s) false None (finished s)) = false).
    { unfold frame_refused in *. cbn [remaining flushed next_row andb negb]. rewrite Ef in Er. cbn [andb negb] in Er. exact Er. }
    rewrite Er1.
    unfold advancing at 1. cbn [flushed next_row andb].
    (* every row was already visible under v, hence under v' *)
    assert (Et' : take_rows im v' (cur s) (pos im s) (nrows im (cur s) - pos im s) = (d1, None)).
    { clear -Et Hv. revert Et. generalize (nrows im (cur s) - pos im s) as n. generalize (pos im s) as j. intros j n. revert j d1.
      induction n as [|n IH]; intros j d1; cbn [take_rows]; [auto|].
      destruct (row_visible im v (cur s) j) eqn:E; [|intro Q; discriminate Q].
      unfold row_visible in *. rewrite (ltb_mono _ v v' Hv E). destruct (take_rows im v (cur s) (S j) n) as [dd [jj|]] eqn:E1; [cbn; intro Q; discriminate Q|].
      intro Q; inversion Q; subst. rewrite (IH _ _ E1). reflexivity. }
    rewrite Et'. rewrite Nat.sub_diag. cbn [take_rows].
    unfold finish_decoding. cbn [next_row flushed cur remaining finished]. rewrite ?Ef.
    destruct (frame_end_visible im v' (cur s)); cbn; rewrite app_nil_r; reflexivity.
Qed.

(* ------------------------------------------------------------------ the repaired defect: a frame call in mid-frame stays on its frame *)
Theorem frame_call_in_mid_frame_stays_on_the_frame im vis s s' r d j :
  next_row s = Some j ->
  step im vis s OFrame = (s', r, d) ->
  cur s' = cur s /\ (forall kk, r = RFrame kk -> kk = cur s).
Proof.
  intros Hn. cbn [step]. destruct (frame_refused s); [intro H; inversion H; subst; split; [reflexivity | discriminate]|].
  assert (Ea : advancing s = false) by (unfold advancing; rewrite Hn; apply andb_false_r). rewrite Ea.
  destruct (take_rows im vis (cur s) _ _) as [dd [jj|]].
  - intro H; inversion H; subst. split; [reflexivity | discriminate].
  - unfold finish_decoding. cbn [next_row flushed cur].
    destruct (flushed s); [|destruct (frame_end_visible im vis (cur s))]; intro H; inversion H; subst; cbn [cur];
      (split; [reflexivity | intros kk Hk; inversion Hk; reflexivity || discriminate]).
Qed.

(* non-vacuity of the early-flush state: 2 frames of 5 rows; 3 row calls, the third one flushing the sequence early; the
   frame call then delivers rows 3 and 4 of frame 0 (before the repair the code delivered frame 1 here) *)
Example early_flush_then_frame_call :
  let im := mk_image [5; 5] 2 (fun _ => true) in
  snd (run im (reader_init im) [(ORow, 10); (ORow, 10); (ORowF, 10); (OFrame, 10); (OFrame, 10)]) =
  [(RRow 0 0, [(0, 0)]); (RRow 0 1, [(0, 1)]); (RRow 0 2, [(0, 2)]); (RFrame 0, [(0, 3); (0, 4)]);
   (RFrame 1, [(1, 0); (1, 1); (1, 2); (1, 3); (1, 4)])].
Proof. vm_compute. reflexivity. Qed.

(* ------------------------------------------------------------------ the second repaired defect of the mid-frame switch: with the whole input there,
   a frame call made while rows of the current frame are outstanding SUCCEEDS and delivers exactly those rows - also when the data sequence of the
   (last) frame was flushed early and the frame was already counted off (remaining = 0), where the call used to answer "end of image" *)
Theorem frame_call_in_mid_frame_completes_the_frame im s j :
  (cur s < length (rows im))%nat -> next_row s = Some j -> (j < nrows im (cur s))%nat ->
  (flushed s = false -> remaining s <> 0) ->
  exists s', step im (total im) s OFrame = (s', RFrame (cur s), map (fun i => (cur s, i)) (seq j (nrows im (cur s) - j))) /\
             cur s' = cur s /\ next_row s' = None /\ flushed s' = true.
Proof.
  intros Hk Hn Hj Hrem. cbn [step].
  assert (Er : frame_refused s = false).
  { unfold frame_refused. rewrite Hn. destruct (flushed s) eqn:Ef; cbn [andb negb]; [apply andb_false_r|].
    rewrite andb_true_r. apply Nat.eqb_neq. exact (Hrem eq_refl). }
  rewrite Er.
  assert (Ea : advancing s = false) by (unfold advancing; rewrite Hn; apply andb_false_r). rewrite Ea.
  rewrite Hn. rewrite take_all_rows by (auto; lia).
  unfold finish_decoding. cbn [next_row flushed cur remaining finished].
  destruct (flushed s) eqn:Ef.
  - eexists. split; [reflexivity|]. cbn. auto.
  - rewrite frame_end_visible_total by exact Hk. eexists. split; [reflexivity|]. cbn. auto.
Qed.

(* non-vacuity: one frame of 5 rows (the LAST frame); the third row call flushes the sequence early and counts the frame off; the frame call then
   still delivers rows 3 and 4, and only the call after it reports the end of the image *)
Example early_flush_on_the_last_frame :
  let im := mk_image [5] 1 (fun _ => false) in
  snd (run im (reader_init im) [(ORow, 5); (ORow, 5); (ORowF, 5); (OFrame, 5); (OFrame, 5)]) =
  [(RRow 0 0, [(0, 0)]); (RRow 0 1, [(0, 1)]); (RRow 0 2, [(0, 2)]); (RFrame 0, [(0, 3); (0, 4)]); (REndOfImage, [])].
Proof. vm_compute. reflexivity. Qed.
