(* Decision lemmas about the L0 stream machine: checksum policy (C11), structural rejections (C10),
   chunk codecs and harmless-chunk lemmas (C16).  Each is a statement about one transition / one parser, for
   ALL states and payloads satisfying the stated hypotheses. *)
From PngV Require Import Base.Bytes Base.Crc Gen.GenStream Model.Stream Proofs.StreamProofs.
From RecordUpdate Require Import RecordSet.
Import RecordSetNotations.
From Coq Require Import ZifyBool.

Section WithInflate.
Variable zinf : bool -> list Z -> list Z * dstatus.
Variable zall : list Z -> option (list Z).
Variable utf8_valid : list Z -> bool.
Notation parse_chunk := (parse_chunk zall utf8_valid).
Notation parse_u32 := (parse_u32 zinf).
Notation next_state := (next_state zinf zall utf8_valid).

(* ================================================================== C11: CRC policy *)
Lemma critical_kinds :
  is_critical ct_IHDR = true /\ is_critical ct_PLTE = true /\ is_critical ct_IDAT = true /\ is_critical ct_IEND = true /\
  is_critical ct_fdAT = false /\ is_critical ct_fcTL = false /\ is_critical ct_acTL = false /\ is_critical ct_gAMA = false /\
  is_critical ct_tRNS = false /\ is_critical ct_tEXt = false.
Proof. vm_compute. repeat split; reflexivity. Qed.

(* a CRC mismatch (checking on) in a critical chunk or in fdAT, or in any chunk when ancillary failures are not
   skipped, is a fatal CrcMismatch: the decoder is poisoned and no ChunkComplete / ImageEnd is reported *)
Lemma crc_mismatch_fatal s ty b0 b1 b2 b3 :
  o_ignore_crc (opts s) = false -> be32 b0 b1 b2 b3 <> crc_finish (c_crc s) ->
  (is_critical ty = true \/ ty = ct_fdAT \/ o_skip_anc_crc (opts s) = false) ->
  parse_u32 s (KCrc ty) [b0; b1; b2; b3] = (s <| st := None |>, Err (EFormat FCrcMismatch)).
Proof.
  intros Hi Hne Hc. unfold Stream.parse_u32, poison. rewrite Hi.
  destruct (Z.eqb_spec (be32 b0 b1 b2 b3) (crc_finish (c_crc s))) as [E|E]; [contradiction|].
  destruct Hc as [Hc | [Hc | Hc]].
  - rewrite Hc. rewrite andb_false_r. reflexivity.
  - subst ty. rewrite Z.eqb_refl. rewrite !andb_false_r. reflexivity.
  - rewrite Hc. reflexivity.
Qed.

(* matching CRC: the chunk completes (IEND ends the image) *)
Lemma crc_match_completes s ty b0 b1 b2 b3 :
  o_ignore_crc (opts s) = false -> be32 b0 b1 b2 b3 = crc_finish (c_crc s) ->
  parse_u32 s (KCrc ty) [b0; b1; b2; b3] =
    if ty =? ct_IEND then (s <| st := None |>, Ok (EImageEnd, []))
    else (s <| st := Some (SU32 KLen []) |>, Ok (EChunkComplete (be32 b0 b1 b2 b3) ty, [])).
Proof.
  intros Hi He. unfold Stream.parse_u32, goto. rewrite Hi, He, Z.eqb_refl. reflexivity.
Qed.

(* an ancillary chunk (other than fdAT) with a wrong CRC is passed over silently when skipping is on:
   no ChunkComplete event; the only field of the state that changes is the control state *)
Lemma crc_mismatch_skipped s ty b0 b1 b2 b3 :
  o_ignore_crc (opts s) = false -> be32 b0 b1 b2 b3 <> crc_finish (c_crc s) ->
  is_critical ty = false -> ty <> ct_fdAT -> o_skip_anc_crc (opts s) = true ->
  parse_u32 s (KCrc ty) [b0; b1; b2; b3] = (s <| st := Some (SU32 KLen []) |>, Ok (ENothing, [])).
Proof.
  intros Hi Hne Hc Hf Hs. unfold Stream.parse_u32, goto. rewrite Hi, Hs, Hc.
  destruct (Z.eqb_spec (be32 b0 b1 b2 b3) (crc_finish (c_crc s))) as [E|E]; [contradiction|].
  destruct (Z.eqb_spec ty ct_fdAT) as [E2|E2]; [contradiction|]. reflexivity.
Qed.

(* with CRC checking disabled the transition does not look at the CRC field: the next state is the same for
   any two field values, and the event differs at most in the CRC value it carries *)
Lemma crc_ignored s ty (f1 f2 : list Z) :
  o_ignore_crc (opts s) = true -> length f1 = 4%nat -> length f2 = 4%nat ->
  fst (parse_u32 s (KCrc ty) f1) = fst (parse_u32 s (KCrc ty) f2) /\
  match snd (parse_u32 s (KCrc ty) f1), snd (parse_u32 s (KCrc ty) f2) with
  | Ok (EChunkComplete _ t1, a1), Ok (EChunkComplete _ t2, a2) => t1 = t2 /\ a1 = a2
  | Ok (EImageEnd, a1), Ok (EImageEnd, a2) => a1 = a2
  | _, _ => False
  end.
Proof.
  intros Hi H1 H2. destruct (bytes4 f1 H1) as (a & b & c & d & ->). destruct (bytes4 f2 H2) as (a' & b' & c' & d' & ->).
  unfold Stream.parse_u32, goto. rewrite Hi, !Z.eqb_refl. destruct (ty =? ct_IEND); cbn; auto.
Qed.

(* while CRC checking is disabled the running CRC is not even computed for buffered chunks *)
Lemma crc_not_accumulated_when_ignored s ty buf :
  o_ignore_crc (opts s) = true -> st s = Some (SRead ty) ->
  c_crc (fst (next_state s buf)) = c_crc s.
Proof.
  intros Hi Hst. unfold Stream.next_state. rewrite Hst.
  destruct (c_remaining s =? 0); [reflexivity|].
  destruct (c_cap s - zlen (c_raw s) <=? 0); [reflexivity|]. cbv zeta. rewrite Hi. reflexivity.
Qed.

(* ================================================================== C11: Adler-32 policy *)
(* the inflater is always asked to check the zlib checksum exactly when the latched flag says so ... *)
Lemma decompress_uses_flag z data :
  z_done zinf z = false ->
  z_decompress zinf z data =
    let '(out, stat) := zinf (negb (z_ignore_adler z)) (z_in z ++ data) in
    match stat with
    | DError => Err (EFormat FCorruptFlateStream)
    | _ => Ok (z <| z_in := z_in z ++ data |> <| z_emitted := zlen out |> <| z_started := true |>, skipn (Z.to_nat (z_emitted z)) out)
    end.
Proof. intro H. unfold z_decompress. rewrite H. reflexivity. Qed.

(* ... and the flag survives every reset of the inflater (between data sequences and at every fcTL) *)
Lemma zreset_keeps_flag z : z_ignore_adler (zreset z) = z_ignore_adler z.
Proof. reflexivity. Qed.

(* ================================================================== C10: structural rejections *)
Lemma bad_signature_1 s bytes : list_eqb bytes SIG1 = false ->
  parse_u32 s KSig1 bytes = (s <| st := None |>, Err (EFormat FInvalidSignature)).
Proof. intro H. unfold Stream.parse_u32, poison. rewrite H. reflexivity. Qed.
Lemma bad_signature_2 s bytes : list_eqb bytes SIG2 = false ->
  parse_u32 s KSig2 bytes = (s <| st := None |>, Err (EFormat FInvalidSignature)).
Proof. intro H. unfold Stream.parse_u32, poison. rewrite H. reflexivity. Qed.

Lemma first_chunk_must_be_ihdr s len b0 b1 b2 b3 :
  info s = None -> be32 b0 b1 b2 b3 <> ct_IHDR ->
  parse_u32 s (KType len) [b0; b1; b2; b3] = (s <| st := None |>, Err (EFormat FChunkBeforeIhdr)).
Proof.
  intros Hi Hne. unfold Stream.parse_u32, poison. rewrite Hi.
  destruct (Z.eqb_spec (be32 b0 b1 b2 b3) ct_IHDR); [contradiction|]. reflexivity.
Qed.

Lemma ihdr_not_benign : is_benign ct_IHDR = false /\ is_benign ct_PLTE = false /\ is_benign ct_fcTL = false /\ is_benign ct_acTL = false.
Proof. vm_compute. repeat split; reflexivity. Qed.

Lemma second_ihdr_rejected s i : info s = Some i ->
  snd (parse_chunk s ct_IHDR) = Err (EFormat FDuplicateChunk) /\ st (fst (parse_chunk s ct_IHDR)) = None.
Proof.
  intro Hi. unfold Stream.parse_chunk. rewrite Z.eqb_refl. unfold parse_ihdr_full, parse_ihdr. cbn [info]. 
  replace (info (s <| st := Some (SU32 (KCrc ct_IHDR) []) |>)) with (info s) by reflexivity. rewrite Hi.
  destruct ihdr_not_benign as [-> _]. split; reflexivity.
Qed.

Lemma second_plte_rejected s : anc_has KPalette (the_info s) = true ->
  snd (parse_chunk s ct_PLTE) = Err (EFormat FDuplicateChunk) /\ st (fst (parse_chunk s ct_PLTE)) = None.
Proof.
  intro Hp. unfold Stream.parse_chunk.
  change (ct_PLTE =? ct_IHDR) with false. change (ct_PLTE =? ct_sBIT) with false. rewrite Z.eqb_refl.
  unfold parse_plte.
  replace (the_info (s <| st := Some (SU32 (KCrc ct_PLTE) []) |>)) with (the_info s) by reflexivity. rewrite Hp.
  destruct ihdr_not_benign as (_ & -> & _). split; reflexivity.
Qed.

(* image-data chunks must be consecutive: once a data sequence was flushed, another IDAT is refused *)
Lemma idat_restart_rejected s len i b0 b1 b2 b3 :
  be32 b0 b1 b2 b3 = ct_IDAT ->
  info s = Some i -> ready_idat s = false -> c_type s <> ct_IDAT -> c_type s <> ct_fdAT ->
  parse_u32 s (KType len) [b0; b1; b2; b3] = (s <| st := None |>, Err (EFormat FUnexpectedRestart)).
Proof.
  intros Hb Hi Hr H1 H2. unfold Stream.parse_u32, poison. rewrite Hb, Hi.
  destruct (Z.eqb_spec (c_type s) ct_IDAT); [contradiction|]. destruct (Z.eqb_spec (c_type s) ct_fdAT); [contradiction|].
  cbn [orb andb negb]. rewrite andb_false_r. change (ct_IDAT =? ct_fdAT) with false. rewrite Z.eqb_refl. rewrite Hr. reflexivity.
Qed.

(* ... and the end of a data sequence (any other chunk type after IDAT/fdAT) is what clears the readiness flags *)
Lemma data_sequence_end_clears_readiness s len i b0 b1 b2 b3 s' e a :
  info s = Some i -> (c_type s = ct_IDAT \/ c_type s = ct_fdAT) -> be32 b0 b1 b2 b3 <> c_type s ->
  parse_u32 s (KType len) [b0; b1; b2; b3] = (s', Ok (e, a)) ->
  e = EImageDataFlushed /\ ready_idat s' = false /\ ready_fdat s' = false /\ st s' = Some (SU32 (KType len) [b0; b1; b2; b3]).
Proof.
  intros Hi Hc Hne. unfold Stream.parse_u32, goto, poison. rewrite Hi. cbn [andb negb].
  destruct (Z.eqb_spec (be32 b0 b1 b2 b3) (c_type s)) as [E|E]; [contradiction|]. cbn [negb andb].
  assert (Hor : ((c_type s =? ct_IDAT) || (c_type s =? ct_fdAT)) = true).
  { destruct Hc as [-> | ->]; [rewrite Z.eqb_refl; reflexivity | rewrite Z.eqb_refl; apply orb_true_r]. }
  rewrite Hor. destruct (z_finish zinf _) as [[z out]|err|p]; intro H; inversion H; subst; cbn; auto.
Qed.

Lemma fdat_rules s len i b0 b1 b2 b3 :
  be32 b0 b1 b2 b3 = ct_fdAT ->
  info s = Some i -> c_type s = ct_fdAT \/ (c_type s <> ct_IDAT /\ c_type s <> ct_fdAT) ->
  (ready_fdat s = false -> parse_u32 s (KType len) [b0; b1; b2; b3] = (s <| st := None |>, Err (EFormat FUnexpectedRestart))) /\
  (ready_fdat s = true -> len < 4 -> parse_u32 s (KType len) [b0; b1; b2; b3] = (s <| st := None |>, Err (EFormat FFdatShorterThanFourBytes))).
Proof.
  intros Hb Hi Hc. unfold Stream.parse_u32, poison. rewrite Hb, Hi. cbn [andb negb].
  assert (E : (negb (ct_fdAT =? c_type s) && ((c_type s =? ct_IDAT) || (c_type s =? ct_fdAT))) = false).
  { destruct Hc as [-> | [H1 H2]]; [rewrite Z.eqb_refl; reflexivity|].
    destruct (Z.eqb_spec (c_type s) ct_IDAT); [contradiction|]. destruct (Z.eqb_spec (c_type s) ct_fdAT); [contradiction|]. apply andb_false_r. }
  rewrite E, Z.eqb_refl. split.
  - intros ->. reflexivity.
  - intros -> Hl. cbn [negb]. destruct (Z.ltb_spec len 4); [reflexivity | lia].
Qed.

(* sequence numbers of fdAT chunks: a gap or repetition is refused, as is frame data before any fcTL *)
Lemma fdat_sequence_rules s b0 b1 b2 b3 :
  4 <= c_remaining s ->
  (seq s = None -> snd (parse_u32 s KSeq [b0; b1; b2; b3]) = Err (EFormat FMissingFctl)) /\
  (forall q, seq s = Some q -> be32 b0 b1 b2 b3 <> q + 1 -> snd (parse_u32 s KSeq [b0; b1; b2; b3]) = Err (EFormat FApngOrder)) /\
  (forall q, seq s = Some q -> be32 b0 b1 b2 b3 = q + 1 ->
     seq (fst (parse_u32 s KSeq [b0; b1; b2; b3])) = Some (q + 1) /\ exists e a, snd (parse_u32 s KSeq [b0; b1; b2; b3]) = Ok (e, a)).
Proof.
  intro Hr. unfold Stream.parse_u32, goto, poison.
  destruct (Z.ltb_spec (c_remaining s) 4); [lia|]. cbn [seq]. 
  replace (seq (s <| c_remaining := c_remaining s - 4 |>)) with (seq s) by reflexivity.
  split; [|split].
  - intros ->. reflexivity.
  - intros q -> Hne. destruct (Z.eqb_spec (be32 b0 b1 b2 b3) (q + 1)); [contradiction|]. reflexivity.
  - intros q -> He. rewrite He, Z.eqb_refl. cbn [negb]. destruct (o_ignore_crc _); cbn; eauto.
Qed.

(* fcTL sequence number: must continue the count; the frame rectangle must be non-empty and inside the canvas *)
Lemma validate_fctl_exact (i : info_t) (f : fctl) :
  0 <= fc_x f -> 0 <= fc_y f -> 0 <= fc_w f -> 0 <= fc_h f ->
  (validate_fctl i f = Ok tt <->
   0 < fc_w f /\ 0 < fc_h f /\ fc_x f + fc_w f <= i_width i /\ fc_y f + fc_h f <= i_height i).
Proof.
  intros Hx Hy Hw Hh. unfold validate_fctl.
  destruct (Z.eqb_spec (fc_w f) 0), (Z.eqb_spec (fc_h f) 0); cbn [orb]; try (split; [discriminate | lia]).
  destruct (Z.leb_spec (fc_x f) (i_width i)), (Z.leb_spec (fc_w f) (i_width i - fc_x f)),
           (Z.leb_spec (fc_y f) (i_height i)), (Z.leb_spec (fc_h f) (i_height i - fc_y f));
    cbn [andb negb orb]; split; intro Hgoal; try discriminate; try reflexivity; try lia.
Qed.

(* IHDR field validation is exact: accepted iff non-zero size, one of the 15 legal colour/depth pairs, methods 0, interlace 0/1 *)
Definition legal_pairs : list (Z * Z) :=
  [(0,1);(0,2);(0,4);(0,8);(0,16);(2,8);(2,16);(3,1);(3,2);(3,4);(3,8);(4,8);(4,16);(6,8);(6,16)].
Definition pair_in (c d : Z) (l : list (Z * Z)) : bool := existsb (fun p => (fst p =? c) && (snd p =? d)) l.

Definition zrange256 : list Z := map Z.of_nat (List.seq 0 256).
Lemma zrange256_in x : 0 <= x < 256 -> In x zrange256.
Proof. intro H. unfold zrange256. apply in_map_iff. exists (Z.to_nat x). split; [lia|]. apply List.in_seq. lia. Qed.

Definition legal_pairs_check : bool :=
  forallb (fun c => forallb (fun d =>
     Bool.eqb (depth_ok d && color_ok c && negb (combination_invalid c d)) (pair_in c d legal_pairs)) zrange256) zrange256.
Lemma legal_pairs_check_true : legal_pairs_check = true.
Proof. vm_compute. reflexivity. Qed.

(* for the byte values a header can hold (finite sweep over all 65536 pairs, lifted) *)
Lemma legal_pairs_exact c d : byte_ok c -> byte_ok d ->
  (depth_ok d && color_ok c && negb (combination_invalid c d)) = pair_in c d legal_pairs.
Proof.
  intros Hc Hd. pose proof legal_pairs_check_true as H. unfold legal_pairs_check in H.
  rewrite forallb_forall in H. specialize (H c (zrange256_in c Hc)). rewrite forallb_forall in H.
  specialize (H d (zrange256_in d Hd)). apply Bool.eqb_prop in H. exact H.
Qed.

Lemma ihdr_validation_exact s w0 w1 w2 w3 h0 h1 h2 h3 d c cm fm il :
  info s = None -> c_raw s = [w0; w1; w2; w3; h0; h1; h2; h3; d; c; cm; fm; il] -> byte_ok c -> byte_ok d ->
  ((exists e, snd (parse_ihdr s) = Ok e) <->
   be32 w0 w1 w2 w3 <> 0 /\ be32 h0 h1 h2 h3 <> 0 /\ pair_in c d legal_pairs = true /\ cm = 0 /\ fm = 0 /\ (il = 0 \/ il = 1)).
Proof.
  intros Hi Hr Hbc Hbd. unfold parse_ihdr. rewrite Hi, Hr. cbn [snd rd32 rd8 obind].
  rewrite <- (legal_pairs_exact c d Hbc Hbd).
  destruct (Z.eqb_spec (be32 w0 w1 w2 w3) 0), (Z.eqb_spec (be32 h0 h1 h2 h3) 0); cbn [orb];
    try (split; [intros [ev Hev]; discriminate | intros (H1 & H2 & _); contradiction]).
  destruct (depth_ok d); cbn [negb andb]; [| split; [intros [ev Hev]; discriminate | intros (_ & _ & H3 & _); discriminate]].
  destruct (color_ok c); cbn [negb andb]; [| split; [intros [ev Hev]; discriminate | intros (_ & _ & H3 & _); discriminate]].
  destruct (combination_invalid c d); cbn [negb]; [split; [intros [ev Hev]; discriminate | intros (_ & _ & H3 & _); discriminate]|].
  destruct (Z.eqb_spec cm 0); cbn [negb]; [| split; [intros [ev Hev]; discriminate | intros (_ & _ & _ & H4 & _); contradiction]].
  destruct (Z.eqb_spec fm 0); cbn [negb]; [| split; [intros [ev Hev]; discriminate | intros (_ & _ & _ & _ & H5 & _); contradiction]].
  destruct (Z.eqb_spec il 0), (Z.eqb_spec il 1); cbn [orb negb]; split; intro H; try (eexists; reflexivity); try (repeat split; auto; lia).
  destruct H as [ev Hev]. discriminate.
Qed.

(* ================================================================== C16: chunk codecs *)
Lemma rd32_to_be32 v rest : 0 <= v < 4294967296 -> rd32 (to_be32 v ++ rest) = Ok (v, rest).
Proof.
  intro H. unfold to_be32. cbn [app rd32]. f_equal. f_equal. unfold be32. Z.div_mod_to_equations. lia.
Qed.
Lemma rd16_to_be16 v rest : 0 <= v < 65536 -> rd16 (to_be16 v ++ rest) = Ok (v, rest).
Proof. intro H. unfold to_be16. cbn [app rd16]. f_equal. f_equal. unfold be16. Z.div_mod_to_equations. lia. Qed.

Definition u32 (v : Z) : Prop := 0 <= v < 4294967296.

(* gAMA: the 4-byte big-endian value is reported as is (first occurrence, before image data) *)
Lemma codec_gama s g : u32 g -> have_idat s = false -> anc_has KGama (the_info s) = false -> c_raw s = to_be32 g ->
  parse_gama s = (upd_info s (anc_set KGama [g]), Ok ENothing).
Proof.
  intros Hg Hi Ha Hr. unfold parse_gama. rewrite Hi, Ha, Hr. rewrite <- (app_nil_r (to_be32 g)), rd32_to_be32 by exact Hg. reflexivity.
Qed.

(* pHYs: x, y pixels per unit and the unit specifier *)
Lemma codec_phys s x y u : u32 x -> u32 y -> (u = 0 \/ u = 1) -> have_idat s = false -> anc_has KPhys (the_info s) = false ->
  c_raw s = to_be32 x ++ to_be32 y ++ [u] ->
  parse_phys s = (upd_info s (anc_set KPhys [x; y; u]), Ok (EPixelDimensions x y u)).
Proof.
  intros Hx Hy Hu Hi Ha Hr. unfold parse_phys. rewrite Hi, Ha, Hr. cbn [obind]. rewrite rd32_to_be32 by exact Hx. cbn [obind].
  rewrite rd32_to_be32 by exact Hy. cbn [obind rd8]. destruct Hu as [-> | ->]; reflexivity.
Qed.

(* cHRM: white point x,y then red, green, blue x,y, in this order *)
Lemma codec_chrm s wx wy rx ry gx gy bx by_ :
  u32 wx -> u32 wy -> u32 rx -> u32 ry -> u32 gx -> u32 gy -> u32 bx -> u32 by_ ->
  have_idat s = false -> anc_has KChrm (the_info s) = false ->
  c_raw s = to_be32 wx ++ to_be32 wy ++ to_be32 rx ++ to_be32 ry ++ to_be32 gx ++ to_be32 gy ++ to_be32 bx ++ to_be32 by_ ->
  parse_chrm s = (upd_info s (anc_set KChrm [wx; wy; rx; ry; gx; gy; bx; by_]), Ok ENothing).
Proof.
  intros H1 H2 H3 H4 H5 H6 H7 H8 Hi Ha Hr. unfold parse_chrm. rewrite Hi, Ha, Hr. cbn [rd32s obind].
  repeat (rewrite rd32_to_be32 by assumption; cbn [obind]).
  rewrite <- (app_nil_r (to_be32 by_)), rd32_to_be32 by assumption. reflexivity.
Qed.

Lemma codec_srgb s r : 0 <= r <= 3 -> have_idat s = false -> anc_has KSrgb (the_info s) = false -> c_raw s = [r] ->
  parse_srgb s = (upd_info s (anc_set KSrgb [r]), Ok ENothing).
Proof.
  intros Hr Hi Ha Hc. unfold parse_srgb. rewrite Hi, Ha, Hc. cbn [rd8].
  destruct (Z.leb_spec 0 r), (Z.leb_spec r 3); try lia. reflexivity.
Qed.

Lemma codec_actl s f p : u32 f -> u32 p -> have_idat s = false -> c_raw s = to_be32 f ++ to_be32 p ->
  parse_actl s = (upd_info s (fun i => i <| i_actl := Some (f, p) |>), Ok (EAnimationControl f p)).
Proof.
  intros Hf Hp Hi Hr. unfold parse_actl. rewrite Hi, Hr. cbn [obind]. rewrite rd32_to_be32 by exact Hf. cbn [obind].
  rewrite <- (app_nil_r (to_be32 p)), rd32_to_be32 by exact Hp. reflexivity.
Qed.

Lemma codec_clli s a b : u32 a -> u32 b -> anc_has KClli (the_info s) = false -> c_raw s = to_be32 a ++ to_be32 b ->
  parse_clli s = (upd_info s (anc_set KClli [a; b]), Ok ENothing).
Proof.
  intros Ha Hb Hn Hr. unfold u32 in *. unfold parse_clli. rewrite Hn, Hr. unfold to_be32. cbn [app negb].
  repeat f_equal; unfold be32; Z.div_mod_to_equations; lia.
Qed.

(* fcTL: all nine fields, big-endian, in specification order; accepted exactly when the sequence number is the
   expected one, the ops are legal and the rectangle validates *)
Lemma codec_fctl s n w h x y dn dd dop bop :
  u32 n -> u32 w -> u32 h -> u32 x -> u32 y -> 0 <= dn < 65536 -> 0 <= dd < 65536 ->
  (dop = 0 \/ dop = 1 \/ dop = 2) -> (bop = 0 \/ bop = 1) ->
  n = match seq s with Some q => q + 1 | None => 0 end ->
  c_raw s = to_be32 n ++ to_be32 w ++ to_be32 h ++ to_be32 x ++ to_be32 y ++ to_be16 dn ++ to_be16 dd ++ [dop; bop] ->
  validate_fctl (the_info s) (mk_fctl n w h x y dn dd dop bop) = Ok tt ->
  snd (parse_fctl s) = Ok (EFrameControl (mk_fctl n w h x y dn dd dop bop)) /\
  i_fctl (the_info (fst (parse_fctl s))) = Some (mk_fctl n w h x y dn dd dop bop) /\
  seq (fst (parse_fctl s)) = Some n.
Proof.
  intros Hn Hw Hh Hx Hy Hdn Hdd Hdop Hbop Hseq Hr Hv. unfold parse_fctl. rewrite Hr.
  rewrite rd32_to_be32 by exact Hn. rewrite <- Hseq, Z.eqb_refl. cbn [negb obind].
  repeat (rewrite rd32_to_be32 by assumption; cbn [obind]).
  repeat (rewrite rd16_to_be16 by assumption; cbn [obind]). cbn [rd8 obind].
  assert (E1 : ((dop =? 0) || (dop =? 1) || (dop =? 2)) = true) by (destruct Hdop as [-> | [-> | ->]]; reflexivity).
  assert (E2 : ((bop =? 0) || (bop =? 1)) = true) by (destruct Hbop as [-> | ->]; reflexivity).
  rewrite E1, E2. cbn [negb].
  replace (the_info (s <| seq := Some n |> <| infl := zreset (infl s) |> <| ready_fdat := true |>)) with (the_info s) by reflexivity.
  rewrite Hv. cbn [obind]. repeat split; reflexivity.
Qed.

(* cICP: colour primaries, transfer function, matrix coefficients (must be 0), full-range flag (0/1) *)
Lemma codec_cicp s cp tf fr : (fr = 0 \/ fr = 1) -> before_plte_and_idat s = true -> anc_has KCicp (the_info s) = false ->
  c_raw s = [cp; tf; 0; fr] ->
  parse_cicp s = (upd_info s (anc_set KCicp [cp; tf; 0; fr]), Ok ENothing).
Proof.
  intros Hfr Hb Ha Hr. unfold parse_cicp. rewrite Hb, Ha, Hr. cbn [negb andb]. destruct Hfr as [-> | ->]; reflexivity.
Qed.

(* mDCV: the chunk stores red, green, blue, white (x then y, 16 bits, in units of 0.00002), then max and min luminance (32 bits);
   the decoder reports white, red, green, blue in units of 0.00001 (each value doubled), then the two luminances *)
Lemma to_be16_be16 v : 0 <= v < 65536 -> exists a b, to_be16 v = [a; b] /\ be16 a b = v.
Proof. intro H. exists ((v / 256) mod 256), (v mod 256). split; [reflexivity|]. unfold be16. Z.div_mod_to_equations. lia. Qed.
Lemma to_be32_be32 v : 0 <= v < 4294967296 -> exists a b c d, to_be32 v = [a; b; c; d] /\ be32 a b c d = v.
Proof.
  intro H. exists ((v / 16777216) mod 256), ((v / 65536) mod 256), ((v / 256) mod 256), (v mod 256). split; [reflexivity|].
  unfold be32. Z.div_mod_to_equations. lia.
Qed.

Lemma codec_mdcv s rx ry gx gy bx by_ wx wy mx mn :
  0 <= rx < 65536 -> 0 <= ry < 65536 -> 0 <= gx < 65536 -> 0 <= gy < 65536 -> 0 <= bx < 65536 -> 0 <= by_ < 65536 ->
  0 <= wx < 65536 -> 0 <= wy < 65536 -> u32 mx -> u32 mn ->
  before_plte_and_idat s = true -> anc_has KMdcv (the_info s) = false ->
  c_raw s = to_be16 rx ++ to_be16 ry ++ to_be16 gx ++ to_be16 gy ++ to_be16 bx ++ to_be16 by_ ++ to_be16 wx ++ to_be16 wy ++ to_be32 mx ++ to_be32 mn ->
  parse_mdcv s = (upd_info s (anc_set KMdcv [wx * 2; wy * 2; rx * 2; ry * 2; gx * 2; gy * 2; bx * 2; by_ * 2; mx; mn]), Ok ENothing).
Proof.
  intros H1 H2 H3 H4 H5 H6 H7 H8 H9 H10 Hb Ha Hr. unfold u32 in *.
  destruct (to_be16_be16 rx H1) as (a1 & b1 & E1 & F1). destruct (to_be16_be16 ry H2) as (a2 & b2 & E2 & F2).
  destruct (to_be16_be16 gx H3) as (a3 & b3 & E3 & F3). destruct (to_be16_be16 gy H4) as (a4 & b4 & E4 & F4).
  destruct (to_be16_be16 bx H5) as (a5 & b5 & E5 & F5). destruct (to_be16_be16 by_ H6) as (a6 & b6 & E6 & F6).
  destruct (to_be16_be16 wx H7) as (a7 & b7 & E7 & F7). destruct (to_be16_be16 wy H8) as (a8 & b8 & E8 & F8).
  destruct (to_be32_be32 mx H9) as (x0 & x1 & x2 & x3 & E9 & F9). destruct (to_be32_be32 mn H10) as (n0 & n1 & n2 & n3 & E10 & F10).
  unfold parse_mdcv. rewrite Hb, Ha, Hr, E1, E2, E3, E4, E5, E6, E7, E8, E9, E10. cbn [app negb andb].
  rewrite F1, F2, F3, F4, F5, F6, F7, F8, F9, F10. reflexivity.
Qed.

(* sBIT: one byte per channel (1, 3, 2 or 4 of them), each between 1 and the sample depth; bKGD: 1, 2 or 6 bytes; both stored verbatim *)
Lemma codec_sbit s v : anc_has KPalette (the_info s) = false -> have_idat s = false -> anc_has KSbit (the_info s) = false ->
  c_raw s = v -> zlen v <= budget s -> zlen v = sbit_expected (i_color (the_info s)) ->
  Forall (fun b => 1 <= b <= (if i_color (the_info s) =? 3 then 8 else i_depth (the_info s))) v ->
  exists s', parse_sbit s = (upd_info s' (anc_set KSbit v), Ok ENothing) /\ budget s' = budget s - zlen v.
Proof.
  intros Hp Hi Ha Hr Hb Hl Hv. unfold parse_sbit, reserve. rewrite Hp, Hi, Ha, Hr.
  destruct (Z.leb_spec (zlen v) (budget s)) as [_|Hgt]; [|lia].
  replace (c_raw (s <| budget := budget s - zlen v |>)) with (c_raw s) by (destruct s; reflexivity). rewrite Hr.
  rewrite Hl, Z.eqb_refl. cbn [negb].
  assert (E : existsb (fun b => (b <? 1) || ((if i_color (the_info s) =? 3 then 8 else i_depth (the_info s)) <? b)) v = false).
  { apply not_true_is_false. intro Hex. apply existsb_exists in Hex. destruct Hex as (b & Hin & Hb2). rewrite Forall_forall in Hv. specialize (Hv b Hin). lia. }
  rewrite E. eexists. split; [reflexivity|]. destruct s; reflexivity.
Qed.

Lemma codec_bkgd s v : anc_has KBkgd (the_info s) = false -> have_idat s = false ->
  (i_color (the_info s) = 3 -> anc_has KPalette (the_info s) = true) ->
  c_raw s = v -> zlen v = (if i_color (the_info s) =? 3 then 1 else if (i_color (the_info s) =? 0) || (i_color (the_info s) =? 4) then 2 else 6) ->
  parse_bkgd s = (upd_info s (anc_set KBkgd v), Ok ENothing).
Proof.
  intros Ha Hi Hp Hr Hl. unfold parse_bkgd. rewrite Ha, Hi, Hr. cbn [negb andb].
  destruct (Z.eqb_spec (i_color (the_info s)) 3) as [E3|N3].
  - rewrite (Hp E3). cbn [negb andb]. rewrite Hl, Z.eqb_refl. reflexivity.
  - cbn [andb]. rewrite Hl, Z.eqb_refl. reflexivity.
Qed.

(* first occurrence wins for the kinds documented so: a later instance changes nothing and raises nothing *)
Lemma first_wins s :
  (anc_has KCicp (the_info s) = true -> parse_cicp s = (s, Ok ENothing)) /\
  (anc_has KMdcv (the_info s) = true -> parse_mdcv s = (s, Ok ENothing)) /\
  (anc_has KClli (the_info s) = true -> parse_clli s = (s, Ok ENothing)) /\
  (anc_has KExif (the_info s) = true -> parse_exif s = (s, Ok ENothing)) /\
  (anc_has KBkgd (the_info s) = true -> parse_bkgd s = (s, Ok ENothing)) /\
  (have_iccp s = true -> have_idat s = false -> parse_iccp zall s = (s, Ok ENothing)).
Proof.
  repeat split; intro H.
  - unfold parse_cicp. rewrite H, andb_false_r. reflexivity.
  - unfold parse_mdcv. rewrite H, andb_false_r. reflexivity.
  - unfold parse_clli. rewrite H. reflexivity.
  - unfold parse_exif. rewrite H. reflexivity.
  - unfold parse_bkgd. rewrite H. reflexivity.
  - intro H2. unfold parse_iccp. rewrite H2, H. reflexivity.
Qed.

(* a later duplicate of gAMA/cHRM/sRGB/pHYs/sBIT/tRNS is an error inside the parser ... *)
Lemma duplicates_error s :
  (have_idat s = false -> anc_has KGama (the_info s) = true -> parse_gama s = (s, Err (EFormat FDuplicateChunk))) /\
  (have_idat s = false -> anc_has KChrm (the_info s) = true -> parse_chrm s = (s, Err (EFormat FDuplicateChunk))) /\
  (have_idat s = false -> anc_has KSrgb (the_info s) = true -> parse_srgb s = (s, Err (EFormat FDuplicateChunk))) /\
  (have_idat s = false -> anc_has KPhys (the_info s) = true -> parse_phys s = (s, Err (EFormat FDuplicateChunk))) /\
  (anc_has KTrns (the_info s) = true -> parse_trns s = (s, Err (EFormat FDuplicateChunk))).
Proof.
  repeat split; intros; [unfold parse_gama | unfold parse_chrm | unfold parse_srgb | unfold parse_phys | unfold parse_trns];
    repeat match goal with H : _ = _ |- _ => rewrite H; clear H end; reflexivity.
Qed.

(* ... which parse_chunk turns into "ignored" for every kind on the benign list: a format error raised by the
   parser of a benign kind never surfaces, and never poisons the decoder *)
Lemma benign_errors_never_surface s ty : is_benign ty = true ->
  (forall f, snd (parse_chunk s ty) <> Err (EFormat f)) /\ snd (parse_chunk s ty) <> Err EIoEof.
Proof.
  intro Hb. unfold Stream.parse_chunk. rewrite Hb.
  destruct (if ty =? ct_IHDR then _ else _) as [s1 r].
  destruct r as [e|e|p]; [| destruct e as [|f| | | |] |]; cbn; split; intros; discriminate.
Qed.

(* an unknown chunk type is passed over without touching anything but the control state *)
Definition known_types : list Z :=
  [ct_IHDR; ct_sBIT; ct_PLTE; ct_tRNS; ct_pHYs; ct_gAMA; ct_acTL; ct_fcTL; ct_cHRM; ct_sRGB; ct_cICP; ct_mDCV; ct_cLLI;
   ct_eXIf; ct_bKGD; ct_iCCP; ct_tEXt; ct_zTXt; ct_iTXt].

Lemma unknown_chunk_ignored s ty : existsb (Z.eqb ty) known_types = false ->
  parse_chunk s ty = (s <| st := Some (SU32 (KCrc ty) []) |>, Ok (EPartialChunk ty)).
Proof.
  unfold known_types. cbn [existsb]. intro H.
  repeat (apply orb_false_iff in H; destruct H as [? H]).
  unfold Stream.parse_chunk.
  repeat match goal with E : (ty =? _) = false |- _ => rewrite E; clear E end. cbn [andb]. reflexivity.
Qed.

(* text keyword splitting is exact *)
Lemma split_keyword_exact kw txt :
  (1 <= length kw <= 79)%nat -> Forall (fun b => b <> 0) kw ->
  split_keyword (kw ++ 0 :: txt) = Ok (kw, txt).
Proof.
  intros Hl Hnz. unfold split_keyword.
  assert (F : find0 (kw ++ 0 :: txt) = Some (length kw)).
  { clear Hl. induction kw as [|k kw IH]; cbn [app find0 length]; [reflexivity|].
    inversion Hnz as [|? ? Hk Hrest]; subst. destruct (Z.eqb_spec k 0); [contradiction|]. rewrite (IH Hrest). reflexivity. }
  rewrite F. destruct (Nat.eqb_spec (length kw) 0); [lia|]. destruct (Nat.ltb_spec 79 (length kw)); [lia|]. cbn [orb].
  f_equal. f_equal.
  - clear. induction kw as [|k kw IH]; cbn [length firstn app]; [reflexivity | rewrite IH; reflexivity].
  - clear. induction kw as [|k kw IH]; cbn [length skipn app]; [reflexivity | exact IH].
Qed.

End WithInflate.
