(* The row pipeline equals the specification's reconstruction for every stream (C01 core, C13 basis). *)
From PngV Require Import Base.Bytes Spec.FilterSpec Gen.GenPaeth Model.Filter Proofs.PaethProofs Proofs.ListX Proofs.FilterProofs
     Proofs.FilterEncProofs Model.Pipeline.

Lemma recon_spec_length ft bpp prior filt : length (recon_spec ft bpp prior filt) = length filt.
Proof.
  unfold recon_spec. generalize (zeros bpp) at 1 as wa. generalize (zeros bpp) as wc. revert prior.
  induction filt as [|x filt IH]; intros prior wc wa; cbn [recon_win length]; [reflexivity|]. rewrite IH. reflexivity.
Qed.

Lemma firstn_len_exact {A} n (l : list A) : (n <= length l)%nat -> length (firstn n l) = n.
Proof. intro H. rewrite firstn_length. lia. Qed.

(* for both predictor selections, every row count, every row length that is a multiple of bpp, every byte stream *)
Theorem unfilter_rows_spec (P : Z -> Z -> Z -> Z) :
  (forall a b c, byte_ok a -> byte_ok b -> byte_ok c -> P a b c = paeth_spec a b c) ->
  forall bpp k, (0 < bpp)%nat ->
  forall n prev stream,
    bytes_ok stream -> bytes_ok prev -> (prev = [] \/ length prev = (k * bpp)%nat) ->
    unfilter_rows P bpp (k * bpp) n prev stream = spec_rows bpp (k * bpp) n prev stream.
Proof.
  intros HP bpp k Hbpp. induction n as [|n IH]; intros prev stream Hs Hp Hl; cbn [unfilter_rows spec_rows]; [reflexivity|].
  destruct stream as [|ft rest]; [reflexivity|].
  destruct (Nat.ltb_spec (length rest) (k * bpp)) as [Hlt|Hge]; [reflexivity|].
  rewrite row_filter_from_u8_spec. destruct (ftype_of_Z ft) as [f|] eqn:Ef; cbn [option_map]; [|reflexivity].
  assert (Hrest : bytes_ok rest) by (inversion Hs; assumption).
  assert (Hcur : bytes_ok (firstn (k * bpp) rest)) by (apply Forall_firstn; exact Hrest).
  assert (Hlen : length (firstn (k * bpp) rest) = (k * bpp)%nat) by (apply firstn_len_exact; exact Hge).
  assert (Ef' : ftype_of_Z (ftype_to_Z f) = Some f) by (destruct f; reflexivity).
  rewrite (unfilter_model_spec P HP (ftype_to_Z f) f bpp prev (firstn (k * bpp) rest) k Ef' Hbpp Hcur Hp
             ltac:(destruct Hl as [-> | Hl]; [left; reflexivity | right; rewrite Hlen; exact Hl]) Hlen).
  rewrite IH.
  - reflexivity.
  - apply Forall_skipn. exact Hrest.
  - apply recon_win_bytes.
  - right. rewrite recon_spec_length. exact Hlen.
Qed.

(* consequence for whole non-interlaced images, for the predictor actually compiled on x86-64 and on other targets *)
Corollary decode_plain_spec (P : Z -> Z -> Z -> Z) :
  (P = filter_paeth_decode_x86_64 \/ P = filter_paeth_decode_other) ->
  forall c d w h k stream, bytes_ok stream -> Z.to_nat (row_bytes_spec c d w) = (k * bpp_filter c d)%nat ->
    decode_plain P c d w h stream =
    match spec_rows (bpp_filter c d) (Z.to_nat (row_bytes_spec c d w)) (Z.to_nat h) [] stream with
    | Ok (rows, _) => Ok (concat rows) | Err e => Err e | Panic p => Panic p end.
Proof.
  intros HP c d w h k stream Hs Hk. unfold decode_plain. rewrite Hk.
  assert (Hb : (0 < bpp_filter c d)%nat) by (unfold bpp_filter; lia).
  destruct HP as [-> | ->].
  - rewrite (unfilter_rows_spec _ paeth_decode_x86_eq _ k Hb); auto. constructor.
  - rewrite (unfilter_rows_spec _ paeth_decode_other_eq _ k Hb); auto. constructor.
Qed.

(* the row length is a whole number of filter units for each of the 15 legal colour/depth pairs and every width *)
Lemma row_bytes_multiple c d w : 0 <= w ->
  In (c, d) [(0,1);(0,2);(0,4);(0,8);(0,16);(2,8);(2,16);(3,1);(3,2);(3,4);(3,8);(4,8);(4,16);(6,8);(6,16)] ->
  exists k, Z.to_nat (row_bytes_spec c d w) = (k * bpp_filter c d)%nat.
Proof.
  intros Hw Hin. cbn [In] in Hin.
  repeat (destruct Hin as [Hin | Hin]; [inversion Hin; subst; clear Hin | ]); try contradiction;
    unfold row_bytes_spec, bpp_filter, bits_pp, nsamp; cbn.
  all: try (exists (Z.to_nat ((w * 1 + 7) / 8)); lia).
  all: try (exists (Z.to_nat ((w * 2 + 7) / 8)); lia).
  all: try (exists (Z.to_nat ((w * 4 + 7) / 8)); lia).
  - exists (Z.to_nat w). Z.div_mod_to_equations. lia.
  - exists (Z.to_nat w). Z.div_mod_to_equations. lia.
  - exists (Z.to_nat w). Z.div_mod_to_equations. lia.
  - exists (Z.to_nat w). Z.div_mod_to_equations. lia.
  - exists (Z.to_nat w). Z.div_mod_to_equations. lia.
  - exists (Z.to_nat w). Z.div_mod_to_equations. lia.
  - exists (Z.to_nat w). Z.div_mod_to_equations. lia.
  - exists (Z.to_nat w). Z.div_mod_to_equations. lia.
  - exists (Z.to_nat w). Z.div_mod_to_equations. lia.
Qed.
