(* C19 - Encoder misuse and sink failures fail cleanly; Ok from finish means complete (PARTIAL).
   ONLY property theorems (closed by [exact]; statements pinned textually), Print Assumptions.
   The part of the property a chunk-level model can carry: for every configuration and a history supplying the declared images, the Writer model
   emits a stream that the strict validator accepts - in particular it ends in exactly ONE IEND and nothing follows (the validator refuses any
   chunk after IEND and any stream without it).  The remaining clauses (no panic for arbitrary histories, errors under sink failures at every
   index, sequence validation, Drop never writing a second IEND) depend on Rust Drop order and io::Error propagation, which this model does not
   represent: they are decided by fault enumeration on every run (harness/src/c19.rs), with three known findings listed in known_findings.json. *)
From Coq Require Import List Arith Bool Lia.
Import ListNotations.
From PngV Require Import Spec.Validator Model.Encoder Proofs.EncoderProofs.

(* the emitted stream of a finished (or dropped) writer is complete and ends in exactly one IEND *)
Theorem C19_finished_stream_is_complete_with_one_IEND :
  forall (c : wcfg) (ns : list nat),
       cfg_ok c ->
       length ns = declared_images c -> Forall (fun n : nat => 1 <= n) ns -> conformant (emitted c ns) = true.
Proof. exact writer_output_conformant. Qed.

(* IEND is only accepted when every declared frame is present *)
Theorem C19_IEND_accepted_only_at_a_complete_stream :
  forall (c : wcfg) (nf : nat) (s : wstate) (v : vstate),
       inv c nf s v -> frames v = nf -> ph (vstep v KIEND) = PEnd.
Proof. exact end_ok. Qed.

Example C19_nonvacuous : conformant [KIHDR; KIDAT; KIEND; KIEND] = false /\ conformant [KIHDR; KIDAT] = false /\ conformant [KIHDR; KIDAT; KIEND] = true.
Proof. vm_compute. repeat split; reflexivity. Qed.
Print Assumptions C19_finished_stream_is_complete_with_one_IEND.
Print Assumptions C19_IEND_accepted_only_at_a_complete_stream.
