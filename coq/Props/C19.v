(* C19 - Encoder misuse and sink failures fail cleanly; Ok from finish means complete (PARTIAL).
   ONLY property theorems (closed by [exact]; statements pinned textually), Print Assumptions.
   PROVED on the chunk-level models of the Writer (Model/Encoder.v, and Model/WriterFail.v = the same over a sink that starts refusing writes
   after any number of chunks, with or without sequence validation, the history ending in finish or in drop):
   (1) the sink accepts IEND at most once and nothing after it, for EVERY history, every failure point, finish (successful or not) or drop;
   (2) when finish returns Ok no call of the history met a refused write and the sink holds exactly what a healthy sink holds - every chunk of
       every image the writer took, and IEND (a refusing sink keeps refusing; an operation that reports the sink error leaves it refusing;
       finish cannot return Ok over a refusing sink);
   (3) with sequence validation, finish returning Ok means the sink holds the complete stream of the declared images, which the strict validator
       accepts, and exactly the declared number of image calls succeeded; a history in which every call returns Ok has the declared number of images
       (so too few or too many images are reported by some call).
   NOT MODELLED (decided by fault enumeration on every run, harness/src/c19.rs, with three known findings): failures in the middle of a chunk
   (the bytes of a refused chunk), the stream writer's own finish/Drop path, frame-parameter setters, raw/text chunks, panics (Rust runtime). *)
From Coq Require Import ZArith.
From Coq Require Import List Arith Bool Lia.
Import ListNotations.
From PngV Require Import Spec.Validator Model.Encoder Proofs.EncoderProofs Model.WriterFail Proofs.WriterFailProofs.
From PngV Require Import Model.FrameRect Proofs.FrameRectProofs.

(* the emitted stream of a finished (or dropped) writer is complete and ends in exactly one IEND *)
Theorem C19_finished_stream_is_complete_with_one_IEND :
  forall (c : wcfg) (ns : list nat),
       cfg_ok c ->
       length ns = declared_images c -> Forall (fun n : nat => 1 <= n) ns -> conformant (emitted c ns) = true.
Proof. exact writer_output_conformant. Qed.

(* IEND is only accepted when every declared frame is present *)
Theorem C19_IEND_accepted_only_at_a_complete_stream :
  forall (c : wcfg) (nf : nat) (s : wstate) (v : vstate),
       inv c nf s v -> frames v = nf -> ph (vstep v KIEND) = PEnd.
Proof. exact end_ok. Qed.

(* (1) every history, every failure point, finish or drop: IEND at most once, and last *)
Theorem C19_iend_at_most_once_and_last :
  forall (validate : bool) (c : wcfg) (budget : option nat) (ns : list nat) (finish : bool),
       iend_once_and_last (fst (f_history validate c budget ns finish)).
Proof. exact iend_at_most_once_and_last. Qed.

(* (2) finish returned Ok: no refused write anywhere in the history, and the sink holds what a healthy sink holds *)
Theorem C19_finish_ok_means_nothing_was_lost :
  forall (validate : bool) (c : wcfg) (budget : option nat) (ns : list nat),
       last (snd (f_history validate c budget ns true)) FErrSink = FOk ->
       ~ In FErrSink (snd (f_history validate c budget ns true)) /\
       f_history validate c budget ns true = f_history validate c None ns true.
Proof. exact finish_ok_means_nothing_was_lost. Qed.

(* (2) a sink that has started refusing keeps refusing through every image call *)
Theorem C19_a_refusing_sink_keeps_refusing :
  forall (validate : bool) (c : wcfg) (s : WriterFail.fstate) (n : nat) (s1 : WriterFail.fstate)
         (r : WriterFail.fres), refusing s -> f_image validate c s n = (s1, r) -> refusing s1.
Proof. exact refusing_stays_image. Qed.

(* (2) a call that reports the sink error leaves a refusing sink *)
Theorem C19_sink_error_leaves_a_refusing_sink :
  forall (validate : bool) (c : wcfg) (s : WriterFail.fstate) (n : nat) (s1 : WriterFail.fstate),
       f_image validate c s n = (s1, FErrSink) -> refusing s1.
Proof. exact sink_error_refusing. Qed.

(* (2) finish never returns Ok over a refusing sink *)
Theorem C19_finish_over_a_refusing_sink_is_not_ok :
  forall (validate : bool) (c : wcfg) (s : WriterFail.fstate),
       refusing s -> snd (f_finish validate c s) <> FOk.
Proof. exact finish_refusing. Qed.

(* (3) sequence validation: finish Ok = the complete conformant stream of the declared images, and exactly the declared number of image calls succeeded *)
Theorem C19_validated_finish_ok_means_complete_stream :
  forall (c : wcfg) (budget : option nat) (ns : list nat),
       cfg_ok c ->
       Forall (fun n : nat => 1 <= n) ns ->
       last (snd (f_history true c budget ns true)) FErrSink = FOk ->
       conformant (header c ++ fst (f_history true c budget ns true)) = true /\
       length
         (filter (fun r : WriterFail.fres => match r with
                                             | FOk => true
                                             | _ => false
                                             end) (removelast (snd (f_history true c budget ns true)))) =
       declared_images c.
Proof. exact validated_finish_ok_means_complete_stream. Qed.

(* (3) sequence validation: if every call of a history returns Ok, the history has the declared number of images *)
Theorem C19_validated_wrong_count_is_reported :
  forall (c : wcfg) (budget : option nat) (ns : list nat),
       cfg_ok c ->
       Forall (fun n : nat => 1 <= n) ns ->
       Forall (fun r : WriterFail.fres => r = FOk) (snd (f_history true c budget ns true)) ->
       length ns = declared_images c.
Proof. exact validated_wrong_count_is_reported. Qed.

(* over a healthy sink an image call either is refused by validation or does what the Writer model of C12 does *)
Theorem C19_healthy_image_call_is_the_writer_model :
  forall (validate : bool) (c : wcfg) (w : wstate) (log : list ck) (n : nat),
       f_image validate c {| f_w := w; f_left := None; f_log := log |} n =
       (if new_image_ok validate c w
        then
         ({| f_w := fst (write_image c w n); f_left := None; f_log := log ++ snd (write_image c w n) |}, FOk)
        else ({| f_w := w; f_left := None; f_log := log |}, FErrEndReached)).
Proof. exact f_image_healthy. Qed.

(* invalid frame parameters are reported as errors: a set_frame_dimension / set_frame_position that returns Ok had parameters inside the canvas (and the canvas rectangle before the first image) *)
Theorem C19_accepted_frame_setter_had_legal_parameters :
  forall (s : fstate) (o : fop),
       (0 < cw s)%Z ->
       (0 < ch s)%Z ->
       op_u32 o ->
       rect_ok s ->
       snd (fstep s o) = FROk ->
       match o with
       | FDim w h =>
           (0 < w)%Z /\
           (0 < h)%Z /\
           (r_x (rc s) + w <= cw s)%Z /\
           (r_y (rc s) + h <= ch s)%Z /\ (written s = false -> w = cw s /\ h = ch s)
       | FPos x y =>
           (0 <= x)%Z /\
           (0 <= y)%Z /\
           (x + r_w (rc s) <= cw s)%Z /\
           (y + r_h (rc s) <= ch s)%Z /\ (written s = false -> x = 0%Z /\ y = 0%Z)
       | _ => True
       end.
Proof. exact accepted_setter_was_legal. Qed.

(* a refused setter leaves the writer as it was *)
Theorem C19_refused_frame_setter_changes_nothing :
  forall (s : fstate) (o : fop), snd (fstep s o) = FRErr -> fst (fstep s o) = s.
Proof. exact refused_setter_changes_nothing. Qed.

(* the rectangle held for the following frames is legal in every reachable state *)
Theorem C19_frame_rectangle_invariant :
  forall (s : fstate) (o : fop),
       (0 < cw s)%Z ->
       (0 < ch s)%Z ->
       op_u32 o ->
       rect_ok s -> rect_ok (fst (fstep s o)) /\ cw (fst (fstep s o)) = cw s /\ ch (fst (fstep s o)) = ch s.
Proof. exact step_keeps_rect_ok. Qed.

Example C19_nonvacuous : conformant [KIHDR; KIDAT; KIEND; KIEND] = false /\ conformant [KIHDR; KIDAT] = false /\ conformant [KIHDR; KIDAT; KIEND] = true.
Proof. vm_compute. repeat split; reflexivity. Qed.

(* non-vacuity: a two-frame animation with validation; the sink refuses the 4th chunk write / is healthy / one image is missing / one too many *)
Example C19_failing_sink_demo :
  let c := mk_wcfg (Some 2) false false 0 0 in
  f_history true c (Some 3) [1; 2] true = ([KFCTL 0; KIDAT; KFCTL 1], [FOk; FErrSink; FErrMissingFrames]) /\
  f_history true c None [1; 2] true = ([KFCTL 0; KIDAT; KFCTL 1; KFDAT 2; KFDAT 3; KIEND], [FOk; FOk; FOk]) /\
  f_history true c None [1] true = ([KFCTL 0; KIDAT; KIEND], [FOk; FErrMissingFrames]) /\
  f_history true c None [1; 1; 1] true = ([KFCTL 0; KIDAT; KFCTL 1; KFDAT 2; KIEND], [FOk; FOk; FErrEndReached; FOk]).
Proof. exact writer_fail_demo. Qed.
(* non-vacuity of the frame-rectangle statements: setters before the first image refused, sub-rectangles after it accepted, an overflowing position refused *)
Example C19_rect_demo :
  (frun_codes 8 8 [FDim 4 4; FPos 1 1; FImage; FDim 4 4; FPos 5 1; FPos 4 4; FImage; FResetPos; FResetDim; FImage]
  = [[1]; [1]; [2; 8; 8; 0; 0]; [0]; [1]; [0]; [2; 4; 4; 4; 4]; [0]; [0]; [2; 8; 8; 0; 0]])%Z.
Proof. exact rect_demo. Qed.

Print Assumptions C19_finished_stream_is_complete_with_one_IEND.
Print Assumptions C19_IEND_accepted_only_at_a_complete_stream.
Print Assumptions C19_iend_at_most_once_and_last.
Print Assumptions C19_finish_ok_means_nothing_was_lost.
Print Assumptions C19_a_refusing_sink_keeps_refusing.
Print Assumptions C19_sink_error_leaves_a_refusing_sink.
Print Assumptions C19_finish_over_a_refusing_sink_is_not_ok.
Print Assumptions C19_validated_finish_ok_means_complete_stream.
Print Assumptions C19_validated_wrong_count_is_reported.
Print Assumptions C19_healthy_image_call_is_the_writer_model.
Print Assumptions C19_accepted_frame_setter_had_legal_parameters.
Print Assumptions C19_refused_frame_setter_changes_nothing.
Print Assumptions C19_frame_rectangle_invariant.
