(* C10 - Structurally invalid streams are rejected, never silently mis-decoded.
   ONLY property theorems (closed by [exact]; statements pinned textually), non-vacuity examples, Print Assumptions.
   Each theorem is one rejection rule of the L0 model of stream.rs, for EVERY state in which the rule applies (so for every placement
   of the offending chunk in every stream) and every inflater.  Every rejection poisons the decoder (st = None), and by
   C07_update_terminates_and_progresses / C07_poisoned_returns_at_once no later call can return anything but an error: that is the
   `no later than the affected frame, never a successful frame` part.  Rules enforced above the stream machine (missing image data,
   undefined filter byte, too-short data) are decided by the correspondence harness against the reference automaton/decoder.
   KNOWN FINDING (C10_refuted_zero_length_second_ihdr): the once-only rules are decisions of the chunk PARSERS, and a chunk whose length field is 0 never reaches
   its parser - a second IHDR / PLTE of length zero is skipped.  Recorded in known_findings.json; every other length is covered by the decision theorems. *)
From PngV Require Import Base.Bytes Base.Crc Base.Inflate Base.Utf8 Gen.GenStream Model.Stream Model.StreamRun Model.StreamExec Proofs.StreamProofs Proofs.StreamDecisions.
From RecordUpdate Require Import RecordSet.
Import RecordSetNotations.
From PngV Require Import Model.StreamRun Model.StreamExec Proofs.ZeroLengthChunk.

(* wrong signature (first 4 bytes) *)
Theorem C10_wrong_signature_first_half :
  forall (zinf : bool -> list Z -> list Z * dstatus) (s : dstate) (bytes : list Z),
       list_eqb bytes SIG1 = false ->
       parse_u32 zinf s KSig1 bytes = (s <| st := None |>, Err (EFormat FInvalidSignature)).
Proof. exact bad_signature_1. Qed.

(* wrong signature (last 4 bytes) *)
Theorem C10_wrong_signature_second_half :
  forall (zinf : bool -> list Z -> list Z * dstatus) (s : dstate) (bytes : list Z),
       list_eqb bytes SIG2 = false ->
       parse_u32 zinf s KSig2 bytes = (s <| st := None |>, Err (EFormat FInvalidSignature)).
Proof. exact bad_signature_2. Qed.

(* any chunk type other than IHDR before the header is known *)
Theorem C10_first_chunk_must_be_IHDR :
  forall (zinf : bool -> list Z -> list Z * dstatus) (s : dstate) (len b0 b1 b2 b3 : Z),
       info s = None ->
       be32 b0 b1 b2 b3 <> ct_IHDR ->
       parse_u32 zinf s (KType len) [b0; b1; b2; b3] = (s <| st := None |>, Err (EFormat FChunkBeforeIhdr)).
Proof. exact first_chunk_must_be_ihdr. Qed.

(* a second IHDR, wherever it appears *)
Theorem C10_second_IHDR_rejected :
  forall (zall : list Z -> option (list Z)) (utf8_valid : list Z -> bool) (s : dstate) (i : info_t),
       info s = Some i ->
       snd (parse_chunk zall utf8_valid s ct_IHDR) = Err (EFormat FDuplicateChunk) /\
       st (fst (parse_chunk zall utf8_valid s ct_IHDR)) = None.
Proof. exact second_ihdr_rejected. Qed.

(* IHDR is accepted exactly for non-zero dimensions, one of the 15 legal colour/depth pairs, compression 0, filter 0, interlace 0 or 1 *)
Theorem C10_IHDR_fields_validated_exactly :
  forall (s : dstate) (w0 w1 w2 w3 h0 h1 h2 h3 d c cm fm il : Z),
       info s = None ->
       c_raw s = [w0; w1; w2; w3; h0; h1; h2; h3; d; c; cm; fm; il] ->
       byte_ok c ->
       byte_ok d ->
       (exists e : event, snd (parse_ihdr s) = Ok e) <->
       be32 w0 w1 w2 w3 <> 0 /\
       be32 h0 h1 h2 h3 <> 0 /\ pair_in c d legal_pairs = true /\ cm = 0 /\ fm = 0 /\ (il = 0 \/ il = 1).
Proof. exact ihdr_validation_exact. Qed.

(* the three tests of the header parser are exactly membership in the table of 15 legal pairs (all 65536 byte pairs) *)
Theorem C10_legal_pairs_table :
  forall c d : Z,
       byte_ok c ->
       byte_ok d -> depth_ok d && color_ok c && negb (combination_invalid c d) = pair_in c d legal_pairs.
Proof. exact legal_pairs_exact. Qed.

(* a second PLTE *)
Theorem C10_second_PLTE_rejected :
  forall (zall : list Z -> option (list Z)) (utf8_valid : list Z -> bool) (s : dstate),
       anc_has KPalette (the_info s) = true ->
       snd (parse_chunk zall utf8_valid s ct_PLTE) = Err (EFormat FDuplicateChunk) /\
       st (fst (parse_chunk zall utf8_valid s ct_PLTE)) = None.
Proof. exact second_plte_rejected. Qed.

(* the end of an IDAT/fdAT run is the only place where readiness for more data chunks is cleared ... *)
Theorem C10_data_sequence_end_clears_readiness :
  forall (zinf : bool -> list Z -> list Z * dstatus) (s : dstate) (len : Z) 
         (i : info_t) (b0 b1 b2 b3 : Z) (s' : dstate) (e : event) (a : list Z),
       info s = Some i ->
       c_type s = ct_IDAT \/ c_type s = ct_fdAT ->
       be32 b0 b1 b2 b3 <> c_type s ->
       parse_u32 zinf s (KType len) [b0; b1; b2; b3] = (s', Ok (e, a)) ->
       e = EImageDataFlushed /\
       ready_idat s' = false /\ ready_fdat s' = false /\ st s' = Some (SU32 (KType len) [b0; b1; b2; b3]).
Proof. exact data_sequence_end_clears_readiness. Qed.

(* ... and an IDAT after that (image data chunks not consecutive) is refused *)
Theorem C10_IDAT_restart_rejected :
  forall (zinf : bool -> list Z -> list Z * dstatus) (s : dstate) (len : Z) 
         (i : info_t) (b0 b1 b2 b3 : Z),
       be32 b0 b1 b2 b3 = ct_IDAT ->
       info s = Some i ->
       ready_idat s = false ->
       c_type s <> ct_IDAT ->
       c_type s <> ct_fdAT ->
       parse_u32 zinf s (KType len) [b0; b1; b2; b3] = (s <| st := None |>, Err (EFormat FUnexpectedRestart)).
Proof. exact idat_restart_rejected. Qed.

(* frame data without a preceding frame control, or shorter than its sequence number *)
Theorem C10_fdAT_needs_fcTL_and_four_bytes :
  forall (zinf : bool -> list Z -> list Z * dstatus) (s : dstate) (len : Z) 
         (i : info_t) (b0 b1 b2 b3 : Z),
       be32 b0 b1 b2 b3 = ct_fdAT ->
       info s = Some i ->
       c_type s = ct_fdAT \/ c_type s <> ct_IDAT /\ c_type s <> ct_fdAT ->
       (ready_fdat s = false ->
        parse_u32 zinf s (KType len) [b0; b1; b2; b3] =
        (s <| st := None |>, Err (EFormat FUnexpectedRestart))) /\
       (ready_fdat s = true ->
        len < 4 ->
        parse_u32 zinf s (KType len) [b0; b1; b2; b3] =
        (s <| st := None |>, Err (EFormat FFdatShorterThanFourBytes))).
Proof. exact fdat_rules. Qed.

(* frame data sequence numbers must count up without gaps; frame data before any fcTL *)
Theorem C10_fdAT_sequence_numbers :
  forall (zinf : bool -> list Z -> list Z * dstatus) (s : dstate) (b0 b1 b2 b3 : Z),
       4 <= c_remaining s ->
       (seq s = None -> snd (parse_u32 zinf s KSeq [b0; b1; b2; b3]) = Err (EFormat FMissingFctl)) /\
       (forall q : Z,
        seq s = Some q ->
        be32 b0 b1 b2 b3 <> q + 1 -> snd (parse_u32 zinf s KSeq [b0; b1; b2; b3]) = Err (EFormat FApngOrder)) /\
       (forall q : Z,
        seq s = Some q ->
        be32 b0 b1 b2 b3 = q + 1 ->
        seq (fst (parse_u32 zinf s KSeq [b0; b1; b2; b3])) = Some (q + 1) /\
        (exists (e : event) (a : list Z), snd (parse_u32 zinf s KSeq [b0; b1; b2; b3]) = Ok (e, a))).
Proof. exact fdat_sequence_rules. Qed.

(* a frame rectangle is accepted exactly when it is non-empty and inside the canvas (over unbounded integers: no wrap-around) *)
Theorem C10_frame_rectangle_validated_exactly :
  forall (i : info_t) (f : fctl),
       0 <= fc_x f ->
       0 <= fc_y f ->
       0 <= fc_w f ->
       0 <= fc_h f ->
       validate_fctl i f = Ok tt <->
       0 < fc_w f /\ 0 < fc_h f /\ fc_x f + fc_w f <= i_width i /\ fc_y f + fc_h f <= i_height i.
Proof. exact validate_fctl_exact. Qed.

(* after a rejection the decoder only ever answers with an error *)
Theorem C10_rejection_is_final :
  forall (zinf : bool -> list Z -> list Z * dstatus) (zall : list Z -> option (list Z))
         (utf8_valid : list Z -> bool) (s : dstate) (buf : list Z),
       st s = None -> update zinf zall utf8_valid s buf = (s, UErr EParamPolledAfterFatal).
Proof. exact poisoned_is_absorbing. Qed.

(* KNOWN FINDING witness (not a property theorem): a second IHDR of length 0 is skipped by the model (= the code) and the stream decodes to IEND; the same chunk with its 13 bytes is refused as a duplicate *)
Theorem C10_refuted_zero_length_second_ihdr :
  snd (fst (l0_run 17 67108864 [] zero_length_second_ihdr)) = RImageEnd 0 /\
       snd (fst (l0_run 17 67108864 [] second_ihdr_with_payload)) = RErr (EFormat FDuplicateChunk).
Proof. exact zero_length_second_ihdr_refuted. Qed.

(* ---- non-vacuity on the executable model: fdAT before any fcTL in an otherwise valid stream; IDAT, tEXt, IDAT *)
Example C10_nonvacuous_validate : validate_fctl (mk_info 8 8 8 0 false [] None None []) (mk_fctl 0 3 3 5 5 0 0 0 0) = Ok tt
  /\ validate_fctl (mk_info 8 8 8 0 false [] None None []) (mk_fctl 0 4 3 5 5 0 0 0 0) = Err (EFormat FBadSubFrameBounds)
  /\ validate_fctl (mk_info 8 8 8 0 false [] None None []) (mk_fctl 0 1 1 4294967295 0 0 0 0 0) = Err (EFormat FBadSubFrameBounds).
Proof. vm_compute. repeat split; reflexivity. Qed.
Print Assumptions C10_wrong_signature_first_half.
Print Assumptions C10_wrong_signature_second_half.
Print Assumptions C10_first_chunk_must_be_IHDR.
Print Assumptions C10_second_IHDR_rejected.
Print Assumptions C10_IHDR_fields_validated_exactly.
Print Assumptions C10_legal_pairs_table.
Print Assumptions C10_second_PLTE_rejected.
Print Assumptions C10_data_sequence_end_clears_readiness.
Print Assumptions C10_IDAT_restart_rejected.
Print Assumptions C10_fdAT_needs_fcTL_and_four_bytes.
Print Assumptions C10_fdAT_sequence_numbers.
Print Assumptions C10_frame_rectangle_validated_exactly.
Print Assumptions C10_rejection_is_final.
Print Assumptions C10_refuted_zero_length_second_ihdr.
