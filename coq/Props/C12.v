(* C12 - Everything the encoder emits is a specification-conformant PNG/APNG.
   ONLY property theorems (closed by [exact]; statements pinned textually), non-vacuity examples, Print Assumptions.
   PROVED (chunk structure): for EVERY configuration (still image, or animation with any number of frames >= 1, default image inside or outside
   the animation, with or without PLTE, any number of ancillary chunks before/after) and a history that supplies exactly the declared images,
   each image emitted as ANY positive number of data chunks, the emitted chunk-kind sequence of the Writer model is accepted by the strict ordering
   validator of Spec/Validator.v: IHDR first, acTL before IDAT, one fcTL per frame, IDAT only for the first image (one consecutive run), fdAT
   afterwards, sequence numbers 0,1,2,... without gaps across fcTL and fdAT, frame count equal to acTL's, IEND last and once.
   SCOPE / KNOWN FINDING: the model describes write_image_data (one data chunk per image) and the chunk splitting a stream writer performs on a
   NON-animated encoder; the real StreamWriter on an animated encoder does not follow it (known finding D9, listed in known_findings.json with a
   witness) - the model is deliberately the intended behaviour there and the correspondence excludes that class.  Lengths, CRCs, the zlib stream
   of every image (exact end, Adler-32, inflated size h x (1+row bytes), filter bytes <= 4) are checked on the emitted BYTES by the independent
   validator in the harness on every run; filtering itself is C14/C03. *)
From Coq Require Import ZArith.
From Coq Require Import List Arith Bool Lia.
Import ListNotations.
From PngV Require Import Spec.Validator Model.Encoder Proofs.EncoderProofs.
From PngV Require Import Model.FrameRect Proofs.FrameRectProofs.

(* the theorem *)
Theorem C12_writer_output_is_conformant :
  forall (c : wcfg) (ns : list nat),
       cfg_ok c ->
       length ns = declared_images c -> Forall (fun n : nat => 1 <= n) ns -> conformant (emitted c ns) = true.
Proof. exact writer_output_conformant. Qed.

(* the header part leaves the validator in its pre-IDAT state with the declared acTL / PLTE recorded *)
Theorem C12_header_part_is_conformant :
  forall c : wcfg,
       cfg_ok c ->
       vrun v0 (header c) =
       {|
         ph := PHeader;
         actl := animated c;
         plte := has_plte c;
         next_seq := 0;
         frames := 0;
         fctl_before_idat := false
       |}.
Proof. exact header_run. Qed.

(* each animation frame after the first image: one fcTL with the next sequence number, then its fdAT chunks numbered consecutively *)
Theorem C12_each_later_frame_is_one_fcTL_then_fdATs :
  forall (c : wcfg) (nf : nat) (s : wstate) (v : vstate) (n : nat),
       inv c nf s v ->
       frames v < nf ->
       1 <= n ->
       let '(s', o) := write_image c s n in inv c nf s' (vrun v o) /\ frames (vrun v o) = S (frames v).
Proof. exact later_image. Qed.

(* IEND is accepted exactly when the frame count matches acTL *)
Theorem C12_end_is_accepted :
  forall (c : wcfg) (nf : nat) (s : wstate) (v : vstate),
       inv c nf s v -> frames v = nf -> ph (vstep v KIEND) = PEnd.
Proof. exact end_ok. Qed.

(* frame rectangles (Model/FrameRect.v): whatever setters and images a history contains, every fcTL written carries a non-empty rectangle inside the canvas and the first one is the canvas *)
Theorem C12_every_fctl_rectangle_is_legal_and_the_first_covers_the_canvas :
  forall (w h : Z) (ops : list fop),
       (0 < w)%Z ->
       (0 < h)%Z ->
       Forall op_u32 ops ->
       Forall (rect_legal w h) (fctls (frun (f_init w h) ops)) /\
       match fctls (frun (f_init w h) ops) with
       | [] => True
       | r :: _ => r = {| r_w := w; r_h := h; r_x := 0; r_y := 0 |}
       end.
Proof. exact every_fctl_is_legal_and_the_first_covers_the_canvas. Qed.

(* Encoder::with_info: a frame control given from outside is accepted iff it is the canvas rectangle *)
Theorem C12_with_info_refuses_exactly_the_non_canvas_frame_controls :
  forall (w h : Z) (r : rect),
       f_with_info w h r = None <-> r <> {| r_w := w; r_h := h; r_x := 0; r_y := 0 |}.
Proof. exact with_info_refusal_exact. Qed.

Example C12_nonvacuous :
  emitted (mk_wcfg (Some 2) true true 1 2) [1; 2; 1] =
  [KIHDR; KANC; KACTL 2; KPLTE; KANC; KANC; KIDAT; KFCTL 0; KFDAT 1; KFDAT 2; KFCTL 3; KFDAT 4; KIEND]
  /\ conformant (emitted (mk_wcfg (Some 2) true true 1 2) [1; 2; 1]) = true
  /\ conformant [KIHDR; KACTL 1; KFCTL 0; KIDAT; KFDAT 1; KIEND] = false.
Proof. vm_compute. repeat split; reflexivity. Qed.
(* non-vacuity of the frame-rectangle statements: setters before the first image refused, sub-rectangles after it accepted, an overflowing position refused *)
Example C12_rect_demo :
  (frun_codes 8 8 [FDim 4 4; FPos 1 1; FImage; FDim 4 4; FPos 5 1; FPos 4 4; FImage; FResetPos; FResetDim; FImage]
  = [[1]; [1]; [2; 8; 8; 0; 0]; [0]; [1]; [0]; [2; 4; 4; 4; 4]; [0]; [0]; [2; 8; 8; 0; 0]])%Z.
Proof. exact rect_demo. Qed.

Print Assumptions C12_writer_output_is_conformant.
Print Assumptions C12_header_part_is_conformant.
Print Assumptions C12_each_later_frame_is_one_fcTL_then_fdATs.
Print Assumptions C12_end_is_accepted.
Print Assumptions C12_every_fctl_rectangle_is_legal_and_the_first_covers_the_canvas.
Print Assumptions C12_with_info_refuses_exactly_the_non_canvas_frame_controls.
