(* C06 - Decoder memory is bounded by the configured limit, not by what the file claims.   PARTIAL.
   ONLY property theorems (closed by [exact]; statements pinned textually), non-vacuity examples, Print Assumptions.
   What is proved: the allocation LEDGER of the L0 stream machine (StreamingDecoder): for every option set, every limit L >= 0, every input and every
   way of delivering it, in every reachable state: the budget stays in [0, L]; the capacity of the chunk body buffer stays in [32 KiB, L + 32 KiB] and the
   buffer never holds more than its capacity; the accounted metadata copies (PLTE, tRNS, sBIT, ICC profile, all text chunk fields) total at most L; and
   accounted metadata + buffer growth + remaining budget <= L.  None of these bounds mentions the declared dimensions, chunk lengths, chunk counts or the
   inflated size of any stream.  What is NOT proved (runtime facts measured by the counting allocator on every run): Vec growth policy, the fdeflate's internals, the unfiltering row buffers, the Reader's scratch/row buffers, fdeflate's tables, String conversion of text. *)
From PngV Require Import Base.Bytes Base.Crc Base.Inflate Base.Utf8 Gen.GenStream Model.Stream Model.StreamRun Model.StreamExec Proofs.StreamProofs Proofs.LedgerProofs.
From RecordUpdate Require Import RecordSet.
Import RecordSetNotations.
From PngV Require Import Model.ZlibBuf Proofs.ZlibBufProofs.
From PngV Require Import Model.UnfiltBuf Proofs.UnfiltBufProofs.

(* every reachable state of the stream machine, any input, any schedule: the ledger bounds *)
Theorem C06_ledger_bound :
  forall (zinf : bool -> list Z -> list Z * dstatus) (zall : list Z -> option (list Z))
         (utf8_valid : list Z -> bool) (o : options) (L : Z) (pieces : list (list Z)),
       0 <= L ->
       let s := fst (fst (feed_go zinf zall utf8_valid (init_state o L) pieces [])) in
       0 <= budget s <= L /\
       CHUNK_BUFFER_SIZE <= c_cap s <= L + CHUNK_BUFFER_SIZE /\
       zlen (c_raw s) <= c_cap s /\
       acct (the_info s) <= L /\ acct (the_info s) + (c_cap s - CHUNK_BUFFER_SIZE) + budget s <= L.
Proof. exact ledger_bound. Qed.

(* one transition preserves the ledger invariant *)
Theorem C06_step_preserves_ledger :
  forall (zinf : bool -> list Z -> list Z * dstatus) (zall : list Z -> option (list Z))
         (utf8_valid : list Z -> bool) (L : Z) (s : dstate) (buf : list Z),
       Inv L s -> Inv L (fst (next_state zinf zall utf8_valid s buf)).
Proof. exact next_state_inv. Qed.

(* one update() call preserves it *)
Theorem C06_update_preserves_ledger :
  forall (zinf : bool -> list Z -> list Z * dstatus) (zall : list Z -> option (list Z))
         (utf8_valid : list Z -> bool) (L : Z) (s : dstate) (buf : list Z),
       Inv L s -> Inv L (fst (update zinf zall utf8_valid s buf)).
Proof. exact update_inv. Qed.

(* every chunk parser: what it stores it has taken from the budget *)
Theorem C06_chunk_parsers_pay :
  forall (zall : list Z -> option (list Z)) (utf8_valid : list Z -> bool) (s : dstate) (ty : Z),
       rel s (fst (parse_chunk zall utf8_valid s ty)).
Proof. exact parse_chunk_rel. Qed.

(* the chunk body buffer grows only by what is taken from the budget *)
Theorem C06_buffer_growth_paid :
  forall s s' : dstate, zlen (c_raw s) <= c_cap s -> reserve_current_chunk s = Ok s' -> rel s s'.
Proof. exact reserve_current_chunk_rel. Qed.

(* the initial state satisfies the invariant (non-vacuity of the premises) *)
Theorem C06_initial_state :
  forall (o : options) (L : Z), 0 <= L -> Inv L (init_state o L).
Proof. exact init_inv. Qed.

(* the inflater's output buffer never exceeds BOUND = 2*(COMPACT_FACTOR*LOOKBACK_SIZE + CHUNK_BUFFER_SIZE) bytes, however much the stream inflates to *)
Theorem C06_inflater_buffer_bounded :
  forall news : list (list Z),
       fits zb_new news ->
       let z := fst (zb_run zb_new news) in
       let produced := concat news in
       snd (zb_run zb_new news) = produced /\
       (exists pre : list Z, produced = pre ++ zb_data z) /\
       (zlen produced <= zlen (zb_data z) \/ 32768 <= zlen (zb_data z)) /\
       zb_len z <= BOUND /\ zlen (zb_data z) <= zb_len z.
Proof. exact window_delivery_bound. Qed.

(* the bound in terms of the regenerated constants (327680 bytes for the current source) *)
Theorem C06_inflater_bound_value :
  BOUND = 2 * (LOOKBACK_SIZE * COMPACT_FACTOR + CHUNK_BUFFER_SIZE).
Proof. exact bound_value. Qed.

(* after a compaction the unfiltering buffer holds the previous row, the bytes not yet unfiltered and what was just appended - nothing that grows with the frame *)
Theorem C06_unfiltering_buffer_size :
  forall (u : ubuf) (prev pending new : list Z),
       UInv u prev pending ->
       length (ub_data (ub_append u new)) = (length prev + length pending + length new)%nat.
Proof. exact ub_append_size. Qed.

(* non-vacuity: a 1x1 image with a tEXt chunk "k\\0v" under L = 1000: 3 bytes taken from the budget, 2 bytes of text fields held *)
Example C06_ex_text :
  let file := [137;80;78;71;13;10;26;10; 0;0;0;13; 73;72;68;82; 0;0;0;1; 0;0;0;1; 8;0;0;0;0; 58;126;155;85;
               0;0;0;3; 116;69;88;116; 107;0;118] ++ to_be32 (crc32 [116;69;88;116; 107;0;118]) in
  let s := fst (fst (feed_go zinf_ref inflate_checked utf8_valid (init_state (opts_of_bits 17) 1000) [file] [])) in
  budget s = 997 /\ acct (the_info s) = 2 /\ c_cap s = CHUNK_BUFFER_SIZE.
Proof. vm_compute. repeat split. Qed.
Print Assumptions C06_ledger_bound.
Print Assumptions C06_step_preserves_ledger.
Print Assumptions C06_update_preserves_ledger.
Print Assumptions C06_chunk_parsers_pay.
Print Assumptions C06_buffer_growth_paid.
Print Assumptions C06_initial_state.
Print Assumptions C06_inflater_buffer_bounded.
Print Assumptions C06_inflater_bound_value.
Print Assumptions C06_unfiltering_buffer_size.
