(* C02 - No input and no call sequence makes the decoder panic (PARTIAL: theorem for the modelled panic sites, search for the rest).
   ONLY property theorems (closed by [exact]; statements pinned textually), Print Assumptions.
   Every assert!/unwrap/expect/unreachable!/slice index/subtraction of the MODELLED code is an explicit Panic outcome of the models; PROVED
   unreachable: (Reader cursor: mod.rs:336 subtraction, :458 assertion, :469 assertion, frame_control.unwrap()) from EVERY state of the cursor model;
   (palette.rs: every slice/index of create_rgba_palette) for EVERY PLTE/tRNS payload - the call returns Ok; (adam7.rs: the `Invalid Adam7Info.pass`
   panic and the indexing of expand_pass) for every pass 1..7, line, width, stride and legal pixel size; (stream.rs) a StreamingDecoder::update call
   never exhausts its loop budget and an error or panic outcome always poisons the decoder; and the two panic sites of the stream machine
   (`self.state.take().unwrap()`, the fdAT sequence-number `debug_assert!(remaining >= 4)`/subtraction) are unreachable for EVERY byte sequence, EVERY
   option set, limit and cutting of the input and for ANY behaviour of the inflater, also after reset(); the chunk parsers have no panic outcome.  NOT COVERED BY ANY THEOREM: panics in code that is
   not modelled (std, fdeflate, zlib.rs / unfiltering_buffer.rs index arithmetic, transform row loops, text decoding), aborts on allocation failure
   and arithmetic overflow of un-modelled expressions: these are searched on every run with catch_unwind in a build with overflow checks. *)
From Coq Require Import List Arith Bool Lia.
Import ListNotations.
From PngV Require Import Model.Reader Proofs.ReaderProofs.
From PngV Require Import Base.Bytes Spec.TransformSpec Model.Transform Proofs.TransformProofs Spec.Adam7Spec Gen.GenAdam7 Model.Adam7 Proofs.Adam7Proofs Proofs.Adam7Expand Base.Crc Gen.GenStream Model.Stream Proofs.StreamProofs Model.StreamRun Proofs.StreamNoPanic.

(* Reader: next_frame / row calls / next_frame_info / finish, any state, any visible input prefix *)
Theorem C02_reader_cursor_never_panics :
  forall (im : image) (vis : nat) (s : rstate) (o : op) (n : nat),
       valid im -> snd (fst (step im vis s o)) <> RPanicR n.
Proof. exact step_never_panics. Qed.

(* palette.rs: create_rgba_palette returns Ok for every PLTE and tRNS payload *)
Theorem C02_palette_table_never_panics :
  forall (c d : Z) (pal : list Z) (trns : option (list Z)),
       exists tab : table,
         create_rgba_palette {| t_color := c; t_depth := d; t_palette := Some pal; t_trns := trns |} = Ok tab /\
         (forall idx : Z,
          0 <= idx < 256 -> tab_get tab idx = pal_rgb pal idx ++ [pal_alpha pal (opt_list trns) idx]).
Proof. exact create_rgba_palette_spec. Qed.

(* adam7.rs: expand_pass for every legal argument *)
Theorem C02_expand_interlaced_row_never_panics :
  forall (m : img) (stride p line width bits : Z) (row : img),
       In p passes ->
       0 <= line ->
       0 <= width ->
       0 <= stride ->
       img_bytes m ->
       img_bytes row -> legal_bits bits -> expand_pass_model m stride p line width bits row <> None.
Proof. exact expand_row_total. Qed.

(* stream.rs: update *)
Theorem C02_update_never_spins_and_errors_poison :
  forall (zinf : bool -> list Z -> list Z * dstatus) (zall : list Z -> option (list Z))
         (utf8_valid : list Z -> bool) (s : dstate) (buf : list Z),
       wf' s ->
       bytes_ok buf ->
       snd (update zinf zall utf8_valid s buf) <> UOutOfFuel /\
       wf' (fst (update zinf zall utf8_valid s buf)) /\
       (forall (n : nat) (e : event) (a : list Z),
        snd (update zinf zall utf8_valid s buf) = UOk n e a ->
        (n <= length buf)%nat /\ (e = ENothing -> n = length buf)) /\
       (forall e : derr,
        snd (update zinf zall utf8_valid s buf) = UErr e ->
        st (fst (update zinf zall utf8_valid s buf)) = None) /\
       (forall p : nat,
        snd (update zinf zall utf8_valid s buf) = UPanic p ->
        st (fst (update zinf zall utf8_valid s buf)) = None).
Proof. exact update_terminates_and_progresses. Qed.

(* stream.rs: whole runs of update from a fresh decoder, any input, any options, any cuts, any inflater *)
Theorem C02_stream_machine_never_panics :
  forall (zinf : bool -> list Z -> list Z * dstatus) (zall : list Z -> option (list Z))
         (utf8_valid : list Z -> bool) (o : options) (limit : Z) (ps : list (list Z)),
       Forall bytes_ok ps ->
       forall k : nat, snd (feed zinf zall utf8_valid (init_state o limit) ps) <> RPanic k.
Proof. exact stream_machine_never_panics. Qed.

(* stream.rs: the same after reset() *)
Theorem C02_stream_machine_never_panics_after_reset :
  forall (zinf : bool -> list Z -> list Z * dstatus) (zall : list Z -> option (list Z))
         (utf8_valid : list Z -> bool) (s : dstate) (ps : list (list Z)),
       Forall bytes_ok ps -> forall k : nat, snd (feed zinf zall utf8_valid (reset_model s) ps) <> RPanic k.
Proof. exact stream_machine_never_panics_after_reset. Qed.

(* stream.rs: parse_chunk and all its per-chunk parsers *)
Theorem C02_chunk_parsers_have_no_panic_outcome :
  forall (zall : list Z -> option (list Z)) (utf8_valid : list Z -> bool) (s : dstate) (ty : Z),
       no_panic (snd (parse_chunk zall utf8_valid s ty)).
Proof. exact parse_chunk_np. Qed.


Print Assumptions C02_reader_cursor_never_panics.
Print Assumptions C02_palette_table_never_panics.
Print Assumptions C02_expand_interlaced_row_never_panics.
Print Assumptions C02_update_never_spins_and_errors_poison.
Print Assumptions C02_stream_machine_never_panics.
Print Assumptions C02_stream_machine_never_panics_after_reset.
Print Assumptions C02_chunk_parsers_have_no_panic_outcome.
