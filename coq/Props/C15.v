(* C15 — Adam7 pass geometry is exact for every image size and pixel size.
   ONLY property theorems (closed by [exact]), pinned statements, non-vacuity examples, Print Assumptions. *)
From PngV Require Import Base.Bytes Spec.Adam7Spec Gen.GenAdam7 Model.Adam7 Proofs.Adam7Proofs Proofs.Adam7Expand.

(* (1) The interlaced rows reported (pass, line within the pass, pixel count; order included; empty passes
   skipped) are exactly those of the specification's pass table, for every u32 width and height. *)
Theorem C15_rows_are_the_specified_rows :
  forall w h, 0 < w < 4294967296 -> 0 < h < 4294967296 -> rows_model w h = rows_spec w h.
Proof. exact rows_model_eq_spec. Qed.

(* (2) The positions computed by the expansion tables (regenerated from the source) partition the image:
   every reported pixel lands inside the image on a pixel whose pass in the 8x8 pattern is the row's pass;
   every image pixel is produced; and by exactly one (pass, line, index). *)
Theorem C15_positions_sound :
  forall w h p l lw, 0 < w < 4294967296 -> 0 < h < 4294967296 -> In (p, l, lw) (rows_model w h) ->
    In p passes /\ 0 < lw /\ 0 <= l /\
    exists lm lo sm so, assocz p expand_table = Some (lm, lo, sm, so) /\ lm * l + lo < h /\
      (forall i, 0 <= i -> (i < lw <-> i * sm + so < w)) /\
      (forall i, 0 <= i < lw -> pass_of (i * sm + so) (lm * l + lo) = p).
Proof. exact rows_sound. Qed.

Theorem C15_positions_complete :
  forall w h x y, 0 < w < 4294967296 -> 0 < h < 4294967296 -> 0 <= x < w -> 0 <= y < h ->
    exists l i lw lm lo sm so,
      In (pass_of x y, l, lw) (rows_model w h) /\ 0 <= i < lw /\
      assocz (pass_of x y) expand_table = Some (lm, lo, sm, so) /\ x = i * sm + so /\ y = lm * l + lo.
Proof. exact rows_complete. Qed.

Theorem C15_positions_unique :
  forall w h p l lw i p' l' lw' i' x y, 0 < w < 4294967296 -> 0 < h < 4294967296 ->
    In (p, l, lw) (rows_model w h) -> In (p', l', lw') (rows_model w h) ->
    0 <= i < lw -> 0 <= i' < lw' -> pos_xy p l i = Some (x, y) -> pos_xy p' l' i' = Some (x, y) ->
    p = p' /\ l = l' /\ i = i' /\ lw = lw'.
Proof. exact rows_unique. Qed.

(* (3) One call of the row-expansion helper (any legal pixel size 1,2,4,8,16,24,32,48,64 bits, any stride):
   it never hits its panic, every pixel of the row is stored at its position, and NO other bit of the
   destination changes - in particular the stored field does not depend on what the destination held. *)
Theorem C15_expand_row :
  forall m stride p line width bits row lm lo sm so,
    In p passes -> 0 <= line -> 0 <= width -> 0 <= stride -> img_bytes m -> img_bytes row -> legal_bits bits ->
    assocz p expand_table = Some (lm, lo, sm, so) ->
    let pos := fun i => (i * sm + so) * bits + (lm * line + lo) * stride * 8 in
    exists m', expand_pass_model m stride p line width bits row = Some m' /\
      (forall i, 0 <= i < width -> forall j, 0 <= j < bits -> get_bit m' (pos i + j) = get_bit row (i * bits + j)) /\
      (forall q, 0 <= q -> (forall i, 0 <= i < width -> ~ (pos i <= q < pos i + bits)) -> get_bit m' q = get_bit m q) /\
      img_bytes m'.
Proof. exact expand_row_correct. Qed.

(* (4) The whole image: expanding the rows of all seven passes IN ANY ORDER into any destination with any
   stride >= the packed width writes every pixel (x,y) at bit y*stride*8 + x*bits, leaves every other bit of
   the destination as it was, and so the image area is independent of the previous contents. *)
Theorem C15_expand_image :
  forall (w h stride bits : Z) (src : Z -> Z -> Z -> bool) (rowf : Z -> Z -> Z -> Z),
    0 < w < 4294967296 -> 0 < h < 4294967296 -> legal_bits bits -> w * bits <= stride * 8 ->
    (forall p l lw, In (p, l, lw) (rows_model w h) -> img_bytes (rowf p l)) ->
    (forall p l lw lm lo sm so, In (p, l, lw) (rows_model w h) -> assocz p expand_table = Some (lm, lo, sm, so) ->
       forall i j, 0 <= i < lw -> 0 <= j < bits ->
         get_bit (rowf p l) (i * bits + j) = src (i * sm + so) (lm * l + lo) j) ->
    forall (m0 : img) (ord : list (Z * Z * Z)),
      img_bytes m0 -> NoDup ord -> (forall r, In r ord <-> In r (rows_model w h)) ->
      exists m', expand_all m0 stride bits rowf ord = Some m' /\
        (forall x y j, 0 <= x < w -> 0 <= y < h -> 0 <= j < bits ->
           get_bit m' (y * stride * 8 + x * bits + j) = src x y j) /\
        (forall q, 0 <= q ->
           (forall x y, 0 <= x < w -> 0 <= y < h -> ~ (y * stride * 8 + x * bits <= q < y * stride * 8 + x * bits + bits)) ->
           get_bit m' q = get_bit m0 q).
Proof. exact expand_image_correct. Qed.

(* ---- non-vacuity *)
Example C15_nonvacuous_rows :
  rows_model 5 3 = [(1, 0, 1); (2, 0, 1); (4, 0, 1); (5, 0, 3); (6, 0, 2); (6, 1, 2); (7, 0, 5)]
  /\ rows_spec 5 3 = rows_model 5 3 /\ rows_model 1 1 = [(1, 0, 1)].
Proof. vm_compute. repeat split; reflexivity. Qed.

Example C15_nonvacuous_expand :   (* 2-bit pixels, dirty destination 0xFF: pass 6 line 0 of a 5-wide image *)
  expand_pass_exec [255; 255; 255; 255] 2 6 0 2 2 [2 * 64 + 1 * 16] = Some [237; 255; 255; 255]   (* 11 10 11 01: pixels 2 and 1 at x = 1 and x = 3 *).
Proof. vm_compute. reflexivity. Qed.

Check C15_rows_are_the_specified_rows :
  forall w h, 0 < w < 4294967296 -> 0 < h < 4294967296 -> rows_model w h = rows_spec w h.

Print Assumptions C15_rows_are_the_specified_rows.
Print Assumptions C15_positions_sound.
Print Assumptions C15_positions_complete.
Print Assumptions C15_positions_unique.
Print Assumptions C15_expand_row.
Print Assumptions C15_expand_image.
