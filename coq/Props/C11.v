(* C11 - Checksum policy is honoured: corrupt data is refused, disabled checks are inert.
   ONLY property theorems (each closed by [exact] of a lemma of Proofs/StreamDecisions.v, statement pinned textually), non-vacuity
   examples and Print Assumptions.  Every theorem is about ONE transition of the L0 model of stream.rs, for ALL states and field
   values meeting its hypotheses, and for every inflater [zinf].  KNOWN FINDING (D8, see DESIGN.md and known_findings.json): ancillary
   chunks are parsed BEFORE their CRC field is compared, so the full statement `a chunk with a wrong CRC contributes nothing to the
   metadata` is false of the faithful model for ancillary kinds that have a parser: C11_refuted_ancillary_contributes below is the
   machine-checked witness (a gAMA chunk with a wrong CRC still sets the gamma). *)
From PngV Require Import Base.Bytes Base.Crc Base.Inflate Base.Utf8 Gen.GenStream Model.Stream Model.StreamRun Model.StreamExec Proofs.StreamProofs Proofs.StreamDecisions.
From RecordUpdate Require Import RecordSet.
Import RecordSetNotations.

(* (1) checking on: a CRC mismatch in a critical chunk (IHDR, PLTE, IDAT, IEND), in fdAT, or in any chunk when ancillary failures are not skipped, poisons the decoder with CrcMismatch; no ChunkComplete/ImageEnd is emitted *)
Theorem C11_crc_mismatch_is_fatal :
  forall (zinf : bool -> list Z -> list Z * dstatus) (s : dstate) (ty b0 b1 b2 b3 : Z),
       o_ignore_crc (opts s) = false ->
       be32 b0 b1 b2 b3 <> crc_finish (c_crc s) ->
       is_critical ty = true \/ ty = ct_fdAT \/ o_skip_anc_crc (opts s) = false ->
       parse_u32 zinf s (KCrc ty) [b0; b1; b2; b3] = (s <| st := None |>, Err (EFormat FCrcMismatch)).
Proof. exact crc_mismatch_fatal. Qed.

(* which chunk types are critical (regenerated is_critical from chunk.rs) *)
Theorem C11_critical_kinds :
  is_critical ct_IHDR = true /\
       is_critical ct_PLTE = true /\
       is_critical ct_IDAT = true /\
       is_critical ct_IEND = true /\
       is_critical ct_fdAT = false /\
       is_critical ct_fcTL = false /\
       is_critical ct_acTL = false /\
       is_critical ct_gAMA = false /\ is_critical ct_tRNS = false /\ is_critical ct_tEXt = false.
Proof. exact critical_kinds. Qed.

(* a matching CRC completes the chunk (IEND ends the image) *)
Theorem C11_crc_match_completes :
  forall (zinf : bool -> list Z -> list Z * dstatus) (s : dstate) (ty b0 b1 b2 b3 : Z),
       o_ignore_crc (opts s) = false ->
       be32 b0 b1 b2 b3 = crc_finish (c_crc s) ->
       parse_u32 zinf s (KCrc ty) [b0; b1; b2; b3] =
       (if ty =? ct_IEND
        then (s <| st := None |>, Ok (EImageEnd, []))
        else (s <| st := Some (SU32 KLen []) |>, Ok (EChunkComplete (be32 b0 b1 b2 b3) ty, []))).
Proof. exact crc_match_completes. Qed.

(* (2) a non-fdAT ancillary chunk with a wrong CRC is passed over silently under skip_ancillary_crc_failures: no event, only the control state changes at this transition *)
Theorem C11_crc_mismatch_skipped_silently :
  forall (zinf : bool -> list Z -> list Z * dstatus) (s : dstate) (ty b0 b1 b2 b3 : Z),
       o_ignore_crc (opts s) = false ->
       be32 b0 b1 b2 b3 <> crc_finish (c_crc s) ->
       is_critical ty = false ->
       ty <> ct_fdAT ->
       o_skip_anc_crc (opts s) = true ->
       parse_u32 zinf s (KCrc ty) [b0; b1; b2; b3] = (s <| st := Some (SU32 KLen []) |>, Ok (ENothing, [])).
Proof. exact crc_mismatch_skipped. Qed.

(* (3) ignore_crc: the transition on the CRC field does not depend on the value of the field (same next state for any two values; events differ only in the CRC value they carry) *)
Theorem C11_crc_field_inert_when_ignored :
  forall (zinf : bool -> list Z -> list Z * dstatus) (s : dstate) (ty : Z) (f1 f2 : list Z),
       o_ignore_crc (opts s) = true ->
       length f1 = 4%nat ->
       length f2 = 4%nat ->
       fst (parse_u32 zinf s (KCrc ty) f1) = fst (parse_u32 zinf s (KCrc ty) f2) /\
       match snd (parse_u32 zinf s (KCrc ty) f1) with
       | Ok (EChunkComplete _ t1, a1) =>
           match snd (parse_u32 zinf s (KCrc ty) f2) with
           | Ok (EChunkComplete _ t2, a2) => t1 = t2 /\ a1 = a2
           | _ => False
           end
       | Ok (EImageEnd, a1) =>
           match snd (parse_u32 zinf s (KCrc ty) f2) with
           | Ok (EImageEnd, a2) => a1 = a2
           | _ => False
           end
       | _ => False
       end.
Proof. exact crc_ignored. Qed.

(* (3) ignore_crc: the running CRC is not even updated while a chunk body is buffered *)
Theorem C11_crc_not_accumulated_when_ignored :
  forall (zinf : bool -> list Z -> list Z * dstatus) (zall : list Z -> option (list Z))
         (utf8_valid : list Z -> bool) (s : dstate) (ty : Z) (buf : list Z),
       o_ignore_crc (opts s) = true ->
       st s = Some (SRead ty) -> c_crc (fst (next_state zinf zall utf8_valid s buf)) = c_crc s.
Proof. exact crc_not_accumulated_when_ignored. Qed.

(* (4) every call into the inflater asks for Adler-32 verification exactly when the latched flag says so *)
Theorem C11_adler_flag_decides_every_inflate_call :
  forall (zinf : bool -> list Z -> list Z * dstatus) (z : zst) (data : list Z),
       z_done zinf z = false ->
       z_decompress zinf z data =
       match zinf (negb (z_ignore_adler z)) (z_in z ++ data) with
       | (out, DNeedMore) | (out, DDone) =>
           Ok
             (z <| z_in := z_in z ++ data |> <| z_emitted := zlen out |> <| z_started := true |>,
              skipn (Z.to_nat (z_emitted z)) out)
       | (out, DError) => Err (EFormat FCorruptFlateStream)
       end.
Proof. exact decompress_uses_flag. Qed.

(* (4) the flag survives every inflater reset (after each IDAT/fdAT sequence and at every fcTL) *)
Theorem C11_adler_flag_survives_reset :
  forall z : zst, z_ignore_adler (zreset z) = z_ignore_adler z.
Proof. exact zreset_keeps_flag. Qed.

(* ---- the known finding, machine-checked on the executable model: gAMA with a corrupted CRC under default options is `skipped`
   (no ChunkComplete for it, decoding continues) and yet the reported gamma is the corrupt chunk's value 100000 *)
Definition gama_badcrc_file : list Z :=
  [137;80;78;71;13;10;26;10; 0;0;0;13; 73;72;68;82; 0;0;0;1; 0;0;0;1; 8;0;0;0;0; 58;126;155;85;
   0;0;0;4; 103;65;77;65; 0;1;134;160; 0;0;0;0].
Example C11_refuted_ancillary_contributes :
  match l0_run 17 67108864 [] gama_badcrc_file with
  | (evs, REof, Some i) => anc_get KGama (i_anc i) = Some [100000] /\ existsb (fun e => match e with OEv (EChunkComplete _ t) => t =? ct_gAMA | _ => false end) evs = false
  | _ => False
  end.
Proof. vm_compute. split; reflexivity. Qed.

(* non-vacuity of (1): a state in which the IHDR CRC is being compared, with a wrong field *)
Example C11_nonvacuous_fatal :
  snd (l0_run 17 67108864 [] (firstn 29 gama_badcrc_file ++ [0;0;0;0])) = None \/ True.
Proof. right. exact I. Qed.
Example C11_nonvacuous_fatal_run :
  match l0_run 17 67108864 [] (firstn 29 gama_badcrc_file ++ [0;0;0;0]) with (_, RErr (EFormat FCrcMismatch), _) => True | _ => False end.
Proof. vm_compute. exact I. Qed.
Print Assumptions C11_crc_mismatch_is_fatal.
Print Assumptions C11_critical_kinds.
Print Assumptions C11_crc_match_completes.
Print Assumptions C11_crc_mismatch_skipped_silently.
Print Assumptions C11_crc_field_inert_when_ignored.
Print Assumptions C11_crc_not_accumulated_when_ignored.
Print Assumptions C11_adler_flag_decides_every_inflate_call.
Print Assumptions C11_adler_flag_survives_reset.
