(* C03 - Encode then decode is lossless for every image and every setting.
   ONLY property theorems (closed by [exact]; statements pinned textually), non-vacuity examples, Print Assumptions.
   PROVED: for every filter setting (the five fixed types and Adaptive), every pixel size bpp > 0, every row length that is a multiple of it and
   every list of rows with arbitrary byte contents, the decoder's row pipeline (Model/Pipeline.v, proved equal to the specification in C01) applied
   to the scanline stream produced by the model of the encoder's row loop (each row filtered against the previous INPUT row, a zero row first)
   returns exactly the rows, with nothing left over - for both Paeth predictor selections; and the encoder never refuses well-shaped rows.
   The stream writer's row buffering makes the rows handed to the filter independent of how the pixel bytes are split over write() calls; that,
   the chunk writer and write_all over short-writing sinks are tied by the correspondence (write partitions, buffer sizes 1..4096, sinks accepting
   1..10 bytes), not proved.  Compression: fdeflate / flate2 are inverse to the decoder's inflater by contract (checked on every run through an
   independent inflater that requires the stream to end exactly). *)
From PngV Require Import Base.Bytes Spec.FilterSpec Gen.GenPaeth Model.Filter Proofs.PaethProofs Proofs.FilterProofs Proofs.FilterEncProofs Model.Pipeline Proofs.PipelineProofs Model.EncodePipeline Proofs.EncodePipelineProofs.

(* the round trip, any predictor equal to the specification's on bytes (both compiled selections are: C14_paeth_all_paths) *)
Theorem C03_encode_then_decode_rows_is_identity :
  forall P : Z -> Z -> Z -> Z,
       (forall a b c : Z, byte_ok a -> byte_ok b -> byte_ok c -> P a b c = paeth_spec a b c) ->
       forall (m : fmethod) (bpp k : nat) (rows : list (list Z)) (stream : list Z),
       (0 < bpp)%nat ->
       (0 < k)%nat ->
       Forall (fun r : list Z => length r = (k * bpp)%nat /\ bytes_ok r) rows ->
       encode_image m bpp (k * bpp) rows = Some stream ->
       unfilter_rows P bpp (k * bpp) (length rows) [] stream = Ok (rows, []).
Proof. exact encode_decode_rows. Qed.

(* rows after the first, against any previous row *)
Theorem C03_later_rows_round_trip :
  forall P : Z -> Z -> Z -> Z,
       (forall a b c : Z, byte_ok a -> byte_ok b -> byte_ok c -> P a b c = paeth_spec a b c) ->
       forall (m : fmethod) (bpp k : nat),
       (0 < bpp)%nat ->
       (0 < k)%nat ->
       forall (rows : list (list Z)) (prev stream : list Z),
       Forall (fun r : list Z => length r = (k * bpp)%nat /\ bytes_ok r) rows ->
       length prev = (k * bpp)%nat ->
       bytes_ok prev ->
       encode_rows m bpp prev rows = Some stream ->
       unfilter_rows P bpp (k * bpp) (length rows) prev stream = Ok (rows, []).
Proof. exact encode_decode_later. Qed.

(* the encoder's row loop is total on well-shaped rows *)
Theorem C03_encoder_never_refuses :
  forall (m : fmethod) (bpp k : nat),
       (0 < bpp)%nat ->
       (0 < k)%nat ->
       forall (rows : list (list Z)) (prev : list Z),
       Forall (fun r : list Z => length r = (k * bpp)%nat /\ bytes_ok r) rows ->
       length prev = (k * bpp)%nat ->
       bytes_ok prev -> exists stream : list Z, encode_rows m bpp prev rows = Some stream.
Proof. exact encode_total. Qed.

(* every filter setting returns a filter type and a row *)
Theorem C03_filter_choice_is_total :
  forall (m : fmethod) (bpp : nat) (prev cur : list Z),
       (0 < bpp)%nat ->
       (bpp <= length cur)%nat ->
       length prev = length cur ->
       bytes_ok prev ->
       bytes_ok cur -> exists (rf : ftype) (out : list Z), filter_model m bpp prev cur = Some (rf, out).
Proof. exact filter_model_total. Qed.

Example C03_nonvacuous :
  encode_image MAdaptive 2 4 [[10; 20; 30; 40]; [11; 19; 33; 37]] = Some [4; 10; 20; 20; 20; 4; 1; 255; 3; 253]
  /\ unfilter_rows filter_paeth_decode_x86_64 2 4 2 [] [4; 10; 20; 20; 20; 4; 1; 255; 3; 253] = Ok ([[10; 20; 30; 40]; [11; 19; 33; 37]], []).
Proof. vm_compute. split; reflexivity. Qed.
Print Assumptions C03_encode_then_decode_rows_is_identity.
Print Assumptions C03_later_rows_round_trip.
Print Assumptions C03_encoder_never_refuses.
Print Assumptions C03_filter_choice_is_total.
