(* C03 - Encode then decode is lossless for every image and every setting.
   ONLY property theorems (closed by [exact]; statements pinned textually), non-vacuity examples, Print Assumptions.
   PROVED: for every filter setting (the five fixed types and Adaptive), every pixel size bpp > 0, every row length that is a multiple of it and
   every list of rows with arbitrary byte contents, the decoder's row pipeline (Model/Pipeline.v, proved equal to the specification in C01) applied
   to the scanline stream produced by the model of the encoder's row loop (each row filtered against the previous INPUT row, a zero row first)
   returns exactly the rows, with nothing left over - for both Paeth predictor selections; and the encoder never refuses well-shaped rows.
   THE STREAM WRITER (still images, Model/StreamWriterBuf.v, Proofs/StreamWriterProofs.v): however the caller cuts the image into write calls, the
   compressor is handed exactly the scanline stream of the whole-image path (C03_stream_writer_any_split: the scanline assembly of
   StreamWriter::write is cut-invariant), and whatever the bursts in which the compressor writes its output, the IDAT chunks that reach the sink are
   that output cut into pieces of the chunk size - together the data, none empty, none longer, all but the last full
   (C03_chunk_layer_any_bursts and the three lemmas on chunks_of).  Both layers are tied to the crate call by call: the bytes every
   StreamWriter::write accepts and the inflated IDAT stream, and - through a hook - every ChunkWriter::write / flush result and every emitted chunk.
   write_all over short-writing sinks is tied by the correspondence only (sinks accepting 1..10 bytes).  Compression: fdeflate / flate2 are inverse to the decoder's inflater by contract (checked on every run through an
   independent inflater that requires the stream to end exactly). *)
From PngV Require Import Base.Bytes Spec.FilterSpec Gen.GenPaeth Model.Filter Proofs.PaethProofs Proofs.FilterProofs Proofs.FilterEncProofs Model.Pipeline Proofs.PipelineProofs Model.EncodePipeline Proofs.EncodePipelineProofs Model.StreamWriterBuf Proofs.StreamWriterProofs.

(* the round trip, any predictor equal to the specification's on bytes (both compiled selections are: C14_paeth_all_paths) *)
Theorem C03_encode_then_decode_rows_is_identity :
  forall P : Z -> Z -> Z -> Z,
       (forall a b c : Z, byte_ok a -> byte_ok b -> byte_ok c -> P a b c = paeth_spec a b c) ->
       forall (m : fmethod) (bpp k : nat) (rows : list (list Z)) (stream : list Z),
       (0 < bpp)%nat ->
       (0 < k)%nat ->
       Forall (fun r : list Z => length r = (k * bpp)%nat /\ bytes_ok r) rows ->
       encode_image m bpp (k * bpp) rows = Some stream ->
       unfilter_rows P bpp (k * bpp) (length rows) [] stream = Ok (rows, []).
Proof. exact encode_decode_rows. Qed.

(* rows after the first, against any previous row *)
Theorem C03_later_rows_round_trip :
  forall P : Z -> Z -> Z -> Z,
       (forall a b c : Z, byte_ok a -> byte_ok b -> byte_ok c -> P a b c = paeth_spec a b c) ->
       forall (m : fmethod) (bpp k : nat),
       (0 < bpp)%nat ->
       (0 < k)%nat ->
       forall (rows : list (list Z)) (prev stream : list Z),
       Forall (fun r : list Z => length r = (k * bpp)%nat /\ bytes_ok r) rows ->
       length prev = (k * bpp)%nat ->
       bytes_ok prev ->
       encode_rows m bpp prev rows = Some stream ->
       unfilter_rows P bpp (k * bpp) (length rows) prev stream = Ok (rows, []).
Proof. exact encode_decode_later. Qed.

(* the encoder's row loop is total on well-shaped rows *)
Theorem C03_encoder_never_refuses :
  forall (m : fmethod) (bpp k : nat),
       (0 < bpp)%nat ->
       (0 < k)%nat ->
       forall (rows : list (list Z)) (prev : list Z),
       Forall (fun r : list Z => length r = (k * bpp)%nat /\ bytes_ok r) rows ->
       length prev = (k * bpp)%nat ->
       bytes_ok prev -> exists stream : list Z, encode_rows m bpp prev rows = Some stream.
Proof. exact encode_total. Qed.

(* every filter setting returns a filter type and a row *)
Theorem C03_filter_choice_is_total :
  forall (m : fmethod) (bpp : nat) (prev cur : list Z),
       (0 < bpp)%nat ->
       (bpp <= length cur)%nat ->
       length prev = length cur ->
       bytes_ok prev ->
       bytes_ok cur -> exists (rf : ftype) (out : list Z), filter_model m bpp prev cur = Some (rf, out).
Proof. exact filter_model_total. Qed.

(* THE ROUND TRIP THROUGH THE STREAM WRITER: any split of the image over write calls, any compressor K with inflater I such that I (K x) = x, any bursts in which K's output reaches the chunk layer, any chunk size - the IDAT payloads concatenated and inflated are the scanline stream, and the decoder's row pipeline returns exactly the rows given *)
Theorem C03_stream_writer_round_trip :
  forall (P : Z -> Z -> Z -> Z) (K : list Z -> list Z) (I : list Z -> option (list Z)),
       (forall a b c : Z, byte_ok a -> byte_ok b -> byte_ok c -> P a b c = paeth_spec a b c) ->
       forall (m : fmethod) (bpp k : nat) (rows pieces bursts : list (list Z)) (cap : nat),
       (0 < bpp)%nat ->
       (0 < k)%nat ->
       (0 < cap)%nat ->
       Forall (fun r : list Z => length r = (k * bpp)%nat /\ bytes_ok r) rows ->
       concat pieces = concat rows ->
       exists (s' : swst) (stream : list Z) (chunks : list (list Z)),
         sw_run m bpp (sw_init (k * bpp) (length rows)) pieces = Some (s', stream) /\
         sw_left s' = 0%nat /\
         sw_cur s' = [] /\
         (concat bursts = K stream ->
          I (K stream) = Some stream ->
          cw_run {| cw_cap := cap; cw_buf := [] |} bursts = Some chunks /\
          Forall (fun c : list Z => (1 <= length c <= cap)%nat) chunks /\
          I (concat chunks) = Some stream /\
          unfilter_rows P bpp (k * bpp) (length rows) [] stream = Ok (rows, [])).
Proof. exact stream_writer_round_trip. Qed.

(* the stream writer: for every way of cutting the image bytes into write_all calls the compressor gets the stream of the whole-image path, the frame is complete and no partial scanline is left *)
Theorem C03_stream_writer_any_split :
  forall (m : fmethod) (bpp line : nat) (rows pieces : list (list Z)),
       (0 < line)%nat ->
       Forall (fun r : list Z => length r = line) rows ->
       concat pieces = concat rows ->
       sw_run m bpp (sw_init line (length rows)) pieces =
       match encode_image m bpp line rows with
       | Some out =>
           Some ({| sw_prev := last rows (zeros line); sw_cur := []; sw_line := line; sw_left := 0 |}, out)
       | None => None
       end.
Proof. exact stream_writer_any_split. Qed.

(* write_all(p) then write_all(q) is write_all(p ++ q), from every state that satisfies the invariant *)
Theorem C03_stream_writer_calls_are_cut_invariant :
  forall (m : fmethod) (bpp f : nat) (p q : list Z) (s : swst),
       sw_inv s ->
       (length p + length q < f)%nat ->
       sw_write_all f m bpp s (p ++ q) =
       match sw_write_all f m bpp s p with
       | Some (s1, o1) =>
           match sw_write_all f m bpp s1 q with
           | Some (s2, o2) => Some (s2, o1 ++ o2)
           | None => None
           end
       | None => None
       end.
Proof. exact sw_all_app. Qed.

(* a complete still image takes no further data (sequence validation on) *)
Theorem C03_stream_writer_refuses_data_beyond_the_image :
  forall (m : fmethod) (bpp : nat) (s : swst) (d : list Z) (f : nat),
       sw_left s = 0%nat -> d <> [] -> sw_write_all (S f) m bpp s d = None.
Proof. exact stream_writer_refuses_data_beyond_the_image. Qed.

(* the chunk layer: whatever the bursts of the compressor, the IDAT chunks are its output cut into pieces of the chunk size *)
Theorem C03_chunk_layer_any_bursts :
  forall (cap : nat) (bursts : list (list Z)),
       (0 < cap)%nat ->
       cw_run {| cw_cap := cap; cw_buf := [] |} bursts =
       Some (chunks_of (length (concat bursts)) cap (concat bursts)).
Proof. exact chunk_writer_any_bursts. Qed.

(* write_all(p) then write_all(q) is write_all(p ++ q) for the chunk layer, from every state with room in the buffer *)
Theorem C03_chunk_layer_calls_are_cut_invariant :
  forall (f : nat) (p q : list Z) (s : cwst),
       cw_inv s ->
       (length p + length q < f)%nat ->
       cw_write_all f s (p ++ q) =
       match cw_write_all f s p with
       | Some (s1, c1) =>
           match cw_write_all f s1 q with
           | Some (s2, c2) => Some (s2, c1 ++ c2)
           | None => None
           end
       | None => None
       end.
Proof. exact cw_all_app. Qed.

(* the chunks concatenated are the data *)
Theorem C03_chunks_together_are_the_data :
  forall (fuel cap : nat) (l : list Z),
       (0 < cap)%nat -> (length l <= fuel)%nat -> concat (chunks_of fuel cap l) = l.
Proof. exact chunks_concat. Qed.

(* no chunk is empty, none is longer than the chunk size *)
Theorem C03_chunks_are_never_empty_nor_too_long :
  forall (fuel cap : nat) (l : list Z),
       (0 < cap)%nat ->
       (length l <= fuel)%nat -> Forall (fun c : list Z => (1 <= length c <= cap)%nat) (chunks_of fuel cap l).
Proof. exact chunks_sizes. Qed.

(* every chunk that is followed by another one is full *)
Theorem C03_all_chunks_but_the_last_are_full :
  forall (fuel cap : nat) (l c : list Z) (cs : list (list Z)),
       (0 < cap)%nat ->
       (length l <= fuel)%nat -> chunks_of fuel cap l = c :: cs -> cs <> [] -> length c = cap.
Proof. exact chunks_all_but_last_full. Qed.

Example C03_nonvacuous :
  encode_image MAdaptive 2 4 [[10; 20; 30; 40]; [11; 19; 33; 37]] = Some [4; 10; 20; 20; 20; 4; 1; 255; 3; 253]
  /\ unfilter_rows filter_paeth_decode_x86_64 2 4 2 [] [4; 10; 20; 20; 20; 4; 1; 255; 3; 253] = Ok ([[10; 20; 30; 40]; [11; 19; 33; 37]], []).
Proof. vm_compute. split; reflexivity. Qed.

(* non-vacuity for the stream writer layers: a 2x2 image (2-byte rows, filter None) written as 1 + 3 bytes, and 7 compressed bytes arriving in
   bursts of 2, 4 and 1 at a 3-byte chunk buffer *)
Example C03_stream_writer_demo :
  sw_run (MFixed FNone) 1 (sw_init 2 2) [[10]; [11; 12; 13]] = Some (mk_sw [12; 13] [] 2 0, [0; 10; 11; 0; 12; 13]).
Proof. vm_compute. reflexivity. Qed.
Example C03_chunk_layer_demo : cw_run (mk_cw 3 []) [[1; 2]; [3; 4; 5; 6]; [7]] = Some [[1; 2; 3]; [4; 5; 6]; [7]].
Proof. exact chunk_writer_demo. Qed.
Print Assumptions C03_encode_then_decode_rows_is_identity.
Print Assumptions C03_later_rows_round_trip.
Print Assumptions C03_encoder_never_refuses.
Print Assumptions C03_filter_choice_is_total.
Print Assumptions C03_stream_writer_round_trip.
Print Assumptions C03_stream_writer_any_split.
Print Assumptions C03_stream_writer_calls_are_cut_invariant.
Print Assumptions C03_stream_writer_refuses_data_beyond_the_image.
Print Assumptions C03_chunk_layer_any_bursts.
Print Assumptions C03_chunk_layer_calls_are_cut_invariant.
Print Assumptions C03_chunks_together_are_the_data.
Print Assumptions C03_chunks_are_never_empty_nor_too_long.
Print Assumptions C03_all_chunks_but_the_last_are_full.
