(* C16 - Metadata is reported faithfully; malformed optional chunks never break the image.
   ONLY property theorems (closed by [exact]; statements pinned textually), non-vacuity examples, Print Assumptions.
   Codec theorems: for ALL legal field values, the parser of the L0 model applied to the specification's big-endian layout of
   those values stores exactly those values.  Harmless-chunk theorems: first-wins kinds, duplicates, benign errors and unknown
   chunk types leave the Info untouched.  Text payload decoding (Latin-1 / UTF-8 / inflate) is C20; iCCP inflate is by contract. *)
From PngV Require Import Base.Bytes Base.Crc Base.Inflate Base.Utf8 Gen.GenStream Model.Stream Model.StreamRun Model.StreamExec Proofs.StreamProofs Proofs.StreamDecisions.
From RecordUpdate Require Import RecordSet.
Import RecordSetNotations.

(* reading a 4-byte big-endian field returns the value that was laid out *)
Theorem C16_be32_roundtrip :
  (bool -> list Z -> list Z * dstatus) ->
       (list Z -> option (list Z)) ->
       (list Z -> bool) ->
       forall (v : Z) (rest : list Z), 0 <= v < 4294967296 -> rd32 (to_be32 v ++ rest) = Ok (v, rest).
Proof. exact rd32_to_be32. Qed.

(* gAMA *)
Theorem C16_gAMA :
  (bool -> list Z -> list Z * dstatus) ->
       (list Z -> option (list Z)) ->
       (list Z -> bool) ->
       forall (s : dstate) (g : Z),
       u32 g ->
       have_idat s = false ->
       anc_has KGama (the_info s) = false ->
       c_raw s = to_be32 g -> parse_gama s = (upd_info s (anc_set KGama [g]), Ok ENothing).
Proof. exact codec_gama. Qed.

(* pHYs: x, y, unit *)
Theorem C16_pHYs :
  (bool -> list Z -> list Z * dstatus) ->
       (list Z -> option (list Z)) ->
       (list Z -> bool) ->
       forall (s : dstate) (x y u : Z),
       u32 x ->
       u32 y ->
       u = 0 \/ u = 1 ->
       have_idat s = false ->
       anc_has KPhys (the_info s) = false ->
       c_raw s = to_be32 x ++ to_be32 y ++ [u] ->
       parse_phys s = (upd_info s (anc_set KPhys [x; y; u]), Ok (EPixelDimensions x y u)).
Proof. exact codec_phys. Qed.

(* cHRM: white, red, green, blue (x then y) *)
Theorem C16_cHRM :
  (bool -> list Z -> list Z * dstatus) ->
       (list Z -> option (list Z)) ->
       (list Z -> bool) ->
       forall (s : dstate) (wx wy rx ry gx gy bx by_ : Z),
       u32 wx ->
       u32 wy ->
       u32 rx ->
       u32 ry ->
       u32 gx ->
       u32 gy ->
       u32 bx ->
       u32 by_ ->
       have_idat s = false ->
       anc_has KChrm (the_info s) = false ->
       c_raw s =
       to_be32 wx ++
       to_be32 wy ++ to_be32 rx ++ to_be32 ry ++ to_be32 gx ++ to_be32 gy ++ to_be32 bx ++ to_be32 by_ ->
       parse_chrm s = (upd_info s (anc_set KChrm [wx; wy; rx; ry; gx; gy; bx; by_]), Ok ENothing).
Proof. exact codec_chrm. Qed.

(* sRGB rendering intent *)
Theorem C16_sRGB :
  forall (s : dstate) (r : Z),
       0 <= r <= 3 ->
       have_idat s = false ->
       anc_has KSrgb (the_info s) = false ->
       c_raw s = [r] -> parse_srgb s = (upd_info s (anc_set KSrgb [r]), Ok ENothing).
Proof. exact codec_srgb. Qed.

(* acTL: frame count, play count *)
Theorem C16_acTL :
  (bool -> list Z -> list Z * dstatus) ->
       (list Z -> option (list Z)) ->
       (list Z -> bool) ->
       forall (s : dstate) (f p : Z),
       u32 f ->
       u32 p ->
       have_idat s = false ->
       c_raw s = to_be32 f ++ to_be32 p ->
       parse_actl s =
       (upd_info s (fun i : info_t => i <| i_actl := Some (f, p) |>), Ok (EAnimationControl f p)).
Proof. exact codec_actl. Qed.

(* cLLI: max content light level, max frame average light level *)
Theorem C16_cLLI :
  forall (s : dstate) (a b : Z),
       u32 a ->
       u32 b ->
       anc_has KClli (the_info s) = false ->
       c_raw s = to_be32 a ++ to_be32 b -> parse_clli s = (upd_info s (anc_set KClli [a; b]), Ok ENothing).
Proof. exact codec_clli. Qed.

(* fcTL: all nine fields in specification order, sequence number continued *)
Theorem C16_fcTL :
  (bool -> list Z -> list Z * dstatus) ->
       (list Z -> option (list Z)) ->
       (list Z -> bool) ->
       forall (s : dstate) (n w h x y dn dd dop bop : Z),
       u32 n ->
       u32 w ->
       u32 h ->
       u32 x ->
       u32 y ->
       0 <= dn < 65536 ->
       0 <= dd < 65536 ->
       dop = 0 \/ dop = 1 \/ dop = 2 ->
       bop = 0 \/ bop = 1 ->
       n = match seq s with
           | Some q => q + 1
           | None => 0
           end ->
       c_raw s =
       to_be32 n ++
       to_be32 w ++ to_be32 h ++ to_be32 x ++ to_be32 y ++ to_be16 dn ++ to_be16 dd ++ [dop; bop] ->
       validate_fctl (the_info s)
         {|
           fc_seq := n;
           fc_w := w;
           fc_h := h;
           fc_x := x;
           fc_y := y;
           fc_dn := dn;
           fc_dd := dd;
           fc_dispose := dop;
           fc_blend := bop
         |} = Ok tt ->
       snd (parse_fctl s) =
       Ok
         (EFrameControl
            {|
              fc_seq := n;
              fc_w := w;
              fc_h := h;
              fc_x := x;
              fc_y := y;
              fc_dn := dn;
              fc_dd := dd;
              fc_dispose := dop;
              fc_blend := bop
            |}) /\
       i_fctl (the_info (fst (parse_fctl s))) =
       Some
         {|
           fc_seq := n;
           fc_w := w;
           fc_h := h;
           fc_x := x;
           fc_y := y;
           fc_dn := dn;
           fc_dd := dd;
           fc_dispose := dop;
           fc_blend := bop
         |} /\ seq (fst (parse_fctl s)) = Some n.
Proof. exact codec_fctl. Qed.

(* cICP: colour primaries, transfer function, matrix coefficients 0, full-range flag *)
Theorem C16_cICP :
  forall (s : dstate) (cp tf fr : Z),
       fr = 0 \/ fr = 1 ->
       before_plte_and_idat s = true ->
       anc_has KCicp (the_info s) = false ->
       c_raw s = [cp; tf; 0; fr] -> parse_cicp s = (upd_info s (anc_set KCicp [cp; tf; 0; fr]), Ok ENothing).
Proof. exact codec_cicp. Qed.

(* mDCV: red/green/blue/white chromaticities (stored order) reported as white/red/green/blue doubled, then max and min luminance *)
Theorem C16_mDCV :
  forall (s : dstate) (rx ry gx gy bx by_ wx wy mx mn : Z),
       0 <= rx < 65536 ->
       0 <= ry < 65536 ->
       0 <= gx < 65536 ->
       0 <= gy < 65536 ->
       0 <= bx < 65536 ->
       0 <= by_ < 65536 ->
       0 <= wx < 65536 ->
       0 <= wy < 65536 ->
       u32 mx ->
       u32 mn ->
       before_plte_and_idat s = true ->
       anc_has KMdcv (the_info s) = false ->
       c_raw s =
       to_be16 rx ++
       to_be16 ry ++
       to_be16 gx ++
       to_be16 gy ++ to_be16 bx ++ to_be16 by_ ++ to_be16 wx ++ to_be16 wy ++ to_be32 mx ++ to_be32 mn ->
       parse_mdcv s =
       (upd_info s (anc_set KMdcv [wx * 2; wy * 2; rx * 2; ry * 2; gx * 2; gy * 2; bx * 2; by_ * 2; mx; mn]),
        Ok ENothing).
Proof. exact codec_mdcv. Qed.

(* sBIT: one byte per channel within 1..sample depth, stored verbatim and charged to the budget *)
Theorem C16_sBIT :
  forall (s : dstate) (v : list Z),
       anc_has KPalette (the_info s) = false ->
       have_idat s = false ->
       anc_has KSbit (the_info s) = false ->
       c_raw s = v ->
       zlen v <= budget s ->
       zlen v = sbit_expected (i_color (the_info s)) ->
       Forall (fun b : Z => 1 <= b <= (if i_color (the_info s) =? 3 then 8 else i_depth (the_info s))) v ->
       exists s' : dstate,
         parse_sbit s = (upd_info s' (anc_set KSbit v), Ok ENothing) /\ budget s' = budget s - zlen v.
Proof. exact codec_sbit. Qed.

(* bKGD of the length the colour type requires, stored verbatim *)
Theorem C16_bKGD :
  forall (s : dstate) (v : list Z),
       anc_has KBkgd (the_info s) = false ->
       have_idat s = false ->
       (i_color (the_info s) = 3 -> anc_has KPalette (the_info s) = true) ->
       c_raw s = v ->
       zlen v =
       (if i_color (the_info s) =? 3
        then 1
        else if (i_color (the_info s) =? 0) || (i_color (the_info s) =? 4) then 2 else 6) ->
       parse_bkgd s = (upd_info s (anc_set KBkgd v), Ok ENothing).
Proof. exact codec_bkgd. Qed.

(* text chunks: keyword (1..79 bytes without NUL) and payload are split at the first NUL *)
Theorem C16_text_keyword_split :
  forall kw txt : list Z,
       (1 <= length kw <= 79)%nat ->
       Forall (fun b : Z => b <> 0) kw -> split_keyword (kw ++ 0 :: txt) = Ok (kw, txt).
Proof. exact split_keyword_exact. Qed.

(* later instances of cICP, mDCV, cLLI, eXIf, bKGD, iCCP change nothing and raise nothing *)
Theorem C16_first_occurrence_wins :
  forall (zall : list Z -> option (list Z)) (s : dstate),
       (anc_has KCicp (the_info s) = true -> parse_cicp s = (s, Ok ENothing)) /\
       (anc_has KMdcv (the_info s) = true -> parse_mdcv s = (s, Ok ENothing)) /\
       (anc_has KClli (the_info s) = true -> parse_clli s = (s, Ok ENothing)) /\
       (anc_has KExif (the_info s) = true -> parse_exif s = (s, Ok ENothing)) /\
       (anc_has KBkgd (the_info s) = true -> parse_bkgd s = (s, Ok ENothing)) /\
       (have_iccp s = true -> have_idat s = false -> parse_iccp zall s = (s, Ok ENothing)).
Proof. exact first_wins. Qed.

(* duplicates of gAMA, cHRM, sRGB, pHYs, tRNS raise DuplicateChunk inside the parser and leave the state as it was ... *)
Theorem C16_duplicates_are_errors_in_the_parser :
  forall s : dstate,
       (have_idat s = false ->
        anc_has KGama (the_info s) = true -> parse_gama s = (s, Err (EFormat FDuplicateChunk))) /\
       (have_idat s = false ->
        anc_has KChrm (the_info s) = true -> parse_chrm s = (s, Err (EFormat FDuplicateChunk))) /\
       (have_idat s = false ->
        anc_has KSrgb (the_info s) = true -> parse_srgb s = (s, Err (EFormat FDuplicateChunk))) /\
       (have_idat s = false ->
        anc_has KPhys (the_info s) = true -> parse_phys s = (s, Err (EFormat FDuplicateChunk))) /\
       (anc_has KTrns (the_info s) = true -> parse_trns s = (s, Err (EFormat FDuplicateChunk))).
Proof. exact duplicates_error. Qed.

(* ... and no format error of a kind on the benign list (cHRM gAMA iCCP pHYs sBIT sRGB tRNS) ever leaves parse_chunk *)
Theorem C16_benign_errors_never_surface :
  forall (zall : list Z -> option (list Z)) (utf8_valid : list Z -> bool) (s : dstate) (ty : Z),
       is_benign ty = true ->
       (forall f : fmt_err, snd (parse_chunk zall utf8_valid s ty) <> Err (EFormat f)) /\
       snd (parse_chunk zall utf8_valid s ty) <> Err EIoEof.
Proof. exact benign_errors_never_surface. Qed.

(* an unknown chunk type changes nothing but the control state *)
Theorem C16_unknown_chunks_ignored :
  forall (zall : list Z -> option (list Z)) (utf8_valid : list Z -> bool) (s : dstate) (ty : Z),
       existsb (Z.eqb ty) known_types = false ->
       parse_chunk zall utf8_valid s ty = (s <| st := Some (SU32 (KCrc ty) []) |>, Ok (EPartialChunk ty)).
Proof. exact unknown_chunk_ignored. Qed.

(* no chunk parser touches the byte counter or the control state (beyond poisoning on a fatal error) *)
Theorem C16_parsers_leave_control_fields :
  forall (zall : list Z -> option (list Z)) (utf8_valid : list Z -> bool) (s : dstate) (ty : Z),
       c_remaining (fst (parse_chunk zall utf8_valid s ty)) = c_remaining s /\
       (st (fst (parse_chunk zall utf8_valid s ty)) = Some (SU32 (KCrc ty) []) \/
        st (fst (parse_chunk zall utf8_valid s ty)) = None /\
        (forall e : event, snd (parse_chunk zall utf8_valid s ty) <> Ok e)).
Proof. exact parse_chunk_ctrl. Qed.

(* ---- non-vacuity on the executable model: 1x1 image with gAMA=45455 and pHYs=(2835,2835,metre) *)
Example C16_nonvacuous :
  match l0_run 17 67108864 [] ([137;80;78;71;13;10;26;10; 0;0;0;13; 73;72;68;82; 0;0;0;1; 0;0;0;1; 8;0;0;0;0; 58;126;155;85;
     0;0;0;4; 103;65;77;65] ++ to_be32 45455 ++ to_be32 (crc32 ([103;65;77;65] ++ to_be32 45455))) with
  | (_, REof, Some i) => anc_get KGama (i_anc i) = Some [45455]
  | _ => False
  end.
Proof. vm_compute. reflexivity. Qed.
Print Assumptions C16_be32_roundtrip.
Print Assumptions C16_gAMA.
Print Assumptions C16_pHYs.
Print Assumptions C16_cHRM.
Print Assumptions C16_sRGB.
Print Assumptions C16_acTL.
Print Assumptions C16_cLLI.
Print Assumptions C16_fcTL.
Print Assumptions C16_cICP.
Print Assumptions C16_mDCV.
Print Assumptions C16_sBIT.
Print Assumptions C16_bKGD.
Print Assumptions C16_text_keyword_split.
Print Assumptions C16_first_occurrence_wins.
Print Assumptions C16_duplicates_are_errors_in_the_parser.
Print Assumptions C16_benign_errors_never_surface.
Print Assumptions C16_unknown_chunks_ignored.
Print Assumptions C16_parsers_leave_control_fields.
