(* C04 - Decoding result is independent of how input bytes are delivered.
   ONLY property theorems (closed by [exact]; statements pinned textually), Print Assumptions.
   FULL STATEMENT, PROVED for the stream machine (C04_decoding_is_delivery_independent): for every byte string, every option set and limit, and any two
   ways of cutting the bytes into the successive buffers handed to the streaming decoder, the driver `feed` of Model/StreamRun.v (the loop the
   correspondence check runs against StreamingDecoder::update) yields the same observation: the same sequence of events other than
   Nothing/ImageData (header, chunk begin/complete, metadata events, frame control, ...), the same image bytes with every ImageDataFlushed,
   and the same end - the complete decoder state (metadata included) when the run ends at IEND or at the end of the input, the same error and the
   same metadata when it fails.  The amount of image data handed out before a failure is not observed (as the property allows).  For the executable model (reference inflater of Base/Inflate.v) there is NO premise
   besides bytes being bytes (C04_executable_model_is_delivery_independent: the reference inflater is PROVED to meet the contract, Proofs/InflatePrefix.v);
   for an arbitrary inflater the only premise is the prefix-determinacy contract of the EXTERNAL inflater (fdeflate): what a prefix of a zlib stream has determined -
   output, an error, the end of the stream - stays determined when more input follows (zinf_contract; satisfiable: C04_contract_satisfiable).
   The proof goes through (1) the inflater wrapper (z_decompress_app), (2) one transition on p ++ q versus on p and then on q (step_ext: a 4-byte
   field, a chunk body or compressed image data straddling the cut), (3) runs of transitions (micro_cut), (4) lists of pieces, (5) the fuelled
   loops of update / feed, which (6) never run out of fuel (C04_driver_never_runs_dry: every transition lowers 5*|buffer| + rank).
   STILL PARTIAL with respect to the property's other half: the Reader on top of a BufRead (rows, frames) is not part of this theorem; it is
   decided on every run by the metamorphic check (whole vs byte-by-byte vs every single cut point vs random schedules) and has one known finding.
   ROWS (Proofs/ReaderRows.v, Proofs/ReaderRowsStream.v): a row-level run of the Reader is any list of actions on the unfiltering buffer - the inflater
   appends a portion (with compaction), a pass starts (reset of the previous row), a row of rl bytes is requested.  The buffer run equals the abstract run
   (C04_buffer_run_is_abstract_run); every run gives what the run with ALL data supplied first gives, except that a run stopped for lack of data has delivered
   a prefix of those rows (C04_all_data_first); hence two runs with the same requests over the same total data deliver the same rows and outcome, or - when one
   stopped for lack of data - one row list is a prefix of the other (C04_rows_are_delivery_independent: exactly the clause "only the amount of partial row
   data handed out before a failure may depend on the delivery").  COMPOSED with the stream machine: for any two ways of cutting the input, the image bytes of
   the first frame are the same, so any two Reader runs over them (any re-portioning, any interleaving with the same requests) deliver the same rows
   (C04_frame_rows_are_delivery_independent; no premise for the executable model: C04_executable_model_frame_rows_are_delivery_independent).  The abstract
   run with all data first IS the pipeline's row loop whose rows C01 proves equal to the specification (C04_all_data_run_is_the_pipeline). *)
From PngV Require Import Base.Bytes Base.Crc Gen.GenStream Model.Stream Model.StreamRun Proofs.StreamProofs Proofs.StreamSplit Proofs.StreamWhole Base.Inflate Base.Utf8 Model.StreamExec Proofs.InflatePrefix Gen.GenPaeth Model.Filter Model.Pipeline Model.UnfiltBuf Proofs.UnfiltBufProofs Proofs.ReaderRows Proofs.ReaderRowsStream.
From RecordUpdate Require Import RecordSet.
Import RecordSetNotations.

(* THE PROPERTY for the EXECUTABLE model of the streaming decoder (the one the correspondence check runs against StreamingDecoder::update), with NO premise about the inflater: any two ways of cutting the same bytes give the same observation *)
Theorem C04_executable_model_is_delivery_independent :
  forall (o : options) (limit : Z) (ps1 ps2 : list (list Z)),
       Forall bytes_ok ps1 ->
       Forall bytes_ok ps2 ->
       concat ps1 = concat ps2 ->
       feed_obs (feed zinf_ref inflate_checked utf8_valid (init_state o limit) ps1) =
       feed_obs (feed zinf_ref inflate_checked utf8_valid (init_state o limit) ps2).
Proof. exact executable_model_is_delivery_independent. Qed.

(* THE PROPERTY for the streaming decoder: from a newly created decoder, any two ways of cutting the same bytes give the same observation *)
Theorem C04_decoding_is_delivery_independent :
  forall (zinf : bool -> list Z -> list Z * dstatus) (zall : list Z -> option (list Z))
         (utf8_valid : list Z -> bool),
       zinf_contract zinf ->
       forall (o : options) (limit : Z) (ps1 ps2 : list (list Z)),
       Forall bytes_ok ps1 ->
       Forall bytes_ok ps2 ->
       concat ps1 = concat ps2 ->
       feed_obs (feed zinf zall utf8_valid (init_state o limit) ps1) =
       feed_obs (feed zinf zall utf8_valid (init_state o limit) ps2).
Proof. exact decoding_is_delivery_independent. Qed.

(* the reference inflater of Base/Inflate.v meets the prefix-determinacy contract (monotone output, error-stable, done-stable), by induction over its block loop *)
Theorem C04_reference_inflater_meets_the_contract :
  zinf_contract zinf_ref.
Proof. exact zinf_ref_contract. Qed.

(* the same from every state that satisfies the invariant (e.g. after reset, or in mid-stream), given that neither run exhausts the driver's fuel *)
Theorem C04_delivery_independent_from_any_state :
  forall (zinf : bool -> list Z -> list Z * dstatus) (zall : list Z -> option (list Z))
         (utf8_valid : list Z -> bool),
       zinf_contract zinf ->
       forall (s : dstate) (ps1 ps2 : list (list Z)),
       good zinf s ->
       Forall bytes_ok ps1 ->
       Forall bytes_ok ps2 ->
       concat ps1 = concat ps2 ->
       snd (feed zinf zall utf8_valid s ps1) <> RFuel ->
       snd (feed zinf zall utf8_valid s ps2) <> RFuel ->
       feed_obs (feed zinf zall utf8_valid s ps1) = feed_obs (feed zinf zall utf8_valid s ps2).
Proof. exact feed_schedule_independent. Qed.

(* ... which it never does: the loops of update/feed terminate within their budget for every input and every cut *)
Theorem C04_driver_never_runs_dry :
  forall (zinf : bool -> list Z -> list Z * dstatus) (zall : list Z -> option (list Z))
         (utf8_valid : list Z -> bool) (s : dstate) (ps : list (list Z)),
       good4 s -> Forall bytes_ok ps -> snd (feed zinf zall utf8_valid s ps) <> RFuel.
Proof. exact feed_never_out_of_fuel. Qed.

(* the same at the level of runs of transitions (no fuel involved) *)
Theorem C04_runs_of_transitions :
  forall (zinf : bool -> list Z -> list Z * dstatus) (zall : list Z -> option (list Z))
         (utf8_valid : list Z -> bool),
       zinf_contract zinf ->
       forall (s : dstate) (ps1 ps2 : list (list Z)) (t1 : list (event * list Z)) 
         (r1 : mend) (t2 : list (event * list Z)) (r2 : mend),
       good zinf s ->
       Forall bytes_ok ps1 ->
       Forall bytes_ok ps2 ->
       concat ps1 = concat ps2 ->
       MicroPieces zinf zall utf8_valid s ps1 t1 r1 ->
       MicroPieces zinf zall utf8_valid s ps2 t2 r2 -> obs_end r1 = obs_end r2 /\ same_obs t1 t2.
Proof. exact pieces_independent. Qed.

(* a run over p followed by a run over q is, for the observer, the run over p ++ q *)
Theorem C04_run_over_p_then_q_is_run_over_pq :
  forall (zinf : bool -> list Z -> list Z * dstatus) (zall : list Z -> option (list Z))
         (utf8_valid : list Z -> bool),
       zinf_contract zinf ->
       forall (s : dstate) (p : list Z) (t1 : list (event * list Z)) (r1 : mend),
       Micro zinf zall utf8_valid s p t1 r1 ->
       good zinf s ->
       bytes_ok p ->
       forall q : list Z,
       bytes_ok q ->
       match r1 with
       | MMore s1 =>
           forall (t2 : list (event * list Z)) (r2 : mend),
           Micro zinf zall utf8_valid s1 q t2 r2 ->
           exists (t : list (event * list Z)) (r : mend),
             Micro zinf zall utf8_valid s (p ++ q) t r /\ obs_end r = obs_end r2 /\ same_obs t (t1 ++ t2)
       | _ =>
           exists (t : list (event * list Z)) (r : mend),
             Micro zinf zall utf8_valid s (p ++ q) t r /\ obs_end r = obs_end r1 /\ same_obs t t1
       end.
Proof. exact micro_cut. Qed.

(* one transition on p ++ q is the transition on p, or - when the consumed item straddles the cut - the transitions on p and on q merged *)
Theorem C04_transition_on_longer_buffer :
  forall (zinf : bool -> list Z -> list Z * dstatus) (zall : list Z -> option (list Z))
         (utf8_valid : list Z -> bool) (s : dstate) (p q : list Z),
       zinf_contract zinf -> good zinf s -> p <> [] -> ext_spec zinf zall utf8_valid s p q.
Proof. exact step_ext. Qed.

(* the inflater wrapper: input handed over as p then d gives the state and the bytes of p ++ d, in every state of the stream (not started, running, finished, failing) *)
Theorem C04_inflater_wrapper_any_cut :
  forall (zinf : bool -> list Z -> list Z * dstatus) (z : zst) (p d : list Z),
       zinf_contract zinf ->
       zinv zinf z ->
       match z_decompress zinf z p with
       | Ok (z1, o1) =>
           match z_decompress zinf z1 d with
           | Ok (z2, o2) => z_decompress zinf z (p ++ d) = Ok (z2, o1 ++ o2)
           | Err e => z_decompress zinf z (p ++ d) = Err e
           | Panic k => z_decompress zinf z (p ++ d) = Panic k
           end
       | Err e => z_decompress zinf z (p ++ d) = Err e
       | Panic k => z_decompress zinf z (p ++ d) = Panic k
       end.
Proof. exact z_decompress_app. Qed.

(* the invariant (well-formed control state; the wrapper has handed out exactly what its input has determined) is kept by every transition *)
Theorem C04_invariant_kept :
  forall (zinf : bool -> list Z -> list Z * dstatus) (zall : list Z -> option (list Z))
         (utf8_valid : list Z -> bool) (s : dstate) (buf : list Z) (s' : dstate) 
         (n : nat) (e : event) (a : list Z),
       zinf_contract zinf ->
       good zinf s ->
       bytes_ok buf ->
       buf <> [] -> next_state zinf zall utf8_valid s buf = (s', Ok (n, e, a)) -> good zinf s'.
Proof. exact good_step. Qed.

(* non-vacuity: the contract is met by an inflater that shows all three outcomes (need more / done / error) *)
Theorem C04_contract_satisfiable :
  zinf_contract (fun _ : bool => toy_inf).
Proof. exact zinf_contract_satisfiable. Qed.

(* (i) a 4-byte field cut after k = 1, 2, 3 bytes *)
Theorem C04_field_cut_partial :
  forall (zinf : bool -> list Z -> list Z * dstatus) (zall : list Z -> option (list Z))
         (utf8_valid : list Z -> bool) (s : dstate) (kind : u32kind) (b0 b1 b2 b3 : Z) 
         (tail : list Z) (k : nat),
       st s = Some (SU32 kind []) ->
       (1 <= k <= 3)%nat ->
       let whole := b0 :: b1 :: b2 :: b3 :: tail in
       let first := firstn k whole in
       let second := skipn k whole in
       exists s1 : dstate,
         next_state zinf zall utf8_valid s first = (s1, Ok (k, ENothing, [])) /\
         next_state zinf zall utf8_valid s1 second = wrap (4 - k) (parse_u32 zinf s kind [b0; b1; b2; b3]) /\
         next_state zinf zall utf8_valid s whole = wrap 4 (parse_u32 zinf s kind [b0; b1; b2; b3]).
Proof. exact u32_field_cut. Qed.

(* (i) a piece that does not complete the field changes nothing but the accumulator and emits nothing *)
Theorem C04_field_piece_is_only_accumulated :
  forall (zinf : bool -> list Z -> list Z * dstatus) (zall : list Z -> option (list Z))
         (utf8_valid : list Z -> bool) (s : dstate) (kind : u32kind) (acc p : list Z),
       st s = Some (SU32 kind acc) ->
       p <> [] ->
       (length acc + length p < 4)%nat ->
       next_state zinf zall utf8_valid s p =
       (s <| st := Some (SU32 kind (acc ++ p)) |>, Ok (length p, ENothing, [])).
Proof. exact u32_accumulate. Qed.

(* (i) the completing piece runs parse_u32 on the accumulated four bytes *)
Theorem C04_field_completion_same_parse :
  forall (zinf : bool -> list Z -> list Z * dstatus) (zall : list Z -> option (list Z))
         (utf8_valid : list Z -> bool) (s : dstate) (kind : u32kind) (acc p : list Z),
       st s = Some (SU32 kind acc) ->
       acc <> [] ->
       (length acc < 4)%nat ->
       (4 <= length acc + length p)%nat ->
       next_state zinf zall utf8_valid s p =
       wrap (4 - length acc) (parse_u32 zinf s kind (acc ++ firstn (4 - length acc) p)).
Proof. exact u32_complete. Qed.

(* (i) parse_u32 never reads the control state (so the accumulated state and the boundary state give the same result) *)
Theorem C04_parse_u32_ignores_control_state :
  forall (zinf : bool -> list Z -> list Z * dstatus) (s : dstate) (x : option sstate) 
         (kind : u32kind) (bytes : list Z),
       parse_u32 zinf (s <| st := x |>) kind bytes = parse_u32 zinf s kind bytes.
Proof. exact parse_u32_st_irrelevant. Qed.

(* (ii) a chunk body piece delivered in two parts *)
Theorem C04_body_cut_partial :
  forall (zinf : bool -> list Z -> list Z * dstatus) (zall : list Z -> option (list Z))
         (utf8_valid : list Z -> bool) (s : dstate) (ty : Z) (p q : list Z),
       st s = Some (SRead ty) ->
       p <> [] ->
       q <> [] ->
       zlen (p ++ q) < c_remaining s ->
       zlen (p ++ q) <= c_cap s - zlen (c_raw s) ->
       next_state zinf zall utf8_valid s p = (after_body s ty p, Ok (length p, ENothing, [])) /\
       next_state zinf zall utf8_valid (after_body s ty p) q =
       (after_body s ty (p ++ q), Ok (length q, ENothing, [])) /\
       next_state zinf zall utf8_valid s (p ++ q) =
       (after_body s ty (p ++ q), Ok (length (p ++ q), ENothing, [])).
Proof. exact body_cut. Qed.

(* (iii) zero-byte transitions do not look at the buffer *)
Theorem C04_zero_byte_steps_ignore_buffer :
  forall (zinf : bool -> list Z -> list Z * dstatus) (zall : list Z -> option (list Z))
         (utf8_valid : list Z -> bool) (s : dstate) (ty : Z) (buf buf' : list Z),
       st s = Some (SParse ty) ->
       next_state zinf zall utf8_valid s buf = next_state zinf zall utf8_valid s buf'.
Proof. exact zero_byte_steps_ignore_buffer. Qed.

(* compressed image data delivered as p then q leaves the state and the appended image bytes of p ++ q (premise: the external inflater never retracts output - zinf_monotone) *)
Theorem C04_image_data_cut :
  forall (zinf : bool -> list Z -> list Z * dstatus) (zall : list Z -> option (list Z))
         (utf8_valid : list Z -> bool) (s : dstate) (ty : Z) (p q : list Z) (z1 : zst) 
         (o1 : list Z) (z2 : zst) (o2 : list Z),
       zinf_monotone zinf ->
       zcoh zinf (infl s) ->
       st s = Some (SImage ty) ->
       p <> [] ->
       q <> [] ->
       zlen (p ++ q) < c_remaining s ->
       snd (zinf (negb (z_ignore_adler (infl s))) (z_in (infl s))) = DNeedMore ->
       snd (zinf (negb (z_ignore_adler (infl s))) (z_in (infl s) ++ p)) = DNeedMore ->
       z_decompress zinf (infl s) p = Ok (z1, o1) ->
       z_decompress zinf z1 q = Ok (z2, o2) ->
       next_state zinf zall utf8_valid s p = (after_image s ty p z1, Ok (length p, EImageData, o1)) /\
       next_state zinf zall utf8_valid (after_image s ty p z1) q =
       (after_image s ty (p ++ q) z2, Ok (length q, EImageData, o2)) /\
       next_state zinf zall utf8_valid s (p ++ q) =
       (after_image s ty (p ++ q) z2, Ok (length (p ++ q), EImageData, o1 ++ o2)) /\ 
       zcoh zinf z2.
Proof. exact image_cut. Qed.

(* the inflater wrapper (ZlibStream::decompress in its greedy denotation) is cut-invariant under the same premise *)
Theorem C04_inflater_wrapper_cut :
  forall (zinf : bool -> list Z -> list Z * dstatus) (z : zst) (p q : list Z) 
         (z1 : zst) (o1 : list Z) (z2 : zst) (o2 : list Z),
       zinf_monotone zinf ->
       zcoh zinf z ->
       snd (zinf (negb (z_ignore_adler z)) (z_in z)) = DNeedMore ->
       snd (zinf (negb (z_ignore_adler z)) (z_in z ++ p)) = DNeedMore ->
       z_decompress zinf z p = Ok (z1, o1) ->
       z_decompress zinf z1 q = Ok (z2, o2) ->
       z_decompress zinf z (p ++ q) = Ok (z2, o1 ++ o2) /\ zcoh zinf z1 /\ zcoh zinf z2.
Proof. exact z_decompress_cut. Qed.

(* non-vacuity of the premise *)
Theorem C04_monotonicity_premise_satisfiable :
  zinf_monotone (fun (_ : bool) (a : list Z) => (a, DNeedMore)).
Proof. exact zinf_monotone_satisfiable. Qed.

(* rows of the first frame over the executable stream model: any two cuts of the input, any portions, any interleaving with the same row requests *)
Theorem C04_executable_model_frame_rows_are_delivery_independent :
  forall (o : options) (limit : Z) (ps1 ps2 : list (list Z)),
       Forall bytes_ok ps1 ->
       Forall bytes_ok ps2 ->
       concat ps1 = concat ps2 ->
       forall q1 q2 : list (list Z),
       upto_flush (trace_of (feed zinf_ref inflate_checked utf8_valid (init_state o limit) ps1)) = (q1, true) ->
       upto_flush (trace_of (feed zinf_ref inflate_checked utf8_valid (init_state o limit) ps2)) = (q2, true) ->
       forall (P : Z -> Z -> Z -> Z) (bpp : nat) (a1 a2 : list ract) (rows1 : list (list Z))
         (e1 : option perr) (rows2 : list (list Z)) (e2 : option perr),
       appended a1 = concat q1 ->
       appended a2 = concat q2 ->
       requests a1 = requests a2 ->
       arun P bpp [] [] a1 = (rows1, e1) ->
       arun P bpp [] [] a2 = (rows2, e2) ->
       (e1 <> Some PTooShort -> e2 <> Some PTooShort -> rows1 = rows2 /\ e1 = e2) /\
       (is_prefix rows1 rows2 \/ is_prefix rows2 rows1).
Proof. exact executable_model_frame_rows_are_delivery_independent. Qed.

(* the same over any inflater meeting the contract *)
Theorem C04_frame_rows_are_delivery_independent :
  forall (zinf : bool -> list Z -> list Z * dstatus) (zall : list Z -> option (list Z))
         (utf8_valid : list Z -> bool),
       zinf_contract zinf ->
       forall (o : options) (limit : Z) (ps1 ps2 : list (list Z)),
       Forall bytes_ok ps1 ->
       Forall bytes_ok ps2 ->
       concat ps1 = concat ps2 ->
       forall q1 q2 : list (list Z),
       upto_flush (trace_of (feed zinf zall utf8_valid (init_state o limit) ps1)) = (q1, true) ->
       upto_flush (trace_of (feed zinf zall utf8_valid (init_state o limit) ps2)) = (q2, true) ->
       forall (P : Z -> Z -> Z -> Z) (bpp : nat) (a1 a2 : list ract) (rows1 : list (list Z))
         (e1 : option perr) (rows2 : list (list Z)) (e2 : option perr),
       appended a1 = concat q1 ->
       appended a2 = concat q2 ->
       requests a1 = requests a2 ->
       arun P bpp [] [] a1 = (rows1, e1) ->
       arun P bpp [] [] a2 = (rows2, e2) ->
       (e1 <> Some PTooShort -> e2 <> Some PTooShort -> rows1 = rows2 /\ e1 = e2) /\
       (is_prefix rows1 rows2 \/ is_prefix rows2 rows1).
Proof. exact frame_rows_are_delivery_independent. Qed.

(* row-level runs: same requests over the same total data *)
Theorem C04_rows_are_delivery_independent :
  forall (P : Z -> Z -> Z -> Z) (bpp : nat) (prev pending : list Z) (a1 a2 : list ract)
         (rows1 : list (list Z)) (e1 : option perr) (rows2 : list (list Z)) (e2 : option perr),
       requests a1 = requests a2 ->
       appended a1 = appended a2 ->
       arun P bpp prev pending a1 = (rows1, e1) ->
       arun P bpp prev pending a2 = (rows2, e2) ->
       (e1 <> Some PTooShort -> e2 <> Some PTooShort -> rows1 = rows2 /\ e1 = e2) /\
       (is_prefix rows1 rows2 \/ is_prefix rows2 rows1).
Proof. exact rows_are_delivery_independent. Qed.

(* the same for the unfiltering buffer itself (cursors, compaction) *)
Theorem C04_buffer_rows_are_delivery_independent :
  forall (P : Z -> Z -> Z -> Z) (bpp : nat),
       (forall (f : Z) (prev cur : list Z), length (unfilter_model P f bpp prev cur) = length cur) ->
       forall a1 a2 : list ract,
       requests a1 = requests a2 ->
       appended a1 = appended a2 ->
       (snd (run P bpp ub_new a1) <> Some PTooShort ->
        snd (run P bpp ub_new a2) <> Some PTooShort -> run P bpp ub_new a1 = run P bpp ub_new a2) /\
       (is_prefix (fst (run P bpp ub_new a1)) (fst (run P bpp ub_new a2)) \/
        is_prefix (fst (run P bpp ub_new a2)) (fst (run P bpp ub_new a1))).
Proof. exact buffer_rows_are_delivery_independent. Qed.

(* unfiltering_buffer.rs run = abstract run over (previous row, pending bytes) *)
Theorem C04_buffer_run_is_abstract_run :
  forall (P : Z -> Z -> Z -> Z) (bpp : nat),
       (forall (f : Z) (prev cur : list Z), length (unfilter_model P f bpp prev cur) = length cur) ->
       forall (acts : list ract) (u : ubuf) (prev pending : list Z),
       UInv u prev pending -> run P bpp u acts = arun P bpp prev pending acts.
Proof. exact run_refines. Qed.

(* a run vs the run with all the data supplied before the first request *)
Theorem C04_all_data_first :
  forall (P : Z -> Z -> Z -> Z) (bpp : nat) (acts : list ract) (prev pending : list Z)
         (rows : list (list Z)) (e : option perr),
       arun P bpp prev pending acts = (rows, e) ->
       exists (rows' : list (list Z)) (e' : option perr),
         arun P bpp prev (pending ++ appended acts) (requests acts) = (rows', e') /\
         (e <> Some PTooShort -> rows' = rows /\ e' = e) /\ is_prefix rows rows'.
Proof. exact arun_all_data_first. Qed.

(* n requests with all data present = Model/Pipeline.v unfilter_rows (C01) *)
Theorem C04_all_data_run_is_the_pipeline :
  forall (P : Z -> Z -> Z -> Z) (bpp rl n : nat) (prev stream : list Z),
       arun P bpp prev stream (repeat (RRow rl) n) =
       match unfilter_rows P bpp rl n prev stream with
       | Ok (rows, _) => (rows, None)
       | Err e => (fst (arun P bpp prev stream (repeat (RRow rl) n)), Some e)
       | Panic _ => arun P bpp prev stream (repeat (RRow rl) n)
       end.
Proof. exact arun_rows_are_pipeline_rows. Qed.

(* equal observations of the stream machine carry equal image bytes for the first frame *)
Theorem C04_same_observation_same_frame_bytes :
  forall (tr1 tr2 : list (event * list Z)) (q1 q2 : list (list Z)),
       obs_go [] tr1 = obs_go [] tr2 ->
       upto_flush tr1 = (q1, true) -> upto_flush tr2 = (q2, true) -> concat q1 = concat q2.
Proof. exact same_observation_same_frame_bytes. Qed.

(* non-vacuity: the initial state is at a field boundary *)
Example C04_nonvacuous : st (init_state (mk_opts true false false false true) 1000) = Some (SU32 KSig1 []).
Proof. reflexivity. Qed.

(* non-vacuity of the main theorem: a concrete stream (signature, IHDR 1x1 grey, IDAT carrying a toy "zlib stream", IEND with its real CRC) cut in two
   different ways; the common observation is not trivial (header, chunk events, flushed image bytes, end of image) *)
Definition c04_demo_bytes : list Z :=
  [137;80;78;71;13;10;26;10; 0;0;0;13; 73;72;68;82; 0;0;0;1; 0;0;0;1; 8;0;0;0;0; 58;126;155;85;
   0;0;0;3; 73;68;65;84; 7;9;0; 0;0;0;0;  0;0;0;0; 73;69;78;68; 174;66;96;130].
Definition c04_demo_opts : options := mk_opts true true false false true.
Example C04_demo_two_cuts_agree :
  feed_obs (feed (fun _ => toy_inf) (fun _ => None) (fun _ => true) (init_state c04_demo_opts 1000) [c04_demo_bytes]) =
  feed_obs (feed (fun _ => toy_inf) (fun _ => None) (fun _ => true) (init_state c04_demo_opts 1000)
                 [firstn 3 c04_demo_bytes; firstn 40 (skipn 3 c04_demo_bytes); skipn 43 c04_demo_bytes]).
Proof.
  apply (decoding_is_delivery_independent (fun _ => toy_inf) (fun _ => None) (fun _ => true) zinf_contract_satisfiable).
  - repeat constructor; unfold byte_ok; lia.
  - repeat constructor; unfold byte_ok; lia.
  - reflexivity.
Qed.
Example C04_demo_observation_is_not_trivial :
  fst (feed_obs (feed (fun _ => toy_inf) (fun _ => None) (fun _ => true) (init_state c04_demo_opts 1000) [c04_demo_bytes])) =
  [OE (EChunkBegin 13 ct_IHDR); OE (EHeader 1 1 8 0 false); OE (EChunkComplete (be32 58 126 155 85) ct_IHDR);
   OE (EChunkBegin 3 ct_IDAT); OE (EChunkComplete 0 ct_IDAT); OF [7; 9]; OE (EChunkBegin 0 ct_IEND); OE EImageEnd].
Proof. vm_compute. reflexivity. Qed.
(* non-vacuity of the row-level statements: byte-by-byte vs all-at-once delivery of a 2-row stream, and a stream one byte short *)
Example C04_rows_demo :
  let P := fun a b c : Z => 0 in
  run P 1 ub_new [RAppend [0]; RAppend [5; 6]; RRow 2; RAppend [1; 1]; RAppend [1]; RRow 2] = ([[5; 6]; [1; 2]], None) /\
  run P 1 ub_new [RAppend [0; 5; 6; 1; 1; 1]; RRow 2; RRow 2] = ([[5; 6]; [1; 2]], None) /\
  run P 1 ub_new [RAppend [0; 5; 6; 1]; RRow 2; RRow 2] = ([[5; 6]], Some PTooShort).
Proof. exact rows_demo. Qed.

Print Assumptions C04_executable_model_is_delivery_independent.
Print Assumptions C04_decoding_is_delivery_independent.
Print Assumptions C04_reference_inflater_meets_the_contract.
Print Assumptions C04_delivery_independent_from_any_state.
Print Assumptions C04_driver_never_runs_dry.
Print Assumptions C04_runs_of_transitions.
Print Assumptions C04_run_over_p_then_q_is_run_over_pq.
Print Assumptions C04_transition_on_longer_buffer.
Print Assumptions C04_inflater_wrapper_any_cut.
Print Assumptions C04_invariant_kept.
Print Assumptions C04_contract_satisfiable.
Print Assumptions C04_field_cut_partial.
Print Assumptions C04_field_piece_is_only_accumulated.
Print Assumptions C04_field_completion_same_parse.
Print Assumptions C04_parse_u32_ignores_control_state.
Print Assumptions C04_body_cut_partial.
Print Assumptions C04_zero_byte_steps_ignore_buffer.
Print Assumptions C04_image_data_cut.
Print Assumptions C04_inflater_wrapper_cut.
Print Assumptions C04_monotonicity_premise_satisfiable.
Print Assumptions C04_executable_model_frame_rows_are_delivery_independent.
Print Assumptions C04_frame_rows_are_delivery_independent.
Print Assumptions C04_rows_are_delivery_independent.
Print Assumptions C04_buffer_rows_are_delivery_independent.
Print Assumptions C04_buffer_run_is_abstract_run.
Print Assumptions C04_all_data_first.
Print Assumptions C04_all_data_run_is_the_pipeline.
Print Assumptions C04_same_observation_same_frame_bytes.
