(* C04 - Decoding result is independent of how input bytes are delivered (PARTIAL as a theorem).
   ONLY property theorems (closed by [exact]; statements pinned textually), Print Assumptions.
   FULL STATEMENT (kept visible, not proved): for every byte string and any two compositions of it into non-empty pieces, the observations
   (events other than Nothing/PartialChunk with ImageData runs merged, image bytes per completed data sequence, metadata, first error)
   of `feed` are equal.  PROVED (every state, every inflater): the three mechanisms by which delivery can matter inside the stream machine -
   (i) a 4-byte field (signature half, length, type, CRC, sequence number) cut after 1, 2 or 3 bytes is accumulated silently and then parsed by the
   very same parse_u32 call on the same four bytes from the same state as when it arrives whole; (ii) a chunk body delivered as p then q leaves
   exactly the state that p ++ q leaves (buffer append, running CRC, byte counter), silently; (iii) zero-byte transitions do not look at the
   buffer.  NOT PROVED: the composition over whole update loops and the image-data state (which additionally needs the inflater's
   prefix-monotonicity contract); these are decided on every run by the metamorphic check (every single cut point, byte-by-byte, random schedules)
   on the implementation and by model-vs-implementation traces. *)
From PngV Require Import Base.Bytes Base.Crc Gen.GenStream Model.Stream Proofs.StreamProofs Proofs.StreamSplit.
From RecordUpdate Require Import RecordSet.
Import RecordSetNotations.

(* (i) a 4-byte field cut after k = 1, 2, 3 bytes *)
Theorem C04_field_cut_partial :
  forall (zinf : bool -> list Z -> list Z * dstatus) (zall : list Z -> option (list Z))
         (utf8_valid : list Z -> bool) (s : dstate) (kind : u32kind) (b0 b1 b2 b3 : Z) 
         (tail : list Z) (k : nat),
       st s = Some (SU32 kind []) ->
       (1 <= k <= 3)%nat ->
       let whole := b0 :: b1 :: b2 :: b3 :: tail in
       let first := firstn k whole in
       let second := skipn k whole in
       exists s1 : dstate,
         next_state zinf zall utf8_valid s first = (s1, Ok (k, ENothing, [])) /\
         next_state zinf zall utf8_valid s1 second = wrap (4 - k) (parse_u32 zinf s kind [b0; b1; b2; b3]) /\
         next_state zinf zall utf8_valid s whole = wrap 4 (parse_u32 zinf s kind [b0; b1; b2; b3]).
Proof. exact u32_field_cut. Qed.

(* (i) a piece that does not complete the field changes nothing but the accumulator and emits nothing *)
Theorem C04_field_piece_is_only_accumulated :
  forall (zinf : bool -> list Z -> list Z * dstatus) (zall : list Z -> option (list Z))
         (utf8_valid : list Z -> bool) (s : dstate) (kind : u32kind) (acc p : list Z),
       st s = Some (SU32 kind acc) ->
       p <> [] ->
       (length acc + length p < 4)%nat ->
       next_state zinf zall utf8_valid s p =
       (s <| st := Some (SU32 kind (acc ++ p)) |>, Ok (length p, ENothing, [])).
Proof. exact u32_accumulate. Qed.

(* (i) the completing piece runs parse_u32 on the accumulated four bytes *)
Theorem C04_field_completion_same_parse :
  forall (zinf : bool -> list Z -> list Z * dstatus) (zall : list Z -> option (list Z))
         (utf8_valid : list Z -> bool) (s : dstate) (kind : u32kind) (acc p : list Z),
       st s = Some (SU32 kind acc) ->
       acc <> [] ->
       (length acc < 4)%nat ->
       (4 <= length acc + length p)%nat ->
       next_state zinf zall utf8_valid s p =
       wrap (4 - length acc) (parse_u32 zinf s kind (acc ++ firstn (4 - length acc) p)).
Proof. exact u32_complete. Qed.

(* (i) parse_u32 never reads the control state (so the accumulated state and the boundary state give the same result) *)
Theorem C04_parse_u32_ignores_control_state :
  forall (zinf : bool -> list Z -> list Z * dstatus) (s : dstate) (x : option sstate) 
         (kind : u32kind) (bytes : list Z),
       parse_u32 zinf (s <| st := x |>) kind bytes = parse_u32 zinf s kind bytes.
Proof. exact parse_u32_st_irrelevant. Qed.

(* (ii) a chunk body piece delivered in two parts *)
Theorem C04_body_cut_partial :
  forall (zinf : bool -> list Z -> list Z * dstatus) (zall : list Z -> option (list Z))
         (utf8_valid : list Z -> bool) (s : dstate) (ty : Z) (p q : list Z),
       st s = Some (SRead ty) ->
       p <> [] ->
       q <> [] ->
       zlen (p ++ q) < c_remaining s ->
       zlen (p ++ q) <= c_cap s - zlen (c_raw s) ->
       next_state zinf zall utf8_valid s p = (after_body s ty p, Ok (length p, ENothing, [])) /\
       next_state zinf zall utf8_valid (after_body s ty p) q =
       (after_body s ty (p ++ q), Ok (length q, ENothing, [])) /\
       next_state zinf zall utf8_valid s (p ++ q) =
       (after_body s ty (p ++ q), Ok (length (p ++ q), ENothing, [])).
Proof. exact body_cut. Qed.

(* (iii) zero-byte transitions do not look at the buffer *)
Theorem C04_zero_byte_steps_ignore_buffer :
  forall (zinf : bool -> list Z -> list Z * dstatus) (zall : list Z -> option (list Z))
         (utf8_valid : list Z -> bool) (s : dstate) (ty : Z) (buf buf' : list Z),
       st s = Some (SParse ty) ->
       next_state zinf zall utf8_valid s buf = next_state zinf zall utf8_valid s buf'.
Proof. exact zero_byte_steps_ignore_buffer. Qed.

(* compressed image data delivered as p then q leaves the state and the appended image bytes of p ++ q (premise: the external inflater never retracts output - zinf_monotone) *)
Theorem C04_image_data_cut :
  forall (zinf : bool -> list Z -> list Z * dstatus) (zall : list Z -> option (list Z))
         (utf8_valid : list Z -> bool) (s : dstate) (ty : Z) (p q : list Z) (z1 : zst) 
         (o1 : list Z) (z2 : zst) (o2 : list Z),
       zinf_monotone zinf ->
       zcoh zinf (infl s) ->
       st s = Some (SImage ty) ->
       p <> [] ->
       q <> [] ->
       zlen (p ++ q) < c_remaining s ->
       snd (zinf (negb (z_ignore_adler (infl s))) (z_in (infl s))) = DNeedMore ->
       snd (zinf (negb (z_ignore_adler (infl s))) (z_in (infl s) ++ p)) = DNeedMore ->
       z_decompress zinf (infl s) p = Ok (z1, o1) ->
       z_decompress zinf z1 q = Ok (z2, o2) ->
       next_state zinf zall utf8_valid s p = (after_image s ty p z1, Ok (length p, EImageData, o1)) /\
       next_state zinf zall utf8_valid (after_image s ty p z1) q =
       (after_image s ty (p ++ q) z2, Ok (length q, EImageData, o2)) /\
       next_state zinf zall utf8_valid s (p ++ q) =
       (after_image s ty (p ++ q) z2, Ok (length (p ++ q), EImageData, o1 ++ o2)) /\ 
       zcoh zinf z2.
Proof. exact image_cut. Qed.

(* the inflater wrapper (ZlibStream::decompress in its greedy denotation) is cut-invariant under the same premise *)
Theorem C04_inflater_wrapper_cut :
  forall (zinf : bool -> list Z -> list Z * dstatus) (z : zst) (p q : list Z) 
         (z1 : zst) (o1 : list Z) (z2 : zst) (o2 : list Z),
       zinf_monotone zinf ->
       zcoh zinf z ->
       snd (zinf (negb (z_ignore_adler z)) (z_in z)) = DNeedMore ->
       snd (zinf (negb (z_ignore_adler z)) (z_in z ++ p)) = DNeedMore ->
       z_decompress zinf z p = Ok (z1, o1) ->
       z_decompress zinf z1 q = Ok (z2, o2) ->
       z_decompress zinf z (p ++ q) = Ok (z2, o1 ++ o2) /\ zcoh zinf z1 /\ zcoh zinf z2.
Proof. exact z_decompress_cut. Qed.

(* non-vacuity of the premise *)
Theorem C04_monotonicity_premise_satisfiable :
  zinf_monotone (fun (_ : bool) (a : list Z) => (a, DNeedMore)).
Proof. exact zinf_monotone_satisfiable. Qed.

(* non-vacuity: the initial state is at a field boundary *)
Example C04_nonvacuous : st (init_state (mk_opts true false false false true) 1000) = Some (SU32 KSig1 []).
Proof. reflexivity. Qed.
Print Assumptions C04_field_cut_partial.
Print Assumptions C04_field_piece_is_only_accumulated.
Print Assumptions C04_field_completion_same_parse.
Print Assumptions C04_parse_u32_ignores_control_state.
Print Assumptions C04_body_cut_partial.
Print Assumptions C04_zero_byte_steps_ignore_buffer.
Print Assumptions C04_image_data_cut.
Print Assumptions C04_inflater_wrapper_cut.
Print Assumptions C04_monotonicity_premise_satisfiable.
