(* C18 - After an error or the end of the image the reader stays well behaved.
   ONLY property theorems (closed by [exact]; statements pinned textually), non-vacuity examples, Print Assumptions.
   PROVED: (Reader cursor model) once finish() has succeeded every further call of any kind returns end-of-image / no-more-rows, writes nothing
   and stays in that state; once no frame remains the frame-level calls report end-of-image and row calls `no more rows`, leaving the state
   unchanged; no call from ANY state reaches an assertion, unwrap or underflow.  (Stream machine) after a fatal error the decoder is poisoned
   and every update returns PolledAfterFatalError at once without touching the state (every error poisons: C07 theorem); reset() yields exactly
   the state of a newly created decoder with the same options, remaining limit and Adler flag - the chunk buffer is back at its initial capacity (after the repair of reset(): a grown buffer made the next stream's large chunks come out with fewer PartialChunk events than a new decoder reports).  NOT PROVED: that Reader-level
   errors which do not poison the stream (undefined filter byte, missing data) never lead to a later success for the same frame - decided by the
   harness (continuations after the first error on files failing at every stage) together with all ordered reset pairs. *)
From Coq Require Import List Arith Bool Lia.
Import ListNotations.
From PngV Require Import Model.Reader Proofs.ReaderProofs.
From PngV Require Import Base.Bytes Base.Crc Gen.GenStream Model.Stream Proofs.StreamProofs.
From RecordUpdate Require Import RecordSet.
Import RecordSetNotations.

(* after a successful finish() *)
Theorem C18_after_finish_everything_is_refused :
  forall (im : image) (vis : nat) (s : rstate) (o : op),
       done s -> let '(s', r, d) := step im vis s o in done s' /\ d = [] /\ (r = REndOfImage \/ r = RRowNone).
Proof. exact after_finish_everything_is_refused. Qed.

(* a successful finish() establishes that state *)
Theorem C18_finish_reaches_the_final_state :
  forall (im : image) (vis : nat) (s s' : rstate) (d : delivered),
       step im vis s OFinish = (s', RFinished, d) -> done s'.
Proof. exact finish_establishes_done. Qed.

(* after the last frame *)
Theorem C18_after_the_last_frame :
  forall (im : image) (vis : nat) (s : rstate) (o : op),
       remaining s = 0%nat ->
       flushed s = true ->
       next_row s = None ->
       o <> OFinish ->
       let '(s', r, d) := step im vis s o in s' = s /\ d = [] /\ (r = REndOfImage \/ r = RRowNone).
Proof. exact after_last_frame. Qed.

(* no assertion / unwrap / underflow of the Reader cursor code is reachable, from any state *)
Theorem C18_no_call_panics :
  forall (im : image) (vis : nat) (s : rstate) (o : op) (n : nat),
       valid im -> snd (fst (step im vis s o)) <> RPanicR n.
Proof. exact step_never_panics. Qed.

(* stream machine: the poisoned state is absorbing *)
Theorem C18_poisoned_decoder_answers_at_once :
  forall (zinf : bool -> list Z -> list Z * dstatus) (zall : list Z -> option (list Z))
         (utf8_valid : list Z -> bool) (s : dstate) (buf : list Z),
       st s = None -> update zinf zall utf8_valid s buf = (s, UErr EParamPolledAfterFatal).
Proof. exact poisoned_is_absorbing. Qed.

(* reset(): the initial state for the same options and remaining limit, with the inflater reset *)
Theorem C18_reset_gives_a_fresh_decoder :
  forall s : dstate, reset_model s = init_state (opts s) (budget s) <| infl := zreset (infl s) |>.
Proof. exact reset_is_fresh. Qed.

(* reset() of a decoder whose Adler flag is the one its options give IS the initial state (no premise about the buffer any more) *)
Theorem C18_reset_gives_exactly_the_initial_state :
  forall s : dstate,
       z_ignore_adler (infl s) = o_ignore_adler (opts s) -> reset_model s = init_state (opts s) (budget s).
Proof. exact reset_is_fresh_exact. Qed.

Example C18_nonvacuous :
  let im := mk_image [2%nat] 1%nat (fun _ => true) in
  snd (run im (reader_init im) [(OFinish, 2%nat); (OFrame, 2%nat); (ORow, 2%nat); (OFrameInfo, 2%nat); (OFinish, 2%nat)])
  = [(RFinished, []); (REndOfImage, []); (RRowNone, []); (REndOfImage, []); (REndOfImage, [])].
Proof. vm_compute. reflexivity. Qed.
Print Assumptions C18_after_finish_everything_is_refused.
Print Assumptions C18_finish_reaches_the_final_state.
Print Assumptions C18_after_the_last_frame.
Print Assumptions C18_no_call_panics.
Print Assumptions C18_poisoned_decoder_answers_at_once.
Print Assumptions C18_reset_gives_a_fresh_decoder.
Print Assumptions C18_reset_gives_exactly_the_initial_state.
