(* C09 - APNG frames are delivered in order, complete, and laid out as reported.
   ONLY property theorems (closed by [exact]; statements pinned textually), non-vacuity examples, Print Assumptions.
   PROVED on the Reader cursor model (Model/Reader.v) for EVERY valid image (any number of frames, any rows per frame, default image inside or
   outside the animation): successive whole-frame requests on the complete input return exactly frames 0, 1, ..., n-1 in this order, each with ALL
   its rows, then end-of-image, and end-of-image again.  Frame-control field decoding is C16_fcTL (all nine fields); sequence-number checking and
   inflater reset per frame are C10_fdAT_sequence_numbers / C11_adler_flag_survives_reset; the layout of interlaced rows at the frame's own line
   size is C15_expand_image (any stride) and independence of the previous buffer contents is its `no other bit changes` clause.  Pixels of each
   frame: C01 pipeline.  The tie of the cursor model and of the layout to the code is the correspondence (C13 op sequences; C09 generated APNGs
   compared with the specification for three buffer pre-fills). *)
From Coq Require Import ZArith.
From Coq Require Import List Arith Bool Lia.
Import ListNotations.
From PngV Require Import Model.Reader Proofs.ReaderProofs.
From PngV Require Import Model.RowCharge Proofs.RowChargeProofs.

(* n whole-frame calls deliver frames k..k+n-1 completely; two more report end-of-image *)
Theorem C09_frames_in_order_complete_then_end_of_image :
  forall im : image,
       valid im ->
       declared im = length (rows im) ->
       1 <= declared im ->
       forall (n k : nat) (s : rstate),
       at_frame im k s ->
       k + n = declared im ->
       exists s' : rstate,
         frames_run im s (n + 2) =
         (s',
          map (fun i : nat => (RFrame i, map (fun j : nat => (i, j)) (seq 0 (nrows im i)))) (seq k n) ++
          [(REndOfImage, []); (REndOfImage, [])]).
Proof. exact frames_in_order_then_end. Qed.

(* one call at a frame boundary delivers exactly that frame, all rows *)
Theorem C09_one_frame_call_delivers_one_whole_frame :
  forall (im : image) (k : nat) (s : rstate),
       valid im ->
       k < length (rows im) ->
       k < declared im ->
       at_frame im k s ->
       exists s' : rstate,
         step im (total im) s OFrame = (s', RFrame k, map (fun i : nat => (k, i)) (seq 0 (nrows im k))) /\
         at_frame im (S k) s'.
Proof. exact one_frame. Qed.

(* once no frame remains and no row of the last frame is outstanding, next_frame changes nothing and reports end-of-image (rows of the last frame still buffered after an early flush are delivered first: C13) *)
Theorem C09_end_of_image_is_stable :
  forall (im : image) (vis : nat) (s : rstate),
       remaining s = 0 -> next_row s = None -> step im vis s OFrame = (s, REndOfImage, []).
Proof. exact frame_at_end. Qed.

(* Limits: after any sequence of frames the bytes charged for the shared output row are the largest row so far (budget + reserved is constant) - not a sum over frames or over widening steps (fix 4794b80; the model of Reader::read_until_image_data) *)
Theorem C09_row_buffer_is_charged_once_at_its_largest_size :
  forall (buflens : list Z) (s s' : rcstate),
       run_all s buflens = Some s' ->
       reserved s' = maxl (reserved s) buflens /\ (budget s' + reserved s')%Z = (budget s + reserved s)%Z.
Proof. exact charged_is_the_largest_row. Qed.

(* a valid animation is refused with LimitsExceeded for its rows exactly when its largest row does not fit - however many frames it has and however their widths alternate *)
Theorem C09_frames_fit_iff_the_largest_row_fits :
  forall (buflens : list Z) (s : rcstate),
       (0 <= budget s)%Z ->
       (exists s' : rcstate, run_all s buflens = Some s') <->
       (maxl (reserved s) buflens <= budget s + reserved s)%Z.
Proof. exact all_frames_fit_iff_the_largest_row_fits. Qed.

(* frames no wider than what is already reserved change nothing *)
Theorem C09_frames_within_the_reserved_row_cost_nothing :
  forall (s : rcstate) (l : list Z),
       (0 <= budget s)%Z -> Forall (fun b : Z => (b <= reserved s)%Z) l -> run_all s l = Some s.
Proof. exact frames_no_larger_than_what_is_reserved_cost_nothing. Qed.

Example C09_nonvacuous :
  snd (frames_run (mk_image [2; 1; 3] 3 (fun _ => true)) (reader_init (mk_image [2; 1; 3] 3 (fun _ => true))) 5)
  = [(RFrame 0, [(0,0); (0,1)]); (RFrame 1, [(1,0)]); (RFrame 2, [(2,0); (2,1); (2,2)]); (REndOfImage, []); (REndOfImage, [])].
Proof. vm_compute. reflexivity. Qed.
(* non-vacuity: alternating wide and narrow frames; only the step to a larger row is charged *)
Example C09_row_charge_demo :
  (rc_charged 8192 [4; 8192; 28; 8192; 4; 16384; 8; 16384] = [0; 0; 0; 0; 0; 8192; 8192; 8192])%Z.
Proof. exact row_charge_demo. Qed.

Print Assumptions C09_frames_in_order_complete_then_end_of_image.
Print Assumptions C09_one_frame_call_delivers_one_whole_frame.
Print Assumptions C09_end_of_image_is_stable.
Print Assumptions C09_row_buffer_is_charged_once_at_its_largest_size.
Print Assumptions C09_frames_fit_iff_the_largest_row_fits.
Print Assumptions C09_frames_within_the_reserved_row_cost_nothing.
