(* C01 - Decoded pixels equal the PNG specification's reconstruction.
   ONLY property theorems (closed by [exact]; statements pinned textually), non-vacuity examples, Print Assumptions.
   What is proved: the row pipeline of the decoder model (filter byte, reconstruction against the previous reconstructed row, previous row
   reset per image/pass) returns, for EVERY inflated byte stream, every row count, every pixel size and every row length, exactly what the
   specification's reconstruction returns - including the same errors for a short stream or an undefined filter byte; the row length is a whole
   number of filter units for each legal colour/depth pair and every width.  INTERLACED IMAGES (Proofs/InterlacedImage.v): for each of the 15 legal colour/depth pairs, every size and every inflated
   stream, when the model of the whole Adam7 decode delivers an image, the rows it used are the specification's reconstruction of the seven pass
   images (each pass filtered as an image of its own), the image has height x row-bytes bytes, pixel (x, y) holds bit for bit the pixel of the pass
   row that the 8x8 Adam7 pattern assigns to it, and every padding bit is zero (C01_interlaced_image_equals_specification; the pixel part is
   C15_expand_image, this adds the row part and the glue between byte lists and images as functions).  The per-row filter theorem is C14.  The inflater is fdeflate (contract; the executable reference of Base/Inflate.v is used in the correspondence), chunk framing is the
   L0 machine (C04/C10).  Buffer management (compaction, partial rows) is tied by the correspondence check, not proved. *)
From PngV Require Import Base.Bytes Spec.FilterSpec Gen.GenPaeth Model.Filter Proofs.PaethProofs Proofs.FilterProofs Model.Pipeline Proofs.PipelineProofs Base.Inflate.
From PngV Require Import Model.ZlibBuf Proofs.ZlibBufProofs.
From PngV Require Import Model.UnfiltBuf Proofs.UnfiltBufProofs.
From PngV Require Import Spec.Adam7Spec Gen.GenAdam7 Model.Adam7 Proofs.Adam7Expand Proofs.InterlacedImage.

(* every stream, row count, pixel size, row length (multiple of the filter unit): model rows = specification rows, same errors *)
Theorem C01_row_pipeline_equals_specification :
  forall P : Z -> Z -> Z -> Z,
       (forall a b c : Z, byte_ok a -> byte_ok b -> byte_ok c -> P a b c = paeth_spec a b c) ->
       forall bpp k : nat,
       (0 < bpp)%nat ->
       forall (n : nat) (prev stream : list Z),
       bytes_ok stream ->
       bytes_ok prev ->
       prev = [] \/ length prev = (k * bpp)%nat ->
       unfilter_rows P bpp (k * bpp) n prev stream = spec_rows bpp (k * bpp) n prev stream.
Proof. exact unfilter_rows_spec. Qed.

(* whole non-interlaced image, for the predictor compiled on x86-64 and the one compiled elsewhere *)
Theorem C01_plain_image_equals_specification :
  forall P : Z -> Z -> Z -> Z,
       P = filter_paeth_decode_x86_64 \/ P = filter_paeth_decode_other ->
       forall (c d w h : Z) (k : nat) (stream : list Z),
       bytes_ok stream ->
       Z.to_nat (row_bytes_spec c d w) = (k * bpp_filter c d)%nat ->
       decode_plain P c d w h stream =
       match spec_rows (bpp_filter c d) (Z.to_nat (row_bytes_spec c d w)) (Z.to_nat h) [] stream with
       | Ok (rows, _) => Ok (concat rows)
       | Err e => Err e
       | Panic p => Panic p
       end.
Proof. exact decode_plain_spec. Qed.

(* whole interlaced image (predictor compiled on x86-64): rows = the specification's reconstruction of the seven pass images; every pixel at its Adam7 position, bit for bit; padding bits zero *)
Theorem C01_interlaced_image_equals_specification :
  forall (c d w h : Z) (stream img : list Z),
       In (c, d) legal_pairs ->
       0 < w < 4294967296 ->
       0 < h < 4294967296 ->
       bytes_ok stream ->
       decode_adam7 filter_paeth_decode_x86_64 c d w h stream = Ok img ->
       let bits := bits_pp c d in
       let stride := row_bytes_spec c d w in
       exists rs : list (Z * Z * Z * list Z),
         recon_passes c d (rows_model w h) [] stream = Ok rs /\
         zlen img = stride * h /\
         (forall x y j : Z,
          0 <= x < w ->
          0 <= y < h ->
          0 <= j < bits -> get_bit (img_of_list img) (y * stride * 8 + x * bits + j) = src_of bits rs x y j) /\
         (forall q : Z,
          0 <= q < stride * h * 8 ->
          (forall x y : Z,
           0 <= x < w -> 0 <= y < h -> ~ y * stride * 8 + x * bits <= q < y * stride * 8 + x * bits + bits) ->
          get_bit (img_of_list img) q = false).
Proof. exact decode_adam7_spec_x86. Qed.

(* the same for the predictor compiled on other targets *)
Theorem C01_interlaced_image_equals_specification_other_targets :
  forall (c d w h : Z) (stream img : list Z),
       In (c, d) legal_pairs ->
       0 < w < 4294967296 ->
       0 < h < 4294967296 ->
       bytes_ok stream ->
       decode_adam7 filter_paeth_decode_other c d w h stream = Ok img ->
       let bits := bits_pp c d in
       let stride := row_bytes_spec c d w in
       exists rs : list (Z * Z * Z * list Z),
         recon_passes c d (rows_model w h) [] stream = Ok rs /\
         zlen img = stride * h /\
         (forall x y j : Z,
          0 <= x < w ->
          0 <= y < h ->
          0 <= j < bits -> get_bit (img_of_list img) (y * stride * 8 + x * bits + j) = src_of bits rs x y j) /\
         (forall q : Z,
          0 <= q < stride * h * 8 ->
          (forall x y : Z,
           0 <= x < w -> 0 <= y < h -> ~ y * stride * 8 + x * bits <= q < y * stride * 8 + x * bits + bits) ->
          get_bit (img_of_list img) q = false).
Proof. exact decode_adam7_spec_other. Qed.

(* the row part on its own: the rows scattered by the model are the specification's reconstruction, pass by pass (previous row reset at line 0 of every pass) *)
Theorem C01_interlaced_rows_are_the_pass_images :
  forall P : Z -> Z -> Z -> Z,
       (forall a b c : Z, byte_ok a -> byte_ok b -> byte_ok c -> P a b c = paeth_spec a b c) ->
       forall c d stride : Z,
       In (c, d) legal_pairs ->
       forall (rows : list (Z * Z * Z)) (lwprev : option Z) (prev stream dest img : list Z),
       Forall (fun r : Z * Z * Z => 0 <= snd r) rows ->
       chain lwprev rows ->
       prev_fits c d lwprev prev ->
       bytes_ok stream ->
       decode_passes P c d stride rows prev stream dest = Ok img ->
       exists rs : list (Z * Z * Z * list Z),
         recon_passes c d rows prev stream = Ok rs /\
         expand_list stride (bits_pp c d) rs dest = Some img /\
         map (fun r : Z * Z * Z * list Z => (fst (fst (fst r)), snd (fst (fst r)), snd (fst r))) rs = rows /\
         Forall (fun r : Z * Z * Z * list Z => bytes_ok (snd r)) rs.
Proof. exact decode_passes_ok. Qed.

(* for each of the 15 legal colour/depth pairs and every width the row length is a multiple of the filter unit (so the theorems above apply) *)
Theorem C01_row_length_is_whole_filter_units :
  forall c d w : Z,
       0 <= w ->
       In (c, d)
         [(0, 1); (0, 2); (0, 4); (0, 8); (0, 16); (2, 8); (2, 16); (3, 1); (3, 2); (
          3, 4); (3, 8); (4, 8); (4, 16); (6, 8); (6, 16)] ->
       exists k : nat, Z.to_nat (row_bytes_spec c d w) = (k * bpp_filter c d)%nat.
Proof. exact row_bytes_multiple. Qed.

(* a reconstructed row is as long as the filtered row *)
Theorem C01_reconstruction_keeps_row_length :
  forall (ft : ftype) (bpp : nat) (prior filt : list Z),
       length (recon_spec ft bpp prior filt) = length filt.
Proof. exact recon_spec_length. Qed.

(* zlib.rs output buffer (constants regenerated from the source): every byte produced is delivered exactly once in order, and the most recent min(total, 32768) bytes always stay available for back-references, for every way the decompressor's output is split over calls *)
Theorem C01_inflater_window_and_delivery :
  forall news : list (list Z),
       fits zb_new news ->
       let z := fst (zb_run zb_new news) in
       let produced := concat news in
       snd (zb_run zb_new news) = produced /\
       (exists pre : list Z, produced = pre ++ zb_data z) /\
       (zlen produced <= zlen (zb_data z) \/ 32768 <= zlen (zb_data z)) /\
       zb_len z <= BOUND /\ zlen (zb_data z) <= zb_len z.
Proof. exact window_delivery_bound. Qed.

(* one decompress call preserves the buffer invariant and delivers exactly what was produced *)
Theorem C01_inflater_buffer_step :
  forall (z : zbuf) (hist new : list Z),
       ZInv z hist ->
       zlen new <= zb_room (prepare z) ->
       ZInv (fst (zb_step z new)) (hist ++ new) /\ snd (zb_step z new) = new.
Proof. exact zb_step_correct. Qed.

(* obligation on the regenerated constant: LOOKBACK_SIZE >= 32768 (the largest deflate distance) *)
Theorem C01_lookback_covers_deflate_window :
  32768 <= GenStream.LOOKBACK_SIZE.
Proof. exact lookback_covers_deflate_window. Qed.

(* unfiltering_buffer.rs: n rows taken from the buffer, for ANY state satisfying the buffer invariant, are the n rows of the pipeline model's row loop (with the same errors) *)
Theorem C01_unfiltering_buffer_refines_row_loop :
  forall (P : Z -> Z -> Z -> Z) (rl bpp : nat),
       (forall (f : Z) (prev cur : list Z), length (unfilter_model P f bpp prev cur) = length cur) ->
       forall (n : nat) (u : ubuf) (prev pending : list Z),
       UInv u prev pending ->
       match unfilter_rows P bpp rl n prev pending with
       | Ok (rows, tl) => exists u2 : ubuf, ub_rows P u rl bpp n = Ok (rows, u2) /\ ub_pending u2 = tl
       | Err e => ub_rows P u rl bpp n = Err e
       | Panic _ => True
       end.
Proof. exact ub_rows_refines_pipeline. Qed.

(* one unfilter_curr_row reconstructs exactly the next row against exactly the previous reconstructed row *)
Theorem C01_unfiltering_buffer_one_row :
  forall (P : Z -> Z -> Z -> Z) (u : ubuf) (prev : list Z) (ft : Z) (body : list Z) (rl bpp : nat),
       UInv u prev (ft :: body) ->
       (rl <= length body)%nat ->
       match row_filter_from_u8 ft with
       | Some f =>
           length (unfilter_model P f bpp prev (firstn rl body)) = rl ->
           exists u' : ubuf,
             ub_unfilter P u rl bpp = UOkU u' /\
             UInv u' (unfilter_model P f bpp prev (firstn rl body)) (skipn rl body)
       | None => ub_unfilter P u rl bpp = UBadFilter ft
       end.
Proof. exact ub_unfilter_correct. Qed.

(* compaction + appended inflater output keeps the previous row and extends the pending bytes, whatever the piece sizes *)
Theorem C01_unfiltering_buffer_append :
  forall (u : ubuf) (prev pending new : list Z),
       UInv u prev pending -> UInv (ub_append u new) prev (pending ++ new).
Proof. exact ub_append_correct. Qed.

(* reset_prev_row forgets the previous row and nothing else *)
Theorem C01_unfiltering_buffer_reset :
  forall (u : ubuf) (prev pending : list Z),
       UInv u prev pending -> UInv (ub_reset_prev_row u) [] pending.
Proof. exact ub_reset_correct. Qed.

(* ---- non-vacuity: a 2x2 RGB8 image through the complete model pipeline (stored deflate block, filters Sub and Up) *)
Example C01_nonvacuous :
  decode_frame 2 8 2 2 false ([120; 1; 1; 14; 0; 241; 255; 1; 10; 20; 30; 1; 2; 3; 2; 5; 5; 5; 250; 250; 250] ++ [0;0;0;0])
  = Some [10; 20; 30; 11; 22; 33; 15; 25; 35; 5; 16; 27].
Proof. vm_compute. reflexivity. Qed.

(* non-vacuity for the interlaced theorem: 3x3 8-bit grey, pass rows carrying 1..9 *)
Example C01_interlaced_demo :
  rows_model 3 3 = [(1, 0, 1); (4, 0, 1); (5, 0, 2); (6, 0, 1); (6, 1, 1); (7, 0, 3)] /\
  decode_adam7 filter_paeth_decode_x86_64 0 8 3 3 [0; 1;  0; 2;  0; 3; 4;  0; 5;  0; 6;  0; 7; 8; 9] = Ok [1; 5; 2;  7; 8; 9;  3; 6; 4].
Proof. exact decode_adam7_demo. Qed.
Print Assumptions C01_row_pipeline_equals_specification.
Print Assumptions C01_plain_image_equals_specification.
Print Assumptions C01_interlaced_image_equals_specification.
Print Assumptions C01_interlaced_image_equals_specification_other_targets.
Print Assumptions C01_interlaced_rows_are_the_pass_images.
Print Assumptions C01_row_length_is_whole_filter_units.
Print Assumptions C01_reconstruction_keeps_row_length.
Print Assumptions C01_inflater_window_and_delivery.
Print Assumptions C01_inflater_buffer_step.
Print Assumptions C01_lookback_covers_deflate_window.
Print Assumptions C01_unfiltering_buffer_refines_row_loop.
Print Assumptions C01_unfiltering_buffer_one_row.
Print Assumptions C01_unfiltering_buffer_append.
Print Assumptions C01_unfiltering_buffer_reset.
