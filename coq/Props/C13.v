(* C13 - All decoding paths agree: whole frames, single rows, frame skipping.
   ONLY property theorems (closed by [exact]; statements pinned textually), non-vacuity examples, Print Assumptions.
   The Reader's frame/row cursor is modelled over an abstract valid image (Model/Reader.v: frames with their numbers of scanline records; a
   delivered row is the pair (frame, index); the three row calls are one model operation because they share read_row).  PROVED for every
   state satisfying the cursor invariant (which every call preserves from the initial state) and every visible input prefix: a row call hands
   out exactly the row under the cursor and advances it by one; a whole-frame call writes exactly the consecutive rows from the cursor (row 0 for
   a fresh frame) and, when it succeeds, all rows up to the last one - so any mix of calls delivers each row of a frame exactly once, in order,
   and switching to next_frame mid-frame continues with exactly the rows not yet delivered.  That each delivered row HAS the right pixels is C01
   (row pipeline) / C15 (Adam7 placement); that the model is the code is the correspondence (every op sequence to length 4/5 on ~12/40 files). *)
From Coq Require Import List Arith Bool Lia.
Import ListNotations.
From PngV Require Import Model.Reader Proofs.ReaderProofs.

(* a row call *)
Theorem C13_row_call_delivers_the_cursor_row :
  forall (im : image) (vis : nat) (s s' : rstate) (k j : nat) (d : delivered) (o : op),
       is_row_op o ->
       step im vis s o = (s', RRow k j, d) ->
       k = cur s /\
       next_row s = Some j /\
       d = [(k, j)] /\ cur s' = cur s /\ next_row s' = (if S j <? nrows im (cur s) then Some (S j) else None).
Proof. exact row_call_delivers_the_cursor_row. Qed.

(* a whole-frame call, fresh or in the middle of a frame *)
Theorem C13_frame_call_delivers_the_remaining_rows :
  forall (im : image) (vis : nat) (s s' : rstate) (r : res) (d : delivered),
       cursor_ok im s ->
       step im vis s OFrame = (s', r, d) ->
       exists j0 : nat,
         d = map (fun i : nat => (cur s', i)) (seq j0 (length d)) /\
         (advancing s = false -> j0 = pos im s) /\
         (advancing s = true -> d <> [] -> j0 = 0) /\
         (forall kk : nat,
          r = RFrame kk ->
          kk = cur s' /\ j0 + length d = nrows im (cur s') /\ next_row s' = None /\ flushed s' = true) /\
         (r = REofR -> d <> [] -> next_row s' = Some (j0 + length d) \/ j0 + length d = nrows im (cur s')).
Proof. exact frame_call_delivers_the_remaining_rows. Qed.

(* the rows written by one call are consecutive *)
Theorem C13_rows_of_a_call_are_consecutive :
  forall (im : image) (vis k n j : nat) (d : delivered) (stop : option nat),
       take_rows im vis k j n = (d, stop) ->
       d = map (fun i : nat => (k, i)) (seq j (length d)) /\
       match stop with
       | Some j' => j' = j + length d /\ length d < n
       | None => length d = n
       end.
Proof. exact take_rows_consecutive. Qed.

(* the cursor invariant holds initially ... *)
Theorem C13_cursor_invariant_initially :
  forall im : image, valid im -> 1 <= length (rows im) -> cursor_ok im (reader_init im).
Proof. exact cursor_ok_init. Qed.

(* ... and is preserved by every call on every visible prefix *)
Theorem C13_cursor_invariant_preserved :
  forall (im : image) (vis : nat) (s : rstate) (o : op),
       valid im -> cursor_ok im s -> cursor_ok im (fst (fst (step im vis s o))).
Proof. exact step_preserves_cursor_ok. Qed.

(* a frame call made while rows of the current frame are outstanding never leaves that frame, whether or not its data sequence was already flushed (the repaired defect) *)
Theorem C13_frame_call_in_mid_frame_stays_on_the_frame :
  forall (im : image) (vis : nat) (s s' : rstate) (r : res) (d : delivered) (j : nat),
       next_row s = Some j ->
       step im vis s OFrame = (s', r, d) -> cur s' = cur s /\ (forall kk : nat, r = RFrame kk -> kk = cur s).
Proof. exact frame_call_in_mid_frame_stays_on_the_frame. Qed.

(* non-vacuity: the early-flush state is reachable in the model and the frame call completes the frame *)
Theorem C13_early_flush_example :
  let im := {| rows := [5; 5]; declared := 2; has_fctl := fun _ : nat => true |} in
       snd (run im (reader_init im) [(ORow, 10); (ORow, 10); (ORowF, 10); (OFrame, 10); (OFrame, 10)]) =
       [(RRow 0 0, [(0, 0)]); (RRow 0 1, [(0, 1)]); (RRow 0 2, [(0, 2)]); (RFrame 0, [(0, 3); (0, 4)]);
        (RFrame 1, [(1, 0); (1, 1); (1, 2); (1, 3); (1, 4)])].
Proof. exact early_flush_then_frame_call. Qed.

(* with the whole input there, a frame call made while rows are outstanding SUCCEEDS with exactly those rows - also in the early-flush state of the LAST frame (frame already counted off), where the call used to answer end-of-image (second repaired defect of the mid-frame switch) *)
Theorem C13_frame_call_in_mid_frame_completes_the_frame :
  forall (im : image) (s : rstate) (j : nat),
       cur s < length (rows im) ->
       next_row s = Some j ->
       j < nrows im (cur s) ->
       (flushed s = false -> remaining s <> 0) ->
       exists s' : rstate,
         step im (total im) s OFrame =
         (s', RFrame (cur s), map (fun i : nat => (cur s, i)) (seq j (nrows im (cur s) - j))) /\
         cur s' = cur s /\ next_row s' = None /\ flushed s' = true.
Proof. exact frame_call_in_mid_frame_completes_the_frame. Qed.

(* non-vacuity: the early-flush state of the last frame is reachable in the model; the frame call completes the frame and only the next call reports the end *)
Theorem C13_early_flush_on_the_last_frame_example :
  let im := {| rows := [5]; declared := 1; has_fctl := fun _ : nat => false |} in
       snd (run im (reader_init im) [(ORow, 5); (ORow, 5); (ORowF, 5); (OFrame, 5); (OFrame, 5)]) =
       [(RRow 0 0, [(0, 0)]); (RRow 0 1, [(0, 1)]); (RRow 0 2, [(0, 2)]); (RFrame 0, [(0, 3); (0, 4)]);
        (REndOfImage, [])].
Proof. exact early_flush_on_the_last_frame. Qed.

(* non-vacuity: APNG with frames of 3 and 2 rows; two row calls, then next_frame finishes frame 0 with exactly the last row *)
Definition ex_im := mk_image [3; 2] 2 (fun _ => true).
Example C13_nonvacuous :
  snd (run ex_im (reader_init ex_im) [(ORow, 5); (ORow, 5); (OFrame, 5); (OFrame, 5); (OFrame, 5)])
  = [(RRow 0 0, [(0, 0)]); (RRow 0 1, [(0, 1)]); (RFrame 0, [(0, 2)]); (RFrame 1, [(1, 0); (1, 1)]); (REndOfImage, [])].
Proof. vm_compute. reflexivity. Qed.
Print Assumptions C13_row_call_delivers_the_cursor_row.
Print Assumptions C13_frame_call_delivers_the_remaining_rows.
Print Assumptions C13_rows_of_a_call_are_consecutive.
Print Assumptions C13_cursor_invariant_initially.
Print Assumptions C13_cursor_invariant_preserved.
Print Assumptions C13_frame_call_in_mid_frame_stays_on_the_frame.
Print Assumptions C13_early_flush_example.
Print Assumptions C13_frame_call_in_mid_frame_completes_the_frame.
Print Assumptions C13_early_flush_on_the_last_frame_example.
