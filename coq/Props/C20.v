(* C20 - Text payload coding is exact and decompression of text is bounded on request.
   ONLY property theorems (closed by [exact]; statements pinned textually), non-vacuity examples, Print Assumptions.
   A Rust String is modelled as the list of its Unicode scalar values, a payload as a list of bytes.  The compressor K and the
   bounded inflater I are universally quantified; the three premises [I (K raw) limit = Ok raw when |raw| <= limit], [I z limit = Ok out -> |out| <= limit]
   and [outputs are bytes] are the contract of fdeflate/flate2 (validated on every run by the harness, and the boundedness half is
   proved for the reference instance [inflate_bounded] the correspondence check executes). *)
From PngV Require Import Base.Bytes Base.Inflate Model.Text Proofs.TextProofs.

(* every byte string decodes to the string with the same code points, and encoding that gives the bytes back *)
Theorem C20_latin1_decode_then_encode :
  forall bs : list Z, bytes_ok bs -> encode_latin1 (decode_latin1 bs) = Some bs.
Proof. exact encode_decode_latin1. Qed.

(* whatever encodes, decodes back to the same string *)
Theorem C20_latin1_encode_then_decode :
  forall s raw : list Z, encode_latin1 s = Some raw -> decode_latin1 raw = s /\ bytes_ok raw.
Proof. exact decode_encode_latin1. Qed.

(* a string is refused if and only if it has a code point above 255 (or below 0) *)
Theorem C20_latin1_refusal_exact :
  forall s : list Z, encode_latin1 s = None <-> (exists c : Z, In c s /\ ~ 0 <= c < 256).
Proof. exact encode_latin1_refuses_exactly_non_latin1. Qed.

(* compressing twice = compressing once *)
Theorem C20_compress_idempotent :
  forall (K : list Z -> list Z) (t t1 : optc), compress_text K t = Ok t1 -> compress_text K t1 = Ok t1.
Proof. exact compress_idempotent. Qed.

(* decompressing twice = decompressing once, whatever the second limit *)
Theorem C20_decompress_idempotent :
  forall (I : list Z -> nat -> outcome (list Z) terr) (t t1 : optc) (n : nat),
       decompress_text_with_limit I t n = Ok t1 -> forall m : nat, decompress_text_with_limit I t1 m = Ok t1.
Proof. exact decompress_idempotent. Qed.

(* decompress (compress t) = t when the limit admits the text *)
Theorem C20_decompress_after_compress :
  forall (K : list Z -> list Z) (I : list Z -> nat -> outcome (list Z) terr),
       (forall (raw : list Z) (limit : nat),
        bytes_ok raw -> (length raw <= limit)%nat -> I (K raw) limit = Ok raw) ->
       forall (s : list Z) (t1 : optc) (n : nat),
       compress_text K (Uncompressed s) = Ok t1 ->
       (length s <= n)%nat -> decompress_text_with_limit I t1 n = Ok (Uncompressed s).
Proof. exact decompress_compress. Qed.

(* compress (decompress t) holds the same text *)
Theorem C20_compress_after_decompress :
  forall (K : list Z -> list Z) (I : list Z -> nat -> outcome (list Z) terr),
       (forall (raw : list Z) (limit : nat),
        bytes_ok raw -> (length raw <= limit)%nat -> I (K raw) limit = Ok raw) ->
       (forall (z : list Z) (limit : nat) (out : list Z), I z limit = Ok out -> (length out <= limit)%nat) ->
       (forall (z : list Z) (limit : nat) (out : list Z), I z limit = Ok out -> bytes_ok out) ->
       forall (z s : list Z) (n : nat),
       decompress_text_with_limit I (Compressed z) n = Ok (Uncompressed s) ->
       exists t1 : optc,
         compress_text K (Uncompressed s) = Ok t1 /\ decompress_text_with_limit I t1 n = Ok (Uncompressed s).
Proof. exact compress_decompress. Qed.

(* a failed decompression returns no new state: the caller's chunk is still the compressed one (usable) *)
Theorem C20_failure_keeps_chunk :
  forall (I : list Z -> nat -> outcome (list Z) terr) (t : optc) (n : nat) (e : terr),
       decompress_text_with_limit I t n = Err e -> exists z : list Z, t = Compressed z /\ I z n = Err e.
Proof. exact failure_returns_no_state. Qed.

(* a successful bounded decompression never holds more than the limit *)
Theorem C20_limit_respected :
  forall I : list Z -> nat -> outcome (list Z) terr,
       (forall (z : list Z) (limit : nat) (out : list Z), I z limit = Ok out -> (length out <= limit)%nat) ->
       forall (t : optc) (n : nat) (s : list Z),
       decompress_text_with_limit I t n = Ok (Uncompressed s) ->
       (exists z : list Z, t = Compressed z) -> (length s <= n)%nat.
Proof. exact decompress_respects_limit. Qed.

(* the executable instance used in the correspondence check satisfies the boundedness premise *)
Theorem C20_reference_inflater_bounded :
  forall (z : list Z) (limit : nat) (out : list Z),
       inflate_bounded z limit = Ok out -> (length out <= limit)%nat.
Proof. exact inflate_bounded_is_bounded. Qed.

(* the contract premises are satisfiable (non-vacuity of the section) *)
Theorem C20_contract_satisfiable :
  let K := fun raw : list Z => raw in
       let I :=
         fun (z : list Z) (limit : nat) =>
         if (length z <=? limit)%nat && bytesb z then Ok z else Err TOutOfSpace in
       (forall (raw : list Z) (limit : nat),
        bytes_ok raw -> (length raw <= limit)%nat -> I (K raw) limit = Ok raw) /\
       (forall (z : list Z) (limit : nat) (out : list Z), I z limit = Ok out -> (length out <= limit)%nat) /\
       (forall (z : list Z) (limit : nat) (out : list Z), I z limit = Ok out -> bytes_ok out).
Proof. exact contract_satisfiable. Qed.

Example C20_ex_high_bytes : decode_latin1 [233; 255; 128] = [233; 255; 128] /\ encode_latin1 [233; 255; 128] = Some [233; 255; 128] /\ encode_latin1 [65; 256] = None /\ encode_latin1 [8364] = None.
Proof. vm_compute. repeat split. Qed.
Print Assumptions C20_latin1_decode_then_encode.
Print Assumptions C20_latin1_encode_then_decode.
Print Assumptions C20_latin1_refusal_exact.
Print Assumptions C20_compress_idempotent.
Print Assumptions C20_decompress_idempotent.
Print Assumptions C20_decompress_after_compress.
Print Assumptions C20_compress_after_decompress.
Print Assumptions C20_failure_keeps_chunk.
Print Assumptions C20_limit_respected.
Print Assumptions C20_reference_inflater_bounded.
Print Assumptions C20_contract_satisfiable.
