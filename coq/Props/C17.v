(* C17 - Metadata written by the encoder is read back unchanged.
   ONLY property theorems (closed by [exact]; statements pinned textually), non-vacuity examples, Print Assumptions.
   Encoder side: the payload builders of Model/MetaEnc.v (tied to encoder.rs / text_metadata.rs / common.rs by the correspondence check, which
   compares every header, text and fcTL payload the real encoder emits with them).  Decoder side: the chunk parsers of the L0 model (C16).
   Each theorem: the parser applied to the encoder's payload stores exactly the value given, for ALL values; refusal theorems are exact.
   Chunk framing (length/type/CRC, order) is C12 + C04/C11.  Compression: K / I / zall universally quantified under the codec contract. *)
From PngV Require Import Base.Bytes Base.Utf8 Gen.GenStream Model.Stream Model.StreamRun Model.StreamExec Model.Text Model.MetaEnc Proofs.StreamProofs Proofs.StreamDecisions Proofs.TextProofs Proofs.MetaEncProofs.
From RecordUpdate Require Import RecordSet.
Import RecordSetNotations.

(* an accepted keyword is written as bytes that decode to it; 1..79 characters, none of them NUL *)
Theorem C17_keyword_written_is_read :
  forall kw b : list Z,
       enc_keyword kw = Ok b ->
       decode_latin1 b = kw /\
       bytes_ok b /\ (1 <= length kw <= 79)%nat /\ length b = length kw /\ Forall (fun c : Z => c <> 0) kw.
Proof. exact enc_keyword_ok. Qed.

(* a keyword is accepted iff it has 1..79 characters, all in Latin-1 and none of them NUL (a keyword ends at the first zero byte of the chunk; after fix b862217) *)
Theorem C17_keyword_refusal_exact :
  forall kw : list Z,
       (exists b : list Z, enc_keyword kw = Ok b) <->
       (1 <= length kw <= 79)%nat /\ Forall (fun c : Z => 0 < c < 256) kw.
Proof. exact enc_keyword_refusal_exact. Qed.

(* keyword validation has no panic outcome *)
Theorem C17_keyword_never_panics :
  forall (kw : list Z) (p : nat), enc_keyword kw <> Panic p.
Proof. exact enc_keyword_never_panics. Qed.

(* tEXt, zTXt and iTXt all refuse a bad keyword *)
Theorem C17_bad_keyword_refused_by_all_kinds :
  forall (K : list Z -> list Z) (kw : list Z),
       (forall b : list Z, enc_keyword kw <> Ok b) ->
       (forall txt p : list Z, enc_text kw txt <> Ok p) /\
       (forall (t : optc) (p : list Z), enc_ztxt K kw t <> Ok p) /\
       (forall (c : bool) (l tr txt p : list Z), enc_itxt K kw c l tr txt <> Ok p).
Proof. exact bad_keyword_refused_everywhere. Qed.

(* tEXt / zTXt refuse text with a character outside Latin-1 *)
Theorem C17_non_latin1_text_refused :
  forall (K : list Z -> list Z) (kw txt : list Z),
       (exists c : Z, In c txt /\ ~ 0 <= c < 256) ->
       (forall p : list Z, enc_text kw txt <> Ok p) /\
       (forall p : list Z, enc_ztxt K kw (Uncompressed txt) <> Ok p).
Proof. exact non_latin1_text_refused. Qed.

(* iTXt refuses a non-ASCII language tag *)
Theorem C17_non_ascii_language_refused :
  forall (K : list Z -> list Z) (kw : list Z) (c : bool) (lang trans txt : list Z),
       Exists (fun ch : Z => ch < 0 \/ 127 < ch) lang ->
       forall p : list Z, enc_itxt K kw c lang trans txt <> Ok p.
Proof. exact itxt_lang_refused. Qed.

(* iTXt refuses a NUL in the language tag or in the translated keyword *)
Theorem C17_nul_in_language_tag_or_translated_keyword_refused :
  forall (K : list Z -> list Z) (kw : list Z) (c : bool) (lang trans txt : list Z),
       In 0 lang \/ In 0 trans -> forall p : list Z, enc_itxt K kw c lang trans txt <> Ok p.
Proof. exact itxt_nul_refused. Qed.

(* tEXt: keyword and text read back (every accepted value: no side condition) *)
Theorem C17_tEXt :
  forall (s : dstate) (kw txt p : list Z),
       enc_text kw txt = Ok p ->
       c_raw s = p ->
       zlen p <= budget s ->
       exists k t : list Z,
         parse_text s =
         (add_text (s <| budget := budget s - zlen p |>)
            {|
              t_kind := 0; t_keyword := k; t_compressed := false; t_lang := []; t_trans := []; t_payload := t
            |}, Ok ENothing) /\ decode_latin1 k = kw /\ decode_latin1 t = txt.
Proof. exact text_roundtrip. Qed.

(* zTXt: keyword read back; the stored stream decompresses to the text (every accepted value) *)
Theorem C17_zTXt :
  forall (K : list Z -> list Z) (I : list Z -> nat -> outcome (list Z) terr),
       (forall (raw : list Z) (limit : nat),
        bytes_ok raw -> (length raw <= limit)%nat -> I (K raw) limit = Ok raw) ->
       forall (s : dstate) (kw txt p : list Z) (n : nat),
       enc_ztxt K kw (Uncompressed txt) = Ok p ->
       c_raw s = p ->
       zlen p <= budget s ->
       (length txt <= n)%nat ->
       exists k z : list Z,
         parse_ztxt s =
         (add_text (s <| budget := budget s - zlen p |>)
            {|
              t_kind := 1; t_keyword := k; t_compressed := true; t_lang := []; t_trans := []; t_payload := z
            |}, Ok ENothing) /\
         decode_latin1 k = kw /\ decompress_text_with_limit I (Compressed z) n = Ok (Uncompressed txt).
Proof. exact ztxt_roundtrip. Qed.

(* iTXt: keyword, flag, language tag, translated keyword and text read back (every accepted value whose translated keyword / uncompressed text are valid UTF-8, which Rust strings are) *)
Theorem C17_iTXt :
  forall (K : list Z -> list Z) (s : dstate) (kw : list Z) (c : bool) (lang trans txt p : list Z),
       enc_itxt K kw c lang trans txt = Ok p ->
       utf8_valid trans = true ->
       (c = false -> utf8_valid txt = true) ->
       c_raw s = p ->
       zlen p <= budget s ->
       exists k : list Z,
         parse_itxt utf8_valid s =
         (add_text (s <| budget := budget s - zlen p |>)
            {|
              t_kind := 2;
              t_keyword := k;
              t_compressed := c;
              t_lang := lang;
              t_trans := trans;
              t_payload := if c then K txt else txt
            |}, Ok ENothing) /\ decode_latin1 k = kw.
Proof. exact itxt_roundtrip. Qed.

(* ICC profile of any size within the budget read back *)
Theorem C17_iCCP :
  forall (K : list Z -> list Z) (zall : list Z -> option (list Z)),
       (forall raw : list Z, bytes_ok raw -> zall (K raw) = Some raw) ->
       forall (s : dstate) (profile : list Z),
       bytes_ok profile ->
       have_idat s = false ->
       have_iccp s = false ->
       c_raw s = enc_iccp K profile ->
       zlen profile <= budget s ->
       snd (parse_iccp zall s) = Ok ENothing /\
       anc_get KIccp (i_anc (the_info (fst (parse_iccp zall s)))) = Some profile.
Proof. exact iccp_roundtrip. Qed.

(* physical dimensions *)
Theorem C17_pHYs :
  forall (s : dstate) (x y u : Z),
       u32 x ->
       u32 y ->
       u = 0 \/ u = 1 ->
       have_idat s = false ->
       anc_has KPhys (the_info s) = false ->
       c_raw s = enc_phys x y u ->
       parse_phys s = (upd_info s (anc_set KPhys [x; y; u]), Ok (EPixelDimensions x y u)).
Proof. exact phys_roundtrip. Qed.

(* source gamma *)
Theorem C17_gAMA :
  forall (s : dstate) (g : Z),
       u32 g ->
       have_idat s = false ->
       anc_has KGama (the_info s) = false ->
       c_raw s = enc_gama g -> parse_gama s = (upd_info s (anc_set KGama [g]), Ok ENothing).
Proof. exact gama_roundtrip. Qed.

(* chromaticities *)
Theorem C17_cHRM :
  forall (s : dstate) (wx wy rx ry gx gy bx by_ : Z),
       u32 wx ->
       u32 wy ->
       u32 rx ->
       u32 ry ->
       u32 gx ->
       u32 gy ->
       u32 bx ->
       u32 by_ ->
       have_idat s = false ->
       anc_has KChrm (the_info s) = false ->
       c_raw s = enc_chrm [wx; wy; rx; ry; gx; gy; bx; by_] ->
       parse_chrm s = (upd_info s (anc_set KChrm [wx; wy; rx; ry; gx; gy; bx; by_]), Ok ENothing).
Proof. exact chrm_roundtrip. Qed.

(* sRGB intent *)
Theorem C17_sRGB :
  forall (s : dstate) (r : Z),
       0 <= r <= 3 ->
       have_idat s = false ->
       anc_has KSrgb (the_info s) = false ->
       c_raw s = enc_srgb r -> parse_srgb s = (upd_info s (anc_set KSrgb [r]), Ok ENothing).
Proof. exact srgb_roundtrip. Qed.

(* animation control *)
Theorem C17_acTL :
  forall (s : dstate) (f p : Z),
       u32 f ->
       u32 p ->
       have_idat s = false ->
       c_raw s = enc_actl f p ->
       parse_actl s =
       (upd_info s (fun i : info_t => i <| i_actl := Some (f, p) |>), Ok (EAnimationControl f p)).
Proof. exact actl_roundtrip. Qed.

(* frame control: all nine fields *)
Theorem C17_fcTL :
  forall (s : dstate) (n w h x y dn dd dop bop : Z),
       u32 n ->
       u32 w ->
       u32 h ->
       u32 x ->
       u32 y ->
       0 <= dn < 65536 ->
       0 <= dd < 65536 ->
       dop = 0 \/ dop = 1 \/ dop = 2 ->
       bop = 0 \/ bop = 1 ->
       n = match seq s with
           | Some q => q + 1
           | None => 0
           end ->
       c_raw s =
       enc_fctl
         {|
           fc_seq := n;
           fc_w := w;
           fc_h := h;
           fc_x := x;
           fc_y := y;
           fc_dn := dn;
           fc_dd := dd;
           fc_dispose := dop;
           fc_blend := bop
         |} ->
       validate_fctl (the_info s)
         {|
           fc_seq := n;
           fc_w := w;
           fc_h := h;
           fc_x := x;
           fc_y := y;
           fc_dn := dn;
           fc_dd := dd;
           fc_dispose := dop;
           fc_blend := bop
         |} = Ok tt ->
       snd (parse_fctl s) =
       Ok
         (EFrameControl
            {|
              fc_seq := n;
              fc_w := w;
              fc_h := h;
              fc_x := x;
              fc_y := y;
              fc_dn := dn;
              fc_dd := dd;
              fc_dispose := dop;
              fc_blend := bop
            |}) /\
       i_fctl (the_info (fst (parse_fctl s))) =
       Some
         {|
           fc_seq := n;
           fc_w := w;
           fc_h := h;
           fc_x := x;
           fc_y := y;
           fc_dn := dn;
           fc_dd := dd;
           fc_dispose := dop;
           fc_blend := bop
         |}.
Proof. exact fctl_roundtrip. Qed.

(* palette bytes *)
Theorem C17_PLTE :
  forall (s : dstate) (p : list Z),
       anc_has KPalette (the_info s) = false ->
       c_raw s = p ->
       zlen p <= budget s ->
       exists s' : dstate, parse_plte s = (upd_info s' (anc_set KPalette p), Ok ENothing).
Proof. exact plte_roundtrip. Qed.

(* EXIF block handed to the parser is stored (zero-length chunks never reach the parser: known finding) *)
Theorem C17_eXIf :
  forall s : dstate,
       anc_has KExif (the_info s) = false ->
       parse_exif s = (upd_info s (anc_set KExif (c_raw s)), Ok ENothing).
Proof. exact exif_roundtrip. Qed.

(* transparency of an indexed image: the bytes *)
Theorem C17_tRNS_indexed :
  forall (s : dstate) (p : list Z),
       i_color (the_info s) = 3 ->
       anc_has KTrns (the_info s) = false ->
       anc_has KPalette (the_info s) = true ->
       have_idat s = false ->
       c_raw s = p ->
       zlen p <= budget s -> exists s' : dstate, parse_trns s = (upd_info s' (anc_set KTrns p), Ok ENothing).
Proof. exact trns_roundtrip_indexed. Qed.

(* transparency of a grayscale image: the sample value (low byte below 16 bits) *)
Theorem C17_tRNS_gray :
  forall (s : dstate) (g : Z),
       i_color (the_info s) = 0 ->
       anc_has KTrns (the_info s) = false ->
       have_idat s = false ->
       0 <= g < 65536 ->
       c_raw s = to_be16 g ->
       2 <= budget s ->
       exists s' : dstate,
         parse_trns s =
         (upd_info s' (anc_set KTrns (if i_depth (the_info s) <? 16 then [g mod 256] else to_be16 g)),
          Ok ENothing).
Proof. exact trns_roundtrip_gray. Qed.

(* with sRGB set only substitutes are written and no ICC profile *)
Theorem C17_sRGB_overrides :
  forall (K : list Z -> list Z) (m : meta) (r : Z),
       m_srgb m = Some r ->
       forall (ty : Z) (p : list Z),
       In (ty, p) (colour_chunks K m) ->
       ty = ct_sRGB /\ p = [r] \/
       ty = ct_gAMA /\ p = enc_gama sub_gamma \/ ty = ct_cHRM /\ p = enc_chrm sub_chrm.
Proof. exact colour_chunks_srgb. Qed.

(* without sRGB: gAMA, cHRM, iCCP exactly as set *)
Theorem C17_without_sRGB :
  forall (K : list Z -> list Z) (m : meta),
       m_srgb m = None ->
       colour_chunks K m =
       opt_chunk ct_gAMA enc_gama (m_gamma m) ++
       opt_chunk ct_cHRM enc_chrm (m_chrm m) ++ opt_chunk ct_iCCP (enc_iccp K) (m_icc m).
Proof. exact colour_chunks_plain. Qed.

(* gamma() / chromaticities() report the substitutes when sRGB is present *)
Theorem C17_accessors_with_sRGB :
  forall i : info_t,
       anc_has KSrgb i = true -> info_gamma i = Some [sub_gamma] /\ info_chrm i = Some sub_chrm.
Proof. exact accessors_with_srgb. Qed.

(* and the chunk values otherwise *)
Theorem C17_accessors_without_sRGB :
  forall i : info_t,
       anc_has KSrgb i = false ->
       info_gamma i = anc_get KGama (i_anc i) /\ info_chrm i = anc_get KChrm (i_anc i).
Proof. exact accessors_without_srgb. Qed.

(* KNOWN FINDING witness: the encoder writes an empty EXIF block as a zero-length eXIf chunk, the decoder model (= the code) reports no EXIF *)
Theorem C17_refuted_zero_length_exif :
  header_chunks K_mark
         {|
           m_phys := None;
           m_srgb := None;
           m_gamma := None;
           m_chrm := None;
           m_icc := None;
           m_exif := Some [];
           m_actl := None;
           m_plte := None;
           m_trns := None
         |} = [(ct_eXIf, [])] /\
       (let (p, o) := l0_run 17 67108864 [] zero_exif_file in
        let (_, r) := p in
        match r with
        | REof => match o with
                  | Some i => anc_get KExif (i_anc i) = None
                  | None => False
                  end
        | _ => False
        end).
Proof. exact zero_length_exif_refuted. Qed.

Example C17_ex_text : enc_text [75; 233] [255; 10; 65] = Ok [75; 233; 0; 255; 10; 65] /\ enc_text [] [65] = Err MKeywordSize /\ enc_text [256] [65] = Err MUnrepresentable /\ enc_text (repeat 65 80) [] = Err MKeywordSize /\ (exists p, enc_text (repeat 255 79) [] = Ok p).
Proof. vm_compute. repeat split. eexists. reflexivity. Qed.
Example C17_ex_header : map fst (header_chunks K_mark (mk_meta (Some (1, 2, 1)) (Some 0) (Some 45455) (Some [1;1;1;1;1;1;1;1]) (Some [9]) (Some []) None None None)) = [ct_pHYs; ct_sRGB; ct_gAMA; ct_eXIf].
Proof. vm_compute. reflexivity. Qed.
Print Assumptions C17_keyword_written_is_read.
Print Assumptions C17_keyword_refusal_exact.
Print Assumptions C17_keyword_never_panics.
Print Assumptions C17_bad_keyword_refused_by_all_kinds.
Print Assumptions C17_non_latin1_text_refused.
Print Assumptions C17_non_ascii_language_refused.
Print Assumptions C17_nul_in_language_tag_or_translated_keyword_refused.
Print Assumptions C17_tEXt.
Print Assumptions C17_zTXt.
Print Assumptions C17_iTXt.
Print Assumptions C17_iCCP.
Print Assumptions C17_pHYs.
Print Assumptions C17_gAMA.
Print Assumptions C17_cHRM.
Print Assumptions C17_sRGB.
Print Assumptions C17_acTL.
Print Assumptions C17_fcTL.
Print Assumptions C17_PLTE.
Print Assumptions C17_eXIf.
Print Assumptions C17_tRNS_indexed.
Print Assumptions C17_tRNS_gray.
Print Assumptions C17_sRGB_overrides.
Print Assumptions C17_without_sRGB.
Print Assumptions C17_accessors_with_sRGB.
Print Assumptions C17_accessors_without_sRGB.
Print Assumptions C17_refuted_zero_length_exif.
