(* C07 — Every decoding call terminates after work bounded by input plus output.
   ONLY property theorems (closed by [exact]), pinned statements, non-vacuity examples, Print Assumptions.
   Scope of the theorem: the low-level machine (model of StreamingDecoder::update / next_state / parse_u32 /
   parse_chunk), for EVERY inflater behaviour [zinf] (the inflater is a section parameter: nothing about it is
   assumed), every well-formed state and every byte buffer.  The Reader-level loops (read_decoder.rs, mod.rs)
   are covered by the step counters of the correspondence harness, not by this theorem. *)
From PngV Require Import Base.Bytes Base.Crc Gen.GenStream Model.Stream Model.StreamRun Proofs.StreamProofs Proofs.StreamSplit Proofs.StreamWhole.

(* One update call: the loop of at most 2*|buf|+8 transitions that the model supplies is never exhausted (in fact
   2*|buf|+3 suffice: the measure 2*bytes_left + rank(state) strictly decreases on every silent transition);
   the call consumes at most the buffer; a call that returns the silent event has consumed the WHOLE non-empty
   buffer, so every call makes progress (bytes consumed, or an event, or an error); an error poisons the decoder;
   well-formedness is preserved, so the statement applies to every later call as well. *)
Theorem C07_update_terminates_and_progresses :
  forall (zinf : bool -> list Z -> list Z * dstatus) (zall : list Z -> option (list Z)) (utf8_valid : list Z -> bool)
         (s : dstate) (buf : list Z),
    wf' s -> bytes_ok buf ->
    snd (update zinf zall utf8_valid s buf) <> UOutOfFuel /\
    wf' (fst (update zinf zall utf8_valid s buf)) /\
    (forall n e a, snd (update zinf zall utf8_valid s buf) = UOk n e a ->
                   (n <= length buf)%nat /\ (e = ENothing -> n = length buf)) /\
    (forall e, snd (update zinf zall utf8_valid s buf) = UErr e -> st (fst (update zinf zall utf8_valid s buf)) = None) /\
    (forall p, snd (update zinf zall utf8_valid s buf) = UPanic p -> st (fst (update zinf zall utf8_valid s buf)) = None).
Proof. exact update_terminates_and_progresses. Qed.

(* a single transition: a silent (Nothing) transition strictly lowers 2*bytes_left + rank *)
Theorem C07_silent_step_decreases_measure :
  forall zinf zall utf8_valid (s : dstate) (x : sstate) (buf : list Z),
    wf' s -> bytes_ok buf -> buf <> [] -> st s = Some x ->
    ns_post x buf (fst (next_state zinf zall utf8_valid s buf)) (snd (next_state zinf zall utf8_valid s buf)).
Proof. exact next_state_post. Qed.

(* after a fatal error every further call returns at once *)
Theorem C07_poisoned_returns_at_once :
  forall zinf zall utf8_valid (s : dstate) (buf : list Z),
    st s = None -> update zinf zall utf8_valid s buf = (s, UErr EParamPolledAfterFatal).
Proof. exact poisoned_is_absorbing. Qed.

(* the initial state and the state after reset are well-formed, so the theorems apply from the first call on *)
Theorem C07_initial_states_wf : forall o l s, wf' (init_state o l) /\ wf' (reset_model s).
Proof. intros o l s. exact (conj (init_state_wf o l) (reset_model_wf s)). Qed.

(* THE LINEAR BOUND on transitions (events included, not only the silent ones): every transition on a non-empty buffer either consumes a byte
   or lowers the rank of the control state (rank <= 4), so it lowers 5*bytes_left + rank; a buffer of L bytes is therefore used up - or an error /
   the end of the image reached - after at most 5*L + 4 transitions of the machine, for every inflater behaviour *)
Theorem C07_every_transition_lowers_linear_measure :
  forall zinf zall utf8_valid (s : dstate) (buf : list Z) (s' : dstate) (n : nat) (e : event) (a : list Z),
    good4 s -> buf <> [] -> next_state zinf zall utf8_valid s buf = (s', Ok (n, e, a)) ->
    (mu s' (skipn n buf) < mu s buf)%nat /\ inv4 s'.
Proof. exact mu_step. Qed.

(* the caller's loop (offer the rest of the buffer again after every event; Model/StreamRun.v feed, budget 5*L+8 update calls per buffer of L bytes)
   never runs out of budget, for every input, every way of cutting it into buffers and every inflater behaviour *)
Theorem C07_driver_loop_terminates_within_linear_budget :
  forall zinf zall utf8_valid (s : dstate) (ps : list (list Z)),
    good4 s -> Forall bytes_ok ps -> snd (feed zinf zall utf8_valid s ps) <> RFuel.
Proof. exact feed_never_out_of_fuel. Qed.

Theorem C07_initial_state_meets_the_premise : forall o l, good4 (init_state o l).
Proof. exact good4_init. Qed.

(* ---- non-vacuity: a real header prefix fed to the initial state, with an inflater that never produces anything *)
Example C07_nonvacuous :
  let zinf := fun (_ : bool) (_ : list Z) => (@nil Z, DNeedMore) in
  let s0 := init_state (mk_opts true false false false true) 67108864 in
  snd (update zinf (fun _ => None) (fun _ => true) s0 [137; 80; 78; 71; 13; 10; 26; 10; 0; 0; 0; 13; 73; 72; 68; 82; 0; 0])
  = UOk 16%nat (EChunkBegin 13 ct_IHDR) [].
Proof. vm_compute. reflexivity. Qed.

Print Assumptions C07_update_terminates_and_progresses.
Print Assumptions C07_silent_step_decreases_measure.
Print Assumptions C07_poisoned_returns_at_once.
Print Assumptions C07_initial_states_wf.
Print Assumptions C07_every_transition_lowers_linear_measure.
Print Assumptions C07_driver_loop_terminates_within_linear_budget.
Print Assumptions C07_initial_state_meets_the_premise.
