(* C14 — Scanline filters match the specification and are exact inverses.
   This file holds ONLY the property theorems (closed by [exact]), their pinned statements,
   non-vacuity examples and Print Assumptions. *)
From PngV Require Import Base.Bytes Spec.FilterSpec Gen.GenPaeth Model.Filter
     Proofs.PaethProofs Proofs.FilterProofs Proofs.FilterEncProofs.

(* (1) The decoder's reconstruction equals the specification's formula: every filter type, every pixel
   size bpp>0 (the crate uses 1,2,3,4,6,8), every row length that is a multiple of bpp, all row contents,
   first row of an image/pass (prev = []) or later row; for BOTH predictor selections of `cfg!(target_arch)`. *)
Theorem C14_unfilter_matches_spec :
  forall (P : Z -> Z -> Z -> Z),
    (P = filter_paeth_decode_x86_64 \/ P = filter_paeth_decode_other) ->
  forall ftz ft bpp prev cur k,
    ftype_of_Z ftz = Some ft -> (0 < bpp)%nat ->
    bytes_ok cur -> bytes_ok prev ->
    (prev = [] \/ length prev = length cur) -> length cur = (k * bpp)%nat ->
    unfilter_model P ftz bpp prev cur = recon_spec ft bpp prev cur.
Proof.
  intros P [-> | ->].
  - exact (unfilter_model_spec _ paeth_decode_x86_eq).
  - exact (unfilter_model_spec _ paeth_decode_other_eq).
Qed.

(* (2) Encoder filtering (all 5 fixed settings and Adaptive) followed by the decoder's reconstruction is the
   identity; the adaptive setting returns one of the five legal filter types ([rf : ftype], so its byte is <= 4).
   Second conjunct: the encoder's first row (filtered against a zero row) is decoded with an absent previous row. *)
Theorem C14_filter_then_unfilter_identity :
  forall (P : Z -> Z -> Z -> Z),
    (P = filter_paeth_decode_x86_64 \/ P = filter_paeth_decode_other) ->
  forall m bpp prev cur rf out k,
    (0 < bpp)%nat -> (0 < k)%nat -> length cur = (k * bpp)%nat -> length prev = length cur ->
    bytes_ok prev -> bytes_ok cur ->
    filter_model m bpp prev cur = Some (rf, out) ->
    unfilter_model P (ftype_to_Z rf) bpp prev out = cur /\
    (prev = zeros (length cur) -> unfilter_model P (ftype_to_Z rf) bpp [] out = cur).
Proof.
  intros P [-> | ->].
  - exact (filter_unfilter_roundtrip _ paeth_decode_x86_eq).
  - exact (filter_unfilter_roundtrip _ paeth_decode_other_eq).
Qed.

(* the encoder never refuses a well-shaped row (so (2) is not vacuous for any setting) *)
Theorem C14_filter_total :
  forall ft bpp prev cur,
    (0 < bpp)%nat -> (bpp <= length cur)%nat -> length prev = length cur ->
    bytes_ok prev -> bytes_ok cur ->
    filter_internal_model ft bpp prev cur = Some (filt_spec ft bpp prev cur).
Proof. exact filter_internal_model_spec. Qed.

(* (3) the Paeth predictor of every code path equals the specification's on all 2^24 byte triples,
   and no intermediate value leaves its Rust integer type (translator-generated obligations) *)
Theorem C14_paeth_all_paths :
  forall a b c, byte_ok a -> byte_ok b -> byte_ok c ->
    filter_paeth a b c = paeth_spec a b c /\
    filter_paeth_stbi a b c = paeth_spec a b c /\
    filter_paeth_stbi_i16 a b c = paeth_spec a b c /\
    filter_paeth_fpnge a b c = paeth_spec a b c /\
    filter_paeth_safe a b c = true /\ filter_paeth_stbi_safe a b c = true /\
    filter_paeth_stbi_i16_safe a b c = true /\ filter_paeth_fpnge_safe a b c = true.
Proof.
  intros a b c Ha Hb Hc.
  exact (conj (filter_paeth_eq a b c Ha Hb Hc)
        (conj (filter_paeth_stbi_eq a b c Ha Hb Hc)
        (conj (filter_paeth_stbi_i16_eq a b c Ha Hb Hc)
        (conj (filter_paeth_fpnge_eq a b c Ha Hb Hc)
        (conj (filter_paeth_safe_ok a b c Ha Hb Hc)
        (conj (filter_paeth_stbi_safe_ok a b c Ha Hb Hc)
        (conj (filter_paeth_stbi_i16_safe_ok a b c Ha Hb Hc)
              (filter_paeth_fpnge_safe_ok a b c Ha Hb Hc)))))))).
Qed.

(* specification-level inverse, independent of any code *)
Theorem C14_spec_inverse :
  forall ft bpp prior raw, bytes_ok raw -> recon_spec ft bpp prior (filt_spec ft bpp prior raw) = raw.
Proof. exact recon_filt_spec. Qed.

(* the filter-type byte decoding and the first-row substitution regenerated from the source are the spec's *)
Theorem C14_filter_byte_decoding :
  forall n, row_filter_from_u8 n = option_map ftype_to_Z (ftype_of_Z n).
Proof. exact row_filter_from_u8_spec. Qed.

(* ---- non-vacuity: concrete non-trivial rows meet the hypotheses and exercise Paeth ties and Avg carries *)
Example C14_nonvacuous_unfilter :
  unfilter_model filter_paeth_decode_x86_64 4 3 [10; 20; 30; 255; 255; 255] [1; 2; 3; 255; 128; 7]
  = recon_spec FPaeth 3 [10; 20; 30; 255; 255; 255] [1; 2; 3; 255; 128; 7]
  /\ recon_spec FPaeth 3 [10; 20; 30; 255; 255; 255] [1; 2; 3; 255; 128; 7] = [11; 22; 33; 254; 127; 6].
Proof. vm_compute. split; reflexivity. Qed.

Example C14_nonvacuous_roundtrip :
  exists rf out, filter_model MAdaptive 2 [255; 255; 0; 9] [255; 1; 128; 200] = Some (rf, out)
                 /\ unfilter_model filter_paeth_decode_x86_64 (ftype_to_Z rf) 2 [255; 255; 0; 9] out = [255; 1; 128; 200].
Proof. eexists. eexists. vm_compute. split; reflexivity. Qed.

Check C14_unfilter_matches_spec :
  forall (P : Z -> Z -> Z -> Z),
    (P = filter_paeth_decode_x86_64 \/ P = filter_paeth_decode_other) ->
  forall ftz ft bpp prev cur k,
    ftype_of_Z ftz = Some ft -> (0 < bpp)%nat ->
    bytes_ok cur -> bytes_ok prev ->
    (prev = [] \/ length prev = length cur) -> length cur = (k * bpp)%nat ->
    unfilter_model P ftz bpp prev cur = recon_spec ft bpp prev cur.
Check C14_filter_then_unfilter_identity :
  forall (P : Z -> Z -> Z -> Z),
    (P = filter_paeth_decode_x86_64 \/ P = filter_paeth_decode_other) ->
  forall m bpp prev cur rf out k,
    (0 < bpp)%nat -> (0 < k)%nat -> length cur = (k * bpp)%nat -> length prev = length cur ->
    bytes_ok prev -> bytes_ok cur ->
    filter_model m bpp prev cur = Some (rf, out) ->
    unfilter_model P (ftype_to_Z rf) bpp prev out = cur /\
    (prev = zeros (length cur) -> unfilter_model P (ftype_to_Z rf) bpp [] out = cur).

Print Assumptions C14_unfilter_matches_spec.
Print Assumptions C14_filter_then_unfilter_identity.
Print Assumptions C14_filter_total.
Print Assumptions C14_paeth_all_paths.
Print Assumptions C14_spec_inverse.
Print Assumptions C14_filter_byte_decoding.
