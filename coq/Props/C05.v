(* C05 - Truncation gives a resumable end-of-input error; resuming completes identically.
   ONLY property theorems (closed by [exact]; statements pinned textually), non-vacuity examples, Print Assumptions.
   PROVED on the Reader cursor model, with the visible part of the input a parameter of every call (counted in scanline records): a row call that
   runs out of input changes NOTHING; finish() that runs out of input can be repeated and then gives what one finish() on the longer input gives;
   a whole-frame call that runs out of input has written a prefix d1 of the rows, and repeating it on ANY longer input v' >= v gives exactly the
   result of a single call on v' with the rows d1 ++ d2 - by induction over a growth schedule this is `resuming completes identically`.  At the
   byte level the stream machine consumes nothing on an empty buffer and accumulates partial 4-byte fields (C04_field_piece_is_only_accumulated)
   and partial chunk bodies (C04_body_cut_partial) without events.  NOT PROVED: the composition down to bytes; next_frame_info; that no format error
   is reported on a prefix (needs the inflater's prefix-stability contract).  These are decided by the harness on every run (every cut point,
   growth schedules +1 / random / all-at-once, six retried calls). *)
From Coq Require Import List Arith Bool Lia.
Import ListNotations.
From PngV Require Import Model.Reader Proofs.ReaderProofs.

(* row calls *)
Theorem C05_row_call_out_of_input_changes_nothing :
  forall (im : image) (vis : nat) (s s' : rstate) (d : delivered) (o : op),
       is_row_op o -> step im vis s o = (s', REofR, d) -> s' = s /\ d = [].
Proof. exact row_call_eof_changes_nothing. Qed.

(* finish() *)
Theorem C05_finish_is_resumable :
  forall (im : image) (v v' : nat) (s s1 : rstate) (d1 : delivered),
       step im v s OFinish = (s1, REofR, d1) -> d1 = [] /\ step im v' s1 OFinish = step im v' s OFinish.
Proof. exact finish_is_resumable. Qed.

(* next_frame in the middle of a frame or at its start *)
Theorem C05_frame_call_is_resumable :
  forall (im : image) (v v' : nat) (s s1 : rstate) (d1 : delivered),
       v <= v' ->
       advancing s = false ->
       step im v s OFrame = (s1, REofR, d1) ->
       step im v' s OFrame = (let '(s2, r, d2) := step im v' s1 OFrame in (s2, r, d1 ++ d2)).
Proof. exact frame_call_is_resumable. Qed.

(* the rows a call could write on a prefix are a prefix of those it writes on a longer input *)
Theorem C05_rows_visible_earlier_stay_visible :
  forall (im : image) (v v' k : nat),
       v <= v' ->
       forall (n j : nat) (d : delivered) (jstop : nat),
       take_rows im v k j n = (d, Some jstop) ->
       take_rows im v' k j n = (let '(d2, st) := take_rows im v' k jstop (n - (jstop - j)) in (d ++ d2, st)).
Proof. exact take_rows_resume. Qed.

(* non-vacuity: frame of 4 rows, only 2 visible: next_frame writes 2 rows and reports UnexpectedEof; repeated with everything visible it writes the other 2 *)
Example C05_nonvacuous :
  let im := mk_image [4] 1 (fun _ => true) in
  snd (run im (reader_init im) [(OFrame, 2); (OFrame, 4)]) = [(REofR, [(0,0); (0,1)]); (RFrame 0, [(0,2); (0,3)])].
Proof. vm_compute. reflexivity. Qed.
Print Assumptions C05_row_call_out_of_input_changes_nothing.
Print Assumptions C05_finish_is_resumable.
Print Assumptions C05_frame_call_is_resumable.
Print Assumptions C05_rows_visible_earlier_stay_visible.
