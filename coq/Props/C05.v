(* C05 - Truncation gives a resumable end-of-input error; resuming completes identically.
   ONLY property theorems (closed by [exact]; statements pinned textually), non-vacuity examples, Print Assumptions.
   PROVED on the Reader cursor model, with the visible part of the input a parameter of every call (counted in scanline records): a row call that
   runs out of input changes NOTHING; finish() that runs out of input can be repeated and then gives what one finish() on the longer input gives;
   a whole-frame call that runs out of input has written a prefix d1 of the rows, and repeating it on ANY longer input v' >= v gives exactly the
   result of a single call on v' with the rows d1 ++ d2 - by induction over a growth schedule this is `resuming completes identically`.  At the
   byte level the stream machine consumes nothing on an empty buffer and accumulates partial 4-byte fields (C04_field_piece_is_only_accumulated)
   and partial chunk bodies (C04_body_cut_partial) without events.  AT THE BYTE LEVEL (stream machine, Proofs/StreamWhole.v, premise: the prefix-determinacy contract of the external inflater, which is PROVED for the reference inflater of the executable model - Proofs/InflatePrefix.v - so the last two theorems have no premise at all): a stream that decodes without
   an error reports no error on ANY of its prefixes - the run ends for lack of input, ready to go on (C05_prefix_never_fails) - and however the input
   then grows (any list of increments) the outcome is that of decoding the complete input in one go (C05_resuming_completes_identically).
   NOT PROVED: the link between the two levels (Reader rows over the machine's image bytes) and next_frame_info; decided by the harness on every run
   (every cut point, growth schedules +1 / random / all-at-once, six retried calls). *)
From Coq Require Import List Arith Bool Lia ZArith.
Import ListNotations.
From PngV Require Import Base.Bytes Model.Stream Model.StreamRun Gen.GenStream Model.Reader Proofs.ReaderProofs Proofs.StreamSplit Proofs.StreamWhole Base.Inflate Base.Utf8 Model.StreamExec Proofs.InflatePrefix.

(* row calls *)
Theorem C05_row_call_out_of_input_changes_nothing :
  forall (im : image) (vis : nat) (s s' : rstate) (d : delivered) (o : op),
       is_row_op o -> step im vis s o = (s', REofR, d) -> s' = s /\ d = [].
Proof. exact row_call_eof_changes_nothing. Qed.

(* finish() *)
Theorem C05_finish_is_resumable :
  forall (im : image) (v v' : nat) (s s1 : rstate) (d1 : delivered),
       step im v s OFinish = (s1, REofR, d1) -> d1 = [] /\ step im v' s1 OFinish = step im v' s OFinish.
Proof. exact finish_is_resumable. Qed.

(* next_frame in the middle of a frame or at its start *)
Theorem C05_frame_call_is_resumable :
  forall (im : image) (v v' : nat) (s s1 : rstate) (d1 : delivered),
       (v <= v')%nat ->
       advancing s = false ->
       step im v s OFrame = (s1, REofR, d1) ->
       step im v' s OFrame = (let '(s2, r, d2) := step im v' s1 OFrame in (s2, r, d1 ++ d2)).
Proof. exact frame_call_is_resumable. Qed.

(* the rows a call could write on a prefix are a prefix of those it writes on a longer input *)
Theorem C05_rows_visible_earlier_stay_visible :
  forall (im : image) (v v' k : nat),
       (v <= v')%nat ->
       forall (n j : nat) (d : delivered) (jstop : nat),
       take_rows im v k j n = (d, Some jstop) ->
       take_rows im v' k j n = (let '(d2, st) := take_rows im v' k jstop (n - (jstop - j)) in (d ++ d2, st)).
Proof. exact take_rows_resume. Qed.

(* bytes: a stream that decodes without an error reports no error on any prefix (the run over the prefix ends for lack of input, or at IEND) *)
Theorem C05_prefix_never_fails :
  forall (zinf : bool -> list Z -> list Z * dstatus) (zall : list Z -> option (list Z))
         (utf8_valid : list Z -> bool),
       zinf_contract zinf ->
       forall (o : options) (limit : Z) (p q : list Z),
       bytes_ok p ->
       bytes_ok q ->
       ~ is_failure (snd (feed zinf zall utf8_valid (init_state o limit) [p ++ q])) ->
       ~ is_failure (snd (feed zinf zall utf8_valid (init_state o limit) [p])).
Proof. exact prefix_never_fails. Qed.

(* bytes: however the input grows, the outcome (events, image bytes, metadata, end) is that of decoding the complete input in one go *)
Theorem C05_resuming_completes_identically :
  forall (zinf : bool -> list Z -> list Z * dstatus) (zall : list Z -> option (list Z))
         (utf8_valid : list Z -> bool),
       zinf_contract zinf ->
       forall (o : options) (limit : Z) (increments : list (list Z)),
       Forall bytes_ok increments ->
       feed_obs (feed zinf zall utf8_valid (init_state o limit) increments) =
       feed_obs (feed zinf zall utf8_valid (init_state o limit) [concat increments]).
Proof. exact resuming_completes_identically. Qed.

(* bytes, executable model (no premise about the inflater): no error on any prefix of a stream that decodes *)
Theorem C05_executable_model_prefix_never_fails :
  forall (o : options) (limit : Z) (p q : list Z),
       bytes_ok p ->
       bytes_ok q ->
       ~ is_failure (snd (feed zinf_ref inflate_checked utf8_valid (init_state o limit) [p ++ q])) ->
       ~ is_failure (snd (feed zinf_ref inflate_checked utf8_valid (init_state o limit) [p])).
Proof. exact executable_model_prefix_never_fails. Qed.

(* bytes, executable model (no premise about the inflater): however the input grows, the outcome is that of decoding the complete input in one go *)
Theorem C05_executable_model_resuming_completes_identically :
  forall (o : options) (limit : Z) (increments : list (list Z)),
       Forall bytes_ok increments ->
       feed_obs (feed zinf_ref inflate_checked utf8_valid (init_state o limit) increments) =
       feed_obs (feed zinf_ref inflate_checked utf8_valid (init_state o limit) [concat increments]).
Proof. exact executable_model_resuming_completes_identically. Qed.

Local Open Scope nat_scope.
(* non-vacuity: frame of 4 rows, only 2 visible: next_frame writes 2 rows and reports UnexpectedEof; repeated with everything visible it writes the other 2 *)
Example C05_nonvacuous :
  let im := mk_image [4] 1 (fun _ => true) in
  snd (run im (reader_init im) [(OFrame, 2); (OFrame, 4)]) = [(REofR, [(0,0); (0,1)]); (RFrame 0, [(0,2); (0,3)])].
Proof. vm_compute. reflexivity. Qed.

Local Open Scope Z_scope.
(* non-vacuity at the byte level: the 64-byte stream of C04's demonstration decodes to its IEND; cut after 30 bytes the run ends for lack of input
   (no error), and fed the rest it reaches the same end *)
Definition c05_demo_bytes : list Z :=
  [137;80;78;71;13;10;26;10; 0;0;0;13; 73;72;68;82; 0;0;0;1; 0;0;0;1; 8;0;0;0;0; 58;126;155;85;
   0;0;0;3; 73;68;65;84; 7;9;0; 0;0;0;0;  0;0;0;0; 73;69;78;68; 174;66;96;130]%Z.
Definition c05_demo_run (pieces : list (list Z)) :=
  snd (feed (fun _ => toy_inf) (fun _ => None) (fun _ => true) (init_state (mk_opts true true false false true) 1000) pieces).
Example C05_demo_whole_ends_at_iend : c05_demo_run [c05_demo_bytes] = RImageEnd 0%nat.
Proof. vm_compute. reflexivity. Qed.
Example C05_demo_prefix_ends_for_lack_of_input : c05_demo_run [firstn 30 c05_demo_bytes] = REof.
Proof. vm_compute. reflexivity. Qed.
Example C05_demo_resumed : c05_demo_run [firstn 30 c05_demo_bytes; firstn 7 (skipn 30 c05_demo_bytes); skipn 37 c05_demo_bytes] = RImageEnd 0%nat.
Proof. vm_compute. reflexivity. Qed.
Print Assumptions C05_row_call_out_of_input_changes_nothing.
Print Assumptions C05_finish_is_resumable.
Print Assumptions C05_frame_call_is_resumable.
Print Assumptions C05_rows_visible_earlier_stay_visible.
Print Assumptions C05_prefix_never_fails.
Print Assumptions C05_resuming_completes_identically.
Print Assumptions C05_executable_model_prefix_never_fails.
Print Assumptions C05_executable_model_resuming_completes_identically.
