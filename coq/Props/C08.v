(* C08 - Output transformations compute exactly the documented pixel conversion (PARTIAL as a theorem).
   ONLY property theorems (closed by [exact]; statements pinned textually), non-vacuity examples, Print Assumptions.
   PROVED: (1) the advertised output colour type and bit depth equal the documented ones for all 15 header kinds x 8 flag subsets x tRNS
   present/absent (finite sweep lifted), independent of the palette and of the tRNS content; (2) the advertised line size is the packed size of the
   output type for every width; (3) THE PALETTE THEOREM: the RGBA lookup table built by the 4-bytes-per-3-byte-entry copy with alpha repair equals the
   documented palette at every index 0..255 for EVERY PLTE payload and EVERY tRNS payload (incomplete trailing entries, more than 256 entries, tRNS
   shorter/equal/longer than the palette: over-long tRNS ignored, missing entries opaque, out-of-range indices opaque black) and never panics.
   NOT PROVED (full statement: transform_row = spec_convert for every row): the per-row loops (unpack_bits, colour-key comparison, 16-bit strip);
   they are modelled (Model/Transform.v), specified (Spec/TransformSpec.v) and decided on every run by model = implementation = reference conversion. *)
From PngV Require Import Base.Bytes Spec.TransformSpec Model.Transform Proofs.TransformProofs.
From PngV Require Import Proofs.TransformRows.

(* (1) advertised colour type / bit depth *)
Theorem C08_output_type_is_documented :
  forall (c d : Z) (pal tr : option (list Z)) (t : Z),
       In (c, d) legal_kinds ->
       In t flag_sets ->
       output_color_type {| t_color := c; t_depth := d; t_palette := pal; t_trns := tr |} t =
       spec_output_type c d (present tr) t.
Proof. exact output_type_exact. Qed.

(* (2) advertised line size *)
Theorem C08_line_size_is_packed_size :
  forall c d w : Z, 0 <= w -> In d [1; 2; 4; 8; 16] -> row_bytes c d w = spec_row_bytes c d w.
Proof. exact row_bytes_exact. Qed.

(* (3) the palette theorem *)
Theorem C08_palette_table_is_documented_palette :
  forall (c d : Z) (pal : list Z) (trns : option (list Z)),
       exists tab : table,
         create_rgba_palette {| t_color := c; t_depth := d; t_palette := Some pal; t_trns := trns |} = Ok tab /\
         (forall idx : Z,
          0 <= idx < 256 -> tab_get tab idx = pal_rgb pal idx ++ [pal_alpha pal (opt_list trns) idx]).
Proof. exact create_rgba_palette_spec. Qed.

(* the loop invariant behind (3): after k entries the first k carry their colours (alpha clobbered or not), the rest are untouched opaque black *)
Theorem C08_palette_copy_invariant :
  forall (pal0 : list Z) (fuel m k : nat) (tab : table),
       copied pal0 k tab ->
       length pal0 = (3 * (k + m))%nat ->
       (k + m <= 256)%nat ->
       (m <= fuel)%nat ->
       exists tab' : table,
         copy_palette fuel (skipn (3 * k) pal0) k tab = Ok tab' /\ copied pal0 (k + m) tab'.
Proof. exact copy_palette_spec. Qed.

(* 8-bit grey / RGB with tRNS or ALPHA: the kernel's output row is the documented conversion, for every width and content *)
Theorem C08_rows_8bit_colour_key_or_alpha :
  forall (color : Z) (pal trns : option (list Z)) (t : Z) (w : nat) (row old : list Z),
       color = 0 \/ color = 2 ->
       s_expand t = true ->
       present trns || s_alpha t = true ->
       length row = (w * Z.to_nat (nsamples color))%nat ->
       length old = (w * S (Z.to_nat (nsamples color)))%nat ->
       transform_row {| t_color := color; t_depth := 8; t_palette := pal; t_trns := trns |} t row old =
       TROk (spec_convert color 8 pal trns t (Z.of_nat w) row).
Proof. exact trns8_correct. Qed.

(* 16-bit grey / RGB with tRNS or ALPHA, with and without STRIP_16 *)
Theorem C08_rows_16bit_colour_key_or_alpha :
  forall (color : Z) (pal trns : option (list Z)) (t : Z) (w : nat) (row old : list Z),
       color = 0 \/ color = 2 ->
       bytes_ok row ->
       s_expand t = true ->
       present trns || s_alpha t = true ->
       length row = (w * (Z.to_nat (nsamples color) * 2))%nat ->
       length old =
       (w * (if s_strip t then S (Z.to_nat (nsamples color)) else Z.to_nat (nsamples color) * 2 + 2))%nat ->
       transform_row {| t_color := color; t_depth := 16; t_palette := pal; t_trns := trns |} t row old =
       TROk (spec_convert color 16 pal trns t (Z.of_nat w) row).
Proof. exact trns16_correct. Qed.

(* STRIP_16 on 16-bit grey / grey-alpha / RGB / RGBA without added alpha *)
Theorem C08_rows_strip16 :
  forall (color : Z) (pal trns : option (list Z)) (t : Z) (w : nat) (row old : list Z),
       color = 0 \/ color = 2 \/ color = 4 \/ color = 6 ->
       bytes_ok row ->
       s_strip t = true ->
       s_expand t && (present trns || s_alpha t) && ((color =? 0) || (color =? 2)) = false ->
       length row = (w * Z.to_nat (nsamples color) * 2)%nat ->
       length old = (w * Z.to_nat (nsamples color))%nat ->
       transform_row {| t_color := color; t_depth := 16; t_palette := pal; t_trns := trns |} t row old =
       TROk (spec_convert color 16 pal trns t (Z.of_nat w) row).
Proof. exact strip16_correct. Qed.

(* whenever no documented change applies (any colour type, depth, flags) the row is returned unchanged *)
Theorem C08_rows_unchanged :
  forall (color depth : Z) (pal trns : option (list Z)) (t w : Z) (row old : list Z),
       (color =? 3) && s_expand t || ((color =? 0) || (color =? 4)) && (depth <? 8) && s_expand t
       || ((color =? 0) || (color =? 2)) && s_expand t && (present trns || s_alpha t)
       || (depth =? 16) && s_strip t = false ->
       length old = length row ->
       transform_row {| t_color := color; t_depth := depth; t_palette := pal; t_trns := trns |} t row old =
       TROk (spec_convert color depth pal trns t w row).
Proof. exact copy_correct. Qed.

(* grey images of depth 1, 2, 4 under EXPAND / ALPHA (with or without colour key): bit unpacking + scaling = documented replication, for every width and row *)
Theorem C08_rows_grey_subbyte :
  forall (d : Z) (pal trns : option (list Z)) (t : Z) (w : nat) (row old : list Z),
       d = 1 \/ d = 2 \/ d = 4 ->
       s_expand t = true ->
       trns <> Some [] ->
       w = 0%nat \/ (Z.to_nat ((Z.of_nat w - 1) * d / 8) < length row)%nat ->
       length old = (w * (if present trns || s_alpha t then 2 else 1))%nat ->
       transform_row {| t_color := 0; t_depth := d; t_palette := pal; t_trns := trns |} t row old =
       TROk (spec_convert 0 d pal trns t (Z.of_nat w) row).
Proof. exact gray_expand_correct. Qed.

(* indexed images of depth 1, 2, 4 under EXPAND / ALPHA: RGB / RGBA from the documented palette for every PLTE / tRNS payload *)
Theorem C08_rows_palette_subbyte :
  forall (d : Z) (pal : list Z) (trns : option (list Z)) (t : Z) (w : nat) (row old : list Z),
       d = 1 \/ d = 2 \/ d = 4 ->
       s_expand t = true ->
       w = 0%nat \/ (Z.to_nat ((Z.of_nat w - 1) * d / 8) < length row)%nat ->
       length old = (w * (if present trns || s_alpha t then 4 else 3))%nat ->
       transform_row {| t_color := 3; t_depth := d; t_palette := Some pal; t_trns := trns |} t row old =
       TROk (spec_convert 3 d (Some pal) trns t (Z.of_nat w) row).
Proof. exact palette_subbyte_correct. Qed.

(* indexed images of depth 8 (incl. the 4-bytes-at-a-time RGB writer) *)
Theorem C08_rows_palette_8bit :
  forall (pal : list Z) (trns : option (list Z)) (t : Z) (row old : list Z),
       bytes_ok row ->
       s_expand t = true ->
       length old = (length row * (if present trns || s_alpha t then 4 else 3))%nat ->
       transform_row {| t_color := 3; t_depth := 8; t_palette := Some pal; t_trns := trns |} t row old =
       TROk (spec_convert 3 8 (Some pal) trns t (zlen row) row).
Proof. exact palette8_correct. Qed.

(* ---- non-vacuity: 2-entry palette + incomplete third entry, 1-byte tRNS; 1-bit indexed row expanded with alpha *)
Example C08_nonvacuous :
  transform_row (mk_tinfo 3 1 (Some [10; 20; 30; 40; 50; 60; 70]) (Some [9])) 16 [160] (repeatz 0 12)
  = TROk [40; 50; 60; 255;  10; 20; 30; 9;  40; 50; 60; 255] /\
  spec_convert 3 1 (Some [10; 20; 30; 40; 50; 60; 70]) (Some [9]) 16 3 [160] = [40; 50; 60; 255;  10; 20; 30; 9;  40; 50; 60; 255].
Proof. vm_compute. split; reflexivity. Qed.
Print Assumptions C08_output_type_is_documented.
Print Assumptions C08_line_size_is_packed_size.
Print Assumptions C08_palette_table_is_documented_palette.
Print Assumptions C08_palette_copy_invariant.
Print Assumptions C08_rows_8bit_colour_key_or_alpha.
Print Assumptions C08_rows_16bit_colour_key_or_alpha.
Print Assumptions C08_rows_strip16.
Print Assumptions C08_rows_unchanged.
Print Assumptions C08_rows_grey_subbyte.
Print Assumptions C08_rows_palette_subbyte.
Print Assumptions C08_rows_palette_8bit.
