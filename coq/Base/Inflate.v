(* Reference zlib (RFC 1950) + DEFLATE (RFC 1951) decoder.

   This file is the *specification* of "valid deflate encoding" used by every
   theorem that mentions a decompressor; it is a fuelled, total, computable
   function with streaming-prefix semantics:

     zlib_inflate check_adler input = (output decodable from this prefix, status)

   - [ZDone n]    the zlib stream (2-byte header, deflate blocks up to and including
                  the final block, 4-byte big-endian Adler-32 trailer) ends after [n]
                  input bytes; bytes after that are ignored.  With
                  [check_adler = true] a wrong Adler-32 gives [ZError]; with [false]
                  the four trailer bytes must still be present (else [ZNeedMore])
                  but their value is ignored.
   - [ZNeedMore]  the sequential decoder ran out of input in the middle of a field.
                  The output holds every byte decoded so far: all bytes of completed
                  blocks, the literals/matches of the current compressed block whose
                  bits are completely present, and the bytes of a partially present
                  stored block.
   - [ZError]     definitely invalid; output = bytes decoded before the error.

   The decoder is strictly sequential: an error is reported when the decoder reaches
   the offending field and all bits of that field are present; consequently both
   output and [ZError] on a prefix persist on every extension of the prefix.

   Fuel: one unit per block header and per literal/length symbol.  Each unit
   consumes at least one input bit (3 for a block header, >= 1 for a symbol since no
   Huffman tree built here has a leaf at its root), so [8 * length input + 16]
   units always suffice; exhaustion is mapped to [ZError] and never happens.

   ------------------------------------------------------------------------------
   Accept/reject rules, and known or suspected differences from fdeflate 0.3.7
   (the decompressor used by the png crate), from zlib and from the RFC text
   ------------------------------------------------------------------------------
   Mirrored from fdeflate (same accept/reject on complete streams):
   * header: CM = 8, CINFO <= 7, FDICT = 0, (CMF*256+FLG) mod 31 = 0; judged only
     when both bytes are present.  FLEVEL is ignored.  CINFO (window size) is NOT
     enforced against distances by either decoder: any distance 1..32768 that does
     not reach before the start of the output is accepted.
   * block type 3 -> error.  Stored block: LEN/NLEN judged when all four bytes are
     present; NLEN must be the one's complement of LEN.
   * dynamic header: HLIT > 286 (i.e. 5-bit field 30,31) or HDIST > 30 (field
     30,31) -> error, judged after the 14 header bits are present.
   * code-length code (19 lengths): must be COMPLETE (Kraft sum exactly 1); in
     particular all-zero and a single 1-bit code are rejected.
   * code lengths: symbol 16 with no previous length -> error; any repeat running
     past HLIT+HDIST -> error (a repeat may cross from the literal/length lengths
     into the distance lengths); both judged after the extra bits are present.
   * literal/length code: length of symbol 256 must be non-zero, and the code must
     be COMPLETE.  (zlib additionally accepts an incomplete literal/length code
     consisting of one single 1-bit code; fdeflate and this reference reject it.)
   * distance code: all lengths zero is accepted (any use of a distance code is
     then an error); exactly one non-zero length equal to 1 is accepted (code 0
     decodes to that symbol, code 1 is an error); otherwise the code must be
     COMPLETE (one single code of length 2.. is rejected, as is any other
     incomplete or over-subscribed set).
   * distance symbols 30, 31 (only expressible in fixed-Huffman blocks) -> error.
   * distance > number of bytes output so far -> error.
   * bytes after the Adler-32 trailer are ignored (fdeflate stops consuming;
     its [ExtraInput] error is never raised).

   KNOWN DIFFERENCE (complete streams):
   D-a  literal/length symbols 286 and 287 in a FIXED-Huffman block (8-bit codes
        11000110, 11000111).  RFC 1951 says they "will never actually occur in the
        compressed data"; zlib rejects them ("invalid literal/length code") and so
        does this reference ([ZError]).  fdeflate 0.3.7 stores for them the table
        entry EXCEPTIONAL_ENTRY | 8 (tables.rs, LITLEN_TABLE_ENTRIES leaves indices
        286,287 at EXCEPTIONAL_ENTRY; FIXED_LITLEN_TABLE[99] = [227] = 0x4008), and
        both decode loops of decompress.rs treat an exceptional entry without the
        secondary-table flag and with non-zero code length as END OF BLOCK.  So
        fdeflate accepts such a stream and continues with the next block / the
        checksum, where the reference says [ZError].  (In dynamic blocks the two
        symbols cannot have a code because HLIT <= 286.)

   Differences on TRUNCATED input only (status/amount of output for a proper
   prefix; they vanish once the whole stream is present because at least 32
   trailer bits follow the last symbol):
   D-b  fdeflate looks ahead: it wants 10 bits before looking at a block type, 17
        bits for a dynamic header, all 3*HCLEN bits, 7 bits before decoding a
        code-length symbol, and it only emits a pair of literals packed in one
        table entry when the bits of both are present.  Hence on a proper prefix
        fdeflate may report "need more input" where the reference already reports
        [ZError], and may have produced fewer bytes than the reference's output
        (never more, never different ones).
   D-c  the reference delivers the available bytes of a partially present stored
        block (as fdeflate does).

   Not mirrored / not checked: miniz_oxide's and zlib's exact rules for incomplete
   codes other than the ones listed above; zlib's optional window-size (CINFO)
   enforcement. *)
From PngV Require Import Base.Bytes Base.Crc.

Inductive zstatus := ZNeedMore | ZDone (consumed : nat) | ZError.

(* ====================================================================== *)
(* Bit reader: LSB-first bits of a byte list.  [bs_cur] = bits of the     *)
(* current byte not yet consumed, [bs_rest] = bytes not yet touched.      *)
(* ====================================================================== *)

Record bits := mkbits { bs_cur : list bool; bs_rest : list Z }.

Definition byte_bits (x : Z) : list bool :=
  [Z.testbit x 0; Z.testbit x 1; Z.testbit x 2; Z.testbit x 3;
   Z.testbit x 4; Z.testbit x 5; Z.testbit x 6; Z.testbit x 7].

(* the whole remaining bit sequence denoted by a reader state *)
Definition bits_denote (s : bits) : list bool :=
  bs_cur s ++ flat_map byte_bits (bs_rest s).

Definition read_bit (s : bits) : option (bool * bits) :=
  match bs_cur s with
  | b :: c => Some (b, mkbits c (bs_rest s))
  | [] =>
    match bs_rest s with
    | [] => None
    | x :: r =>
      Some (Z.testbit x 0,
            mkbits [Z.testbit x 1; Z.testbit x 2; Z.testbit x 3; Z.testbit x 4;
                    Z.testbit x 5; Z.testbit x 6; Z.testbit x 7] r)
    end
  end.

(* n-bit unsigned integer, least significant bit first (RFC 1951 3.1.1) *)
Fixpoint read_bits (n : nat) (s : bits) : option (Z * bits) :=
  match n with
  | O => Some (0, s)
  | S n' =>
    match read_bit s with
    | None => None
    | Some (b, s1) =>
      match read_bits n' s1 with
      | None => None
      | Some (v, s2) => Some (Z.b2z b + 2 * v, s2)
      end
    end
  end.

(* [k] consecutive [w]-bit fields *)
Fixpoint read_many (k w : nat) (s : bits) : option (list Z * bits) :=
  match k with
  | O => Some ([], s)
  | S k' =>
    match read_bits w s with
    | None => None
    | Some (v, s1) =>
      match read_many k' w s1 with
      | None => None
      | Some (vs, s2) => Some (v :: vs, s2)
      end
    end
  end.

(* result of a decoding step: out of input / invalid / value and new state *)
Inductive rd (A : Type) : Type :=
| RMore
| RBad
| RGot (a : A) (s : bits).
Arguments RMore {A}.
Arguments RBad {A}.
Arguments RGot {A} a s.

(* ====================================================================== *)
(* Canonical Huffman codes (RFC 1951 3.2.2) as binary decoding trees      *)
(* ====================================================================== *)

Inductive htree := HEmpty | HLeaf (sym : Z) | HNode (zero one : htree).

(* insert a code given MSB first *)
Fixpoint hinsert (t : htree) (code : list bool) (sym : Z) : htree :=
  match code with
  | [] => HLeaf sym
  | b :: code' =>
    match t with
    | HNode l r =>
      if b then HNode l (hinsert r code' sym) else HNode (hinsert l code' sym) r
    | _ =>
      if b then HNode HEmpty (hinsert HEmpty code' sym)
      else HNode (hinsert HEmpty code' sym) HEmpty
    end
  end.

(* the [len] low bits of [code], most significant first *)
Fixpoint code_bits (len : nat) (code : Z) : list bool :=
  match len with
  | O => []
  | S n => Z.testbit code (Z.of_nat n) :: code_bits n code
  end.

Fixpoint index_from (i : Z) (lens : list Z) : list (Z * Z) :=
  match lens with
  | [] => []
  | l :: t => (i, l) :: index_from (i + 1) t
  end.

(* give consecutive codes, starting at [code], to the symbols of length [len],
   in increasing symbol order *)
Fixpoint assign_len (len : nat) (code : Z) (syms : list (Z * Z)) (t : htree) : Z * htree :=
  match syms with
  | [] => (code, t)
  | (sym, l) :: syms' =>
    if l =? Z.of_nat len
    then assign_len len (code + 1) syms' (hinsert t (code_bits len code) sym)
    else assign_len len code syms' t
  end.

(* lengths in increasing order; the first code of the next length is twice the
   code following the last one of this length: next_code[l+1] =
   (next_code[l] + bl_count[l]) << 1 *)
Fixpoint build_levels (levels : list nat) (code : Z) (syms : list (Z * Z)) (t : htree) : htree :=
  match levels with
  | [] => t
  | len :: levels' =>
    let (code', t') := assign_len len code syms t in
    build_levels levels' (2 * code') syms t'
  end.

(* [lens] = code length of symbol 0, 1, 2, ...; 0 = symbol unused; lengths <= 15 *)
Definition build_tree (lens : list Z) : htree :=
  build_levels (seq 1 15) 0 (index_from 0 lens) HEmpty.

(* Kraft sum scaled by 2^15 *)
Definition kraft (lens : list Z) : Z :=
  fold_left (fun acc l => if l =? 0 then acc else acc + 2 ^ (15 - l)) lens 0.

Definition complete_code (lens : list Z) : bool := kraft lens =? 32768.

Definition nonzero_lens (lens : list Z) : list Z := filter (fun l => negb (l =? 0)) lens.

(* admissible distance code-length sets, see the header comment *)
Definition dist_lens_ok (lens : list Z) : bool :=
  match nonzero_lens lens with
  | [] => true
  | [l] => l =? 1
  | _ => complete_code lens
  end.

(* walk the tree, one input bit per level *)
Fixpoint hdecode (t : htree) (s : bits) : rd Z :=
  match t with
  | HEmpty => RBad
  | HLeaf sym => RGot sym s
  | HNode l r =>
    match read_bit s with
    | None => RMore
    | Some (b, s') => if b then hdecode r s' else hdecode l s'
    end
  end.

(* ====================================================================== *)
(* Constant tables                                                        *)
(* ====================================================================== *)

Definition len_base : list Z :=
  [3;4;5;6;7;8;9;10;11;13;15;17;19;23;27;31;35;43;51;59;67;83;99;115;131;163;195;227;258].
Definition len_extra : list nat :=
  [0;0;0;0;0;0;0;0;1;1;1;1;2;2;2;2;3;3;3;3;4;4;4;4;5;5;5;5;0]%nat.
Definition dist_base : list Z :=
  [1;2;3;4;5;7;9;13;17;25;33;49;65;97;129;193;257;385;513;769;1025;1537;2049;3073;
   4097;6145;8193;12289;16385;24577].
Definition dist_extra : list nat :=
  [0;0;0;0;1;1;2;2;3;3;4;4;5;5;6;6;7;7;8;8;9;9;10;10;11;11;12;12;13;13]%nat.
Definition clcl_order : list nat :=
  [16;17;18;0;8;7;9;6;10;5;11;4;12;3;13;2;14;1;15]%nat.

Definition fixed_lit_lens : list Z :=
  repeatz 8 144 ++ repeatz 9 112 ++ repeatz 7 24 ++ repeatz 8 8.
Definition fixed_dist_lens : list Z := repeatz 5 32.
Definition fixed_lit_tree : htree := build_tree fixed_lit_lens.
Definition fixed_dist_tree : htree := build_tree fixed_dist_lens.

(* ====================================================================== *)
(* Dynamic block header (RFC 1951 3.2.7)                                  *)
(* ====================================================================== *)

Fixpoint assoc_nat (k : nat) (l : list (nat * Z)) : Z :=
  match l with
  | [] => 0
  | (k', v) :: t => if Nat.eqb k k' then v else assoc_nat k t
  end.

(* the 19 code-length-code lengths from the HCLEN values read in [clcl_order] *)
Definition cl_lens_of (vals : list Z) : list Z :=
  map (fun k => assoc_nat k (combine clcl_order vals)) (seq 0 19).

(* read [remaining] code lengths; [acc] = lengths read so far, most recent first.
   [fuel] >= [remaining] suffices since every step yields at least one length. *)
Fixpoint read_lens (fuel : nat) (cl : htree) (remaining : nat) (acc : list Z) (s : bits)
  : rd (list Z) :=
  match remaining with
  | O => RGot (rev_append acc []) s
  | S _ =>
    match fuel with
    | O => RBad
    | S fuel' =>
      match hdecode cl s with
      | RMore => RMore
      | RBad => RBad
      | RGot sym s1 =>
        if sym <? 16 then read_lens fuel' cl (remaining - 1) (sym :: acc) s1
        else if sym =? 16 then
          match read_bits 2 s1 with
          | None => RMore
          | Some (e, s2) =>
            match acc with
            | [] => RBad
            | prev :: _ =>
              let rep := Z.to_nat (3 + e) in
              if (remaining <? rep)%nat then RBad
              else read_lens fuel' cl (remaining - rep) (repeatz prev rep ++ acc) s2
            end
          end
        else if sym =? 17 then
          match read_bits 3 s1 with
          | None => RMore
          | Some (e, s2) =>
            let rep := Z.to_nat (3 + e) in
            if (remaining <? rep)%nat then RBad
            else read_lens fuel' cl (remaining - rep) (repeatz 0 rep ++ acc) s2
          end
        else if sym =? 18 then
          match read_bits 7 s1 with
          | None => RMore
          | Some (e, s2) =>
            let rep := Z.to_nat (11 + e) in
            if (remaining <? rep)%nat then RBad
            else read_lens fuel' cl (remaining - rep) (repeatz 0 rep ++ acc) s2
          end
        else RBad
      end
    end
  end.

Definition read_dyn_tables (s : bits) : rd (htree * htree) :=
  match read_bits 5 s with
  | None => RMore
  | Some (hl, s1) =>
  match read_bits 5 s1 with
  | None => RMore
  | Some (hdv, s2) =>
  match read_bits 4 s2 with
  | None => RMore
  | Some (hc, s3) =>
    let hlit := Z.to_nat (hl + 257) in
    let hdist := Z.to_nat (hdv + 1) in
    let hclen := Z.to_nat (hc + 4) in
    if (286 <? hlit)%nat || (30 <? hdist)%nat then RBad else
    match read_many hclen 3 s3 with
    | None => RMore
    | Some (vals, s4) =>
      let cll := cl_lens_of vals in
      if negb (complete_code cll) then RBad else
      match read_lens (hlit + hdist) (build_tree cll) (hlit + hdist) [] s4 with
      | RMore => RMore
      | RBad => RBad
      | RGot lens s5 =>
        let ll := firstn hlit lens in
        let dl := skipn hlit lens in
        if nth 256 ll 0 =? 0 then RBad
        else if negb (complete_code ll) then RBad
        else if negb (dist_lens_ok dl) then RBad
        else RGot (build_tree ll, build_tree dl) s5
      end
    end
  end end end.

(* ====================================================================== *)
(* Output window: the output is kept REVERSED (most recent byte first).   *)
(* ====================================================================== *)

(* drop p elements, by binary recursion on p (no unary numbers involved) *)
Fixpoint skip_pos (p : positive) (l : list Z) : list Z :=
  match p with
  | xH => tl l
  | xO p' => skip_pos p' (skip_pos p' l)
  | xI p' => tl (skip_pos p' (skip_pos p' l))
  end.

Definition skipN (n : N) (l : list Z) : list Z :=
  match n with
  | N0 => l
  | Npos p => skip_pos p l
  end.

(* byte-by-byte copy: the byte at distance k+1 is appended, n times; overlapping
   copies (k+1 < n) therefore repeat the last k+1 bytes periodically *)
Fixpoint copy_bytewise (n : nat) (k : N) (out : list Z) : list Z :=
  match n with
  | O => out
  | S n' => copy_bytewise n' k (hd 0 (skipN k out) :: out)
  end.

(* copy [len] bytes from distance [d] (1 <= d, 1 <= len <= 258); [None] if the
   distance reaches before the start of the output.  For len <= d the source does
   not overlap the destination and the bytes are taken in one go. *)
Definition copy_match (len d : Z) (out : list Z) : option (list Z) :=
  match skipN (Z.to_N (d - 1)) out with
  | [] => None
  | _ :: _ =>
    if len <=? d
    then Some (firstn (Z.to_nat len) (skipN (Z.to_N (d - len)) out) ++ out)
    else Some (copy_bytewise (Z.to_nat len) (Z.to_N (d - 1)) out)
  end.

(* ====================================================================== *)
(* Block loop                                                             *)
(* ====================================================================== *)

(* up to [n] bytes of a stored block: (bytes left, new output, all n present?) *)
Fixpoint take_stored (n : Z) (bytes out : list Z) {struct bytes} : list Z * list Z * bool :=
  if n <=? 0 then (bytes, out, true)
  else
    match bytes with
    | [] => ([], out, false)
    | x :: bytes' => take_stored (n - 1) bytes' (x :: out)
    end.

Inductive imode :=
| MHeader                                     (* at a block header *)
| MData (final : bool) (lit dist : htree).    (* inside a compressed block *)

(* end of the deflate stream reached / not *)
Inductive ifin := FNeed | FErr | FEnd (s : bits).

(* one step of the block loop: either it goes on in a new mode / position / output, or the run is over *)
Inductive istepres :=
| SGo (m : imode) (s : bits) (out : list Z)
| SStop (out : list Z) (r : ifin).

Definition istep (m : imode) (s : bits) (out : list Z) : istepres :=
  match m with
  | MHeader =>
    match read_bits 3 s with
    | None => SStop out FNeed
    | Some (h, s1) =>
      let final := Z.odd h in
      let ty := h / 2 in
      if ty =? 0 then
        (* stored: skip to the byte boundary, LEN, NLEN, LEN bytes *)
        match bs_rest s1 with
        | b0 :: b1 :: b2 :: b3 :: bytes =>
          let len := b0 + 256 * b1 in
          let nlen := b2 + 256 * b3 in
          if len + nlen =? 65535 then
            match take_stored len bytes out with
            | (bytes', out', true) =>
              if final then SStop out' (FEnd (mkbits [] bytes'))
              else SGo MHeader (mkbits [] bytes') out'
            | (_, out', false) => SStop out' FNeed
            end
          else SStop out FErr
        | _ => SStop out FNeed
        end
      else if ty =? 1 then SGo (MData final fixed_lit_tree fixed_dist_tree) s1 out
      else if ty =? 2 then
        match read_dyn_tables s1 with
        | RMore => SStop out FNeed
        | RBad => SStop out FErr
        | RGot (lit, dist) s2 => SGo (MData final lit dist) s2 out
        end
      else SStop out FErr
    end
  | MData final lit dist =>
    match hdecode lit s with
    | RMore => SStop out FNeed
    | RBad => SStop out FErr
    | RGot sym s1 =>
      if sym <? 256 then SGo m s1 (sym :: out)
      else if sym =? 256 then
        if final then SStop out (FEnd s1) else SGo MHeader s1 out
      else if sym <? 286 then
        let i := Z.to_nat (sym - 257) in
        match read_bits (nth i len_extra 0%nat) s1 with
        | None => SStop out FNeed
        | Some (e, s2) =>
          let len := nth i len_base 0 + e in
          match hdecode dist s2 with
          | RMore => SStop out FNeed
          | RBad => SStop out FErr
          | RGot dsym s3 =>
            if dsym <? 30 then
              let j := Z.to_nat dsym in
              match read_bits (nth j dist_extra 0%nat) s3 with
              | None => SStop out FNeed
              | Some (e2, s4) =>
                let d := nth j dist_base 0 + e2 in
                match copy_match len d out with
                | None => SStop out FErr
                | Some out' => SGo m s4 out'
                end
              end
            else SStop out FErr
          end
        end
      else SStop out FErr
    end
  end.

(* the block loop.  The fuel is proportional to the length of the input (every step of a well-formed stream consumes at least one bit); should
   it run out all the same, the run is undecided (more input brings more fuel) - it is not an error of the stream *)
Fixpoint inflate_run (fuel : nat) (m : imode) (s : bits) (out : list Z) : list Z * ifin :=
  match fuel with
  | O => (out, FNeed)
  | S f =>
    match istep m s out with
    | SGo m' s' out' => inflate_run f m' s' out'
    | SStop out' r => (out', r)
    end
  end.

(* ====================================================================== *)
(* zlib wrapper (RFC 1950)                                                *)
(* ====================================================================== *)

(* 8 * length l + acc, tail recursively *)
Fixpoint fuel_of (l : list Z) (acc : nat) : nat :=
  match l with
  | [] => acc
  | _ :: t => fuel_of t (S (S (S (S (S (S (S (S acc))))))))
  end.

(* tail-recursive length *)
Definition tlength (l : list Z) : nat := fold_left (fun n _ => S n) l O.

Definition zlib_header_ok (cmf flg : Z) : bool :=
  (cmf mod 16 =? 8) && (cmf / 16 <=? 7) && negb (Z.testbit flg 5)
  && ((cmf * 256 + flg) mod 31 =? 0).

Definition zlib_inflate (check_adler : bool) (input : list Z) : list Z * zstatus :=
  match input with
  | cmf :: flg :: body =>
    if zlib_header_ok cmf flg then
      match inflate_run (fuel_of body 16%nat) MHeader (mkbits [] body) [] with
      | (out, FNeed) => (rev_append out [], ZNeedMore)
      | (out, FErr) => (rev_append out [], ZError)
      | (out, FEnd s) =>
        let o := rev_append out [] in
        (* skip to the byte boundary, then 4 bytes big endian *)
        match bs_rest s with
        | a0 :: a1 :: a2 :: a3 :: tail =>
          if (if check_adler then adler32 o =? be32 a0 a1 a2 a3 else true)
          then (o, ZDone (tlength input - tlength tail))
          else (o, ZError)
        | _ => (o, ZNeedMore)
        end
      end
    else ([], ZError)
  | _ => ([], ZNeedMore)
  end.

Definition inflate_all (input : list Z) : option (list Z) :=
  match zlib_inflate false input with
  | (o, ZDone _) => Some o
  | _ => None
  end.

Lemma inflate_all_spec i o :
  inflate_all i = Some o <-> exists n, zlib_inflate false i = (o, ZDone n).
Proof.
  unfold inflate_all. destruct (zlib_inflate false i) as [o' st]. split.
  - destruct st; intro H; try discriminate. inversion H; subst. eexists; reflexivity.
  - intros [n H]. inversion H; subst. reflexivity.
Qed.

(* ====================================================================== *)
(* Small structural facts                                                 *)
(* ====================================================================== *)

Lemma tlength_length l : tlength l = length l.
Proof.
  unfold tlength. rewrite fold_left_length. reflexivity.
Qed.

Lemma fuel_of_spec l acc : fuel_of l acc = (8 * length l + acc)%nat.
Proof.
  revert acc; induction l as [|x l IH]; intros acc; simpl fuel_of; [simpl; lia|].
  rewrite IH. simpl length. lia.
Qed.

Lemma skipn_plus (a b : nat) (l : list Z) : skipn a (skipn b l) = skipn (b + a) l.
Proof.
  revert l; induction b as [|b IH]; intros l; simpl; [reflexivity|].
  destruct l; [destruct a; reflexivity | apply IH].
Qed.

Lemma skip_pos_skipn p l : skip_pos p l = skipn (Pos.to_nat p) l.
Proof.
  revert l; induction p as [p IH|p IH|]; intros l; simpl skip_pos.
  - rewrite !IH, skipn_plus. rewrite Pos2Nat.inj_xI.
    replace (S (2 * Pos.to_nat p)) with (S (Pos.to_nat p + Pos.to_nat p)) by lia.
    generalize (Pos.to_nat p + Pos.to_nat p)%nat as k. clear.
    intro k; revert l; induction k as [|k IH]; intros l.
    + destruct l; reflexivity.
    + destruct l; [reflexivity|]. simpl skipn at 1. rewrite IH. reflexivity.
  - rewrite !IH, skipn_plus. rewrite Pos2Nat.inj_xO. f_equal. lia.
  - destruct l; reflexivity.
Qed.

Lemma skipN_skipn n l : skipN n l = skipn (N.to_nat n) l.
Proof. destruct n; simpl; [reflexivity | apply skip_pos_skipn]. Qed.
