(* CRC-32/ISO-HDLC (the PNG / zlib / crc32fast checksum) and Adler-32 (RFC 1950),
   as total computable functions on lists of bytes (bytes are Z in [0,256)).

   CRC-32: reflected polynomial 0xEDB88320, initial register 0xFFFFFFFF, final xor
   0xFFFFFFFF.  The byte update is table driven; the 256-entry table is a closed
   term computed once with [Eval vm_compute] from the bitwise definition
   ([crc_table_spec]). *)
From PngV Require Import Base.Bytes.

Definition crc_poly : Z := 3988292384.   (* 0xEDB88320 *)
Definition crc_init : Z := 4294967295.   (* 0xFFFFFFFF *)

(* one bit step of the reflected CRC register *)
Definition crc_bit_step (c : Z) : Z :=
  if Z.odd c then Z.lxor (Z.shiftr c 1) crc_poly else Z.shiftr c 1.

Definition crc_byte_steps (c : Z) : Z :=
  crc_bit_step (crc_bit_step (crc_bit_step (crc_bit_step
  (crc_bit_step (crc_bit_step (crc_bit_step (crc_bit_step c))))))).

(* bitwise reference byte update *)
Definition crc_update_byte_bitwise (c b : Z) : Z := crc_byte_steps (Z.lxor c b).

Definition crc_table : list Z :=
  Eval vm_compute in map (fun i => crc_byte_steps (Z.of_nat i)) (seq 0 256).

Definition crc_update_byte (c b : Z) : Z :=
  Z.lxor (nth (Z.to_nat (Z.land (Z.lxor c b) 255)) crc_table 0) (Z.shiftr c 8).

Definition crc_update (c : Z) (l : list Z) : Z := fold_left crc_update_byte l c.
Definition crc_finish (c : Z) : Z := Z.lxor c 4294967295.
Definition crc32 (l : list Z) : Z := crc_finish (crc_update crc_init l).

Lemma crc_update_app c a b : crc_update c (a ++ b) = crc_update (crc_update c a) b.
Proof. unfold crc_update. apply fold_left_app. Qed.

Lemma crc_update_nil c : crc_update c [] = c.
Proof. reflexivity. Qed.

Lemma crc_update_cons c x l : crc_update c (x :: l) = crc_update (crc_update_byte c x) l.
Proof. reflexivity. Qed.

Lemma crc_table_length : length crc_table = 256%nat.
Proof. reflexivity. Qed.

(* the table really is the bitwise definition *)
Lemma crc_table_spec :
  crc_table = map (fun i => crc_byte_steps (Z.of_nat i)) (seq 0 256).
Proof. vm_compute. reflexivity. Qed.

(* ---------- Adler-32 ---------- *)

Definition adler_mod : Z := 65521.

Definition adler_step (st : Z * Z) (x : Z) : Z * Z :=
  let a := (fst st + x) mod adler_mod in
  let b := (snd st + a) mod adler_mod in
  (a, b).

(* running state (a, b); initial state (1, 0) *)
Definition adler_update (st : Z * Z) (l : list Z) : Z * Z := fold_left adler_step l st.
Definition adler_init : Z * Z := (1, 0).
Definition adler_finish (st : Z * Z) : Z := fst st + snd st * 65536.
Definition adler32 (l : list Z) : Z := adler_finish (adler_update adler_init l).

Lemma adler_update_app st a b :
  adler_update st (a ++ b) = adler_update (adler_update st a) b.
Proof. unfold adler_update. apply fold_left_app. Qed.

(* ---------- tests ---------- *)

Example crc32_IEND : crc32 [73;69;78;68] = 2923585666.
Proof. vm_compute. reflexivity. Qed.

Example crc32_nil : crc32 [] = 0.
Proof. vm_compute. reflexivity. Qed.

(* "123456789" -> 0xCBF43926, the standard check value of CRC-32/ISO-HDLC *)
Example crc32_check : crc32 [49;50;51;52;53;54;55;56;57] = 3421780262.
Proof. vm_compute. reflexivity. Qed.

(* "IHDR" + 13 bytes of a 1x1 8-bit grey header: 0x3A7E9B55 *)
Example crc32_IHDR :
  crc32 [73;72;68;82; 0;0;0;1; 0;0;0;1; 8;0;0;0;0] = 981375829.
Proof. vm_compute. reflexivity. Qed.

(* table-driven update = bitwise update, on the running example *)
Example crc_table_vs_bitwise :
  fold_left crc_update_byte_bitwise [73;69;78;68] crc_init
  = crc_update crc_init [73;69;78;68].
Proof. vm_compute. reflexivity. Qed.

Example adler32_wikipedia : adler32 [87;105;107;105;112;101;100;105;97] = 300286872.
Proof. vm_compute. reflexivity. Qed.

Example adler32_nil : adler32 [] = 1.
Proof. vm_compute. reflexivity. Qed.

Example adler32_hello : adler32 [104;101;108;108;111] = 103547413.  (* 0x062C0215 *)
Proof. vm_compute. reflexivity. Qed.
