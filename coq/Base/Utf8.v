(* UTF-8 well-formedness (Unicode Table 3-7), the acceptance condition of Rust's core::str::from_utf8. *)
From PngV Require Import Base.Bytes.

Definition inr (lo hi x : Z) : bool := (lo <=? x) && (x <=? hi).

Fixpoint utf8_valid (l : list Z) : bool :=
  match l with
  | [] => true
  | a :: r =>
    if inr 0 127 a then utf8_valid r
    else match r with
         | b :: r1 =>
           if inr 194 223 a then inr 128 191 b && utf8_valid r1
           else match r1 with
                | c :: r2 =>
                  if a =? 224 then inr 160 191 b && inr 128 191 c && utf8_valid r2
                  else if inr 225 236 a || inr 238 239 a then inr 128 191 b && inr 128 191 c && utf8_valid r2
                  else if a =? 237 then inr 128 159 b && inr 128 191 c && utf8_valid r2
                  else match r2 with
                       | d :: r3 =>
                         if a =? 240 then inr 144 191 b && inr 128 191 c && inr 128 191 d && utf8_valid r3
                         else if inr 241 243 a then inr 128 191 b && inr 128 191 c && inr 128 191 d && utf8_valid r3
                         else if a =? 244 then inr 128 143 b && inr 128 191 c && inr 128 191 d && utf8_valid r3
                         else false
                       | [] => false
                       end
                | [] => false
                end
         | [] => false
         end
  end.

Example utf8_ok : utf8_valid [104; 195; 169; 226; 130; 172; 240; 159; 152; 128] = true.
Proof. reflexivity. Qed.
Example utf8_surrogate : utf8_valid [237; 160; 128] = false.
Proof. reflexivity. Qed.
Example utf8_overlong : utf8_valid [192; 128] = false.
Proof. reflexivity. Qed.
