(* Base definitions shared by every model: bytes are Z in [0,256), lists of bytes,
   big-endian words, outcome type with an explicit Panic constructor. No proofs of
   properties here; only small structural lemmas used everywhere. *)
From Coq Require Export List ZArith Lia Bool.
From Coq Require Import ZifyBool.
Export ListNotations.
Open Scope Z_scope.
Open Scope bool_scope.

Definition byte_ok (b : Z) : Prop := 0 <= b < 256.
Definition byteb (b : Z) : bool := (0 <=? b) && (b <? 256).
Definition bytes_ok (l : list Z) : Prop := Forall byte_ok l.
Definition bytesb (l : list Z) : bool := forallb byteb l.

Definition wrap8 (x : Z) : Z := x mod 256.

(* outcome of a modelled operation: every assert/unwrap/index/overflow site of the
   modelled Rust code is an explicit [Panic] *)
Inductive outcome (A E : Type) : Type :=
| Ok (a : A)
| Err (e : E)
| Panic (site : nat).
Arguments Ok {A E} a.
Arguments Err {A E} e.
Arguments Panic {A E} site.

Definition obind {A B E} (x : outcome A E) (f : A -> outcome B E) : outcome B E :=
  match x with Ok a => f a | Err e => Err e | Panic s => Panic s end.

Definition is_panic {A E} (x : outcome A E) : bool :=
  match x with Panic _ => true | _ => false end.

(* big-endian helpers *)
Definition be32 (b0 b1 b2 b3 : Z) : Z := ((b0 * 256 + b1) * 256 + b2) * 256 + b3.
Definition be16 (b0 b1 : Z) : Z := b0 * 256 + b1.
Definition to_be32 (v : Z) : list Z :=
  [ (v / 16777216) mod 256; (v / 65536) mod 256; (v / 256) mod 256; v mod 256 ].
Definition to_be16 (v : Z) : list Z := [ (v / 256) mod 256; v mod 256 ].

Definition zlen {A} (l : list A) : Z := Z.of_nat (length l).

Fixpoint repeatz {A} (x : A) (n : nat) : list A :=
  match n with O => [] | S n' => x :: repeatz x n' end.

Lemma repeatz_length {A} (x : A) n : length (repeatz x n) = n.
Proof. induction n; simpl; congruence. Qed.

Fixpoint map2 {A B C} (f : A -> B -> C) (l1 : list A) (l2 : list B) : list C :=
  match l1, l2 with
  | a :: l1', b :: l2' => f a b :: map2 f l1' l2'
  | _, _ => []
  end.

Lemma map2_length {A B C} (f : A -> B -> C) l1 l2 :
  length (map2 f l1 l2) = Nat.min (length l1) (length l2).
Proof. revert l2; induction l1 as [|a l1 IH]; intros [|b l2]; simpl; auto. Qed.

Fixpoint list_eqb (l1 l2 : list Z) : bool :=
  match l1, l2 with
  | [], [] => true
  | a :: l1', b :: l2' => (a =? b) && list_eqb l1' l2'
  | _, _ => false
  end.

Lemma list_eqb_eq l1 l2 : list_eqb l1 l2 = true <-> l1 = l2.
Proof.
  revert l2; induction l1 as [|a l1 IH]; intros [|b l2]; simpl; split; intro H;
    try reflexivity; try discriminate.
  - apply andb_true_iff in H as [H1 H2]. apply Z.eqb_eq in H1. apply IH in H2. congruence.
  - inversion H; subst. rewrite Z.eqb_refl. simpl. apply IH. reflexivity.
Qed.

Lemma to_be32_be32 b0 b1 b2 b3 :
  byte_ok b0 -> byte_ok b1 -> byte_ok b2 -> byte_ok b3 ->
  to_be32 (be32 b0 b1 b2 b3) = [b0; b1; b2; b3].
Proof.
  unfold byte_ok, to_be32, be32. intros.
  repeat f_equal; Z.div_mod_to_equations; lia.
Qed.

Lemma be32_range b0 b1 b2 b3 :
  byte_ok b0 -> byte_ok b1 -> byte_ok b2 -> byte_ok b3 -> 0 <= be32 b0 b1 b2 b3 < 4294967296.
Proof. unfold byte_ok, be32. lia. Qed.
