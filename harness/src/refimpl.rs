//! Independent reference implementations of the PNG specification, written from the specification text
//! (not from the crate).  Used for the direct "implementation satisfies the property" search.

pub fn paeth_ref(a: u8, b: u8, c: u8) -> u8 {
    let (a, b, c) = (a as i32, b as i32, c as i32);
    let p = a + b - c;
    let pa = (p - a).abs();
    let pb = (p - b).abs();
    let pc = (p - c).abs();
    if pa <= pb && pa <= pc {
        a as u8
    } else if pb <= pc {
        b as u8
    } else {
        c as u8
    }
}

fn predictor(ft: u8, a: u8, b: u8, c: u8) -> u8 {
    match ft {
        0 => 0,
        1 => a,
        2 => b,
        3 => ((a as u16 + b as u16) / 2) as u8,
        _ => paeth_ref(a, b, c),
    }
}

/// Reconstruction of one scanline per the specification; `prior` empty = first row (zeros).
pub fn recon_ref(ft: u8, bpp: usize, prior: &[u8], filt: &[u8]) -> Vec<u8> {
    let mut out = vec![0u8; filt.len()];
    for i in 0..filt.len() {
        let a = if i >= bpp { out[i - bpp] } else { 0 };
        let b = if i < prior.len() { prior[i] } else { 0 };
        let c = if i >= bpp && i - bpp < prior.len() { prior[i - bpp] } else { 0 };
        out[i] = filt[i].wrapping_add(predictor(ft, a, b, c));
    }
    out
}

pub fn filt_ref(ft: u8, bpp: usize, prior: &[u8], raw: &[u8]) -> Vec<u8> {
    let mut out = vec![0u8; raw.len()];
    for i in 0..raw.len() {
        let a = if i >= bpp { raw[i - bpp] } else { 0 };
        let b = if i < prior.len() { prior[i] } else { 0 };
        let c = if i >= bpp && i - bpp < prior.len() { prior[i - bpp] } else { 0 };
        out[i] = raw[i].wrapping_sub(predictor(ft, a, b, c));
    }
    out
}

/// Adam7 per the specification: pass p (1..=7) contains pixel (x,y) iff x ≡ xs (mod dx), y ≡ ys (mod dy).
pub const ADAM7: [(u32, u32, u32, u32); 7] = [
    (0, 0, 8, 8),
    (4, 0, 8, 8),
    (0, 4, 4, 8),
    (2, 0, 4, 4),
    (0, 2, 2, 4),
    (1, 0, 2, 2),
    (0, 1, 1, 2),
];

pub fn adam7_pass_size(w: u64, h: u64, pass: usize) -> (u64, u64) {
    let (xs, ys, dx, dy) = ADAM7[pass - 1];
    let (xs, ys, dx, dy) = (xs as u64, ys as u64, dx as u64, dy as u64);
    let pw = if w > xs { (w - xs + dx - 1) / dx } else { 0 };
    let ph = if h > ys { (h - ys + dy - 1) / dy } else { 0 };
    (pw, ph)
}

/// rows (pass, line, width) in stream order, empty passes skipped
pub fn adam7_rows_ref(w: u32, h: u32) -> Vec<(u8, u32, u32)> {
    let mut v = vec![];
    for p in 1..=7usize {
        let (pw, ph) = adam7_pass_size(w as u64, h as u64, p);
        if pw == 0 || ph == 0 {
            continue;
        }
        for l in 0..ph {
            v.push((p as u8, l as u32, pw as u32));
        }
    }
    v
}

pub fn samples(color: u8) -> usize {
    match color {
        0 | 3 => 1,
        2 => 3,
        4 => 2,
        _ => 4,
    }
}

/// bytes in a row of `w` pixels (without the filter byte)
pub fn row_bytes(color: u8, depth: u8, w: u64) -> u64 {
    (w * samples(color) as u64 * depth as u64 + 7) / 8
}

pub fn bpp_filter(color: u8, depth: u8) -> usize {
    std::cmp::max(1, samples(color) * depth as usize / 8)
}

pub const COLOR_DEPTHS: [(u8, u8); 15] = [
    (0, 1), (0, 2), (0, 4), (0, 8), (0, 16),
    (2, 8), (2, 16),
    (3, 1), (3, 2), (3, 4), (3, 8),
    (4, 8), (4, 16),
    (6, 8), (6, 16),
];
