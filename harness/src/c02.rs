//! C02: no input and no call sequence makes the decoder panic.  catch_unwind search over byte strings (valid, mutated,
//! corpus with and without repaired CRCs) x transformation flags x limits x options x operation sequences x inputs
//! that temporarily end between calls.  (The abort/hang part is covered by the orchestrator's watchdog marker.)
use crate::gen::*;
use crate::ops::*;
use crate::pngbuild::*;
use crate::streamrun::*;
use crate::util::*;

fn viol(kind: &str, class: &str, detail: Vec<(&str, String)>) -> String {
    let mut kv = vec![("kind", jstr(kind)), ("class", jstr(class))];
    kv.extend(detail);
    jobj(&kv)
}

/// class of a panic = its source location / message head (so that a listed finding cannot hide a different panic)
fn panic_class(m: &str) -> String {
    let head: String = m.chars().take(70).collect();
    format!("panic: {}", head.split(|c: char| c.is_ascii_digit()).next().unwrap_or("").trim())
}

fn repair_crcs(bytes: &[u8]) -> Option<Vec<u8>> {
    let mut c = parse(bytes)?;
    for ch in c.iter_mut() {
        ch.crc = None;
    }
    Some(assemble(&c))
}

pub fn one(o: &mut Out, name: &str, bytes: &[u8], ops: &[Op], opts: Opts, tbits: u32, limit: Option<usize>, visible0: usize, sched: &[usize]) {
    o.mark(&format!("ops {} t={} opts={} limit={:?} vis={} sched={:?} {} {}", ops_string(ops), tbits, opts.bits(), limit, visible0, sched, name, if bytes.len() < 20000 { hex(bytes) } else { format!("(len {})", bytes.len()) }));
    let tr = run_ops(bytes, sched, visible0, opts, tbits, limit, ops, 0x5A);
    o.direct_checks += 1;
    if let Some(m) = &tr.panicked {
        o.violation(viol("panic", &panic_class(m), vec![("file", jstr(name)), ("ops", jstr(&ops_string(ops))), ("transform", tbits.to_string()), ("opts", opts.bits().to_string()),
            ("limit", jstr(&format!("{:?}", limit))), ("visible_at_start", visible0.to_string()), ("schedule", jstr(&format!("{:?}", sched))), ("panic", jstr(m)),
            ("bytes", jstr(&if bytes.len() < 20000 { hex(bytes) } else { format!("(len {})", bytes.len()) })), ("results", jstr(&tr.results.join(" | ")))]));
    }
}

pub fn run(a: &Args) {
    let mut o = Out::new(&a.out);
    let mut rng = Rng::new(a.seed);
    let thorough = a.tier == "thorough";
    let mut files: Vec<(String, Vec<u8>)> = vec![];
    let g = GenOpts { maxw: 9, maxh: 6, anc: true, animated: None };
    for _ in 0..(if thorough { 1500 } else { 140 }) {
        let b = valid_file(&mut rng, &g);
        files.push((b.name.clone(), b.bytes.clone()));
        for _ in 0..4 {
            let (l, m) = if rng.chance(3, 5) { mutate_structural(&b.bytes, &mut rng) } else { mutate_bytes(&b.bytes, &mut rng) };
            files.push((format!("{}~{}", b.name, l), m));
            if rng.chance(1, 3) {
                let (l2, m2) = mutate_structural(&files.last().unwrap().1.clone(), &mut rng);
                files.push((format!("{}~{}~{}", b.name, l, l2), m2));
            }
        }
    }
    // malformed palettes / tRNS, header extremes
    for n in [0usize, 1, 2, 4, 5, 767, 768, 769, 771, 1000] {
        let mut chunks = vec![ihdr(3, 2, 8, 3, 0), Chunk::new(b"PLTE", vec![7u8; n])];
        if n % 2 == 0 {
            chunks.push(Chunk::new(b"tRNS", vec![9u8; (n / 2).min(300)]));
        }
        chunks.push(Chunk::new(b"IDAT", zlib_stored(&[0, 0, 1, 255, 0, 2, 3, 250], 8)));
        chunks.push(Chunk::new(b"IEND", vec![]));
        files.push((format!("plte{}", n), assemble(&chunks)));
    }
    for (w, h, d, c) in [(0x7fff_ffffu32, 0x5000_0000u32, 16u8, 2u8), (0xffff_ffff, 0xffff_ffff, 16, 6), (0xffff_fff9, 1, 1, 0), (1, 0xffff_fff9, 8, 0), (0x2000_0000, 8, 16, 6), (0x4000_0001, 0x4000_0001, 8, 4)] {
        for il in [0u8, 1] {
            let mut chunks = vec![ihdr(w, h, d, c, il)];
            if c == 2 {
                chunks.push(Chunk::new(b"tRNS", vec![0, 1, 0, 2, 0, 3]));
            }
            chunks.push(Chunk::new(b"IDAT", zlib_stored(&[0, 1, 2, 3], 4)));
            chunks.push(Chunk::new(b"IEND", vec![]));
            files.push((format!("huge-{}x{}-c{}d{}i{}", w, h, c, d, il), assemble(&chunks)));
        }
    }
    // acTL declaring 0 frames / fewer / more frames than present
    for nf in [0u32, 1, 5, 0xffff_ffff] {
        let z = zlib_stored(&[0, 1, 0, 2], 4);
        let chunks = vec![ihdr(1, 2, 8, 0, 0), actl_chunk(nf, 0), fctl_chunk(0, 1, 2, 0, 0, 1, 1, 0, 0), Chunk::new(b"IDAT", z.clone()), fctl_chunk(1, 1, 1, 0, 1, 1, 1, 0, 0), fdat_chunk(2, &zlib_stored(&[0, 9], 2)),
            Chunk::new(b"tEXt", b"k\0v".to_vec()), Chunk::new(b"IEND", vec![])];
        files.push((format!("actl{}", nf), assemble(&chunks)));
    }
    // animations WITHOUT an IDAT: every frame is fdAT-only; metadata chunks that change the output format arrive between frames
    for (c, d) in [(0u8, 8u8), (0, 16), (2, 8), (3, 8), (0, 2)] {
        for late in [b"tRNS", b"PLTE", b"sBIT", b"gAMA"] {
            let bits = match c { 2 => 3, _ => 1 } * d as usize;
            let row = (2 * bits + 7) / 8;
            let raw: Vec<u8> = (0..2 * (1 + row)).map(|i| if i % (1 + row) == 0 { 0 } else { i as u8 }).collect();
            let z = zlib_stored(&raw, raw.len());
            let payload: Vec<u8> = match &late[..] { b"tRNS" => if c == 2 { vec![0, 1, 0, 2, 0, 3] } else { vec![0, 1] }, b"PLTE" => vec![1, 2, 3, 4, 5, 6], b"sBIT" => vec![1; if c == 2 { 3 } else { 1 }], _ => vec![0, 1, 134, 160] };
            let mut chunks = vec![ihdr(2, 2, d, c, 0), actl_chunk(2, 0)];
            if c == 3 { chunks.push(Chunk::new(b"PLTE", vec![9, 8, 7, 6, 5, 4])); }
            chunks.push(fctl_chunk(0, 2, 2, 0, 0, 1, 1, 0, 0));
            chunks.push(fdat_chunk(1, &z));
            chunks.push(Chunk::new(late, payload));
            chunks.push(fctl_chunk(2, 2, 2, 0, 0, 1, 1, 0, 0));
            chunks.push(fdat_chunk(3, &z));
            chunks.push(Chunk::new(b"IEND", vec![]));
            files.push((format!("no-idat-c{}d{}-late-{}", c, d, String::from_utf8_lossy(&late[..])), assemble(&chunks)));
        }
    }
    // frame rectangles whose offset + size wraps around u32 (must be refused; canvas-sized buffers otherwise get indexed out of bounds)
    for (fw, fh, fx, fy) in [(3u32, 2u32, 0xffff_fffeu32, 0u32), (2, 3, 0, 0xffff_fffe), (0xffff_ffff, 1, 2, 0), (4, 4, 0xffff_fffd, 0xffff_fffd), (2, 2, 0x8000_0000, 0x8000_0000)] {
        for il in [0u8, 1] {
            let z0 = zlib_stored(&if il == 0 { vec![0u8; 3 * 4] } else { vec![0u8; crate::refimpl::adam7_rows_ref(3, 3).iter().map(|(_, _, lw)| 1 + *lw as usize).sum()] }, 64);
            let n1 = if il == 0 { fh as usize * (1 + fw as usize) } else { 64 };
            let z1 = zlib_stored(&vec![0u8; n1.min(4096)], 4096);
            let chunks = vec![ihdr(3, 3, 8, 0, il), actl_chunk(2, 0), fctl_chunk(0, 3, 3, 0, 0, 1, 1, 0, 0), Chunk::new(b"IDAT", z0),
                fctl_chunk(1, fw, fh, fx, fy, 1, 1, 0, 0), fdat_chunk(2, &z1), Chunk::new(b"IEND", vec![])];
            files.push((format!("fctl-wrap-{}x{}+{}+{}-i{}", fw, fh, fx, fy, il), assemble(&chunks)));
        }
    }
    let corpus = corpus_files(if thorough { 100000 } else { 4000 }, if thorough { 600 } else { 60 }, &mut rng);
    for (n, b) in corpus {
        if let Some(r) = repair_crcs(&b) {
            files.push((format!("{}+crc", n), r));
        }
        let (l, m) = mutate_bytes(&b, &mut rng);
        files.push((format!("{}~{}", n, l), m));
        files.push((n, b));
    }
    // the upstream fuzz corpus, with and without repaired CRCs
    {
        let repo = std::env::var("VERIF_REPO").unwrap_or_else(|_| "/repo".to_string());
        let mut fz = vec![];
        if let Ok(rd) = std::fs::read_dir(format!("{}/fuzz/corpus", repo)) {
            for d in rd.filter_map(|e| e.ok()) {
                if let Ok(rd2) = std::fs::read_dir(d.path()) {
                    let mut names: Vec<_> = rd2.filter_map(|e| e.ok()).map(|e| e.path()).collect();
                    names.sort();
                    for p in names {
                        if let Ok(b) = std::fs::read(&p) {
                            if b.len() <= (if thorough { 200000 } else { 6000 }) {
                                fz.push((format!("fuzz/{}", p.file_name().unwrap().to_string_lossy()), b));
                            }
                        }
                    }
                }
            }
        }
        let want = if thorough { 1200 } else { 120 };
        while fz.len() > want {
            let k = rng.below(fz.len() as u64) as usize;
            fz.swap_remove(k);
        }
        for (n, b) in fz {
            // fuzz inputs are raw: try as is, and behind a valid signature
            if let Some(r) = repair_crcs(&b) {
                files.push((format!("{}+crc", n), r));
            }
            files.push((n, b));
        }
    }
    let limits = [None, Some(0usize), Some(1000), Some(70000), Some(usize::MAX)];
    for (fi, (name, bytes)) in files.iter().enumerate() {
        let kind = if name.starts_with("fuzz/") { "fuzz" } else if name.contains('~') { "mutated" } else { "valid-or-crafted" };
        o.count(&format!("files.{}", kind));
        o.distinct(&format!("{}-{}", kind, bytes.len()));
        let reps = if thorough { 30 } else { 7 };
        for rep in 0..reps {
            let tbits = rng.below(8) as u32;
            let opts = if rep % 3 == 0 { Opts::default() } else { Opts::from_bits(rng.below(32) as u32) };
            let limit = limits[(fi + rep) % limits.len()];
            let n_ops = rng_len(&mut rng);
            let mut ops = random_ops(&mut rng, n_ops);
            // inputs that temporarily end: start with a prefix, grow between calls
            let vis0 = if rep % 2 == 1 && !bytes.is_empty() { rng.below(bytes.len() as u64 + 1) as usize } else { bytes.len() };
            if vis0 < bytes.len() {
                let mut k = 1;
                while k < ops.len() {
                    if rng.chance(1, 2) {
                        ops.insert(k, Op::Grow(*rng.pick(&[1usize, 3, 40, 0])));
                        k += 1;
                    }
                    k += 2;
                }
            }
            let sched: Vec<usize> = if rep % 4 == 3 { vec![rng.range(1, 9) as usize] } else { vec![0] };
            one(&mut o, name, bytes, &ops, opts, tbits, limit, vis0, &sched);
        }
    }
    // budgets that admit the first frames of an animation but not a later one: the calls made after LimitsExceeded must stay panic-free
    {
        let mut n = 0;
        for (name, bytes) in files.iter().filter(|(nm, b)| nm.contains("+a") && !nm.contains('~') && b.len() < 3000) {
            if n >= (if thorough { 60 } else { 12 }) { break; }
            n += 1;
            for limit in [8usize, 13, 20, 23, 32, 48, 64, 100, 160] {
                for head in [vec![Op::Frame; 5], vec![Op::FrameInfo, Op::Frame, Op::FrameInfo, Op::Frame, Op::Row, Op::Frame], vec![Op::Row; 30]] {
                    let mut ops = head.clone();
                    ops.extend(random_ops(&mut rng, 6));
                    one(&mut o, name, bytes, &ops, Opts::default(), 0, Some(limit), bytes.len(), &[0]);
                }
            }
        }
        o.count("small-budget-animations");
    }
    // exhaustive short sequences on a few small files
    let small: Vec<&(String, Vec<u8>)> = files.iter().filter(|(n, b)| b.len() < 400 && !n.starts_with("fuzz/")).take(if thorough { 12 } else { 5 }).collect();
    let len = if thorough { 5 } else { 4 };
    for (name, bytes) in small {
        for code in 0..7u64.pow(len as u32) {
            let ops = nth_sequence(code, len);
            one(&mut o, name, bytes, &ops, Opts::default(), (code % 8) as u32, None, bytes.len(), &[0]);
        }
        o.count("exhaustive-short-sequences");
    }
    o.mark("done");
    o.finish();
}

fn rng_len(rng: &mut Rng) -> usize {
    rng.range(1, 14) as usize
}

pub fn replay(_case: &str) -> String {
    "unknown-case".into()
}
