//! C13: all decoding paths agree (whole frames, single rows with either buffer ownership, with or without
//! interlace information re-assembled with the public Adam7 helper, frame skipping).
use crate::gen::*;
use crate::ops::*;
use crate::readerrun::*;
use crate::streamrun::*;
use crate::util::*;

fn viol(kind: &str, detail: Vec<(&str, String)>) -> String {
    let mut kv = vec![("kind", jstr(kind)), ("class", jstr(kind))];
    kv.extend(detail);
    jobj(&kv)
}

pub fn check_sequence(o: &mut Out, name: &str, bytes: &[u8], reference: &[(String, Vec<u8>)], ops: &[Op], tbits: u32, fill: u8) -> Trace {
    o.mark(&format!("ops {} t={} {} {}", ops_string(ops), tbits, name, hex(bytes)));
    let tr = run_ops(bytes, &[0], bytes.len(), Opts::default(), tbits, None, ops, fill);
    o.direct_checks += 1;
    if let Some(m) = &tr.panicked {
        o.violation(viol("panic-in-operation-sequence", vec![("file", jstr(name)), ("ops", jstr(&ops_string(ops))), ("transform", tbits.to_string()), ("panic", jstr(m)),
            ("bytes", jstr(&hex(bytes))), ("results", jstr(&tr.results.join(" | ")))]));
        return tr;
    }
    for why in &tr.left_frame {
        o.violation(viol("frame-call-in-mid-frame-left-the-current-frame", vec![("file", jstr(name)), ("ops", jstr(&ops_string(ops).chars().take(400).collect::<String>())), ("transform", tbits.to_string()), ("why", jstr(why)),
            ("bytes", jstr(&hex(bytes).chars().take(3000).collect::<String>())), ("results", jstr(&tr.results.iter().rev().take(8).rev().cloned().collect::<Vec<_>>().join(" | ")))]));
    }
    let mut last_idx: i64 = -1;
    for d in &tr.delivered {
        // the frame is identified by its frame-control values; the whole-frame reference decode of that frame is what every path must give
        let pos = reference.iter().position(|(f, _)| f.ends_with(&format!("fctl={}", d.fctl)));
        match pos {
            None => o.violation(viol("delivered-frame-not-in-file", vec![("file", jstr(name)), ("ops", jstr(&ops_string(ops))), ("fctl", jstr(&d.fctl)), ("bytes", jstr(&hex(bytes)))])),
            Some(k) => {
                if mask_padding(&d.pixels, d.line, d.row_bits) != mask_padding(&reference[k].1, d.line, d.row_bits) {
                    let first = d.pixels.iter().zip(reference[k].1.iter()).position(|(a, b)| a != b);
                    o.violation(viol("path-disagrees-with-whole-frame-decode", vec![("file", jstr(name)), ("ops", jstr(&ops_string(ops))), ("transform", tbits.to_string()), ("frame", k.to_string()),
                        ("delivered_via", jstr(&d.via)), ("first_differing_byte", jstr(&format!("{:?}", first))), ("bytes", jstr(&hex(bytes))),
                        ("got", jstr(&hex(&d.pixels))), ("whole_frame", jstr(&hex(&reference[k].1))), ("results", jstr(&tr.results.join(" | ")))]));
                }
                if (k as i64) <= last_idx {
                    o.violation(viol("frames-delivered-out-of-order", vec![("file", jstr(name)), ("ops", jstr(&ops_string(ops))), ("bytes", jstr(&hex(bytes))), ("results", jstr(&tr.results.join(" | ")))]));
                }
                last_idx = k as i64;
            }
        }
    }
    tr
}

/// the trace in the vocabulary of the Coq Reader model (frame indices instead of frame-control values)
pub fn abstract_trace(b: &Built, tr: &Trace) -> String {
    let idx = |fc: &str| -> i64 {
        b.frames.iter().position(|f| match f.fctl { Some(t) => format!("{}:{}:{}:{}:{}:{}:{}:{}:{}", t.0, t.1, t.2, t.3, t.4, t.5, t.6, t.7, t.8) == fc, None => fc == "none" }).map(|k| k as i64).unwrap_or(-1)
    };
    let mut v = vec![];
    for r in tr.results.iter().skip(2) {
        let (op, rest) = r.split_once(' ').unwrap_or((r, ""));
        if op == "G" || op.starts_with('+') {
            continue;
        }
        let fc = rest.split("fctl=").nth(1).unwrap_or("").trim();
        v.push(if rest.starts_with("ok") && op == "F" {
            format!("F{}", idx(fc))
        } else if rest.starts_with("ok") && op == "N" {
            format!("N{}", idx(rest[3..].trim()))
        } else if rest == "ok" {
            "X".to_string()
        } else if rest.starts_with("some") {
            let j = rest.split("idx=").nth(1).and_then(|x| x.split(' ').next()).unwrap_or("?");
            format!("r{}.{}", idx(fc), j)
        } else if rest == "none" {
            "none".to_string()
        } else if rest.starts_with("err:Param:PolledAfterEndOfImage") {
            "E".to_string()
        } else if rest.starts_with("err:Io:UnexpectedEof") {
            "eof".to_string()
        } else if rest.starts_with("err:Format:MissingImageData") {
            "missing".to_string()
        } else {
            rest.split(' ').next().unwrap_or("").to_string()
        });
    }
    v.join(" ")
}

pub fn model_case(o: &mut Out, b: &Built, ops: &[Op], tr: &Trace) {
    let rows: Vec<String> = b.frames.iter().map(|f| if b.spec.interlaced { crate::refimpl::adam7_rows_ref(f.w, f.h).len() } else { f.h as usize }.to_string()).collect();
    let declared = if b.animated { b.frames.len() } else { 1 };
    let letters: String = ops.iter().filter(|o| !matches!(o, Op::Getters | Op::Grow(_))).map(|o| match o { Op::Frame => 'F', Op::FrameInfo => 'N', Op::Finish => 'X', _ => 'R' }).collect();
    if letters.is_empty() {
        return;
    }
    o.case(&format!("reader {} {} {} {}", rows.join(","), declared, b.frames[0].fctl.is_some() as u8, letters), &abstract_trace(b, tr), &format!("{}-{}", rows.join(","), letters.len()), true);
}

pub fn test_files(rng: &mut Rng, n: usize) -> Vec<Built> {
    let mut v = vec![];
    let mut k = 0;
    while v.len() < n {
        // cover: interlace x animation x default image in/out x sub-frames
        let b = valid_file(rng, &GenOpts { maxw: 7, maxh: 5, anc: k % 3 == 0, animated: Some(k % 2 == 0) });
        k += 1;
        if b.spec.h < 2 && k % 4 != 0 {
            continue;
        }
        v.push(b);
    }
    v
}

pub fn run(a: &Args) {
    let mut o = Out::new(&a.out);
    let mut rng = Rng::new(a.seed);
    let thorough = a.tier == "thorough";
    let files = test_files(&mut rng, if thorough { 40 } else { 12 });
    let exhaustive_len = if thorough { 5 } else { 4 };
    for b in &files {
        let (end, reference) = decode_frames(&b.bytes, Opts::default(), 0, 0);
        if reference.len() != b.frames.len() {
            o.notes.push(format!("reference decode delivered {} of {} frames ({}): file skipped", reference.len(), b.frames.len(), end));
            continue;
        }
        o.count(&format!("file.{}{}", if b.animated { "apng" } else { "png" }, if b.spec.interlaced { ".adam7" } else { "" }));
        for len in 1..=exhaustive_len {
            for code in 0..7u64.pow(len as u32) {
                let ops = nth_sequence(code, len);
                let tr = check_sequence(&mut o, &b.name, &b.bytes, &reference, &ops, 0, 0xA5);
                if code % 5 == 0 || len <= 3 {
                    model_case(&mut o, b, &ops, &tr);
                }
            }
        }
        o.distinct(&format!("{}-{}-{}", b.animated, b.spec.interlaced, b.frames.len()));
        for _ in 0..(if thorough { 600 } else { 120 }) {
            let len = rng.range(5, 40) as usize;
            let ops = random_ops(&mut rng, len);
            let fill = *rng.pick(&[0u8, 0xFF, 0x3C]);
            let tr = check_sequence(&mut o, &b.name, &b.bytes, &reference, &ops, 0, fill);
            model_case(&mut o, b, &ops, &tr);
            o.distinct(&format!("{}-{}", b.name.len() % 5, tr.delivered.len()));
        }
        // with transformations (non-interlaced: rows can be placed without bit arithmetic on the output type)
        if !b.spec.interlaced {
            for tbits in [2u32, 3, 6] {
                let (_, refx) = decode_frames(&b.bytes, Opts::default(), tbits, 0);
                for _ in 0..(if thorough { 100 } else { 25 }) {
                    let len = rng.range(2, 25) as usize;
                    let ops = random_ops(&mut rng, len);
                    check_sequence(&mut o, &b.name, &b.bytes, &refx, &ops, tbits, 0);
                }
            }
        }
    }
    // frames of more than 32 KiB of highly compressible raw data: the inflater releases the last rows only with the end-of-sequence
    // flush, so the reader is for a while in the state "data sequence finished, rows still buffered"
    {
        use crate::pngbuild::*;
        // (last entry: the file carries one frame MORE than acTL announces; it must never be delivered, however the announced ones were read)
        for (w, h, nframes, announced) in [(16u32, 2100u32, 3u32, 3u32), (40, 900, 2, 2), (16, 1936, 3, 3), (16, 1930, 2, 2), (31, 1026, 2, 2), (8, 3650, 2, 2), (16, 1936, 3, 2), (128, 255, 3, 2)] {
            let mut chunks = vec![ihdr(w, h, 8, 0, 0), actl_chunk(announced, 0)];
            let mut seq = 0u32;
            for f in 0..nframes {
                let mut raw = vec![];
                for r in 0..h { raw.push(if f == 1 { 2 } else { 0 }); raw.extend((0..w).map(|x| ((r / 64) as u8).wrapping_mul(3).wrapping_add(f as u8 * 40).wrapping_add((x / 8) as u8))); }
                let z = zlib_flate2(&raw, 9);
                chunks.push(fctl_chunk(seq, w, h, 0, 0, 1, 10, 0, 0)); seq += 1;
                if f == 0 { chunks.push(Chunk::new(b"IDAT", z)); } else { chunks.push(fdat_chunk(seq, &z)); seq += 1; }
            }
            chunks.push(Chunk::new(b"IEND", vec![]));
            let bytes = assemble(&chunks);
            let name = format!("tall-compressible-{}x{}x{}of{}", w, h, announced, nframes);
            let (end, reference) = decode_frames(&bytes, Opts::default(), 0, 0);
            if reference.len() != announced as usize {
                o.violation(viol("reference-decode-incomplete", vec![("file", jstr(&name)), ("end", jstr(&end)), ("frames", reference.len().to_string())]));
                continue;
            }
            o.count("file.tall-compressible-apng");
            let edge = (32768 / (w as usize + 1)).min(h as usize - 1);   // the first row that needs data beyond the inflater's first 32 KiB
            let ks: Vec<usize> = vec![0, 1, 64, h as usize / 2, edge - 1, edge, edge + 1, edge + 2, h as usize - 2, h as usize - 1, h as usize];
            for &k in &ks {
                for tail in [vec![Op::Frame, Op::Frame, Op::Frame, Op::Frame], vec![Op::Row, Op::Row, Op::FrameInfo, Op::Frame, Op::Frame, Op::Frame], vec![Op::FrameInfo, Op::Row, Op::Row, Op::Frame, Op::Frame], vec![Op::ReadRow, Op::Frame, Op::FrameInfo, Op::Frame], vec![Op::IRow, Op::Getters, Op::Frame, Op::Row, Op::Frame]] {
                  for prefix in [vec![], vec![Op::Frame], vec![Op::FrameInfo]] {
                    let mut ops: Vec<Op> = prefix.clone();
                    ops.extend((0..k).map(|i| if i % 3 == 0 { Op::Row } else if i % 3 == 1 { Op::ReadRow } else { Op::IRow }));
                    ops.extend(tail.clone());
                    let tr = check_sequence(&mut o, &name, &bytes, &reference, &ops, 0, 0x5A);
                    if std::env::var("VERIF_DEBUG").is_ok() { eprintln!("{} k={} : {}", name, k, tr.results.iter().rev().take(6).rev().cloned().collect::<Vec<_>>().join(" | ")); }
                    o.distinct(&format!("{}-{}-{}", name, k, prefix.len()));
                  }
                }
            }
        }
    }
    o.mark("done");
    o.finish();
}

pub fn replay(_case: &str) -> String {
    "unknown-case".into()
}
