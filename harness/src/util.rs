//! Shared helpers: PRNG (SplitMix64), hex, case/result sinks, statistics, panic capture.
use std::collections::{BTreeMap, HashSet};
use std::fmt::Write as _;
use std::io::Write;
use std::panic::{catch_unwind, AssertUnwindSafe};

thread_local! {
    /// when set, `Rng::bytes` yields incompressible noise only (cases that need a given amount of COMPRESSED data)
    pub static NOISE_ONLY: std::cell::Cell<bool> = std::cell::Cell::new(false);
}

#[derive(Clone)]
pub struct Rng(pub u64);
impl Rng {
    pub fn new(seed: u64) -> Self {
        Rng(seed ^ 0x9E37_79B9_7F4A_7C15)
    }
    pub fn next(&mut self) -> u64 {
        self.0 = self.0.wrapping_add(0x9E37_79B9_7F4A_7C15);
        let mut z = self.0;
        z = (z ^ (z >> 30)).wrapping_mul(0xBF58_476D_1CE4_E5B9);
        z = (z ^ (z >> 27)).wrapping_mul(0x94D0_49BB_1331_11EB);
        z ^ (z >> 31)
    }
    pub fn below(&mut self, n: u64) -> u64 {
        if n == 0 {
            0
        } else {
            self.next() % n
        }
    }
    pub fn range(&mut self, lo: u64, hi: u64) -> u64 {
        lo + self.below(hi - lo + 1)
    }
    pub fn chance(&mut self, num: u64, den: u64) -> bool {
        self.below(den) < num
    }
    pub fn pick<'a, T>(&mut self, xs: &'a [T]) -> &'a T {
        &xs[self.below(xs.len() as u64) as usize]
    }
    pub fn byte(&mut self) -> u8 {
        self.next() as u8
    }
    /// bytes drawn from one of several "adversarial" distributions
    pub fn bytes(&mut self, n: usize) -> Vec<u8> {
        let mode = self.below(6);
        let mode = if NOISE_ONLY.with(|c| c.get()) { 0 } else { mode };
        (0..n)
            .map(|i| match mode {
                0 => self.byte(),
                1 => *self.pick(&[0u8, 255, 127, 128, 1, 254]),
                2 => (i as u8).wrapping_mul(7),
                3 => {
                    if self.chance(1, 8) {
                        self.byte()
                    } else {
                        255
                    }
                }
                4 => {
                    if self.chance(1, 8) {
                        self.byte()
                    } else {
                        0
                    }
                }
                _ => (self.below(4) as u8).wrapping_mul(85),
            })
            .collect()
    }
}

pub fn hex(b: &[u8]) -> String {
    if b.is_empty() {
        return "-".to_string();
    }
    let mut s = String::with_capacity(b.len() * 2);
    for x in b {
        write!(s, "{:02x}", x).unwrap();
    }
    s
}

pub fn unhex(s: &str) -> Vec<u8> {
    if s == "-" {
        return vec![];
    }
    (0..s.len() / 2)
        .map(|i| u8::from_str_radix(&s[2 * i..2 * i + 2], 16).unwrap())
        .collect()
}

/// Run `f`, mapping a panic to `Err(message)`.
pub fn guarded<T>(f: impl FnOnce() -> T) -> Result<T, String> {
    match catch_unwind(AssertUnwindSafe(f)) {
        Ok(v) => Ok(v),
        Err(e) => {
            let msg = if let Some(s) = e.downcast_ref::<&str>() {
                s.to_string()
            } else if let Some(s) = e.downcast_ref::<String>() {
                s.clone()
            } else {
                "panic".to_string()
            };
            Err(msg.replace('\n', " "))
        }
    }
}

/// Sink for one property run: cases for the model, implementation results, direct violations, statistics.
pub struct Out {
    pub dir: String,
    cases: std::io::BufWriter<std::fs::File>,
    results: std::io::BufWriter<std::fs::File>,
    pub n: u64,
    sigs: HashSet<u64>,
    pub dist: BTreeMap<String, u64>,
    pub samples: Vec<String>,
    pub violations: Vec<String>,
    pub notes: Vec<String>,
    pub direct_checks: u64,
}

impl Out {
    pub fn new(dir: &str) -> Self {
        std::fs::create_dir_all(dir).unwrap();
        Out {
            dir: dir.to_string(),
            cases: std::io::BufWriter::new(std::fs::File::create(format!("{}/cases.txt", dir)).unwrap()),
            results: std::io::BufWriter::new(std::fs::File::create(format!("{}/impl.txt", dir)).unwrap()),
            n: 0,
            sigs: HashSet::new(),
            dist: BTreeMap::new(),
            samples: vec![],
            violations: vec![],
            notes: vec![],
            direct_checks: 0,
        }
    }
    /// One model-comparable case: `case` is the line given to the model, `result` the implementation's answer.
    /// `sig` is the structural signature used to count distinct non-trivial cases.
    pub fn case(&mut self, case: &str, result: &str, sig: &str, nontrivial: bool) {
        writeln!(self.cases, "{}", case).unwrap();
        writeln!(self.results, "{}", result).unwrap();
        self.n += 1;
        if nontrivial {
            self.sigs.insert(fnv(sig.as_bytes()));
        }
        if self.samples.len() < 6 && (self.n % 97 == 1) {
            let mut c = case.to_string();
            if c.len() > 300 {
                c.truncate(300);
                c.push_str("...");
            }
            self.samples.push(c);
        }
    }
    /// Progress marker read by the orchestrator when the harness is killed by the watchdog or aborts:
    /// the case being executed is then the replay.
    pub fn mark(&self, what: &str) {
        let _ = std::fs::write(format!("{}/current.txt", self.dir), what);
    }
    pub fn count(&mut self, key: &str) {
        *self.dist.entry(key.to_string()).or_insert(0) += 1;
    }
    pub fn distinct(&mut self, sig: &str) {
        self.sigs.insert(fnv(sig.as_bytes()));
    }
    /// A direct property failure observed on the implementation (input in hand). `json` is a JSON object body.
    pub fn violation(&mut self, json: String) {
        // keep at most 5 per class (so that a listed known finding cannot crowd out a different violation)
        let class = json.split("\"class\": \"").nth(1).and_then(|r| r.split('"').next()).unwrap_or("").to_string();
        let n = self.violations.iter().filter(|v| v.contains(&format!("\"class\": \"{}\"", class))).count();
        if n < 5 && self.violations.len() < 200 {
            self.violations.push(json);
        }
    }
    pub fn finish(mut self) {
        self.cases.flush().unwrap();
        self.results.flush().unwrap();
        let mut s = String::new();
        s.push_str("{\n");
        write!(s, " \"cases\": {},\n \"distinct_nontrivial\": {},\n \"direct_checks\": {},\n", self.n, self.sigs.len(), self.direct_checks).unwrap();
        s.push_str(" \"distribution\": {");
        let mut first = true;
        for (k, v) in &self.dist {
            if !first {
                s.push(',');
            }
            first = false;
            write!(s, "\n  {}: {}", jstr(k), v).unwrap();
        }
        s.push_str("\n },\n \"samples\": [");
        for (i, x) in self.samples.iter().enumerate() {
            if i > 0 {
                s.push(',');
            }
            write!(s, "\n  {}", jstr(x)).unwrap();
        }
        s.push_str("\n ],\n \"notes\": [");
        for (i, x) in self.notes.iter().enumerate() {
            if i > 0 {
                s.push(',');
            }
            write!(s, "\n  {}", jstr(x)).unwrap();
        }
        s.push_str("\n ],\n \"violations\": [");
        for (i, x) in self.violations.iter().enumerate() {
            if i > 0 {
                s.push(',');
            }
            write!(s, "\n  {}", x).unwrap();
        }
        s.push_str("\n ]\n}\n");
        std::fs::write(format!("{}/stats.json", self.dir), s).unwrap();
    }
}

pub fn fnv(b: &[u8]) -> u64 {
    let mut h: u64 = 0xcbf29ce484222325;
    for x in b {
        h ^= *x as u64;
        h = h.wrapping_mul(0x100000001b3);
    }
    h
}

pub fn jstr(s: &str) -> String {
    let mut o = String::from("\"");
    for c in s.chars() {
        match c {
            '"' => o.push_str("\\\""),
            '\\' => o.push_str("\\\\"),
            '\n' => o.push_str("\\n"),
            '\t' => o.push_str("\\t"),
            c if (c as u32) < 0x20 => write!(o, "\\u{:04x}", c as u32).unwrap(),
            c => o.push(c),
        }
    }
    o.push('"');
    o
}

/// Build a JSON object from key/value pairs (values already JSON-encoded).
pub fn jobj(kv: &[(&str, String)]) -> String {
    let mut s = String::from("{");
    for (i, (k, v)) in kv.iter().enumerate() {
        if i > 0 {
            s.push_str(", ");
        }
        write!(s, "{}: {}", jstr(k), v).unwrap();
    }
    s.push('}');
    s
}

pub struct Args {
    pub tier: String,
    pub seed: u64,
    pub out: String,
    pub replay: Option<String>,
    pub scale: u64,
}
